//go:build verif

package cache

import (
	"strings"
	"sync"
	"context"
	"net/netip"
	"time"

	"github.com/miekg/dns"
	"github.com/semihalev/sdns/config"
	"github.com/semihalev/sdns/middleware"
)

// Accessors for the C08 driver (no behaviour change).

// VerifC08Remaining evaluates CacheEntry.remaining on an entry with the given fields.
func VerifC08Remaining(stored time.Time, ttl time.Duration, cutUntil time.Time, now time.Time, state ...string) time.Duration {
	e := &CacheEntry{stored: stored, ttl: ttl, cutUntil: cutUntil}
	// everything about an entry that is NOT a time: a claimed background refresh, a rate limit,
	// an ECS scope, an original TTL for the prefetch threshold — none of it may move the deadline
	for _, st := range state {
		switch st {
		case "claimed":
			e.prefetch.Store(true)
		case "scoped":
			e.scope = netip.MustParsePrefix("198.51.100.0/24")
		case "limited":
			e.rateLimit = 5
		case "orig":
			e.origTTL = 86400
		}
	}
	return e.remaining(now)
}

// VerifC08PrefetchBusy reports whether a background refresh is queued or running.
func VerifC08PrefetchBusy(c *Cache) bool {
	if c.prefetchQueue == nil {
		return false
	}
	if len(c.prefetchQueue.items) > 0 {
		return true
	}
	if t, ok := c.prefetchQueryer.(*verifC08Tracker); ok && t.busy() {
		return true
	}
	busy := false
	c.store.ForEach(func(_ bool, _ uint64, e *CacheEntry) bool {
		if e.prefetch.Load() {
			busy = true
			return false
		}
		return true
	})
	return busy
}

// VerifC08Prefetches reads the completed-refresh counter.
func VerifC08Prefetches(c *Cache) int64 {
	_, _, _, p := c.metrics.Stats()
	return p
}

// VerifC08CacheEntry is the lifetime-relevant view of one stored answer.
type VerifC08CacheEntry struct {
	Positive bool
	Question dns.Question
	CD       bool
	Stored   time.Time
	TTL      time.Duration
	CutUntil time.Time
	Msg      *dns.Msg
}

// VerifC08CacheEntries lists every stored answer entry.
func VerifC08CacheEntries(c *Cache) []VerifC08CacheEntry {
	var out []VerifC08CacheEntry
	c.store.ForEach(func(pos bool, _ uint64, e *CacheEntry) bool {
		out = append(out, VerifC08CacheEntry{Positive: pos, Question: e.question, CD: e.cd, Stored: e.stored,
			TTL: e.ttl, CutUntil: e.cutUntil, Msg: e.storedMsg()})
		return true
	})
	return out
}

// VerifC08Replace drives the real Store.ReplaceIfCurrent (the prefetch
// write-back): an entry of kind `have` is stored under the question's key with
// cut `haveCut`, then a refresh answer of kind `kind` (ttl seconds) is written
// back with the refresh's own cut. Returns whether the CAS happened and the
// replacement entry's cutUntil / cutKey as stored (raw read, no expiry filter).
// Kinds: "pos", "nx", "nodata", "servfail".
func VerifC08Replace(c *Cache, have, kind string, ttl uint32, haveCut, cut time.Time, cutKey uint64) (replaced bool, gotCut time.Time, gotKey uint64, found bool) {
	mk := func(k string) *dns.Msg {
		m := new(dns.Msg)
		m.SetQuestion("refresh.c08.example.", dns.TypeA)
		m.Response = true
		soa := &dns.SOA{Hdr: dns.RR_Header{Name: "c08.example.", Rrtype: dns.TypeSOA, Class: dns.ClassINET, Ttl: ttl},
			Ns: "ns.c08.example.", Mbox: "h.c08.example.", Serial: 1, Refresh: 60, Retry: 60, Expire: 60, Minttl: ttl}
		switch k {
		case "pos":
			m.Answer = []dns.RR{&dns.A{Hdr: dns.RR_Header{Name: "refresh.c08.example.", Rrtype: dns.TypeA, Class: dns.ClassINET, Ttl: ttl}, A: []byte{192, 0, 2, 1}}}
		case "nx":
			m.Rcode = dns.RcodeNameError
			m.Ns = []dns.RR{soa}
		case "nodata":
			m.Ns = []dns.RR{soa}
		case "servfail":
			m.Rcode = dns.RcodeServerFailure
		}
		return m
	}
	s := c.store
	first := mk(have)
	key := CacheKey{Question: first.Question[0], CD: false}.Hash()
	s.positive.Remove(key)
	s.negative.Remove(key)
	var expected *CacheEntry
	if have == "servfail" {
		// the exported Store/NegativeCache contract: a manually seeded negative-cache entry
		expected = NewCacheEntryWithKey(first, 30*time.Second, 0, key)
		expected.cutUntil = haveCut
		s.negative.Set(key, expected)
	} else {
		s.SetFromResponseWithKey(key, first, haveCut, 1)
		if v, ok := s.positive.cache.Get(key); ok {
			expected, _ = v.(*CacheEntry)
		}
	}
	if expected == nil {
		return false, time.Time{}, 0, false
	}
	replaced = s.ReplaceIfCurrent(key, expected, mk(kind), cut, cutKey)
	for _, sub := range []interface {
		Get(uint64) (any, bool)
	}{s.positive.cache, s.negative.cache} {
		if v, ok := sub.Get(key); ok {
			if e, ok := v.(*CacheEntry); ok && e != expected {
				return replaced, e.cutUntil, e.cutKey, true
			}
		}
	}
	return replaced, time.Time{}, 0, false
}

// VerifC08EntryTimes stores an answer with cut `cut` through the real write path
// and refreshes it through ReplaceIfCurrent; returns the entry's cutUntil and
// stored instants and the refreshed entry's cutUntil, exactly as kept.
func VerifC08EntryTimes(c *Cache, cut time.Time) (cutUntil, stored, refreshedCut time.Time) {
	m := new(dns.Msg)
	m.SetQuestion("mono.c08.example.", dns.TypeA)
	m.Response = true
	m.Answer = []dns.RR{&dns.A{Hdr: dns.RR_Header{Name: "mono.c08.example.", Rrtype: dns.TypeA, Class: dns.ClassINET, Ttl: 300}, A: []byte{192, 0, 2, 1}}}
	key := CacheKey{Question: m.Question[0], CD: false}.Hash()
	c.store.SetFromResponseWithKey(key, m, cut, 1)
	v, ok := c.store.positive.cache.Get(key)
	if !ok {
		return
	}
	e := v.(*CacheEntry)
	cutUntil, stored = e.cutUntil, e.stored
	if c.store.ReplaceIfCurrent(key, e, m, cut, 1) {
		if v, ok := c.store.positive.cache.Get(key); ok {
			refreshedCut = v.(*CacheEntry).cutUntil
		}
	}
	return
}

// VerifC08Inherit runs the real subQueryLineage.inherit(): the deriving request
// (parent) inherits the bound of a consumed sub-query (child).
func VerifC08Inherit(parent, child *middleware.ResponseMeta) {
	l := subQueryLineage{parent: parent, child: child}
	l.inherit()
}

// VerifC08DenialProofExpiry exposes denialProofExpiry (lifetime of an RFC 8198 / RFC 8020
// proof the cache synthesizes answers from) over a SOA + NSEC record set.
func VerifC08DenialProofExpiry(now time.Time, maxTTL time.Duration, cutUntil time.Time, soaTTL, soaMin uint32, nsecTTLs []uint32) (time.Time, bool) {
	var rrs []dns.RR
	rrs = append(rrs, &dns.SOA{Hdr: dns.RR_Header{Name: "c08.example.", Rrtype: dns.TypeSOA, Class: dns.ClassINET, Ttl: soaTTL}, Ns: "ns.c08.example.", Mbox: "h.c08.example.", Minttl: soaMin})
	for i, t := range nsecTTLs {
		rrs = append(rrs, &dns.NSEC{Hdr: dns.RR_Header{Name: "a.c08.example.", Rrtype: dns.TypeNSEC, Class: dns.ClassINET, Ttl: t}, NextDomain: "z.c08.example.", TypeBitMap: []uint16{uint16(1 + i)}})
	}
	return denialProofExpiry(now, maxTTL, cutUntil, rrs)
}

// VerifC08MaxDenialProofTTL reads the ceiling constant.
func VerifC08MaxDenialProofTTL() time.Duration { return maxDenialProofTTL }

type verifC08Stub struct {
	cut time.Time
	key uint64
	msg func(req *dns.Msg) *dns.Msg
}

func (q *verifC08Stub) Query(ctx context.Context, req *dns.Msg) (*dns.Msg, error) {
	// what the resolver behind the prefetch sub-pipeline does: report the lease it walked
	middleware.ResponseMetaFrom(ctx).BoundCutFor(q.cut, q.key)
	return q.msg(req), nil
}

func verifC08Msg(kind string, ttl uint32, ecsScope uint8) *dns.Msg {
	m := new(dns.Msg)
	m.SetQuestion("write.c08.example.", dns.TypeA)
	m.Response = true
	soa := &dns.SOA{Hdr: dns.RR_Header{Name: "c08.example.", Rrtype: dns.TypeSOA, Class: dns.ClassINET, Ttl: ttl},
		Ns: "ns.c08.example.", Mbox: "h.c08.example.", Serial: 1, Refresh: 60, Retry: 60, Expire: 60, Minttl: ttl}
	switch kind {
	case "pos":
		m.Answer = []dns.RR{&dns.A{Hdr: dns.RR_Header{Name: "write.c08.example.", Rrtype: dns.TypeA, Class: dns.ClassINET, Ttl: ttl}, A: []byte{192, 0, 2, 1}}}
	case "nx":
		m.Rcode = dns.RcodeNameError
		m.Ns = []dns.RR{soa}
	case "nodata":
		m.Ns = []dns.RR{soa}
	case "servfail":
		m.Rcode = dns.RcodeServerFailure
	}
	_ = ecsScope
	return m
}

// VerifC08Write stores an answer of the given kind through one of the REAL write
// entry points of the answer cache with delegation cut `cut` and returns the cutUntil
// / cutKey the stored entry carries. Paths: "key" (ResponseWriter's
// SetFromResponseWithKey), "subq" (Resolver.subQuery's SetFromResponseWithCut), "scoped"
// (RFC 7871 SetFromResponseScoped; ecsCap is cache_limit_ttl, 0 = off), "prefetch" /
// "prefetch-ecs" (PrefetchQueue.processPrefetch, claimed by a plain / an ECS client: the
// refresh's resolver reports `cut` into the context's ResponseMeta).
func VerifC08Write(path, kind string, ttl uint32, cut time.Time, cutKey uint64, ecsCap time.Duration) (gotCut time.Time, gotKey uint64, found bool) {
	// "a>b": the stored / claimed entry is of kind a, the background refresh answers with kind b
	refresh := kind
	if a, b, ok := strings.Cut(kind, ">"); ok {
		kind, refresh = a, b
	}
	cfg := &config.Config{CacheSize: 1024, Expire: 600, Prefetch: 50}
	cfg.ECS.CacheLimitTTL.Duration = ecsCap
	c := New(cfg)
	defer c.Stop()
	msg := verifC08Msg(kind, ttl, 0)
	key := CacheKey{Question: msg.Question[0], CD: false}.Hash()
	read := func(k uint64, not *CacheEntry) (time.Time, uint64, bool) {
		if v, ok := c.store.positive.cache.Get(k); ok {
			if e, ok := v.(*CacheEntry); ok && e != not {
				return e.cutUntil, e.cutKey, true
			}
		}
		return time.Time{}, 0, false
	}
	switch path {
	case "key":
		c.store.SetFromResponseWithKey(key, msg, cut, cutKey)
		return read(key, nil)
	case "subq":
		c.store.SetFromResponseWithCut(msg, false, cut, cutKey)
		return read(key, nil)
	case "scoped":
		scope := netip.MustParsePrefix("198.51.100.0/24")
		sk := CacheKey{Question: msg.Question[0], CD: false, Scope: scope}.Hash()
		c.store.SetFromResponseScoped(sk, msg, scope, cut, cutKey)
		return read(sk, nil)
	case "prefetch", "prefetch-ecs":
		// the claimed entry was learned under an older, longer cut; the refresh walks `cut`
		c.store.SetFromResponseWithKey(key, msg, cut.Add(time.Hour), 1)
		v, ok := c.store.positive.cache.Get(key)
		if !ok {
			return time.Time{}, 0, false
		}
		claimed := v.(*CacheEntry)
		c.SetPrefetchQueryer(&verifC08Stub{cut: cut, key: cutKey, msg: func(*dns.Msg) *dns.Msg { return verifC08Msg(refresh, ttl, 0) }})
		claimed.prefetch.Store(true)
		req := new(dns.Msg)
		req.SetQuestion("write.c08.example.", dns.TypeA)
		c.prefetchQueue.processPrefetch(PrefetchRequest{Request: req, Key: key, Cache: c, Entry: claimed, RequestHadECS: path == "prefetch-ecs"})
		return read(key, claimed)
	}
	return time.Time{}, 0, false
}

// verifC08Tracker wraps the prefetch queryer to know which background refreshes are still
// running: processPrefetch cancels its context (its outermost defer) only when everything
// — the exchange, the write-back AND the denial-proof / NXDOMAIN-cut publication that follows
// it — is done. Accessor only: the wrapped queryer is called unchanged.
type verifC08Tracker struct {
	inner middleware.Queryer
	mu    sync.Mutex
	live  []context.Context
}

func (t *verifC08Tracker) Query(ctx context.Context, req *dns.Msg) (*dns.Msg, error) {
	t.mu.Lock()
	t.live = append(t.live, ctx)
	t.mu.Unlock()
	return t.inner.Query(ctx, req)
}

func (t *verifC08Tracker) busy() bool {
	t.mu.Lock()
	defer t.mu.Unlock()
	keep := t.live[:0]
	for _, c := range t.live {
		select {
		case <-c.Done():
		default:
			keep = append(keep, c)
		}
	}
	t.live = keep
	return len(keep) > 0
}

// VerifC08TrackPrefetch installs the tracker (call once, after the pipeline is wired).
func VerifC08TrackPrefetch(c *Cache) {
	if c.prefetchQueryer == nil {
		return
	}
	if _, ok := c.prefetchQueryer.(*verifC08Tracker); !ok {
		c.prefetchQueryer = &verifC08Tracker{inner: c.prefetchQueryer}
	}
}

// VerifC08EntryBound runs the real boundRequestToEntryLifetime: a cache HIT folds the
// entry's lifetime into the request tree's ResponseMeta (already holding `have`), so
// whatever is derived from the hit inherits it. Returns the meta's cut afterwards.
func VerifC08EntryBound(have time.Time, stored time.Time, ttl time.Duration, cut time.Time, cutKey uint64) (time.Time, uint64) {
	var m middleware.ResponseMeta
	m.BoundCutFor(have, 99)
	ctx := middleware.WithResponseMeta(context.Background(), &m)
	boundRequestToEntryLifetime(ctx, &CacheEntry{stored: stored, ttl: ttl, cutUntil: cut, cutKey: cutKey})
	return m.Cut()
}
