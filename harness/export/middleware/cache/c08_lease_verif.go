//go:build verif

package cache

import (
	"time"

	"github.com/miekg/dns"
)

// Accessors for the C08 driver (no behaviour change).

// VerifC08Remaining evaluates CacheEntry.remaining on an entry with the given fields.
func VerifC08Remaining(stored time.Time, ttl time.Duration, cutUntil time.Time, now time.Time) time.Duration {
	e := &CacheEntry{stored: stored, ttl: ttl, cutUntil: cutUntil}
	return e.remaining(now)
}

// VerifC08PrefetchBusy reports whether a background refresh is queued or running.
func VerifC08PrefetchBusy(c *Cache) bool {
	if c.prefetchQueue == nil {
		return false
	}
	if len(c.prefetchQueue.items) > 0 {
		return true
	}
	busy := false
	c.store.ForEach(func(_ bool, _ uint64, e *CacheEntry) bool {
		if e.prefetch.Load() {
			busy = true
			return false
		}
		return true
	})
	return busy
}

// VerifC08Prefetches reads the completed-refresh counter.
func VerifC08Prefetches(c *Cache) int64 {
	_, _, _, p := c.metrics.Stats()
	return p
}

// VerifC08CacheEntry is the lifetime-relevant view of one stored answer.
type VerifC08CacheEntry struct {
	Positive bool
	Question dns.Question
	CD       bool
	Stored   time.Time
	TTL      time.Duration
	CutUntil time.Time
	Msg      *dns.Msg
}

// VerifC08CacheEntries lists every stored answer entry.
func VerifC08CacheEntries(c *Cache) []VerifC08CacheEntry {
	var out []VerifC08CacheEntry
	c.store.ForEach(func(pos bool, _ uint64, e *CacheEntry) bool {
		out = append(out, VerifC08CacheEntry{Positive: pos, Question: e.question, CD: e.cd, Stored: e.stored,
			TTL: e.ttl, CutUntil: e.cutUntil, Msg: e.storedMsg()})
		return true
	})
	return out
}
