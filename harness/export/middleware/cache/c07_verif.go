//go:build verif

package cache

import (
	"context"
	"time"

	"github.com/miekg/dns"
	"github.com/semihalev/sdns/middleware"
)

// Accessors for the C07 correspondence driver (no behaviour change).

// VerifC07FilterCacheableAnswer exposes filterCacheableAnswer.
func VerifC07FilterCacheableAnswer(res *dns.Msg) *dns.Msg { return filterCacheableAnswer(res) }

// VerifC07Cached returns the message stored for (q, cd) in the positive or
// negative sub-cache (nil when nothing is stored), rebuilt for req. It never
// resolves anything: it is a plain store lookup.
func VerifC07Cached(c *Cache, req *dns.Msg) *dns.Msg {
	e, ok := c.store.Lookup(req)
	if !ok || e == nil {
		return nil
	}
	return e.ToMsg(req)
}

// VerifC07AdditionalAnswer runs Cache.additionalAnswer on a cache whose only
// wired part is the sub-pipeline Queryer q (the chase uses nothing else).
func VerifC07AdditionalAnswer(ctx context.Context, q middleware.Queryer, msg *dns.Msg) *dns.Msg {
	c := &Cache{queryer: q}
	return c.additionalAnswer(ctx, msg)
}

// VerifC07AgeFailures moves the retry deadline of every cached resolution
// failure (RFC 9520 state only) d into the past: the back-off has run out,
// record TTLs are untouched. Same technique as the l3 VerifShift accessor.
func VerifC07AgeFailures(c *Cache, d time.Duration) {
	fc := c.failure
	if fc == nil || fc.entries == nil {
		return
	}
	type kv struct {
		k uint64
		v *failureEntry
	}
	var all []kv
	fc.entries.ForEach(func(key uint64, v any) bool {
		if fe, ok := v.(*failureEntry); ok {
			all = append(all, kv{key, fe})
		}
		return true
	})
	for _, e := range all {
		cp := *e.v
		cp.retryAfter = cp.retryAfter.Add(-d)
		fc.entries.Add(e.k, &cp)
	}
}
