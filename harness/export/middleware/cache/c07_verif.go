//go:build verif

package cache

import "github.com/miekg/dns"

// Accessors for the C07 correspondence driver (no behaviour change).

// VerifC07FilterCacheableAnswer exposes filterCacheableAnswer.
func VerifC07FilterCacheableAnswer(res *dns.Msg) *dns.Msg { return filterCacheableAnswer(res) }

// VerifC07Cached returns the message stored for (q, cd) in the positive or
// negative sub-cache (nil when nothing is stored), rebuilt for req. It never
// resolves anything: it is a plain store lookup.
func VerifC07Cached(c *Cache, req *dns.Msg) *dns.Msg {
	e, ok := c.store.Lookup(req)
	if !ok || e == nil {
		return nil
	}
	return e.ToMsg(req)
}
