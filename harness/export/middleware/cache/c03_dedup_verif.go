//go:build verif

package cache

import (
	"net/netip"

	"github.com/miekg/dns"
	"github.com/semihalev/sdns/internal/waitgroup"
)

// VerifC03InflightKeys lists the single-flight keys that have a leader right
// now (read from inside the next handler: the key the running request joined).
func VerifC03InflightKeys(c *Cache) []uint64 { return waitgroup.VerifC03Keys(c.wg) }

// VerifC03RetryKey is Store.FailureRetryKey.
func VerifC03RetryKey(c *Cache, req *dns.Msg, scope netip.Prefix) (uint64, bool) {
	return c.store.FailureRetryKey(req, scope)
}
