//go:build verif

package cache

import (
	"github.com/miekg/dns"
	"github.com/semihalev/sdns/middleware"
)

// VerifC01SearchAdditionalAnswer exposes searchAdditionalAnswer (the CNAME
// chase merge that ANDs the hop's AD bit into the outer message). Accessor only.
func VerifC01SearchAdditionalAnswer(msg, res *dns.Msg) (string, bool) {
	return searchAdditionalAnswer(msg, res)
}

// VerifC01ServeWire exposes CacheEntry.serveWire (the byte-serving hit path). Accessor only.
func VerifC01ServeWire(e *CacheEntry, req *dns.Msg, do bool) ([]byte, middleware.WireInfo, bool) {
	return e.serveWire(req, 64, do)
}

// VerifC01WireChaseServed reads the counter of replies composed by the cache-contained wire chase.
func VerifC01WireChaseServed() uint64 { return uint64(wireChaseServed.Value()) }
