//go:build verif

package cache

import "github.com/miekg/dns"

// VerifC01SearchAdditionalAnswer exposes searchAdditionalAnswer (the CNAME
// chase merge that ANDs the hop's AD bit into the outer message). Accessor only.
func VerifC01SearchAdditionalAnswer(msg, res *dns.Msg) (string, bool) {
	return searchAdditionalAnswer(msg, res)
}
