//go:build verif

package cache

import (
	"time"

	internalcache "github.com/semihalev/sdns/internal/cache"
)

// Accessors for the C16 driver (expiry-cleanup route of the answer caches).

// VerifC16Entry builds a bare cache entry that is already expired (stored two
// hours ago with a one hour TTL) or fresh. Constructor only.
func VerifC16Entry(expired bool) *CacheEntry {
	e := &CacheEntry{stored: time.Now(), ttl: time.Hour}
	if expired {
		e.stored = e.stored.Add(-2 * time.Hour)
	}
	return e
}

// VerifC16EntryCut builds an entry whose TTL is still running but whose
// delegation-cut deadline has lapsed (the other way an entry is expired).
func VerifC16EntryCut() *CacheEntry {
	e := &CacheEntry{stored: time.Now(), ttl: time.Hour}
	e.cutUntil = e.stored.Add(-time.Minute)
	return e
}

// VerifC16FailEntries exposes the table behind a FailureCache; VerifC16FailHash
// the table key of an exact question (what record / ResetQuestion use).
func VerifC16FailEntries(c *FailureCache) *internalcache.Cache { return c.entries }

// VerifC16FailHash is failureQuestionHash of the normalised key.
func VerifC16FailHash(k FailureQuestionKey) uint64 {
	return failureQuestionHash(normalizeFailureQuestionKey(k))
}
