//go:build verif

package cache

import "time"

// Accessors for the C16 driver (expiry-cleanup route of the answer caches).

// VerifC16Entry builds a bare cache entry that is already expired (stored two
// hours ago with a one hour TTL) or fresh. Constructor only.
func VerifC16Entry(expired bool) *CacheEntry {
	e := &CacheEntry{stored: time.Now(), ttl: time.Hour}
	if expired {
		e.stored = e.stored.Add(-2 * time.Hour)
	}
	return e
}
