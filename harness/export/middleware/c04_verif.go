//go:build verif

package middleware

// VerifC04AutoWire exposes Pipeline.autoWire (accessor only): wires the
// queryer / prefetch queryer sub-pipelines exactly as Setup does.
func VerifC04AutoWire(p *Pipeline) { p.autoWire() }
