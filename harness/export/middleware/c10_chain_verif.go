//go:build verif

package middleware

import (
	"fmt"

	"github.com/miekg/dns"
)

// Accessors for the C10 check (no behaviour change).

// VerifC10BeginWire runs the REAL base responseWriter.BeginWire over t and
// returns the lease itself (nil when declined). written=true first marks
// the writer written, as a previous WriteMsg would.
func VerifC10BeginWire(t Transport, size, reserve int, written bool) []byte {
	var w responseWriter
	w.Reset(t)
	if written {
		w.size = 0
	}
	return w.BeginWire(size, reserve)
}

// VerifC10ChainState renders every per-request field of a chain and of its
// base writer in a canonical form. Pointers are reported as identities
// relative to the arguments (w1/w2 = which transport the base writer is
// bound to).
func VerifC10ChainState(ch *Chain, transports []Transport, msgs []*dns.Msg) string {
	tr := "other"
	if ch.base.Transport == nil {
		tr = "nil"
	}
	for i, t := range transports {
		if ch.base.Transport == t {
			tr = fmt.Sprintf("w%d", i+1)
		}
	}
	_, baseIsWriter := ch.Writer.(*responseWriter)
	baseIsWriter = baseIsWriter && ch.Writer == ResponseWriter(&ch.base)
	req := "nil"
	if ch.Request != nil {
		req = "other"
		if ch.Request == &ch.reqStorage {
			req = "own"
		}
		if m := ch.Request.decoded(); m != nil {
			req += ":other"
			for i, x := range msgs {
				if x == m {
					req = req[:len(req)-5] + fmt.Sprintf("m%d", i+1)
				}
			}
		} else {
			req += ":undecoded"
		}
	}
	b := func(v bool) string {
		if v {
			return "t"
		}
		return "f"
	}
	return fmt.Sprintf("pos=%d count=%d inline=%s handoff=%s replay=%s detach=%s writer=%s tr=%s written=%s msg=%s wire=%s rcode=%d direct=%s internal=%s proto=%s req=%s meta=%s",
		ch.pos, ch.count, b(ch.inlineOnly), b(ch.handoff), b(ch.replay), b(ch.detachCleanup != nil),
		map[bool]string{true: "base", false: "wrapped"}[baseIsWriter], tr, b(ch.base.Written()), b(ch.base.msg != nil), b(ch.base.wire != nil),
		ch.base.rcode, b(ch.base.directPack), b(ch.base.internal), ch.base.proto, req, b(!ch.Meta.CutUntil().IsZero()))
}

// VerifC10HandlerCount is len(handlers) of the chain.
func VerifC10HandlerCount(ch *Chain) int { return len(ch.handlers) }

// VerifC10WireOf returns the bytes the base writer retained from a wire write.
func VerifC10WireOf(ch *Chain) []byte { return ch.base.wire }
