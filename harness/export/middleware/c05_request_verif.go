//go:build verif

package middleware

import "time"

// VerifC05Facts is everything Request.ParseWire recorded about a packet
// (accessor only: plain copies of the unexported request fields).
type VerifC05Facts struct {
	ID, Flags, Qtype, Qclass      uint16
	NameOff, NameLen, QuestionEnd int
	HasOPT                        bool
	UDPSize                       uint16
	DO                            bool
	Version                       uint8
	HasECS, HasNSID, HasKeepalive bool
	CookieOff, CookieLen          int
}

var verifC05Slab Request

// VerifC05ParseWire runs the real Request.ParseWire on raw and reports its
// verdict and the parsed facts.
func VerifC05ParseWire(raw []byte) (bool, VerifC05Facts) {
	// one Request reused for every call, as a transport job slab is: whatever a
	// previous packet left behind must not show in this packet's facts
	r := &verifC05Slab
	ok := r.ParseWire(raw, time.Time{}, nil)
	if !ok {
		return false, VerifC05Facts{}
	}
	return true, VerifC05Facts{
		ID: r.id, Flags: r.flags, Qtype: r.qtype, Qclass: r.qclass,
		NameOff: r.nameOff, NameLen: r.nameLen, QuestionEnd: r.questionEnd,
		HasOPT: r.hasOPT, UDPSize: r.udpSize, DO: r.do, Version: r.version,
		HasECS: r.hasECS, HasNSID: r.hasNSID, HasKeepalive: r.hasKeepalive,
		CookieOff: r.cookieOff, CookieLen: r.cookieLen,
	}
}

// VerifC05WireRequest returns a wire-born request for raw (nil when
// ParseWire refuses it).
func VerifC05WireRequest(raw []byte) *Request {
	r := new(Request)
	if !r.ParseWire(raw, time.Now(), nil) {
		return nil
	}
	return r
}
