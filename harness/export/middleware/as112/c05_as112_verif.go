//go:build verif

package as112

// VerifC05DefaultZones lists the built-in empty zones (accessor only). A
// configured zone is accepted only at or below one of them.
func VerifC05DefaultZones() []string {
	out := make([]string, 0, len(defaultZones))
	for z := range defaultZones {
		out = append(out, z)
	}
	return out
}
