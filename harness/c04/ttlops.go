//go:build verif

package main

import (
	"context"
	"fmt"
	"net"
	"strconv"
	"strings"
	"time"

	"github.com/miekg/dns"
	"github.com/semihalev/sdns/internal/dnsutil"
	"github.com/semihalev/sdns/internal/verif/vlib"
	"github.com/semihalev/sdns/middleware"
	"github.com/semihalev/sdns/middleware/cache"
	"github.com/semihalev/sdns/middleware/dns64"
)

// rrItem is one record of an op line:
//
//	p<ttl>            plain record
//	s<ttl>/<minimum>  SOA
//	g<ttl>/<D>        RRSIG expiring D seconds after "now" (ceil; may be <= 0)
//	g<ttl>/<orig>/<tue_ns>  (ttl proof only) RRSIG with OrigTtl and exact time to expiry
//	o                 OPT pseudo record
type rrItem struct {
	kind byte
	inv  bool // RRSIG written `G…`: an inverted window (Inception numerically after Expiration)
	ttl  uint32
	a    int64 // SOA minimum | RRSIG D
	b    int64 // proof: tue in ns
}

func parseItems(s string) []rrItem {
	if s == "-" || s == "" {
		return nil
	}
	var out []rrItem
	for _, f := range strings.Split(s, ",") {
		it := rrItem{kind: f[0]}
		if it.kind == 'G' {
			it.kind, it.inv = 'g', true
		}
		if it.kind != 'o' {
			p := strings.Split(f[1:], "/")
			it.ttl = uint32(vlib.AtoU64(p[0]))
			if len(p) > 1 {
				it.a = vlib.AtoI64(p[1])
			}
			if len(p) > 2 {
				it.b = vlib.AtoI64(p[2])
			}
		}
		out = append(out, it)
	}
	return out
}

func mkSig(owner string, ttl uint32, expiration uint32) *dns.RRSIG {
	return &dns.RRSIG{Hdr: dns.RR_Header{Name: owner, Rrtype: dns.TypeRRSIG, Class: dns.ClassINET, Ttl: ttl},
		TypeCovered: dns.TypeA, Algorithm: 13, Labels: 3, OrigTtl: ttl, Expiration: expiration,
		Inception: expiration - 86400, KeyTag: 7, SignerName: "z.test.", Signature: "ZmFrZXNpZ25hdHVyZQ=="}
}

// invert gives a signature an inverted validity window: Inception numerically greater than
// Expiration (a signer whose clock stepped back, a hostile authority).  The expiration stays what it is.
func invert(sg *dns.RRSIG, inv bool) *dns.RRSIG {
	if inv {
		sg.Inception = sg.Expiration + 1000
		if sg.Inception < sg.Expiration { // wrapped
			sg.Inception = 0xffffffff
		}
	}
	return sg
}

func mkSOA(owner string, ttl, minimum uint32) *dns.SOA {
	return &dns.SOA{Hdr: dns.RR_Header{Name: owner, Rrtype: dns.TypeSOA, Class: dns.ClassINET, Ttl: ttl},
		Ns: "ns.z.test.", Mbox: "h.z.test.", Serial: 1, Refresh: 3600, Retry: 600, Expire: 86400, Minttl: minimum}
}

func mkTXT(owner string, ttl uint32, txt string) *dns.TXT {
	return &dns.TXT{Hdr: dns.RR_Header{Name: owner, Rrtype: dns.TypeTXT, Class: dns.ClassINET, Ttl: ttl}, Txt: []string{txt}}
}

func mkA(owner string, ttl uint32, last byte) *dns.A {
	return &dns.A{Hdr: dns.RR_Header{Name: owner, Rrtype: dns.TypeA, Class: dns.ClassINET, Ttl: ttl}, A: net.IPv4(192, 0, 2, last).To4()}
}

func sigExp(base int64, d int64) uint32 {
	v := base + d
	if v < 0 {
		v = 0
	}
	if v > 0xffffffff {
		v = 0xffffffff
	}
	return uint32(v)
}

func buildSection(base int64, owner string, items []rrItem) []dns.RR {
	var out []dns.RR
	for i, it := range items {
		switch it.kind {
		case 'p':
			out = append(out, mkTXT(owner, it.ttl, fmt.Sprint(i)))
		case 's':
			out = append(out, mkSOA(owner, it.ttl, uint32(it.a)))
		case 'g':
			out = append(out, invert(mkSig(owner, it.ttl, sigExp(base, it.a)), it.inv))
		case 'o':
			o := &dns.OPT{Hdr: dns.RR_Header{Name: ".", Rrtype: dns.TypeOPT}}
			o.SetUDPSize(1232)
			out = append(out, o)
		}
	}
	return out
}

func buildCalcMsg(base int64, ans, ns, extra []rrItem) *dns.Msg {
	m := new(dns.Msg)
	m.SetQuestion("q.z.test.", dns.TypeTXT)
	m.Response = true
	m.Answer = buildSection(base, "q.z.test.", ans)
	m.Ns = buildSection(base, "z.test.", ns)
	m.Extra = buildSection(base, "e.z.test.", extra)
	return m
}

// calcRetry runs f with base = the current whole Unix second and retries
// when the wall clock moved to another second meanwhile, so that an RRSIG
// built as base+D is between D-1 (exclusive) and D seconds from the `now`
// the callee reads.
func calcRetry(f func(base int64) time.Duration) time.Duration {
	for i := 0; ; i++ {
		base := time.Now().Unix()
		r := f(base)
		if time.Now().Unix() == base || i > 20 {
			return r
		}
	}
}

func ceilSec(d time.Duration) int64 {
	if d >= 0 {
		return int64((d + time.Second - 1) / time.Second)
	}
	return -int64((-d) / time.Second)
}

func relOrDash(s string) (time.Duration, bool) {
	if s == "-" {
		return 0, false
	}
	return time.Duration(vlib.AtoI64(s)), true
}

func foldDeadlines(meta *middleware.ResponseMeta, base time.Time, s string) {
	if s == "" || s == "." {
		return
	}
	for _, f := range strings.Split(s, ",") {
		if d, ok := relOrDash(f); ok {
			meta.BoundCutFor(base.Add(d), 1)
		} else {
			meta.BoundCutFor(time.Time{}, 1)
		}
	}
}

func cutRel(meta *middleware.ResponseMeta, base time.Time) string {
	d := meta.CutUntil()
	if d.IsZero() {
		return "-"
	}
	return strconv.FormatInt(int64(d.Sub(base)), 10)
}

var respTypes = map[string]dnsutil.ResponseType{"succ": dnsutil.TypeSuccess, "nx": dnsutil.TypeNXDomain,
	"nodata": dnsutil.TypeNoRecords, "servfail": dnsutil.TypeServerFailure, "other": dnsutil.TypeReferral}

func execTTL(f []string) vlib.Res {
	switch f[1] {
	case "new":
		return vlib.Res{Impl: "ok"}
	case "calc":
		rt := respTypes[f[2]]
		ans, ns, extra := parseItems(f[3]), parseItems(f[4]), parseItems(f[5])
		got := calcRetry(func(base int64) time.Duration {
			return dnsutil.CalculateCacheTTL(buildCalcMsg(base, ans, ns, extra), rt)
		})
		// oracle: the property's arithmetic, spelled out
		or := "ok"
		tags := ""
		if f[2] != "servfail" && f[2] != "other" {
			want, lim := oracleLifetime(append(append(append([]rrItem{}, ans...), ns...), extra...), ns, f[2] == "nx" || f[2] == "nodata", false, 0, nil)
			if ceilSec(got) > want {
				or = fmt.Sprintf("FAIL sig=ttl/calc/exceeds-%s got=%ds permitted=%ds", lim, ceilSec(got), want)
			}
			if lim != "ttl" {
				tags = "nt"
			}
		} else if ceilSec(got) > 30 {
			or = fmt.Sprintf("FAIL sig=ttl/calc/failure-class-too-long got=%ds", ceilSec(got))
		}
		return vlib.Res{Impl: fmt.Sprint(ceilSec(got)), Oracle: or, Tags: tags}
	case "neg64":
		// dns64.negativeAAAATTL on an AAAA answer whose authority section is f[2] (items; the first SOA counts)
		items := parseItems(f[2])
		m := buildCalcMsg(0, nil, items, nil)
		got, ok := dns64.VerifC04NegativeAAAATTL(m)
		impl, or := "none", "ok"
		if ok {
			impl = fmt.Sprint(got)
		}
		for _, it := range items {
			if it.kind == 's' {
				// the negative TTL may exceed neither the SOA's header TTL nor its MINIMUM
				if !ok || int64(got) > int64(it.ttl) || int64(got) > it.a {
					or = fmt.Sprintf("FAIL sig=ttl/neg64/exceeds-soa-ttl-or-minimum got=%s hdr=%d min=%d", impl, it.ttl, it.a)
				}
				break
			}
		}
		return vlib.Res{Impl: impl, Oracle: or, Tags: "nt"}
	case "sig":
		ttl := uint32(vlib.AtoU64(f[2]))
		tue := time.Duration(vlib.AtoI64(f[3]))
		const e = 2000000000
		got := dnsutil.VerifC04GetRRSIGTTL(invert(mkSig("x.", ttl, e), len(f) > 4 && f[4] == "inv"), time.Unix(e, 0).Add(-tue))
		or := "ok"
		if tue > 0 && got > tue {
			or = fmt.Sprintf("FAIL sig=ttl/sig/outlives-signature got=%d tue=%d", got, tue)
		} else if got > time.Duration(ttl)*time.Second && got > 5*time.Second {
			or = fmt.Sprintf("FAIL sig=ttl/sig/exceeds-record-ttl got=%d", got)
		}
		return vlib.Res{Impl: fmt.Sprint(int64(got)), Oracle: or, Tags: "nt"}
	case "mgr":
		mn, mx, x := time.Duration(vlib.AtoI64(f[2])), time.Duration(vlib.AtoI64(f[3])), time.Duration(vlib.AtoI64(f[4]))
		got := cache.NewTTLManager(mn, mx).Calculate(x)
		or := "ok"
		if mn <= mx && (got < mn || got > mx) {
			or = "FAIL sig=ttl/mgr/outside-bounds"
		} else if x >= mn && x <= mx && got != x {
			or = "FAIL sig=ttl/mgr/changed-in-range-value"
		}
		return vlib.Res{Impl: fmt.Sprint(int64(got)), Oracle: or}
	case "rem":
		ttl, el := time.Duration(vlib.AtoI64(f[2])), time.Duration(vlib.AtoI64(f[3]))
		cut, has := relOrDash(f[4])
		got := cache.VerifC04Remaining(ttl, el, has, cut)
		or := "ok"
		if got > ttl-el {
			or = "FAIL sig=ttl/rem/exceeds-ttl-minus-elapsed"
		} else if has && got > cut-el {
			or = "FAIL sig=ttl/rem/exceeds-lease"
		}
		tags := ""
		if has {
			tags = "nt"
		}
		return vlib.Res{Impl: fmt.Sprint(int64(got)), Oracle: or, Tags: tags}
	case "hard":
		ttl := time.Duration(vlib.AtoI64(f[2]))
		cut, has := relOrDash(f[3])
		got := cache.VerifC04HardUntil(ttl, has, cut)
		or := "ok"
		if got > ttl || (has && got > cut) {
			or = "FAIL sig=ttl/hard/later-than-a-component"
		}
		return vlib.Res{Impl: fmt.Sprint(int64(got)), Oracle: or, Tags: "nt"}
	case "bound":
		base := time.Unix(1900000000, 0)
		var meta middleware.ResponseMeta
		foldDeadlines(&meta, base, f[2])
		got := cutRel(&meta, base)
		return vlib.Res{Impl: got, Oracle: judgeMin(got, f[2]), Tags: "nt"}
	case "fork":
		base := time.Unix(1900000000, 0)
		var parent middleware.ResponseMeta
		foldDeadlines(&parent, base, f[2])
		child := parent.ForkCut()
		foldDeadlines(child, base, f[3])
		used := f[4] == "t"
		if used {
			cache.VerifC04Inherit(&parent, child)
		}
		p, c := cutRel(&parent, base), cutRel(child, base)
		or := judgeMin(c, f[3])
		if or == "ok" {
			all := f[2]
			if used {
				all = f[2] + "," + f[3]
			}
			or = judgeMin(p, all)
		}
		_ = context.Background
		return vlib.Res{Impl: "p=" + p + " c=" + c, Oracle: or, Tags: "nt"}
	case "proof":
		maxTTL := time.Duration(vlib.AtoI64(f[2]))
		cut, has := relOrDash(f[3])
		items := parseItems(f[4])
		now := time.Unix(1900000000, 500000000)
		var recs []dns.RR
		for i, it := range items {
			switch it.kind {
			case 'p':
				recs = append(recs, mkTXT("z.test.", it.ttl, fmt.Sprint(i)))
			case 's':
				recs = append(recs, mkSOA("z.test.", it.ttl, uint32(it.a)))
			case 'g':
				// expiration is a whole second: tue = exp - now is given in ns and
				// chosen by the generator so that now+tue is whole
				exp := now.Add(time.Duration(it.b))
				sg := invert(mkSig("z.test.", it.ttl, uint32(exp.Unix())), it.inv)
				sg.OrigTtl = uint32(it.a)
				recs = append(recs, sg)
			}
		}
		var cu time.Time
		if has {
			cu = now.Add(cut)
		}
		exp, ok := cache.VerifC04DenialProofExpiry(now, maxTTL, cu, recs)
		if !ok {
			// permitted: rejecting is always safe
			return vlib.Res{Impl: "none", Oracle: "ok", Tags: "nt"}
		}
		got := exp.Sub(now)
		or := "ok"
		// no floor: the lifetime may exceed no component
		for _, it := range items {
			comps := []time.Duration{time.Duration(it.ttl) * time.Second}
			if it.kind == 's' {
				comps = append(comps, time.Duration(it.a)*time.Second)
			}
			if it.kind == 'g' {
				comps = append(comps, time.Duration(it.a)*time.Second, time.Duration(it.b))
			}
			for _, c := range comps {
				if got > c {
					or = fmt.Sprintf("FAIL sig=ttl/proof/outlives-component got=%d comp=%d", got, c)
				}
			}
		}
		if has && got > cut {
			or = "FAIL sig=ttl/proof/outlives-lease"
		}
		if got > 24*time.Hour {
			or = "FAIL sig=ttl/proof/exceeds-24h"
		}
		return vlib.Res{Impl: fmt.Sprint(int64(got)), Oracle: or, Tags: "nt"}
	}
	return vlib.Res{Impl: "bad-op"}
}

// judgeMin: the bound of a request tree is the minimum of the non-zero
// deadlines folded into it.
func judgeMin(got string, folds string) string {
	want := "-"
	var best int64
	for _, f := range strings.Split(folds, ",") {
		if f == "-" || f == "" || f == "." {
			continue
		}
		v := vlib.AtoI64(f)
		if want == "-" || v < best {
			best, want = v, f
		}
	}
	if want != "-" {
		want = strconv.FormatInt(best, 10)
	}
	if got != want {
		return fmt.Sprintf("FAIL sig=ttl/bound/not-the-minimum got=%s want=%s", got, want)
	}
	return "ok"
}

// oracleLifetime is the property's reading, in whole seconds:
//
//	min( clamp(min(record TTLs, RRSIG time to expiry, SOA minimum for
//	negatives), 5 s, 24 h), ECS cap if scoped, lease )
//
// all = every non-OPT record of the stored message, ns = its authority
// section.  Returns the permitted lifetime and the component that limits it.
func oracleLifetime(all, ns []rrItem, negative, scoped bool, ecsCap int64, lease *int64) (int64, string) {
	const floor, ceil = 5, 86400
	m := int64(1) << 40
	lim := "ttl"
	take := func(v int64, what string) {
		if v < m {
			m, lim = v, what
		}
	}
	for _, it := range all {
		if it.kind == 'o' {
			continue
		}
		take(int64(it.ttl), "ttl")
		if it.kind == 'g' {
			take(it.a, "rrsig")
		}
	}
	if negative {
		for _, it := range ns {
			if it.kind == 's' {
				take(it.a, "soa-minimum")
			}
		}
	}
	if m < floor {
		m, lim = floor, "floor"
	}
	if m > ceil {
		m, lim = ceil, "cap-24h"
	}
	if scoped && ecsCap > 0 && ecsCap < m {
		m, lim = ecsCap, "ecs-cap"
	}
	if lease != nil && *lease < m {
		m, lim = *lease, "lease"
	}
	return m, lim
}
