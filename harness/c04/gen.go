//go:build verif

package main

import (
	"fmt"
	"sort"
	"strings"

	"github.com/semihalev/sdns/internal/verif/vlib"
)

// ---------------------------------------------------------------- fixed scenarios

// scenarios are short hand-written histories for the situations the
// property singles out; they run at the head of every generated stream.
var scenarios = [][]string{
	{ // TTLs around the 5 s floor and the 24 h cap, expiry +-1 s
		"c new 0 f",
		"c q msg n0 f t n0=p:p3,p3:-:-:-",
		"c q msg n0 f t -",
		"c adv 4",
		"c q wire n0 f f -",
		"c adv 1",
		"c q dwire n0 f f -",
		"c q msg n1 f t n1=p:p100000:-:-:-",
		"c adv 86399",
		"c q wire n1 f t -",
		"c adv 1",
		"c q msg n1 f t -",
	},
	{ // a lease shorter than the floor overrides it, on every route
		"c new 0 f",
		"c q msg n0 f t n0=p:p300:-:3:-",
		"c adv 2",
		"c q msg n0 f t -",
		"c q dwire n0 f t -",
		"c q wire n0 f t -",
		"c adv 1",
		"c q wire n0 f t -",
		"c q msg n0 f t -",
	},
	{ // RRSIG expiring before the TTL (positive and negative), aligned case
		"c new 0 t",
		"c q msg n0 f t n0=p:p300,g300/40:-:-:-",
		"c q msg n1 f t n1=x:-:s300/300,g300/20:-:-",
		"c q msg n2 f t n2=d:-:s3600/60,G3600/-5:-:-",
		"c adv 4",
		"c q wire n2 f t -",
		"c adv 1",
		"c q msg n2 f t -",
		"c adv 14",
		"c q wire n1 f t -",
		"c q dwire n0 f f -",
		"c adv 1",
		"c q msg n1 f t -",
		"c adv 19",
		"c q wire n0 f t -",
		"c adv 1",
		"c q wire n0 f t -",
		"c q msg n0 f t -",
	},
	{ // chase through entries of differing ages: the target is older than the alias
		"c new 0 f",
		"c q msg n2 f t n2=p:p60,p60:-:-:-",
		"c adv 40",
		"c q msg n1 f t n1=c2:p300:-:-:-",
		"c q msg n0 f t n0=c1:p600:-:-:-",
		"c q msg n0 f t -",
		"c q dwire n0 f f -",
		"c q wire n0 f t -",
		"c adv 19",
		"c q wire n0 f t -",
		"c q msg n0 f t -",
		"c adv 1",
		"c q wire n0 f t -",
		"c q msg n0 f t -",
		"c q msg n1 f t -",
	},
	{ // re-admission composed from a cached piece with a lease
		"c new 0 f",
		"c q msg n3 f t n3=p:p3600:-:7:-",
		"c adv 2",
		"c q msg n0 f t n0=c3:p3600:-:-:-",
		"c adv 4",
		"c q wire n0 f t -",
		"c adv 1",
		"c q msg n0 f t -",
		"c q wire n0 f t -",
	},
	{ // scoped entries and the ECS cap
		"c new 7 f",
		"c q msg n0 t t n0=p:p300:-:-:s",
		"c q msg n0 t t -",
		"c q msg n0 f t -",
		"c adv 6",
		"c q msg n0 t t -",
		"c adv 1",
		"c q msg n0 t t -",
	},
	{ // RFC 8020 cut: no floor
		"c new 0 f",
		"c cutrec 1 s300/2,g300/300/4000,p300,g300/300/4000 -",
		"c q msg u1 f t -",
		"c q lwire u1 f f -",
		"c adv 1",
		"c q lwire u1 f t -",
		"c adv 1",
		"c q msg u1 f t -",
		"c cutrec 2 s300/300,g300/300/4000,p300,g300/300/4000 3",
		"c adv 2",
		"c q wire u2 f t -",
		"c adv 1",
		"c q wire u2 f t -",
	},
	{ // NSEC3 proofs: synthesis, the resolver-private route and an alias inherit the proof's lease; ECS cap under the config fallback
		"c new 7 f 0 7200 0",
		"c prec3 1 s300/300,g300/300/4000000,p300,g300/300/4000000 -",
		"c q msg q1 f t -",
		"c adv 50",
		"c prec3 2 s30/30,g30/30/4000000,p300,g300/300/4000000 4",
		"c q msg q1 f t -",
		"c get q2",
		"c q msg n0 f t n0=cq2:p600:-:-:-",
		"c adv 3",
		"c q msg n0 f t -",
		"c adv 1",
		"c q msg n0 f t -",
		"c get q2",
		"c q msg n1 t t n1=p:p300:-:-:s",
		"c adv 6",
		"c q msg n1 t t -",
		"c adv 1",
		"c q msg n1 t t -",
	},
	{ // an alias whose target lies below a subtree cut in its last seconds adopts the cut's NXDOMAIN
		"c new 0 f",
		"c cutrec 1 s300/300,g300/300/4000000,p300,g300/300/4000000 8",
		"c adv 6",
		"c q msg n0 f t n0=cu1:p600:-:600:-",
		"c q wire n0 f t -",
		"c adv 1",
		"c q msg n0 f t -",
		"c adv 1",
		"c q wire n0 f t -",
		"c q msg u1 f t -",
		"c cutrec 2 s300/300,g300/300/4000000,p300,g300/300/4000000 -",
		"c q msg n1 f f n1=cu2:p60:-:-:-",
		"c adv 59",
		"c q dwire n1 f t -",
		"c q msg u2 f t -",
	},
	{ // additional-section records decay with the entry on every route; `expire` above 24 h
		"c new 0 f 0 604800",
		"c q msg n0 f t n0=p:p300:-:-:-:p300,p600",
		"c adv 200",
		"c q msg n0 f t -",
		"c q dwire n0 f t -",
		"c q wire n0 f f -",
		"c adv 99",
		"c q dwire n0 f f -",
		"c cutrec 1 s200000/200000,g200000/200000/4000000,p200000,g200000/200000/4000000 -",
		"c q msg u1 f t -",
		"c adv 86399",
		"c q dwire u1 f t -",
		"c get u1",
		"c adv 1",
		"c q wire u1 f t -",
		"c q msg u1 f t -",
	},
	{ // the real prefetch trigger: a hit inside the window claims a refresh; newer state wins
		"c new 0 f 50",
		"c q msg n0 f t n0=p:p20:-:600:-",
		"c adv 5",
		"c q msg n0 f t -",
		"c adv 6",
		"c q dwire n0 f t -",
		"c q msg n0 f t -",
		"c pfrun n0=p:p300:-:7:-",
		"c q msg n0 f t -",
		"c adv 4",
		"c q msg n0 f t -",
		"c purge n0",
		"c q msg n0 f t n0=x:-:s60/60:-:-",
		"c pfrun n0=p:p300:-:-:-",
		"c q msg n0 f t -",
		"c q msg n1 f t n1=c2:p40:-:-:-;n2=p:p10:-:-:-",
		"c adv 6",
		"c q msg n1 f t -",
		"c pfrun n2=p:p100:-:-:-",
		"c q dwire n1 f t -",
	},
	{ // an alias chain ending in a record-less NXDOMAIN: cached target, and target with the shorter lease
		"c new 0 f",
		"c q msg n1 f t n1=x:-:-:-:-",
		"c adv 2",
		"c q msg n0 f t n0=c1:p300:-:600:-",
		"c q wire n0 f t -",
		"c adv 2",
		"c q msg n0 f t -",
		"c adv 1",
		"c q wire n0 f f -",
		"c q msg n1 f t -",
		"c q msg n2 f t n2=c3:p300:-:600:-;n3=x:-:-:20:-",
		"c adv 19",
		"c q msg n2 f t -",
		"c adv 1",
		"c q wire n2 f t -",
	},
	{ // the request-tree fold is min-only: a cached piece limited by its own TTL, then a piece with a longer lease
		"c new 100000 t",
		"c q lwire n2 f f n2=c3:p300:-:60:-",
		"c q dwire n1 f f n1=c2:p5:-:-:-",
		"c q lwire n0 f f n0=c1:p6:-:-:-",
		"c q wire n0 f f -",
		"c adv 4",
		"c q wire n0 f f -",
		"c adv 1",
		"c q msg n0 f t -",
	},
	{ // the same fold, the leased piece first in time and a TTL-limited alias over it
		"c new 100000 f",
		"c q wire n2 f f n2=c3:p3:p3600:6:-;n3=p:p10:-:10:-",
		"c adv 3",
		"c q wire n0 f t n0=c2:p12,G12/4:-:-:-",
		"c q msg n0 f t -",
		"c adv 3",
		"c q wire n0 f t -",
	},
	{ // RFC 8198 NXDOMAIN synthesis: SOA + covering NSEC + the apex NSEC that covers the wildcard, of differing ages
		"c new 0 f",
		"c prec 0 s300/300,g300/300/4000000,p200,g300/300/4000000 -",
		"c adv 10",
		"c prec 1 s300/300,g300/300/4000000,p300,g300/300/4000000 -",
		"c q msg x1 f t -",
		"c q wire x1 f f -",
		"c get x1",
		"c q msg x2 f t -",
		"c adv 100",
		"c prec 2 s30/30,g30/30/4000000,p300,g300/300/4000000 -",
		"c q msg x1 f t -",
		"c q msg x2 f t -",
		"c adv 29",
		"c q dwire x1 f t -",
		"c adv 1",
		"c q msg x1 f t -",
	},
	{ // DNS64: the synthetic AAAA is composed from the A answer and the AAAA NODATA, of differing ages
		"c new 0 f",
		"c q msg m0 f t m0=d:-:s300/300:-:-;n0=p:p250,p250:-:-:-",
		"c q wire m0 f t -",
		"c adv 296",
		"c q msg n0 f t n0=p:p250:-:-:-",
		"c q msg m0 f t -",
		"c q wire m0 f f -",
		"c adv 3",
		"c q dwire m0 f t -",
		"c adv 1",
		"c q msg m0 f t -",
		"c q msg m1 f t m1=d:-:s20/3600:-:-;n1=p:p3600:-:-:-",
		"c q msg m2 f t m2=c3:p100:-:-:-;m3=d:-:s50/20:-:-;n2=c3:p40:-:-:-;n3=p:p30:-:-:-",
		"c adv 10",
		"c q wire m2 f t -",
		"c q msg m4 f t m4=p:p60:-:-:-",
		"c q msg m4 f f -",
		"c q msg m5 f t m5=d:-:s300/300:-:-;n5=d:-:s60/60:-:-",
		"c q msg m5 f t -",
	},
	{ // RFC 8198 synthesis: a later admission replaces the zone's SOA entry with a shorter-lived one
		"c new 0 f",
		"c prec 1 s300/300,g300/300/4000000,p300,g300/300/4000000 -",
		"c q msg p1 f t -",
		"c adv 50",
		"c prec 2 s30/30,g30/30/4000000,p300,g300/300/4000000 -",
		"c adv 10",
		"c q msg p1 f t -",
		"c q wire p1 f f -",
		"c q dwire p2 f t -",
		"c q msg n0 f t n0=cp1:p600:-:-:-",
		"c q wire n0 f t -",
		"c adv 19",
		"c q msg p1 f t -",
		"c adv 1",
		"c q wire p1 f t -",
		"c q msg n0 f t -",
		"c prec 3 s300/300,g300/300/4000000,p300,g300/300/4000000 4",
		"c adv 3",
		"c q msg p1 f t -",
		"c q msg p3 f t -",
		"c adv 1",
		"c q msg p3 f t -",
	},
	{ // a late refresh never overwrites newer state
		"c new 0 f",
		"c q msg n0 f t n0=p:p10:-:-:-",
		"c adv 8",
		"c cap n0",
		"c q msg n0 f t -",
		"c purge n0",
		"c q msg n0 f t n0=x:-:s60/60:-:-",
		"c pfdone n0 n0=p:p300:-:-:-",
		"c q msg n0 f t -",
		"c cap n0",
		"c pfdone n0 n0=p:p300:-:9:-",
		"c q wire n0 f t -",
	},
	{
		"cas new",
		"cas set 300",
		"cas capture 0",
		"cas set 200",
		"cas cas 0 100",
		"cas capture 1",
		"cas cas 1 100",
		"cas cas 1 100",
		"cas evict",
		"cas cas 0 50",
		"cas stress 6000 2",
	},
}

// ---------------------------------------------------------------- pools

var ttlPool = []int64{0, 1, 3, 4, 5, 6, 7, 10, 30, 59, 60, 120, 299, 300, 3600, 86399, 86400, 86401, 100000, 2147483647, 4294967295}
var smallTTL = []int64{1, 3, 5, 6, 7, 10, 12, 30, 60, 120, 300, 3600, 86399, 86400, 86401, 100000}
var dPool = []int64{-1000000, -3600, -1, 0, 1, 4, 5, 6, 7, 30, 299, 300, 301, 3599, 86399, 86400, 86401, 100000000, 2000000000}
var leasePool = []int64{0, 1, 3, 4, 5, 6, 10, 60, 250, 4000, 90000}

// sigKind: a third of the generated RRSIGs carry an inverted validity window (`G`).
func sigKind(r *vlib.R) byte {
	if r.Chance(1, 3) {
		return 'G'
	}
	return 'g'
}

func item(kind byte, ttl int64, a ...int64) string {
	s := fmt.Sprintf("%c%d", kind, ttl)
	for _, v := range a {
		s += fmt.Sprintf("/%d", v)
	}
	return s
}

func joinOrDash(xs []string) string {
	if len(xs) == 0 {
		return "-"
	}
	return strings.Join(xs, ",")
}

// ---------------------------------------------------------------- ttl cases

func genCalcSection(r *vlib.R, maxN int, soa bool, opt bool) []string {
	var out []string
	n := r.Intn(maxN + 1)
	for i := 0; i < n; i++ {
		t := vlib.Pick(r, ttlPool)
		switch k := r.Intn(10); {
		case k < 5:
			out = append(out, item('p', t))
		case k < 7 && soa:
			out = append(out, item('s', t, vlib.Pick(r, ttlPool)))
		case k < 9:
			out = append(out, item(sigKind(r), t, vlib.Pick(r, dPool)))
		default:
			if opt {
				out = append(out, "o")
			} else {
				out = append(out, item('p', t))
			}
		}
	}
	return out
}

func genTTLCase(r *vlib.R, emit func(string)) int {
	emit("ttl new")
	n := 10 + r.Intn(10)
	for i := 0; i < n; i++ {
		switch k := r.Intn(16); {
		case k < 6:
			rt := vlib.Pick(r, []string{"succ", "succ", "nx", "nodata", "nx", "nodata", "servfail", "other"})
			emit(fmt.Sprintf("ttl calc %s %s %s %s", rt, joinOrDash(genCalcSection(r, 3, false, false)),
				joinOrDash(genCalcSection(r, 3, true, false)), joinOrDash(genCalcSection(r, 2, false, true))))
		case k < 8:
			ttl := vlib.Pick(r, ttlPool)
			var tue int64
			switch r.Intn(4) {
			case 0:
				tue = vlib.Pick(r, []int64{0, 1, -1, 999999999, 1000000000, 1000000001})
			case 1:
				tue = ttl*sec + int64(r.Intn(3)) - 1
				if ttl > 4000000000 {
					tue = ttl * sec
				}
			default:
				tue = vlib.Pick(r, dPool)*sec + int64(r.Intn(2000000000)) - 1000000000
			}
			if r.Chance(1, 3) {
				emit(fmt.Sprintf("ttl sig %d %d inv", ttl, tue))
			} else {
				emit(fmt.Sprintf("ttl sig %d %d", ttl, tue))
			}
		case k < 9:
			mn := vlib.Pick(r, []int64{0, 5 * sec, 30 * sec})
			mx := vlib.Pick(r, []int64{5 * sec, 3600 * sec, 86400 * sec})
			x := vlib.Pick(r, []int64{-1, 0, 1, mn - 1, mn, mn + 1, mx - 1, mx, mx + 1, 100000 * sec})
			emit(fmt.Sprintf("ttl mgr %d %d %d", mn, mx, x))
		case k < 11:
			ttl := vlib.Pick(r, smallTTL) * sec
			el := vlib.Pick(r, []int64{0, 1, ttl - 1, ttl, ttl + 1, ttl / 2, int64(r.Intn(400)) * sec, ttl - sec, ttl + sec})
			cut := "-"
			if r.Chance(2, 3) {
				cut = fmt.Sprint(vlib.Pick(r, []int64{0, 1, el - 1, el, el + 1, ttl - 1, ttl, ttl + 1, 3 * sec, -5 * sec, int64(r.Intn(500)) * sec}))
			}
			emit(fmt.Sprintf("ttl rem %d %d %s", ttl, el, cut))
		case k < 12:
			ttl := vlib.Pick(r, smallTTL) * sec
			cut := "-"
			if r.Chance(3, 4) {
				cut = fmt.Sprint(vlib.Pick(r, []int64{0, 1, ttl - 1, ttl, ttl + 1, 3 * sec, -5 * sec, int64(r.Intn(500)) * sec}))
			}
			emit(fmt.Sprintf("ttl hard %d %s", ttl, cut))
		case k < 13:
			if r.Bool() {
				emit("ttl neg64 " + joinOrDash(genCalcSection(r, 3, true, false)))
				break
			}
			emit("ttl bound " + genFolds(r, 5))
		case k < 14:
			emit(fmt.Sprintf("ttl fork %s %s %s", genFolds(r, 3), genFolds(r, 3), vlib.B(r.Chance(2, 3))))
		default:
			maxTTL := vlib.Pick(r, []int64{0, -1, 600 * sec, 3 * 3600 * sec, 3*3600*sec + 1, 86400 * sec})
			cut := "-"
			if r.Chance(1, 2) {
				cut = fmt.Sprint(vlib.Pick(r, []int64{0, -1, 1, 3 * sec, 4999999999, 700 * sec, 90000 * sec}))
			}
			var recs []string
			nr := 1 + r.Intn(4)
			for q := 0; q < nr; q++ {
				t := vlib.Pick(r, smallTTL)
				switch r.Intn(3) {
				case 0:
					recs = append(recs, item('p', t))
				case 1:
					recs = append(recs, item('s', t, vlib.Pick(r, smallTTL)))
				default:
					// now has a .5 s fraction: tue = k s + .5 s lands on a whole second
					tue := vlib.Pick(r, []int64{-3, 0, 1, 2, 4, 5, 6, 50, 299, 300, 4000, 20000})*sec + sec/2
					if r.Chance(1, 6) {
						tue = -sec / 2
					}
					recs = append(recs, item(sigKind(r), t, vlib.Pick(r, smallTTL), tue))
				}
			}
			emit(fmt.Sprintf("ttl proof %d %s %s", maxTTL, cut, strings.Join(recs, ",")))
		}
	}
	return n + 1
}

func genFolds(r *vlib.R, maxN int) string {
	n := r.Intn(maxN + 1)
	if n == 0 {
		return "."
	}
	var out []string
	for i := 0; i < n; i++ {
		if r.Chance(1, 5) {
			out = append(out, "-")
		} else {
			out = append(out, fmt.Sprint(vlib.Pick(r, []int64{0, 1, -1, 5 * sec, 5*sec - 1, 300 * sec, int64(r.Intn(1000)) * sec, -7 * sec})))
		}
	}
	return strings.Join(out, ",")
}

// ---------------------------------------------------------------- cas cases

func genCASCase(r *vlib.R, emit func(string)) int {
	emit("cas new")
	n := 8 + r.Intn(14)
	for i := 0; i < n; i++ {
		switch k := r.Intn(20); {
		case k < 5:
			emit(fmt.Sprintf("cas set %d", vlib.Pick(r, []int64{5, 60, 300})))
		case k < 7:
			emit("cas evict")
		case k < 12:
			emit(fmt.Sprintf("cas capture %d", r.Intn(3)))
		case k < 19:
			emit(fmt.Sprintf("cas cas %d %d", r.Intn(3), vlib.Pick(r, []int64{7, 100, 3600})))
		default:
			emit(fmt.Sprintf("cas stress %d %d", 400+r.Intn(400), 1+r.Intn(3)))
		}
	}
	return n + 1
}

// ---------------------------------------------------------------- history cases

type genHist struct {
	r        *vlib.R
	aligned  bool
	cap      int64
	V        int64
	interest map[int64]bool
	admitted map[string]bool
	captured map[string]bool
	tgtOf    map[string]string
	cuts     []int
	proofs   []int
	pf       int // prefetch threshold of the case (0 = off)
	expire   int64
	pzone    byte // the proof zone this case uses: 'p' (NSEC) or 'q' (NSEC3)
	size     int
}

// pickD: an RRSIG window.  Outside aligned cases a signature must not be the
// strictly limiting component above the floor (its sub-second phase is not
// reproducible), so it is either at/below the floor, expired, or beyond the
// other components.
func (g *genHist) pickD(minOther int64) int64 {
	r := g.r
	if minOther > 86400 {
		minOther = 86400
	}
	if g.aligned {
		switch r.Intn(6) {
		case 0:
			return vlib.Pick(r, []int64{-3600, -1, 0, 1, 4, 5})
		case 1:
			return minOther + int64(r.Intn(3))
		case 2:
			return 100000000
		default:
			if minOther > 6 {
				return 6 + int64(r.Intn(int(min64(minOther-5, 60))))
			}
			return minOther
		}
	}
	switch r.Intn(6) {
	case 0, 1:
		return vlib.Pick(r, []int64{-3600, -1, 0, 1, 4, 5})
	case 2:
		return max64(minOther, 5) + 1
	case 3:
		return max64(minOther, 5) + 1 + int64(r.Intn(100))
	default:
		return vlib.Pick(r, []int64{100000000, 2000000000})
	}
}

func min64(a, b int64) int64 {
	if a < b {
		return a
	}
	return b
}
func max64(a, b int64) int64 {
	if a > b {
		return a
	}
	return b
}

func (g *genHist) note(v int64) {
	if v > 0 && v <= 200000 {
		g.interest[g.V+v] = true
	}
}

func (g *genHist) genSpec(name string, kind byte, tgt int, ecs bool) string {
	r := g.r
	if kind == 'c' && tgt >= 100 && tgt < 200 && name[0] == 'm' {
		// the proof zones deny type A only (their type bitmaps carry AAAA): an AAAA-side alias
		// onto them would just miss; make it a plain NODATA instead
		kind, tgt = 'd', 0
	}
	base := vlib.Pick(r, smallTTL)
	if r.Chance(2, 3) {
		base = vlib.Pick(r, []int64{5, 6, 7, 10, 12, 30, 60, 120, 300})
	}
	var plain []int64
	var ans, ns []string
	minOther := int64(1) << 40
	add := func(v int64) {
		if v < minOther {
			minOther = v
		}
		g.note(v)
	}
	ttlVar := func() int64 {
		if r.Chance(1, 5) {
			return vlib.Pick(r, smallTTL)
		}
		return base
	}
	switch kind {
	case 'p':
		n := 1 + r.Intn(3)
		for i := 0; i < n; i++ {
			plain = append(plain, ttlVar())
		}
	case 'c':
		plain = append(plain, ttlVar())
	}
	for _, t := range plain {
		ans = append(ans, item('p', t))
		add(t)
	}
	type soaT struct{ ttl, min int64 }
	var nsPlain []int64
	var soa *soaT
	bare := kind == 'x' && r.Chance(1, 4) // a record-less NXDOMAIN: no SOA, no proof
	switch {
	case bare:
	case kind == 'x' || kind == 'd':
		soa = &soaT{ttlVar(), ttlVar()}
		if r.Chance(1, 3) {
			soa.min = vlib.Pick(r, []int64{0, 1, 5, 6, 30, 3600, 100000})
		}
		add(soa.ttl)
		add(soa.min)
		if r.Chance(1, 4) {
			nsPlain = append(nsPlain, ttlVar())
		}
	case kind == 'e':
		if r.Chance(1, 2) {
			nsPlain = append(nsPlain, ttlVar())
		}
	default:
		if r.Chance(1, 6) {
			nsPlain = append(nsPlain, ttlVar())
		}
	}
	for _, t := range nsPlain {
		add(t)
	}
	// real additional-section records (target addresses, glue) next to some answers
	var extra []string
	if (kind == 'p' || kind == 'c') && r.Chance(1, 5) {
		for q := 0; q < 1+r.Intn(2); q++ {
			t := ttlVar()
			add(t)
			extra = append(extra, item('p', t))
		}
	}
	scoped := ecs && kind != 'c' && r.Chance(2, 3)
	lim := minOther
	if scoped && g.cap > 0 && g.cap < lim {
		lim = g.cap
	}
	// signatures
	if len(ans) > 0 && r.Chance(1, 2) {
		st := ttlVar()
		if st < lim {
			lim = st
		}
		add(st)
		d := g.pickD(lim)
		g.note(d)
		ans = append(ans, item(sigKind(r), st, d))
	}
	if soa != nil {
		ns = append(ns, item('s', soa.ttl, soa.min))
	}
	for _, t := range nsPlain {
		ns = append(ns, item('p', t))
	}
	if (soa != nil || len(nsPlain) > 0) && r.Chance(1, 2) {
		st := ttlVar()
		if st < lim {
			lim = st
		}
		add(st)
		d := g.pickD(lim)
		g.note(d)
		ns = append(ns, item(sigKind(r), st, d))
	}
	lease := "-"
	if r.Chance(3, 10) {
		l := vlib.Pick(r, leasePool)
		lease = fmt.Sprint(l)
		g.note(l)
	}
	sc := "-"
	if scoped {
		sc = "s"
		g.note(g.cap)
	}
	g.note(5)
	g.note(86400)
	k := string(kind)
	if kind == 'c' {
		k = fmt.Sprintf("c%d", tgt)
		if tgt >= 200 {
			k = fmt.Sprintf("cu%d", tgt-200)
		} else if tgt >= 100 {
			k = fmt.Sprintf("c%c%d", g.pzone, tgt-100)
		}
	}
	out := fmt.Sprintf("%s=%s:%s:%s:%s:%s", name, k, joinOrDash(ans), joinOrDash(ns), lease, sc)
	if len(extra) > 0 {
		out += ":" + strings.Join(extra, ",")
	}
	return out
}

func (g *genHist) pickKind(idx int) (byte, int) {
	r := g.r
	if len(g.proofs) > 0 && r.Chance(1, 6) {
		return 'c', 100 + g.proofOwner() // alias onto an owner of the proof zone
	}
	if len(g.cuts) > 0 && r.Chance(1, 5) {
		return 'c', 200 + vlib.Pick(r, g.cuts) // alias onto a name below a recorded subtree cut
	}
	if idx < nNames-1 && r.Chance(3, 10) {
		return 'c', idx + 1 + r.Intn(nNames-1-idx)
	}
	switch k := r.Intn(20); {
	case k < 11:
		return 'p', 0
	case k < 14:
		return 'x', 0
	case k < 18:
		return 'd', 0
	default:
		return 'e', 0
	}
}

func (g *genHist) route() string {
	if g.pf > 0 {
		// the wire chase composer deliberately does not tick the hops' prefetch
		// machinery; with prefetch on, the claims are compared on the decoded routes
		return vlib.Pick(g.r, []string{"msg", "dwire"})
	}
	return vlib.Pick(g.r, []string{"msg", "dwire", "wire", "wire", "lwire"})
}

func genHistCase(r *vlib.R, emitRaw func(string)) int {
	// once a slow state-changing op may have stamped an entry late, nothing more of this case is emitted
	emit := func(op string) {
		if hist != nil && hist.taint && !strings.HasPrefix(op, "c new") {
			return
		}
		emitRaw(op)
	}
	g := &genHist{r: r, aligned: r.Chance(1, 4), cap: vlib.Pick(r, []int64{0, 0, 3, 7, 60, 100000}),
		interest: map[int64]bool{}, admitted: map[string]bool{}, captured: map[string]bool{}, tgtOf: map[string]string{}}
	if !g.aligned && r.Chance(3, 10) {
		g.pf = vlib.Pick(r, []int{25, 50, 75})
	}
	g.pzone = 'p'
	if r.Chance(2, 5) {
		g.pzone = 'q'
	}
	g.size = 1024
	if r.Chance(1, 5) {
		g.size = vlib.Pick(r, []int{0, 512}) // cache.New's "using defaults" fallback
	}
	g.expire = histExpire
	if r.Chance(3, 20) {
		g.expire = histExpireBig // `expire` above the 24 h cap
	}
	if g.size != 1024 {
		emit(fmt.Sprintf("c new %d %s %d %d %d", g.cap, vlib.B(g.aligned), g.pf, g.expire, g.size))
	} else if g.expire != histExpire {
		emit(fmt.Sprintf("c new %d %s %d %d", g.cap, vlib.B(g.aligned), g.pf, g.expire))
	} else if g.pf > 0 {
		emit(fmt.Sprintf("c new %d %s %d", g.cap, vlib.B(g.aligned), g.pf))
	} else {
		emit(fmt.Sprintf("c new %d %s", g.cap, vlib.B(g.aligned)))
	}
	steps := 12 + r.Intn(22)
	if g.aligned {
		steps = 10 + r.Intn(12)
	}
	count := 1
	if r.Chance(1, 4) {
		// an alias chain admitted bottom-up at different instants (no
		// authority records, so that the wire chase can compose it)
		n := 2 + r.Intn(3)
		start := r.Intn(nNames - n + 1)
		for i := start + n - 1; i >= start; i-- {
			name := fmt.Sprintf("n%d", i)
			ttl := vlib.Pick(r, []int64{5, 6, 10, 12, 30, 60, 300})
			kind := fmt.Sprintf("c%d", i+1)
			body := fmt.Sprintf("p%d:-", ttl)
			if i == start+n-1 {
				// the terminal: mostly addresses, sometimes a denial — with or without an SOA
				switch r.Intn(10) {
				case 0, 1:
					kind, body = "x", "-:-"
				case 2:
					kind, body = "x", fmt.Sprintf("-:s%d/%d", ttl, ttl)
				case 3:
					kind, body = "d", fmt.Sprintf("-:s%d/%d", ttl, ttl)
				default:
					kind = "p"
				}
			}
			lease := "-"
			if r.Chance(1, 5) {
				l := vlib.Pick(r, []int64{3, 4, 6, 10, 60})
				lease = fmt.Sprint(l)
				g.note(l)
			}
			g.note(ttl)
			g.note(5)
			emit(fmt.Sprintf("c q %s %s f %s %s=%s:%s:%s:-", g.route(), name, vlib.B(r.Bool()), name, kind, body, lease))
			g.admitted[name] = true
			count++
			if hist != nil && hist.taint {
				return count // a slow op may have stamped the entry late: end the case
			}
			if r.Chance(2, 3) {
				emit(fmt.Sprintf("c adv %d", g.pickAdvance()))
				count++
			}
		}
		head := fmt.Sprintf("n%d", start)
		for k := 0; k < 3; k++ {
			if hist != nil && hist.taint {
				return count
			}
			rt := "wire"
			if g.pf > 0 {
				rt = g.route()
			}
			emit(fmt.Sprintf("c q %s %s f %s -", rt, head, vlib.B(r.Bool())))
			emit(fmt.Sprintf("c adv %d", g.pickAdvance()))
			count += 2
		}
	}
	if r.Chance(1, 5) {
		// the proof zone: owner A admitted, later owner B (which replaces the
		// zone's SOA entry), then A is synthesised again
		a := 1 + r.Intn(3)
		b := 1 + (a+r.Intn(2))%3
		emit(g.genProof(a))
		g.proofs = append(g.proofs, a)
		emit(fmt.Sprintf("c q %s %c%d f %s -", g.route(), g.pzone, a, vlib.B(r.Chance(2, 3))))
		emit(fmt.Sprintf("c adv %d", g.pickAdvance()))
		emit(g.genProof(b))
		g.proofs = append(g.proofs, b)
		count += 4
		if g.pzone == 'p' && r.Chance(2, 3) {
			// the apex NSEC, admitted at yet another instant: an NXDOMAIN is then composed of three pieces
			emit(fmt.Sprintf("c adv %d", g.pickAdvance()))
			emit(g.genProof(0))
			g.proofs = append(g.proofs, 0)
			count += 2
		}
		for k := 0; k < 3; k++ {
			if hist != nil && hist.taint {
				return count
			}
			if r.Chance(1, 4) {
				emit("c get " + g.proofQ(vlib.Pick(r, []int{a, a, b})))
			} else {
				emit(fmt.Sprintf("c q %s %s f %s -", g.route(), g.proofQ(vlib.Pick(r, []int{a, a, b})), vlib.B(r.Chance(2, 3))))
			}
			emit(fmt.Sprintf("c adv %d", g.pickAdvance()))
			count += 2
		}
	}
	if r.Chance(1, 5) {
		// DNS64: the A answer and the AAAA NODATA of one name admitted at
		// different instants, then the AAAA question around every boundary
		k := r.Intn(nNames)
		first, second := fmt.Sprintf("n%d", k), fmt.Sprintf("m%d", k)
		kinds := map[string]byte{first: 'p', second: 'd'}
		if r.Bool() {
			first, second = second, first
		}
		for _, nm := range []string{first, second} {
			emit(fmt.Sprintf("c q %s %s f %s %s", g.route(), nm, vlib.B(r.Bool()), g.genSpec(nm, kinds[nm], 0, false)))
			g.admitted[nm] = true
			count++
			if hist != nil && hist.taint {
				return count
			}
			emit(fmt.Sprintf("c adv %d", g.pickAdvance()))
			count++
		}
		for q := 0; q < 3; q++ {
			if hist != nil && hist.taint {
				return count
			}
			emit(fmt.Sprintf("c q %s m%d f %s -", g.route(), k, vlib.B(r.Bool())))
			emit(fmt.Sprintf("c adv %d", g.pickAdvance()))
			count += 2
		}
	}
	jcap := 40
	if g.aligned {
		jcap = 13
	}
	for s := 0; s < steps; s++ {
		if hist != nil && (hist.taint || hist.j >= int64(jcap)) {
			break // a slow op may have stamped entries late, or the second is used up: end the case
		}
		count++
		if g.pf > 0 && len(g.admitted) > 0 && r.Chance(1, 8) {
			// complete the refreshes real hits have claimed so far
			var specs []string
			for q := 0; q < 1+r.Intn(2); q++ {
				name := g.anyAdmitted()
				kind, t2 := g.pickKind(int(name[1] - '0'))
				if kind == 'c' {
					kind, t2 = 'p', 0
				}
				specs = append(specs, g.genSpec(name, kind, t2, false))
			}
			if len(specs) == 2 && strings.SplitN(specs[0], "=", 2)[0] == strings.SplitN(specs[1], "=", 2)[0] {
				specs = specs[:1]
			}
			emit("c pfrun " + strings.Join(specs, ";"))
			continue
		}
		switch k := r.Intn(100); {
		case k < 28 || len(g.admitted) == 0:
			idx := r.Intn(nNames)
			name := fmt.Sprintf("n%d", idx)
			ecs := r.Chance(1, 4)
			kind, tgt := g.pickKind(idx)
			if r.Chance(1, 4) {
				// the AAAA side of the name (what dns64 composes with the A side)
				g.genAAAASide(idx, emit)
				count++
				continue
			}
			specs := []string{g.genSpec(name, kind, tgt, ecs)}
			g.tgtOf[name] = ""
			// script the rest of the alias chain too (sometimes), so that a
			// chase resolves targets that are not cached
			for kind == 'c' && tgt < 100 && r.Chance(1, 2) {
				tn := fmt.Sprintf("n%d", tgt)
				g.tgtOf[name] = tn
				name = tn
				idx = tgt
				kind, tgt = g.pickKind(idx)
				specs = append(specs, g.genSpec(tn, kind, tgt, false))
				g.admitted[tn] = true
			}
			first := strings.SplitN(specs[0], "=", 2)[0]
			g.admitted[first] = true
			if r.Chance(1, 6) {
				emit("c purge " + first)
				count++
			}
			emit(fmt.Sprintf("c q %s %s %s %s %s", g.route(), first, vlib.B(ecs), vlib.B(r.Bool()), strings.Join(specs, ";")))
		case k < 62:
			name := g.anyAdmitted()
			if r.Chance(1, 8) {
				name = fmt.Sprintf("n%d", r.Intn(nNames))
			}
			if len(g.proofs) > 0 && r.Chance(1, 5) {
				if r.Chance(1, 4) {
					emit("c get " + g.proofQ(g.proofOwner()))
					continue
				}
				emit(fmt.Sprintf("c q %s %s %s %s -", g.route(), g.proofQ(g.proofOwner()), vlib.B(r.Chance(1, 8)), vlib.B(r.Chance(2, 3))))
				continue
			}
			if r.Chance(1, 8) {
				// the resolver-private route
				if len(g.cuts) > 0 && r.Chance(1, 4) {
					emit(fmt.Sprintf("c get u%d", vlib.Pick(r, g.cuts)))
				} else {
					emit("c get " + name)
				}
				continue
			}
			up := "-"
			if r.Chance(1, 10) {
				idx := int(name[1] - '0')
				if idx < nNames-1 {
					t := idx + 1 + r.Intn(nNames-1-idx)
					kind, t2 := g.pickKind(t)
					up = g.genSpec(fmt.Sprintf("%s%d", name[:1], t), kind, t2, false)
					g.admitted[fmt.Sprintf("%s%d", name[:1], t)] = true
				}
			}
			emit(fmt.Sprintf("c q %s %s %s %s %s", g.route(), name, vlib.B(r.Chance(1, 5)), vlib.B(r.Bool()), up))
		case k < 82:
			emit(fmt.Sprintf("c adv %d", g.pickAdvance()))
		case k < 86:
			emit("c purge " + g.anyAdmitted())
		case k < 93:
			name := g.anyAdmitted()
			if g.captured[name] && r.Chance(2, 3) {
				idx := int(name[1] - '0')
				kind, t2 := g.pickKind(idx)
				if kind == 'c' {
					kind = 'p'
				}
				emit(fmt.Sprintf("c pfdone %s %s", name, g.genSpec(name, kind, t2, false)))
				g.captured[name] = r.Chance(1, 3) // a second completion with the same claim is a stale one
			} else {
				emit("c cap " + name)
				g.captured[name] = true
			}
		case k >= 96:
			px := 1 + r.Intn(3)
			if g.pzone == 'p' && r.Chance(1, 3) {
				px = 0 // the apex NSEC (covers the wildcard): needed for NXDOMAIN synthesis
			}
			switch {
			case len(g.proofs) > 0 && r.Chance(1, 2):
				emit(fmt.Sprintf("c q %s %s %s %s -", g.route(), g.proofQ(g.proofOwner()), vlib.B(r.Chance(1, 8)), vlib.B(r.Chance(2, 3))))
			default:
				emit(g.genProof(px))
				g.proofs = append(g.proofs, px)
				emit(fmt.Sprintf("c q %s %s f %s -", g.route(), g.proofQ(g.proofOwner()), vlib.B(r.Chance(2, 3))))
				count++
			}
		default:
			kx := 1 + r.Intn(3)
			if len(g.cuts) > 0 && r.Chance(1, 2) {
				emit(fmt.Sprintf("c q %s u%d f %s -", g.route(), vlib.Pick(r, g.cuts), vlib.B(r.Bool())))
			} else {
				emit(g.genCut(kx))
				g.cuts = append(g.cuts, kx)
				emit(fmt.Sprintf("c q %s u%d f %s -", g.route(), kx, vlib.B(r.Bool())))
				count++
			}
		}
	}
	return count
}

// genAAAASide: an AAAA question for n<idx>; the upstream is scripted for the
// AAAA side (mostly NODATA) and often for the A side too.
func (g *genHist) genAAAASide(idx int, emit func(string)) {
	r := g.r
	name := fmt.Sprintf("m%d", idx)
	var kind byte
	tgt := 0
	switch k := r.Intn(20); {
	case k < 10:
		kind = 'd'
	case k < 13:
		kind = 'p'
	case k < 16 && idx < nNames-1:
		kind, tgt = 'c', idx+1+r.Intn(nNames-1-idx)
	case k < 18:
		kind = 'x'
	default:
		kind = 'e'
	}
	specs := []string{g.genSpec(name, kind, tgt, false)}
	g.admitted[name] = true
	if kind == 'c' && r.Chance(2, 3) {
		tn := fmt.Sprintf("m%d", tgt)
		specs = append(specs, g.genSpec(tn, vlib.Pick(r, []byte{'d', 'd', 'e', 'p'}), 0, false))
		g.admitted[tn] = true
	}
	if r.Chance(3, 5) {
		ak, at := g.pickKind(idx)
		if at >= 100 {
			ak, at = 'p', 0
		}
		an := fmt.Sprintf("n%d", idx)
		specs = append(specs, g.genSpec(an, ak, at, false))
		g.admitted[an] = true
		if ak == 'c' && r.Chance(1, 2) {
			tn := fmt.Sprintf("n%d", at)
			specs = append(specs, g.genSpec(tn, 'p', 0, false))
			g.admitted[tn] = true
		}
	}
	emit(fmt.Sprintf("c q %s %s %s %s %s", g.route(), name, vlib.B(r.Chance(1, 8)), vlib.B(r.Bool()), strings.Join(specs, ";")))
}

// proofOwner: an admitted owner other than the apex; proofQ: the name to ask — the owner itself
// (NODATA) or, in the NSEC zone, the name inside its span (NXDOMAIN: needs the apex NSEC as well).
func (g *genHist) proofOwner() int {
	var os []int
	for _, p := range g.proofs {
		if p > 0 {
			os = append(os, p)
		}
	}
	if len(os) == 0 {
		return 1
	}
	return vlib.Pick(g.r, os)
}

func (g *genHist) proofQ(owner int) string {
	if g.pzone == 'p' && g.r.Chance(2, 5) {
		return fmt.Sprintf("x%d", owner)
	}
	return fmt.Sprintf("%c%d", g.pzone, owner)
}

// genProof: an RFC 8198 NODATA proof for owner k of the proof zone.  The SOA
// RRset and the NSEC RRset get their own lifetimes: later admissions for other
// owners replace the zone's SOA entry, often with a shorter-lived one.
func (g *genHist) genProof(k int) string { return g.genProofZ(k, g.pzone) }

func (g *genHist) genProofZ(k int, zone byte) string {
	r := g.r
	long := vlib.Pick(r, []int64{60, 120, 300, 3600, 10000})
	short := vlib.Pick(r, []int64{1, 2, 3, 5, 6, 10, 30, 60})
	pick := func(base int64) int64 {
		if r.Chance(1, 5) {
			return vlib.Pick(r, []int64{1, 2, 5, 6, 30, 300, 100000})
		}
		return base
	}
	soaBase, nsecBase := long, long
	switch r.Intn(4) {
	case 0:
		soaBase = short
	case 1:
		nsecBase = short
	}
	soaT, soaM, g1T, g1O := pick(soaBase), pick(soaBase), pick(soaBase), pick(soaBase)
	nsecT, g2T, g2O := pick(nsecBase), pick(nsecBase), pick(nsecBase)
	lease := "-"
	minSOA := min64(min64(soaT, soaM), min64(g1T, g1O))
	minAll := min64(minSOA, min64(nsecT, min64(g2T, g2O)))
	minSOA, minAll = min64(minSOA, min64(g.expire, 10800)), min64(minAll, min64(g.expire, 10800))
	if r.Chance(1, 4) {
		l := vlib.Pick(r, []int64{0, 1, 2, 3, 4, 6, 20, 60, 9000})
		lease = fmt.Sprint(l)
		minSOA, minAll = min64(minSOA, l), min64(minAll, l)
		g.note(l)
	}
	d := func(minOther int64) int64 {
		if g.aligned {
			switch r.Intn(4) {
			case 0:
				return vlib.Pick(r, []int64{-5, 0, 1, 2})
			case 1:
				return minOther + int64(r.Intn(2))
			case 2:
				if minOther > 1 {
					return 1 + int64(r.Intn(int(min64(minOther, 50))))
				}
				return 1
			default:
				return 4000000
			}
		}
		switch r.Intn(6) {
		case 0:
			return vlib.Pick(r, []int64{-5, 0})
		case 1:
			return max64(minOther, 0) + 1
		default:
			return vlib.Pick(r, []int64{4000000, 2000000000})
		}
	}
	// outside aligned cases a signature may not be the limiting component of
	// either piece: beyond the SOA piece's other components is beyond the proof piece's too
	d1, d2 := d(minSOA), d(max64(minSOA, minAll))
	if !g.aligned && d2 > 0 && d2 <= minSOA {
		d2 = minSOA + 1
	}
	for _, x := range []int64{soaT, soaM, g1T, g1O, nsecT, g2T, g2O, d1, d2} {
		g.note(x)
	}
	op := "prec"
	if zone == 'q' {
		op = "prec3"
	}
	return fmt.Sprintf("c %s %d %s,%s,%s,%s %s", op, k, item('s', soaT, soaM), item('g', g1T, g1O, d1), item('p', nsecT), item('g', g2T, g2O, d2), lease)
}

func (g *genHist) genCut(k int) string {
	r := g.r
	base := vlib.Pick(r, []int64{2, 3, 5, 6, 10, 30, 60, 300, 3600, 10000})
	if g.expire > 86400 && r.Chance(2, 3) {
		base = vlib.Pick(r, []int64{90000, 200000, 600000}) // every component beyond 24 h
	}
	v := func() int64 {
		if r.Chance(1, 4) && base < 90000 {
			return vlib.Pick(r, []int64{1, 2, 4, 5, 6, 30, 300, 100000})
		}
		return base
	}
	soaT, soaM, nsecT := v(), v(), v()
	g1T, g1O, g2T, g2O := v(), v(), v(), v()
	lease := "-"
	minOther := min64(min64(min64(soaT, soaM), min64(nsecT, g1T)), min64(min64(g1O, g2T), g2O))
	minOther = min64(minOther, min64(g.expire, 86400))
	if r.Chance(1, 3) {
		l := vlib.Pick(r, []int64{0, 1, 2, 3, 4, 6, 60, 9000})
		lease = fmt.Sprint(l)
		minOther = min64(minOther, l)
	}
	d := func() int64 {
		if g.aligned {
			switch r.Intn(4) {
			case 0:
				return vlib.Pick(r, []int64{-5, 0, 1, 2})
			case 1:
				return minOther + int64(r.Intn(2))
			case 2:
				if minOther > 1 {
					return 1 + int64(r.Intn(int(min64(minOther, 50))))
				}
				return 1
			default:
				return 4000000
			}
		}
		switch r.Intn(5) {
		case 0:
			return vlib.Pick(r, []int64{-5, 0})
		case 1:
			return max64(minOther, 0) + 1
		default:
			return vlib.Pick(r, []int64{4000000, 2000000000})
		}
	}
	d1, d2 := d(), d()
	for _, x := range []int64{soaT, soaM, nsecT, g1T, g1O, g2T, g2O, d1, d2} {
		g.note(x)
	}
	return fmt.Sprintf("c cutrec %d %s,%s,%s,%s %s", k, item('s', soaT, soaM), item('g', g1T, g1O, d1), item('p', nsecT), item('g', g2T, g2O, d2), lease)
}

func (g *genHist) anyAdmitted() string {
	if len(g.admitted) == 0 {
		return "n0"
	}
	var names []string
	for n := range g.admitted {
		names = append(names, n)
	}
	sort.Strings(names)
	return vlib.Pick(g.r, names)
}

func (g *genHist) pickAdvance() int64 {
	r := g.r
	var cands []int64
	for t := range g.interest {
		for _, d := range []int64{-1, 0, 1} {
			if t+d > g.V {
				cands = append(cands, t+d-g.V)
			}
		}
	}
	sort.Slice(cands, func(a, b int) bool { return cands[a] < cands[b] })
	var adv int64
	switch {
	case len(cands) > 0 && r.Chance(3, 4):
		// favour the nearest boundaries
		n := len(cands)
		if n > 6 && r.Chance(2, 3) {
			n = 6
		}
		adv = cands[r.Intn(n)]
	default:
		adv = vlib.Pick(r, []int64{1, 1, 2, 3, 5, 30, 300, 4000, 86400})
	}
	g.V += adv
	return adv
}

func gen(r *vlib.R, n int, tier string, emit func(string)) {
	// vlib seeds splitmix64 with seed*golden, which makes the streams of
	// consecutive seeds shifted copies of one another; re-key from the first
	// output so that every VERIF_SEED explores different cases (still fully
	// determined by the seed).
	r = vlib.NewR(r.U64() ^ 0x5DEECE66D)
	for _, sc := range scenarios {
		for _, op := range sc {
			emit(op)
			if strings.HasPrefix(op, "c ") && hist != nil && hist.taint {
				break // a slow op may have stamped an entry late: drop the rest of this scenario
			}
		}
		n -= len(sc)
	}
	for n > 0 {
		switch k := r.Intn(20); {
		case k < 12:
			n -= genHistCase(r, emit)
		case k < 17:
			n -= genTTLCase(r, emit)
		default:
			n -= genCASCase(r, emit)
		}
	}
}
