//go:build verif

package main

import (
	"fmt"
	"runtime"
	"sync"
	"sync/atomic"
	"time"

	"github.com/miekg/dns"
	"github.com/semihalev/sdns/config"
	icache "github.com/semihalev/sdns/internal/cache"
	"github.com/semihalev/sdns/internal/verif/vlib"
	"github.com/semihalev/sdns/middleware/cache"
)

// The late-write guard on one key: client Sets, evictions, prefetch
// capture ... ReplaceIfCurrent, in the order the op lines give.

type casT struct {
	c        *cache.Cache
	st       *cache.Store
	q        dns.Question
	key      uint64
	ids      map[*cache.CacheEntry]int
	next     int
	captured map[int]*cache.CacheEntry
	// oracle ledger: number of value changes seen so far, and the count at
	// each prefetcher's capture
	changes  int
	capAt    map[int]int
	capNil   map[int]bool
}

var casS *casT

func casResp(q dns.Question, ttl uint32, mark byte) *dns.Msg {
	m := new(dns.Msg)
	m.SetQuestion(q.Name, q.Qtype)
	m.Response = true
	m.RecursionAvailable = true
	m.Answer = []dns.RR{mkA(q.Name, ttl, mark)}
	return m
}

func (s *casT) cur() (string, *cache.CacheEntry) {
	v, ok := cache.VerifC04Peek(s.c, s.key)
	if !ok {
		return "-", nil
	}
	id, seen := s.ids[v.Entry]
	if !seen {
		id = s.next
		s.next++
		s.ids[v.Entry] = id
	}
	return fmt.Sprint(id), v.Entry
}

func execCAS(f []string) vlib.Res {
	if f[1] == "new" {
		if casS != nil {
			casS.c.Stop()
		}
		c := cache.New(&config.Config{CacheSize: 1024, Expire: 600})
		q := dns.Question{Name: "cas.z.test.", Qtype: dns.TypeA, Qclass: dns.ClassINET}
		casS = &casT{c: c, st: cache.VerifC04Store(c), q: q, key: cache.VerifC04Key(q, false, zeroPrefix),
			ids: map[*cache.CacheEntry]int{}, captured: map[int]*cache.CacheEntry{}, capAt: map[int]int{}, capNil: map[int]bool{}}
		return vlib.Res{Impl: "ok"}
	}
	s := casS
	if s == nil {
		return vlib.Res{Impl: "bad-op"}
	}
	switch f[1] {
	case "set":
		s.st.SetFromResponseWithKey(s.key, casResp(s.q, uint32(vlib.AtoU64(f[2])), 1), time.Time{}, 0)
		s.changes++
		id, _ := s.cur()
		return vlib.Res{Impl: "cur=" + id, Oracle: "ok"}
	case "evict":
		_, before := s.cur()
		s.st.Purge(s.q)
		if before != nil {
			s.changes++
		}
		id, _ := s.cur()
		or := "ok"
		if id != "-" {
			or = "FAIL sig=cas/evict/entry-survived-purge"
		}
		return vlib.Res{Impl: "cur=" + id, Oracle: or}
	case "capture":
		p := vlib.Atoi(f[2])
		id, e := s.cur()
		s.captured[p] = e
		s.capAt[p] = s.changes
		s.capNil[p] = e == nil
		return vlib.Res{Impl: "cap=" + id, Oracle: "ok"}
	case "cas":
		p := vlib.Atoi(f[2])
		_, before := s.cur()
		exp, have := s.captured[p]
		ok := false
		if have {
			ok = s.st.ReplaceIfCurrent(s.key, exp, casResp(s.q, uint32(vlib.AtoU64(f[3])), 2), time.Time{}, 0)
		}
		id, after := s.cur()
		or := "ok"
		stale := !have || s.capNil[p] || s.capAt[p] != s.changes
		switch {
		case stale && ok:
			or = "FAIL sig=cas/late-write/reported-success-after-newer-write"
		case stale && after != before:
			or = "FAIL sig=cas/late-write/overwrote-newer-value"
		case !ok && after != before:
			or = "FAIL sig=cas/late-write/changed-value-on-failure"
		}
		if ok {
			s.changes++
		}
		tags := ""
		if stale {
			tags = "nt,stale-cas"
		} else {
			tags = "nt,fresh-cas"
		}
		return vlib.Res{Impl: "ok=" + vlib.B(ok) + " cur=" + id, Oracle: or, Tags: tags}
	case "stress":
		return casStress(s, vlib.Atoi(f[2]), vlib.Atoi(f[3]))
	}
	return vlib.Res{Impl: "bad-op"}
}

// casStress: rounds of k refreshes that all captured the same entry racing
// one client Set.  Whatever the schedule, a refresh that succeeds did so
// before the Set (after it the captured entry is gone), so the client's
// value must be the one that stays, and at most one refresh may succeed.
func casStress(s *casT, rounds, k int) vlib.Res {
	// Keep the key's lock segment busy with ordinary admissions of other keys (what a loaded
	// cache looks like): it stretches any window between a compare and the write that follows it.
	pos := cache.VerifC04Positive(s.c)
	neighbours := icache.VerifC04SameSegment(pos, s.key, 32)
	filler, _ := cache.VerifC04Peek(s.c, s.key)
	var stop atomic.Bool
	var noise sync.WaitGroup
	if procs := runtime.GOMAXPROCS(0); procs < 4 {
		defer runtime.GOMAXPROCS(runtime.GOMAXPROCS(4))
	}
	for w := 0; w < 4; w++ {
		noise.Add(1)
		go func(w int) {
			defer noise.Done()
			for i := w; !stop.Load(); i++ {
				if filler.Entry != nil {
					pos.Add(neighbours[i%len(neighbours)], filler.Entry)
				}
				runtime.Gosched()
			}
		}(w)
	}
	defer func() {
		stop.Store(true)
		noise.Wait()
		for _, n := range neighbours {
			pos.Remove(n)
		}
	}()
	bad := ""
	for r := 0; r < rounds && bad == ""; r++ {
		s.st.SetFromResponseWithKey(s.key, casResp(s.q, 300, 1), time.Time{}, 0)
		v, ok := cache.VerifC04Peek(s.c, s.key)
		if !ok {
			bad = "FAIL sig=cas/stress/seed-entry-missing"
			break
		}
		e0 := v.Entry
		if filler.Entry == nil {
			filler = v
		}
		var wg sync.WaitGroup
		var wins atomic.Int32
		start := make(chan struct{})
		for i := 0; i < k; i++ {
			wg.Add(1)
			go func(i int) {
				defer wg.Done()
				<-start
				if s.st.ReplaceIfCurrent(s.key, e0, casResp(s.q, 200, 2), time.Time{}, 0) {
					wins.Add(1)
				}
			}(i)
		}
		wg.Add(1)
		go func() {
			defer wg.Done()
			<-start
			s.st.SetFromResponseWithKey(s.key, casResp(s.q, 100, 3), time.Time{}, 0)
		}()
		close(start)
		wg.Wait()
		fin, ok := cache.VerifC04Peek(s.c, s.key)
		switch {
		case !ok:
			bad = "FAIL sig=cas/stress/value-lost"
		case fin.TTL != 100*time.Second:
			bad = fmt.Sprintf("FAIL sig=cas/stress/refresh-overwrote-client-write round=%d final-ttl=%v", r, fin.TTL)
		case wins.Load() > 1:
			bad = fmt.Sprintf("FAIL sig=cas/stress/two-refreshes-replaced-one-entry round=%d", r)
		}
	}
	// leave the slot in a state the model knows: emptied
	s.st.Purge(s.q)
	s.changes++
	if bad == "" {
		bad = "ok"
	}
	return vlib.Res{Impl: "done", Oracle: bad, Tags: "nt,stress"}
}
