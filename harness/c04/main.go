//go:build verif

// Correspondence driver for C04 (nothing is served past its lifetime;
// composed answers inherit the shortest part).
//
//	ttl ...   function level: real dnsutil.CalculateCacheTTL / getRRSIGTTL,
//	          TTLManager.Calculate, CacheEntry.remaining, boundRequestToEntryLifetime,
//	          ResponseMeta.BoundCutFor / ForkCut / inherit, denialProofExpiry
//	cas ...   real Store.ReplaceIfCurrent against SetFromResponse* / Purge in
//	          deterministic step orders, plus a goroutine stress (oracle only)
//	c ...     histories against a real edns+cache pipeline: admissions through the
//	          scripted upstream, hits on the Msg / byte / wire-born routes, alias
//	          chases, RFC 8020 cuts, purges, prefetch capture/completion, clock
//	          advances through the timestamp shifter
package main

import (
	"strings"
	"time"

	"github.com/semihalev/sdns/config"
	"github.com/semihalev/sdns/internal/dnsutil"
	"github.com/semihalev/sdns/internal/verif/vlib"
	"github.com/semihalev/sdns/middleware/cache"
	"github.com/semihalev/sdns/middleware/dns64"
)

const sec = int64(time.Second)

func exec(op string) vlib.Res {
	f := strings.Fields(op)
	if len(f) < 2 {
		return vlib.Res{Impl: "bad-op"}
	}
	switch f[0] {
	case "ttl":
		return execTTL(f)
	case "cas":
		return execCAS(f)
	case "c":
		return execHist(f)
	}
	return vlib.Res{Impl: "bad-op"}
}

// facts: constants and small behavioural facts read from the compiled code.
func facts() map[string]any {
	pmin, pmax := cache.VerifC04PkgTTL()
	c := cache.New(&config.Config{CacheSize: 1024, Expire: 600})
	defer c.Stop()
	posMin, posMax, _, _ := cache.VerifC04TTLBounds(c)
	now := time.Unix(2000000000, 0)
	// an RRSIG that expired an hour ago, record TTL one hour
	expired := dnsutil.VerifC04GetRRSIGTTL(mkSig("x.", 3600, uint32(now.Unix()-3600)), now)
	// the same with an inverted window (Inception numerically after Expiration)
	expiredInv := dnsutil.VerifC04GetRRSIGTTL(invert(mkSig("x.", 3600, uint32(now.Unix()-3600)), true), now)
	// an RRSIG expiring in 7 s, record TTL one hour
	short := dnsutil.VerifC04GetRRSIGTTL(mkSig("x.", 3600, uint32(now.Unix()+7)), now)
	// does a 40 s signature window bound a negative answer whose SOA says 300 s?
	neg := calcRetry(func(base int64) time.Duration {
		m := buildCalcMsg(base, []rrItem{}, []rrItem{{kind: 's', ttl: 300, a: 300}, {kind: 'g', ttl: 300, a: 40}}, nil)
		return dnsutil.CalculateCacheTTL(m, dnsutil.TypeNXDomain)
	})
	// SOA minimum below the SOA TTL bounds a negative answer
	soamin := calcRetry(func(base int64) time.Duration {
		m := buildCalcMsg(base, []rrItem{}, []rrItem{{kind: 's', ttl: 3600, a: 60}}, nil)
		return dnsutil.CalculateCacheTTL(m, dnsutil.TypeNoRecords)
	})
	// an alias answer carrying its target's SOA (TTL 3600, minimum 60) next to a 3600 s CNAME
	alias := calcRetry(func(base int64) time.Duration {
		m := buildCalcMsg(base, []rrItem{{kind: 'p', ttl: 3600}}, []rrItem{{kind: 's', ttl: 3600, a: 60}}, nil)
		return dnsutil.CalculateCacheTTL(m, dnsutil.TypeSuccess)
	})
	bigCut, bigProof := histBigMax()
	// the ECS cap survives cache.New's "using defaults" fallback (cachesize below 1024)
	fb := &config.Config{CacheSize: 0, Expire: 600}
	fb.ECS = config.ECSConfig{Enabled: true, ForwardV4Max: 24, ForwardV6Max: 56, MinScopeV4: 24, MinScopeV6: 56,
		CacheLimitTTL: config.Duration{Duration: 7 * time.Second}}
	fbc := cache.New(fb)
	fbCap := cache.VerifC04ECSMax(fbc)
	fbc.Stop()
	return map[string]any{
		"ecs_cap_under_fallback_ns": int64(fbCap),
		"hist_cut_max_big_ns":   bigCut,
		"hist_proof_max_big_ns": bigProof,
		"minCacheTTL_ns":        int64(dnsutil.MinCacheTTL),
		"maxCacheTTL_ns":        int64(dnsutil.MaxCacheTTL),
		"pkg_minTTL_ns":         int64(pmin),
		"pkg_maxTTL_ns":         int64(pmax),
		"positive_min_ns":       int64(posMin),
		"positive_max_ns":       int64(posMax),
		"rrsig_expired_ttl_ns":  int64(expired),
		"rrsig_short_ttl_ns":    int64(short),
		"rrsig_expired_inverted_ttl_ns": int64(expiredInv),
		"neg_sig40_soa300_s":    int64((neg + time.Second - 1) / time.Second),
		"nodata_soamin60_s":     int64((soamin + time.Second - 1) / time.Second),
		"alias_soamin60_s":      int64((alias + time.Second - 1) / time.Second),
		"max_denial_proof_ns":   int64(cache.VerifC04MaxDenialProofTTL()),
		"cut_max_ttl_expire600": int64(cache.VerifC04CutMaxTTL(c)),
		"hist_cut_max_ns":       histCutMax(),
		"dns64_no_soa_ceiling_s": int64(dns64.VerifC04NoSOACeiling()),
		"hist_proof_max_ns":     histProofMax(),
	}
}

// histCutMax: the ceiling of the RFC 8020 cut index under the configuration
// the history cases run with.
func histCutMax() int64 {
	c := cache.New(&config.Config{CacheSize: 1024, Expire: histExpire})
	defer c.Stop()
	return int64(cache.VerifC04CutMaxTTL(c))
}

// the same ceilings under `expire` = one week (above the 24 h cap)
func histBigMax() (int64, int64) {
	c := cache.New(&config.Config{CacheSize: 1024, Expire: histExpireBig})
	defer c.Stop()
	return int64(cache.VerifC04CutMaxTTL(c)), int64(cache.VerifC04ProofMaxTTL(c))
}

func histProofMax() int64 {
	c := cache.New(&config.Config{CacheSize: 1024, Expire: histExpire})
	defer c.Stop()
	return int64(cache.VerifC04ProofMaxTTL(c))
}

func main() { vlib.Main(&vlib.Driver{Facts: facts, Exec: exec, Gen: gen}) }
