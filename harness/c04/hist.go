//go:build verif

package main

import (
	"context"
	"fmt"
	"net"
	"net/netip"
	"runtime"
	"sort"
	"strconv"
	"strings"
	"time"

	"github.com/miekg/dns"
	"github.com/semihalev/sdns/config"
	"github.com/semihalev/sdns/internal/mock"
	"github.com/semihalev/sdns/internal/verif/vlib"
	"github.com/semihalev/sdns/middleware"
	"github.com/semihalev/sdns/middleware/cache"
	"github.com/semihalev/sdns/middleware/dns64"
	"github.com/semihalev/sdns/middleware/edns"
)

// Histories against a real edns+cache pipeline.
//
// Virtual clock.  CacheEntry reads time.Now() directly, so a clock advance is
// emulated by moving every stored timestamp into the past (VerifShift).  The
// driver keeps a virtual time V (whole seconds, advanced by `c adv`) plus a
// per-case op counter j; before every op that reads or writes time it shifts
// the stored timestamps so that, seen from the entries, "now" is exactly
// V seconds + j*tau after the case started (this also cancels the real time
// that elapsed meanwhile).  Successive ops are therefore tau apart, which
// keeps every remaining lifetime a safe distance from a whole-second
// boundary, and the model is given the same instants.
//
// RRSIG expirations are absolute whole Unix seconds compared with the real
// clock.  An op item g<ttl>/<D> becomes Expiration = floor(realnow)+D, i.e.
// the signature expires D-f seconds from now, f the fraction of the current
// real second.  Cases in which a signature is the limiting component are
// started on a real-second boundary (`c new <cap> t` waits for f <= 0.6; the
// only place the driver waits for the wall clock) so that f plus the op
// offsets stays below one second and every whole-second reading is the one
// the model computes with f = 0.

const tau = 20 * time.Millisecond

// an op that changed stored state and took longer than this (real time) may
// have stamped its entries noticeably late: the generator then ends the case.
const taintAfter = 8 * time.Millisecond

var (
	zeroPrefix netip.Prefix
	ecsPrefix  = netip.MustParsePrefix("198.51.100.0/24")
)

const (
	histExpire    = 7200
	histExpireBig = 604800 // a week: `expire` above the 24 h cap
	nNames        = 6
)

type specT struct {
	name   string // token n<k>
	kind   byte   // p positive, c alias, x NXDOMAIN, d NODATA, e empty NOERROR
	tgt    string
	ans    []rrItem
	ns     []rrItem
	extra  []rrItem // additional section (optional 6th field of a spec)
	lease  *int64
	scoped bool
	mark   int
}

func fq(tok string) string {
	if tok[0] == 'u' {
		return "u.d" + tok[1:] + ".z.test."
	}
	if tok[0] == 'p' {
		return "w" + tok[1:] + ".pz.test." // an owner of the signed proof zone (RFC 8198 synthesis)
	}
	if tok[0] == 'm' {
		return "n" + tok[1:] + ".z.test." // the AAAA side of name n<k>
	}
	if tok[0] == 'q' {
		return "v" + tok[1:] + ".qz.test." // an owner of the NSEC3-signed proof zone
	}
	if tok[0] == 'x' {
		return "w" + tok[1:] + "m.pz.test." // a name that does not exist: inside the NSEC span w<i> -> w<i>z
	}
	return tok + ".z.test."
}

// qtypeOf: m<k> is the AAAA question for the name whose A question is n<k>.
func qtypeOf(tok string) uint16 {
	if tok[0] == 'm' {
		return dns.TypeAAAA
	}
	return dns.TypeA
}

func mkAAAA(owner string, ttl uint32, idx, mark byte) *dns.AAAA {
	ip := net.ParseIP("2001:db8:ffff::")
	ip[14], ip[15] = idx, mark
	return &dns.AAAA{Hdr: dns.RR_Header{Name: owner, Rrtype: dns.TypeAAAA, Class: dns.ClassINET, Ttl: ttl}, AAAA: ip}
}

// waitRoom makes sure the current real second has at least 60 ms left, so
// that an op which builds RRSIG expirations from floor(now) completes within
// that same second.
func waitRoom() {
	for time.Now().Nanosecond() > 940e6 {
		runtime.Gosched()
	}
}

// parseUp: `n1=c2:<ans>:<ns>:<lease>:<scope>` joined by ';'
func parseUp(s string) map[string]*specT {
	out := map[string]*specT{}
	if s == "-" {
		return out
	}
	for _, part := range strings.Split(s, ";") {
		name, rest, _ := strings.Cut(part, "=")
		f := strings.Split(rest, ":")
		sp := &specT{name: name, kind: f[0][0], ans: parseItems(f[1]), ns: parseItems(f[2])}
		if sp.kind == 'c' {
			sp.tgt = name[:1] + f[0][1:] // an alias is chased with the question's own type
			if f[0][1] == 'p' || f[0][1] == 'u' || f[0][1] == 'q' {
				sp.tgt = f[0][1:] // alias onto a name of the proof zone / below a subtree cut
			}
		}
		if f[3] != "-" {
			v := vlib.AtoI64(f[3])
			sp.lease = &v
		}
		sp.scoped = f[4] == "s"
		if len(f) > 5 {
			sp.extra = parseItems(f[5])
		}
		out[name] = sp
	}
	return out
}

func (sp *specT) negative() bool { return sp.kind == 'x' || sp.kind == 'd' }

func (sp *specT) expiredSig() bool {
	if sp.kind != 'p' && sp.kind != 'c' {
		return false
	}
	for _, it := range append(append([]rrItem{}, sp.ans...), sp.ns...) {
		if it.kind == 'g' && it.a < 0 {
			return true
		}
	}
	return false
}

func (sp *specT) build(req *dns.Msg, base int64) *dns.Msg {
	m := new(dns.Msg)
	m.SetReply(req)
	m.RecursionAvailable = true
	if sp.kind == 'x' {
		m.Rcode = dns.RcodeNameError
	}
	owner := fq(sp.name)
	first := true
	for i, it := range sp.ans {
		switch it.kind {
		case 'p':
			if sp.kind == 'c' && first {
				m.Answer = append(m.Answer, &dns.CNAME{Hdr: dns.RR_Header{Name: owner, Rrtype: dns.TypeCNAME, Class: dns.ClassINET, Ttl: it.ttl}, Target: fq(sp.tgt)})
				first = false
			} else if sp.kind == 'p' && sp.name[0] == 'm' {
				m.Answer = append(m.Answer, mkAAAA(owner, it.ttl, byte(i), byte(sp.mark)))
			} else if sp.kind == 'p' {
				a := mkA(owner, it.ttl, byte(sp.mark))
				a.A[2] = byte(i)
				m.Answer = append(m.Answer, a)
			}
		case 'g':
			sg := invert(mkSig(owner, it.ttl, sigExp(base, it.a)), it.inv)
			sg.KeyTag = uint16(sp.mark)
			sg.Labels = 3
			if sp.kind == 'c' {
				sg.TypeCovered = dns.TypeCNAME
			} else if sp.name[0] == 'm' {
				sg.TypeCovered = dns.TypeAAAA
			}
			m.Answer = append(m.Answer, sg)
		}
	}
	nso := "ns." + owner
	for i, it := range sp.ns {
		switch it.kind {
		case 'p':
			m.Ns = append(m.Ns, mkTXT(nso, it.ttl, fmt.Sprintf("m%d/%d", sp.mark, i)))
		case 's':
			so := mkSOA(nso, it.ttl, uint32(it.a))
			so.Serial = uint32(sp.mark)
			m.Ns = append(m.Ns, so)
		case 'g':
			sg := invert(mkSig(nso, it.ttl, sigExp(base, it.a)), it.inv)
			sg.TypeCovered = dns.TypeSOA
			sg.KeyTag = uint16(sp.mark)
			sg.Labels = 4
			m.Ns = append(m.Ns, sg)
		}
	}
	for i, it := range sp.extra {
		if it.kind == 'p' {
			m.Extra = append(m.Extra, mkTXT(nso, it.ttl, fmt.Sprintf("m%d/x%d", sp.mark, i)))
		}
	}
	if sp.scoped {
		if o := req.IsEdns0(); o != nil {
			for _, opt := range o.Option {
				if sub, ok := opt.(*dns.EDNS0_SUBNET); ok {
					ro := &dns.OPT{Hdr: dns.RR_Header{Name: ".", Rrtype: dns.TypeOPT}}
					ro.SetUDPSize(1232)
					ro.Option = append(ro.Option, &dns.EDNS0_SUBNET{Code: dns.EDNS0SUBNET, Family: sub.Family,
						SourceNetmask: sub.SourceNetmask, SourceScope: 24, Address: sub.Address})
					m.Extra = append(m.Extra, ro)
				}
			}
		}
	}
	return m
}

// upstream is the scripted authority behind the cache.
type upstream struct {
	script   map[string]*specT
	calls    map[string]int // reached the upstream
	answered map[string]int // ... and the upstream answered
	base     int64
	at       time.Time
}

func (u *upstream) Name() string { return "upstream" }
func (u *upstream) ServeDNS(ctx context.Context, ch *middleware.Chain) {
	req := ch.Request.Msg()
	if req == nil || len(req.Question) == 0 {
		ch.Cancel()
		return
	}
	tok := strings.TrimSuffix(strings.ToLower(req.Question[0].Name), ".z.test.")
	if req.Question[0].Qtype == dns.TypeAAAA && strings.HasPrefix(tok, "n") {
		tok = "m" + tok[1:]
	}
	u.calls[tok]++
	sp := u.script[tok]
	if sp == nil || req.Question[0].Qtype != qtypeOf(tok) {
		ch.Cancel() // silent: nothing is written, nothing is admitted
		return
	}
	u.answered[tok]++
	if sp.lease != nil {
		if meta := middleware.ResponseMetaFrom(ctx); meta != nil {
			// the lease is observed at the op instant
			meta.BoundCutFor(u.at.Add(time.Duration(*sp.lease)*time.Second), 7)
		}
	}
	_ = ch.Writer.WriteMsg(sp.build(req, u.base))
	ch.Cancel()
}

// orec: what the oracle knows about one stored thing.
type orec struct {
	gen       int
	admitV    int64
	life      int64 // permitted lifetime, whole seconds
	lim       string
	nsLife    int64 // permitted lifetime of its authority records alone (>= life)
	nsLim     string
	negTTL    int64 // kind d: min(SOA TTL, SOA minimum) of the denial, -1 otherwise
	lastShown int64
	mark      int
}

type slotKey struct {
	tok    string
	scoped bool
}

type histT struct {
	c      *cache.Cache
	pipe   *middleware.Pipeline
	up     *upstream
	t0     time.Time
	V      int64
	j      int64
	shift  time.Duration
	syncAt time.Time // real instant of the last sync
	taint  bool      // the last state-changing op was slow (see taintAfter)
	ecsCap int64
	marks  int

	known    map[slotKey]*cache.CacheEntry
	led      map[slotKey]*orec
	gens     map[slotKey]int
	captured map[string]*cache.CacheEntry
	capGen   map[string]int
	capHad   map[string]bool
	cuts     map[string]*orec
	nsec3Origins map[string][]*orec
	origins  map[string]*orec // (piece, mark) -> the admission a record originates from (never deleted)
	shown    map[string]int64 // (holder, piece, mark) -> smallest TTL shown so far
}

var hist *histT

func histNew(f []string) vlib.Res {
	if hist != nil {
		hist.c.Stop()
	}
	capS := vlib.AtoI64(f[2])
	if len(f) > 3 && f[3] == "t" {
		// start the case early in a real second (see the header comment)
		for time.Now().Nanosecond() > 600e6 {
			runtime.Gosched()
		}
	}
	expire := uint32(histExpire)
	if len(f) > 5 {
		expire = uint32(vlib.AtoU64(f[5]))
	}
	size := 1024
	if len(f) > 6 {
		size = vlib.Atoi(f[6]) // below 1024: cache.New takes its "using defaults" fallback
	}
	cfg := &config.Config{CacheSize: size, Expire: expire, CookieSecret: "6c6f6f6b61686172646c6f6f6b6168617264"}
	cfg.ECS = config.ECSConfig{Enabled: true, ForwardV4Max: 24, ForwardV6Max: 56, MinScopeV4: 24, MinScopeV6: 56,
		ClientNetworks: []string{"198.51.100.0/24"}, CacheLimitTTL: config.Duration{Duration: time.Duration(capS) * time.Second}}
	pf := 0
	if len(f) > 4 {
		pf = vlib.Atoi(f[4])
	}
	cfg.Prefetch = uint32(pf)
	cfg.DNS64 = config.DNS64Config{Enabled: true, Prefixes: []string{"2001:db8:64::/96"}}
	h := &histT{ecsCap: capS, known: map[slotKey]*cache.CacheEntry{}, led: map[slotKey]*orec{}, gens: map[slotKey]int{},
		captured: map[string]*cache.CacheEntry{}, capGen: map[string]int{}, capHad: map[string]bool{}, cuts: map[string]*orec{},
		origins: map[string]*orec{}, shown: map[string]int64{}, nsec3Origins: map[string][]*orec{}}
	h.up = &upstream{script: map[string]*specT{}, calls: map[string]int{}, answered: map[string]int{}}
	reg := middleware.NewRegistry()
	reg.Register("edns", func(c *config.Config) middleware.Handler { return edns.New(c) })
	reg.Register("dns64", func(c *config.Config) middleware.Handler { return dns64.New(c) })
	reg.Register("cache", func(c *config.Config) middleware.Handler { h.c = cache.New(c); return h.c })
	reg.Register("upstream", func(c *config.Config) middleware.Handler { return h.up })
	h.pipe = reg.Build(cfg)
	middleware.VerifC04AutoWire(h.pipe)
	h.c.SetDNSSECCryptoLimiter(openLimiter{}) // NSEC3 proof lookups need the shared crypto gate
	if pf > 0 {
		// real hits claim refreshes; they stay queued until `c pfrun`
		cache.VerifC04HoldPrefetch(h.c)
	}
	h.t0 = time.Now()
	hist = h
	return vlib.Res{Impl: "ok"}
}

// sync makes the entries see now = V seconds + j*tau since the case start.
func (h *histT) sync() {
	// syncAt is the real instant that corresponds to the op instant exactly:
	// everything measured from it (tolerances, the slow-op rule, leases the
	// upstream reports) includes the time the shift itself takes
	at := time.Now()
	want := time.Duration(h.V)*time.Second + time.Duration(h.j)*tau - at.Sub(h.t0)
	cache.VerifShift(h.c, want-h.shift)
	h.shift = want
	h.syncAt = at
}

// tol: how far a stored timestamp of this op may lie after the op instant.
func (h *histT) tol() time.Duration {
	d := time.Since(h.syncAt) + time.Millisecond
	if d < tau/2 {
		d = tau / 2
	}
	return d
}

// settle is called at the end of an op that changed stored state.
func (h *histT) settle(changed bool) {
	if changed && time.Since(h.syncAt) > taintAfter {
		h.taint = true
	}
}

// virt converts a real instant into virtual time since the case start.
func (h *histT) virt(t time.Time) time.Duration { return t.Sub(h.t0) + h.shift }

func (h *histT) vnow() time.Duration { return time.Duration(h.V)*time.Second + time.Duration(h.j)*tau }

func slotScope(scoped bool) netip.Prefix {
	if scoped {
		return ecsPrefix
	}
	return zeroPrefix
}

func keyOf(tok string, scoped bool) uint64 {
	return cache.VerifC04Key(dns.Question{Name: fq(tok), Qtype: qtypeOf(tok), Qclass: dns.ClassINET}, false, slotScope(scoped))
}

func mkReq(tok string, ecs, do bool) *dns.Msg {
	req := new(dns.Msg)
	req.SetQuestion(fq(tok), qtypeOf(tok))
	req.RecursionDesired = true
	req.SetEdns0(4096, do)
	if ecs {
		o := req.IsEdns0()
		o.Option = append(o.Option, &dns.EDNS0_SUBNET{Code: dns.EDNS0SUBNET, Family: 1, SourceNetmask: 24, Address: net.IPv4(198, 51, 100, 0).To4()})
	}
	return req
}

func (h *histT) run(route string, req *dns.Msg) *dns.Msg {
	w := mock.NewWriter("tcp", "198.51.100.77:40000")
	ch := middleware.NewChain(h.pipe.Handlers())
	switch route {
	case "dwire":
		ch.Reset(w, req)
		ch.AllowDirectPack()
	case "wire", "lwire":
		raw, err := req.Pack()
		r := new(middleware.Request)
		stamp := time.Now()
		if route == "lwire" {
			// the transport read the packet three seconds before it is served (a job queued behind
			// slow work, a recvmmsg batch): lifetimes are judged at the serve instant
			stamp = stamp.Add(-3 * time.Second)
		}
		if err == nil && r.ParseWire(raw, stamp, nil) {
			ch.ResetWire(w, r)
		} else {
			ch.Reset(w, req)
		}
		ch.AllowDirectPack()
	default:
		ch.Reset(w, req)
	}
	ch.Next(context.Background())
	ch.Finish()
	if !w.Written() {
		return nil
	}
	return w.Msg()
}

// recTok: one record of a reply reduced to (piece, section, ttl, mark).
type recTok struct {
	tok   string
	ns    bool
	ttl   int64
	mark  int
	typ   uint16
	tgt   string // CNAME: the piece it points at
	fresh bool // relayed from the upstream answer of this very op (not from the cache)
}

// markFresh: a record is fresh when the upstream answered for its piece in
// this op and the record carries that answer's mark (records without a mark
// are answer-section CNAMEs, which are never copied into another entry).
func markFresh(recs []recTok, answered map[string]int, script map[string]*specT) {
	for i := range recs {
		r := &recs[i]
		sp := script[r.tok]
		r.fresh = isNameTok(r.tok) && answered[r.tok] > 0 && sp != nil && (r.mark < 0 || r.mark == sp.mark)
	}
}

func isNameTok(t string) bool { return t[0] == 'n' || t[0] == 'm' }

// cachedAnswerPieces: pieces whose answer records came out of the cache.
func cachedAnswerPieces(recs []recTok) map[string]bool {
	out := map[string]bool{}
	for _, r := range recs {
		if !r.ns && !r.fresh && isNameTok(r.tok) {
			out[r.tok] = true
		}
	}
	return out
}

func markOf(rr dns.RR) int {
	switch r := rr.(type) {
	case *dns.A:
		return int(r.A[3])
	case *dns.AAAA:
		return int(r.AAAA[15]) // an upstream AAAA carries its mark, a synthesised one the mark of its A
	case *dns.SOA:
		return int(r.Serial)
	case *dns.RRSIG:
		return int(r.KeyTag)
	case *dns.NSEC:
		if n := len(r.TypeBitMap); n > 0 && r.TypeBitMap[n-1] >= 1000 {
			return int(r.TypeBitMap[n-1]) - 1000
		}
	case *dns.TXT:
		if len(r.Txt) > 0 && strings.HasPrefix(r.Txt[0], "m") {
			s, _, _ := strings.Cut(r.Txt[0][1:], "/")
			n, _ := strconv.Atoi(s)
			return n
		}
	}
	return -1
}

func cutRecordID(rr dns.RR) (int, bool) {
	if strings.ToLower(rr.Header().Name) != "z.test." && !(strings.HasPrefix(strings.ToLower(rr.Header().Name), "c") && strings.HasSuffix(strings.ToLower(rr.Header().Name), ".z.test.") && len(rr.Header().Name) == len("c1.z.test.")) {
		return 0, false
	}
	switch r := rr.(type) {
	case *dns.SOA:
		if r.Serial >= cutBase {
			return int(r.Serial), true
		}
	case *dns.RRSIG:
		if r.Inception >= cutBase && r.Inception < 10*cutBase {
			return int(r.Inception), true
		}
	}
	return 0, false
}

// replyRecs: side is 'm' when the reply to an AAAA question came from the
// AAAA side of the cache (passed through by dns64), 'n' otherwise (A side:
// plain A questions, and AAAA questions dns64 answered from the A response).
func replyRecs(qtok string, m *dns.Msg, side byte) []recTok {
	var out []recTok
	tokOf := func(owner string, ns bool) string {
		o := strings.TrimSuffix(strings.ToLower(owner), ".z.test.")
		if side == 'm' {
			if strings.HasPrefix(o, "ns.n") {
				o = "ns.m" + o[4:]
			} else if strings.HasPrefix(o, "n") {
				o = "m" + o[1:]
			}
		}
		if ns {
			if strings.HasPrefix(o, "ns.") {
				return o[3:]
			}
			if lo := strings.ToLower(owner); lo == "qz.test." {
				return "tz"
			} else if strings.HasSuffix(lo, ".qz.test.") {
				for i := 1; i <= 3; i++ {
					if strings.HasPrefix(lo, strings.ToLower(nsec3Hash(i))+".") {
						return fmt.Sprintf("t%d", i)
					}
				}
				return "?" + o
			} else if lo == "pz.test." {
				return "sz"
			} else if strings.HasSuffix(lo, ".pz.test.") && strings.HasPrefix(lo, "w") {
				return "s" + strings.TrimSuffix(lo[1:], ".pz.test.")
			}
			if strings.HasPrefix(o, "c") && len(o) == 2 {
				return "d" + o[1:] // the NSEC of the cut d<k>
			}
			if qtok[0] == 'u' {
				return "d" + qtok[1:]
			}
			return "?" + o
		}
		return o
	}
	for _, rr := range m.Answer {
		rt := recTok{tok: tokOf(rr.Header().Name, false), ttl: int64(rr.Header().Ttl), mark: markOf(rr), typ: rr.Header().Rrtype}
		if cn, ok := rr.(*dns.CNAME); ok {
			if lo := strings.ToLower(cn.Target); strings.HasSuffix(lo, ".pz.test.") {
				rt.tgt = "p" + strings.TrimSuffix(strings.TrimPrefix(lo, "w"), ".pz.test.")
			} else if strings.HasSuffix(lo, ".qz.test.") {
				rt.tgt = "q" + strings.TrimSuffix(strings.TrimPrefix(lo, "v"), ".qz.test.")
			} else {
				rt.tgt = tokOf(cn.Target, false)
			}
		}
		out = append(out, rt)
	}
	for _, sect := range [][]dns.RR{m.Ns, m.Extra} {
		for _, rr := range sect {
			if rr.Header().Rrtype == dns.TypeOPT {
				continue
			}
			mk := markOf(rr)
			tk := tokOf(rr.Header().Name, true)
			// the records of a subtree cut carry (cut, admission) in SOA serial / RRSIG inception
			if id, ok := cutRecordID(rr); ok {
				tk, mk = fmt.Sprintf("d%d", id/cutBase), id%cutBase
			}
			// the apex of the NSEC proof zone owns the SOA piece and the apex NSEC piece
			if tk == "sz" {
				if _, isNSEC := rr.(*dns.NSEC); isNSEC {
					tk = "s0"
				} else if sg, isSig := rr.(*dns.RRSIG); isSig && sg.TypeCovered == dns.TypeNSEC {
					tk = "s0"
				}
			}
			out = append(out, recTok{tok: tk, ns: true, ttl: int64(rr.Header().Ttl), mark: mk, typ: rr.Header().Rrtype})
		}
	}
	return out
}

// tokens: `n0:299 n1:120 n1~120` — per piece the distinct TTLs of its
// answer records, then per piece those of its authority/additional records.
func tokens(recs []recTok) string {
	var order []string
	sets := map[string]map[int64]bool{}
	for _, pass := range []bool{false, true} {
		for _, r := range recs {
			if r.ns != pass {
				continue
			}
			k := r.tok + ":"
			if r.ns {
				k = r.tok + "~"
			}
			if sets[k] == nil {
				sets[k] = map[int64]bool{}
				order = append(order, k)
			}
			if r.fresh {
				sets[k][-1] = true
			} else {
				sets[k][r.ttl] = true
			}
		}
	}
	var parts []string
	for _, k := range order {
		var v []int64
		for t := range sets[k] {
			v = append(v, t)
		}
		sort.Slice(v, func(a, b int) bool { return v[a] < v[b] })
		var s []string
		for _, t := range v {
			if t < 0 {
				s = append(s, "*")
			} else {
				s = append(s, strconv.FormatInt(t, 10))
			}
		}
		parts = append(parts, k+strings.Join(s, "/"))
	}
	return strings.Join(parts, " ")
}

// ceilRel canonicalises a virtual duration relative to the op instant:
// whole seconds, rounding up, tolerant of the time the op itself took.
func (h *histT) ceilRel(d time.Duration) int64 { return ceilSec(d - h.tol()) }

// listing reports (and registers) every slot whose stored entry changed.
type change struct {
	k    slotKey
	view cache.VerifC04View
	gone bool
}

func (h *histT) changes() []change {
	var out []change
	for i := 0; i < 2*nNames; i++ {
		for _, sc := range []bool{false, true} {
			k := slotKey{fmt.Sprintf("n%d", i), sc}
			if i >= nNames {
				k.tok = fmt.Sprintf("m%d", i-nNames)
			}
			v, ok := cache.VerifC04Peek(h.c, keyOf(k.tok, sc))
			var cur *cache.CacheEntry
			if ok {
				cur = v.Entry
			}
			if cur != h.known[k] {
				h.known[k] = cur
				h.gens[k]++
				out = append(out, change{k: k, view: v, gone: !ok})
			}
		}
	}
	return out
}

func (h *histT) listing(chs []change) string {
	rank := func(k slotKey) int {
		n := int(k.tok[1]-'0') * 2
		if k.tok[0] == 'm' {
			n += 2 * nNames
		}
		if k.scoped {
			n++
		}
		return n
	}
	chs = append([]change(nil), chs...)
	sort.SliceStable(chs, func(a, b int) bool { return rank(chs[a].k) < rank(chs[b].k) })
	var parts []string
	for _, c := range chs {
		if c.gone {
			continue
		}
		name := c.k.tok
		if c.k.scoped {
			name += "@"
		}
		cut := "-"
		if !c.view.CutUntil.IsZero() {
			cut = strconv.FormatInt(h.ceilRel(h.virt(c.view.CutUntil)-h.vnow()), 10)
		}
		parts = append(parts, fmt.Sprintf("%s=%d/%s", name, ceilSec(c.view.TTL), cut))
	}
	if len(parts) == 0 {
		return ""
	}
	return " adm " + strings.Join(parts, " ")
}

func fail(sig, format string, a ...any) string {
	// keep signatures stable: the limiting component, not which piece it was
	if i := strings.Index(sig, "/piece-"); i >= 0 {
		sig = sig[:i] + "/piece"
	}
	if i := strings.Index(sig, "-exceeds-piece-"); i >= 0 {
		sig = sig[:i] + "-exceeds-piece"
	}
	return "FAIL sig=" + sig + " " + fmt.Sprintf(format, a...)
}

// originOf: the admission a served record comes from.  Records carry the
// mark of the upstream answer they were admitted with; an alias entry may
// hold copies of its target's authority records, so the origin is looked up
// by (piece, mark), not by which entry currently sits in the piece's slot.
func (h *histT) originOf(r recTok) (*orec, bool) {
	if r.tok[0] == 'd' {
		if r.mark >= 0 {
			if o := h.origins[fmt.Sprintf("%s#%d", r.tok, r.mark)]; o != nil {
				return o, false
			}
		}
		return h.cuts[r.tok], false
	}
	if r.fresh {
		return nil, true
	}
	if r.tok[0] == 's' || r.tok[0] == 't' {
		if o := h.origins[fmt.Sprintf("%s#%d", r.tok, r.mark)]; o != nil || r.mark >= 0 {
			return o, false
		}
		// an NSEC3 record itself carries no mark (the same RDATA is admitted again): it may stem from
		// any admission of that owner — judged by the one that permits most
		var best *orec
		for _, o := range h.nsec3Origins[r.tok] {
			if best == nil || o.admitV+o.life > best.admitV+best.life {
				best = o
			}
		}
		return best, false
	}
	if r.mark >= 0 {
		return h.origins[fmt.Sprintf("%s#%d", r.tok, r.mark)], false
	}
	for _, sc := range []bool{false, true} {
		if c := h.led[slotKey{r.tok, sc}]; c != nil {
			return c, false
		}
	}
	return nil, false
}

// judgeReply: the oracle for the records of one reply that came out of the
// cache (pieces that were fetched from the upstream in this very op are
// relayed, not cached, and are skipped).
func (h *histT) judgeReply(qtok string, recs []recTok, freshCalls map[string]int, composition string) string {
	verdict := ""
	note := func(v string) {
		if verdict == "" {
			verdict = v
		}
	}
	// which stored thing answered: monotonicity is per stored entry
	// (and per kind of composition: dns64 caps the chain of the A answer at the synthetic TTL)
	holder := qtok + composition + fmt.Sprintf("#%p", h.known[slotKey{qtok, false}])
	for _, r := range recs {
		if r.tok == qtok && r.mark >= 0 {
			holder = fmt.Sprintf("%s%s#%d", qtok, composition, r.mark)
			break
		}
	}
	type seenT struct {
		key string
		ttl int64
	}
	var seen []seenT
	if qtok[0] == 'u' {
		if o := h.cuts["d"+qtok[1:]]; o != nil {
			holder = fmt.Sprintf("%s#cut%d", qtok, o.gen)
		}
	}
	if qtok[0] == 'p' || qtok[0] == 'q' || qtok[0] == 'x' {
		// per composition of the same stored pieces: a later admission may replace the zone's
		// SOA entry (or the owner's NSEC entry) with a longer-lived one
		holder = qtok + "#synth"
		seenP := map[string]bool{}
		for _, r := range recs {
			if id := fmt.Sprintf("%s#%d", r.tok, r.mark); !seenP[id] && r.typ != dns.TypeNSEC || !seenP[id] && r.typ == dns.TypeNSEC {
				seenP[id] = true
				holder += "," + id
			}
		}
		// a synthesised denial is one composed answer: it inherits the
		// shortest lifetime among the SOA currently cached for the zone and
		// the proof RRsets it was built from — on every record
		var least *orec
		for _, r := range recs {
			if o, _ := h.originOf(r); o != nil && (least == nil || o.admitV+o.life < least.admitV+least.life) {
				least = o
			}
		}
		if least != nil {
			end := least.admitV + least.life
			for _, r := range recs {
				if h.V < end && r.ttl > end-h.V-1 {
					note(fail("c/synth/shown-ttl-exceeds-shortest-piece/"+least.lim, "record of %s shown=%d, shortest piece (%s) has <%ds left", r.tok, r.ttl, least.lim, end-h.V))
					break
				}
			}
		}
	}
	order := chainOrder(recs)
	cachedAns := cachedAnswerPieces(recs)
	for _, r := range recs {
		if strings.HasPrefix(r.tok, "?") {
			note(fail("c/hit/unattributable-record", "%s", r.tok))
			continue
		}
		o, fresh := h.originOf(r)
		if fresh {
			continue
		}
		if o == nil {
			note(fail("c/hit/served-without-an-admission", "piece=%s mark=%d", r.tok, r.mark))
			continue
		}
		// Every served record is judged by the admission it originates from.
		// An alias entry keeps a copy of the authority records its chase
		// merged in (the target's SOA / NSEC / RRSIGs); such a copy may not
		// be served past the lifetime of the denial it was copied from
		// either — it gets its own signature because the record then comes
		// out of an entry other than its origin's.
		copyOf := false
		copyHolder := ""
		if r.ns {
			for _, p := range order {
				if p == r.tok {
					break
				}
				if cachedAns[p] {
					copyOf = true
					if copyHolder == "" {
						// the stored entry that (possibly) holds this copy: the first cached
						// alias piece of the chain — "never grows" is per stored entry, and a
						// purged and re-admitted alias is another entry with another copy
						copyHolder = fmt.Sprintf("%s@%p", p, h.known[slotKey{p, false}])
					}
				}
			}
		}
		end := o.admitV + o.life
		if copyOf {
			// the copy consists of the origin's authority records only: it is
			// bound by their TTLs, signatures, SOA minimum and lease, not by
			// the origin's answer records
			if ce := o.admitV + o.nsLife; h.V >= ce || r.ttl > ce-h.V-1 {
				note(fail("c/hit/authority-copy-outlives-origin/"+o.nsLim, "piece=%s shown=%d at=%ds origin admitted=%ds authority lifetime=%ds", r.tok, r.ttl, h.V, o.admitV, o.nsLife))
			}
			key := fmt.Sprintf("%s|%s|%s#%d.%d/%v", holder, copyHolder, r.tok, r.mark, o.gen, r.ns)
			if last, ok := h.shown[key]; ok && r.ttl > last {
				note(fail("c/hit/shown-ttl-grew", "piece=%s shown=%d earlier=%d", r.tok, r.ttl, last))
			}
			seen = append(seen, seenT{key, r.ttl})
			continue
		}
		if h.V >= end {
			note(fail("c/hit/served-past-lifetime/"+o.lim, "piece=%s at=%ds admitted=%ds lifetime=%ds", r.tok, h.V, o.admitV, o.life))
			continue
		}
		if r.ttl > end-h.V-1 {
			note(fail("c/hit/shown-ttl-exceeds-remaining/"+o.lim, "piece=%s shown=%d remaining<%ds", r.tok, r.ttl, end-h.V))
		}
		key := fmt.Sprintf("%s|%s#%d.%d/%v", holder, r.tok, r.mark, o.gen, r.ns)
		if last, ok := h.shown[key]; ok && r.ttl > last {
			note(fail("c/hit/shown-ttl-grew", "piece=%s shown=%d earlier=%d", r.tok, r.ttl, last))
		}
		seen = append(seen, seenT{key, r.ttl})
	}
	for _, sn := range seen {
		if last, ok := h.shown[sn.key]; !ok || sn.ttl < last {
			h.shown[sn.key] = sn.ttl
		}
	}
	return verdict
}

// chainOrder: the pieces of a composed reply in chain order (answer order,
// then authority-only pieces).
func chainOrder(recs []recTok) []string {
	var order []string
	seen := map[string]bool{}
	for _, pass := range []bool{false, true} {
		for _, r := range recs {
			if r.ns == pass && !seen[r.tok] {
				seen[r.tok] = true
				order = append(order, r.tok)
			}
		}
	}
	return order
}

// recordlessTerminal: when a composed reply is NXDOMAIN and the piece its last
// CNAME points at contributed no record at all, that piece is a record-less
// NXDOMAIN (no SOA, no proof) whose rcode the alias chain adopted — a consumed
// piece the reply's records do not show.
func recordlessTerminal(recs []recTok, nx bool) string {
	if !nx {
		return ""
	}
	last := ""
	for _, r := range recs {
		if !r.ns && r.tgt != "" {
			last = r.tgt
		}
	}
	if last == "" || !isNameTok(last) {
		return ""
	}
	for _, r := range recs {
		if r.tok == last {
			return ""
		}
		// an SOA in the authority section: the denial is on record (it is a piece the reply
		// shows, judged by its own origin) — e.g. a cached alias entry whose stored reply
		// lacks the CNAME of a middle hop; nothing record-less was consulted
		if r.ns && r.typ == dns.TypeSOA {
			return ""
		}
	}
	return last
}

// chainAfterOrSelf: non-empty iff tok is a piece of the composed reply.
func chainAfterOrSelf(recs []recTok, tok string) []string {
	for _, r := range recs {
		if r.tok == tok {
			return []string{tok}
		}
	}
	return nil
}

// chainAfter: the pieces that follow tok in the composed reply.
func chainAfter(recs []recTok, tok string) []string {
	var order []string
	seen := map[string]bool{}
	for _, pass := range []bool{false, true} {
		for _, r := range recs {
			if r.ns == pass && !seen[r.tok] {
				seen[r.tok] = true
				order = append(order, r.tok)
			}
		}
	}
	for i, t := range order {
		if t == tok {
			return order[i+1:]
		}
	}
	return nil
}

// register: oracle bookkeeping for the slots that changed in this op.
func (h *histT) register(chs []change, script map[string]*specT, recs []recTok, freshCalls map[string]int, refresh bool, replyNX bool) string {
	verdict := ""
	for _, c := range chs {
		if c.gone {
			delete(h.led, c.k)
			continue
		}
		sp := script[c.k.tok]
		if sp == nil {
			delete(h.led, c.k)
			if verdict == "" {
				verdict = fail("c/admit/entry-without-upstream-answer", "slot=%v", c.k)
			}
			continue
		}
		all := append(append(append([]rrItem{}, sp.ans...), sp.ns...), sp.extra...)
		life, lim := oracleLifetime(all, sp.ns, sp.negative(), c.k.scoped, h.ecsCap, sp.lease)
		// composed: anything re-cached from cached pieces inherits the
		// shortest lifetime among them
		if !refresh {
			// the cached pieces this answer consumed: every piece after it in
			// the chain whose answer records came out of the cache, and an
			// authority-only piece (a negative terminal) that was hit
			// directly.  Authority records that follow a cached alias piece
			// may be that alias's copies: the alias entry is the piece that
			// was consumed then, and it is bounded itself.
			cachedAns := cachedAnswerPieces(recs)
			holderSeen := false
			for _, t := range chainOrder(recs) {
				// a cached alias piece anywhere earlier in the chain may hold the copies
				if t == c.k.tok {
					break
				}
				if cachedAns[t] {
					holderSeen = true
				}
			}
			for _, t := range chainAfter(recs, c.k.tok) {
				if !isNameTok(t) && t[0] != 's' && t[0] != 'd' && t[0] != 't' {
					continue
				}
				var origins []*orec
				if cachedAns[t] {
					holderSeen = true
					seen := map[int]bool{}
					for _, r := range recs {
						if r.tok != t || r.ns || r.fresh || seen[r.mark] {
							continue
						}
						seen[r.mark] = true
						if o, _ := h.originOf(r); o != nil {
							origins = append(origins, o)
						}
					}
				} else if !holderSeen {
					seen := map[int]bool{}
					for _, r := range recs {
						if r.tok != t || !r.ns || r.fresh || seen[r.mark] {
							continue
						}
						seen[r.mark] = true
						if o, _ := h.originOf(r); o != nil {
							origins = append(origins, o)
						}
					}
				}
				for _, p := range origins {
					if rem := p.admitV + p.life - h.V; rem < life {
						life, lim = rem, "piece-"+t
					}
				}
				// a piece fetched in this very op was learned through its own
				// delegation chain: its lease bounds what is composed from it
				if fsp := script[t]; fsp != nil && freshCalls[t] > 0 && fsp.lease != nil && *fsp.lease < life {
					life, lim = *fsp.lease, "piece-lease"
				}
			}
			// the record-less NXDOMAIN an alias chain ends in
			if t := recordlessTerminal(recs, replyNX); t != "" && t != c.k.tok && len(chainAfterOrSelf(recs, c.k.tok)) > 0 {
				if freshCalls[t] == 0 {
					if p := h.led[slotKey{t, false}]; p != nil {
						if rem := p.admitV + p.life - h.V; rem < life {
							life, lim = rem, "piece-"+t
						}
					}
				} else {
					// fetched in this very op: a denial that carries no record has no
					// negative TTL at all — it is kept for the 5 s floor, and so is
					// what adopted its rcode (fixed in /repo 94ad58d)
					if 5 < life {
						life, lim = 5, "fresh-recordless-nxdomain"
					}
					if fsp := script[t]; fsp != nil && fsp.lease != nil && *fsp.lease < life {
						life, lim = *fsp.lease, "piece-lease"
					}
				}
			}
		}
		o := &orec{gen: h.gens[c.k], admitV: h.V, life: life, lim: lim, lastShown: -1, mark: sp.mark}
		o.negTTL = -1
		if sp.kind == 'd' {
			for _, it := range sp.ns {
				if it.kind == 's' {
					o.negTTL = min64(int64(it.ttl), it.a)
					break
				}
			}
		}
		o.nsLife, o.nsLim = oracleLifetime(sp.ns, sp.ns, sp.negative(), false, 0, sp.lease)
		if o.nsLife < life {
			o.nsLife, o.nsLim = life, lim
		}
		h.led[c.k] = o
		h.origins[fmt.Sprintf("%s#%d", c.k.tok, sp.mark)] = o
		// admission bound: the stored lifetime may not exceed the permitted one
		got := ceilSec(c.view.TTL)
		if !c.view.CutUntil.IsZero() {
			if cr := h.ceilRel(h.virt(c.view.CutUntil) - h.vnow()); cr < got {
				got = cr
			}
		}
		if got > life && verdict == "" {
			sig := "c/admit/lifetime-exceeds-" + lim
			if lim == "fresh-recordless-nxdomain" {
				sig = "c/admit/alias-outlives-fresh-recordless-nxdomain"
			}
			verdict = fail(sig, "slot=%s stored=%ds permitted=%ds by=%s", c.k.tok, got, life, lim)
		}
	}
	return verdict
}

func execHist(f []string) vlib.Res {
	if f[1] == "new" {
		return histNew(f)
	}
	h := hist
	if h == nil {
		return vlib.Res{Impl: "bad-op"}
	}
	switch f[1] {
	case "adv":
		h.V += vlib.AtoI64(f[2])
		return vlib.Res{Impl: "ok"}
	case "q":
		return h.query(f[2], f[3], f[4] == "t", f[5] == "t", f[6])
	case "purge":
		h.j++
		h.sync()
		h.c.Purge(dns.Question{Name: fq(f[2]), Qtype: qtypeOf(f[2]), Qclass: dns.ClassINET})
		chs := h.changes()
		or := "ok"
		for _, sc := range []bool{false, true} {
			delete(h.led, slotKey{f[2], sc})
			if h.known[slotKey{f[2], sc}] != nil {
				or = fail("c/purge/entry-survived", "%s", f[2])
			}
		}
		_ = chs
		return vlib.Res{Impl: "ok", Oracle: or}
	case "cap":
		h.j++
		h.sync()
		e, ok := cache.VerifC04Store(h.c).Lookup(mkReq(f[2], false, true))
		h.changes()
		k := slotKey{f[2], false}
		if ok {
			h.captured[f[2]] = e
		} else {
			h.captured[f[2]] = nil
		}
		h.capHad[f[2]] = ok
		h.capGen[f[2]] = h.gens[k]
		return vlib.Res{Impl: "cap=" + vlib.B(ok), Oracle: "ok"}
	case "pfdone":
		return h.pfdone(f[2], f[3])
	case "cutrec":
		return h.cutrec(f[2], f[3], f[4])
	case "prec":
		return h.prec('p', f[2], f[3], f[4])
	case "prec3":
		return h.prec('q', f[2], f[3], f[4])
	case "get":
		return h.storeGet(f[2])
	case "pfrun":
		return h.pfrun(f[2])
	}
	return vlib.Res{Impl: "bad-op"}
}

func (h *histT) setScript(up string) map[string]*specT {
	script := parseUp(up)
	for _, sp := range script {
		h.marks++
		sp.mark = 1 + h.marks%250
	}
	h.up.script = script
	h.up.calls = map[string]int{}
	h.up.answered = map[string]int{}
	return script
}

func (h *histT) query(route, tok string, ecs, do bool, up string) vlib.Res {
	h.j++
	script := h.setScript(up)
	waitRoom()
	h.sync()
	h.up.base, h.up.at = time.Now().Unix(), h.syncAt
	f0, c0, k0 := cache.VerifC04Counters()
	s0, b0 := dns64.VerifC04Counters()
	reply := h.run(route, mkReq(tok, ecs, do))
	f1, c1, k1 := cache.VerifC04Counters()
	s1, b1 := dns64.VerifC04Counters()
	synth64, basis64 := s1 > s0, b1 > b0
	side := tok[0]
	if side != 'm' || synth64 || basis64 {
		side = 'n'
	}
	calls := h.up.answered
	chs := h.changes()
	h.settle(len(chs) > 0)
	var recs []recTok
	head := "miss"
	if reply != nil {
		recs = replyRecs(tok, reply, side)
		markFresh(recs, calls, script)
		if calls[tok] > 0 {
			head = "fwd"
		} else {
			head = "hit"
			if t := tokens(recs); t != "" {
				head += " " + t
			}
		}
	}
	or := ""
	if head != "miss" {
		comp := ""
		if synth64 && !basis64 {
			comp = "+dns64"
			if calls[tok] > 0 {
				comp = "+dns64-of-fresh-nodata" // not a hit on the stored negative entry
			}
			// the synthetic TTL caps every record of the answer at the shortest piece, so
			// what one stored entry shows depends on which other pieces took part: "never
			// grows" is judged per composition of the same stored pieces
			seenP := map[string]bool{}
			for _, r := range recs {
				id := fmt.Sprintf("%s#%d/%v", r.tok, r.mark, r.fresh)
				if !r.ns && !seenP[id] {
					seenP[id] = true
					comp += "," + id
					if !r.fresh && isNameTok(r.tok) {
						comp += fmt.Sprintf("@%p", h.known[slotKey{r.tok, false}])
					}
				}
			}
		}
		or = h.judgeReply(tok, recs, calls, comp)
	}

	if v := h.register(chs, script, recs, calls, false, reply != nil && reply.Rcode == dns.RcodeNameError); or == "" {
		or = v
	}
	// a hit that shows no record of the asked name's own entry (a record-less
	// NXDOMAIN / empty answer) is judged by that entry itself
	if or == "" && strings.HasPrefix(head, "hit") && isNameTok(tok) && side == tok[0] && len(chainAfterOrSelf(recs, tok)) == 0 {
		var live, any *orec
		for _, sc := range []bool{true, false} {
			if sc && !ecs {
				continue
			}
			if o := h.led[slotKey{tok, sc}]; o != nil {
				any = o
				if h.V < o.admitV+o.life {
					live = o
				}
			}
		}
		switch {
		case any == nil:
			or = fail("c/hit/served-without-an-admission", "record-less reply for %s", tok)
		case live == nil:
			or = fail("c/hit/served-past-lifetime/"+any.lim, "record-less reply for %s at=%ds admitted=%ds lifetime=%ds", tok, h.V, any.admitV, any.life)
		}
	}
	// (after register: a NODATA fetched in this op is in the ledger now)
	if synth64 && !basis64 && or == "" {
		or = h.judgeDNS64(tok, recs, script, calls)
	}
	if or == "" {
		or = "ok"
	}
	// tags
	tags := []string{"r=" + route}
	nt := false
	if strings.HasPrefix(head, "hit") {
		switch tok[0] {
		case 'x':
			tags = append(tags, "synth=nxdomain")
		case 'p':
			tags = append(tags, "synth=nodata-nsec")
		case 'q':
			tags = append(tags, "synth=nodata-nsec3")
		}
	}
	if synth64 && !basis64 {
		tags = append(tags, "dns64=synth")
		nt = true
	} else if basis64 {
		tags = append(tags, "dns64=a-basis")
	} else if tok[0] == 'm' && reply != nil {
		tags = append(tags, "dns64=pass")
	}
	switch {
	case f1 > f0:
		tags = append(tags, "via=bytes")
	case c1 > c0:
		tags = append(tags, "via=wirechase")
	case k1 > k0:
		tags = append(tags, "via=wirecut")
	case strings.HasPrefix(head, "hit"):
		tags = append(tags, "via=msg")
	}
	cached := 0
	pieces := map[string]bool{}
	for _, r := range recs {
		if !r.fresh && !pieces[r.tok] {
			pieces[r.tok] = true
			cached++
		}
	}
	if cached >= 2 {
		tags = append(tags, "composed")
		nt = true
	}
	for _, c := range chs {
		if !c.gone {
			if o := h.led[c.k]; o != nil && o.lim != "ttl" {
				tags = append(tags, "lim="+strings.SplitN(o.lim, "-n", 2)[0])
				nt = true
			}
		}
	}
	if strings.HasPrefix(head, "hit") {
		for t := range pieces {
			var o *orec
			if t[0] == 'd' {
				o = h.cuts[t]
			} else {
				for _, sc := range []bool{true, false} {
					if c := h.led[slotKey{t, sc}]; c != nil {
						o = c
						break
					}
				}
			}
			if o != nil && (o.lim != "ttl" || o.admitV+o.life-h.V <= 2) {
				nt = true
			}
		}
	}
	if head == "miss" && up == "-" {
		// a probe that found nothing: non-trivial when something for this
		// name had been admitted (it expired or was purged)
		nt = nt || h.gens[slotKey{tok, false}] > 0 || h.gens[slotKey{tok, true}] > 0 || tok[0] == 'u'
	}
	if nt {
		tags = append(tags, "nt")
	}
	return vlib.Res{Impl: head + h.listing(chs), Oracle: or, Tags: strings.Join(tags, ",")}
}

func (h *histT) pfdone(tok, up string) vlib.Res {
	h.j++
	script := h.setScript(up)
	k := slotKey{tok, false}
	genBefore := h.gens[k]
	waitRoom()
	h.sync()
	h.up.base, h.up.at = time.Now().Unix(), h.syncAt
	cache.VerifC04ProcessPrefetch(h.c, mkReq(tok, false, false), keyOf(tok, false), h.captured[tok])
	chs := h.changes()
	h.settle(len(chs) > 0)
	replaced := false
	for _, c := range chs {
		if c.k == k && !c.gone {
			replaced = true
		}
	}
	or := ""
	stale := !h.capHad[tok] || h.capGen[tok] != genBefore
	if replaced && stale {
		or = fail("c/pfdone/late-refresh-overwrote-newer-state", "name=%s captured-gen=%d current-gen=%d", tok, h.capGen[tok], genBefore)
	}
	if v := h.register(chs, script, nil, map[string]int{}, true, false); or == "" {
		or = v
	}
	if or == "" {
		or = "ok"
	}
	tags := "nt,fresh-refresh"
	if stale {
		tags = "nt,stale-refresh"
	}
	return vlib.Res{Impl: "pf" + h.listing(chs), Oracle: or, Tags: tags}
}

// cutrec: `c cutrec <k> <s..,g..,p..,g..> <lease|->` records an RFC 8020 cut
// for d<k>.z.test. through Store.RecordNXDomainCut.
const cutBase = 100000

func (h *histT) cutrec(k, itemS, leaseS string) vlib.Res {
	h.j++
	h.marks++
	cmark := 1 + h.marks%250
	items := parseItems(itemS)
	denied := "d" + k + ".z.test."
	var ok bool
	var base int64
	{
		waitRoom()
		h.sync()
		base = time.Now().Unix()
		proof := new(dns.Msg)
		proof.SetQuestion("x."+denied, dns.TypeA)
		proof.Response = true
		proof.Rcode = dns.RcodeNameError
		ng := 0
		for _, it := range items {
			switch it.kind {
			case 's':
				so := mkSOA("z.test.", it.ttl, uint32(it.a))
				so.Serial = uint32(cutBase*vlib.Atoi(k) + cmark) // identifies (cut, admission)
				proof.Ns = append(proof.Ns, so)
			case 'p':
				proof.Ns = append(proof.Ns, &dns.NSEC{Hdr: dns.RR_Header{Name: "c" + k + ".z.test.", Rrtype: dns.TypeNSEC, Class: dns.ClassINET, Ttl: it.ttl},
					NextDomain: "e" + k + ".z.test.", TypeBitMap: []uint16{dns.TypeA, dns.TypeRRSIG, dns.TypeNSEC, uint16(1000 + cmark)}})
			case 'g':
				owner, cov := "z.test.", dns.TypeSOA
				if ng > 0 {
					owner, cov = "c"+k+".z.test.", dns.TypeNSEC
				}
				ng++
				sg := mkSig(owner, it.ttl, sigExp(base, it.b))
				sg.OrigTtl = uint32(it.a)
				sg.TypeCovered = cov
				sg.Labels = uint8(dns.CountLabel(owner))
				sg.Inception = uint32(cutBase*vlib.Atoi(k) + cmark)
				proof.Ns = append(proof.Ns, sg)
			}
		}
		var cu time.Time
		if leaseS != "-" {
			cu = h.syncAt.Add(time.Duration(vlib.AtoI64(leaseS)) * time.Second)
		}
		ok = cache.VerifC04Store(h.c).RecordNXDomainCut(proof, denied, "z.test.", cu)
	}
	tok := "d" + k
	if !ok {
		// rejecting is always safe; an earlier cut for the name stays
		return vlib.Res{Impl: "f", Oracle: "ok", Tags: "nt"}
	}
	h.settle(true)
	exp, _ := cache.VerifC04CutExpiry(h.c, denied, dns.ClassINET)
	got := h.ceilRel(h.virt(exp) - h.vnow())
	// oracle: no floor — the cut may outlive no component of its proof
	or := "ok"
	life := int64(86400)
	lim := "cap-24h"
	take := func(v int64, what string) {
		if v < life {
			life, lim = v, what
		}
	}
	for _, it := range items {
		take(int64(it.ttl), "ttl")
		switch it.kind {
		case 's':
			take(it.a, "soa-minimum")
		case 'g':
			take(it.a, "rrsig-original-ttl")
			take(it.b, "rrsig")
		}
	}
	if leaseS != "-" {
		take(vlib.AtoI64(leaseS), "lease")
	}
	if got > life {
		or = fail("c/cutrec/outlives-"+lim, "stored=%ds permitted=%ds", got, life)
	}
	co := &orec{gen: h.marks, admitV: h.V, life: life, lim: lim, nsLife: life, nsLim: lim, lastShown: -1, mark: cmark}
	h.cuts[tok] = co
	h.origins[fmt.Sprintf("%s#%d", tok, cmark)] = co
	return vlib.Res{Impl: fmt.Sprintf("t exp=%d", got), Oracle: or, Tags: "nt,lim=" + lim}
}


// prec: `c prec <i> <s..,g..,p..,g..> <lease|->` admits an RFC 8198 NODATA
// proof for owner w<i>.pz.test. (SOA + RRSIG, NSEC + RRSIG) through
// Store.RecordDenialProof.  Every admission replaces the zone's one SOA
// entry; the NSEC entry of owner i is its own piece.
func nsecNext(k string) string {
	if k == "0" {
		return "w1.pz.test."
	}
	return "w" + k + "z.pz.test."
}

func nsecBitmap(k string, mark int) []uint16 {
	if k == "0" {
		return []uint16{dns.TypeNS, dns.TypeSOA, dns.TypeAAAA, dns.TypeRRSIG, dns.TypeNSEC, uint16(1000 + mark)}
	}
	return []uint16{dns.TypeAAAA, dns.TypeRRSIG, dns.TypeNSEC, uint16(1000 + mark)}
}

type openLimiter struct{}

func (openLimiter) TryAcquire() (func(), bool) { return func() {}, true }

// nsec3Hash: the NSEC3 owner hash of v<i>.qz.test. (SHA-1, no salt, 0 iterations).
func nsec3Hash(i int) string { return dns.HashName(fmt.Sprintf("v%d.qz.test.", i), dns.SHA1, 0, "") }

// nsec3Next: the owner hashes of v1..v3 form one ring.
func nsec3Next(i int) string {
	hs := []string{nsec3Hash(1), nsec3Hash(2), nsec3Hash(3)}
	sort.Strings(hs)
	for j, x := range hs {
		if x == nsec3Hash(i) {
			return hs[(j+1)%len(hs)]
		}
	}
	return nsec3Hash(i)
}

// prec: zone 'p' = NSEC-signed pz.test. (`c prec`), 'q' = NSEC3-signed qz.test. (`c prec3`).
func (h *histT) prec(zl byte, k, itemS, leaseS string) vlib.Res {
	h.j++
	items := parseItems(itemS)
	h.marks++
	mark := 1 + h.marks%250
	zone, owner, stok, ztok := "pz.test.", "w"+k+".pz.test.", "s"+k, "sz"
	if zl == 'p' && k == "0" {
		owner = zone // the apex NSEC: pz.test. -> w1.pz.test. (it covers the wildcard *.pz.test.)
	}
	if zl == 'q' {
		zone, owner, stok, ztok = "qz.test.", "v"+k+".qz.test.", "t"+k, "tz"
	}
	waitRoom()
	h.sync()
	base := time.Now().Unix()
	proof := new(dns.Msg)
	proof.SetQuestion(owner, dns.TypeA)
	proof.Response = true
	proof.AuthenticatedData = true
	ng := 0
	for _, it := range items {
		switch it.kind {
		case 's':
			so := mkSOA(zone, it.ttl, uint32(it.a))
			so.Serial = uint32(mark)
			proof.Ns = append(proof.Ns, so)
		case 'p':
			if zl == 'q' {
				ki := vlib.Atoi(k)
				proof.Ns = append(proof.Ns, &dns.NSEC3{Hdr: dns.RR_Header{Name: nsec3Hash(ki) + "." + zone, Rrtype: dns.TypeNSEC3, Class: dns.ClassINET, Ttl: it.ttl},
					Hash: dns.SHA1, Flags: 0, Iterations: 0, SaltLength: 0, Salt: "", HashLength: 20, NextDomain: nsec3Next(ki),
					TypeBitMap: []uint16{dns.TypeAAAA, dns.TypeRRSIG}})
				break
			}
			proof.Ns = append(proof.Ns, &dns.NSEC{Hdr: dns.RR_Header{Name: owner, Rrtype: dns.TypeNSEC, Class: dns.ClassINET, Ttl: it.ttl},
				NextDomain: nsecNext(k), TypeBitMap: nsecBitmap(k, mark)})
		case 'g':
			o, cov := zone, dns.TypeSOA
			if ng > 0 {
				o, cov = owner, dns.TypeNSEC
				if zl == 'q' {
					o, cov = nsec3Hash(vlib.Atoi(k))+"."+zone, dns.TypeNSEC3
				}
			}
			ng++
			sg := mkSig(o, it.ttl, sigExp(base, it.b))
			sg.OrigTtl = uint32(it.a)
			sg.TypeCovered = cov
			sg.SignerName = zone
			sg.KeyTag = uint16(mark)
			sg.Labels = uint8(dns.CountLabel(o))
			proof.Ns = append(proof.Ns, sg)
		}
	}
	var cu time.Time
	if leaseS != "-" {
		cu = h.syncAt.Add(time.Duration(vlib.AtoI64(leaseS)) * time.Second)
	}
	kind := middleware.ValidatedNegativeProofNSEC
	if zl == 'q' {
		kind = middleware.ValidatedNegativeProofNSEC3
	}
	ok := cache.VerifC04Store(h.c).RecordDenialProof(proof, zone, kind, cu)
	if !ok {
		return vlib.Res{Impl: "f", Oracle: "ok", Tags: "nt"}
	}
	h.settle(true)
	pOwner := owner
	if zl == 'q' {
		pOwner = nsec3Hash(vlib.Atoi(k)) + "." + zone
	}
	soaE, nsecE := cache.VerifC04ProofExpiries(h.c, zone, pOwner)
	gotS, gotN := h.ceilRel(h.virt(soaE)-h.vnow()), h.ceilRel(h.virt(nsecE)-h.vnow())
	// oracle: no floor; the SOA piece outlives no component of the SOA RRset
	// and the lease, the NSEC piece none of both RRsets and the lease
	lifeS, limS := int64(86400), "cap-24h"
	lifeN, limN := int64(86400), "cap-24h"
	ng = 0
	for _, it := range items {
		forSOA := it.kind == 's' || (it.kind == 'g' && ng == 0)
		take := func(v int64, what string) {
			if forSOA && v < lifeS {
				lifeS, limS = v, what
			}
			if v < lifeN {
				lifeN, limN = v, what
			}
		}
		take(int64(it.ttl), "ttl")
		switch it.kind {
		case 's':
			take(it.a, "soa-minimum")
		case 'g':
			take(it.a, "rrsig-original-ttl")
			take(it.b, "rrsig")
			ng++
		}
	}
	if leaseS != "-" {
		l := vlib.AtoI64(leaseS)
		if l < lifeS {
			lifeS, limS = l, "lease"
		}
		if l < lifeN {
			lifeN, limN = l, "lease"
		}
	}
	or := "ok"
	if gotS > lifeS {
		or = fail("c/prec/soa-piece-outlives-"+limS, "stored=%ds permitted=%ds", gotS, lifeS)
	} else if gotN > lifeN {
		or = fail("c/prec/proof-piece-outlives-"+limN, "stored=%ds permitted=%ds", gotN, lifeN)
	}
	so := &orec{gen: h.marks, admitV: h.V, life: lifeS, lim: "soa-" + limS, nsLife: lifeS, nsLim: "soa-" + limS, lastShown: -1, mark: mark}
	no := &orec{gen: h.marks, admitV: h.V, life: lifeN, lim: "proof-" + limN, nsLife: lifeN, nsLim: "proof-" + limN, lastShown: -1, mark: mark}
	h.origins[fmt.Sprintf("%s#%d", ztok, mark)] = so
	h.origins[fmt.Sprintf("%s#%d", stok, mark)] = no
	h.nsec3Origins[stok] = append(h.nsec3Origins[stok], no)
	return vlib.Res{Impl: fmt.Sprintf("t soa=%d nsec=%d", gotS, gotN), Oracle: or, Tags: "nt,lim=" + limS}
}


// judgeDNS64: a synthesised AAAA answer is composed from the A answer and the
// AAAA NODATA it replaces; it may not outlive the NODATA either.  When the
// NODATA came out of the cache (an exact negative entry with an SOA) every
// answer record must fit into what that entry has left; when it was fetched
// in this op, into its negative TTL min(SOA TTL, SOA minimum) (RFC 6147 §5.1.7).
func (h *histT) judgeDNS64(qtok string, recs []recTok, script map[string]*specT, answered map[string]int) string {
	if qtok[0] != 'm' {
		return ""
	}
	var bound int64
	var what string
	if answered[qtok] > 0 {
		// fetched in this op: judged by what the upstream said (it may not even have been stored)
		sp := script[qtok]
		if sp == nil || sp.kind != 'd' {
			return ""
		}
		bound = -1
		for _, it := range sp.ns {
			if it.kind == 's' {
				bound, what = min64(int64(it.ttl), it.a), "negative-ttl-of-nodata"
				break
			}
		}
		if bound < 0 {
			return ""
		}
	} else {
		o := h.led[slotKey{qtok, false}]
		if o == nil || o.negTTL < 0 {
			return "" // the AAAA side was an alias chain / had no SOA: RFC 6147's 600 s ceiling applies
		}
		bound, what = o.admitV+o.life-h.V-1, "remaining-of-cached-nodata/"+o.lim
	}
	for _, r := range recs {
		if !r.ns && r.ttl > bound {
			return fail("c/dns64/synthetic-ttl-exceeds-"+what, "record of %s shown=%d, the AAAA NODATA piece allows %d", r.tok, r.ttl, bound)
		}
	}
	return ""
}


// storeGet: `c get <name>` — the resolver-private route Store.GetWithContext
// (DS / DNSKEY / NS lookups take it): exact entry through ToMsg, else a
// subtree cut, else a synthesised denial; whatever it hands out binds the
// request tree (ResponseMeta) to its own lifetime.
func (h *histT) storeGet(tok string) vlib.Res {
	h.j++
	waitRoom()
	h.sync()
	var meta middleware.ResponseMeta
	ctx := middleware.WithResponseMeta(context.Background(), &meta)
	msg, ok := cache.VerifC04Store(h.c).GetWithContext(ctx, mkReq(tok, false, true))
	h.changes()
	if !ok || msg == nil {
		return vlib.Res{Impl: "miss", Oracle: "ok", Tags: "r=get"}
	}
	recs := replyRecs(tok, msg, tok[0])
	if tok[0] != 'm' {
		recs = replyRecs(tok, msg, 'n')
	}
	bound := "-"
	var rel int64
	if cu := meta.CutUntil(); !cu.IsZero() {
		rel = h.ceilRel(h.virt(cu) - h.vnow())
		bound = fmt.Sprint(rel)
	}
	or := h.judgeReply(tok, recs, map[string]int{}, "+get")
	if or == "" {
		// the request tree must be bound no later than the end of every piece handed out
		if bound == "-" {
			or = fail("c/get/request-tree-not-bound", "%s", tok)
		}
		for _, r := range recs {
			if o, _ := h.originOf(r); o != nil && h.V+rel > o.admitV+o.nsLife {
				or = fail("c/get/request-bound-later-than-piece/"+o.lim, "piece=%s bound=+%ds piece ends +%ds", r.tok, rel, o.admitV+o.nsLife-h.V)
				break
			}
		}
	}
	if or == "" {
		or = "ok"
	}
	impl := "hit"
	if t := tokens(recs); t != "" {
		impl += " " + t
	}
	return vlib.Res{Impl: impl + " bound=" + bound, Oracle: or, Tags: "r=get,nt"}
}


// pfrun: `c pfrun <up>` completes every refresh that real hits claimed since
// the last run (PrefetchQueue.processPrefetch on the queued requests, in
// order, against the scripted upstream).
func (h *histT) pfrun(up string) vlib.Res {
	h.j++
	script := h.setScript(up)
	reqs := cache.VerifC04DrainPrefetch(h.c)
	waitRoom()
	h.sync()
	h.up.base, h.up.at = time.Now().Unix(), h.syncAt
	or := ""
	stale := 0
	var all []change
	for _, r := range reqs {
		tok := strings.TrimSuffix(strings.ToLower(r.Request.Question[0].Name), ".z.test.")
		if r.Request.Question[0].Qtype == dns.TypeAAAA {
			tok = "m" + tok[1:]
		}
		k := slotKey{tok, false}
		wasCurrent := r.Entry != nil && h.known[k] == r.Entry
		cache.VerifC04RunPrefetch(h.c, r)
		chs := h.changes()
		for _, c := range chs {
			if c.k == k && !c.gone && !wasCurrent && or == "" {
				or = fail("c/pfrun/late-refresh-overwrote-newer-state", "name=%s", tok)
			}
		}
		if !wasCurrent {
			stale++
		}
		if v := h.register(chs, script, nil, map[string]int{}, true, false); or == "" {
			or = v
		}
		all = append(all, chs...)
	}
	h.settle(len(all) > 0)
	if or == "" {
		or = "ok"
	}
	var who []string
	for _, r := range reqs {
		who = append(who, strings.TrimSuffix(strings.ToLower(r.Request.Question[0].Name), ".z.test.")+dns.TypeToString[r.Request.Question[0].Qtype])
	}
	tags := fmt.Sprintf("nt,pfrun,claimed=%d,who=%s", len(reqs), strings.Join(who, "+"))
	if stale > 0 {
		tags += ",stale-refresh"
	}
	return vlib.Res{Impl: fmt.Sprintf("pf n=%d%s", len(reqs), h.listing(all)), Oracle: or, Tags: tags}
}
