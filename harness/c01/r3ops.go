//go:build verif

package main

import (
	"context"
	"fmt"
	"sort"
	"strings"
	"time"

	"github.com/miekg/dns"
	"github.com/semihalev/sdns/config"
	"github.com/semihalev/sdns/internal/dnsutil"
	"github.com/semihalev/sdns/internal/mock"
	"github.com/semihalev/sdns/internal/verif/vlib"
	"github.com/semihalev/sdns/middleware"
	"github.com/semihalev/sdns/middleware/cache"
	"github.com/semihalev/sdns/middleware/edns"
	"github.com/semihalev/sdns/middleware/resolver"
	"github.com/semihalev/sdns/middleware/resolver/dnssec"
)

// ------------------------------------------------------------------ alias chains answered from the cache

type chainQ struct{ hs []middleware.Handler }

func (q *chainQ) Query(ctx context.Context, req *dns.Msg) (*dns.Msg, error) {
	w := mock.NewWriter("tcp", "127.0.0.255:0")
	ch := middleware.NewChain(q.hs)
	ch.Reset(w, req)
	ch.Next(ctx)
	if !w.Written() {
		return nil, middleware.ErrNoResponse
	}
	return w.Msg(), nil
}

// tableStub answers from a fixed table (the "resolver" for hops that are not cached).
type tableStub struct {
	tab   map[string]*dns.Msg
	calls int
}

func (s *tableStub) Name() string { return "tablestub" }
func (s *tableStub) ServeDNS(ctx context.Context, ch *middleware.Chain) {
	s.calls++
	_, req := ch.Materialize(ctx)
	if req == nil {
		return
	}
	m := new(dns.Msg)
	if t, ok := s.tab[strings.ToLower(req.Question[0].Name)]; ok {
		m = t.Copy()
		m.Id = req.Id
		m.Question = req.Question
	} else {
		m.SetRcode(req, dns.RcodeServerFailure)
	}
	m.CheckingDisabled = req.CheckingDisabled
	_ = ch.Writer.WriteMsg(m)
	ch.Cancel()
}

// ad hitchase <cd> <do> <ad> <opt> <proto> <route> <hopADs> <cached>
//   hopADs: AD verdict stored with each entry of the chain alias -> t1 -> … -> address (2..4 entries)
//   route:  wire-direct | wire-ww | msg      cached: all | miss (the terminal hop is not cached)
func execAdHitChase(f []string) vlib.Res {
	cd, do, ad, opt := bit(f[2]), bit(f[3]), bit(f[4]), bit(f[5])
	proto, route := f[6], f[7]
	var hops []bool
	for _, h := range splitList(f[8]) {
		hops = append(hops, bit(h))
	}
	miss := f[9] == "miss"
	cfg := &config.Config{CacheSize: 1024, Expire: 600}
	e := edns.New(cfg)
	c := cache.New(cfg)
	defer c.Stop()
	st := &tableStub{tab: map[string]*dns.Msg{}}
	c.SetQueryer(&chainQ{hs: []middleware.Handler{c, st}})
	name := func(i int) string {
		if i == 0 {
			return "alias.chase.adtest."
		}
		return fmt.Sprintf("t%d.chase.adtest.", i)
	}
	for i, h := range hops {
		q := new(dns.Msg)
		q.SetQuestion(name(i), dns.TypeA)
		m := new(dns.Msg)
		m.SetReply(q)
		m.RecursionAvailable = true
		m.AuthenticatedData = h
		m.CheckingDisabled = cd
		if i == len(hops)-1 {
			m.Answer = []dns.RR{&dns.A{Hdr: dns.RR_Header{Name: name(i), Rrtype: dns.TypeA, Class: 1, Ttl: 300}, A: []byte{192, 0, 2, byte(i)}}}
		} else {
			m.Answer = []dns.RR{&dns.CNAME{Hdr: dns.RR_Header{Name: name(i), Rrtype: dns.TypeCNAME, Class: 1, Ttl: 300}, Target: name(i + 1)}}
		}
		st.tab[name(i)] = m
		if !(miss && i == len(hops)-1) {
			c.Store().SetFromResponse(m.Copy(), cd, time.Time{})
		}
	}
	req := clientReq(name(0), dns.TypeA, cd, do, ad, opt)
	before := cache.VerifC01WireChaseServed()
	var resp *dns.Msg
	hs := []middleware.Handler{e, c, st}
	switch route {
	case "msg":
		resp, _ = runChain(hs, req, proto, false, false)
	case "wire-ww":
		resp, _ = runChain(hs, req, proto, true, true)
	default: // the server's own ingress shape: wire-born request, byte sink writer
		raw, _ := req.Pack()
		var rq middleware.Request
		if !rq.ParseWire(raw, time.Now(), nil) {
			panic("ParseWire refused a packed query")
		}
		w := mock.NewWriter(proto, "10.9.8.7:5353")
		ch := middleware.NewChain(hs)
		ch.ResetWire(w, &rq)
		ch.AllowDirectPack()
		ch.Next(context.Background())
		if w.Written() {
			resp = w.Msg()
		}
	}
	if resp == nil {
		return vlib.Res{Impl: "noreply", Oracle: fail("ad/hitchase/no-reply", "")}
	}
	n := 0
	for _, rr := range resp.Answer {
		if rr.Header().Rrtype != dns.TypeRRSIG {
			n++
		}
	}
	all := true
	for _, h := range hops {
		all = all && h
	}
	or := "ok"
	if resp.AuthenticatedData && (cd || (!do && !ad) || !all) {
		or = fail("ad/hitchase/ad-over-unvalidated-hop-or-toward-wrong-client", "hops=%s cd=%v do=%v ad=%v route=%s", f[8], cd, do, ad, route)
	}
	tags := "nt,route:" + route
	if cache.VerifC01WireChaseServed() != before {
		tags += ",served:wirechase"
	}
	return vlib.Res{Impl: fmt.Sprintf("ad=%s n=%d", vlib.B(resp.AuthenticatedData), n), Oracle: or, Tags: tags}
}

func genAdHitChase(r *vlib.R) string {
	n := 2 + r.Intn(3)
	hops := make([]string, n)
	for i := range hops {
		hops[i] = vlib.B(r.Chance(3, 4))
	}
	if r.Chance(1, 3) { // exactly one unvalidated entry, at a chosen place (first / middle / LAST)
		for i := range hops {
			hops[i] = "t"
		}
		hops[vlib.Pick(r, []int{0, n - 1, n - 1, r.Intn(n)})] = "f"
	}
	opt := r.Chance(3, 4)
	do := opt && r.Bool()
	return fmt.Sprintf("ad hitchase %s %s %s %s %s %s %s %s", vlib.B(r.Chance(1, 5)), vlib.B(do), tf(r), vlib.B(opt),
		vlib.Pick(r, []string{"udp", "udp", "tcp"}), vlib.Pick(r, []string{"wire-direct", "wire-direct", "wire-ww", "msg"}),
		strings.Join(hops, ","), vlib.Pick(r, []string{"all", "all", "all", "miss"}))
}

// ------------------------------------------------------------------ Resolver.findRRSIGSigners

// signers find q=<name> in=<t|f> R=<owner>/<type>,… S=<owner>/<covered>/<signer>,…
func execSigners(f []string) vlib.Res {
	m := kv(f)
	inAnswer := m["in"] == "t"
	resp := new(dns.Msg)
	var sec []dns.RR
	type sg struct{ owner, signer string; cov int }
	var sigs []sg
	have := map[string]bool{}
	for _, t := range splitList(m["R"]) {
		p := strings.Split(t, "/")
		sec = append(sec, mkRR(spelled(tokName(p[0]), len(sec)%2), vlib.Atoi(p[1]), 1, 1, "x.example"))
		have[p[0]+"/"+p[1]] = true
	}
	for _, t := range splitList(m["S"]) {
		p := strings.Split(t, "/")
		s := sg{p[0], p[2], vlib.Atoi(p[1])}
		sigs = append(sigs, s)
		sec = append(sec, &dns.RRSIG{Hdr: dns.RR_Header{Name: tokName(s.owner), Rrtype: dns.TypeRRSIG, Class: 1, Ttl: 60},
			TypeCovered: uint16(s.cov), Algorithm: 13, SignerName: spelled(tokName(s.signer), len(sigs)%2), KeyTag: 1, Signature: "AAAA"})
	}
	if inAnswer {
		resp.Answer = sec
	} else {
		resp.Ns = sec
	}
	got := resolver.VerifC01FindRRSIGSigners(resp, spelled(tokName(m["q"]), 1), inAnswer)
	toks := make([]string, len(got))
	for i, g := range got {
		toks[i] = nameTok(g)
	}
	// oracle: the SET of candidates is exactly the signer names of signatures that cover an RRset present in
	// the section (for answers: owned by the query name, or covering a DNAME); most labels first
	want := map[string]bool{}
	for _, s := range sigs {
		if !have[s.owner+"/"+itoa(s.cov)] {
			continue
		}
		if inAnswer && !labelsEqual(tokLabels(s.owner), tokLabels(m["q"])) && uint16(s.cov) != dns.TypeDNAME {
			continue
		}
		want[s.signer] = true
	}
	or := "ok"
	gotSet := map[string]bool{}
	for i, t := range toks {
		if gotSet[t] {
			or = fail("signers/duplicate-candidate", "%s", t)
		}
		gotSet[t] = true
		if !want[t] {
			or = fail("signers/candidate-without-covering-signature", "%s", t)
		}
		if i > 0 && len(tokLabels(toks[i-1])) < len(tokLabels(t)) {
			or = fail("signers/less-specific-signer-tried-first", "%s before %s", toks[i-1], t)
		}
	}
	for w := range want {
		if !gotSet[w] {
			or = fail("signers/genuine-signer-dropped", "%s", w)
		}
	}
	return vlib.Res{Impl: list(toks, func(s string) string { return s }), Oracle: or, Tags: "nt"}
}

func genSigners(r *vlib.R) string {
	q := vlib.Pick(r, []string{"www.example.com", "a.b.example.com", "example.com"})
	owners := []string{q, "example.com", "d.example.com", "other.test", "x." + q}
	signersP := []string{"example.com", "com", ".", "b.example.com", "other.test", "evil.example.com", "sub." + q, "example.org", "test"}
	var R, S []string
	nr := 1 + r.Intn(3)
	type rk struct {
		o string
		t int
	}
	var rks []rk
	for i := 0; i < nr; i++ {
		k := rk{vlib.Pick(r, owners), vlib.Pick(r, []int{1, 1, 5, 39, 47, 6, 16})}
		rks = append(rks, k)
		R = append(R, fmt.Sprintf("%s/%d", k.o, k.t))
	}
	ns := r.Intn(5)
	for i := 0; i < ns; i++ {
		o, c := vlib.Pick(r, owners), vlib.Pick(r, []int{1, 5, 39, 47, 6, 16})
		if r.Chance(2, 3) {
			k := vlib.Pick(r, rks)
			o, c = k.o, k.t
		}
		S = append(S, fmt.Sprintf("%s/%d/%s", o, c, vlib.Pick(r, signersP)))
	}
	j := func(l []string) string {
		if len(l) == 0 {
			return "-"
		}
		return strings.Join(l, ",")
	}
	return fmt.Sprintf("signers find q=%s in=%s R=%s S=%s", q, tf(r), j(R), j(S))
}

// ------------------------------------------------------------------ FilterRRsToZone + the wildcard step of Resolver.answer

// wild answer z=<signer> SA=<id>/<owner>/<labels>,… NS=<id>/<owner>/<next>,… cov=<nsecid>:<name>,…
// what Resolver.answer does after a successful signature check: the authority section is filtered to the
// signer zone (FilterRRsToZone) and only then the wildcard no-closer-match proof is looked for in it.
func execWildAnswer(f []string) vlib.Res {
	m := kv(f)
	signer := tokName(m["z"])
	resp := new(dns.Msg)
	type ws struct {
		id     int
		owner  string
		labels int
	}
	type wn struct {
		id          int
		owner, next string
	}
	var sigs []ws
	var nsecs []wn
	for _, t := range splitList(m["SA"]) {
		p := strings.Split(t, "/")
		s := ws{vlib.Atoi(p[0]), p[1], vlib.Atoi(p[2])}
		sigs = append(sigs, s)
		resp.Answer = append(resp.Answer, &dns.RRSIG{Hdr: dns.RR_Header{Name: tokName(s.owner), Rrtype: dns.TypeRRSIG, Class: 1, Ttl: 60},
			TypeCovered: dns.TypeTXT, Algorithm: 13, Labels: uint8(s.labels), SignerName: signer, KeyTag: 1, Signature: "AAAA"})
	}
	for _, t := range splitList(m["NS"]) {
		p := strings.Split(t, "/")
		n := wn{vlib.Atoi(p[0]), p[1], p[2]}
		nsecs = append(nsecs, n)
		resp.Ns = append(resp.Ns, &dns.NSEC{Hdr: dns.RR_Header{Name: tokName(n.owner), Rrtype: dns.TypeNSEC, Class: 1, Ttl: 60},
			NextDomain: tokName(n.next), TypeBitMap: []uint16{dns.TypeA, dns.TypeRRSIG, dns.TypeNSEC}})
	}
	resp.SetQuestion(signer, dns.TypeTXT)
	cov := map[string]bool{}
	for _, p := range splitList(m["cov"]) {
		cov[p] = true
	}
	// the coverage table must be the oracle's own
	for _, n := range nsecs {
		for _, s := range sigs {
			ls := tokLabels(s.owner)
			parts := strings.Split(s.owner, ".")
			for cut := 0; cut <= len(ls); cut++ {
				name := "."
				if cut < len(ls) {
					name = strings.Join(parts[cut:], ".")
				}
				if nsecCoversOracle(tokLabels(n.owner), tokLabels(n.next), ls[cut:]) != cov[fmt.Sprintf("%d:%s", n.id, name)] {
					return vlib.Res{Impl: "cover-table-drift"}
				}
			}
		}
	}
	resp.Ns = dnsutil.FilterRRsToZone(resp.Ns, signer)
	var kept []int
	used := map[int]bool{}
	for _, rr := range resp.Ns {
		for _, n := range nsecs {
			if !used[n.id] && strings.EqualFold(rr.Header().Name, tokName(n.owner)) && strings.EqualFold(rr.(*dns.NSEC).NextDomain, tokName(n.next)) {
				kept = append(kept, n.id)
				used[n.id] = true
				break
			}
		}
	}
	sort.Ints(kept)
	_, err := dnssec.VerifyWildcardAnswerForZoneWithWork(resp, signer, nil)
	impl := "ok"
	if err != nil {
		impl = "fail"
	}
	impl += " kept=" + list(kept, itoa)
	// oracle: a wildcard expansion is accepted only on an NSEC owned (and ending) INSIDE the signer zone
	zl := tokLabels(m["z"])
	want := true
	for _, s := range sigs {
		ls := tokLabels(s.owner)
		if s.labels >= len(ls) {
			continue
		}
		nc := ls[len(ls)-s.labels-1:]
		ok := false
		for _, n := range nsecs {
			if underOrEqual(tokLabels(n.owner), zl) && underOrEqual(tokLabels(n.next), zl) && nsecCoversOracle(tokLabels(n.owner), tokLabels(n.next), nc) && !entBelow(tokLabels(n.next), nc) {
				ok = true
			}
		}
		want = want && ok
	}
	or := "ok"
	if (err == nil) != want {
		if err == nil {
			or = fail("wild/answer-accepted-on-a-proof-outside-the-signer-zone", "z=%s NS=%s", m["z"], m["NS"])
		} else {
			or = fail("wild/answer-rejected-proven-expansion", "")
		}
	}
	return vlib.Res{Impl: impl, Oracle: or, Tags: "nt"}
}

func genWildAnswer(r *vlib.R) string {
	z := "zone.test"
	owner := vlib.Pick(r, []string{"real.w.zone.test", "x.w.zone.test", "a.b.w.zone.test", "www.zone.test"})
	l := countTok(owner) - r.Intn(2)
	if r.Chance(1, 6) {
		l = countTok(z)
	}
	pool := []string{"zone.test", "a.zone.test", "w.zone.test", "*.w.zone.test", "a.w.zone.test", "zz.w.zone.test", "zz.zone.test",
		"a.test", "zz.test", "test", "other.test", "a.w.zone.test.evil.example", "zone.test.evil", "zone0.test"}
	nn := 1 + r.Intn(3)
	var nl, cov []string
	seen := map[string]bool{}
	for i := 0; i < nn; i++ {
		o, n := vlib.Pick(r, pool), vlib.Pick(r, pool)
		nl = append(nl, fmt.Sprintf("%d/%s/%s", i, o, n))
		parts := strings.Split(owner, ".")
		ls := tokLabels(owner)
		for cut := 0; cut <= len(ls); cut++ {
			name := "."
			if cut < len(ls) {
				name = strings.Join(parts[cut:], ".")
			}
			key := fmt.Sprintf("%d:%s", i, name)
			if !seen[key] && nsecCoversOracle(tokLabels(o), tokLabels(n), ls[cut:]) {
				cov = append(cov, key)
			}
			seen[key] = true
		}
	}
	c := "-"
	if len(cov) > 0 {
		c = strings.Join(cov, ",")
	}
	return fmt.Sprintf("wild answer z=%s SA=0/%s/%d NS=%s cov=%s", z, owner, l, strings.Join(nl, ","), c)
}

// supds check D=<alg>/<digesttype>,…      hasSupportedDS of the resolver
func execSupDS(f []string) vlib.Res {
	var set []dns.RR
	want := false
	for _, t := range splitList(kv(f)["D"]) {
		p := strings.Split(t, "/")
		a, d := vlib.Atoi(p[0]), vlib.Atoi(p[1])
		set = append(set, &dns.DS{Hdr: dns.RR_Header{Name: "x.test.", Rrtype: dns.TypeDS, Class: 1, Ttl: 60}, KeyTag: 7, Algorithm: uint8(a), DigestType: uint8(d), Digest: "AB"})
		if mySupportedAlgs[a] && mySupportedDigests[d] {
			want = true
		}
	}
	got := resolver.VerifC01HasSupportedDS(set)
	or := "ok"
	if got != want {
		or = fail("supds/usable-ds-misjudged", "got=%v", got)
	}
	return vlib.Res{Impl: vlib.B(got), Oracle: or}
}

func genSupDS(r *vlib.R) string {
	n := r.Intn(4)
	var l []string
	for i := 0; i < n; i++ {
		l = append(l, fmt.Sprintf("%d/%d", vlib.Pick(r, []int{13, 15, 8, 14, 5, 7, 10, 1, 3, 6, 12, 16, 253}), vlib.Pick(r, []int{2, 1, 4, 0, 3, 5, 6})))
	}
	if len(l) == 0 {
		return "supds check D=-"
	}
	return "supds check D=" + strings.Join(l, ",")
}

// filter zone z=<zone> R=<owner>/<type>[/<next>],…   dnsutil.FilterRRsToZone: what answer() lets through of a section
func execFilterZone(f []string) vlib.Res {
	m := kv(f)
	var rrs []dns.RR
	var want []int
	zl := tokLabels(m["z"])
	for i, t := range splitList(m["R"]) {
		p := strings.Split(t, "/")
		typ := vlib.Atoi(p[1])
		owner := spelled(tokName(p[0]), i%2)
		keep := underOrEqual(tokLabels(p[0]), zl)
		if uint16(typ) == dns.TypeNSEC {
			rrs = append(rrs, &dns.NSEC{Hdr: dns.RR_Header{Name: owner, Rrtype: dns.TypeNSEC, Class: 1, Ttl: 60}, NextDomain: tokName(p[2]), TypeBitMap: []uint16{dns.TypeA}})
			keep = keep && underOrEqual(tokLabels(p[2]), zl)
		} else {
			rrs = append(rrs, mkRR(owner, typ, 1, i+1, "t.example"))
		}
		if keep {
			want = append(want, i)
		}
	}
	out := dnsutil.FilterRRsToZone(rrs, spelled(tokName(m["z"]), 1))
	var got []int
	j := 0
	for i, rr := range rrs {
		if j < len(out) && out[j] == rr {
			got = append(got, i)
			j++
		}
	}
	or := "ok"
	if list(got, itoa) != list(want, itoa) || j != len(out) {
		or = fail("filter/record-outside-the-zone-let-through-or-inside-dropped", "got=%s want=%s", list(got, itoa), list(want, itoa))
	}
	return vlib.Res{Impl: list(got, itoa), Oracle: or, Tags: "nt"}
}

func genFilterZone(r *vlib.R) string {
	z := vlib.Pick(r, []string{"zone.test", "example.com", ".", "test"})
	pool := []string{"zone.test", "www.zone.test", "a.b.zone.test", "evilzone.test", "test", "other.test", "example.com", "www.example.com",
		"xexample.com", "www.%666f6f2e6578616d706c65.com", "zone.test.evil.example", "."}
	n := 1 + r.Intn(5)
	var l []string
	for i := 0; i < n; i++ {
		t := vlib.Pick(r, []int{1, 2, 5, 6, 16, 43, 47, 47})
		if t == 47 {
			l = append(l, fmt.Sprintf("%s/47/%s", vlib.Pick(r, pool), vlib.Pick(r, pool)))
		} else {
			l = append(l, fmt.Sprintf("%s/%d", vlib.Pick(r, pool), t))
		}
	}
	return fmt.Sprintf("filter zone z=%s R=%s", z, strings.Join(l, ","))
}

// rootds check on=<t|f> keys=<n> pds=<n> zone=<name>     Resolver.rootParentDS on a real resolver
var rootdsResolvers = map[string]*resolver.Resolver{}

func rootdsResolver(on bool, keys int) *resolver.Resolver {
	k := fmt.Sprintf("%v/%d", on, keys)
	if r, ok := rootdsResolvers[k]; ok {
		return r
	}
	cfg := new(config.Config)
	cfg.RootServers = []string{"192.0.2.1:53"}
	cfg.Maxdepth = 30
	cfg.CacheSize = 1024
	cfg.Expire = 600
	cfg.Timeout.Duration = 50 * time.Millisecond
	cfg.Directory = "/verif/build/tmp-l3"
	cfg.DNSSEC = "off"
	if on {
		cfg.DNSSEC = "on"
	}
	for i := 0; i < keys; i++ {
		cfg.RootKeys = append(cfg.RootKeys, dnskey(i*3, ".", dns.ClassINET, 257, 3).String())
	}
	r := resolver.VerifResolver(resolver.New(cfg))
	rootdsResolvers[k] = r
	return r
}

func execRootDS(f []string) vlib.Res {
	m := kv(f)
	on, keys, npds := m["on"] == "t", vlib.Atoi(m["keys"]), vlib.Atoi(m["pds"])
	var pds []dns.RR
	for i := 0; i < npds; i++ {
		pds = append(pds, dnskey(30+i, "test.", dns.ClassINET, 257, 3).ToDS(dns.SHA256))
	}
	out, err := resolver.VerifC01RootParentDS(rootdsResolver(on, keys), pds, tokName(m["zone"]))
	impl := ""
	switch {
	case err != nil:
		impl = "err"
	case len(out) == len(pds) && (len(pds) == 0 || out[0] == pds[0]):
		impl = "same"
	default:
		impl = fmt.Sprintf("anchors=%d", len(out))
	}
	// oracle: for the root with nothing inherited and validation on, the DS set is the anchors' (or an error) — never empty
	or := "ok"
	if on && npds == 0 && m["zone"] == "." && err == nil && len(out) == 0 {
		or = fail("rootds/root-left-without-ds-although-validation-is-on", "keys=%d", keys)
	}
	for _, rr := range out {
		if ds, ok := rr.(*dns.DS); !ok || (npds == 0 && ds.Hdr.Name != ".") {
			or = fail("rootds/foreign-ds-for-the-root", "")
		}
	}
	return vlib.Res{Impl: impl, Oracle: or}
}

func genRootDS(r *vlib.R) string {
	return fmt.Sprintf("rootds check on=%s keys=%d pds=%d zone=%s", vlib.B(r.Chance(4, 5)), vlib.Pick(r, []int{0, 1, 1, 2}), vlib.Pick(r, []int{0, 0, 1, 2}), vlib.Pick(r, []string{".", ".", "test", "zone.test"}))
}

// proofname check <qname> <isDS>      insecureProofName of the resolver (e583743)
func execProofName(f []string) vlib.Res {
	qt := dns.TypeA
	if f[3] == "t" {
		qt = dns.TypeDS
	}
	got := nameTok(resolver.VerifC01InsecureProofName(dns.Question{Name: tokName(f[2]), Qtype: qt, Qclass: 1}))
	ls := tokLabels(f[2])
	or := "ok"
	if f[3] == "t" && len(ls) > 0 && len(tokLabels(got)) != len(ls)-1 {
		or = fail("proofname/ds-question-excused-by-its-own-owner", "%s -> %s", f[2], got)
	}
	if f[3] != "t" && got != f[2] {
		or = fail("proofname/changed-for-non-ds", "%s -> %s", f[2], got)
	}
	return vlib.Res{Impl: got, Oracle: or}
}

// ttl calc A=<items> N=<items> E=<items>     dnsutil.CalculateCacheTTL for a cacheable response:
// items: r<ttl> a record, g<ttl>:<left> an RRSIG with <left> seconds to its expiration (may be ≤ 0),
// s<ttl>:<min> an SOA with that MINIMUM.  Result in whole seconds.
func execTTL(f []string) vlib.Res {
	m := kv(f)
	now := time.Now()
	msg := new(dns.Msg)
	msg.SetQuestion("ttl.adtest.", dns.TypeA)
	msg.Response = true
	bound := int64(86400)
	total := 0
	sec := func(items string) []dns.RR {
		var out []dns.RR
		for _, it := range splitList(items) {
			total++
			kind, rest := it[0], it[1:]
			a, b, _ := strings.Cut(rest, ":")
			ttl := vlib.AtoI64(a)
			if ttl < bound {
				bound = ttl
			}
			h := dns.RR_Header{Name: "ttl.adtest.", Class: 1, Ttl: uint32(ttl)}
			switch kind {
			case 'r':
				h.Rrtype = dns.TypeA
				out = append(out, &dns.A{Hdr: h, A: []byte{192, 0, 2, 1}})
			case 'g':
				left := vlib.AtoI64(b)
				h.Rrtype = dns.TypeRRSIG
				out = append(out, &dns.RRSIG{Hdr: h, TypeCovered: dns.TypeA, Algorithm: 13, Labels: 2, OrigTtl: uint32(ttl),
					Expiration: uint32(now.Unix() + left), Inception: uint32(now.Unix() - 3600), KeyTag: 1, SignerName: "adtest.", Signature: "AAAA"})
				if left <= 0 {
					left = 5
				}
				if left < bound {
					bound = left
				}
			case 's':
				min := vlib.AtoI64(b)
				h.Rrtype = dns.TypeSOA
				out = append(out, &dns.SOA{Hdr: h, Ns: "ns.adtest.", Mbox: "h.adtest.", Serial: 1, Refresh: 1, Retry: 1, Expire: 1, Minttl: uint32(min)})
				if min < bound {
					bound = min
				}
			}
		}
		return out
	}
	msg.Answer, msg.Ns, msg.Extra = sec(m["A"]), sec(m["N"]), sec(m["E"])
	rt := dnsutil.TypeSuccess
	if len(msg.Answer) == 0 {
		rt = dnsutil.TypeNoRecords
	}
	d := dnsutil.CalculateCacheTTL(msg, rt)
	got := int64((d + time.Second - 1) / time.Second)
	// oracle: an entry never outlives any record's TTL, any SOA MINIMUM of its authority section or ANY signature
	// it carries — in whichever section — apart from the 5 s floor
	if bound < 5 || total == 0 {
		bound = 5
	}
	or := "ok"
	if got > bound {
		or = fail("ttl/cached-past-a-ttl-or-signature-expiration", "got=%d bound=%d", got, bound)
	}
	return vlib.Res{Impl: fmt.Sprint(got), Oracle: or, Tags: "nt"}
}

func genTTL(r *vlib.R) string {
	item := func(sec byte) string {
		ttl := vlib.Pick(r, []int{300, 3600, 60, 86400, 100000, 5, 0, 30})
		switch r.Intn(5) {
		case 0, 1:
			return fmt.Sprintf("r%d", ttl)
		case 2, 3:
			return fmt.Sprintf("g%d:%d", ttl, vlib.Pick(r, []int{20, 45, 7, 3, 0, -30, 200, 4000, 90000, 600}))
		}
		if sec == 'N' {
			return fmt.Sprintf("s%d:%d", ttl, vlib.Pick(r, []int{300, 60, 3600, 5, 0}))
		}
		return fmt.Sprintf("r%d", ttl)
	}
	mk := func(sec byte, max int) string {
		n := r.Intn(max + 1)
		if n == 0 {
			return "-"
		}
		var l []string
		for i := 0; i < n; i++ {
			l = append(l, item(sec))
		}
		return strings.Join(l, ",")
	}
	return fmt.Sprintf("ttl calc A=%s N=%s E=%s", mk('A', 3), mk('N', 4), mk('E', 2))
}

// authfilter check R=<type>,…      Resolver.filterAuthorityRecords: what survives of the authority section of an
// "SOA beside NS" response before it is validated — the denial's own records, nothing else
func execAuthFilter(f []string) vlib.Res {
	var rrs []dns.RR
	var want []int
	for i, t := range splitList(kv(f)["R"]) {
		typ := vlib.Atoi(t)
		switch uint16(typ) {
		case dns.TypeRRSIG:
			rrs = append(rrs, &dns.RRSIG{Hdr: dns.RR_Header{Name: "zone.test.", Rrtype: dns.TypeRRSIG, Class: 1, Ttl: 60}, TypeCovered: dns.TypeSOA, Algorithm: 13, SignerName: "zone.test.", KeyTag: 1, Signature: "AAAA"})
		case dns.TypeNSEC3:
			rrs = append(rrs, &dns.NSEC3{Hdr: dns.RR_Header{Name: "abcd.zone.test.", Rrtype: dns.TypeNSEC3, Class: 1, Ttl: 60}, Hash: 1, HashLength: 20, NextDomain: "ABCD"})
		default:
			rrs = append(rrs, mkRR("zone.test.", typ, 1, i+1, "t.example"))
		}
		switch uint16(typ) {
		case dns.TypeSOA, dns.TypeNSEC, dns.TypeNSEC3, dns.TypeRRSIG:
			want = append(want, i)
		}
	}
	out := resolver.VerifC01FilterAuthorityRecords(rrs)
	var got []int
	j := 0
	for i, rr := range rrs {
		if j < len(out) && out[j] == rr {
			got = append(got, i)
			j++
		}
	}
	or := "ok"
	if list(got, itoa) != list(want, itoa) || j != len(out) {
		or = fail("authfilter/non-denial-record-kept-or-denial-record-dropped", "got=%s want=%s", list(got, itoa), list(want, itoa))
	}
	return vlib.Res{Impl: list(got, itoa), Oracle: or, Tags: "nt"}
}

func genAuthFilter(r *vlib.R) string {
	n := 1 + r.Intn(6)
	var l []string
	for i := 0; i < n; i++ {
		l = append(l, itoa(vlib.Pick(r, []int{6, 47, 50, 46, 2, 2, 1, 16, 43, 5, 39, 28})))
	}
	return "authfilter check R=" + strings.Join(l, ",")
}
