//go:build verif

package main

import (
	"errors"
	"fmt"
	"strings"

	"github.com/miekg/dns"
	"github.com/semihalev/sdns/internal/verif/vlib"
	"github.com/semihalev/sdns/middleware/resolver/dnssec"
)

// synth check owner=<name> spell=<0|1> target=<name> D=<owner>/<target>,...
// the real isSynthesizedCNAME vs the model of RFC 6672 §3.3 synthesis.
func execSynth(f []string) vlib.Res {
	m := kv(f)
	owner, target := m["owner"], m["target"]
	sp := vlib.Atoi(m["spell"])
	cn := &dns.CNAME{Hdr: dns.RR_Header{Name: spelled(tokName(owner), sp), Rrtype: dns.TypeCNAME, Class: 1, Ttl: 60},
		Target: spelled(tokName(target), 1-sp)}
	var dn []*dns.DNAME
	type dd struct{ owner, target string }
	var ds []dd
	for _, t := range splitList(m["D"]) {
		p := strings.Split(t, "/")
		ds = append(ds, dd{p[0], p[1]})
		dn = append(dn, &dns.DNAME{Hdr: dns.RR_Header{Name: tokName(p[0]), Rrtype: dns.TypeDNAME, Class: 1, Ttl: 60}, Target: tokName(p[1])})
	}
	got := dnssec.VerifC01IsSynthesizedCNAME(cn, dn)
	// oracle, label by label: target = (owner's labels above the DNAME owner) ++ DNAME target, exactly
	want := false
	ol, tl := tokLabels(owner), tokLabels(target)
	for _, d := range ds {
		do, dt := tokLabels(d.owner), tokLabels(d.target)
		if len(do) == 0 || len(ol) <= len(do) || !underOrEqual(ol, do) {
			continue
		}
		rel := ol[:len(ol)-len(do)]
		if labelsEqual(tl, append(append([][]byte{}, rel...), dt...)) {
			want = true
		}
	}
	or := "ok"
	if got != want {
		if got {
			or = fail("synth/accepted-cname-the-dname-does-not-imply", "owner=%s target=%s D=%s", owner, target, m["D"])
		} else {
			or = fail("synth/rejected-genuine-synthesis", "owner=%s target=%s D=%s", owner, target, m["D"])
		}
	}
	return vlib.Res{Impl: vlib.B(got), Oracle: or, Tags: "nt"}
}

func genSynth(r *vlib.R) string {
	z := vlib.Pick(r, []string{"secure.test", "example.com", "zone.%666f6f2e626172.test"})
	downer := sub("d", z)
	dtarget := vlib.Pick(r, []string{"target.test", "t.example.org", "other.test", sub("t", z)})
	rel := vlib.Pick(r, []string{"a", "www", "a.b", "x.y.z"})
	owner := sub(rel, downer)
	target := sub(rel, dtarget)
	first := strings.Split(dtarget, ".")[0]
	rest := strings.TrimPrefix(dtarget, first)
	switch r.Intn(12) {
	case 0, 1, 2: // the genuine synthesis
	case 3: // labels inserted between the relative part and the target
		target = sub(rel, sub(vlib.Pick(r, []string{"b.c", "evil", "x"}), dtarget))
	case 4: // a longer name that merely ends in the same characters
		target = sub(rel, "evil"+first+rest)
	case 5: // a shorter one
		if len(first) > 1 {
			target = sub(rel, first[1:]+rest)
		}
	case 6: // other relative labels
		target = sub(vlib.Pick(r, []string{"b", "wwww", "a.c", "ww"}), dtarget)
	case 7: // the relative part glued to more text in one label
		target = rel + "x." + dtarget
	case 8: // owner not below the DNAME owner
		owner = sub(rel, sub("e", z))
	case 9: // owner is the DNAME owner itself
		owner, target = downer, dtarget
	case 10: // target is the DNAME target alone
		target = dtarget
	case 11: // owner below a sibling whose name ends in the same characters
		owner = sub(rel, "x"+downer)
	}
	ds := downer + "/" + dtarget
	if r.Chance(1, 4) {
		ds = sub("other", z) + "/" + "elsewhere.test," + ds
	}
	if r.Chance(1, 10) {
		ds = "./" + dtarget // a DNAME at the root is never a proper ancestor for this purpose
	}
	return fmt.Sprintf("synth check owner=%s spell=%d target=%s D=%s", owner, r.Intn(2), target, ds)
}

// deleg nsec q=<name> N=<owner>/<letters of n d s a x>,...   (x = no bits of interest)
// the real VerifyDelegationNSEC: the proof of an INSECURE delegation is an NSEC at the
// delegation point with NS set and neither DS nor SOA.
func execDeleg(f []string) vlib.Res {
	m := kv(f)
	var set []dns.RR
	type ne struct {
		owner         string
		ns, ds, soa bool
	}
	var ns []ne
	for _, t := range splitList(m["N"]) {
		p := strings.Split(t, "/")
		e := ne{p[0], strings.Contains(p[1], "n"), strings.Contains(p[1], "d"), strings.Contains(p[1], "s")}
		ns = append(ns, e)
		bm := []uint16{}
		if strings.Contains(p[1], "a") {
			bm = append(bm, dns.TypeA)
		}
		if e.ns {
			bm = append(bm, dns.TypeNS)
		}
		if e.soa {
			bm = append(bm, dns.TypeSOA)
		}
		if e.ds {
			bm = append(bm, dns.TypeDS)
		}
		bm = append(bm, dns.TypeRRSIG, dns.TypeNSEC)
		set = append(set, &dns.NSEC{Hdr: dns.RR_Header{Name: spelled(tokName(p[0]), len(ns)%2), Rrtype: dns.TypeNSEC, Class: 1, Ttl: 60},
			NextDomain: "zz." + tokName(p[0]), TypeBitMap: bm})
	}
	err := dnssec.VerifyDelegationNSEC(spelled(tokName(m["q"]), 1), set)
	impl := "ok"
	switch {
	case err == nil:
	case errors.Is(err, dnssec.ErrNSECNSMissing):
		impl = "fail:nsmissing"
	case errors.Is(err, dnssec.ErrNSECBadDelegation):
		impl = "fail:baddelegation"
	case errors.Is(err, dnssec.ErrNSECMissingCoverage):
		impl = "fail:nocover"
	default:
		impl = "fail:other"
	}
	// oracle: some NSEC AT the delegation point with NS, without DS, without SOA — and no NSEC at
	// that owner says otherwise
	proof, contra := false, false
	for _, e := range ns {
		if labelsEqual(tokLabels(e.owner), tokLabels(m["q"])) {
			if e.ns && !e.ds && !e.soa {
				proof = true
			} else {
				contra = true
			}
		}
	}
	or := "ok"
	if err == nil && (!proof || contra && len(ns) == 1) {
		or = fail("deleg/insecure-delegation-accepted-without-proof", "q=%s N=%s", m["q"], m["N"])
	}
	if err != nil && proof && !contra {
		or = fail("deleg/genuine-insecure-delegation-refused", "q=%s N=%s", m["q"], m["N"])
	}
	return vlib.Res{Impl: impl, Oracle: or, Tags: "nt"}
}

func genDeleg(r *vlib.R) string {
	q := vlib.Pick(r, []string{"victim.test", "child.example.com", "zone.test"})
	n := 1 + r.Intn(2)
	if r.Chance(1, 10) {
		n = 0
	}
	var parts []string
	for i := 0; i < n; i++ {
		owner := q
		if r.Chance(1, 4) {
			owner = vlib.Pick(r, []string{"test", "a." + q, "x" + q, "other.test"})
		}
		bits := ""
		for _, b := range []string{"n", "d", "s", "a"} { // every subset of {NS, DS, SOA} (+A)
			if r.Bool() {
				bits += b
			}
		}
		if bits == "" {
			bits = "x"
		}
		parts = append(parts, owner+"/"+bits)
	}
	l := "-"
	if len(parts) > 0 {
		l = strings.Join(parts, ",")
	}
	return fmt.Sprintf("deleg nsec q=%s N=%s", q, l)
}

// nodata nsec q=<name> ds=<t|f> N=<owner>/<letters of q c s n d x>,…
// the real VerifyNODATANSEC, exact-owner branch (every generated set holds an NSEC owned by the query name):
// q = the query type is in the bitmap, c CNAME, s SOA, n NS, d DS
func execNodataNSEC(f []string) vlib.Res {
	m := kv(f)
	isDS := m["ds"] == "t"
	qtype := dns.TypeMX
	if isDS {
		qtype = dns.TypeDS
	}
	var set []dns.RR
	type ne struct {
		owner string
		bits  string
	}
	var ns []ne
	for _, t := range splitList(m["N"]) {
		p := strings.Split(t, "/")
		ns = append(ns, ne{p[0], p[1]})
		bm := []uint16{dns.TypeRRSIG, dns.TypeNSEC}
		for _, b := range p[1] {
			switch b {
			case 'q':
				bm = append(bm, qtype)
			case 'c':
				bm = append(bm, dns.TypeCNAME)
			case 's':
				bm = append(bm, dns.TypeSOA)
			case 'n':
				bm = append(bm, dns.TypeNS)
			case 'd':
				bm = append(bm, dns.TypeDS)
			}
		}
		set = append(set, &dns.NSEC{Hdr: dns.RR_Header{Name: spelled(tokName(p[0]), len(ns)%2), Rrtype: dns.TypeNSEC, Class: 1, Ttl: 60},
			NextDomain: "zz." + tokName(p[0]), TypeBitMap: bm})
	}
	msg := new(dns.Msg)
	msg.SetQuestion(spelled(tokName(m["q"]), 1), qtype)
	msg.Response = true
	err := dnssec.VerifyNODATANSEC(msg, set)
	impl := "ok"
	switch {
	case err == nil:
	case errors.Is(err, dnssec.ErrNSECTypeExists):
		impl = "fail:typeexists"
	case errors.Is(err, dnssec.ErrNSECBadDelegation):
		impl = "fail:baddelegation"
	case errors.Is(err, dnssec.ErrNSECMissingCoverage):
		impl = "fail:nocover"
	default:
		impl = "fail:other"
	}
	// oracle: the deciding record is the first one owned by the query name; it denies the type only if the type (and
	// CNAME) is absent AND the record speaks for that type: the parent's delegation NSEC (NS, no SOA) speaks for DS
	// only, the child's apex NSEC (SOA) never for DS
	or := "ok"
	for _, e := range ns {
		if !labelsEqual(tokLabels(e.owner), tokLabels(m["q"])) {
			continue
		}
		has := func(c string) bool { return strings.Contains(e.bits, c) }
		bad := has("q") || has("c") || (isDS && has("s")) || (!isDS && has("n") && !has("s")) || (isDS && has("d"))
		if err == nil && bad {
			or = fail("nodata/nsec/denial-accepted-from-a-record-that-cannot-give-it", "q=%s ds=%v bits=%s", m["q"], isDS, e.bits)
		}
		if err != nil && !bad {
			or = fail("nodata/nsec/genuine-denial-refused", "q=%s ds=%v bits=%s", m["q"], isDS, e.bits)
		}
		break
	}
	return vlib.Res{Impl: impl, Oracle: or, Tags: "nt"}
}

func genNodataNSEC(r *vlib.R) string {
	q := vlib.Pick(r, []string{"child.example", "www.zone.test", "zone.test"})
	n := 1 + r.Intn(2)
	var parts []string
	exact := r.Intn(n)
	for i := 0; i < n; i++ {
		owner := q
		if i != exact && r.Bool() {
			owner = vlib.Pick(r, []string{"example", "a." + q, "other.test"})
		}
		bits := ""
		for _, b := range []string{"q", "c", "s", "n"} {
			if r.Chance(1, 3) {
				bits += b
			}
		}
		if r.Chance(1, 3) {
			bits = vlib.Pick(r, []string{"n", "nd", "ns", "s", "x"}) // delegation point (parent side), secure delegation, apex, plain
		}
		if bits == "" {
			bits = "x"
		}
		parts = append(parts, owner+"/"+bits)
	}
	return fmt.Sprintf("nodata nsec q=%s ds=%s N=%s", q, tf(r), strings.Join(parts, ","))
}
