//go:build verif

package main

import (
	"context"
	"crypto"
	"encoding/base64"
	"fmt"
	"net"
	"os"
	"sort"
	"strings"
	"time"

	"github.com/miekg/dns"
	"github.com/semihalev/sdns/config"
	"github.com/semihalev/sdns/internal/mock"
	"github.com/semihalev/sdns/internal/verif/l3"
	"github.com/semihalev/sdns/internal/verif/vlib"
	"github.com/semihalev/sdns/middleware"
	"github.com/semihalev/sdns/middleware/resolver"
)

// System-level exploration with the scripted-authority harness.  These ops are
// judged by the Go oracle only (zone ground truth); the model prints `unmodelled`.

type sysWorld struct {
	w         *l3.World
	p         *l3.Pipe
	spec      map[string]string
	srv       map[string]*l3.Server // root tld zone sub other plain
	tampers   map[string][]tamper
	tampered  bool            // some server has been scripted since `new` (sticky)
	noAnchor  bool            // no live trust anchor
	cleared   bool            // … because the trust set was emptied in mid-history (caches may hold validated answers)
	asked     map[string]bool // names that were resolved (as question or alias target) while the anchors were live
	evil      *l3.KeyPair
	taB       *l3.KeyPair // second configured root anchor (worlds with ta=t)
	taRevSeen bool        // a refresh has fetched B's self-signed revocation, authenticated by the live anchor A
	taPub     string
}

type tamper struct {
	kind, arg, scope string
}

var sys *sysWorld

func (s *sysWorld) close() {
	if s == nil {
		return
	}
	if s.p != nil {
		s.p.Close()
	}
	if s.w != nil {
		s.w.Close()
	}
}

func poolPair(i int, zone string, flags uint16) *l3.KeyPair {
	return &l3.KeyPair{Key: dnskey(i, zone, dns.ClassINET, flags, 3), Priv: pool(i).priv}
}

// setKeys replaces the keys of a zone (Keys[0] signs everything) and the DS RRset its parent publishes.
func setKeys(w *l3.World, z *l3.Zone, keys []*l3.KeyPair, dsFor []*l3.KeyPair) {
	z.Remove(z.Name, dns.TypeDNSKEY)
	z.Keys = keys
	var rrs []dns.RR
	for _, k := range keys {
		rrs = append(rrs, k.Key)
	}
	z.AddRR(rrs...)
	if d := w.Delegation(z.Name); d != nil {
		d.DS = nil
		for _, k := range dsFor {
			ds := k.Key.ToDS(dns.SHA256)
			ds.Hdr.Ttl = 3600
			d.DS = append(d.DS, ds)
		}
		z.Parent.Add() // drops the parent's signature cache
	}
}

func sysNew(f []string) vlib.Res {
	sys.close()
	spec := kv(f)
	s := &sysWorld{spec: spec, srv: map[string]*l3.Server{}, tampers: map[string][]tamper{}}
	sys = s
	alg := uint8(vlib.Atoi(spec["alg"]))
	w := l3.NewWorld(true)
	s.w = w
	s.srv["root"] = w.Root.Servers[0]
	tld := w.AddZone("test.", l3.ZoneOpts{Signed: true, PublishDS: true})
	s.srv["tld"] = tld.Servers[0]
	zo := l3.ZoneOpts{Alg: alg}
	switch spec["zone"] {
	case "s":
		zo.Signed, zo.PublishDS = true, true
	case "b":
		zo.Signed, zo.PublishDS, zo.WrongDS = true, true, true
	case "i":
		zo.Signed = spec["isigned"] == "t" // signed child without DS, or plain unsigned: both insecure
	}
	if spec["zsame"] == "t" {
		zo.SameServer = tld.Servers[0]
	}
	z := w.AddZone("zone.test.", zo)
	s.srv["zone"] = z.Servers[len(z.Servers)-1]
	z.Add("www.zone.test. 300 IN A 192.0.2.10", "www.zone.test. 300 IN A 192.0.2.11",
		"alias.zone.test. 300 IN CNAME www.zone.test.",
		"xalias.zone.test. 300 IN CNAME www.other.test.",
		"ialias.zone.test. 300 IN CNAME www.plain.test.",
		"lalias.zone.test. 900 IN CNAME short.other.test.", // long-lived alias onto a short-lived record of another zone
		"*.w.zone.test. 120 IN TXT \"wild\"",
		"real.w.zone.test. 120 IN TXT \"real\"",
		"txt.zone.test. 300 IN TXT \"hello\"",
		"deep.a.b.zone.test. 300 IN A 192.0.2.12",
		"mx.zone.test. 300 IN MX 10 www.zone.test.",
		"zone.test. 300 IN MX 10 mx.zone.test.",
		"d.zone.test. 300 IN DNAME other.test.",
		"di.zone.test. 300 IN DNAME plain.test.")
	if spec["zone"] == "s" {
		switch spec["keys"] {
		case "pairkz": // KSK and ZSK with one key tag
			k, zk := poolPair(pairKZ[0], z.Name, 257), poolPair(pairKZ[1], z.Name, 256)
			setKeys(w, z, []*l3.KeyPair{k, zk}, []*l3.KeyPair{k})
		case "pairkk": // the attacker holds a key with the tag of the genuine KSK
			k := poolPair(pairKK[0], z.Name, 257)
			setKeys(w, z, []*l3.KeyPair{k}, []*l3.KeyPair{k})
		case "twoksk": // KSK roll: two KSKs published, both in the DS RRset, only the first signs
			k1, k2 := poolPair(1003, z.Name, 257), poolPair(1006, z.Name, 257)
			setKeys(w, z, []*l3.KeyPair{k1, k2}, []*l3.KeyPair{k2, k1})
		case "dsmixed": // algorithm roll: the DS RRset also lists a DS of an algorithm this validator cannot use
			k1 := z.Keys[0]
			setKeys(w, z, []*l3.KeyPair{k1}, []*l3.KeyPair{k1})
			if d := w.Delegation(z.Name); d != nil {
				d.DS = append(d.DS, &dns.DS{Hdr: dns.RR_Header{Name: z.Name, Rrtype: dns.TypeDS, Class: dns.ClassINET, Ttl: 3600},
					KeyTag: 4711, Algorithm: 16, DigestType: 2, Digest: digestHex(4711)[:64]})
				z.Parent.Add()
			}
		case "dsextra": // DS RRset also names a key that is not published (pre-published successor)
			k1, k2 := z.Keys[0], poolPair(1009, z.Name, 257)
			setKeys(w, z, []*l3.KeyPair{k1}, []*l3.KeyPair{k2, k1})
		}
	}
	if spec["sub"] != "-" && spec["sub"] != "" {
		so := l3.ZoneOpts{Alg: alg}
		switch spec["sub"] {
		case "s":
			so.Signed, so.PublishDS = true, true
		case "b":
			so.Signed, so.PublishDS, so.WrongDS = true, true, true
		case "i":
		}
		if spec["same"] == "t" {
			so.SameServer = s.srv["zone"]
		}
		sb := w.AddZone("sub.zone.test.", so)
		s.srv["sub"] = sb.Servers[len(sb.Servers)-1]
		sb.Add("www.sub.zone.test. 300 IN A 192.0.2.20", "alias.sub.zone.test. 300 IN CNAME www.zone.test.",
			"txt.sub.zone.test. 300 IN TXT \"sub\"")
	}
	o := w.AddZone("other.test.", l3.ZoneOpts{Signed: true, PublishDS: true, Alg: dns.ED25519})
	s.srv["other"] = o.Servers[0]
	o.Add("www.other.test. 300 IN A 192.0.2.30", "victim.other.test. 300 IN A 192.0.2.31",
		"short.other.test. 20 IN A 192.0.2.32")
	ev := w.AddZone("evilother.test.", l3.ZoneOpts{}) // a name that merely ends in the characters of other.test.
	ev.Add("www.evilother.test. 300 IN A 6.6.6.6", "victim.evilother.test. 300 IN A 6.6.6.6")
	pl := w.AddZone("plain.test.", l3.ZoneOpts{})
	s.srv["plain"] = pl.Servers[0]
	pl.Add("www.plain.test. 300 IN A 192.0.2.40")
	var extraAnchors []string
	if spec["ta"] == "t" {
		// two configured root anchors: A (signs the root) and B (published beside it)
		s.taB = poolPair(1012, ".", 257)
		w.Root.Keys = append(w.Root.Keys, s.taB)
		w.Root.AddRR(s.taB.Key)
		extraAnchors = append(extraAnchors, s.taB.Key.String())
	}
	s.noAnchor = spec["anchors"] == "f"
	qmin := 0
	if spec["qmin"] != "" {
		qmin = vlib.Atoi(spec["qmin"])
	}
	s.p = l3.NewPipe(w, l3.PipeOpts{DNSSEC: true, NoRootKeys: s.noAnchor, Tweak: func(cfg *config.Config) {
		cfg.QnameMinLevel = qmin // RFC 7816: the minimised questions take the retry / referral routes of resolve()
		if !s.noAnchor {
			cfg.RootKeys = append(cfg.RootKeys, extraAnchors...)
		}
	}})
	s.evil = poolPair(1500, "zone.test.", 256)
	return vlib.Res{Impl: "ok"}
}

// ------------------------------------------------------------------ tampering

func signWith(k *l3.KeyPair, zone string, set []dns.RR, inc, exp time.Time) *dns.RRSIG {
	h := set[0].Header()
	sig := &dns.RRSIG{Hdr: dns.RR_Header{Name: h.Name, Rrtype: dns.TypeRRSIG, Class: h.Class, Ttl: h.Ttl},
		Algorithm: k.Key.Algorithm, OrigTtl: h.Ttl, Expiration: uint32(exp.Unix()), Inception: uint32(inc.Unix()),
		KeyTag: k.Key.KeyTag(), SignerName: zone}
	if err := sig.Sign(k.Priv.(crypto.Signer), set); err != nil {
		panic(fmt.Sprintf("c01 tamper: cannot sign %s: %v", h.Name, err))
	}
	return sig
}

func isSigFor(rr dns.RR, t uint16) bool {
	s, ok := rr.(*dns.RRSIG)
	return ok && (t == 0 || s.TypeCovered == t)
}

func mapRRs(rrs []dns.RR, f func(dns.RR) dns.RR) []dns.RR {
	var out []dns.RR
	for _, rr := range rrs {
		if x := f(dns.Copy(rr)); x != nil {
			out = append(out, x)
		}
	}
	return out
}

// rrsets groups the non-RRSIG records of a section.
func rrsets(rrs []dns.RR) [][]dns.RR {
	var keys []string
	m := map[string][]dns.RR{}
	for _, rr := range rrs {
		if rr.Header().Rrtype == dns.TypeRRSIG || rr.Header().Rrtype == dns.TypeOPT {
			continue
		}
		k := fmt.Sprintf("%s/%d", strings.ToLower(rr.Header().Name), rr.Header().Rrtype)
		if _, ok := m[k]; !ok {
			keys = append(keys, k)
		}
		m[k] = append(m[k], rr)
	}
	var out [][]dns.RR
	for _, k := range keys {
		out = append(out, m[k])
	}
	return out
}

func inScope(scope string, q dns.Question) bool {
	switch scope {
	case "data":
		return q.Qtype != dns.TypeDNSKEY && q.Qtype != dns.TypeDS
	case "dnskey":
		return q.Qtype == dns.TypeDNSKEY
	case "ds":
		return q.Qtype == dns.TypeDS
	case "notkey":
		return q.Qtype != dns.TypeDNSKEY
	}
	return true
}

func (s *sysWorld) zoneOfSigs(m *dns.Msg) *l3.Zone {
	for _, sec := range [][]dns.RR{m.Answer, m.Ns} {
		for _, rr := range sec {
			if sg, ok := rr.(*dns.RRSIG); ok {
				if z := s.w.Zones[strings.ToLower(sg.SignerName)]; z != nil {
					return z
				}
			}
		}
	}
	return nil
}

func flipRdata(rr dns.RR) dns.RR {
	switch x := rr.(type) {
	case *dns.A:
		ip := append(net.IP(nil), x.A.To4()...)
		ip[3] ^= 0x55
		x.A = ip
	case *dns.TXT:
		x.Txt = []string{x.Txt[0] + "-altered"}
	case *dns.CNAME:
		x.Target = "victim.other.test."
	case *dns.MX:
		x.Preference++
	case *dns.DS:
		x.Digest = strings.Repeat("AB", len(x.Digest)/2)
	case *dns.SOA:
		x.Minttl += 7
		x.Serial++
	case *dns.NSEC:
		x.TypeBitMap = append([]uint16{}, x.TypeBitMap...)
		x.NextDomain = "zzzz." + x.NextDomain
	case *dns.DNSKEY:
		b, _ := base64.StdEncoding.DecodeString(x.PublicKey)
		if len(b) > 3 {
			b[2] ^= 1
		}
		x.PublicKey = base64.StdEncoding.EncodeToString(b)
	}
	return rr
}

func (s *sysWorld) apply(t tamper, q dns.Question, m *dns.Msg) *dns.Msg {
	if !inScope(t.scope, q) {
		return m
	}
	now := time.Now()
	each := func(f func(dns.RR) dns.RR) {
		m.Answer, m.Ns = mapRRs(m.Answer, f), mapRRs(m.Ns, f)
	}
	sigs := func(f func(*dns.RRSIG)) {
		each(func(rr dns.RR) dns.RR {
			if sg, ok := rr.(*dns.RRSIG); ok {
				f(sg)
			}
			return rr
		})
	}
	resign := func(inc, exp time.Time) {
		z := s.zoneOfSigs(m)
		if z == nil || len(z.Keys) == 0 {
			return
		}
		re := func(sec []dns.RR) []dns.RR {
			var out []dns.RR
			for _, rr := range sec {
				if rr.Header().Rrtype != dns.TypeRRSIG {
					out = append(out, rr)
				}
			}
			for _, set := range rrsets(sec) {
				if set[0].Header().Rrtype == dns.TypeNS && !strings.EqualFold(set[0].Header().Name, z.Name) {
					continue // delegation NS is never signed
				}
				if strings.HasSuffix(strings.ToLower(set[0].Header().Name), strings.ToLower(z.Name)) || z.Name == "." {
					// keep wildcard label counts: reuse the honest signature's Labels via a fresh signature over the same owner
					var old *dns.RRSIG
					for _, rr := range sec {
						if sg, ok := rr.(*dns.RRSIG); ok && sg.TypeCovered == set[0].Header().Rrtype && strings.EqualFold(sg.Hdr.Name, set[0].Header().Name) {
							old = sg
						}
					}
					// the zone's key only ever signs what the zone publishes: an RRset an earlier script
					// altered keeps its old (now wrong) signature
					genuine := true
					for _, rr := range set {
						if rr.Header().Rrtype != dns.TypeNSEC && !s.w.Published(rr) {
							genuine = false
						}
					}
					if old == nil {
						continue
					}
					if genuine && old.Verify(z.Keys[0].Key, set) != nil {
						genuine = false // (denial records an earlier script made up: their signature is not the zone's)
					}
					if !genuine {
						out = append(out, old)
						continue
					}
					toSign := set
					owner := set[0].Header().Name
					if int(old.Labels) < dns.CountLabel(owner) {
						wc := "*." + lastLabels(owner, int(old.Labels))
						toSign = nil
						for _, rr := range set {
							c := dns.Copy(rr)
							c.Header().Name = wc
							toSign = append(toSign, c)
						}
					}
					ns := signWith(z.Keys[0], z.Name, toSign, inc, exp)
					ns.Hdr.Name = owner
					out = append(out, ns)
				}
			}
			return out
		}
		m.Answer, m.Ns = re(m.Answer), re(m.Ns)
	}
	switch t.kind {
	case "flipdata":
		m.Answer = mapRRs(m.Answer, func(rr dns.RR) dns.RR {
			if rr.Header().Rrtype == dns.TypeRRSIG {
				return rr
			}
			return flipRdata(rr)
		})
	case "flipauth":
		m.Ns = mapRRs(m.Ns, func(rr dns.RR) dns.RR {
			switch rr.Header().Rrtype {
			case dns.TypeSOA, dns.TypeNSEC, dns.TypeDS:
				return flipRdata(rr)
			}
			return rr
		})
	case "flipsig":
		sigs(func(sg *dns.RRSIG) {
			b, _ := base64.StdEncoding.DecodeString(sg.Signature)
			if len(b) > 8 {
				b[len(b)/2] ^= 4
			}
			sg.Signature = base64.StdEncoding.EncodeToString(b)
		})
	case "signer":
		sigs(func(sg *dns.RRSIG) { sg.SignerName = t.arg })
	case "sigfield":
		// the data is altered and ONE field of every RRSIG is rewritten so that the signature can no longer be
		// checked (unimplemented algorithm, unknown key tag, other class …) while everything else stays genuine:
		// "cannot be judged" must never become "insecure"
		m.Answer = mapRRs(m.Answer, func(rr dns.RR) dns.RR {
			if rr.Header().Rrtype == dns.TypeRRSIG {
				return rr
			}
			return flipRdata(rr)
		})
		sigs(func(sg *dns.RRSIG) {
			switch t.arg {
			case "alg16":
				sg.Algorithm = 16
			case "alg12":
				sg.Algorithm = 12
			case "alg1":
				sg.Algorithm = 1
			case "alg253":
				sg.Algorithm = 253
			case "signer-qname": // the signer is rewritten to the query name itself: below the zone, no zone cut
				sg.SignerName = q.Name
			case "signer-mid": // … or to the name one label above the query name (when that is still below the zone)
				if i, end := dns.NextLabel(q.Name, 0); !end && dns.CountLabel(q.Name[i:]) > dns.CountLabel(sg.SignerName) {
					sg.SignerName = q.Name[i:]
				} else {
					sg.SignerName = q.Name
				}
			case "tag":
				sg.KeyTag ^= 0x5555
			case "covered":
				sg.TypeCovered = dns.TypeNULL
			case "origttl":
				sg.OrigTtl += 7
			}
		})
	case "labels":
		sigs(func(sg *dns.RRSIG) {
			if t.arg == "+1" {
				sg.Labels++
			} else if sg.Labels > 0 {
				sg.Labels--
			}
		})
	case "expired":
		sigs(func(sg *dns.RRSIG) { sg.Expiration = uint32(now.Add(-time.Hour).Unix()) })
	case "notyet":
		sigs(func(sg *dns.RRSIG) { sg.Inception = uint32(now.Add(time.Hour).Unix()) })
	case "resign-expired":
		ago := time.Hour
		if t.arg != "-" {
			ago = time.Duration(vlib.Atoi(t.arg)) * time.Second
		}
		resign(now.Add(-30*24*time.Hour), now.Add(-ago))
	case "resign-notyet":
		ahead := time.Hour
		if t.arg != "-" {
			ahead = time.Duration(vlib.Atoi(t.arg)) * time.Second
		}
		resign(now.Add(ahead), now.Add(30*24*time.Hour))
	case "resign-short": // a zone that signs with short lifetimes: genuine signatures that lapse <arg> seconds from (virtual) now
		left := time.Duration(vlib.Atoi(t.arg)) * time.Second
		resign(now.Add(-time.Hour), now.Add(s.p.Offset+left))
	case "resign-valid": // control: an honest re-signing must change nothing
		resign(now.Add(-time.Hour), now.Add(24*time.Hour))
	case "dropsigs":
		each(func(rr dns.RR) dns.RR {
			if rr.Header().Rrtype == dns.TypeRRSIG {
				return nil
			}
			return rr
		})
	case "dropsigs-answer":
		m.Answer = mapRRs(m.Answer, func(rr dns.RR) dns.RR {
			if rr.Header().Rrtype == dns.TypeRRSIG {
				return nil
			}
			return rr
		})
	case "dropds":
		each(func(rr dns.RR) dns.RR {
			if rr.Header().Rrtype == dns.TypeDS || isSigFor(rr, dns.TypeDS) {
				return nil
			}
			return rr
		})
	case "swapds":
		other := poolPair(1600, "x.", 257)
		each(func(rr dns.RR) dns.RR {
			if ds, ok := rr.(*dns.DS); ok {
				k := *other.Key
				k.Hdr.Name = ds.Hdr.Name
				n := k.ToDS(ds.DigestType)
				n.Hdr.Ttl = ds.Hdr.Ttl
				return n
			}
			return rr
		})
	case "ds-to-soa", "ds-to-nsec":
		// the DS RRset of a referral / DS answer is swapped for another, validly signed RRset of the
		// parent zone (its SOA, or the apex NSEC that says nothing about the child): signatures verify,
		// but nothing proves the child has no DS
		z := s.zoneOfSigs(m)
		hadDS := false
		each(func(rr dns.RR) dns.RR {
			if rr.Header().Rrtype == dns.TypeDS || isSigFor(rr, dns.TypeDS) {
				hadDS = true
				return nil
			}
			return rr
		})
		if hadDS && z != nil && len(z.Keys) > 0 {
			var set []dns.RR
			if t.kind == "ds-to-soa" {
				set = []dns.RR{dns.Copy(z.SOA)}
			} else {
				set = []dns.RR{&dns.NSEC{Hdr: dns.RR_Header{Name: z.Name, Rrtype: dns.TypeNSEC, Class: dns.ClassINET, Ttl: 300},
					NextDomain: "aaa." + strings.TrimPrefix(z.Name, "."), TypeBitMap: []uint16{dns.TypeNS, dns.TypeSOA, dns.TypeRRSIG, dns.TypeNSEC, dns.TypeDNSKEY}}}
			}
			m.Ns = append(m.Ns, set[0], signWith(z.Keys[0], z.Name, set, z.SigInception, z.SigExpiration))
			if q.Qtype == dns.TypeDS {
				m.Answer = nil
			}
		}
	case "ds-to-nssig":
		// the DS RRset of a referral is dropped and a made-up RRSIG over the delegation NS RRset is added:
		// authority NS records are never validated, so "some signature is present" must not count as proof
		parentZone := ""
		var nsOwner string
		for _, rr := range m.Ns {
			if sg, ok := rr.(*dns.RRSIG); ok && sg.TypeCovered == dns.TypeDS {
				parentZone = sg.SignerName
			}
			if rr.Header().Rrtype == dns.TypeNS {
				nsOwner = rr.Header().Name
			}
		}
		if parentZone != "" && nsOwner != "" && !strings.EqualFold(nsOwner, parentZone) {
			each(func(rr dns.RR) dns.RR {
				if rr.Header().Rrtype == dns.TypeDS || isSigFor(rr, dns.TypeDS) {
					return nil
				}
				return rr
			})
			m.Ns = append(m.Ns, &dns.RRSIG{Hdr: dns.RR_Header{Name: nsOwner, Rrtype: dns.TypeRRSIG, Class: dns.ClassINET, Ttl: 300},
				TypeCovered: dns.TypeNS, Algorithm: dns.ECDSAP256SHA256, Labels: uint8(dns.CountLabel(nsOwner)), OrigTtl: 300,
				Expiration: uint32(now.Add(time.Hour).Unix()), Inception: uint32(now.Add(-time.Hour).Unix()), KeyTag: 4242,
				SignerName: parentZone, Signature: base64.StdEncoding.EncodeToString(seedBytes(4242, 64))})
		}
	case "wildcard-replay":
		// a name that EXISTS below a wildcard is answered with the wildcard's data and the wildcard's
		// genuine signature (label count of the wildcard), without any next-closer denial
		z := s.w.Zones["zone.test."]
		if z != nil && z.Signed && len(z.Keys) > 0 && q.Qtype == dns.TypeTXT && strings.HasSuffix(strings.ToLower(q.Name), ".w.zone.test.") {
			wc, _ := dns.NewRR("*.w.zone.test. 120 IN TXT \"wild\"")
			sg := signWith(z.Keys[0], z.Name, []dns.RR{wc}, z.SigInception, z.SigExpiration)
			sg.Hdr.Name = q.Name
			exp := dns.Copy(wc)
			exp.Header().Name = q.Name
			m.Answer, m.Ns = []dns.RR{exp, sg}, nil
			m.Rcode = dns.RcodeSuccess
			// what is offered as the no-closer-match proof: nothing, or an UNSIGNED NSEC whose span straddles the
			// next-closer name — owned outside the signer zone (exempt from the signature check as a "referral
			// remnant"), inside it, or outside with a made-up RRSIG
			mk := func(owner, next string) dns.RR {
				return &dns.NSEC{Hdr: dns.RR_Header{Name: owner, Rrtype: dns.TypeNSEC, Class: dns.ClassINET, Ttl: 120},
					NextDomain: next, TypeBitMap: []uint16{dns.TypeA, dns.TypeRRSIG, dns.TypeNSEC}}
			}
			switch t.arg {
			case "foreign":
				m.Ns = []dns.RR{mk("a.test.", "zz.test.")}
			case "foreign-root":
				m.Ns = []dns.RR{mk("a.", "zz.")}
			case "inzone":
				m.Ns = []dns.RR{mk("a.w.zone.test.", "zz.w.zone.test.")}
			case "foreignsig":
				n := mk("a.test.", "zz.test.")
				m.Ns = []dns.RR{n, &dns.RRSIG{Hdr: dns.RR_Header{Name: "a.test.", Rrtype: dns.TypeRRSIG, Class: dns.ClassINET, Ttl: 120},
					TypeCovered: dns.TypeNSEC, Algorithm: dns.ECDSAP256SHA256, Labels: 2, OrigTtl: 120, Expiration: uint32(now.Add(time.Hour).Unix()),
					Inception: uint32(now.Add(-time.Hour).Unix()), KeyTag: 4242, SignerName: "test.", Signature: base64.StdEncoding.EncodeToString(seedBytes(4243, 64))}}
			}
		}
	case "ds-childside":
		// a DS query (parent side of the cut) is answered with the CHILD's own, genuinely signed NODATA for
		// its apex (SOA + apex NSEC with the SOA bit): it proves nothing about the delegation; referrals lose their DS
		if q.Qtype == dns.TypeDS {
			if child := s.w.Zones[strings.ToLower(q.Name)]; child != nil && child.Signed {
				n := new(dns.Msg)
				n.SetReply(&dns.Msg{MsgHdr: dns.MsgHdr{Id: m.Id}, Question: []dns.Question{q}})
				child.Answer(q, true, n)
				n.Extra = m.Extra
				m = n
			}
		} else {
			each(func(rr dns.RR) dns.RR {
				if rr.Header().Rrtype == dns.TypeDS || isSigFor(rr, dns.TypeDS) {
					return nil
				}
				return rr
			})
		}
	case "dname-retarget":
		// the unsigned CNAME synthesised from a signed DNAME is rewritten so that its relative labels and the
		// tail of its target still look right: into a domain that merely ends in the same characters, or with
		// labels inserted in the middle
		var dn *dns.DNAME
		for _, rr := range m.Answer {
			if d, ok := rr.(*dns.DNAME); ok {
				dn = d
			}
		}
		if dn != nil {
			m.Answer = mapRRs(m.Answer, func(rr dns.RR) dns.RR {
				c, ok := rr.(*dns.CNAME)
				if !ok || !strings.HasSuffix(strings.ToLower(c.Target), strings.ToLower(dn.Target)) {
					return rr
				}
				rel := c.Target[:len(c.Target)-len(dn.Target)]
				if t.arg == "insert" {
					c.Target = rel + "b.c." + dn.Target
				} else {
					c.Target = rel + "evil" + dn.Target
				}
				return c
			})
		}
	case "ds-replay-nsec":
		// referrals lose their DS RRset; the DS query is answered NODATA and "proved" with the parent's own,
		// genuinely signed NSEC of the delegation point — whose bitmap lists DS: it proves the opposite
		z := s.zoneOfSigs(m)
		child := ""
		each(func(rr dns.RR) dns.RR {
			if rr.Header().Rrtype == dns.TypeDS {
				child = rr.Header().Name
				return nil
			}
			if isSigFor(rr, dns.TypeDS) {
				return nil
			}
			return rr
		})
		if q.Qtype == dns.TypeDS && child != "" && z != nil && z.Signed {
			first := dns.SplitDomainName(child)[0]
			probe := first + "0." + strings.TrimPrefix(child, first+".")
			pm := new(dns.Msg)
			pm.SetQuestion(probe, dns.TypeA)
			z.Answer(pm.Question[0], true, pm)
			var ns []dns.RR
			for _, rr := range pm.Ns {
				switch x := rr.(type) {
				case *dns.SOA:
					ns = append(ns, rr)
				case *dns.NSEC:
					if strings.EqualFold(x.Hdr.Name, child) {
						ns = append(ns, rr)
					}
				case *dns.RRSIG:
					if x.TypeCovered == dns.TypeSOA || (x.TypeCovered == dns.TypeNSEC && strings.EqualFold(x.Hdr.Name, child)) {
						ns = append(ns, rr)
					}
				}
			}
			m.Answer, m.Ns, m.Rcode = nil, ns, dns.RcodeSuccess
		}
	case "padkey":
		// The DNSKEY answers of the zone(s) this server is authoritative for are PADDED with a key the attacker
		// holds; the genuine RRSIG stays (it no longer covers the RRset), so a validated fetch of that RRset
		// fails. Everything below is then signed with the padded key:
		//   denyds  referrals lose their DS RRset and the DS query is answered NODATA with SOA + an NSEC
		//           "child NS RRSIG NSEC" (a well-formed proof of an insecure delegation)
		//   data    data answers are altered and re-signed
		//   deny    positive data answers are replaced by a NODATA with SOA + a matching NSEC without the type
		evilFor := func(zone string) *l3.KeyPair { return poolPair(1500, strings.ToLower(zone), 256) }
		if q.Qtype == dns.TypeDNSKEY {
			if z := s.w.Zones[strings.ToLower(q.Name)]; z != nil && z.Signed && len(m.Answer) > 0 {
				m.Answer = append([]dns.RR{evilFor(z.Name).Key}, m.Answer...)
			}
			break
		}
		z := s.zoneOfSigs(m)
		if z == nil || !z.Signed {
			break
		}
		evil := evilFor(z.Name)
		signed := func(set ...dns.RR) []dns.RR {
			return append(set, signWith(evil, z.Name, set, now.Add(-time.Hour), now.Add(time.Hour)))
		}
		soa := dns.Copy(z.SOA)
		switch t.arg {
		case "denyds":
			child := ""
			each(func(rr dns.RR) dns.RR {
				if rr.Header().Rrtype == dns.TypeDS {
					child = rr.Header().Name
					return nil
				}
				if isSigFor(rr, dns.TypeDS) {
					return nil
				}
				return rr
			})
			if q.Qtype == dns.TypeDS && child != "" {
				nsec := &dns.NSEC{Hdr: dns.RR_Header{Name: child, Rrtype: dns.TypeNSEC, Class: dns.ClassINET, Ttl: 300},
					NextDomain: "zz-" + child, TypeBitMap: []uint16{dns.TypeNS, dns.TypeRRSIG, dns.TypeNSEC}}
				m.Answer, m.Rcode = nil, dns.RcodeSuccess
				m.Ns = append(signed(soa), signed(nsec)...)
			}
		case "data":
			if q.Qtype != dns.TypeDS && len(m.Answer) > 0 {
				var out []dns.RR
				for _, set := range rrsets(m.Answer) {
					var forged []dns.RR
					for _, rr := range set {
						forged = append(forged, flipRdata(dns.Copy(rr)))
					}
					out = append(out, signed(forged...)...)
				}
				m.Answer = out
			}
		case "deny":
			if q.Qtype != dns.TypeDS && len(m.Answer) > 0 && m.Authoritative {
				nsec := &dns.NSEC{Hdr: dns.RR_Header{Name: q.Name, Rrtype: dns.TypeNSEC, Class: dns.ClassINET, Ttl: 300},
					NextDomain: "zz-" + q.Name, TypeBitMap: []uint16{dns.TypeRRSIG, dns.TypeNSEC}}
				m.Answer, m.Rcode = nil, dns.RcodeSuccess
				m.Ns = append(signed(soa), signed(nsec)...)
			}
		}
	case "replay-old":
		// data the zone published in the past, with the signatures of that time (now expired):
		// made with the zone's real key, so only the validity window stands in the way
		z := s.zoneOfSigs(m)
		if z != nil && len(z.Keys) > 0 && len(m.Answer) > 0 {
			var out []dns.RR
			for _, set := range rrsets(m.Answer) {
				var old []dns.RR
				for _, rr := range set {
					old = append(old, flipRdata(dns.Copy(rr)))
				}
				out = append(out, old...)
				if strings.HasSuffix(strings.ToLower(set[0].Header().Name), strings.ToLower(z.Name)) {
					ago := 24 * time.Hour
					if t.arg != "-" {
						ago = time.Duration(vlib.Atoi(t.arg)) * time.Second
					}
					out = append(out, signWith(z.Keys[0], z.Name, old, now.Add(-60*24*time.Hour), now.Add(-ago)))
				}
			}
			m.Answer = out
		}
	case "stripnsec":
		each(func(rr dns.RR) dns.RR {
			if rr.Header().Rrtype == dns.TypeNSEC || isSigFor(rr, dns.TypeNSEC) {
				return nil
			}
			return rr
		})
	case "inject-answer":
		rr, _ := dns.NewRR("victim.other.test. 300 IN A 6.6.6.6")
		m.Answer = append(m.Answer, rr)
	case "inject-answer-front":
		rr, _ := dns.NewRR("victim.other.test. 300 IN A 6.6.6.6")
		m.Answer = append([]dns.RR{rr}, m.Answer...)
	case "inject-ns":
		rr, _ := dns.NewRR("other.test. 300 IN NS ns.evil.example.")
		m.Ns = append(m.Ns, rr)
	case "inject-auth": // an unsigned record the zone does not own, appended to the AUTHORITY section (of denials too)
		rr, _ := dns.NewRR("victim.other.test. 300 IN A 6.6.6.6")
		if t.arg == "soa" {
			rr, _ = dns.NewRR("other.test. 300 IN SOA ns.evil.example. h.evil.example. 666 1 1 1 1")
		}
		if t.arg == "ns-inzone" || t.arg == "ns-inzone-sig" {
			// an unsigned NS RRset owned INSIDE the zone (the signature check skips every authority NS record)
			zn := "zone.test."
			if z := s.zoneOfSigs(m); z != nil {
				zn = z.Name
			}
			rr, _ = dns.NewRR(zn + " 300 IN NS ns.attacker.example.")
			if t.arg == "ns-inzone-sig" {
				m.Ns = append(m.Ns, &dns.RRSIG{Hdr: dns.RR_Header{Name: zn, Rrtype: dns.TypeRRSIG, Class: dns.ClassINET, Ttl: 300}, TypeCovered: dns.TypeNS,
					Algorithm: dns.ECDSAP256SHA256, Labels: uint8(dns.CountLabel(zn)), OrigTtl: 300, Expiration: uint32(now.Add(time.Hour).Unix()),
					Inception: uint32(now.Add(-time.Hour).Unix()), KeyTag: 4242, SignerName: zn, Signature: base64.StdEncoding.EncodeToString(seedBytes(4244, 64))})
			}
		}
		if t.arg == "txt-root" {
			rr, _ = dns.NewRR("evil. 300 IN TXT \"injected\"")
		}
		m.Ns = append(m.Ns, rr)
	case "inject-extra":
		rr, _ := dns.NewRR("www.other.test. 300 IN A 6.6.6.6")
		m.Extra = append([]dns.RR{rr}, m.Extra...)
	case "inject-inzone":
		if len(m.Answer) > 0 {
			rr, _ := dns.NewRR(fmt.Sprintf("extra.%s 300 IN A 6.6.6.6", q.Name))
			m.Answer = append(m.Answer, rr)
		}
	case "addrr":
		for _, set := range rrsets(m.Answer) {
			if a, ok := set[0].(*dns.A); ok {
				c := dns.Copy(a).(*dns.A)
				c.A = net.IPv4(6, 6, 6, 6).To4()
				m.Answer = append(m.Answer, c)
				break
			}
		}
	case "clonekey": // DNSKEY answers carry a same-tag clone of the KSK, self-signed by the clone
		if q.Qtype == dns.TypeDNSKEY && strings.EqualFold(q.Name, "zone.test.") {
			clone := poolPair(pairKK[1], "zone.test.", 257)
			set := []dns.RR{clone.Key}
			m.Answer = append(set, signWith(clone, "zone.test.", set, now.Add(-time.Hour), now.Add(time.Hour)))
		}
	case "evilkey":
		evil := s.evil
		if t.arg == "sametag" {
			evil = poolPair(pairKK[1], "zone.test.", 257)
		}
		if q.Qtype == dns.TypeDNSKEY && strings.EqualFold(q.Name, "zone.test.") {
			var set, oldSigs []dns.RR
			for _, rr := range m.Answer {
				if rr.Header().Rrtype == dns.TypeDNSKEY {
					set = append(set, rr)
				} else if t.arg == "keepsig" {
					oldSigs = append(oldSigs, rr)
				}
			}
			if t.arg == "replace" {
				set = nil
			}
			set = append(set, evil.Key)
			m.Answer = append(append(set, signWith(evil, "zone.test.", set, now.Add(-time.Hour), now.Add(time.Hour))), oldSigs...)
		} else if q.Qtype != dns.TypeDS && len(m.Answer) > 0 && s.zoneOfSigs(m) != nil && s.zoneOfSigs(m).Name == "zone.test." {
			var out []dns.RR
			for _, set := range rrsets(m.Answer) {
				var forged []dns.RR
				for _, rr := range set {
					forged = append(forged, flipRdata(dns.Copy(rr)))
				}
				out = append(out, forged...)
				out = append(out, signWith(evil, "zone.test.", forged, now.Add(-time.Hour), now.Add(time.Hour)))
			}
			m.Answer = out
		}
	case "forge-answer": // the whole response is replaced by an unsigned authoritative answer of the attacker's choosing
		var rr dns.RR
		switch q.Qtype {
		case dns.TypeA:
			rr, _ = dns.NewRR(fmt.Sprintf("%s 300 IN A 6.6.6.6", q.Name))
		case dns.TypeAAAA:
			rr, _ = dns.NewRR(fmt.Sprintf("%s 300 IN AAAA 2001:db8::666", q.Name))
		case dns.TypeTXT:
			rr, _ = dns.NewRR(fmt.Sprintf("%s 300 IN TXT \"forged\"", q.Name))
		case dns.TypeMX:
			rr, _ = dns.NewRR(fmt.Sprintf("%s 300 IN MX 1 mail.evil.example.", q.Name))
		case dns.TypeSOA:
			rr, _ = dns.NewRR(fmt.Sprintf("%s 300 IN SOA ns.evil.example. h.evil.example. 666 1 1 1 1", q.Name))
		}
		if rr != nil {
			m.Answer, m.Ns, m.Extra = []dns.RR{rr}, nil, nil
			m.Rcode = dns.RcodeSuccess
			m.Authoritative = true
		}
	case "rcode": // a data-less error reply with the given rcode
		m.Answer, m.Ns = nil, nil
		m.Rcode = vlib.Atoi(t.arg)
	case "nodata-replay":
		// a positive answer is replaced by NOERROR with an empty answer section whose authority section carries
		// genuine, validly signed records of the zone that DENY NOTHING about the question (no SOA, no matching NSEC)
		z := s.zoneOfSigs(m)
		if z != nil && z.Signed && len(m.Answer) > 0 && m.Authoritative {
			pm := new(dns.Msg)
			var ns []dns.RR
			switch t.arg {
			case "ns":
				pm.SetQuestion(z.Name, dns.TypeNS)
				z.Answer(pm.Question[0], true, pm)
				ns = pm.Answer
			case "txt":
				pm.SetQuestion("txt."+z.Name, dns.TypeTXT)
				z.Answer(pm.Question[0], true, pm)
				ns = pm.Answer
			case "nsec", "soansec":
				pm.SetQuestion("0nope."+z.Name, dns.TypeA)
				z.Answer(pm.Question[0], true, pm)
				for _, rr := range pm.Ns {
					isSOA := rr.Header().Rrtype == dns.TypeSOA || isSigFor(rr, dns.TypeSOA)
					if t.arg == "soansec" || !isSOA {
						ns = append(ns, rr)
					}
				}
			}
			if len(ns) > 0 {
				m.Answer, m.Ns, m.Rcode = nil, ns, dns.RcodeSuccess
			}
		}
	case "parent-denial":
		// an answer of the CHILD's apex is replaced by NOERROR/empty with the PARENT's genuine SOA and the parent's genuine
		// delegation-point NSEC for the child (NS [DS] RRSIG NSEC): the parent speaks for DS there and for nothing else
		if child := s.w.Zones[strings.ToLower(q.Name)]; child != nil && child.Parent != nil && child.Parent.Signed && q.Qtype != dns.TypeDS && len(m.Answer) > 0 {
			par := child.Parent
			first := dns.SplitDomainName(q.Name)[0]
			pm := new(dns.Msg)
			pm.SetQuestion(first+"0."+strings.TrimPrefix(q.Name, first+"."), dns.TypeA)
			par.Answer(pm.Question[0], true, pm)
			var ns []dns.RR
			for _, rr := range pm.Ns {
				switch x := rr.(type) {
				case *dns.SOA:
					ns = append(ns, rr)
				case *dns.NSEC:
					if strings.EqualFold(x.Hdr.Name, q.Name) {
						ns = append(ns, rr)
					}
				case *dns.RRSIG:
					if x.TypeCovered == dns.TypeSOA || (x.TypeCovered == dns.TypeNSEC && strings.EqualFold(x.Hdr.Name, q.Name)) {
						ns = append(ns, rr)
					}
				}
			}
			if len(ns) >= 4 {
				m.Answer, m.Ns, m.Rcode = nil, ns, dns.RcodeSuccess
			}
		}
	case "nodata-forge": // a positive answer is replaced by an unsigned empty NOERROR
		if len(m.Answer) > 0 {
			m.Answer, m.Ns = nil, nil
		}
	case "nxdomain-forge":
		if len(m.Answer) > 0 {
			m.Answer, m.Ns = nil, nil
			m.Rcode = dns.RcodeNameError
		}
	}
	return m
}

func (s *sysWorld) install(srvName string) {
	srv := s.srv[srvName]
	if srv == nil {
		return
	}
	ts := append([]tamper(nil), s.tampers[srvName]...)
	if len(ts) == 0 {
		srv.SetBehaviour(l3.Behaviour{})
		return
	}
	srv.SetBehaviour(l3.Behaviour{Tamper: func(q dns.Question, m *dns.Msg, tcp bool) (out *dns.Msg) {
		honest := m.Copy()
		defer func() {
			// a script that cannot be applied to this particular response leaves it honest
			if p := recover(); p != nil {
				out = honest
			}
		}()
		for _, t := range ts {
			m = s.apply(t, q, m)
		}
		return m
	}})
}

// l3 tamper <server> <kind> <arg|-> <scope>
func sysTamper(f []string) vlib.Res {
	if sys == nil {
		return vlib.Res{Impl: "no-world"}
	}
	if sys.srv[f[2]] == nil {
		return vlib.Res{Impl: "no-such-server"}
	}
	sys.tampers[f[2]] = append(sys.tampers[f[2]], tamper{kind: f[3], arg: f[4], scope: f[5]})
	sys.tampered = true
	sys.install(f[2])
	return vlib.Res{Impl: "ok"}
}

// l3 advance <seconds>: the virtual clock of every cache moves on
func sysAdvance(f []string) vlib.Res {
	if sys == nil {
		return vlib.Res{Impl: "no-world"}
	}
	sys.p.Advance(time.Duration(vlib.Atoi(f[2])) * time.Second)
	return vlib.Res{Impl: "ok"}
}

// l3 ta publish <a|ab|abr|ar>   what the root publishes as its DNSKEY RRset from now on: anchor A alone, A and B,
//
//	A and B with the REVOKE bit (self-signed by B as RFC 5011 §2.1 demands)
//
// l3 ta refresh                 one run of the background trust-anchor worker (Resolver.AutoTA)
// l3 ta live                    the live trust set, judged: a revocation once observed is final
func sysTA(f []string) vlib.Res {
	if sys == nil || sys.taB == nil {
		return vlib.Res{Impl: "no-ta-world"}
	}
	root := sys.w.Root
	a := root.Keys[0]
	revB := &l3.KeyPair{Key: dns.Copy(sys.taB.Key).(*dns.DNSKEY), Priv: sys.taB.Priv}
	revB.Key.Flags |= 128
	inLive := func(k *dns.DNSKEY) bool {
		for _, rr := range resolver.VerifRootKeys(sys.p.Resolver) {
			if d, ok := rr.(*dns.DNSKEY); ok && d.PublicKey == k.PublicKey {
				return true
			}
		}
		return false
	}
	switch f[2] {
	case "publish":
		root.Remove(".", dns.TypeDNSKEY)
		sys.taPub = f[3]
		switch f[3] {
		case "a":
			root.AddRR(a.Key)
		case "ab":
			root.AddRR(a.Key, sys.taB.Key)
		case "abr", "ar":
			root.AddRR(a.Key, revB.Key)
		}
		sys.tampered = true
		sys.srv["root"].SetBehaviour(l3.Behaviour{Tamper: func(q dns.Question, m *dns.Msg, tcp bool) *dns.Msg {
			if q.Qtype == dns.TypeDNSKEY && q.Name == "." && (sys.taPub == "abr" || sys.taPub == "ar") {
				var set []dns.RR
				for _, rr := range m.Answer {
					if rr.Header().Rrtype == dns.TypeDNSKEY {
						set = append(set, rr)
					}
				}
				if len(set) > 0 {
					m.Answer = append(m.Answer, signWith(revB, ".", set, time.Now().Add(-time.Hour), time.Now().Add(24*time.Hour)))
				}
			}
			return m
		}})
		return vlib.Res{Impl: "ok"}
	case "refresh":
		hadA := inLive(a.Key)
		sys.p.Resolver.AutoTA()
		if hadA && (sys.taPub == "abr" || sys.taPub == "ar") {
			sys.taRevSeen = true
		}
		return vlib.Res{Impl: "ok"}
	case "live":
		impl := fmt.Sprintf("a=%s b=%s", vlib.B(inLive(a.Key)), vlib.B(inLive(sys.taB.Key)))
		or := "ok"
		if sys.taRevSeen && inLive(sys.taB.Key) {
			or = fail("l3/ta/revoked-anchor-still-live", "published=%s", sys.taPub)
		}
		if !inLive(a.Key) && !sys.noAnchor {
			or = fail("l3/ta/anchor-that-signs-the-root-dropped", "")
		}
		return vlib.Res{Impl: impl, Oracle: or, Tags: "nt"}
	}
	return vlib.Res{Impl: "bad-op"}
}

func sysAnchors(f []string) vlib.Res {
	if sys == nil {
		return vlib.Res{Impl: "no-world"}
	}
	resolver.VerifSetRootKeys(sys.p.Resolver, nil)
	sys.noAnchor = true
	sys.cleared = true
	return vlib.Res{Impl: "ok"}
}

// ------------------------------------------------------------------ queries and the oracle

var qtypes = map[string]uint16{"A": dns.TypeA, "AAAA": dns.TypeAAAA, "TXT": dns.TypeTXT, "MX": dns.TypeMX, "DS": dns.TypeDS,
	"DNSKEY": dns.TypeDNSKEY, "SOA": dns.TypeSOA, "NS": dns.TypeNS, "CNAME": dns.TypeCNAME}

func stripSigs(rrs []dns.RR) []dns.RR {
	var out []dns.RR
	for _, rr := range rrs {
		if rr.Header().Rrtype != dns.TypeRRSIG {
			out = append(out, rr)
		}
	}
	return out
}

func sameRRs(a, b []dns.RR) bool {
	x, y := l3.SortRRs(a), l3.SortRRs(b)
	if len(x) != len(y) {
		return false
	}
	for i := range x {
		if x[i] != y[i] {
			return false
		}
	}
	return true
}

// l3 q <name> <type> <flags>      flags: letters of d(DO) c(CD) a(AD) n(no EDNS) t(tcp), or "-"
func sysQuery(f []string) vlib.Res {
	if sys == nil {
		return vlib.Res{Impl: "no-world"}
	}
	name, qt := f[2], qtypes[f[3]]
	fl := l3.Flags{DO: strings.Contains(f[4], "d"), CD: strings.Contains(f[4], "c"), AD: strings.Contains(f[4], "a"),
		NoEDNS: strings.Contains(f[4], "n")}
	if strings.Contains(f[4], "t") {
		fl.Proto = "tcp"
	}
	if strings.Contains(f[4], "h") {
		fl.Proto = "doh"
	}
	if fl.NoEDNS {
		fl.DO = false
	}
	var r *dns.Msg
	if strings.Contains(f[4], "w") {
		r = sys.queryWire(name, qt, fl) // the server's own ingress shape: undecoded request, byte-sink writer
	} else {
		r = sys.p.Query(name, qt, fl)
	}
	tr := sys.w.Truth(name, qt)
	if os.Getenv("C01_DUMP") != "" && r != nil {
		fmt.Fprintf(os.Stderr, "DUMP %s %s %s\n%s\n", name, f[3], f[4], r.String())
	}
	// an answer validated while the anchors were live may still be served from cache after their loss;
	// a FRESH question may not be answered positively at all
	if sys.asked == nil {
		sys.asked = map[string]bool{}
	}
	key := func(n string, t uint16) string { return strings.ToLower(n) + "/" + fmt.Sprint(t) }
	// (DS / DNSKEY / NS RRsets of the zones on a path are fetched and cached by the resolver itself)
	knownBefore := sys.asked[key(name, qt)] || qt == dns.TypeDS || qt == dns.TypeDNSKEY || qt == dns.TypeNS
	if !sys.noAnchor {
		sys.asked[key(name, qt)] = true
		for _, rr := range tr.Answer {
			if c, ok := rr.(*dns.CNAME); ok {
				sys.asked[key(c.Target, qt)] = true
			}
		}
	}
	tags := []string{"nt", "st:" + tr.Status, "k:" + tr.Kind}
	if sys.tampered {
		tags = append(tags, "tampered")
		for srv, ts := range sys.tampers {
			for _, t := range ts {
				tags = append(tags, "tk:"+t.kind+"@"+srv)
			}
		}
	}
	if r == nil {
		return vlib.Res{Impl: "noreply", Oracle: fail("l3/no-reply", "%s %s", name, f[3]), Tags: strings.Join(tags, ",")}
	}
	ans := stripSigs(r.Answer)
	ede := edeOf(r)
	var shape []string
	for _, rr := range ans {
		shape = append(shape, strings.ToLower(rr.Header().Name)+"/"+dns.TypeToString[rr.Header().Rrtype])
	}
	impl := fmt.Sprintf("rcode=%s ad=%s ans=%d ede=%s truth=%s/%s answer=[%s]", dns.RcodeToString[r.Rcode], vlib.B(r.AuthenticatedData), len(ans), ede, tr.Kind, tr.Status, strings.Join(shape, ","))
	isTruth := r.Rcode == tr.Rcode && sameRRs(ans, tr.Answer)
	allPublished := true
	for _, rr := range ans {
		if !sys.w.Published(rr) {
			allPublished = false
		}
	}
	// a proper prefix of the honest alias chain (CNAMEs only, all published): the terminal RRset is missing
	partialChain := false
	if !isTruth && r.Rcode == dns.RcodeSuccess && len(ans) > 0 && len(ans) < len(tr.Answer) && allPublished {
		partialChain = sameRRs(ans, tr.Answer[:len(ans)])
		for _, rr := range ans {
			if rr.Header().Rrtype != dns.TypeCNAME {
				partialChain = false
			}
		}
	}
	servfail := r.Rcode == dns.RcodeServerFailure
	// a data-less error reply other than SERVFAIL (FORMERR, NOTIMP … relayed from upstream) tells the
	// client nothing about the name: it is a failure, not data and not a denial
	otherError := r.Rcode != dns.RcodeSuccess && r.Rcode != dns.RcodeNameError && !servfail && len(ans) == 0 && !r.AuthenticatedData
	wantsAD := fl.DO || fl.AD
	var v []string
	add := func(sig, format string, a ...any) { v = append(v, fail(sig, format, a...)) }
	sort.Strings(tags)

	// AD discipline: never toward CD / without DO|AD; only over authentic published data of a secure chain
	if r.AuthenticatedData {
		switch {
		case fl.CD:
			add("l3/ad/set-for-cd-client", "%s %s", name, f[3])
		case !wantsAD:
			add("l3/ad/set-without-do-or-ad", "%s %s", name, f[3])
		case sys.noAnchor && !(sys.cleared && isTruth && (knownBefore || tr.Kind == "nxdomain" || tr.Kind == "nodata")):
			// (… or a denial synthesised from NSEC proofs validated before it — RFC 8198)
			// (after a mid-history loss of the anchors an answer validated earlier may still be served from cache)
			add("l3/ad/set-without-trust-anchor", "%s %s", name, f[3])
		case tr.Status != l3.Secure:
			add("l3/ad/set-for-"+tr.Status+"-zone", "%s %s", name, f[3])
		case partialChain:
			// judged below (secure/partial-alias-chain…): every RRset present is authentic
		case !isTruth:
			add("l3/ad/set-on-data-the-zone-did-not-publish", "%s %s got=%v", name, f[3], l3.SortRRs(ans))
		}
	}
	// nothing is served (least of all with AD) after the signatures that prove it have lapsed — on the clock the
	// caches live by (real time + the emulated advance)
	if tr.Status == l3.Secure && !fl.CD && !servfail {
		vnow := time.Now().Add(sys.p.Offset).Unix()
		for _, sec := range [][]dns.RR{r.Answer, r.Ns} {
			for _, rr := range sec {
				if sg, ok := rr.(*dns.RRSIG); ok && int64(sg.Expiration) < vnow-1 {
					add("l3/secure/served-past-signature-expiration", "%s %s covered=%d lapsed=%ds ad=%v", name, f[3], sg.TypeCovered, vnow-int64(sg.Expiration), r.AuthenticatedData)
				}
			}
		}
	}
	// the authority section of a reply about a secure name carries only what a zone publishes (its SOA / NS, denial
	// records aside): nothing unsigned and foreign may ride along, least of all under AD
	if tr.Status == l3.Secure && !fl.CD && !servfail {
		for _, rr := range r.Ns {
			switch rr.Header().Rrtype {
			case dns.TypeRRSIG, dns.TypeNSEC, dns.TypeNSEC3:
				continue
			}
			if !sys.w.Published(rr) {
				add("l3/secure/unpublished-record-in-authority-section", "%s %s ad=%v rr=%s", name, f[3], r.AuthenticatedData, strings.ReplaceAll(rr.String(), "\t", " "))
			}
		}
	}
	if servfail {
		if len(ans) > 0 {
			add("l3/servfail/carries-answer-records", "%s %s", name, f[3])
		}
		if !fl.NoEDNS && ede == "none" {
			add("l3/servfail/no-ede-for-edns-client", "%s %s", name, f[3])
		}
		if fl.NoEDNS && r.IsEdns0() != nil {
			add("l3/servfail/opt-toward-non-edns-client", "%s %s", name, f[3])
		}
	}
	if !fl.CD {
		switch {
		case sys.noAnchor:
			// (cached: asked before the loss; or a denial synthesised from proofs validated before it)
			fromCache := sys.cleared && ((isTruth && (knownBefore || tr.Kind == "nxdomain" || tr.Kind == "nodata")) ||
				(knownBefore && tr.Status != l3.Secure))
			if !servfail && !otherError && !fromCache {
				add("l3/no-anchor/answered-without-trust-anchor", "%s %s rcode=%s ans=%v", name, f[3], dns.RcodeToString[r.Rcode], l3.SortRRs(ans))
			}
		case tr.Status == l3.Secure:
			if !servfail && !otherError && !isTruth {
				reason := "altered-data"
				switch {
				case len(ans) == 0 && r.Rcode == dns.RcodeNameError:
					reason = "unproven-nxdomain" // the name exists (or the honest denial is another one)
				case len(ans) == 0 && r.Rcode == dns.RcodeSuccess:
					reason = "unproven-nodata"
				case sameRRs(ans, tr.Answer):
					reason = "wrong-rcode"
				case partialChain:
					reason = "partial-alias-chain-instead-of-servfail"
				case allPublished:
					reason = "incomplete-or-foreign-published-data"
				}
				if onlyTamper(sys, "evilkey") {
					reason += "/dnskey-rrset-signed-by-unanchored-key"
				}
				add("l3/secure/"+reason, "%s %s rcode=%s got=%v want=%s %v", name, f[3], dns.RcodeToString[r.Rcode], l3.SortRRs(ans), dns.RcodeToString[tr.Rcode], l3.SortRRs(tr.Answer))
			}
		case tr.Status == l3.Bogus:
			if !servfail && !otherError {
				add("l3/bogus/answered", "%s %s rcode=%s", name, f[3], dns.RcodeToString[r.Rcode])
			}
		}
	}
	// an untouched world must simply work (over-strictness is a different failure)
	// (EDE 22 "no reachable authority" / 23 "network error": a loopback exchange timed out on a loaded machine — not judged)
	environmental := servfail && (ede == "22" || ede == "23")
	if !sys.tampered && !sys.noAnchor && tr.Kind != "lame" && tr.Kind != "loop" && !environmental {
		switch {
		case tr.Status == l3.Bogus && !fl.CD:
		case !isTruth:
			add("l3/honest/valid-chain-not-answered", "%s %s status=%s rcode=%s got=%v", name, f[3], tr.Status, dns.RcodeToString[r.Rcode], l3.SortRRs(ans))
		case tr.Status == l3.Secure && !fl.CD && wantsAD && !r.AuthenticatedData:
			add("l3/honest/ad-missing-on-validated-answer", "%s %s", name, f[3])
		}
	}
	// an insecure zone is not DNSSEC's business: whatever unsigned reply its server gives must still be relayed
	if tr.Status == l3.Insecure && sys.spec["zone"] == "i" && servfail && !sys.noAnchor && len(tr.AuthZone) == 1 && tr.AuthZone[0] == "zone.test." &&
		(onlyTamper(sys, "nxdomain-forge") || onlyTamper(sys, "nodata-forge") || onlyTamper(sys, "forge-answer")) && len(sys.tampers["zone"]) > 0 && len(sys.tampers) == 1 {
		add("l3/insecure/unsigned-reply-of-insecure-zone-refused", "%s %s", name, f[3])
	}
	or := "ok"
	if len(v) > 0 {
		or = v[0]
	}
	return vlib.Res{Impl: impl, Oracle: or, Tags: strings.Join(tags, ",")}
}

// queryWire sends the query the way the UDP/TCP listeners do: parsed from the wire, never decoded
// unless a handler asks, answered through a writer that accepts packed bodies.
var wireID uint16

func (s *sysWorld) queryWire(name string, qtype uint16, f l3.Flags) *dns.Msg {
	req := new(dns.Msg)
	req.SetQuestion(dns.Fqdn(name), qtype)
	wireID += 7919
	req.Id = wireID
	req.RecursionDesired = true
	req.CheckingDisabled = f.CD
	req.AuthenticatedData = f.AD
	if !f.NoEDNS {
		req.SetEdns0(1232, f.DO)
	}
	raw, err := req.Pack()
	if err != nil {
		panic(err)
	}
	var rq middleware.Request
	if !rq.ParseWire(raw, time.Now(), nil) {
		panic("ParseWire refused a packed query")
	}
	proto := f.Proto
	if proto == "" {
		proto = "udp"
	}
	w := mock.NewWriter(proto, "10.1.2.3:4242")
	ch := s.p.P.NewChain()
	defer s.p.P.PutChain(ch)
	ch.ResetWire(w, &rq)
	ch.AllowDirectPack()
	ctx, cancel := context.WithTimeout(context.Background(), s.p.Cfg.QueryTimeout.Duration+2*time.Second)
	defer cancel()
	ch.Next(ctx)
	if !w.Written() {
		return nil
	}
	return w.Msg()
}

// onlyTamper: every script installed in this world is of the given kind.
func onlyTamper(s *sysWorld, kind string) bool {
	n := 0
	for _, ts := range s.tampers {
		for _, t := range ts {
			if t.kind != kind {
				return false
			}
			n++
		}
	}
	return n > 0
}

// ------------------------------------------------------------------ generator

type sysQ struct{ name, typ string }

func genL3(r *vlib.R, emit func(string)) int {
	n := 0
	e := func(s string) { emit(s); n++ }
	alg := vlib.Pick(r, []int{13, 13, 15, 8})
	zone := vlib.Pick(r, []string{"s", "s", "s", "s", "i", "b"})
	subk := vlib.Pick(r, []string{"-", "s", "i", "i", "b"})
	same := vlib.B(r.Bool())
	keys := "std"
	if zone == "s" {
		keys = vlib.Pick(r, []string{"std", "std", "pairkz", "pairkk", "twoksk", "dsextra", "dsmixed", "dsmixed"})
	}
	anchors := "t"
	if r.Chance(1, 12) {
		anchors = "f"
	}
	isigned := vlib.B(r.Bool())
	// parent and child on one server. Not combined with an insecure zone.test.: there the resolver crosses an
	// unsigned cut without seeing a referral and answers SERVFAIL although nothing is wrong (fail-closed
	// over-strictness outside this property; see notes/C01.md).
	zsame := vlib.B(zone != "i" && r.Chance(1, 4))
	if r.Chance(1, 12) {
		// RFC 5011 histories of a second configured anchor: present / missing / revoked, in any order, refresh after each
		e(fmt.Sprintf("l3 new alg=%d zone=s isigned=f zsame=f sub=- same=f keys=std anchors=t qmin=0 ta=t", alg))
		e("l3 q www.zone.test. A d")
		steps := 2 + r.Intn(3)
		for i := 0; i < steps; i++ {
			e("l3 ta publish " + vlib.Pick(r, []string{"a", "a", "ab", "abr", "abr"}))
			e("l3 ta refresh")
			if r.Bool() {
				e("l3 ta refresh")
			}
			e("l3 ta live")
		}
		e("l3 q txt.zone.test. TXT d")
		e("l3 ta live")
		return n
	}
	qmin := vlib.Pick(r, []int{0, 0, 0, 1, 2, 3, 5})
	e(fmt.Sprintf("l3 new alg=%d zone=%s isigned=%s zsame=%s sub=%s same=%s keys=%s anchors=%s qmin=%d", alg, zone, isigned, zsame, subk, same, keys, anchors, qmin))

	qs := []sysQ{{"www.zone.test.", "A"}, {"alias.zone.test.", "A"}, {"xalias.zone.test.", "A"}, {"ialias.zone.test.", "A"}, {"lalias.zone.test.", "A"},
		{"x.w.zone.test.", "TXT"}, {"a.b.w.zone.test.", "TXT"}, {"real.w.zone.test.", "TXT"}, {"real.w.zone.test.", "TXT"}, {"txt.zone.test.", "TXT"}, {"nope.zone.test.", "A"},
		{"www.zone.test.", "AAAA"}, {"deep.a.b.zone.test.", "A"}, {"mx.zone.test.", "MX"},
		{"www.d.zone.test.", "A"}, {"victim.d.zone.test.", "A"}, {"www.d.zone.test.", "A"}, {"nope.d.zone.test.", "A"}, {"www.d.zone.test.", "AAAA"},
		{"www.di.zone.test.", "A"}, {"nope.di.zone.test.", "A"}, {"www.di.zone.test.", "AAAA"}, {"nope.di.zone.test.", "TXT"}, {"zone.test.", "DS"}, {"zone.test.", "DNSKEY"}, {"zone.test.", "SOA"}, {"www.other.test.", "A"}, {"www.plain.test.", "A"},
		{"x.w.zone.test.", "A"}, {"test.", "SOA"}, {".", "SOA"}, {"nonexistent-tld.", "A"}}
	if subk != "-" {
		qs = append(qs, sysQ{"www.sub.zone.test.", "A"}, sysQ{"alias.sub.zone.test.", "A"}, sysQ{"txt.sub.zone.test.", "TXT"},
			sysQ{"nope.sub.zone.test.", "A"}, sysQ{"sub.zone.test.", "DS"})
	}
	flagSets := []string{"d", "d", "d", "d", "-", "-", "a", "dc", "c", "n", "n", "da", "dca", "dt", "ac", "at", "dw", "dw", "w", "aw", "dwt", "dcw", "nw", "dh", "ah", "h"}
	var focus []sysQ // names whose resolution crosses a scripted server
	ask := func(k int) {
		for i := 0; i < k; i++ {
			q := vlib.Pick(r, qs)
			if len(focus) > 0 && r.Chance(3, 4) {
				q = vlib.Pick(r, focus)
			}
			fl := vlib.Pick(r, flagSets)
			e(fmt.Sprintf("l3 q %s %s %s", q.name, q.typ, fl))
			fl2 := fl
			if r.Chance(1, 3) {
				fl2 = vlib.Pick(r, flagSets) // the cached copy is asked for with other flags
			} else if r.Chance(1, 3) && !strings.Contains(fl2, "w") {
				fl2 += "w" // … or over the byte path (cache-contained wire serving / wire chase)
			}
			e(fmt.Sprintf("l3 q %s %s %s", q.name, q.typ, fl2))
		}
	}
	if r.Chance(1, 3) {
		ask(1 + r.Intn(3)) // fill caches honestly first
	}
	nt := 1 + r.Intn(2)
	if r.Chance(1, 7) {
		nt = 0
	}
	if r.Chance(1, 10) {
		nt = 3
	}
	servers := []string{"root", "tld", "zone", "zone", "zone", "other", "plain"}
	if subk != "-" {
		servers = append(servers, "sub", "sub")
	}
	type tk struct{ kind, arg, scope string }
	kinds := []tk{{"flipdata", "-", "data"}, {"flipdata", "-", "all"}, {"flipauth", "-", "all"}, {"flipsig", "-", "data"}, {"flipsig", "-", "dnskey"},
		{"flipsig", "-", "all"}, {"signer", "other.test.", "data"}, {"signer", "sub.zone.test.", "data"}, {"signer", "test.", "data"},
		{"signer", "evilzone.test.", "data"}, {"signer", "e.test.", "notkey"}, {"signer", ".", "data"},
		{"labels", "+1", "data"}, {"labels", "-1", "data"}, {"expired", "-", "data"}, {"notyet", "-", "data"},
		{"resign-expired", "-", "data"}, {"resign-expired", "-", "all"}, {"resign-notyet", "-", "data"}, {"resign-valid", "-", "data"},
		{"dropsigs", "-", "data"}, {"dropsigs", "-", "all"}, {"dropsigs-answer", "-", "data"}, {"dropds", "-", "all"}, {"dropds", "-", "notkey"},
		{"swapds", "-", "all"}, {"stripnsec", "-", "all"}, {"stripnsec", "-", "data"}, {"inject-answer", "-", "data"},
		{"inject-answer-front", "-", "data"}, {"inject-ns", "-", "data"}, {"inject-extra", "-", "data"}, {"inject-inzone", "-", "data"},
		{"addrr", "-", "data"}, {"nodata-forge", "-", "data"}, {"nxdomain-forge", "-", "data"}, {"forge-answer", "-", "data"},
		{"evilkey", "plain", "all"}, {"evilkey", "keepsig", "all"}, {"evilkey", "replace", "all"},
		{"replay-old", "-", "data"}, {"replay-old", "90", "data"}, {"replay-old", "20", "data"}, {"replay-old", "280", "data"}, {"replay-old", "1000", "data"},
		{"resign-expired", "60", "data"}, {"resign-expired", "200", "all"}, {"resign-notyet", "60", "data"}, {"resign-notyet", "250", "data"}, {"ds-to-soa", "-", "all"}, {"ds-to-nsec", "-", "all"}, {"ds-to-nssig", "-", "all"},
		{"wildcard-replay", "-", "data"}, {"wildcard-replay", "foreign", "data"}, {"wildcard-replay", "foreign", "data"}, {"wildcard-replay", "foreign-root", "data"},
		{"wildcard-replay", "inzone", "data"}, {"wildcard-replay", "foreignsig", "data"}, {"ds-childside", "-", "all"},
		{"rcode", "2", "data"}, {"rcode", "1", "data"}, {"rcode", "4", "data"}, {"rcode", "5", "data"}, {"rcode", "9", "data"}, {"rcode", "3", "all"},
		{"inject-auth", "ns-inzone", "data"}, {"inject-auth", "ns-inzone", "all"}, {"inject-auth", "ns-inzone-sig", "data"},
		{"inject-auth", "a", "data"}, {"inject-auth", "soa", "data"}, {"inject-auth", "txt-root", "data"}, {"inject-auth", "a", "all"},
		{"parent-denial", "-", "data"}, {"parent-denial", "-", "data"},
		{"nodata-replay", "ns", "data"}, {"nodata-replay", "txt", "data"}, {"nodata-replay", "nsec", "data"}, {"nodata-replay", "soansec", "data"},
		{"nodata-replay", "ns", "data"}, {"sigfield", "alg16", "data"}, {"sigfield", "alg12", "all"}, {"sigfield", "alg1", "data"}, {"sigfield", "alg253", "notkey"}, {"sigfield", "tag", "data"},
		{"sigfield", "signer-qname", "data"}, {"sigfield", "signer-qname", "data"}, {"sigfield", "signer-mid", "data"}, {"sigfield", "signer-qname", "notkey"},
		{"sigfield", "covered", "data"}, {"sigfield", "origttl", "data"}, {"sigfield", "alg16", "notkey"},
		{"dname-retarget", "evil", "data"}, {"dname-retarget", "evil", "data"}, {"dname-retarget", "insert", "data"}, {"ds-replay-nsec", "-", "all"},
		{"padkey", "denyds", "all"}, {"padkey", "data", "all"}, {"padkey", "deny", "all"}, {"padkey", "data", "all"}}
	if keys == "pairkk" {
		kinds = append(kinds, tk{"clonekey", "-", "all"}, tk{"clonekey", "-", "all"}, tk{"evilkey", "sametag", "all"}, tk{"evilkey", "sametag", "all"})
	}
	if zone == "s" && r.Chance(1, 6) {
		// downgrade attempts: the parent's referral loses the DS in some way AND the child serves forged unsigned data
		nt = 0
		how := vlib.Pick(r, []string{"dropds", "ds-to-nssig", "ds-to-nssig", "ds-to-soa", "ds-to-nsec", "swapds", "ds-childside", "ds-childside", "ds-replay-nsec", "ds-replay-nsec", "padkey", "padkey", "padkey"})
		parent := "tld"
		if zsame == "t" {
			parent = "zone"
		}
		if how == "padkey" {
			e(fmt.Sprintf("l3 tamper %s padkey denyds all", parent))
		} else {
			e(fmt.Sprintf("l3 tamper %s %s - all", parent, how))
		}
		e(fmt.Sprintf("l3 tamper zone %s - data", vlib.Pick(r, []string{"forge-answer", "forge-answer", "dropsigs", "replay-old"})))
		for _, q := range qs {
			if strings.HasSuffix(q.name, "zone.test.") && !strings.HasSuffix(q.name, "sub.zone.test.") {
				focus = append(focus, q)
			}
		}
	}
	for i := 0; i < nt; i++ {
		k := vlib.Pick(r, kinds)
		srv := vlib.Pick(r, servers)
		if k.kind == "evilkey" || k.kind == "clonekey" || k.kind == "wildcard-replay" || k.kind == "dname-retarget" {
			srv = "zone"
		}
		if k.kind == "dropds" || k.kind == "swapds" || k.kind == "ds-to-soa" || k.kind == "ds-to-nsec" || k.kind == "ds-to-nssig" || k.kind == "ds-childside" || k.kind == "ds-replay-nsec" {
			srv = vlib.Pick(r, []string{"tld", "tld", "zone", "root"})
		}
		e(fmt.Sprintf("l3 tamper %s %s %s %s", srv, k.kind, k.arg, k.scope))
		for _, q := range qs {
			under := func(z string) bool { return strings.HasSuffix(q.name, z) }
			switch srv {
			case "sub":
				if under("sub.zone.test.") {
					focus = append(focus, q)
				}
			case "other":
				if under("other.test.") || strings.HasPrefix(q.name, "xalias.") {
					focus = append(focus, q)
				}
			case "plain":
				if under("plain.test.") || strings.HasPrefix(q.name, "ialias.") {
					focus = append(focus, q)
				}
			default:
				if under("zone.test.") && !under("sub.zone.test.") {
					focus = append(focus, q)
				}
			}
		}
	}
	shortLived := false
	if zone == "s" && r.Chance(1, 8) {
		// a zone signing with short lifetimes: answers and denials are cached, the clock passes the expiration, the same is asked again
		shortLived = true
		left := vlib.Pick(r, []int{20, 30, 45})
		e(fmt.Sprintf("l3 tamper zone resign-short %d %s", left, vlib.Pick(r, []string{"data", "data", "notkey"})))
		var asked []sysQ
		for i := 0; i < 3+r.Intn(3); i++ {
			q := vlib.Pick(r, []sysQ{{"nope.zone.test.", "A"}, {"nope2.zone.test.", "TXT"}, {"www.zone.test.", "AAAA"}, {"www.zone.test.", "A"}, {"txt.zone.test.", "TXT"},
				{"x.w.zone.test.", "TXT"}, {"x.w.zone.test.", "A"}, {"alias.zone.test.", "A"}, {"mx.zone.test.", "MX"}})
			asked = append(asked, q)
			e(fmt.Sprintf("l3 q %s %s d", q.name, q.typ))
		}
		e(fmt.Sprintf("l3 advance %d", left+vlib.Pick(r, []int{5, 20, 60})))
		for _, q := range asked {
			e(fmt.Sprintf("l3 q %s %s %s", q.name, q.typ, vlib.Pick(r, []string{"d", "d", "da", "dw"})))
		}
	}
	if anchors == "t" && r.Chance(1, 7) {
		// anchor loss in mid-history: the cuts (secure and insecure) are cached, then fresh names are asked
		focus = nil
		ask(2 + r.Intn(3))
		e("l3 anchors clear")
		for i := 0; i < 3+r.Intn(4); i++ {
			q := vlib.Pick(r, qs)
			e(fmt.Sprintf("l3 q %s %s %s", q.name, q.typ, vlib.Pick(r, []string{"d", "d", "-", "da", "n", "dw", "dc"})))
		}
	}
	if zone == "s" && r.Chance(1, 8) {
		// the CD partitions of the cache: checking-disabled questions for the key material of the zones on the path
		// are answered (and cached) unvalidated while a script pads / replaces it; the validating questions that
		// follow must still rest on keys the validator authenticated itself
		parent := "tld"
		if zsame == "t" {
			parent = "zone"
		}
		switch r.Intn(6) {
		case 0, 1:
			e(fmt.Sprintf("l3 tamper zone padkey %s all", vlib.Pick(r, []string{"data", "data", "deny"})))
		case 2:
			e(fmt.Sprintf("l3 tamper %s padkey denyds all", parent))
			e(fmt.Sprintf("l3 tamper zone %s - data", vlib.Pick(r, []string{"forge-answer", "dropsigs"})))
		case 3:
			e(fmt.Sprintf("l3 tamper zone evilkey %s all", vlib.Pick(r, []string{"plain", "keepsig", "replace"})))
		case 4:
			e(fmt.Sprintf("l3 tamper %s %s - all", parent, vlib.Pick(r, []string{"dropds", "ds-to-nssig", "ds-to-nsec", "ds-replay-nsec"})))
			e("l3 tamper zone forge-answer - data")
		case 5:
			e("l3 tamper zone dropsigs - all")
		}
		prime := []sysQ{{"zone.test.", "DNSKEY"}, {"zone.test.", "DS"}, {"test.", "DNSKEY"}, {"www.zone.test.", "A"}}
		if subk == "s" {
			prime = append(prime, sysQ{"sub.zone.test.", "DS"}, sysQ{"sub.zone.test.", "DNSKEY"})
		}
		for i := 0; i < 2+r.Intn(3); i++ {
			q := prime[i%len(prime)]
			if r.Chance(1, 4) {
				q = vlib.Pick(r, prime)
			}
			e(fmt.Sprintf("l3 q %s %s %s", q.name, q.typ, vlib.Pick(r, []string{"dc", "dc", "c", "dcw", "cw", "dca"})))
		}
		for i := 0; i < 3+r.Intn(3); i++ {
			q := vlib.Pick(r, []sysQ{{"www.zone.test.", "A"}, {"txt.zone.test.", "TXT"}, {"mx.zone.test.", "MX"}, {"alias.zone.test.", "A"},
				{"zone.test.", "DNSKEY"}, {"zone.test.", "DS"}, {"nope.zone.test.", "A"}, {"x.w.zone.test.", "TXT"}})
			e(fmt.Sprintf("l3 q %s %s %s", q.name, q.typ, vlib.Pick(r, []string{"d", "d", "da", "dw", "-", "a"})))
		}
	}
	// (not in a world that signs with short lifetimes: the caches measure a signature's remaining life on the real
	// clock, the emulated advance only ages what is stored — a response fetched AFTER an advance and aged by a second
	// one would look "served past expiration" although no real clock ever passed it)
	if !shortLived && r.Chance(1, 8) {
		// an alias answered from the cache whose target has to be fetched again — and that fetch fails: the alias
		// outlives the record it points to, the target's zone starts failing validation, the clock passes the TTL
		al := vlib.Pick(r, []string{"lalias.zone.test.", "lalias.zone.test.", "lalias.zone.test.", "xalias.zone.test."})
		e(fmt.Sprintf("l3 q %s A %s", al, vlib.Pick(r, []string{"d", "d", "-", "dw", "n"})))
		k := vlib.Pick(r, []tk{{"flipsig", "-", "all"}, {"flipsig", "-", "data"}, {"expired", "-", "all"}, {"dropsigs", "-", "all"}, {"flipdata", "-", "data"},
			{"rcode", "5", "data"}, {"rcode", "2", "data"}, {"rcode", "2", "all"}, {"signer", "evilzone.test.", "data"}, {"sigfield", "alg16", "data"}, {"resign-expired", "-", "data"}})
		e(fmt.Sprintf("l3 tamper other %s %s %s", k.kind, k.arg, k.scope))
		e(fmt.Sprintf("l3 advance %d", vlib.Pick(r, []int{25, 40, 120, 400})))
		for i := 0; i < 2+r.Intn(3); i++ {
			e(fmt.Sprintf("l3 q %s A %s", al, vlib.Pick(r, []string{"d", "d", "-", "dw", "w", "n", "nw", "da", "dt", "dh"})))
		}
	}
	if r.Chance(1, 7) {
		// names below a denied name: once a validated NXDOMAIN is cached, its descendants are answered from it
		// (RFC 8020) — on the byte path too, and toward clients that asked for no DNSSEC at all
		base := vlib.Pick(r, []string{"nope.zone.test.", "nope.zone.test.", "nope.other.test.", "nope.a.b.zone.test.", "nope.d.zone.test.", "nonexistent-tld."})
		if subk != "-" && r.Chance(1, 4) {
			base = "nope.sub.zone.test."
		}
		e(fmt.Sprintf("l3 q %s A %s", base, vlib.Pick(r, []string{"d", "d", "-", "da", "dw", "n"})))
		for i := 0; i < 3+r.Intn(4); i++ {
			lbl := vlib.Pick(r, []string{"a.", "b.", "x.y.", "c.", "www.", "p.q.r."})
			e(fmt.Sprintf("l3 q %s%s %s %s", lbl, base, vlib.Pick(r, []string{"A", "A", "AAAA", "TXT", "MX"}),
				vlib.Pick(r, []string{"w", "w", "nw", "nw", "aw", "cw", "dw", "tw", "ntw", "-", "n", "h", "d", "dcw"})))
		}
	}
	ask(2 + r.Intn(4))
	return n
}
