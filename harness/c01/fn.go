//go:build verif

package main

import (
	"crypto/sha256"
	"encoding/base64"
	"encoding/hex"
	"errors"
	"fmt"
	"net"
	"sort"
	"strconv"
	"strings"
	"time"

	"github.com/miekg/dns"
	"github.com/semihalev/sdns/internal/verif/vlib"
	"github.com/semihalev/sdns/middleware/resolver/dnssec"
)

// ------------------------------------------------------------------ tokens

type kTok struct {
	id                            int
	owner                         string // name token
	cls, flags, proto, alg, tag   int
	pool                          int
}

type rTok struct {
	owner  string
	spell  int
	typ    int
	cls    int
	rd     int
	target string // name token or "-"
	rank   int
	orig   int // rdata identity when the signatures were made; -1 = the record did not exist then
}

type sTok struct {
	id                         int
	owner                      string
	cls, cov, alg, labels, ttl int
	exp, inc                   int64
	tag                        int
	signer                     string
	rank                       int
	by                         int // pool slot that made the signature; -1 = random bytes
	flip                       bool
	pre                        map[string]string // field values at signing time where they differ from the final ones
}

type rrCase struct {
	now    int64
	zone   string
	K      []*kTok
	A, N   []*rTok
	P      []*rTok // records that existed at signing time and were dropped afterwards (sec in target of pSec)
	pSec   []byte
	SA, SN []*sTok
	tv     map[[2]int]bool // (sig id, key id) -> library verdict
}

func itoa(i int) string { return strconv.Itoa(i) }

func list[T any](xs []T, f func(T) string) string {
	if len(xs) == 0 {
		return "-"
	}
	p := make([]string, len(xs))
	for i, x := range xs {
		p[i] = f(x)
	}
	return strings.Join(p, ",")
}

func splitList(s string) []string {
	if s == "-" || s == "" {
		return nil
	}
	return strings.Split(s, ",")
}

func (k *kTok) String() string {
	return strings.Join([]string{itoa(k.id), k.owner, itoa(k.cls), itoa(k.flags), itoa(k.proto), itoa(k.alg), itoa(k.tag), itoa(k.pool)}, "/")
}

func parseK(s string) *kTok {
	f := strings.Split(s, "/")
	return &kTok{id: vlib.Atoi(f[0]), owner: f[1], cls: vlib.Atoi(f[2]), flags: vlib.Atoi(f[3]), proto: vlib.Atoi(f[4]),
		alg: vlib.Atoi(f[5]), tag: vlib.Atoi(f[6]), pool: vlib.Atoi(f[7])}
}

func xint(i int) string {
	if i < 0 {
		return "x"
	}
	return itoa(i)
}

func parseX(s string) int {
	if s == "x" {
		return -1
	}
	return vlib.Atoi(s)
}

func (r *rTok) String() string {
	return strings.Join([]string{r.owner, itoa(r.spell), itoa(r.typ), itoa(r.cls), itoa(r.rd), r.target, itoa(r.rank), xint(r.orig)}, "/")
}

func parseR(s string) *rTok {
	f := strings.Split(s, "/")
	return &rTok{owner: f[0], spell: vlib.Atoi(f[1]), typ: vlib.Atoi(f[2]), cls: vlib.Atoi(f[3]), rd: vlib.Atoi(f[4]),
		target: f[5], rank: vlib.Atoi(f[6]), orig: parseX(f[7])}
}

func (s *sTok) String() string {
	pre := "-"
	if len(s.pre) > 0 {
		var ks []string
		for k := range s.pre {
			ks = append(ks, k)
		}
		sort.Strings(ks)
		for i, k := range ks {
			ks[i] = k + ":" + s.pre[k]
		}
		pre = strings.Join(ks, ";")
	}
	return strings.Join([]string{itoa(s.id), s.owner, itoa(s.cls), itoa(s.cov), itoa(s.alg), itoa(s.labels), itoa(s.ttl),
		strconv.FormatInt(s.exp, 10), strconv.FormatInt(s.inc, 10), itoa(s.tag), s.signer, itoa(s.rank), xint(s.by), vlib.B(s.flip), pre}, "/")
}

func parseS(t string) *sTok {
	f := strings.Split(t, "/")
	s := &sTok{id: vlib.Atoi(f[0]), owner: f[1], cls: vlib.Atoi(f[2]), cov: vlib.Atoi(f[3]), alg: vlib.Atoi(f[4]),
		labels: vlib.Atoi(f[5]), ttl: vlib.Atoi(f[6]), exp: vlib.AtoI64(f[7]), inc: vlib.AtoI64(f[8]), tag: vlib.Atoi(f[9]),
		signer: f[10], rank: vlib.Atoi(f[11]), by: parseX(f[12]), flip: f[13] == "t", pre: map[string]string{}}
	if f[14] != "-" {
		for _, kv := range strings.Split(f[14], ";") {
			k, v, _ := strings.Cut(kv, ":")
			s.pre[k] = v
		}
	}
	return s
}

func (c *rrCase) opLine() string {
	var tv []string
	for k, v := range c.tv {
		if v {
			tv = append(tv, fmt.Sprintf("%d:%d", k[0], k[1]))
		}
	}
	sort.Strings(tv)
	tvs := "-"
	if len(tv) > 0 {
		tvs = strings.Join(tv, ",")
	}
	ps := make([]string, len(c.P))
	for i, p := range c.P {
		ps[i] = p.String() + "/" + string(c.pSec[i])
	}
	pl := "-"
	if len(ps) > 0 {
		pl = strings.Join(ps, ",")
	}
	return fmt.Sprintf("rrsig verify now=%d z=%s K=%s A=%s N=%s SA=%s SN=%s tv=%s P=%s", c.now, c.zone,
		list(c.K, (*kTok).String), list(c.A, (*rTok).String), list(c.N, (*rTok).String),
		list(c.SA, (*sTok).String), list(c.SN, (*sTok).String), tvs, pl)
}

func kv(f []string) map[string]string {
	m := map[string]string{}
	for _, w := range f {
		if k, v, ok := strings.Cut(w, "="); ok {
			m[k] = v
		}
	}
	return m
}

func parsePairs(s string) map[[2]int]bool {
	m := map[[2]int]bool{}
	for _, p := range splitList(s) {
		a, b, _ := strings.Cut(p, ":")
		m[[2]int{vlib.Atoi(a), vlib.Atoi(b)}] = true
	}
	return m
}

func parseRRCase(f []string) *rrCase {
	m := kv(f)
	c := &rrCase{now: vlib.AtoI64(m["now"]), zone: m["z"], tv: parsePairs(m["tv"])}
	for _, t := range splitList(m["K"]) {
		c.K = append(c.K, parseK(t))
	}
	for _, t := range splitList(m["A"]) {
		c.A = append(c.A, parseR(t))
	}
	for _, t := range splitList(m["N"]) {
		c.N = append(c.N, parseR(t))
	}
	for _, t := range splitList(m["SA"]) {
		c.SA = append(c.SA, parseS(t))
	}
	for _, t := range splitList(m["SN"]) {
		c.SN = append(c.SN, parseS(t))
	}
	for _, t := range splitList(m["P"]) {
		i := strings.LastIndexByte(t, '/')
		c.P = append(c.P, parseR(t[:i]))
		c.pSec = append(c.pSec, t[i+1])
	}
	return c
}

// ------------------------------------------------------------------ realisation

func digestHex(n int) string {
	h := sha256.Sum256([]byte(fmt.Sprintf("c01-digest-%d", n)))
	return strings.ToUpper(hex.EncodeToString(h[:]))
}

// mkRR builds the real record for an abstract one.
func mkRR(owner string, typ, cls, rd int, target string) dns.RR {
	h := dns.RR_Header{Name: owner, Rrtype: uint16(typ), Class: uint16(cls), Ttl: 300}
	tgt := "."
	if target != "-" && target != "" {
		tgt = tokName(target)
	}
	switch uint16(typ) {
	case dns.TypeA:
		return &dns.A{Hdr: h, A: net.IPv4(192, 0, 2, byte(rd)).To4()}
	case dns.TypeAAAA:
		ip := net.ParseIP("2001:db8::")
		ip[15] = byte(rd)
		ip[14] = byte(rd >> 8)
		return &dns.AAAA{Hdr: h, AAAA: ip}
	case dns.TypeNS:
		return &dns.NS{Hdr: h, Ns: fmt.Sprintf("ns%d.nameservers.example.", rd)}
	case dns.TypeCNAME:
		return &dns.CNAME{Hdr: h, Target: tgt}
	case dns.TypeDNAME:
		return &dns.DNAME{Hdr: h, Target: tgt}
	case dns.TypeSOA:
		return &dns.SOA{Hdr: h, Ns: "ns.example.", Mbox: "h.example.", Serial: uint32(rd), Refresh: 1, Retry: 1, Expire: 1, Minttl: 60}
	case dns.TypeNSEC:
		return &dns.NSEC{Hdr: h, NextDomain: fmt.Sprintf("n%d.example.", rd), TypeBitMap: []uint16{dns.TypeA, dns.TypeRRSIG, dns.TypeNSEC}}
	case dns.TypeDS:
		return &dns.DS{Hdr: h, KeyTag: uint16(rd), Algorithm: 13, DigestType: 2, Digest: digestHex(rd)}
	case dns.TypeDNSKEY:
		return &dns.DNSKEY{Hdr: h, Flags: 256, Protocol: 3, Algorithm: 15, PublicKey: base64.StdEncoding.EncodeToString([]byte(digestHex(rd))[:32])}
	case dns.TypeMX:
		return &dns.MX{Hdr: h, Preference: uint16(rd), Mx: "mx.example."}
	}
	return &dns.TXT{Hdr: dns.RR_Header{Name: owner, Rrtype: dns.TypeTXT, Class: uint16(cls), Ttl: 300}, Txt: []string{fmt.Sprintf("r%d", rd)}}
}

func randSig(alg int, seed int) string {
	n := 64
	switch uint8(alg) {
	case dns.ECDSAP384SHA384:
		n = 96
	case dns.RSASHA256, dns.RSASHA1, dns.RSASHA512, dns.RSASHA1NSEC3SHA1:
		n = 128
	}
	return base64.StdEncoding.EncodeToString(seedBytes(770000+seed, n))
}

func (s *sTok) at(field string, final string) string {
	if v, ok := s.pre[field]; ok {
		return v
	}
	return final
}

type realCase struct {
	keyMap map[uint16][]*dns.DNSKEY
	keys   map[int]*dns.DNSKEY // by id
	msg    *dns.Msg
	sigs   map[int]*dns.RRSIG
	drift  string
}

func lastLabels(pres string, n int) string {
	ls := dns.SplitDomainName(pres)
	if n >= len(ls) {
		return pres
	}
	if n == 0 {
		return "."
	}
	return strings.Join(ls[len(ls)-n:], ".") + "."
}

func (c *rrCase) realize(delta int64) *realCase {
	rc := &realCase{keyMap: map[uint16][]*dns.DNSKEY{}, keys: map[int]*dns.DNSKEY{}, msg: new(dns.Msg), sigs: map[int]*dns.RRSIG{}}
	for _, k := range c.K {
		dk := dnskey(k.pool, tokName(k.owner), uint16(k.cls), uint16(k.flags), uint8(k.proto))
		if int(dk.KeyTag()) != k.tag || int(dk.Algorithm) != k.alg {
			rc.drift = fmt.Sprintf("key %d: tag %d alg %d, op line says %d/%d", k.id, dk.KeyTag(), dk.Algorithm, k.tag, k.alg)
		}
		rc.keys[k.id] = dk
		rc.keyMap[dk.KeyTag()] = append(rc.keyMap[dk.KeyTag()], dk)
	}
	// every record that existed at signing time
	type orec struct {
		t *rTok
	}
	var atSign []*rTok
	for _, l := range [][]*rTok{c.A, c.N, c.P} {
		for _, r := range l {
			if r.orig >= 0 {
				atSign = append(atSign, r)
			}
		}
	}
	mkSig := func(s *sTok) *dns.RRSIG {
		owner := s.at("owner", s.owner)
		cov := vlib.Atoi(s.at("cov", itoa(s.cov)))
		cls := vlib.Atoi(s.at("cls", itoa(s.cls)))
		alg := vlib.Atoi(s.at("alg", itoa(s.alg)))
		labels := vlib.Atoi(s.at("labels", itoa(s.labels)))
		ottl := vlib.Atoi(s.at("ttl", itoa(s.ttl)))
		exp := vlib.AtoI64(s.at("exp", strconv.FormatInt(s.exp, 10)))
		inc := vlib.AtoI64(s.at("inc", strconv.FormatInt(s.inc, 10)))
		tag := vlib.Atoi(s.at("tag", itoa(s.tag)))
		signer := s.at("signer", s.signer)
		ownerPres := tokName(owner)
		var set []dns.RR
		for _, r := range atSign {
			if r.owner == owner && r.typ == cov && r.cls == cls {
				set = append(set, mkRR(ownerPres, r.typ, r.cls, r.orig, r.target))
			}
		}
		sig := &dns.RRSIG{Hdr: dns.RR_Header{Name: ownerPres, Rrtype: dns.TypeRRSIG, Class: uint16(cls), Ttl: 300},
			TypeCovered: uint16(cov), Algorithm: uint8(alg), Labels: uint8(labels), OrigTtl: uint32(ottl),
			Expiration: uint32(exp + delta), Inception: uint32(inc + delta), KeyTag: uint16(tag), SignerName: tokName(signer)}
		signed := false
		if s.by >= 0 && len(set) > 0 && pool(s.by).alg == uint8(alg) && tag != 0 {
			toSign := set
			if cnt := dns.CountLabel(ownerPres); labels < cnt {
				wc := "*." + lastLabels(ownerPres, labels)
				if labels == 0 {
					wc = "*."
				}
				toSign = make([]dns.RR, len(set))
				for i, rr := range set {
					cp := dns.Copy(rr)
					cp.Header().Name = wc
					toSign[i] = cp
				}
			}
			if err := sig.Sign(pool(s.by).priv, toSign); err == nil {
				signed = true
			}
		}
		if !signed {
			sig.Signature = randSig(alg, s.id)
		}
		// the fields as they travel
		sig.Hdr.Name = tokName(s.owner)
		sig.Hdr.Class = uint16(s.cls)
		sig.Hdr.Rrtype = dns.TypeRRSIG
		sig.TypeCovered = uint16(s.cov)
		sig.Algorithm = uint8(s.alg)
		sig.Labels = uint8(s.labels)
		sig.OrigTtl = uint32(s.ttl)
		sig.Expiration = uint32(s.exp + delta)
		sig.Inception = uint32(s.inc + delta)
		sig.KeyTag = uint16(s.tag)
		sig.SignerName = tokName(s.signer)
		if s.flip {
			if b, err := base64.StdEncoding.DecodeString(sig.Signature); err == nil && len(b) > 4 {
				b[len(b)/2] ^= 0x10
				sig.Signature = base64.StdEncoding.EncodeToString(b)
			}
		}
		rc.sigs[s.id] = sig
		return sig
	}
	for _, r := range c.A {
		rc.msg.Answer = append(rc.msg.Answer, mkRR(spelled(tokName(r.owner), r.spell), r.typ, r.cls, r.rd, r.target))
	}
	for _, s := range c.SA {
		rc.msg.Answer = append(rc.msg.Answer, mkSig(s))
	}
	for _, r := range c.N {
		rc.msg.Ns = append(rc.msg.Ns, mkRR(spelled(tokName(r.owner), r.spell), r.typ, r.cls, r.rd, r.target))
	}
	for _, s := range c.SN {
		rc.msg.Ns = append(rc.msg.Ns, mkSig(s))
	}
	q := tokName(c.zone)
	if len(c.A) > 0 {
		q = tokName(c.A[0].owner)
	}
	rc.msg.SetQuestion(q, dns.TypeA)
	rc.msg.Response = true
	return rc
}

// finalSet: the records of the final message a signature with this (owner, covered, class)
// would be checked against (the validator never collects authority NS records).
func (c *rrCase) finalSet(rc *realCase, owner string, cov, cls int) []dns.RR {
	var set []dns.RR
	i := 0
	for _, r := range c.A {
		if r.owner == owner && r.typ == cov && r.cls == cls {
			set = append(set, rc.msg.Answer[i])
		}
		i++
	}
	i = 0
	for _, r := range c.N {
		if r.owner == owner && r.typ == cov && r.cls == cls && uint16(r.typ) != dns.TypeNS {
			set = append(set, rc.msg.Ns[i])
		}
		i++
	}
	return set
}

// truth table of the signature oracle, by the LIBRARY verifier.
func (c *rrCase) truthTable(rc *realCase) map[[2]int]bool {
	tv := map[[2]int]bool{}
	for _, s := range append(append([]*sTok{}, c.SA...), c.SN...) {
		set := c.finalSet(rc, s.owner, s.cov, s.cls)
		if len(set) == 0 {
			continue
		}
		for _, k := range c.K {
			if rc.sigs[s.id].Verify(rc.keys[k.id], set) == nil {
				tv[[2]int{s.id, k.id}] = true
			}
		}
	}
	return tv
}

func sameTable(a, b map[[2]int]bool) bool {
	for k, v := range a {
		if v && !b[k] {
			return false
		}
	}
	for k, v := range b {
		if v && !a[k] {
			return false
		}
	}
	return true
}

func errClass(err error) string {
	switch {
	case err == nil:
		return "ok"
	case errors.Is(err, dnssec.ErrMissingDNSKEY):
		return "nokey"
	case errors.Is(err, dnssec.ErrMissingSigned):
		return "missing"
	case errors.Is(err, dnssec.ErrNoSignatures):
		return "nosigs"
	case errors.Is(err, dnssec.ErrInvalidSignaturePeriod):
		return "period"
	case errors.Is(err, dns.ErrAlg):
		return "alg"
	case errors.Is(err, dns.ErrSig):
		return "badsig"
	case errors.Is(err, dnssec.ErrMissingKSK):
		return "noksk"
	case errors.Is(err, dnssec.ErrMismatchingDS):
		return "mismatchds"
	case errors.Is(err, dnssec.ErrFailedToConvertKSK):
		return "convert"
	case errors.Is(err, dnssec.ErrDSRecords):
		return "dsrecords"
	case errors.Is(err, dnssec.ErrWildcardNoDenial):
		return "wildcard"
	}
	return "other(" + strings.ReplaceAll(err.Error(), " ", "_") + ")"
}

var mySupportedAlgs = map[int]bool{5: true, 7: true, 8: true, 10: true, 13: true, 14: true, 15: true}

// ------------------------------------------------------------------ rrsig verify

func fail(sig, format string, a ...any) string {
	return "FAIL sig=" + sig + " " + fmt.Sprintf(format, a...)
}

// exemptCNAME: the oracle's own reading of RFC 6672 §5.3.1 — a CNAME that an in-zone DNAME of
// the same message synthesises needs no signature of its own.
func (c *rrCase) exemptCNAME(r *rTok) bool {
	if uint16(r.typ) != dns.TypeCNAME || r.target == "-" {
		return false
	}
	zone := tokLabels(c.zone)
	ro := tokLabels(r.owner)
	for _, d := range append(append([]*rTok{}, c.A...), c.N...) {
		if uint16(d.typ) != dns.TypeDNAME || d.target == "-" {
			continue
		}
		do := tokLabels(d.owner)
		if len(do) == 0 || len(ro) <= len(do) || !underOrEqual(do, zone) || !underOrEqual(ro, do) {
			continue
		}
		prefix := ro[:len(ro)-len(do)]
		want := append(append([][]byte{}, prefix...), tokLabels(d.target)...)
		if labelsEqual(want, tokLabels(r.target)) {
			return true
		}
	}
	return false
}

func execRRSIG(f []string) vlib.Res {
	c := parseRRCase(f)
	realNow := time.Now().Unix()
	delta := realNow - c.now
	rc := c.realize(delta)
	if rc.drift != "" {
		return vlib.Res{Impl: "drift:" + strings.ReplaceAll(rc.drift, " ", "_")}
	}
	if tv := c.truthTable(rc); !sameTable(tv, c.tv) {
		return vlib.Res{Impl: "truth-table-drift"}
	}
	ok, err := dnssec.VerifyRRSIG(spelled(tokName(c.zone), len(c.K)%2), rc.keyMap, rc.msg)
	impl := "ok"
	if !ok || err != nil {
		impl = "fail:" + errClass(err)
	}
	if ok && err != nil {
		impl = "ok-with-error"
	}
	if !ok && err == nil {
		// (false, nil): "could not be judged" — every caller reads that as an INSECURE zone
		impl = "undecided"
	}

	// ---- oracle: what the property demands of an accepted response
	zone := tokLabels(c.zone)
	keyOwner := map[int][][]byte{}
	for _, k := range c.K {
		keyOwner[k.id] = tokLabels(k.owner)
	}
	foreign := ""
	type gk struct {
		owner    string
		typ, cls int
	}
	groups := map[gk][]*rTok{}
	var order []gk
	add := func(r *rTok, auth bool) {
		if auth && uint16(r.typ) == dns.TypeNS {
			return
		}
		if c.exemptCNAME(r) {
			return
		}
		if !underOrEqual(tokLabels(r.owner), zone) {
			if !auth {
				foreign = r.owner
			}
			return
		}
		k := gk{r.owner, r.typ, r.cls}
		if _, seen := groups[k]; !seen {
			order = append(order, k)
		}
		groups[k] = append(groups[k], r)
	}
	for _, r := range c.A {
		add(r, false)
	}
	for _, r := range c.N {
		add(r, true)
	}
	unknownWindow := false
	bad := ""
	allSigs := append(append([]*sTok{}, c.SA...), c.SN...)
	for _, g := range order {
		good := false
		spellOK := true
		for _, r := range groups[g] {
			if r.spell != groups[g][0].spell {
				spellOK = false
			}
		}
		for _, s := range allSigs {
			if s.owner != g.owner || s.cov != g.typ || s.cls != g.cls {
				continue
			}
			// window, spelled out: inception ≤ now ≤ expiration (only judged away from the 2^31 wrap)
			far := func(x int64) bool { d := x - c.now; return d > 1<<30 || d < -(1 << 30) }
			if far(s.inc) || far(s.exp) {
				unknownWindow = true
				continue
			}
			if !(s.inc <= c.now && c.now <= s.exp) {
				continue
			}
			if !mySupportedAlgs[s.alg] || !underOrEqual(tokLabels(g.owner), tokLabels(s.signer)) {
				continue
			}
			// a denial record is never the product of wildcard expansion (RFC 4035 §2.3, RFC 4592 §4.6)
			if g.typ == int(dns.TypeNSEC) || g.typ == int(dns.TypeNSEC3) {
				ol := tokLabels(g.owner)
				n := len(ol)
				if n > 0 && string(ol[0]) == "*" {
					n--
				}
				if s.labels < n {
					continue
				}
			}
			for _, k := range c.K {
				if c.tv[[2]int{s.id, k.id}] && labelsEqual(keyOwner[k.id], tokLabels(s.signer)) && k.proto == 3 && k.flags&256 != 0 {
					good = true
				}
			}
		}
		if !good || !spellOK {
			bad = fmt.Sprintf("%s/%d", g.owner, g.typ)
		}
	}
	or := "ok"
	accepted := impl == "ok"
	switch {
	case impl == "undecided":
		// a response with records to sign for is verified or bogus; "insecure" is decided from the DS chain,
		// never from what the (rewritable) RRSIG fields of the response itself claim
		or = fail("rrsig/unjudged-response-passed-on-as-insecure", "zone=%s", c.zone)
	case accepted && foreign != "":
		or = fail("rrsig/accepted/foreign-answer-record", "owner=%s zone=%s", foreign, c.zone)
	case accepted && bad != "" && !unknownWindow:
		or = fail("rrsig/accepted/rrset-without-verifying-signature", "rrset=%s", bad)
	case accepted && len(c.K) == 0:
		or = fail("rrsig/accepted/no-keys", "")
	case !accepted && foreign == "" && bad == "" && len(c.K) > 0 && !unknownWindow:
		or = fail("rrsig/rejected-fully-signed-response", "impl=%s", impl)
	}
	return vlib.Res{Impl: impl, Oracle: or, Tags: "nt," + strings.ReplaceAll(kv(f)["T"], "+", ",")}
}

// ------------------------------------------------------------------ ValidateSigner

func execSigner(f []string) vlib.Res {
	signerTok, qTok := f[2], f[3]
	signer := ""
	if signerTok != "E" {
		signer = spelled(tokName(signerTok), vlib.Atoi(f[4]))
	}
	err := dnssec.ValidateSigner(signer, tokName(qTok))
	impl := "ok"
	if err != nil {
		impl = "err"
	}
	want := signerTok != "E" && underOrEqual(tokLabels(qTok), tokLabels(signerTok))
	or := "ok"
	if (err == nil) != want {
		if err == nil {
			or = fail("signer/accepted-non-ancestor", "signer=%s qname=%s", signerTok, qTok)
		} else {
			or = fail("signer/rejected-ancestor", "signer=%s qname=%s", signerTok, qTok)
		}
	}
	return vlib.Res{Impl: impl, Oracle: or, Tags: "nt"}
}

// ------------------------------------------------------------------ VerifyDS / VerifyDSAnchoredWithWork

type dTok struct {
	id                       int
	owner                    string
	cls, tag, alg, dtype     int
	digestOk                 bool
	rank                     int
	from                     int // key id whose digest this is (-1: random digest)
	dup                      bool
}

func (d *dTok) String() string {
	return strings.Join([]string{itoa(d.id), d.owner, itoa(d.cls), itoa(d.tag), itoa(d.alg), itoa(d.dtype), vlib.B(d.digestOk), itoa(d.rank), xint(d.from)}, "/")
}

func parseD(s string) *dTok {
	f := strings.Split(s, "/")
	return &dTok{id: vlib.Atoi(f[0]), owner: f[1], cls: vlib.Atoi(f[2]), tag: vlib.Atoi(f[3]), alg: vlib.Atoi(f[4]), dtype: vlib.Atoi(f[5]),
		digestOk: f[6] == "t", rank: vlib.Atoi(f[7]), from: parseX(f[8])}
}

type dsCase struct {
	K  []*kTok
	D  []*dTok
	dm map[[2]int]bool // (ds id, key id)
}

func (c *dsCase) realize() (map[uint16][]*dns.DNSKEY, map[int]*dns.DNSKEY, []dns.RR, string) {
	keyMap := map[uint16][]*dns.DNSKEY{}
	keys := map[int]*dns.DNSKEY{}
	drift := ""
	for _, k := range c.K {
		dk := dnskey(k.pool, tokName(k.owner), uint16(k.cls), uint16(k.flags), uint8(k.proto))
		if int(dk.KeyTag()) != k.tag {
			drift = "key-tag"
		}
		keys[k.id] = dk
		keyMap[dk.KeyTag()] = append(keyMap[dk.KeyTag()], dk)
	}
	var dss []dns.RR
	for _, d := range c.D {
		ds := &dns.DS{Hdr: dns.RR_Header{Name: tokName(d.owner), Rrtype: dns.TypeDS, Class: uint16(d.cls), Ttl: 300},
			KeyTag: uint16(d.tag), Algorithm: uint8(d.alg), DigestType: uint8(d.dtype)}
		n := map[int]int{1: 20, 2: 32, 4: 48}[d.dtype]
		if n == 0 {
			n = 32
		}
		ds.Digest = strings.ToUpper(hex.EncodeToString(seedBytes(880000+d.id, n)))
		if d.from >= 0 {
			if x := keys[d.from].ToDS(uint8(d.dtype)); x != nil {
				ds.Digest = x.Digest
			}
		}
		if !d.digestOk {
			ds.Digest = ""
		}
		dss = append(dss, ds)
	}
	return keyMap, keys, dss, drift
}

func (c *dsCase) table(keys map[int]*dns.DNSKEY, dss []dns.RR) map[[2]int]bool {
	dm := map[[2]int]bool{}
	for i, d := range c.D {
		ds := dss[i].(*dns.DS)
		for _, k := range c.K {
			if x := keys[k.id].ToDS(ds.DigestType); x != nil && ds.Digest != "" && strings.EqualFold(x.Digest, ds.Digest) {
				dm[[2]int{d.id, k.id}] = true
			}
		}
	}
	return dm
}

func (c *dsCase) opLine() string {
	var dm []string
	for k, v := range c.dm {
		if v {
			dm = append(dm, fmt.Sprintf("%d:%d", k[0], k[1]))
		}
	}
	sort.Strings(dm)
	dms := "-"
	if len(dm) > 0 {
		dms = strings.Join(dm, ",")
	}
	return fmt.Sprintf("ds verify K=%s D=%s dm=%s", list(c.K, (*kTok).String), list(c.D, (*dTok).String), dms)
}

func parseDSCase(f []string) *dsCase {
	m := kv(f)
	c := &dsCase{dm: parsePairs(m["dm"])}
	for _, t := range splitList(m["K"]) {
		c.K = append(c.K, parseK(t))
	}
	for _, t := range splitList(m["D"]) {
		c.D = append(c.D, parseD(t))
	}
	return c
}

var mySupportedDigests = map[int]bool{1: true, 2: true, 4: true}

func execDS(f []string) vlib.Res {
	c := parseDSCase(f)
	keyMap, keys, dss, drift := c.realize()
	if drift != "" {
		return vlib.Res{Impl: "drift"}
	}
	if !sameTable(c.table(keys, dss), c.dm) {
		return vlib.Res{Impl: "digest-table-drift"}
	}
	unsup, err := dnssec.VerifyDS(keyMap, dss)
	anch, unsup2, err2 := dnssec.VerifyDSAnchoredWithWork(keyMap, dss, nil)
	var impl string
	switch {
	case err == nil && !unsup:
		var ids []int
		for _, k := range c.K {
			for _, a := range anch[uint16(k.tag)] {
				if a == keys[k.id] {
					ids = append(ids, k.id)
				}
			}
		}
		sort.Ints(ids)
		impl = "matched anchored=" + list(ids, itoa)
	case unsup:
		impl = "unsup"
	default:
		impl = "fail:" + errClass(err)
	}
	if (err == nil) != (err2 == nil) || unsup != unsup2 || (err != nil && errClass(err) != errClass(err2)) {
		impl += " anchored-variant-differs"
	}

	// oracle: a match needs a supported DS and a key bound to it by tag, algorithm, class, owner, ZONE, protocol 3 and digest
	proper := func(d *dTok, k *kTok) bool {
		return mySupportedDigests[d.dtype] && mySupportedAlgs[d.alg] && d.tag == k.tag && d.alg == k.alg && d.cls == k.cls &&
			labelsEqual(tokLabels(d.owner), tokLabels(k.owner)) && k.proto == 3 && k.flags&256 != 0 && d.digestOk && c.dm[[2]int{d.id, k.id}]
	}
	want := false
	wantAnch := map[int]bool{}
	anySupported := false
	for _, d := range c.D {
		if mySupportedDigests[d.dtype] && mySupportedAlgs[d.alg] {
			anySupported = true
		}
		for _, k := range c.K {
			if proper(d, k) {
				want = true
				wantAnch[k.id] = true
			}
		}
	}
	or := "ok"
	switch {
	case err == nil && !unsup && !want:
		or = fail("ds/accepted-without-authenticating-ds", "")
	case err == nil && !unsup:
		for _, k := range c.K {
			for _, a := range anch[uint16(k.tag)] {
				if a == keys[k.id] && !wantAnch[k.id] {
					or = fail("ds/anchored-key-not-authenticated-by-any-ds", "key=%d", k.id)
				}
			}
		}
	case unsup && (anySupported || len(c.D) == 0):
		or = fail("ds/insecure-indication-with-usable-ds", "")
	case !unsup && err != nil && want:
		or = fail("ds/rejected-authenticated-key", "impl=%s", impl)
	case !unsup && err != nil && !anySupported && len(c.D) > 0:
		or = fail("ds/unsupported-only-not-indicated", "impl=%s", impl)
	}
	return vlib.Res{Impl: impl, Oracle: or, Tags: "nt," + strings.ReplaceAll(kv(f)["T"], "+", ",")}
}

// ------------------------------------------------------------------ wildcard answers

type wSig struct {
	id     int
	owner  string
	labels int
}
type wNsec struct {
	id          int
	owner, next string
}

func execWild(f []string) vlib.Res {
	m := kv(f)
	var sigs []wSig
	var nsecs []wNsec
	resp := new(dns.Msg)
	for _, t := range splitList(m["SA"]) {
		p := strings.Split(t, "/")
		s := wSig{vlib.Atoi(p[0]), p[1], vlib.Atoi(p[2])}
		sigs = append(sigs, s)
		resp.Answer = append(resp.Answer, &dns.RRSIG{Hdr: dns.RR_Header{Name: tokName(s.owner), Rrtype: dns.TypeRRSIG, Class: 1, Ttl: 60},
			TypeCovered: dns.TypeTXT, Algorithm: 13, Labels: uint8(s.labels), SignerName: tokName(m["z"]), KeyTag: 1, Signature: "AAAA"})
	}
	for _, t := range splitList(m["NS"]) {
		p := strings.Split(t, "/")
		n := wNsec{vlib.Atoi(p[0]), p[1], p[2]}
		nsecs = append(nsecs, n)
		resp.Ns = append(resp.Ns, &dns.NSEC{Hdr: dns.RR_Header{Name: tokName(n.owner), Rrtype: dns.TypeNSEC, Class: 1, Ttl: 60},
			NextDomain: tokName(n.next), TypeBitMap: []uint16{dns.TypeA, dns.TypeRRSIG, dns.TypeNSEC}})
	}
	resp.SetQuestion(tokName(m["z"]), dns.TypeTXT)
	// the coverage table of the op line must be what the oracle's own canonical ordering gives
	cov := map[string]bool{}
	for _, p := range splitList(m["cov"]) {
		cov[p] = true
	}
	for _, n := range nsecs {
		for _, s := range sigs {
			ls := tokLabels(s.owner)
			for cut := 0; cut <= len(ls); cut++ {
				anc := ls[cut:]
				name := "."
				if len(anc) > 0 {
					parts := strings.Split(s.owner, ".")
					name = strings.Join(parts[cut:], ".")
				}
				if nsecCoversOracle(tokLabels(n.owner), tokLabels(n.next), anc) != cov[fmt.Sprintf("%d:%s", n.id, name)] {
					return vlib.Res{Impl: "cover-table-drift"}
				}
			}
		}
	}
	_, err := dnssec.VerifyWildcardAnswerForZoneWithWork(resp, tokName(m["z"]), nil)
	impl := "ok"
	if err != nil {
		impl = "fail"
		if !errors.Is(err, dnssec.ErrWildcardNoDenial) {
			impl = "fail-other(" + strings.ReplaceAll(err.Error(), " ", "_") + ")"
		}
	}
	// oracle: every wildcard-expanded signature needs an NSEC covering its next-closer name
	want := true
	for _, s := range sigs {
		ls := tokLabels(s.owner)
		if s.labels >= len(ls) {
			continue
		}
		nc := ls[len(ls)-s.labels-1:]
		covered := false
		for _, n := range nsecs {
			if nsecCoversOracle(tokLabels(n.owner), tokLabels(n.next), nc) && !entBelow(tokLabels(n.next), nc) {
				covered = true
			}
		}
		if !covered {
			want = false
		}
	}
	or := "ok"
	if (err == nil) != want {
		if err == nil {
			or = fail("wild/accepted-expansion-without-next-closer-denial", "")
		} else {
			or = fail("wild/rejected-proven-expansion", "")
		}
	}
	return vlib.Res{Impl: impl, Oracle: or, Tags: "nt"}
}
