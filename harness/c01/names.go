//go:build verif

package main

import (
	"encoding/hex"
	"fmt"
	"strings"

	"github.com/miekg/dns"
)

// Name tokens on op lines: labels in presentation order joined by '.', the
// root is ".".  A label made of [a-z0-9_*-] is written as is, anything else
// as %<hex of the octets>.  Case is folded (ASCII) — the model works on
// folded labels.

func plainLabel(b []byte) bool {
	if len(b) == 0 {
		return false
	}
	for _, c := range b {
		if !(c >= 'a' && c <= 'z' || c >= '0' && c <= '9' || c == '_' || c == '*' || c == '-') {
			return false
		}
	}
	return true
}

// unescape turns one presentation label (miekg escapes) into octets.
func unescape(l string) []byte {
	var out []byte
	for i := 0; i < len(l); i++ {
		if l[i] != '\\' || i+1 >= len(l) {
			out = append(out, l[i])
			continue
		}
		if i+3 < len(l) && isDigit(l[i+1]) && isDigit(l[i+2]) && isDigit(l[i+3]) {
			out = append(out, (l[i+1]-'0')*100+(l[i+2]-'0')*10+(l[i+3]-'0'))
			i += 3
			continue
		}
		out = append(out, l[i+1])
		i++
	}
	return out
}

func isDigit(c byte) bool { return c >= '0' && c <= '9' }

// octetLabels: the labels of a presentation name as folded octet strings, leaf first.
func octetLabels(pres string) [][]byte {
	var out [][]byte
	for _, l := range dns.SplitDomainName(pres) {
		b := unescape(l)
		for i, c := range b {
			if c >= 'A' && c <= 'Z' {
				b[i] = c + 32
			}
		}
		out = append(out, b)
	}
	return out
}

func nameTok(pres string) string {
	ls := octetLabels(pres)
	if len(ls) == 0 {
		return "."
	}
	parts := make([]string, len(ls))
	for i, b := range ls {
		if plainLabel(b) {
			parts[i] = string(b)
		} else {
			parts[i] = "%" + hex.EncodeToString(b)
		}
	}
	return strings.Join(parts, ".")
}

// tokLabels: folded octet labels of a token, leaf first.
func tokLabels(tok string) [][]byte {
	if tok == "." || tok == "" {
		return nil
	}
	var out [][]byte
	for _, p := range strings.Split(tok, ".") {
		if strings.HasPrefix(p, "%") {
			b, err := hex.DecodeString(p[1:])
			if err != nil {
				panic("bad name token " + tok)
			}
			out = append(out, b)
		} else {
			out = append(out, []byte(p))
		}
	}
	return out
}

// tokName: presentation form (lower case, rooted) of a token.
func tokName(tok string) string {
	ls := tokLabels(tok)
	if len(ls) == 0 {
		return "."
	}
	var sb strings.Builder
	for _, b := range ls {
		for _, c := range b {
			if c >= 'a' && c <= 'z' || c >= '0' && c <= '9' || c == '_' || c == '*' || c == '-' {
				sb.WriteByte(c)
			} else {
				fmt.Fprintf(&sb, "\\%03d", c)
			}
		}
		sb.WriteByte('.')
	}
	return sb.String()
}

// spelled: spelling variant n of a presentation name (0 = lower case; 1 = first letter upper case).
func spelled(pres string, n int) string {
	if n == 0 {
		return pres
	}
	b := []byte(pres)
	for i := 0; i < len(b); i++ {
		if b[i] == '\\' {
			i++
			if i+2 < len(b) && isDigit(b[i]) {
				i += 2
			}
			continue
		}
		if b[i] >= 'a' && b[i] <= 'z' {
			b[i] -= 32
			break
		}
	}
	return string(b)
}

// label-wise relations used by the oracles (independent of dnsutil.NameInZone).
func labelsEqual(a, b [][]byte) bool {
	if len(a) != len(b) {
		return false
	}
	for i := range a {
		if string(a[i]) != string(b[i]) {
			return false
		}
	}
	return true
}

// underOrEqual: name is zone or lies below it, compared label by label from the root.
func underOrEqual(name, zone [][]byte) bool {
	if len(zone) > len(name) {
		return false
	}
	for i := 1; i <= len(zone); i++ {
		if string(name[len(name)-i]) != string(zone[len(zone)-i]) {
			return false
		}
	}
	return true
}

// canonLess / canonCmp: RFC 4034 §6.1 on folded octet labels.
func canonCmp(a, b [][]byte) int {
	i, j := len(a)-1, len(b)-1
	for i >= 0 && j >= 0 {
		if c := strings.Compare(string(a[i]), string(b[j])); c != 0 {
			return c
		}
		i--
		j--
	}
	switch {
	case i < 0 && j < 0:
		return 0
	case i < 0:
		return -1
	}
	return 1
}

// nsecCoversOracle: does the NSEC (owner, next) prove that name does not exist.
func nsecCoversOracle(owner, next, name [][]byte) bool {
	on, no, nn := canonCmp(owner, next), canonCmp(name, owner), canonCmp(name, next)
	switch {
	case on == 0:
		return no != 0
	case on < 0:
		return no > 0 && nn < 0
	}
	return no > 0 || nn < 0
}

// entBelow: next lies strictly below name — name is an empty non-terminal, it exists (RFC 4592 §3.3.1).
func entBelow(next, name [][]byte) bool { return len(next) > len(name) && underOrEqual(next, name) }
