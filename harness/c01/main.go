//go:build verif

package main

import (
	"crypto/rand"
	"crypto/rsa"
	"crypto/x509"
	"encoding/base64"
	"fmt"
	"os"
)

func main() {
	if len(os.Args) > 1 && os.Args[1] == "findpairs" {
		findPairs()
		for i := 0; i < 2; i++ {
			k, _ := rsa.GenerateKey(rand.Reader, 1024)
			fmt.Printf("%q,\n", base64.StdEncoding.EncodeToString(x509.MarshalPKCS1PrivateKey(k)))
		}
	}
}
