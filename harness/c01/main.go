//go:build verif

package main

import (
	"crypto"
	"fmt"
	"time"

	"github.com/miekg/dns"
	"github.com/semihalev/sdns/internal/verif/l3"
	"github.com/semihalev/sdns/internal/verif/vlib"
)

func signSet(k *l3.KeyPair, zone string, set []dns.RR, inc, exp time.Time) *dns.RRSIG {
	h := set[0].Header()
	sig := &dns.RRSIG{Hdr: dns.RR_Header{Name: h.Name, Rrtype: dns.TypeRRSIG, Class: h.Class, Ttl: h.Ttl},
		TypeCovered: h.Rrtype, Algorithm: k.Key.Algorithm, Labels: uint8(dns.CountLabel(h.Name)), OrigTtl: h.Ttl,
		Expiration: uint32(exp.Unix()), Inception: uint32(inc.Unix()), KeyTag: k.Key.KeyTag(), SignerName: zone}
	if err := sig.Sign(k.Priv.(crypto.Signer), set); err != nil {
		panic(err)
	}
	return sig
}

func main() {
	vlib.Quiet()
	w := l3.NewWorld(true)
	defer w.Close()
	w.AddZone("test.", l3.ZoneOpts{Signed: true, PublishDS: true})
	z := w.AddZone("shop.test.", l3.ZoneOpts{Signed: true, PublishDS: true})
	z.Add("www.shop.test. 300 IN A 192.0.2.200")
	evil := l3.NewKey("shop.test.", 256, dns.ECDSAP256SHA256)
	now := time.Now()
	z.Servers[0].SetBehaviour(l3.Behaviour{Tamper: func(q dns.Question, m *dns.Msg, tcp bool) *dns.Msg {
		if q.Qtype == dns.TypeDNSKEY {
			var set []dns.RR
			for _, rr := range m.Answer {
				if rr.Header().Rrtype == dns.TypeDNSKEY {
					set = append(set, rr)
				}
			}
			set = append(set, evil.Key)
			m.Answer = append(set, signSet(evil, "shop.test.", set, now.Add(-time.Hour), now.Add(time.Hour)))
			return m
		}
		if q.Qtype == dns.TypeA && q.Name == "www.shop.test." {
			a, _ := dns.NewRR("www.shop.test. 300 IN A 6.6.6.6")
			m.Answer = []dns.RR{a, signSet(evil, "shop.test.", []dns.RR{a}, now.Add(-time.Hour), now.Add(time.Hour))}
		}
		return m
	}})
	p := l3.NewPipe(w, l3.PipeOpts{DNSSEC: true})
	defer p.Close()
	for i := 0; i < 2; i++ {
		t0 := time.Now()
		r := p.Query("www.shop.test.", dns.TypeA, l3.Flags{DO: true})
		if r == nil {
			fmt.Println("no reply")
			continue
		}
		fmt.Printf("rcode=%s ad=%v ans=%v (%dms)\n", dns.RcodeToString[r.Rcode], r.AuthenticatedData, r.Answer, time.Since(t0).Milliseconds())
	}
}
