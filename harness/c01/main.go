//go:build verif

// Correspondence driver and system-level explorer for C01
// (DNSSEC: validating clients get only authenticated data; AD implies authentic).
//
//	signer check …   dnssec.ValidateSigner                         vs model + label-wise oracle
//	rrsig verify …   dnssec.VerifyRRSIG on a realised, tampered message (real keys, real signatures;
//	                 the sigValid truth table comes from the LIBRARY verifier dns.RRSIG.Verify)
//	ds verify …      dnssec.VerifyDS / VerifyDSAnchoredWithWork    (digest truth table from DNSKEY.ToDS)
//	wild verify …    dnssec.VerifyWildcardAnswerForZoneWithWork    (NSEC coverage table from the oracle's own ordering)
//	ad edns|tomsg|chase|pipe …   the AD bit through edns.ResponseWriter (Msg and wire), CacheEntry.ToMsg /
//	                 serveWire, searchAdditionalAnswer, and the real edns+cache pair
//	err ede …        dnsutil.ErrorToEDE + SetRcodeWithEDE (what DNSHandler.handle does with an error)
//	l3 …             the real edns+cache+resolver pipeline against a scripted signed hierarchy (oracle only)
package main

import (
	"fmt"
	"go/ast"
	"go/parser"
	"go/token"
	"os"
	"path/filepath"
	"strings"
	"time"

	"github.com/miekg/dns"
	"github.com/semihalev/sdns/internal/dnsutil"
	"github.com/semihalev/sdns/internal/verif/vlib"
	"github.com/semihalev/sdns/middleware/resolver/dnssec"
)

func exec(op string) vlib.Res {
	f := strings.Fields(op)
	if len(f) < 2 {
		return vlib.Res{Impl: "bad-op"}
	}
	switch f[0] + " " + f[1] {
	case "signer check":
		return execSigner(f)
	case "rrsig verify":
		return execRRSIG(f)
	case "ds verify":
		return execDS(f)
	case "wild verify":
		return execWild(f)
	case "ad hitchase":
		return execAdHitChase(f)
	case "ad hitfail":
		return execAdHitFail(f)
	case "ad cut":
		return execAdCut(f)
	case "store priv":
		return execStorePriv(f)
	case "keycache run":
		return execKeyCache(f)
	case "window check":
		return execWindow(f)
	case "signers find":
		return execSigners(f)
	case "wild answer":
		return execWildAnswer(f)
	case "supds check":
		return execSupDS(f)
	case "nsec3 nodata":
		return execN3(f)
	case "nsec3 deleg":
		return execN3Deleg(f)
	case "proofname check":
		return execProofName(f)
	case "ttl calc":
		return execTTL(f)
	case "authfilter check":
		return execAuthFilter(f)
	case "l3 advance":
		return sysAdvance(f)
	case "l3 ta":
		return sysTA(f)
	case "filter zone":
		return execFilterZone(f)
	case "rootds check":
		return execRootDS(f)
	case "synth check":
		return execSynth(f)
	case "deleg nsec":
		return execDeleg(f)
	case "nodata nsec":
		return execNodataNSEC(f)
	case "ad edns":
		return execAdEdns(f)
	case "ad tomsg":
		return execAdToMsg(f)
	case "ad chase":
		return execAdChase(f)
	case "ad pipe":
		return execAdPipe(f)
	case "err ede":
		return execErr(f)
	case "l3 new":
		return sysNew(f)
	case "l3 tamper":
		return sysTamper(f)
	case "l3 anchors":
		return sysAnchors(f)
	case "l3 q":
		return sysQuery(f)
	}
	return vlib.Res{Impl: "bad-op"}
}

func tf(r *vlib.R) string { return vlib.B(r.Bool()) }

func gen(r *vlib.R, n int, tier string, emit func(string)) {
	now := time.Now().Unix()
	// vlib's streams for consecutive seeds are one step apart; re-key so that seeds explore different cases
	r = vlib.NewR(r.U64() ^ 0xC01C01C01)
	em := func(op, tags string) {
		if tags == "" {
			tags = "t:none"
		}
		emit(op + " T=" + strings.ReplaceAll(tags, ",", "+"))
	}
	// system level first: about 45% of the budget in ops, most of the wall time
	l3ops := n * 9 / 20
	for l3ops > 0 {
		l3ops -= genL3(r, emit)
	}
	if sys != nil {
		sys.close()
		sys = nil
	}
	rest := n - n*9/20
	for rest > 0 {
		switch k := r.Intn(35); {
		case k == 34:
			emit(genWindow(r))
		case k == 31:
			if r.Bool() {
				emit(genStorePriv(r))
			} else {
				emit(genKeyCache(r))
			}
		case k == 32:
			emit(genAdCut(r))
		case k == 33:
			emit(genAdHitFail(r))
		case k == 29:
			emit(genN3(r))
		case k == 30:
			if r.Bool() {
				emit(genN3Deleg(r))
			} else {
				emit(genTTL(r))
			}
		case k == 23 || k == 24:
			emit(genAdHitChase(r))
		case k == 25 || k == 26:
			emit(genSigners(r))
		case k == 27:
			emit(genWildAnswer(r))
		case k == 28:
			switch r.Intn(4) {
			case 0:
				emit(genSupDS(r))
			case 1:
				if r.Bool() {
					emit(genRootDS(r))
				} else {
					emit(fmt.Sprintf("proofname check %s %s", vlib.Pick(r, []string{"sub.zone.test", "a.b.c.example.com", "test", ".", "www.%666f6f2e626172.test"}), tf(r)))
				}
			case 2:
				emit(genAuthFilter(r))
			default:
				emit(genFilterZone(r))
			}
		case k == 20 || k == 21:
			emit(genSynth(r))
		case k == 22:
			if r.Bool() {
				emit(genDeleg(r))
			} else {
				emit(genNodataNSEC(r))
			}
		case k < 9:
			op, tags := genRRSIG(r, now)
			em(op, tags)
		case k < 11:
			emit(genSigner(r))
		case k < 14:
			op, tags := genDS(r)
			em(op, tags)
		case k < 16:
			emit(genWild(r))
		case k < 17:
			opt := r.Bool()
			do := opt && r.Bool()
			wire := r.Bool()
			emit(fmt.Sprintf("ad edns %s %s %s %s %s %s %s %s %s", tf(r), vlib.B(do), tf(r), vlib.B(opt),
				vlib.Pick(r, []string{"udp", "udp", "tcp"}), vlib.Pick(r, []string{"msg", "wire"}), vlib.B(r.Chance(3, 4)), vlib.B(!wire && r.Chance(1, 4)), vlib.B(wire)))
		case k < 18:
			if r.Bool() {
				emit(fmt.Sprintf("ad tomsg %s %s %s", tf(r), tf(r), vlib.Pick(r, []string{"msg", "wire"})))
			} else {
				hops := make([]string, 1+r.Intn(3))
				for i := range hops {
					hops[i] = vlib.B(r.Chance(2, 3))
				}
				emit(fmt.Sprintf("ad chase %s %s", vlib.B(r.Chance(3, 4)), strings.Join(hops, ",")))
			}
		case k < 19:
			opt := r.Bool()
			do := opt && r.Bool()
			emit(fmt.Sprintf("ad pipe %s %s %s %s %s %s %s %s", vlib.B(r.Chance(3, 4)), tf(r), vlib.B(do), tf(r), vlib.B(opt),
				vlib.Pick(r, []string{"udp", "tcp"}), vlib.Pick(r, []string{"msg", "wire"}), vlib.Pick(r, []string{"msg", "wire"})))
		default:
			opt := r.Bool()
			emit(fmt.Sprintf("err ede %s %s %s", vlib.Pick(r, errOrder), vlib.B(opt), vlib.B(opt && r.Bool())))
		}
		rest--
	}
}

// ------------------------------------------------------------------ facts

func repoDir() string {
	if d := os.Getenv("VERIF_REPO"); d != "" {
		return d
	}
	return "/repo"
}

// posOfCall: position of the first call whose selector name is `name` inside n (0 = none).
func posOfCall(n ast.Node, name string) token.Pos {
	var pos token.Pos
	ast.Inspect(n, func(x ast.Node) bool {
		if pos != 0 {
			return false
		}
		if c, ok := x.(*ast.CallExpr); ok {
			if s, ok := c.Fun.(*ast.SelectorExpr); ok && s.Sel.Name == name {
				pos = c.Pos()
			}
		}
		return true
	})
	return pos
}

func hasBranch(n ast.Node, tok token.Token) bool {
	found := false
	ast.Inspect(n, func(x ast.Node) bool {
		if b, ok := x.(*ast.BranchStmt); ok && b.Tok == tok {
			found = true
		}
		return !found
	})
	return found
}

func returnsSel(n ast.Node, sel string) bool {
	found := false
	ast.Inspect(n, func(x ast.Node) bool {
		if r, ok := x.(*ast.ReturnStmt); ok {
			for _, e := range r.Results {
				if s, ok := e.(*ast.SelectorExpr); ok && s.Sel.Name == sel {
					found = true
				}
			}
		}
		return !found
	})
	return found
}

// shapeFacts reads middleware/resolver/resolver.go of the tree under check.
func shapeFacts(out map[string]any) {
	for _, fn := range []string{"answer", "authority", "validateDelegation"} {
		out["shape_signer_checked_before_findds_"+fn] = false
		out["shape_anchor_gate_"+fn] = false
	}
	out["shape_verifydnssec_anchors_own_dnskey_rrset"] = false
	out["shape_root_ds_from_anchors_answer"] = false
	out["shape_root_ds_from_anchors_authority"] = false
	out["shape_bare_denials_go_through_authority"] = false
	out["shape_key_fetch_is_validated"] = false
	out["shape_wildcard_proof_from_filtered_authority"] = false
	out["shape_validated_denial_keeps_signer_zone_only"] = false
	for _, fn := range []string{"answer", "authority", "validateDelegation"} {
		out["shape_zone_security_judged_for_serving_zone_"+fn] = false
	}
	out["shape_dname_target_ad_anded_whatever_the_target_carries"] = false
	out["shape_soa_beside_ns_goes_through_allowlist"] = false
	out["shape_cd_fetch_only_before_explicit_validation"] = false
	fset := token.NewFileSet()
	file, err := parser.ParseFile(fset, filepath.Join(repoDir(), "middleware/resolver/resolver.go"), nil, 0)
	if err != nil {
		out["shape_parse_error"] = err.Error()
		return
	}
	// DS look-ups with CD=1 (unvalidated sub-query) happen only where the caller validates the reply itself:
	// `lookupDS(…, true)` literally appears in authenticatedDelegationDS and nowhere else
	cdTrueSites, cdTrueElsewhere := 0, 0
	for _, d := range file.Decls {
		fd, ok := d.(*ast.FuncDecl)
		if !ok || fd.Body == nil {
			continue
		}
		ast.Inspect(fd.Body, func(x ast.Node) bool {
			c, isC := x.(*ast.CallExpr)
			if !isC {
				return true
			}
			if sel, isS := c.Fun.(*ast.SelectorExpr); isS && sel.Sel.Name == "lookupDS" && len(c.Args) == 3 {
				if id, isId := c.Args[2].(*ast.Ident); isId && id.Name == "true" {
					cdTrueSites++
					if fd.Name.Name != "authenticatedDelegationDS" {
						cdTrueElsewhere++
					}
				}
			}
			return true
		})
	}
	out["shape_cd_fetch_only_before_explicit_validation"] = cdTrueSites == 1 && cdTrueElsewhere == 0
	for _, d := range file.Decls {
		fd, ok := d.(*ast.FuncDecl)
		if !ok || fd.Recv == nil || fd.Body == nil {
			continue
		}
		name := fd.Name.Name
		switch name {
		case "answer", "authority", "validateDelegation":
			// (1) in the loop over candidate signers: `if err := dnssec.ValidateSigner(...); err != nil { …; continue }`
			//     comes before the first findDS / verifyDNSSEC / isZoneSecure call of the loop body
			ast.Inspect(fd.Body, func(x ast.Node) bool {
				rs, ok := x.(*ast.RangeStmt)
				if !ok {
					return true
				}
				if id, ok := rs.X.(*ast.Ident); !ok || id.Name != "signers" {
					return true
				}
				var gate token.Pos
				for _, st := range rs.Body.List {
					if is, ok := st.(*ast.IfStmt); ok && is.Init != nil && posOfCall(is.Init, "ValidateSigner") != 0 && hasBranch(is.Body, token.CONTINUE) {
						gate = is.Pos()
						break
					}
				}
				good := gate != 0
				for _, callee := range []string{"findDS", "verifyDNSSEC", "isZoneSecure"} {
					if p := posOfCall(rs.Body, callee); p != 0 && (gate == 0 || p < gate) {
						good = false
					}
				}
				if posOfCall(rs.Body, "findDS") == 0 {
					good = false
				}
				out["shape_signer_checked_before_findds_"+name] = good
				return false
			})
			// (1b) inside the signer loop "is the zone signed?" is asked about the zone that SERVED the response
			//      (`r.isZoneSecure(ctx, q.Name, <ds>, zone)`), never about a name taken from the candidate signer
			ast.Inspect(fd.Body, func(x ast.Node) bool {
				rs, ok := x.(*ast.RangeStmt)
				if !ok {
					return true
				}
				if id, ok := rs.X.(*ast.Ident); !ok || id.Name != "signers" {
					return true
				}
				good, seen := true, false
				ast.Inspect(rs.Body, func(y ast.Node) bool {
					c, isC := y.(*ast.CallExpr)
					if !isC {
						return true
					}
					sel, isS := c.Fun.(*ast.SelectorExpr)
					if !isS || !strings.HasSuffix(sel.Sel.Name, "ZoneSecure") {
						return true
					}
					seen = true
					if sel.Sel.Name != "isZoneSecure" || len(c.Args) != 4 {
						good = false
						return true
					}
					if id, ok := c.Args[3].(*ast.Ident); !ok || id.Name != "zone" {
						good = false
					}
					for _, a := range c.Args {
						ast.Inspect(a, func(z ast.Node) bool {
							if id, ok := z.(*ast.Ident); ok && id.Name == "signer" {
								good = false
							}
							return true
						})
					}
					return true
				})
				out["shape_zone_security_judged_for_serving_zone_"+name] = seen && good
				return false
			})
			// (2) `if r.dnssec && !r.hasTrustAnchors() { return …ErrTrustAnchorsUnavailable }` precedes the
			//     first findRRSIGSigners call (nothing is accepted before it)
			var gate token.Pos
			ast.Inspect(fd.Body, func(x ast.Node) bool {
				is, ok := x.(*ast.IfStmt)
				if !ok || gate != 0 {
					return gate == 0
				}
				neg := false
				ast.Inspect(is.Cond, func(y ast.Node) bool {
					if u, ok := y.(*ast.UnaryExpr); ok && u.Op == token.NOT && posOfCall(u.X, "hasTrustAnchors") != 0 {
						neg = true
					}
					return true
				})
				if neg && returnsSel(is.Body, "ErrTrustAnchorsUnavailable") {
					gate = is.Pos()
				}
				return true
			})
			first := posOfCall(fd.Body, "findRRSIGSigners")
			out["shape_anchor_gate_"+name] = gate != 0 && first != 0 && gate < first
			// (6) answer(): `resp.AuthenticatedData = resp.AuthenticatedData && targetMsg.AuthenticatedData` is reached whatever the
			//     DNAME target leg carries: no enclosing `if` looks at targetMsg.Answer (an empty-answer denial from an unsigned
			//     target must take AD away just as records do)
			if name == "answer" {
				var stack []ast.Node
				good, seen := true, false
				ast.Inspect(fd.Body, func(x ast.Node) bool {
					if x == nil {
						stack = stack[:len(stack)-1]
						return true
					}
					stack = append(stack, x)
					as, isAs := x.(*ast.AssignStmt)
					if !isAs || len(as.Lhs) != 1 || len(as.Rhs) != 1 {
						return true
					}
					l, isSel := as.Lhs[0].(*ast.SelectorExpr)
					be, isBin := as.Rhs[0].(*ast.BinaryExpr)
					if !isSel || !isBin || l.Sel.Name != "AuthenticatedData" || be.Op != token.LAND {
						return true
					}
					mentionsTarget := false
					ast.Inspect(be, func(y ast.Node) bool {
						if id, ok := y.(*ast.Ident); ok && id.Name == "targetMsg" {
							mentionsTarget = true
						}
						return true
					})
					if !mentionsTarget {
						return true
					}
					seen = true
					for _, anc := range stack {
						if is, ok := anc.(*ast.IfStmt); ok {
							ast.Inspect(is.Cond, func(y ast.Node) bool {
								if sel, ok := y.(*ast.SelectorExpr); ok && sel.Sel.Name == "Answer" {
									if id, ok := sel.X.(*ast.Ident); ok && id.Name == "targetMsg" {
										good = false
									}
								}
								return true
							})
						}
					}
					return true
				})
				out["shape_dname_target_ad_anded_whatever_the_target_carries"] = seen && good
			}
			// (4) answer(): the authority section is cut down to the signer zone (`resp.Ns = …FilterRRsToZone(resp.Ns, signer)`)
			//     before the wildcard no-closer-match check reads NSEC records from it
			if name == "answer" {
				var filt token.Pos
				ast.Inspect(fd.Body, func(x ast.Node) bool {
					as, isAs := x.(*ast.AssignStmt)
					if !isAs || len(as.Lhs) != 1 || len(as.Rhs) != 1 || filt != 0 {
						return true
					}
					l, isSel := as.Lhs[0].(*ast.SelectorExpr)
					c, isCall := as.Rhs[0].(*ast.CallExpr)
					if !isSel || !isCall || l.Sel.Name != "Ns" || len(c.Args) != 2 {
						return true
					}
					if f, ok := c.Fun.(*ast.SelectorExpr); ok && f.Sel.Name == "FilterRRsToZone" {
						if a, ok := c.Args[1].(*ast.Ident); ok && a.Name == "signer" {
							filt = as.Pos()
						}
					}
					return true
				})
				w := posOfCall(fd.Body, "VerifyWildcardAnswerForZoneWithWork")
				out["shape_wildcard_proof_from_filtered_authority"] = filt != 0 && w != 0 && filt < w
			}
			// (5) authority(): the whole authority section is cut down to the chosen signer's zone before the denial
			//     proof is read from it and before AD is put on the reply (fadc30d)
			if name == "authority" {
				var filt, adset token.Pos
				ast.Inspect(fd.Body, func(x ast.Node) bool {
					as, isAs := x.(*ast.AssignStmt)
					if !isAs || len(as.Lhs) != 1 || len(as.Rhs) != 1 {
						return true
					}
					l, isSel := as.Lhs[0].(*ast.SelectorExpr)
					if !isSel {
						return true
					}
					if c, isCall := as.Rhs[0].(*ast.CallExpr); isCall && l.Sel.Name == "Ns" && len(c.Args) == 2 && filt == 0 {
						if f, ok := c.Fun.(*ast.SelectorExpr); ok && f.Sel.Name == "FilterRRsToZone" {
							if a, ok := c.Args[1].(*ast.Ident); ok && a.Name == "chosenSigner" {
								filt = as.Pos()
							}
						}
					}
					if l.Sel.Name == "AuthenticatedData" && adset == 0 {
						adset = as.Pos()
					}
					return true
				})
				out["shape_validated_denial_keeps_signer_zone_only"] = filt != 0 && adset != 0 && filt < adset
			}
			// (3) a response served by the root gets its DS set from the trust anchors before anything is judged
			if name != "validateDelegation" {
				p := posOfCall(fd.Body, "rootParentDS")
				out["shape_root_ds_from_anchors_"+name] = p != 0 && first != 0 && p < first
			}
		case "processAuthoritySection":
			// an SOA beside NS records: the section goes through filterAuthorityRecords (SOA/NSEC/NSEC3/RRSIG allow-list)
			// before authority() validates it — the signature check skips authority NS records
			fa, au := posOfCall(fd.Body, "filterAuthorityRecords"), token.Pos(0)
			ast.Inspect(fd.Body, func(x ast.Node) bool {
				if c, ok := x.(*ast.CallExpr); ok {
					if sel, ok := c.Fun.(*ast.SelectorExpr); ok && sel.Sel.Name == "authority" && c.Pos() > fa && au == 0 {
						au = c.Pos()
					}
				}
				return true
			})
			out["shape_soa_beside_ns_goes_through_allowlist"] = fa != 0 && au != 0
		case "resolve":
			// a bare NXDOMAIN and the "no answer, no authority" NOERROR are handed to authority():
			// the function's last statement returns r.authority(...), and inside the
			// `Rcode != Success && no answer && no authority` block an NXDOMAIN does the same
			last := fd.Body.List[len(fd.Body.List)-1]
			lastOK := false
			if rs, ok := last.(*ast.ReturnStmt); ok && len(rs.Results) > 0 && posOfCall(rs.Results[0], "authority") != 0 {
				lastOK = true
			}
			nxOK := false
			ast.Inspect(fd.Body, func(x ast.Node) bool {
				is, ok := x.(*ast.IfStmt)
				if !ok {
					return true
				}
				be, ok := is.Cond.(*ast.BinaryExpr)
				if !ok || be.Op != token.EQL {
					return true
				}
				if sel, ok := be.Y.(*ast.SelectorExpr); ok && sel.Sel.Name == "RcodeNameError" {
					if l, ok := be.X.(*ast.SelectorExpr); ok && l.Sel.Name == "Rcode" {
						for _, st := range is.Body.List {
							if rs, ok := st.(*ast.ReturnStmt); ok && len(rs.Results) == 1 && posOfCall(rs.Results[0], "authority") != 0 {
								nxOK = true
							}
						}
					}
				}
				return true
			})
			out["shape_bare_denials_go_through_authority"] = lastOK && nxOK
		case "verifyDNSSEC":
			// the signer's own DNSKEY response is checked with the DS-anchored keys:
			// VerifyDSAnchoredWithWork is called, and its first result is what VerifyRRSIGWithWork receives
			anch := posOfCall(fd.Body, "VerifyDSAnchoredWithWork")
			ok := anch != 0
			var keysVar string
			ast.Inspect(fd.Body, func(x ast.Node) bool {
				as, isAs := x.(*ast.AssignStmt)
				if !isAs || len(as.Rhs) != 1 || posOfCall(as.Rhs[0], "VerifyDSAnchoredWithWork") == 0 || len(as.Lhs) < 1 {
					return true
				}
				if id, isId := as.Lhs[0].(*ast.Ident); isId {
					keysVar = id.Name
				}
				return true
			})
			used := false
			ast.Inspect(fd.Body, func(x ast.Node) bool {
				c, isC := x.(*ast.CallExpr)
				if !isC {
					return true
				}
				if s, isS := c.Fun.(*ast.SelectorExpr); isS && s.Sel.Name == "VerifyRRSIGWithWork" && len(c.Args) >= 2 {
					if id, isId := c.Args[1].(*ast.Ident); isId && keysVar != "" && id.Name == keysVar {
						used = true
					}
				}
				return true
			})
			out["shape_verifydnssec_anchors_own_dnskey_rrset"] = ok && used
			// the DNSKEY fetch is a CD=0 (validated) sub-query whatever response is being checked:
			// nothing in this function writes a CheckingDisabled field
			writesCD := false
			ast.Inspect(fd.Body, func(x ast.Node) bool {
				if as, isAs := x.(*ast.AssignStmt); isAs {
					for _, l := range as.Lhs {
						if sel, isSel := l.(*ast.SelectorExpr); isSel && sel.Sel.Name == "CheckingDisabled" {
							writesCD = true
						}
					}
				}
				if kv, isKV := x.(*ast.KeyValueExpr); isKV {
					if id, isId := kv.Key.(*ast.Ident); isId && id.Name == "CheckingDisabled" {
						writesCD = true
					}
				}
				return true
			})
			out["shape_key_fetch_is_validated"] = !writesCD && posOfCall(fd.Body, "subQuery") != 0
		}
	}
}

func facts() map[string]any {
	checkPairs()
	out := map[string]any{}
	var algs, digests []int
	for i := 0; i < 256; i++ {
		if dnssec.IsSupportedDNSKEYAlgorithm(uint8(i)) {
			algs = append(algs, i)
		}
		if dnssec.IsSupportedDSDigest(uint8(i)) {
			digests = append(digests, i)
		}
	}
	out["dnskey_algs_supported"] = algs
	out["ds_digests_supported"] = digests
	var codes []int
	for _, c := range errOrder {
		code, _ := dnsutil.ErrorToEDE(errValue(c))
		codes = append(codes, int(code))
	}
	out["ede_codes"] = codes
	out["err_classes"] = errOrder
	out["rcode_servfail"] = dns.RcodeServerFailure
	out["zone_flag"] = dns.ZONE
	shapeFacts(out)
	storeShapeFacts(out)
	windowShapeFacts(out)
	return out
}

// storeShapeFacts reads middleware/cache/store.go of the tree under check: the reader behind the validator's own
// DS / DNSKEY fetches (GetWithContext) consults nothing but the readers keyed on the request itself, and the answer
// key is built from the request's own CD bit (no composite CacheKey anywhere in the file negates or invents it).
func storeShapeFacts(out map[string]any) {
	out["shape_private_lookup_keyed_on_request_cd"] = false
	fset := token.NewFileSet()
	file, err := parser.ParseFile(fset, filepath.Join(repoDir(), "middleware/cache/store.go"), nil, 0)
	if err != nil {
		out["shape_store_parse_error"] = err.Error()
		return
	}
	allowed := map[string]bool{"Lookup": true, "LookupNXDomainCut": true, "lookupDenialProofWithExpiry": true, "LookupFailure": true}
	readersOK, sawGet, keyOK, sawKey := true, false, true, false
	for _, d := range file.Decls {
		fd, ok := d.(*ast.FuncDecl)
		if !ok || fd.Body == nil {
			continue
		}
		if fd.Name.Name == "GetWithContext" && fd.Recv != nil {
			sawGet = true
			ast.Inspect(fd.Body, func(x ast.Node) bool {
				c, ok := x.(*ast.CallExpr)
				if !ok {
					return true
				}
				sel, ok := c.Fun.(*ast.SelectorExpr)
				if !ok {
					return true
				}
				if id, ok := sel.X.(*ast.Ident); ok && id.Name == "s" {
					if !allowed[sel.Sel.Name] || len(c.Args) == 0 {
						readersOK = false
						return true
					}
					if a, ok := c.Args[0].(*ast.Ident); !ok || a.Name != "req" {
						readersOK = false
					}
				}
				return true
			})
		}
		// every CacheKey literal in the file takes its CD from a plain `<x>.CheckingDisabled` or a plain identifier
		ast.Inspect(fd.Body, func(x ast.Node) bool {
			cl, ok := x.(*ast.CompositeLit)
			if !ok {
				return true
			}
			if id, ok := cl.Type.(*ast.Ident); !ok || id.Name != "CacheKey" {
				return true
			}
			for _, el := range cl.Elts {
				kv, ok := el.(*ast.KeyValueExpr)
				if !ok {
					continue
				}
				if k, ok := kv.Key.(*ast.Ident); ok && k.Name == "CD" {
					switch v := kv.Value.(type) {
					case *ast.SelectorExpr:
						if v.Sel.Name != "CheckingDisabled" {
							keyOK = false
						}
						if fd.Name.Name == "Lookup" {
							if id, ok := v.X.(*ast.Ident); ok && id.Name == "req" {
								sawKey = true
							}
						}
					case *ast.Ident:
					default:
						keyOK = false
					}
				}
			}
			return true
		})
	}
	out["shape_private_lookup_keyed_on_request_cd"] = sawGet && readersOK && sawKey && keyOK
}

// windowShapeFacts reads middleware/resolver/dnssec/verify.go: every validity-window test is the library's
// ValidityPeriod handed the zero time (= the real clock, no tolerance added or subtracted), and every function that
// runs a public-key verification (`.Verify(`) tests the window too.
func windowShapeFacts(out map[string]any) {
	out["shape_window_checked_on_real_clock"] = false
	fset := token.NewFileSet()
	file, err := parser.ParseFile(fset, filepath.Join(repoDir(), "middleware/resolver/dnssec/verify.go"), nil, 0)
	if err != nil {
		out["shape_window_parse_error"] = err.Error()
		return
	}
	calls, good := 0, true
	hasWindow, needs := map[string]bool{}, map[string]bool{}
	bodies := map[string]*ast.BlockStmt{}
	for _, d := range file.Decls {
		fd, ok := d.(*ast.FuncDecl)
		if !ok || fd.Body == nil {
			continue
		}
		bodies[fd.Name.Name] = fd.Body
		here, crypto := 0, false
		ast.Inspect(fd.Body, func(x ast.Node) bool {
			c, ok := x.(*ast.CallExpr)
			if !ok {
				return true
			}
			sel, ok := c.Fun.(*ast.SelectorExpr)
			if !ok {
				return true
			}
			switch sel.Sel.Name {
			case "ValidityPeriod":
				here++
				zero := false
				if len(c.Args) == 1 {
					if cl, ok := c.Args[0].(*ast.CompositeLit); ok && len(cl.Elts) == 0 {
						if ts, ok := cl.Type.(*ast.SelectorExpr); ok && ts.Sel.Name == "Time" {
							if id, ok := ts.X.(*ast.Ident); ok && id.Name == "time" {
								zero = true
							}
						}
					}
				}
				if !zero {
					good = false
				}
			case "Verify":
				if len(c.Args) == 2 { // RRSIG.Verify(key, rrset)
					crypto = true
				}
			}
			return true
		})
		calls += here
		hasWindow[fd.Name.Name] = here > 0
		if crypto && here == 0 {
			needs[fd.Name.Name] = true
		}
	}
	// a function that verifies without testing the window itself is reached only through functions that do
	cryptoWithout := false
	for changed := true; changed; {
		changed = false
		for f := range needs {
			refs := 0
			for g, body := range bodies {
				if g == f {
					continue
				}
				uses := false
				ast.Inspect(body, func(x ast.Node) bool {
					if id, ok := x.(*ast.Ident); ok && id.Name == f {
						uses = true
					}
					return !uses
				})
				if uses {
					refs++
					if !hasWindow[g] && !needs[g] {
						needs[g] = true
						changed = true
					}
				}
			}
			if refs == 0 {
				cryptoWithout = true
			}
		}
	}
	out["shape_window_checked_on_real_clock"] = calls > 0 && good && !cryptoWithout
}

func main() {
	checkPairs()
	if len(os.Args) > 1 && os.Args[1] == "findpairs" {
		findPairs()
		return
	}
	vlib.Main(&vlib.Driver{Facts: facts, Exec: exec, Gen: gen})
	sys.close() // removes the last world's working directory
}
