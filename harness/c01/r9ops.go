//go:build verif

package main

import (
	"context"
	"fmt"
	"strings"
	"time"

	"github.com/miekg/dns"
	"github.com/semihalev/sdns/config"
	"github.com/semihalev/sdns/internal/mock"
	"github.com/semihalev/sdns/internal/verif/vlib"
	"github.com/semihalev/sdns/middleware"
	"github.com/semihalev/sdns/middleware/cache"
	"github.com/semihalev/sdns/middleware/edns"
)

// ------------------------------------------------------------------ the resolver's private cache lookups

// store priv <kind> <qtype> <stored> <askCD>
//
//	kind:   pos | nodata          qtype: DS | DNSKEY | A | NS
//	stored: list over {0,1}: the CD partitions an entry for the question is filed under ("-" = none);
//	        each entry is marked with its partition in its rdata
//	askCD:  the CD bit of the request Store.GetWithContext (the reader behind Resolver.subQuery) is asked with
func execStorePriv(f []string) vlib.Res {
	kind, qt, ask := f[2], qtypes[f[3]], bit(f[5])
	cfg := &config.Config{CacheSize: 1024, Expire: 600}
	c := cache.New(cfg)
	defer c.Stop()
	st := c.Store().(*cache.Store)
	const name = "key.privtest."
	hdr := func(t uint16) dns.RR_Header {
		return dns.RR_Header{Name: name, Rrtype: t, Class: dns.ClassINET, Ttl: 300}
	}
	mark := func(p int) dns.RR {
		switch qt {
		case dns.TypeDS:
			return &dns.DS{Hdr: hdr(qt), KeyTag: uint16(1000 + p), Algorithm: 13, DigestType: 2, Digest: strings.Repeat("ab", 32)}
		case dns.TypeDNSKEY:
			return &dns.DNSKEY{Hdr: hdr(qt), Flags: uint16(256 + p), Protocol: 3, Algorithm: 13, PublicKey: "bWFyaw=="}
		case dns.TypeNS:
			return &dns.NS{Hdr: hdr(qt), Ns: fmt.Sprintf("ns%d.privtest.", p)}
		}
		return &dns.A{Hdr: hdr(dns.TypeA), A: []byte{192, 0, 2, byte(p)}}
	}
	partOf := func(m *dns.Msg) string {
		for _, rr := range append(append([]dns.RR{}, m.Answer...), m.Ns...) {
			switch x := rr.(type) {
			case *dns.DS:
				return fmt.Sprint(int(x.KeyTag) - 1000)
			case *dns.DNSKEY:
				return fmt.Sprint(int(x.Flags) - 256)
			case *dns.NS:
				return strings.TrimSuffix(strings.TrimPrefix(x.Ns, "ns"), ".privtest.")
			case *dns.A:
				return fmt.Sprint(x.A[3])
			case *dns.SOA:
				return fmt.Sprint(x.Serial)
			}
		}
		return "?"
	}
	for _, p := range splitList(f[4]) {
		if p != "0" && p != "1" {
			continue
		}
		pi := vlib.Atoi(p)
		q := new(dns.Msg)
		q.SetQuestion(name, qt)
		m := new(dns.Msg)
		m.SetReply(q)
		m.RecursionAvailable = true
		m.CheckingDisabled = pi == 1
		m.AuthenticatedData = pi == 0
		if kind == "pos" {
			m.Answer = []dns.RR{mark(pi)}
		} else {
			m.Ns = []dns.RR{&dns.SOA{Hdr: dns.RR_Header{Name: "privtest.", Rrtype: dns.TypeSOA, Class: dns.ClassINET, Ttl: 300},
				Ns: "ns.privtest.", Mbox: "h.privtest.", Serial: uint32(pi), Refresh: 3600, Retry: 600, Expire: 86400, Minttl: 300}}
		}
		st.SetFromResponse(m, pi == 1, time.Time{})
	}
	req := new(dns.Msg)
	req.SetQuestion(name, qt)
	req.SetEdns0(1232, true)
	req.CheckingDisabled = ask
	got, ok := st.GetWithContext(context.Background(), req)
	impl, or := "miss", "ok"
	if ok && got != nil {
		p := partOf(got)
		impl = "hit:" + p
		if p != map[bool]string{false: "0", true: "1"}[ask] {
			or = fail("store/private-lookup-crossed-the-cd-partition", "kind=%s type=%s stored=%s askCD=%v got=%s", kind, f[3], f[4], ask, p)
		}
		if got.AuthenticatedData && ask {
			or = fail("store/private-lookup-ad-for-cd-request", "")
		}
	}
	return vlib.Res{Impl: impl, Oracle: or, Tags: "nt,kind:" + kind + ",qt:" + f[3]}
}

func genStorePriv(r *vlib.R) string {
	return fmt.Sprintf("store priv %s %s %s %s", vlib.Pick(r, []string{"pos", "pos", "nodata"}), vlib.Pick(r, []string{"DS", "DNSKEY", "DNSKEY", "A", "NS"}),
		vlib.Pick(r, []string{"0", "1", "1", "0,1", "-"}), tf(r))
}

// ------------------------------------------------------------------ names below a cached NXDOMAIN (RFC 8020 cut)

// reachedStub marks that a question got past the caches.
type reachedStub struct{ calls int }

func (s *reachedStub) Name() string { return "reachedstub" }
func (s *reachedStub) ServeDNS(ctx context.Context, ch *middleware.Chain) {
	s.calls++
	_, req := ch.Materialize(ctx)
	if req == nil {
		return
	}
	m := new(dns.Msg)
	m.SetRcode(req, dns.RcodeRefused)
	_ = ch.Writer.WriteMsg(m)
	ch.Cancel()
}

func fakeSig(owner string, covered uint16, signer string) *dns.RRSIG {
	return &dns.RRSIG{Hdr: dns.RR_Header{Name: owner, Rrtype: dns.TypeRRSIG, Class: dns.ClassINET, Ttl: 300}, TypeCovered: covered,
		Algorithm: dns.ECDSAP256SHA256, Labels: uint8(dns.CountLabel(owner)), OrigTtl: 300,
		Expiration: uint32(time.Now().Add(24 * time.Hour).Unix()), Inception: uint32(time.Now().Add(-time.Hour).Unix()),
		KeyTag: 4242, SignerName: signer, Signature: "Tm90QVJlYWxTaWduYXR1cmVCdXRWYWxpZEJhc2U2NA=="}
}

// ad cut <cd> <do> <ad> <opt> <proto> <route> <depth> <qtype>
//
//	a locally validated NXDOMAIN for gone.cut.adtest. is recorded as a cut; a name <depth> labels below it is asked
//	through edns -> cache -> (stub).  route: wire-direct | wire-ww | msg
func execAdCut(f []string) vlib.Res {
	cd, do, ad, opt := bit(f[2]), bit(f[3]), bit(f[4]), bit(f[5])
	proto, route, depth, qt := f[6], f[7], vlib.Atoi(f[8]), qtypes[f[9]]
	cfg := &config.Config{CacheSize: 1024, Expire: 600}
	e := edns.New(cfg)
	c := cache.New(cfg)
	defer c.Stop()
	st := c.Store().(*cache.Store)
	const zone, denied = "cut.adtest.", "gone.cut.adtest."
	proof := new(dns.Msg)
	proof.SetQuestion(denied, dns.TypeA)
	proof.Response = true
	proof.Rcode = dns.RcodeNameError
	proof.Ns = []dns.RR{
		&dns.SOA{Hdr: dns.RR_Header{Name: zone, Rrtype: dns.TypeSOA, Class: dns.ClassINET, Ttl: 300}, Ns: "ns." + zone, Mbox: "h." + zone,
			Serial: 1, Refresh: 3600, Retry: 600, Expire: 86400, Minttl: 300},
		fakeSig(zone, dns.TypeSOA, zone),
		&dns.NSEC{Hdr: dns.RR_Header{Name: "glib." + zone, Rrtype: dns.TypeNSEC, Class: dns.ClassINET, Ttl: 300}, NextDomain: "help." + zone,
			TypeBitMap: []uint16{dns.TypeA, dns.TypeRRSIG, dns.TypeNSEC}},
		fakeSig("glib."+zone, dns.TypeNSEC, zone),
	}
	if !st.RecordNXDomainCut(proof, denied, zone, time.Time{}) {
		return vlib.Res{Impl: "cut-refused", Oracle: fail("ad/cut/setup", "")}
	}
	name := denied
	for i := 0; i < depth; i++ {
		name = string(rune('a'+i)) + "." + name
	}
	req := clientReq(name, qt, cd, do, ad, opt)
	stub := &reachedStub{}
	hs := []middleware.Handler{e, c, stub}
	var resp *dns.Msg
	infoDiffers := false
	switch route {
	case "msg":
		resp, _ = runChain(hs, req, proto, false, false)
	case "wire-ww":
		var ww *wireWriter
		resp, ww = runChain(hs, req, proto, true, true)
		// what the writer chain is told about the body must be what the body says
		infoDiffers = resp != nil && ww.wrote && ww.info.AuthenticatedData != resp.AuthenticatedData
	default:
		raw, _ := req.Pack()
		var rq middleware.Request
		if !rq.ParseWire(raw, time.Now(), nil) {
			panic("ParseWire refused a packed query")
		}
		w := mock.NewWriter(proto, "10.9.8.7:5353")
		ch := middleware.NewChain(hs)
		ch.ResetWire(w, &rq)
		ch.AllowDirectPack()
		ch.Next(context.Background())
		if w.Written() {
			resp = w.Msg()
		}
	}
	if resp == nil {
		return vlib.Res{Impl: "noreply", Oracle: fail("ad/cut/no-reply", "")}
	}
	dnssecRecs := false
	for _, rr := range resp.Ns {
		switch rr.Header().Rrtype {
		case dns.TypeRRSIG, dns.TypeNSEC, dns.TypeNSEC3:
			dnssecRecs = true
		}
	}
	hit := stub.calls == 0
	impl := fmt.Sprintf("cut=%s rcode=%d ad=%s dnssec=%s", vlib.B(hit), resp.Rcode, vlib.B(resp.AuthenticatedData), vlib.B(dnssecRecs))
	if infoDiffers {
		impl += " info-differs"
	}
	or := "ok"
	switch {
	case infoDiffers:
		or = fail("ad/cut/wire-info-disagrees-with-body", "route=%s do=%v ad=%v", route, do, ad)
	case resp.AuthenticatedData && cd:
		or = fail("ad/cut/ad-toward-cd-client", "route=%s depth=%d", route, depth)
	case resp.AuthenticatedData && !do && !ad:
		or = fail("ad/cut/ad-toward-client-without-do-or-ad", "route=%s depth=%d opt=%v", route, depth, opt)
	case hit && cd:
		or = fail("ad/cut/checking-disabled-client-served-from-validated-cut", "route=%s", route)
	case dnssecRecs && !do:
		or = fail("ad/cut/dnssec-records-toward-client-without-do", "route=%s", route)
	case hit && resp.Rcode != dns.RcodeNameError:
		or = fail("ad/cut/wrong-rcode", "rcode=%d", resp.Rcode)
	}
	return vlib.Res{Impl: impl, Oracle: or, Tags: "nt,route:" + route + ",hit:" + vlib.B(hit)}
}

func genAdCut(r *vlib.R) string {
	opt := r.Chance(2, 3)
	do := opt && r.Bool()
	return fmt.Sprintf("ad cut %s %s %s %s %s %s %d %s", vlib.B(r.Chance(1, 5)), vlib.B(do), vlib.B(r.Chance(1, 3)), vlib.B(opt),
		vlib.Pick(r, []string{"udp", "udp", "tcp"}), vlib.Pick(r, []string{"wire-direct", "wire-direct", "wire-ww", "msg"}),
		r.Intn(4), vlib.Pick(r, []string{"A", "A", "AAAA", "TXT", "MX"}))
}

// ------------------------------------------------------------------ a cached alias whose target hop fails

// ad hitfail <cd> <do> <ad> <opt> <proto> <route> <nhops> <fail>
//
//	the alias chain alias -> t1 -> … is cached (validated) except for its last hop; the fetch of that hop fails:
//	fail = servfail-ede (SERVFAIL + EDE 6, as the resolver's handler answers a bogus zone) | servfail | refused |
//	       formerr | notimp
func execAdHitFail(f []string) vlib.Res {
	cd, do, ad, opt := bit(f[2]), bit(f[3]), bit(f[4]), bit(f[5])
	proto, route, nh, kind := f[6], f[7], vlib.Atoi(f[8]), f[9]
	cfg := &config.Config{CacheSize: 1024, Expire: 600}
	e := edns.New(cfg)
	c := cache.New(cfg)
	defer c.Stop()
	st := &tableStub{tab: map[string]*dns.Msg{}}
	c.SetQueryer(&chainQ{hs: []middleware.Handler{c, st}})
	name := func(i int) string {
		if i == 0 {
			return "alias.fail.adtest."
		}
		return fmt.Sprintf("t%d.fail.adtest.", i)
	}
	for i := 0; i < nh; i++ {
		q := new(dns.Msg)
		q.SetQuestion(name(i), dns.TypeA)
		m := new(dns.Msg)
		m.SetReply(q)
		m.RecursionAvailable = true
		if i == nh-1 {
			switch kind {
			case "servfail-ede":
				m.Rcode = dns.RcodeServerFailure
				m.SetEdns0(1232, true)
				m.IsEdns0().Option = append(m.IsEdns0().Option, &dns.EDNS0_EDE{InfoCode: dns.ExtendedErrorCodeDNSBogus, ExtraText: "bogus"})
			case "servfail":
				m.Rcode = dns.RcodeServerFailure
			case "refused":
				m.Rcode = dns.RcodeRefused
			case "formerr":
				m.Rcode = dns.RcodeFormatError
			default:
				m.Rcode = dns.RcodeNotImplemented
			}
			st.tab[name(i)] = m
			continue
		}
		m.AuthenticatedData = !cd
		m.CheckingDisabled = cd
		m.Answer = []dns.RR{&dns.CNAME{Hdr: dns.RR_Header{Name: name(i), Rrtype: dns.TypeCNAME, Class: 1, Ttl: 300}, Target: name(i + 1)}}
		st.tab[name(i)] = m
		c.Store().SetFromResponse(m.Copy(), cd, time.Time{})
	}
	req := clientReq(name(0), dns.TypeA, cd, do, ad, opt)
	hs := []middleware.Handler{e, c, st}
	var resp *dns.Msg
	switch route {
	case "msg":
		resp, _ = runChain(hs, req, proto, false, false)
	case "wire-ww":
		resp, _ = runChain(hs, req, proto, true, true)
	default:
		raw, _ := req.Pack()
		var rq middleware.Request
		if !rq.ParseWire(raw, time.Now(), nil) {
			panic("ParseWire refused a packed query")
		}
		w := mock.NewWriter(proto, "10.9.8.7:5353")
		ch := middleware.NewChain(hs)
		ch.ResetWire(w, &rq)
		ch.AllowDirectPack()
		ch.Next(context.Background())
		if w.Written() {
			resp = w.Msg()
		}
	}
	if resp == nil {
		return vlib.Res{Impl: "noreply", Oracle: fail("ad/hitfail/no-reply", "")}
	}
	n := 0
	for _, rr := range resp.Answer {
		if rr.Header().Rrtype != dns.TypeRRSIG {
			n++
		}
	}
	ede := edeOf(resp)
	impl := fmt.Sprintf("rcode=%d ad=%s n=%d ede=%s opt=%s", resp.Rcode, vlib.B(resp.AuthenticatedData), n, ede, vlib.B(resp.IsEdns0() != nil))
	or := "ok"
	switch {
	case resp.Rcode != dns.RcodeServerFailure:
		or = fail("ad/hitfail/failing-hop-not-answered-servfail", "kind=%s rcode=%d n=%d route=%s", kind, resp.Rcode, n, route)
	case n > 0 || resp.AuthenticatedData:
		or = fail("ad/hitfail/servfail-carries-records-or-ad", "kind=%s n=%d ad=%v", kind, n, resp.AuthenticatedData)
	case opt && ede == "none":
		or = fail("ad/hitfail/no-ede-for-edns-client", "kind=%s route=%s do=%v hops=%d", kind, route, do, nh)
	case !opt && resp.IsEdns0() != nil:
		or = fail("ad/hitfail/opt-toward-non-edns-client", "kind=%s route=%s", kind, route)
	}
	return vlib.Res{Impl: impl, Oracle: or, Tags: "nt,route:" + route + ",fail:" + kind}
}

func genAdHitFail(r *vlib.R) string {
	opt := r.Chance(3, 4)
	do := opt && r.Bool()
	return fmt.Sprintf("ad hitfail %s %s %s %s %s %s %d %s", vlib.B(r.Chance(1, 5)), vlib.B(do), tf(r), vlib.B(opt),
		vlib.Pick(r, []string{"udp", "udp", "tcp"}), vlib.Pick(r, []string{"wire-direct", "wire-direct", "wire-ww", "msg"}),
		2+r.Intn(3), vlib.Pick(r, []string{"servfail-ede", "servfail-ede", "servfail", "refused", "formerr", "notimp"}))
}

// ------------------------------------------------------------------ histories of a zone's key set in the cache

// keyStub is the resolver below the cache for one DNSKEY question: toward CD=1 it relays whatever is upstream
// (the genuine set, or a padded one), toward CD=0 it validates: the genuine set with AD, or SERVFAIL + EDE.
type keyStub struct{ authentic bool }

func (s *keyStub) Name() string { return "keystub" }
func (s *keyStub) ServeDNS(ctx context.Context, ch *middleware.Chain) {
	_, req := ch.Materialize(ctx)
	if req == nil {
		return
	}
	m := new(dns.Msg)
	m.SetReply(req)
	m.RecursionAvailable = true
	m.CheckingDisabled = req.CheckingDisabled
	q := req.Question[0]
	key := func(flags uint16) dns.RR {
		return &dns.DNSKEY{Hdr: dns.RR_Header{Name: q.Name, Rrtype: dns.TypeDNSKEY, Class: dns.ClassINET, Ttl: 300}, Flags: flags, Protocol: 3, Algorithm: 13, PublicKey: "bWFyaw=="}
	}
	switch {
	case s.authentic:
		m.Answer = []dns.RR{key(257)}
		m.AuthenticatedData = !req.CheckingDisabled
	case req.CheckingDisabled:
		m.Answer = []dns.RR{key(256), key(257)} // padded with a key of the attacker's
	default:
		m.Rcode = dns.RcodeServerFailure
		if req.IsEdns0() != nil {
			m.SetEdns0(1232, true)
			m.IsEdns0().Option = append(m.IsEdns0().Option, &dns.EDNS0_EDE{InfoCode: dns.ExtendedErrorCodeDNSBogus, ExtraText: "bogus"})
		}
	}
	_ = ch.Writer.WriteMsg(m)
	ch.Cancel()
}

func keyView(m *dns.Msg) string {
	if m == nil {
		return "none"
	}
	if m.Rcode != dns.RcodeSuccess {
		return "failed"
	}
	n := 0
	for _, rr := range m.Answer {
		if _, ok := rr.(*dns.DNSKEY); ok {
			n++
		}
	}
	switch n {
	case 1:
		return "genuine"
	case 2:
		return "padded"
	}
	return "other"
}

// keycache run <events>
//
//	events (comma list): q0a q0b q1a q1b = a client asks '<zone> DNSKEY' with CD=0/1 while upstream is
//	authentic (a) / padded (b);  x = every cached entry expires.  After the history the validator's own fetch
//	(Store.GetWithContext, CD=0) and a checking-disabled one (CD=1) are made.
func execKeyCache(f []string) vlib.Res {
	cfg := &config.Config{CacheSize: 1024, Expire: 600}
	e := edns.New(cfg)
	c := cache.New(cfg)
	defer c.Stop()
	stub := &keyStub{}
	hs := []middleware.Handler{e, c, stub}
	const name = "zone.keytest."
	var replies []string
	or := "ok"
	for _, ev := range splitList(f[2]) {
		if ev == "x" {
			cache.VerifShift(c, 700*time.Second)
			replies = append(replies, "-")
			continue
		}
		cd := ev[1] == '1'
		stub.authentic = ev[2] == 'a'
		req := clientReq(name, dns.TypeDNSKEY, cd, true, false, true)
		resp, _ := runChain(hs, req, "udp", false, false)
		v := keyView(resp)
		replies = append(replies, v)
		if !cd && v == "padded" {
			or = fail("keycache/validating-client-served-unvalidated-key-set", "events=%s at=%s", f[2], ev)
		}
		if resp != nil && resp.AuthenticatedData && (cd || v != "genuine") {
			or = fail("keycache/ad-on-unvalidated-key-set", "events=%s at=%s", f[2], ev)
		}
	}
	st := c.Store().(*cache.Store)
	see := func(cd bool) string {
		req := new(dns.Msg)
		req.SetQuestion(name, dns.TypeDNSKEY)
		req.SetEdns0(1232, true)
		req.CheckingDisabled = cd
		m, ok := st.GetWithContext(context.Background(), req)
		if !ok {
			return "none"
		}
		return keyView(m)
	}
	v0, v1 := see(false), see(true)
	if v0 == "padded" {
		or = fail("keycache/validator-fetch-served-unvalidated-key-set", "events=%s", f[2])
	}
	return vlib.Res{Impl: fmt.Sprintf("replies=%s v0=%s v1=%s", strings.Join(replies, ","), v0, v1), Oracle: or, Tags: "nt"}
}

func genKeyCache(r *vlib.R) string {
	n := 1 + r.Intn(6)
	evs := make([]string, n)
	for i := range evs {
		evs[i] = vlib.Pick(r, []string{"q0a", "q0b", "q1a", "q1b", "q1b", "q0a", "x"})
	}
	return "keycache run " + strings.Join(evs, ",")
}

// ------------------------------------------------------------------ the validity window at its edges

// window check now=<unix> inc=<uint32> exp=<uint32>
//
//	dns.RRSIG.ValidityPeriod — the one window test of the tree (verify.go hands it the zero time = the real clock,
//	see shape_window_checked_on_real_clock) — evaluated at a CHOSEN instant, so that the first and last valid second
//	and the seconds just outside are hit exactly, also where the 32-bit fields wrap.
func execWindow(f []string) vlib.Res {
	m := kv(f)
	now, inc, exp := vlib.AtoI64(m["now"]), vlib.AtoI64(m["inc"]), vlib.AtoI64(m["exp"])
	sig := &dns.RRSIG{Inception: uint32(inc), Expiration: uint32(exp)}
	got := sig.ValidityPeriod(time.Unix(now, 0))
	or := "ok"
	tag := "wrap"
	near := func(x int64) bool { d := x - now; return d < 1<<30 && d > -(1<<30) }
	if near(inc) && near(exp) {
		tag = "plain"
		want := inc <= now && now <= exp
		switch {
		case got && !want:
			or = fail("window/signature-accepted-outside-its-validity-period", "now=%d inc=%d exp=%d", now, inc, exp)
		case !got && want:
			or = fail("window/signature-refused-inside-its-validity-period", "now=%d inc=%d exp=%d", now, inc, exp)
		}
	}
	edge := "far"
	for _, d := range []int64{now - inc, now - exp} {
		if d >= -1 && d <= 1 {
			edge = "edge"
		}
	}
	return vlib.Res{Impl: "valid=" + vlib.B(got), Oracle: or, Tags: "nt,w:" + tag + ",w:" + edge}
}

func genWindow(r *vlib.R) string {
	now := vlib.Pick(r, []int64{1790000000, 1790000000, time.Now().Unix(), 2147483647, 2147483648, 2147483650, 4294967290, 4294967296, 4294967300, 5000000000, 100, 0})
	now += int64(r.Intn(5)) - 2
	if now < 0 {
		now = 0
	}
	off := func() int64 {
		return vlib.Pick(r, []int64{-2, -1, 0, 1, 2, -3600, 3600, -86400, 86400 * 30, -(1<<31 - 1), 1<<31 - 1, -(1 << 31), 1 << 31, -(1<<31 + 1), 1<<31 + 1, 1 << 30, -(1 << 30)})
	}
	a, b := off(), off()
	if r.Chance(2, 3) { // an ordinary window around / beside now, one edge at distance -1 / 0 / +1
		a, b = vlib.Pick(r, []int64{-3600, -1, 0, 1, -86400}), vlib.Pick(r, []int64{3600, 1, 0, -1, 86400})
	}
	u32 := func(x int64) int64 { return int64(uint32(x)) }
	inc, exp := now+a, now+b
	if inc < 0 || inc >= 1<<32 || exp < 0 || exp >= 1<<32 {
		inc, exp = u32(inc), u32(exp) // the fields are 32 bits wide: the value travels modulo 2^32
	}
	return fmt.Sprintf("window check now=%d inc=%d exp=%d", now, inc, exp)
}
