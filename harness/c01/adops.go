//go:build verif

package main

import (
	"context"
	"errors"
	"fmt"
	"strings"
	"time"

	"github.com/miekg/dns"
	"github.com/semihalev/sdns/config"
	"github.com/semihalev/sdns/internal/dnsutil"
	"github.com/semihalev/sdns/internal/mock"
	"github.com/semihalev/sdns/internal/verif/vlib"
	"github.com/semihalev/sdns/middleware"
	"github.com/semihalev/sdns/middleware/cache"
	"github.com/semihalev/sdns/middleware/edns"
	"github.com/semihalev/sdns/middleware/resolver/dnssec"
)

// wireWriter is a transport that also accepts packed bodies.
type wireWriter struct {
	*mock.Writer
	body  []byte
	info  middleware.WireInfo
	wrote bool
}

func (w *wireWriter) WireReady() (middleware.WireCapability, bool) {
	return middleware.WireCapability{}, true
}
func (w *wireWriter) WriteWire(body []byte, info middleware.WireInfo) error {
	w.body = append([]byte(nil), body...)
	w.info = info
	w.wrote = true
	return nil
}

// adStub stands for everything below the layer under test: it answers with a chosen AD bit.
type adStub struct {
	ad    bool
	big   bool
	wire  bool
	calls int
	note  string
}

func (s *adStub) Name() string { return "adstub" }
func (s *adStub) ServeDNS(ctx context.Context, ch *middleware.Chain) {
	s.calls++
	_, req := ch.Materialize(ctx)
	if req == nil {
		return
	}
	m := new(dns.Msg)
	m.SetReply(req)
	m.RecursionAvailable = true
	m.AuthenticatedData = s.ad
	m.CheckingDisabled = req.CheckingDisabled
	q := req.Question[0]
	n := 1
	if s.big {
		n = 40
	}
	for i := 0; i < n; i++ {
		if s.big {
			m.Answer = append(m.Answer, &dns.TXT{Hdr: dns.RR_Header{Name: q.Name, Rrtype: dns.TypeTXT, Class: 1, Ttl: 300},
				Txt: []string{strings.Repeat("x", 200) + fmt.Sprint(i)}})
		} else {
			m.Answer = append(m.Answer, &dns.A{Hdr: dns.RR_Header{Name: q.Name, Rrtype: dns.TypeA, Class: 1, Ttl: 300}, A: []byte{192, 0, 2, 1}})
		}
	}
	if s.wire {
		ww, ok := ch.Writer.(middleware.WireWriter)
		if !ok {
			s.note = "no-wire-writer"
			_ = ch.Writer.WriteMsg(m)
			ch.Cancel()
			return
		}
		capab, ok := ww.WireReady()
		if !ok {
			s.note = "not-ready"
			_ = ch.Writer.WriteMsg(m)
			ch.Cancel()
			return
		}
		packed, _ := m.Pack()
		body := make([]byte, len(packed), len(packed)+capab.Reserve+64)
		copy(body, packed)
		if err := ww.WriteWire(body, middleware.WireInfo{Rcode: 0, AuthenticatedData: s.ad}); err != nil {
			s.note = "fallback"
			_ = ch.Writer.WriteMsg(m)
		}
		ch.Cancel()
		return
	}
	_ = ch.Writer.WriteMsg(m)
	ch.Cancel()
}

func clientReq(name string, qtype uint16, cd, do, ad, opt bool) *dns.Msg {
	req := new(dns.Msg)
	req.SetQuestion(name, qtype)
	req.RecursionDesired = true
	req.CheckingDisabled = cd
	req.AuthenticatedData = ad
	if opt {
		req.SetEdns0(1232, do)
	}
	return req
}

func bit(s string) bool { return s == "t" }

// runChain sends req through handlers; born=wire parses the packed request the way the server does.
func runChain(handlers []middleware.Handler, req *dns.Msg, proto string, wireBorn, wireTransport bool) (*dns.Msg, *wireWriter) {
	mw := mock.NewWriter(proto, "10.9.8.7:5353")
	ww := &wireWriter{Writer: mw}
	var tr middleware.Transport = mw
	if wireTransport {
		tr = ww
	}
	ch := middleware.NewChain(handlers)
	if wireBorn {
		raw, err := req.Pack()
		if err != nil {
			panic(err)
		}
		var rq middleware.Request
		if !rq.ParseWire(raw, time.Now(), nil) {
			panic("ParseWire refused a packed query")
		}
		ch.ResetWire(tr, &rq)
	} else {
		ch.Reset(tr, req)
	}
	ch.Next(context.Background())
	if ww.wrote {
		m := new(dns.Msg)
		if err := m.Unpack(ww.body); err != nil {
			panic(err)
		}
		return m, ww
	}
	if !mw.Written() {
		return nil, ww
	}
	return mw.Msg(), ww
}

// ad edns <cd> <do> <ad> <opt> <proto> <born> <respAD> <big> <wire>
func execAdEdns(f []string) vlib.Res {
	cd, do, ad, opt := bit(f[2]), bit(f[3]), bit(f[4]), bit(f[5])
	proto, born := f[6], f[7]
	respAD, big, wire := bit(f[8]), bit(f[9]), bit(f[10])
	st := &adStub{ad: respAD, big: big, wire: wire}
	e := edns.New(&config.Config{})
	req := clientReq("q.adtest.", dns.TypeA, cd, do, ad, opt)
	m, ww := runChain([]middleware.Handler{e, st}, req, proto, born == "wire", wire)
	if m == nil {
		return vlib.Res{Impl: "noreply", Oracle: fail("ad/edns/no-reply", "")}
	}
	impl := fmt.Sprintf("ad=%s tc=%s", vlib.B(m.AuthenticatedData), vlib.B(m.Truncated))
	if ww.wrote && ww.info.AuthenticatedData != m.AuthenticatedData {
		impl += " info-differs"
	}
	or := "ok"
	if m.AuthenticatedData {
		switch {
		case cd:
			or = fail("ad/edns/ad-toward-cd-client", "")
		case !do && !ad:
			or = fail("ad/edns/ad-toward-client-without-do-or-ad", "")
		case !respAD:
			or = fail("ad/edns/ad-invented", "")
		case m.Truncated:
			or = fail("ad/edns/ad-on-truncated-reply", "")
		}
	}
	return vlib.Res{Impl: impl, Oracle: or, Tags: "nt"}
}

// ad tomsg <storedAD> <reqCD> <path>     path: msg | wire
func execAdToMsg(f []string) vlib.Res {
	stored, reqCD, path := bit(f[2]), bit(f[3]), f[4]
	m := new(dns.Msg)
	m.SetQuestion("hit.adtest.", dns.TypeA)
	m.Response = true
	m.RecursionAvailable = true
	m.AuthenticatedData = stored
	m.Answer = []dns.RR{&dns.A{Hdr: dns.RR_Header{Name: "hit.adtest.", Rrtype: dns.TypeA, Class: 1, Ttl: 300}, A: []byte{192, 0, 2, 7}}}
	e := cache.NewCacheEntry(m, 300*time.Second, 0)
	req := clientReq("hit.adtest.", dns.TypeA, reqCD, true, false, true)
	got := false
	impl := ""
	if path == "wire" {
		body, info, ok := cache.VerifC01ServeWire(e, req, true)
		if !ok {
			return vlib.Res{Impl: "not-servable"}
		}
		r := new(dns.Msg)
		if err := r.Unpack(body); err != nil {
			return vlib.Res{Impl: "unpack-error"}
		}
		got = r.AuthenticatedData
		impl = "ad=" + vlib.B(got)
		if info.AuthenticatedData != got {
			impl += " info-differs"
		}
	} else {
		r := e.ToMsg(req)
		if r == nil {
			return vlib.Res{Impl: "nil"}
		}
		got = r.AuthenticatedData
		impl = "ad=" + vlib.B(got)
	}
	or := "ok"
	if got && reqCD {
		or = fail("ad/cache-hit/ad-kept-for-cd-request", "path=%s", path)
	}
	if got && !stored {
		or = fail("ad/cache-hit/ad-invented", "path=%s", path)
	}
	return vlib.Res{Impl: impl, Oracle: or, Tags: "nt"}
}

// ad chase <outerAD> <hop,hop,...>
func execAdChase(f []string) vlib.Res {
	msg := new(dns.Msg)
	msg.SetQuestion("alias.adtest.", dns.TypeA)
	msg.AuthenticatedData = bit(f[2])
	all := bit(f[2])
	for i, h := range splitList(f[3]) {
		res := new(dns.Msg)
		res.AuthenticatedData = bit(h)
		res.Answer = []dns.RR{&dns.A{Hdr: dns.RR_Header{Name: fmt.Sprintf("t%d.adtest.", i), Rrtype: dns.TypeA, Class: 1, Ttl: 60}, A: []byte{192, 0, 2, byte(i)}}}
		cache.VerifC01SearchAdditionalAnswer(msg, res)
		all = all && bit(h)
	}
	or := "ok"
	if msg.AuthenticatedData && !all {
		or = fail("ad/chase/ad-survives-unvalidated-hop", "")
	}
	return vlib.Res{Impl: "ad=" + vlib.B(msg.AuthenticatedData), Oracle: or, Tags: "nt"}
}

// ad pipe <validated> <cd> <do> <ad> <opt> <proto> <born> <transport>
// the real edns and cache handlers over a stub resolver; the same query twice.
func execAdPipe(f []string) vlib.Res {
	validated, cd, do, ad, opt := bit(f[2]), bit(f[3]), bit(f[4]), bit(f[5]), bit(f[6])
	proto, born, transport := f[7], f[8], f[9]
	cfg := &config.Config{CacheSize: 1024, Expire: 600}
	e := edns.New(cfg)
	c := cache.New(cfg)
	defer c.Stop()
	st := &adStub{ad: validated}
	hs := []middleware.Handler{e, c, st}
	var ads []string
	or := "ok"
	for i := 0; i < 2; i++ {
		req := clientReq("pipe.adtest.", dns.TypeA, cd, do, ad, opt)
		m, _ := runChain(hs, req, proto, born == "wire", transport == "wire")
		if m == nil {
			return vlib.Res{Impl: "noreply", Oracle: fail("ad/pipe/no-reply", "")}
		}
		ads = append(ads, vlib.B(m.AuthenticatedData))
		if m.AuthenticatedData && (cd || (!do && !ad) || !validated) {
			or = fail("ad/pipe/ad-not-allowed", "round=%d cd=%v do=%v ad=%v validated=%v", i, cd, do, ad, validated)
		}
	}
	return vlib.Res{Impl: fmt.Sprintf("ad1=%s ad2=%s hit=%s", ads[0], ads[1], vlib.B(st.calls == 1)), Oracle: or, Tags: "nt"}
}

// ------------------------------------------------------------------ errors toward the client

var errOrder = []string{"nokey", "missing", "nosigs", "period", "alg", "badsig", "noksk", "mismatchds", "convert", "nodnskey",
	"emptyds", "dsrecords", "anchors", "wildcard", "nsecmissing", "denial"}

func errValue(class string) error {
	switch class {
	case "nokey":
		return dnssec.ErrMissingDNSKEY
	case "missing":
		return dnssec.ErrMissingSigned
	case "nosigs":
		return dnssec.ErrNoSignatures
	case "period":
		return dnssec.ErrInvalidSignaturePeriod
	case "alg":
		return dns.ErrAlg
	case "badsig":
		return dns.ErrSig
	case "noksk":
		return dnssec.ErrMissingKSK
	case "mismatchds":
		return dnssec.ErrMismatchingDS
	case "convert":
		return dnssec.ErrFailedToConvertKSK
	case "nodnskey":
		return dnssec.ErrNoDNSKEY
	case "emptyds":
		return errors.New("DS RR set empty")
	case "dsrecords":
		return dnssec.ErrDSRecords
	case "anchors":
		return dnssec.ErrTrustAnchorsUnavailable
	case "wildcard":
		return dnssec.ErrWildcardNoDenial
	case "nsecmissing":
		return dnssec.ErrNSECMissingCoverage
	case "denial":
		return dnssec.ErrNSECTypeExists
	}
	panic("unknown error class " + class)
}

func edeOf(m *dns.Msg) string {
	if o := m.IsEdns0(); o != nil {
		for _, x := range o.Option {
			if e, ok := x.(*dns.EDNS0_EDE); ok {
				return fmt.Sprint(e.InfoCode)
			}
		}
	}
	return "none"
}

// err ede <class> <opt> <do>     what DNSHandler.handle does with a resolver error
func execErr(f []string) vlib.Res {
	class, opt, do := f[2], bit(f[3]), bit(f[4])
	req := clientReq("bogus.adtest.", dns.TypeA, false, do && opt, false, opt)
	code, text := dnsutil.ErrorToEDE(errValue(class))
	m := dnsutil.SetRcodeWithEDE(req, dns.RcodeServerFailure, do && opt, code, text)
	impl := fmt.Sprintf("rcode=%d ede=%s ad=%s ans=%d", m.Rcode, edeOf(m), vlib.B(m.AuthenticatedData), len(m.Answer)+len(m.Ns))
	or := "ok"
	switch {
	case m.Rcode != dns.RcodeServerFailure:
		or = fail("err/validation-error-not-servfail", "rcode=%d", m.Rcode)
	case opt && edeOf(m) == "none":
		or = fail("err/no-ede-for-edns-client", "class=%s", class)
	case !opt && m.IsEdns0() != nil:
		or = fail("err/opt-toward-non-edns-client", "")
	case m.AuthenticatedData || len(m.Answer) > 0:
		or = fail("err/servfail-carries-data-or-ad", "")
	}
	return vlib.Res{Impl: impl, Oracle: or}
}
