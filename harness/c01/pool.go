//go:build verif

package main

import (
	"crypto"
	"crypto/ecdsa"
	"crypto/ed25519"
	"crypto/elliptic"
	"crypto/rsa"
	"crypto/sha256"
	"crypto/x509"
	"encoding/base64"
	"encoding/binary"
	"fmt"
	"math/big"
	"sync"

	"github.com/miekg/dns"
)

// A deterministic pool of key material: pool index -> (algorithm, private
// key, RFC 4034 public key text).  Determinism keeps key tags stable across
// runs, so an op line written by one run replays in another.
type poolKey struct {
	alg  uint8
	priv crypto.Signer
	pub  string // DNSKEY PublicKey (base64)
}

var (
	poolMu sync.Mutex
	poolM  = map[int]*poolKey{}
)

// poolAlg: the algorithm of pool slot i.  Slots ≥ 1000 are Ed25519 only (the
// same-tag searches run there); slot 900/901 are the embedded RSA keys.
func poolAlg(i int) uint8 {
	switch {
	case i == 900 || i == 901:
		return dns.RSASHA256
	case i >= 1000:
		return dns.ED25519
	}
	switch i % 3 {
	case 0:
		return dns.ED25519
	case 1:
		return dns.ECDSAP256SHA256
	}
	return dns.ECDSAP384SHA384
}

func seedBytes(i int, n int) []byte {
	out := make([]byte, 0, n)
	ctr := 0
	for len(out) < n {
		var b [16]byte
		binary.BigEndian.PutUint64(b[:8], uint64(i))
		binary.BigEndian.PutUint64(b[8:], uint64(ctr))
		h := sha256.Sum256(append([]byte("c01-pool-key/"), b[:]...))
		out = append(out, h[:]...)
		ctr++
	}
	return out[:n]
}

func pool(i int) *poolKey {
	poolMu.Lock()
	defer poolMu.Unlock()
	if k, ok := poolM[i]; ok {
		return k
	}
	k := &poolKey{alg: poolAlg(i)}
	switch k.alg {
	case dns.ED25519:
		p := ed25519.NewKeyFromSeed(seedBytes(i, 32))
		k.priv = p
		k.pub = base64.StdEncoding.EncodeToString(p.Public().(ed25519.PublicKey))
	case dns.ECDSAP256SHA256, dns.ECDSAP384SHA384:
		curve, size := elliptic.P256(), 32
		if k.alg == dns.ECDSAP384SHA384 {
			curve, size = elliptic.P384(), 48
		}
		var p *ecdsa.PrivateKey
		for ctr := 0; ; ctr++ {
			d := seedBytes(i*131+ctr, size)
			d[0] &= 0x7f // stay below the group order
			if new(big.Int).SetBytes(d).Sign() == 0 {
				continue
			}
			var err error
			p, err = ecdsa.ParseRawPrivateKey(curve, d)
			if err == nil {
				break
			}
		}
		k.priv = p
		pt, err := p.PublicKey.Bytes() // 0x04 || X || Y
		if err != nil {
			panic(err)
		}
		k.pub = base64.StdEncoding.EncodeToString(pt[1:])
	case dns.RSASHA256:
		der, err := base64.StdEncoding.DecodeString(rsaDER[i-900])
		if err != nil {
			panic(err)
		}
		p, err := x509.ParsePKCS1PrivateKey(der)
		if err != nil {
			panic(err)
		}
		k.priv = p
		k.pub = rsaPub(&p.PublicKey)
	}
	poolM[i] = k
	return k
}

// rsaPub is the RFC 3110 public key field.
func rsaPub(p *rsa.PublicKey) string {
	e := big.NewInt(int64(p.E)).Bytes()
	buf := []byte{byte(len(e))}
	buf = append(buf, e...)
	buf = append(buf, p.N.Bytes()...)
	return base64.StdEncoding.EncodeToString(buf)
}

// dnskey realises pool slot i as a DNSKEY record.
func dnskey(i int, owner string, class uint16, flags uint16, proto uint8) *dns.DNSKEY {
	k := pool(i)
	return &dns.DNSKEY{Hdr: dns.RR_Header{Name: owner, Rrtype: dns.TypeDNSKEY, Class: class, Ttl: 3600},
		Flags: flags, Protocol: proto, Algorithm: k.alg, PublicKey: k.pub}
}

// Same-tag pairs among the Ed25519 slots ≥ 1000 (found once with `c01 findpairs`,
// verified on every start by checkPairs): two KSKs with one tag, and a KSK
// whose tag equals a ZSK's.
var (
	pairKK = [2]int{1147, 1199} // flags 257 / 257, tag 23551
	pairKZ = [2]int{1284, 1286} // flags 257 / 256, tag 65363
)

func tagOf(i int, flags uint16) uint16 { return dnskey(i, "x.", dns.ClassINET, flags, 3).KeyTag() }

func findPairs() {
	seenK := map[uint16]int{}
	seenZ := map[uint16]int{}
	kk, kz := false, false
	for i := 1000; i < 4000 && !(kk && kz); i++ {
		tk, tz := tagOf(i, 257), tagOf(i, 256)
		if j, ok := seenK[tk]; ok && !kk {
			fmt.Printf("pairKK = [2]int{%d, %d} // tag %d\n", j, i, tk)
			kk = true
		}
		if j, ok := seenK[tz]; ok && !kz {
			fmt.Printf("pairKZ = [2]int{%d, %d} // tag %d\n", j, i, tz)
			kz = true
		}
		seenK[tk] = i
		seenZ[tz] = i
	}
}

func checkPairs() {
	if tagOf(pairKK[0], 257) != tagOf(pairKK[1], 257) || pairKK[0] == pairKK[1] {
		panic("c01: pairKK is not a same-tag pair any more")
	}
	if tagOf(pairKZ[0], 257) != tagOf(pairKZ[1], 256) || pairKZ[0] == pairKZ[1] {
		panic("c01: pairKZ is not a same-tag pair any more")
	}
}

// two 1024-bit RSA test keys (PKCS#1 DER, base64); test material only.
var rsaDER = [2]string{
	"MIICXQIBAAKBgQCz2V8csrJS0pZUghRdFq5RzabtkIu4GUyl+/d/oo4dsfr3+HxHkF/bJp1AduydcoIpEY0EHXWZ6WAg88SCq0CbGUU9CUyKXWStlx5grgfBoDSOJbDoaIlqByGA4JBms9wO/j4gJPbartUg0Cs2/ZbfX5EaKP5bOLtOvyMOeYFvZwIDAQABAoGADx6PieSV7DOK8sjKuHavKe5dgaw8qrnpwSx5BpBeXS24uP75R7Th8hUBdElrI+NcAOLaVYW6fLlrXOnRU+DcuejuIY67VP/QYKljFyw5Bk6SSK06R79fm/kPYXda+yVoxKVG3hFg3/4/5FpwnvyzWI9wCdC0zleOR9+yoagRla0CQQDAHmiWWyiyAd+R5CcwkOPBxTvsBG5FYoXs0CvEuldRnL9H6q4NSZ2761KetfFBkV5lVrLIIuN5uDV5WNRB1S1rAkEA76aKQB13XKgJ/qQRy1SwrVEhab511Qb/82jvgGmcOZIt9AIFyz5+h1oJj29l35kuazoXDUi0h28cP1S/Nvzo9QJATd2FQjtcORltRbIU+CghR23rJXN+RfzyjtKoiqmDrn47QKirNpN5rKpp6A2R5KNIgQYsm9UYIUM52R7ZmH0QVQJBANsXq27gQX6RFcoaHzZ/76IT+PMer8UYyCi1N7hzVOMBNEfPDZL5SF3fv7vFQSKBfYGEMwzu+jSTLQTtKn9QCn0CQQCB/j25//arV7IDexwB7nAwmrcCWrqj8Qvc0+9TeW3uOerqyRvGazsDCjemOp0QPYSTMuzEaGgvXQV9Wo3liCCd",
	"MIICXQIBAAKBgQDBA6p38jBnQVnln6oWt75L0fFvYqHI5N5OSDOw3VKfaaORJ/+1Ggfk46mjxB0tgeIDMoRI20/OikJv0QhSm9BEpqTzTajQ7OeyLwCswA4gw9Rs2jPDaEshK0GaMHIk+suHLFMMYepkGwWl2qIsSjUGmjsZd10eleiaaTHbwvynlQIDAQABAoGANnZu2RadQt2FXM5PQ8bIKwPMARaPOS0fb25fK5Zf9Hxt+40SUctNE/CLkxrI8ujV2focqqQ7ojeQJJYSp6CwxNhmxsRdz38JoLoWSmY13/Lvn8GX+4Zk5fjaZvDKbmRwSOGKy/cd8yp5q2NKZrJ5gHa5E9c+iiVQ12ktz3qptCcCQQDygDWtDgw8FPJUBBgvesdrICYTg1bcezJ5mcdT1E+QqtGto+4GuqRNaYga0I3MVHNKhsB1aQa924JqFPncecNLAkEAy8I+BDbK9sI1s6SwPqVwsG3b7esOaZJPZNcKJJclDQHh0Sr0fqsgBCQ2iyBsUV4oOqlwK5GM0PFVoJYwvT+UnwJAWJzZAF+9wMa2tlS4scDf1hltUHwR5YdvLlgvKkbOvEJvVFAuzm6tU0xY29ORvTSu3HDZKw4x1Ha99R2tIA+ueQJBALryszfmlf4lXmQ+vD4eSPB3O4xlWEngpduduX6s9p+ilG/3e3AkzjE+kJTB4OAfBcYc4//1gT/LzYaThpB8n30CQQDWR05RpTvkzMKUg/VN3WVQtYjNADXPOBC3WUEmeIUhidvz1BLNYikjM8mh1W0uYwxQO0Dz4FnNJbYZJYBuv5PH",
}
