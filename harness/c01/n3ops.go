//go:build verif

package main

import (
	"errors"
	"fmt"
	"sort"
	"strings"

	"github.com/miekg/dns"
	"github.com/semihalev/sdns/internal/verif/vlib"
	"github.com/semihalev/sdns/middleware/resolver/dnssec"
)

// nsec3 nodata q=<name> t=<qtype> Z=<name>:<flags><bits>,…  it=<n> salt=<hex> V=<view>
//
// The real VerifyNODATAForZoneWithWork over a hashed-denial ring of the zone n3.test.: one NSEC3 per
// listed name (Opt-Out flag per RECORD: `o` set / `-` clear; type bits of interest: q = the query
// type, c CNAME, s SOA, n NS, d DNAME).  V is what the oracle's own ring lookup (dns.HashName) says
// about the question; the model decides from V alone:
//   V = x<q|-><s|-><n|-> | m<ce:0|1>:<cover:n|0|1>:<wild:n|<q|-><0|1>>   (x exact match, m no exact match)
const n3zone = "n3.test."

type n3rec struct {
	name   string
	optout bool
	bits   string
	hash   string
}

func n3hash(name string, it int, salt string) string {
	return strings.ToUpper(dns.HashName(name, dns.SHA1, uint16(it), salt))
}

func n3bitmap(bits string, qtype uint16) []uint16 {
	m := map[uint16]bool{dns.TypeRRSIG: true}
	for _, b := range bits {
		switch b {
		case 'q':
			m[qtype] = true
		case 'c':
			m[dns.TypeCNAME] = true
		case 's':
			m[dns.TypeSOA] = true
		case 'n':
			m[dns.TypeNS] = true
		case 'd':
			m[dns.TypeDNAME] = true
		case 't':
			m[dns.TypeMX] = true
		}
	}
	var out []uint16
	for t := range m {
		out = append(out, t)
	}
	sort.Slice(out, func(i, j int) bool { return out[i] < out[j] })
	return out
}

func parseN3(zs string, it int, salt string) []*n3rec {
	var recs []*n3rec
	for _, t := range splitList(zs) {
		nm, fl, _ := strings.Cut(t, ":")
		recs = append(recs, &n3rec{name: tokName(nm), optout: fl[0] == 'o', bits: fl[1:], hash: n3hash(tokName(nm), it, salt)})
	}
	sort.Slice(recs, func(i, j int) bool { return recs[i].hash < recs[j].hash })
	return recs
}

// n3view: the oracle's reading of the ring for (qname, qtype).
func n3view(recs []*n3rec, qname string, it int, salt string) string {
	match := func(name string) *n3rec {
		h := n3hash(name, it, salt)
		for _, r := range recs {
			if r.hash == h {
				return r
			}
		}
		return nil
	}
	cover := func(name string) *n3rec {
		h := n3hash(name, it, salt)
		for i, r := range recs {
			next := recs[(i+1)%len(recs)].hash
			switch {
			case r.hash < next && r.hash < h && h < next:
				return r
			case r.hash >= next && (h > r.hash || h < next): // last record wraps (or a one-record ring)
				if h != r.hash {
					return r
				}
			}
		}
		return nil
	}
	flag := func(b bool, s string) string {
		if b {
			return s
		}
		return "-"
	}
	has := func(r *n3rec, c string) bool { return strings.Contains(r.bits, c) }
	if m := match(qname); m != nil {
		return "x" + flag(has(m, "q") || has(m, "c"), "q") + flag(has(m, "s"), "s") + flag(has(m, "n"), "n")
	}
	labels := dns.SplitDomainName(qname)
	zl := dns.CountLabel(n3zone)
	ce, nc := "", ""
	var cer *n3rec
	for i := 1; i <= len(labels)-zl; i++ {
		anc := strings.Join(labels[i:], ".") + "."
		if m := match(anc); m != nil {
			ce, cer = anc, m
			nc = strings.Join(labels[i-1:], ".") + "."
			break
		}
	}
	if ce == "" {
		return "m0:n:n"
	}
	ceKind := "1"
	if has(cer, "d") || (has(cer, "n") && !has(cer, "s")) {
		ceKind = "b" // the closest encloser is a delegation point / DNAME owner
	}
	cv := "n"
	if c := cover(nc); c != nil {
		cv = flag(c.optout, "1")
		if cv == "-" {
			cv = "0"
		}
	}
	wv := "n"
	if w := match("*." + ce); w != nil {
		wv = flag(has(w, "q") || has(w, "c"), "q")
		if w.optout {
			wv += "1"
		} else {
			wv += "0"
		}
	}
	return "m" + ceKind + ":" + cv + ":" + wv
}

func execN3(f []string) vlib.Res {
	m := kv(f)
	it := vlib.Atoi(m["it"])
	salt := m["salt"]
	if salt == "-" {
		salt = ""
	}
	qtype := uint16(vlib.Atoi(m["t"]))
	qname := tokName(m["q"])
	recs := parseN3(m["Z"], it, salt)
	if n3view(recs, qname, it, salt) != m["V"] {
		return vlib.Res{Impl: "view-drift:" + n3view(recs, qname, it, salt)}
	}
	var set []dns.RR
	for i, r := range recs {
		fl := uint8(0)
		if r.optout {
			fl = 1
		}
		set = append(set, &dns.NSEC3{Hdr: dns.RR_Header{Name: strings.ToLower(r.hash) + "." + n3zone, Rrtype: dns.TypeNSEC3, Class: 1, Ttl: 60},
			Hash: dns.SHA1, Flags: fl, Iterations: uint16(it), SaltLength: uint8(len(salt) / 2), Salt: salt, HashLength: 20,
			NextDomain: recs[(i+1)%len(recs)].hash, TypeBitMap: n3bitmap(r.bits, qtype)})
	}
	msg := new(dns.Msg)
	msg.SetQuestion(qname, qtype)
	msg.Response = true
	msg.Ns = set
	secure, err := dnssec.VerifyNODATAForZoneWithWork(msg, set, n3zone, nil)
	impl := ""
	switch {
	case err == nil && secure:
		impl = "secure"
	case err == nil:
		impl = "insecure"
	case errors.Is(err, dnssec.ErrNSECTypeExists):
		impl = "fail:typeexists"
	case errors.Is(err, dnssec.ErrNSECBadDelegation):
		impl = "fail:baddelegation"
	case errors.Is(err, dnssec.ErrNSECMissingCoverage):
		impl = "fail:nocover"
	case errors.Is(err, dnssec.ErrNSECOptOut):
		impl = "fail:optout"
	default:
		impl = "fail:other(" + strings.ReplaceAll(err.Error(), " ", "_") + ")"
	}
	// oracle (RFC 5155 §9.2): a NODATA that rests on a next-closer cover is authenticated only if THAT
	// record has Opt-Out clear; whatever flag the wildcard's or the encloser's record carries is irrelevant
	v := m["V"]
	or := "ok"
	if strings.HasPrefix(v, "m") {
		p := strings.Split(v[1:], ":")
		if secure && err == nil && p[1] != "0" {
			or = fail("nsec3/nodata/optout-or-missing-cover-marked-secure", "V=%s", v)
		}
		if err == nil && (p[1] == "n" || p[0] != "1") {
			or = fail("nsec3/nodata/accepted-without-next-closer-cover-or-encloser", "V=%s", v)
		}
		if err == nil && qtype != dns.TypeDS && (p[2] == "n" || strings.HasPrefix(p[2], "q")) {
			or = fail("nsec3/nodata/accepted-without-wildcard-denial", "V=%s", v)
		}
	} else if err == nil && v[1] == 'q' {
		or = fail("nsec3/nodata/type-exists-at-owner", "V=%s", v)
	}
	return vlib.Res{Impl: impl, Oracle: or, Tags: "nt,v:" + v[:1]}
}

func genN3(r *vlib.R) string {
	it := vlib.Pick(r, []int{0, 1, 5})
	salt := vlib.Pick(r, []string{"-", "ab", "0102"})
	sreal := salt
	if sreal == "-" {
		sreal = ""
	}
	fl := func() string { return vlib.Pick(r, []string{"-", "-", "o"}) }
	// the zone: apex, a wildcard below w (w itself an empty non-terminal), a delegation, a few hosts
	wildBits := vlib.Pick(r, []string{"t", "t", "t", "q", "c", ""})
	z := []string{
		"n3.test:" + fl() + "sn",
		"w.n3.test:" + fl() + vlib.Pick(r, []string{"", "", "t", "n", "d"}),
		"*.w.n3.test:" + fl() + wildBits,
		"a.n3.test:" + fl() + vlib.Pick(r, []string{"t", "q", "c", "tq"}),
		"deleg.n3.test:" + fl() + "n",
		"host.n3.test:" + fl() + "t",
		"zz.n3.test:" + fl() + "t",
	}
	if r.Chance(1, 4) {
		z = append(z[:2], z[3:]...) // no wildcard in the zone
	}
	if r.Chance(1, 5) { // the three records of the proof carry three different flags — in particular cover=1, wildcard=0
		for i := range z {
			z[i] = strings.Replace(z[i], ":o", ":-", 1)
		}
	}
	q := vlib.Pick(r, []string{"x.w.n3.test", "x.w.n3.test", "y.w.n3.test", "p.q.w.n3.test", "a.n3.test", "host.n3.test", "nope.n3.test", "u.deleg.n3.test", "deleg.n3.test", "w.n3.test"})
	qt := vlib.Pick(r, []int{1, 1, 28, 43, 16})
	zs := strings.Join(z, ",")
	if r.Chance(1, 3) {
		// choose the flags so that the record covering the next closer name has Opt-Out set and no other has
		recs := parseN3(zs, it, sreal)
		v := n3view(recs, tokName(q), it, sreal)
		_ = v
		for tries := 0; tries < 8; tries++ {
			i := r.Intn(len(z))
			zz := append([]string{}, z...)
			for j := range zz {
				zz[j] = strings.Replace(zz[j], ":o", ":-", 1)
			}
			zz[i] = strings.Replace(zz[i], ":-", ":o", 1)
			if vv := n3view(parseN3(strings.Join(zz, ","), it, sreal), tokName(q), it, sreal); strings.Contains(vv, ":1:") {
				zs = strings.Join(zz, ",")
				break
			}
		}
	}
	v := n3view(parseN3(zs, it, sreal), tokName(q), it, sreal)
	return fmt.Sprintf("nsec3 nodata q=%s t=%d Z=%s it=%d salt=%s V=%s", q, qt, zs, it, salt, v)
}

// nsec3 deleg q=<delegation name> Z=… it= salt= V=<view>      the real VerifyDelegationForZoneWithWork:
// the NSEC3 proof that q is an INSECURE delegation — exact match (NS set, DS and SOA clear) or, under Opt-Out,
// a closest provable encloser that is itself no delegation point / DNAME owner + an Opt-Out record covering
// the next closer name.  V as for `nsec3 nodata`, with the exact-match bits <n|-><d|-><s|->.
func n3delegView(recs []*n3rec, q string, it int, salt string) string {
	h := n3hash(q, it, salt)
	for _, r := range recs {
		if r.hash == h {
			f := func(c string) string {
				if strings.Contains(r.bits, c) {
					return c
				}
				return "-"
			}
			return "x" + f("n") + f("D") + f("s")
		}
	}
	return n3view(recs, q, it, salt)
}

func execN3Deleg(f []string) vlib.Res {
	m := kv(f)
	it := vlib.Atoi(m["it"])
	salt := m["salt"]
	if salt == "-" {
		salt = ""
	}
	q := tokName(m["q"])
	recs := parseN3(m["Z"], it, salt)
	if n3delegView(recs, q, it, salt) != m["V"] {
		return vlib.Res{Impl: "view-drift:" + n3delegView(recs, q, it, salt)}
	}
	var set []dns.RR
	for i, r := range recs {
		fl := uint8(0)
		if r.optout {
			fl = 1
		}
		bm := n3bitmap(r.bits, dns.TypeA)
		if strings.Contains(r.bits, "D") {
			bm = append(bm, dns.TypeDS)
			sort.Slice(bm, func(i, j int) bool { return bm[i] < bm[j] })
		}
		set = append(set, &dns.NSEC3{Hdr: dns.RR_Header{Name: strings.ToLower(r.hash) + "." + n3zone, Rrtype: dns.TypeNSEC3, Class: 1, Ttl: 60},
			Hash: dns.SHA1, Flags: fl, Iterations: uint16(it), SaltLength: uint8(len(salt) / 2), Salt: salt, HashLength: 20,
			NextDomain: recs[(i+1)%len(recs)].hash, TypeBitMap: bm})
	}
	err := dnssec.VerifyDelegationForZoneWithWork(q, n3zone, set, nil)
	impl := "ok"
	switch {
	case err == nil:
	case errors.Is(err, dnssec.ErrNSECNSMissing):
		impl = "fail:nsmissing"
	case errors.Is(err, dnssec.ErrNSECBadDelegation):
		impl = "fail:baddelegation"
	case errors.Is(err, dnssec.ErrNSECMissingCoverage):
		impl = "fail:nocover"
	case errors.Is(err, dnssec.ErrNSECOptOut):
		impl = "fail:optout"
	default:
		impl = "fail:other(" + strings.ReplaceAll(err.Error(), " ", "_") + ")"
	}
	v := m["V"]
	or := "ok"
	if err == nil {
		if v[0] == 'x' {
			if v != "xn--" {
				or = fail("nsec3/deleg/exact-match-without-ns-or-with-ds-soa-accepted", "V=%s", v)
			}
		} else {
			p := strings.Split(v[1:], ":")
			switch {
			case p[0] != "1":
				or = fail("nsec3/deleg/optout-proof-anchored-at-a-delegation-or-missing-encloser", "V=%s", v)
			case p[1] != "1":
				or = fail("nsec3/deleg/accepted-without-optout-cover", "V=%s", v)
			}
		}
	}
	return vlib.Res{Impl: impl, Oracle: or, Tags: "nt,v:" + v[:1]}
}

func genN3Deleg(r *vlib.R) string {
	it := vlib.Pick(r, []int{0, 1, 5})
	salt := vlib.Pick(r, []string{"-", "ab"})
	sreal := salt
	if sreal == "-" {
		sreal = ""
	}
	fl := func() string { return vlib.Pick(r, []string{"-", "o", "o"}) }
	// a TLD-shaped parent: apex, secure delegations (NS+DS), insecure ones (NS), an ENT, a DNAME owner, hosts
	z := []string{
		"n3.test:" + fl() + "sn",
		"child.n3.test:" + fl() + vlib.Pick(r, []string{"nD", "nD", "n", "nDs", ""}),
		"plain.n3.test:" + fl() + vlib.Pick(r, []string{"n", "n", "ns", "t"}),
		"dn.n3.test:" + fl() + "d",
		"ent.n3.test:" + fl() + "",
		"host.n3.test:" + fl() + "t",
	}
	q := vlib.Pick(r, []string{"www.child.n3.test", "www.child.n3.test", "a.b.child.n3.test", "child.n3.test", "plain.n3.test", "new.n3.test", "x.ent.n3.test",
		"x.dn.n3.test", "x.plain.n3.test", "x.host.n3.test"})
	zs := strings.Join(z, ",")
	v := n3delegView(parseN3(zs, it, sreal), tokName(q), it, sreal)
	return fmt.Sprintf("nsec3 deleg q=%s Z=%s it=%d salt=%s V=%s", q, zs, it, salt, v)
}
