//go:build verif

package main

import (
	"fmt"
	"sort"
	"strings"

	"github.com/miekg/dns"
	"github.com/semihalev/sdns/internal/verif/vlib"
)

// ------------------------------------------------------------------ rrsig cases

type rrB struct {
	r      *vlib.R
	c      *rrCase
	nextS  int
	nextK  int
	zone   string // token
	ksk    *kTok
	zsk    *kTok
	secOfS map[*sTok]byte
	tags   []string
}

func sub(label, zone string) string {
	if zone == "." {
		return label
	}
	return label + "." + zone
}

func countTok(tok string) int { return len(tokLabels(tok)) }

func (b *rrB) key(owner string, flags, poolIdx int) *kTok {
	dk := dnskey(poolIdx, tokName(owner), 1, uint16(flags), 3)
	k := &kTok{id: b.nextK, owner: owner, cls: 1, flags: flags, proto: 3, alg: int(dk.Algorithm), tag: int(dk.KeyTag()), pool: poolIdx}
	b.nextK++
	b.c.K = append(b.c.K, k)
	return k
}

func (b *rrB) retag(k *kTok) {
	dk := dnskey(k.pool, tokName(k.owner), uint16(k.cls), uint16(k.flags), uint8(k.proto))
	k.tag = int(dk.KeyTag())
}

func (b *rrB) rrset(sec byte, owner string, typ int, n int, target string) []*rTok {
	var out []*rTok
	base := b.r.Intn(50) + 1
	for i := 0; i < n; i++ {
		r := &rTok{owner: owner, typ: typ, cls: 1, rd: base + i, target: target, orig: base + i}
		if target == "" {
			r.target = "-"
		}
		out = append(out, r)
		if sec == 'a' {
			b.c.A = append(b.c.A, r)
		} else {
			b.c.N = append(b.c.N, r)
		}
	}
	return out
}

func (b *rrB) sign(sec byte, set []*rTok, k *kTok) *sTok {
	h := set[0]
	s := &sTok{id: b.nextS, owner: h.owner, cls: h.cls, cov: h.typ, alg: k.alg, labels: countTok(h.owner), ttl: 300,
		exp: b.c.now + 86400, inc: b.c.now - 3600, tag: k.tag, signer: k.owner, by: k.pool, pre: map[string]string{}}
	b.nextS++
	if sec == 'a' {
		b.c.SA = append(b.c.SA, s)
	} else {
		b.c.SN = append(b.c.SN, s)
	}
	return s
}

func (b *rrB) allSigs() []*sTok { return append(append([]*sTok{}, b.c.SA...), b.c.SN...) }

func (b *rrB) removeSig(s *sTok) {
	rm := func(l []*sTok) []*sTok {
		var o []*sTok
		for _, x := range l {
			if x != s {
				o = append(o, x)
			}
		}
		return o
	}
	b.c.SA, b.c.SN = rm(b.c.SA), rm(b.c.SN)
}

func (b *rrB) tag(t string) { b.tags = append(b.tags, "t:"+t) }

// rank computation: the validator's own orderings, spelled out once more.
func (c *rrCase) computeRanks() {
	type gk struct {
		name     string
		typ, cls int
	}
	var ks []gk
	seen := map[gk]bool{}
	for _, l := range [][]*rTok{c.A, c.N} {
		for _, r := range l {
			k := gk{strings.ToLower(tokName(r.owner)), r.typ, r.cls}
			if !seen[k] {
				seen[k] = true
				ks = append(ks, k)
			}
		}
	}
	sort.Slice(ks, func(i, j int) bool {
		switch {
		case ks[i].name != ks[j].name:
			return ks[i].name < ks[j].name
		case ks[i].typ != ks[j].typ:
			return ks[i].typ < ks[j].typ
		}
		return ks[i].cls < ks[j].cls
	})
	rank := map[gk]int{}
	for i, k := range ks {
		rank[k] = i
	}
	for _, l := range [][]*rTok{c.A, c.N} {
		for _, r := range l {
			r.rank = rank[gk{strings.ToLower(tokName(r.owner)), r.typ, r.cls}]
		}
	}
	sigs := append(append([]*sTok{}, c.SA...), c.SN...)
	sort.SliceStable(sigs, func(i, j int) bool {
		a, b := sigs[i], sigs[j]
		an, bn := strings.ToLower(tokName(a.owner)), strings.ToLower(tokName(b.owner))
		as, bs := strings.ToLower(tokName(a.signer)), strings.ToLower(tokName(b.signer))
		switch {
		case an != bn:
			return an < bn
		case a.cls != b.cls:
			return a.cls < b.cls
		case a.cov != b.cov:
			return a.cov < b.cov
		case a.alg != b.alg:
			return a.alg < b.alg
		case a.tag != b.tag:
			return a.tag < b.tag
		case as != bs:
			return as < bs
		case a.labels != b.labels:
			return a.labels < b.labels
		case a.ttl != b.ttl:
			return a.ttl < b.ttl
		case a.inc != b.inc:
			return uint32(a.inc) < uint32(b.inc)
		case a.exp != b.exp:
			return uint32(a.exp) < uint32(b.exp)
		}
		return a.id < b.id
	})
	for i, s := range sigs {
		s.rank = i
	}
}

func genRRSIG(r *vlib.R, now int64) (string, string) {
	b := &rrB{r: r, c: &rrCase{now: now}}
	b.zone = vlib.Pick(r, []string{"example.com", "example.com", "b.example", ".", "example", "zone.%666f6f2e626172.test"})
	b.c.zone = b.zone
	z := b.zone
	p0 := r.Intn(30)
	p1 := r.Intn(30) + 30
	if r.Chance(1, 10) {
		p0 = 900 // RSA
	}
	if r.Chance(1, 10) {
		p1 = 901
	}
	cloneTag := r.Chance(1, 8)
	if cloneTag {
		if r.Bool() {
			p0, p1 = pairKZ[0], pairKZ[1] // KSK and ZSK share one key tag
			b.tag("tagclash-ksk-zsk")
		} else {
			p0 = pairKK[0]
		}
	}
	b.ksk = b.key(z, 257, p0)
	b.zsk = b.key(z, 256, p1)
	if cloneTag && p0 == pairKK[0] {
		b.key(z, 257, pairKK[1]) // a second KSK with the same tag
		b.tag("tagclash-ksk-ksk")
	}
	signer := b.zsk
	if r.Chance(1, 5) {
		signer = b.ksk
	}

	type set struct {
		sec byte
		rrs []*rTok
		sig *sTok
	}
	var sets []*set
	addSigned := func(sec byte, owner string, typ, n int, target string, k *kTok) *set {
		s := &set{sec: sec, rrs: b.rrset(sec, owner, typ, n, target)}
		s.sig = b.sign(sec, s.rrs, k)
		sets = append(sets, s)
		return s
	}
	kind := r.Intn(7)
	switch kind {
	case 0, 1: // positive answer, optionally behind an in-zone CNAME, optionally with authority NS
		if r.Bool() {
			addSigned('a', sub("alias", z), int(dns.TypeCNAME), 1, sub("www", z), signer)
		}
		addSigned('a', sub("www", z), int(vlib.Pick(r, []uint16{dns.TypeA, dns.TypeAAAA, dns.TypeTXT, dns.TypeMX})), 1+r.Intn(3), "", signer)
		if r.Bool() {
			b.rrset('n', z, int(dns.TypeNS), 2, "") // unsigned authority NS: exempt
		}
	case 2: // negative
		addSigned('n', z, int(dns.TypeSOA), 1, "", signer)
		addSigned('n', sub("a", z), int(dns.TypeNSEC), 1, "", signer)
		if r.Bool() {
			addSigned('n', z, int(dns.TypeNSEC), 1, "", signer)
		}
	case 3: // referral with DS
		b.rrset('n', sub("child", z), int(dns.TypeNS), 2, "")
		addSigned('n', sub("child", z), int(dns.TypeDS), 1+r.Intn(2), "", signer)
	case 4: // wildcard expansion + NSEC
		s := addSigned('a', sub("x", sub("w", z)), int(dns.TypeTXT), 1, "", signer)
		s.sig.labels = countTok(sub("w", z))
		addSigned('n', sub("v", z), int(dns.TypeNSEC), 1, "", signer)
	case 5: // DNAME with synthesised CNAME
		tgt := vlib.Pick(r, []string{"target.example", sub("t", z), "other.test"})
		addSigned('a', sub("d", z), int(dns.TypeDNAME), 1, tgt, signer)
		ct := sub("x", tgt)
		mode := r.Intn(8)
		if mode == 0 {
			ct = sub("y", tgt) // not what the DNAME synthesises
			b.tag("dname-wrong-synthesis")
		}
		if mode >= 5 { // the relative label and the target's tail are right, the middle is not
			first := strings.Split(tgt, ".")[0]
			ct = vlib.Pick(r, []string{sub("x", sub("b.c", tgt)), sub("x", "evil"+first+strings.TrimPrefix(tgt, first)), sub("x", sub("evil", tgt))})
			b.tag("dname-spliced-synthesis")
		}
		cn := b.rrset('a', sub("x", sub("d", z)), int(dns.TypeCNAME), 1, ct)
		if mode == 1 {
			sets = append(sets, &set{sec: 'a', rrs: cn, sig: b.sign('a', cn, signer)}) // signed although exempt
		}
		if mode == 2 {
			b.rrset('a', ct, int(dns.TypeA), 1, "") // target data spliced in before validation
			b.tag("dname-target-in-answer")
		}
	case 6: // the zone's DNSKEY response
		addSigned('a', z, int(dns.TypeDNSKEY), 2, "", b.ksk)
	}

	pickSet := func() *set { return vlib.Pick(r, sets) }
	other := vlib.Pick(r, []string{"other.test", "evil" + strings.Split(z, ".")[0] + strings.TrimPrefix(z, strings.Split(z, ".")[0]), sub("sub", z)})
	if z == "." {
		other = "other"
	}
	parent := "."
	if i := strings.IndexByte(z, '.'); i >= 0 && z != "." {
		parent = z[i+1:]
	}
	nt := r.Intn(4)
	if r.Chance(1, 6) {
		nt = 0
	}
	for i := 0; i < nt; i++ {
		s := pickSet()
		switch t := r.Intn(26); t {
		case 0:
			vlib.Pick(r, s.rrs).rd += 100
			b.tag("rdata")
		case 1:
			x := *s.rrs[0]
			x.rd += 200
			x.orig = -1
			if s.sec == 'a' {
				b.c.A = append(b.c.A, &x)
			} else {
				b.c.N = append(b.c.N, &x)
			}
			b.tag("inject-into-rrset")
		case 2:
			if len(s.rrs) >= 2 {
				victim := s.rrs[len(s.rrs)-1]
				rm := func(l []*rTok) []*rTok {
					var o []*rTok
					for _, x := range l {
						if x != victim {
							o = append(o, x)
						}
					}
					return o
				}
				b.c.A, b.c.N = rm(b.c.A), rm(b.c.N)
				s.rrs = s.rrs[:len(s.rrs)-1]
				b.c.P = append(b.c.P, victim)
				b.c.pSec = append(b.c.pSec, s.sec)
				b.tag("drop-record")
			}
		case 3:
			s.sig.flip = true
			b.tag("flipsig")
		case 4:
			s.sig.by = -1
			b.tag("randsig")
		case 5:
			s.sig.pre["signer"] = s.sig.signer
			s.sig.signer = vlib.Pick(r, []string{other, parent, sub("sub", z), "other.test"})
			b.tag("signer-rewritten")
		case 6: // honestly signed by another zone's key that sits in the key map
			who := vlib.Pick(r, []string{other, parent, sub("deeper", z)})
			k := b.key(who, 256, 60+r.Intn(20))
			s.sig.signer, s.sig.tag, s.sig.alg, s.sig.by = k.owner, k.tag, k.alg, k.pool
			b.tag("signed-by-other-zone-key")
		case 7:
			s.sig.pre["labels"] = itoa(s.sig.labels)
			if r.Bool() || s.sig.labels <= 1 {
				s.sig.labels++
			} else {
				s.sig.labels--
			}
			b.tag("labels-rewritten")
		case 8:
			if s.sig.labels > 1 {
				s.sig.labels-- // re-signed as if expanded from a wildcard one level up
				b.tag("labels-resigned")
			}
		case 9:
			s.sig.pre["exp"] = fmt.Sprint(s.sig.exp)
			s.sig.exp = now - lapse(r)
			b.tag("expired-rewritten")
		case 10:
			// a genuine signature that lapsed a moment, minutes, hours or months ago (a replayed old answer)
			s.sig.exp = now - lapse(r)
			s.sig.inc = s.sig.exp - 86400
			b.tag("expired-resigned")
		case 11:
			s.sig.inc = now + 1 + lapse(r)
			s.sig.exp = s.sig.inc + 86400
			b.tag("notyet-resigned")
		case 12:
			s.sig.exp = now + (1 << 31) + int64(r.Intn(2000)) - 1000
			b.tag("window-serial-wrap")
		case 13:
			b.removeSig(s.sig)
			b.tag("dropsig-one-rrset")
		case 14:
			b.c.SA, b.c.SN = nil, nil
			b.tag("dropsig-all")
		case 15:
			k := b.key(other, 256, 80+r.Intn(10))
			set := b.rrset('a', sub("www", other), int(dns.TypeA), 1, "")
			if r.Bool() {
				b.sign('a', set, k)
			}
			b.tag("foreign-rrset-in-answer")
		case 16:
			set := b.rrset('n', sub("cut", other), int(vlib.Pick(r, []uint16{dns.TypeNS, dns.TypeNSEC, dns.TypeDS})), 1, "")
			if r.Bool() {
				b.sign('n', set, b.key(other, 256, 90+r.Intn(5)))
			}
			b.tag("foreign-rrset-in-authority")
		case 17:
			s.sig.pre["tag"] = itoa(s.sig.tag)
			s.sig.tag = vlib.Pick(r, []int{b.ksk.tag, b.zsk.tag, 4242, s.sig.tag + 1})
			b.tag("keytag-rewritten")
		case 18:
			s.sig.pre["alg"] = itoa(s.sig.alg)
			s.sig.alg = vlib.Pick(r, []int{3, 1, 6, 12, 16, 13, 15, 8})
			b.tag("alg-rewritten")
		case 19:
			s.sig.pre["cls"] = itoa(s.sig.cls)
			s.sig.cls = 3
			b.tag("class-rewritten")
		case 20:
			s.sig.pre["cov"] = itoa(s.sig.cov)
			s.sig.cov = vlib.Pick(r, []int{1, 16, 46, 47, 2})
			b.tag("covered-rewritten")
		case 21:
			k := vlib.Pick(r, []*kTok{b.ksk, b.zsk})
			switch r.Intn(3) {
			case 0:
				k.proto = 2
			case 1:
				k.flags = vlib.Pick(r, []int{0, 1, 128})
			case 2:
				k.cls = 3
			}
			b.retag(k)
			b.tag("key-unusable")
		case 22:
			b.key(other, signer.flags, signer.pool) // same rdata, other owner: same tag
			b.tag("clone-other-owner")
		case 23:
			if len(s.rrs) >= 2 && spelled(tokName(s.rrs[1].owner), 1) != tokName(s.rrs[1].owner) {
				s.rrs[1].spell = 1
				b.tag("mixed-spelling")
			}
		case 24: // a second, broken signature next to the good one
			x := *s.sig
			x.id = b.nextS
			b.nextS++
			x.pre = map[string]string{}
			x.flip = true
			if r.Bool() {
				x.exp = now - 5
				x.inc = now - 99999
			}
			if s.sec == 'a' {
				b.c.SA = append([]*sTok{&x}, b.c.SA...)
			} else {
				b.c.SN = append([]*sTok{&x}, b.c.SN...)
			}
			b.tag("extra-bad-signature")
		case 25:
			s.sig.pre["owner"] = s.sig.owner
			s.sig.owner = sub("www", other)
			b.tag("sigowner-rewritten")
		}
	}
	if r.Chance(1, 40) {
		b.c.K = nil
		b.tag("no-keys")
	}
	b.c.computeRanks()
	rc := b.c.realize(0)
	b.c.tv = b.c.truthTable(rc)
	return b.c.opLine(), strings.Join(b.tags, ",")
}

// lapse: how far outside its window a signature is — every magnitude from seconds to months, with the
// round numbers a "skew allowance" would use (the wall clock keeps us 2 s away from the edge itself).
func lapse(r *vlib.R) int64 {
	switch r.Intn(4) {
	case 0:
		return int64(2 + r.Intn(28))
	case 1:
		return vlib.Pick(r, []int64{30, 59, 61, 90, 119, 121, 240, 299, 301, 360, 599, 601, 899, 901, 1800, 3599, 3601, 7200})
	case 2:
		return int64(2 + r.Intn(4000))
	}
	return int64(3600 + r.Intn(90*86400))
}

// ------------------------------------------------------------------ ValidateSigner cases

func genSigner(r *vlib.R) string {
	q := vlib.Pick(r, []string{"www.example.com", "a.b.c.example.com", "example.com", "com", ".", "www.%666f6f2e6578616d706c65.com", "x.evilexample.com", "www.example.co.uk"})
	ql := strings.Split(q, ".")
	var s string
	switch r.Intn(9) {
	case 0:
		s = "E"
	case 1:
		s = "."
	case 2:
		s = q
	case 3, 4: // a proper ancestor
		if q == "." || len(ql) == 1 {
			s = "."
		} else {
			s = strings.Join(ql[1+r.Intn(len(ql)-1):], ".")
		}
	case 5: // descendant
		s = sub("sub", q)
	case 6: // sibling / string suffix without a label boundary
		s = vlib.Pick(r, []string{"example.com", "ample.com", "om", "evilexample.com", "xample.com", "co.uk", "o.uk"})
	case 7: // escaped-dot label: `foo\.example.com.` is not below example.com.
		s = vlib.Pick(r, []string{"example.com", "%666f6f2e6578616d706c65.com", "com"})
	default:
		s = vlib.Pick(r, []string{"other.test", "example.org", "www.example.com.example.com"})
	}
	return fmt.Sprintf("signer check %s %s %d", s, q, r.Intn(2))
}

// ------------------------------------------------------------------ DS cases

func genDS(r *vlib.R) (string, string) {
	c := &dsCase{}
	var tags []string
	z := vlib.Pick(r, []string{"example.com", "child.example", "."})
	nk := 1 + r.Intn(3)
	if r.Chance(1, 12) {
		nk = 0
	}
	pools := []int{r.Intn(30), 30 + r.Intn(30), 60 + r.Intn(30)}
	if r.Chance(1, 5) {
		pools[0], pools[1] = pairKK[0], pairKK[1]
		tags = append(tags, "t:tagclash")
	}
	for i := 0; i < nk; i++ {
		flags := 257
		if i == 2 || (i == 1 && r.Bool() && pools[1] != pairKK[1]) {
			flags = 256
		}
		dk := dnskey(pools[i], tokName(z), 1, uint16(flags), 3)
		c.K = append(c.K, &kTok{id: i, owner: z, cls: 1, flags: flags, proto: 3, alg: int(dk.Algorithm), tag: int(dk.KeyTag()), pool: pools[i]})
	}
	nd := 1 + r.Intn(3)
	if r.Chance(1, 12) {
		nd = 0
	}
	for i := 0; i < nd; i++ {
		d := &dTok{id: i, owner: z, cls: 1, dtype: vlib.Pick(r, []int{2, 2, 2, 1, 4}), digestOk: true, from: -1}
		if len(c.K) > 0 && r.Chance(4, 5) {
			k := vlib.Pick(r, c.K)
			d.from, d.tag, d.alg = k.id, k.tag, k.alg
		} else {
			d.tag, d.alg = 1000+r.Intn(100), vlib.Pick(r, []int{13, 15, 8})
		}
		c.D = append(c.D, d)
	}
	nt := r.Intn(3)
	for i := 0; i < nt && len(c.D) > 0; i++ {
		d := vlib.Pick(r, c.D)
		switch r.Intn(11) {
		case 0:
			d.dtype = vlib.Pick(r, []int{0, 3, 5, 6, 255}) // unsupported digest type
			tags = append(tags, "t:unsupported-digest")
		case 1:
			d.alg = vlib.Pick(r, []int{1, 3, 6, 12, 16, 253}) // unsupported key algorithm
			tags = append(tags, "t:unsupported-alg")
		case 2:
			d.from = -1
			tags = append(tags, "t:wrong-digest")
		case 3:
			d.tag++
			tags = append(tags, "t:tag-off")
		case 4:
			d.cls = 3
			tags = append(tags, "t:class")
		case 5:
			d.owner = vlib.Pick(r, []string{"other.test", sub("sub", z)})
			tags = append(tags, "t:owner")
		case 6:
			d.digestOk = false
			tags = append(tags, "t:empty-digest")
		case 7:
			if len(c.K) > 0 {
				k := vlib.Pick(r, c.K)
				switch r.Intn(3) {
				case 0:
					k.proto = 2
				case 1:
					k.flags = vlib.Pick(r, []int{0, 1})
				case 2:
					k.cls = 3
				}
				dk := dnskey(k.pool, tokName(k.owner), uint16(k.cls), uint16(k.flags), uint8(k.proto))
				k.tag = int(dk.KeyTag())
				tags = append(tags, "t:key-unusable")
			}
		case 8:
			for _, x := range c.D {
				x.dtype = vlib.Pick(r, []int{3, 5, 0})
			}
			tags = append(tags, "t:all-unsupported")
		case 9:
			x := *d
			x.id = len(c.D)
			c.D = append(c.D, &x) // duplicate
			tags = append(tags, "t:duplicate")
		case 10:
			d.alg = vlib.Pick(r, []int{13, 15, 8, 14})
			tags = append(tags, "t:alg-swapped")
		}
	}
	// uniqueSortedDSRecords order: name, class, tag, alg, digest type, digest
	_, _, dss, _ := c.realize()
	idx := make([]int, len(c.D))
	for i := range idx {
		idx[i] = i
	}
	sort.SliceStable(idx, func(a, b int) bool {
		x, y := c.D[idx[a]], c.D[idx[b]]
		xn, yn := strings.ToLower(tokName(x.owner)), strings.ToLower(tokName(y.owner))
		switch {
		case xn != yn:
			return xn < yn
		case x.cls != y.cls:
			return x.cls < y.cls
		case x.tag != y.tag:
			return x.tag < y.tag
		case x.alg != y.alg:
			return x.alg < y.alg
		case x.dtype != y.dtype:
			return x.dtype < y.dtype
		}
		return strings.ToUpper(dss[idx[a]].(*dns.DS).Digest) < strings.ToUpper(dss[idx[b]].(*dns.DS).Digest)
	})
	for rk, i := range idx {
		c.D[i].rank = rk
	}
	_, keys, dss, _ := c.realize()
	c.dm = c.table(keys, dss)
	return c.opLine(), strings.Join(tags, ",")
}

// ------------------------------------------------------------------ wildcard cases

func genWild(r *vlib.R) string {
	z := vlib.Pick(r, []string{"example.com", "zone.test"})
	owners := []string{sub("x", sub("w", z)), sub("a", sub("b", sub("w", z))), sub("www", z), z}
	type ws struct {
		owner  string
		labels int
	}
	var sigs []ws
	ns := 1 + r.Intn(2)
	for i := 0; i < ns; i++ {
		o := vlib.Pick(r, owners)
		l := countTok(o)
		switch r.Intn(4) {
		case 0: // exact owner
		case 1:
			l-- // expanded from one level up
		case 2:
			l = countTok(z) + r.Intn(2)
		default:
			l += r.Intn(2)
		}
		if l < 0 {
			l = 0
		}
		sigs = append(sigs, ws{o, l})
	}
	type wn struct{ owner, next string }
	var nsecs []wn
	pool := []string{z, sub("a", z), sub("v", z), sub("w", z), sub("*", sub("w", z)), sub("b", sub("w", z)), sub("x", sub("w", z)), sub("y", sub("w", z)), sub("www", z), sub("zz", z), sub("a", sub("w", z))}
	nn := r.Intn(3)
	for i := 0; i < nn; i++ {
		nsecs = append(nsecs, wn{vlib.Pick(r, pool), vlib.Pick(r, pool)})
	}
	var sa, nl, cov []string
	for i, s := range sigs {
		sa = append(sa, fmt.Sprintf("%d/%s/%d", i, s.owner, s.labels))
	}
	for i, n := range nsecs {
		nl = append(nl, fmt.Sprintf("%d/%s/%s", i, n.owner, n.next))
	}
	seen := map[string]bool{}
	for i, n := range nsecs {
		for _, s := range sigs {
			parts := strings.Split(s.owner, ".")
			ls := tokLabels(s.owner)
			for cut := 0; cut <= len(ls); cut++ {
				name := "."
				if cut < len(ls) {
					name = strings.Join(parts[cut:], ".")
				}
				key := fmt.Sprintf("%d:%s", i, name)
				if !seen[key] && nsecCoversOracle(tokLabels(n.owner), tokLabels(n.next), ls[cut:]) {
					cov = append(cov, key)
				}
				seen[key] = true
			}
		}
	}
	j := func(l []string) string {
		if len(l) == 0 {
			return "-"
		}
		return strings.Join(l, ",")
	}
	return fmt.Sprintf("wild verify z=%s SA=%s NS=%s cov=%s", z, j(sa), j(nl), j(cov))
}
