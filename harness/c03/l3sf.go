//go:build verif

package main

// System-level ops for the routes that FEED the cache below it: the real
// pipeline edns → cache → resolver against scripted authorities (harness/l3),
// with an ECS-tailoring authority in front of the leaf zone. Judged by the
// oracle only (the Lean side prints `unmodelled`).
//
//	l3 sf <client A subnet> <client B subnet> <client D subnet>
//
// A asks first; while its upstream exchange is in flight B asks the same
// question; D asks afterwards. The authority tailors the answer to the subnet
// it is sent and declares SCOPE = SOURCE. Every client must be told an answer
// that was tailored for a subnet containing its own.

import (
	"fmt"
	"net"
	"net/netip"
	"strings"
	"sync"
	"time"

	"github.com/miekg/dns"
	"github.com/semihalev/sdns/config"
	"github.com/semihalev/sdns/internal/verif/l3"
	"github.com/semihalev/sdns/internal/verif/vlib"
)

type tailored struct {
	subnet netip.Prefix // what the authority was sent (invalid: no ECS)
	scope  int          // the SCOPE PREFIX-LENGTH it declared
}

type frontServer struct {
	inner *l3.Server
	pc    net.PacketConn
	ln    net.Listener
	leaf  string
	delta int // declared SCOPE = SOURCE + delta (clamped to the address length; may exceed SOURCE)

	mu        sync.Mutex
	exchanges []tailored
	first     chan struct{} // closed when the first leaf query arrived
	second    chan struct{} // closed when a second leaf query arrived
}

func newFront(inner *l3.Server, leaf string) *frontServer {
	f := &frontServer{inner: inner, leaf: leaf, first: make(chan struct{}), second: make(chan struct{})}
	var err error
	for try := 0; try < 50; try++ {
		f.pc, err = net.ListenPacket("udp", "127.0.0.1:0")
		if err != nil {
			panic(err)
		}
		f.ln, err = net.Listen("tcp", f.pc.LocalAddr().String())
		if err == nil {
			break
		}
		f.pc.Close()
	}
	if err != nil {
		panic(err)
	}
	h := dns.HandlerFunc(f.serve)
	go func() { _ = (&dns.Server{PacketConn: f.pc, Handler: h}).ActivateAndServe() }()
	go func() { _ = (&dns.Server{Listener: f.ln, Handler: h}).ActivateAndServe() }()
	return f
}

func (f *frontServer) close() { f.pc.Close(); f.ln.Close() }

func (f *frontServer) serve(w dns.ResponseWriter, req *dns.Msg) {
	if len(req.Question) != 1 {
		return
	}
	resp := f.inner.Honest(req)
	q := req.Question[0]
	if strings.EqualFold(q.Name, f.leaf) && q.Qtype == dns.TypeA && len(resp.Answer) > 0 {
		sub := reqECS(req)
		t := tailored{}
		if sub != nil {
			a, _ := netip.AddrFromSlice(sub.Address)
			if sub.Family == 1 {
				a, _ = netip.AddrFromSlice(sub.Address.To4())
			}
			t.subnet = netip.PrefixFrom(a, int(sub.SourceNetmask))
			t.scope = min(max(int(sub.SourceNetmask)+f.delta, 0), a.BitLen())
		}
		f.mu.Lock()
		f.exchanges = append(f.exchanges, t)
		idx := len(f.exchanges)
		f.mu.Unlock()
		if idx == 1 {
			close(f.first)
			// keep the first exchange in flight until a second one arrives (the two lookups are independent)
			// or it is clear that none will (the second lookup joined the first)
			select {
			case <-f.second:
			case <-time.After(350 * time.Millisecond):
			}
		} else if idx == 2 {
			close(f.second)
		}
		resp.Answer = []dns.RR{&dns.A{Hdr: dns.RR_Header{Name: q.Name, Rrtype: dns.TypeA, Class: dns.ClassINET, Ttl: 300},
			A: net.IPv4(10, 77, 0, byte(idx)).To4()}}
		if sub != nil {
			o := resp.IsEdns0()
			if o == nil {
				resp.SetEdns0(4096, false)
				o = resp.IsEdns0()
			}
			o.Option = append(o.Option, &dns.EDNS0_SUBNET{Code: dns.EDNS0SUBNET, Family: sub.Family,
				SourceNetmask: sub.SourceNetmask, SourceScope: uint8(t.scope), Address: sub.Address})
		}
	}
	_ = w.WriteMsg(resp)
}

func ecsQuery(name string, client netip.Prefix, cd bool) *dns.Msg {
	m := new(dns.Msg)
	m.SetQuestion(name, dns.TypeA)
	m.RecursionDesired = true
	m.CheckingDisabled = cd
	m.SetEdns0(4096, false)
	if client.IsValid() {
		o := m.IsEdns0()
		o.Option = append(o.Option, ecsOption(client))
	}
	return m
}

func execL3(f []string) vlib.Res {
	switch f[1] {
	case "new":
		return vlib.Res{Impl: "unmodelled"}
	case "sf":
		ca, cb, cd := parseScope(f[2]), parseScope(f[3]), parseScope(f[4])
		w := l3.NewWorld(false)
		defer w.Close()
		z := w.AddZone("geo.test.", l3.ZoneOpts{})
		const leaf = "www.geo.test."
		z.Add(leaf+" 300 IN A 192.0.2.1", "warm.geo.test. 300 IN A 192.0.2.9")
		front := newFront(z.Servers[0], leaf)
		defer front.close()
		for _, t := range f[5:] {
			if strings.HasPrefix(t, "sc=") { // the authority declares SCOPE = SOURCE + <delta>
				front.delta = vlib.Atoi(t[3:])
			}
		}
		w.AddrMap[net.JoinHostPort(z.Servers[0].IP.String(), "53")] = front.pc.LocalAddr().String()
		p := l3.NewPipe(w, l3.PipeOpts{Tweak: func(cfg *config.Config) {
			cfg.ECS = config.ECSConfig{Enabled: true, ForwardV4Max: 32, ForwardV6Max: 128, MinScopeV4: 32, MinScopeV6: 128}
		}})
		defer p.Close()
		if m := p.Query("warm.geo.test.", dns.TypeA, l3.Flags{}); m == nil || m.Rcode != dns.RcodeSuccess {
			return vlib.Res{Impl: "unmodelled", Oracle: "FAIL sig=l3/sf/harness/warm-up-failed"}
		}
		var ra, rb *dns.Msg
		var wg sync.WaitGroup
		wg.Add(2)
		go func() {
			defer wg.Done()
			ra = p.Exchange(ecsQuery(leaf, ca, false), l3.Flags{Client: "198.51.100.7:4242"})
		}()
		go func() {
			defer wg.Done()
			select {
			case <-front.first:
			case <-time.After(2 * time.Second):
			}
			rb = p.Exchange(ecsQuery(leaf, cb, false), l3.Flags{Client: "198.51.100.8:4242"})
		}()
		wg.Wait()
		rd := p.Exchange(ecsQuery(leaf, cd, false), l3.Flags{Client: "198.51.100.9:4242"})
		front.mu.Lock()
		ex := append([]tailored(nil), front.exchanges...)
		front.mu.Unlock()
		told := func(m *dns.Msg) int {
			if m == nil {
				return -1
			}
			for _, rr := range m.Answer {
				if a, ok := rr.(*dns.A); ok && a.A.To4()[0] == 10 && a.A.To4()[1] == 77 {
					return int(a.A.To4()[3])
				}
			}
			return 0
		}
		or := "ok"
		for _, c := range []struct {
			who    string
			client netip.Prefix
			m      *dns.Msg
		}{{"first", ca, ra}, {"concurrent", cb, rb}, {"later", cd, rd}} {
			i := told(c.m)
			if i <= 0 || i > len(ex) {
				continue // no answer / not a tailored one: availability is not this property
			}
			s := ex[i-1].subnet
			// the audience of that answer: the sent subnet at min(SCOPE, SOURCE) bits; SCOPE 0 = everyone
			if s.IsValid() {
				s = netip.PrefixFrom(s.Addr(), min(ex[i-1].scope, s.Bits())).Masked()
			}
			inside := !s.IsValid() || s.Bits() == 0 || (c.client.IsValid() && s.Addr().Is4() == c.client.Addr().Is4() &&
				s.Bits() <= c.client.Bits() && s.Contains(c.client.Addr()))
			if !inside && or == "ok" {
				or = fmt.Sprintf("FAIL sig=l3/sf/%s-client-told-an-answer-tailored-for-another-subnet tailored=%s client=%s", c.who, s, c.client)
			}
		}
		return vlib.Res{Impl: "unmodelled", Oracle: or, Tags: fmt.Sprintf("nt,l3,upstream-exchanges=%d,told=%d/%d/%d", len(ex), told(ra), told(rb), told(rd))}
	}
	return vlib.Res{Impl: "bad-op"}
}
