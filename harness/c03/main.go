//go:build verif

// Correspondence driver for C03 (a cached response only answers the exact
// question and audience it was stored for).
//
// Three op families:
//
//	key …   internal/cache.Key / KeyString / KeyWithPrefix / KeyWire / KeyWireWithPrefix and CacheKey.Hash
//	ver …   the verifiers (entryMatchesKey, entryMatchesWireQuestion, WireNameEqualsPresentation, …)
//	pipe …  the real edns→cache pipeline and the real Store API over a store that was SEEDED UNDER CHOSEN,
//	        POSSIBLY FORGED KEYS (entry for question A filed under the key of question B)
//
// Syntax: names are `w:<hex of uncompressed wire form>` or `p:<hex of presentation text>`;
// identities are `name,qtype,qclass,cd,scope`; scopes are `-`, `4:<8 hex>/<bits>`, `6:<32 hex>/<bits>`.
package main

import (
	"context"
	"encoding/base64"
	"encoding/binary"
	"fmt"
	"net"
	"net/netip"
	"os"
	"sort"
	"strconv"
	"strings"
	"time"

	"github.com/cespare/xxhash/v2"
	"github.com/miekg/dns"
	"github.com/semihalev/sdns/config"
	icache "github.com/semihalev/sdns/internal/cache"
	"github.com/semihalev/sdns/internal/dnsname"
	"github.com/semihalev/sdns/internal/mock"
	"github.com/semihalev/sdns/internal/verif/vlib"
	"github.com/semihalev/sdns/middleware"
	mcache "github.com/semihalev/sdns/middleware/cache"
	"github.com/semihalev/sdns/middleware/edns"
	"github.com/semihalev/sdns/middleware/forwarder"
)

// ---------------------------------------------------------------- parsing

type nameT struct {
	isWire bool
	wire   []byte // when isWire
	pres   string // presentation text handed to the implementation ("" when the wire form does not decode)
	presOK bool
}

func parseName(s string) nameT {
	switch {
	case strings.HasPrefix(s, "w:"):
		w := vlib.UnHex(s[2:])
		n := nameT{isWire: true, wire: w}
		// The presentation spelling a message-born request carries is the one
		// miekg's decoder produces from the wire.
		if len(w) > 0 {
			if p, off, err := dns.UnpackDomainName(w, 0); err == nil && off == len(w) {
				n.pres, n.presOK = p, true
			}
		}
		return n
	case strings.HasPrefix(s, "p:"):
		return nameT{pres: string(vlib.UnHex(s[2:])), presOK: true}
	}
	panic("bad name " + s)
}

func parseScope(s string) netip.Prefix {
	if s == "-" {
		return netip.Prefix{}
	}
	fam, rest, _ := strings.Cut(s, ":")
	h, bitsS, _ := strings.Cut(rest, "/")
	b := vlib.UnHex(h)
	var a netip.Addr
	if fam == "4" {
		a = netip.AddrFrom4([4]byte(b))
	} else {
		a = netip.AddrFrom16([16]byte(b))
	}
	return netip.PrefixFrom(a, vlib.Atoi(bitsS))
}

func fmtScope(p netip.Prefix) string {
	if !p.IsValid() {
		return "-"
	}
	if p.Addr().Is4() {
		return fmt.Sprintf("4:%s/%d", vlib.Hex(p.Addr().AsSlice()), p.Bits())
	}
	return fmt.Sprintf("6:%s/%d", vlib.Hex(p.Addr().AsSlice()), p.Bits())
}

type ident struct {
	n     nameT
	qtype uint16
	class uint16
	cd    bool
	scope netip.Prefix
}

// name,qtype,qclass[,cd[,scope]]
func parseIdent(s string) ident {
	f := strings.Split(s, ",")
	id := ident{n: parseName(f[0]), qtype: uint16(vlib.Atoi(f[1])), class: uint16(vlib.Atoi(f[2]))}
	if len(f) > 3 {
		id.cd = f[3] == "t"
	}
	if len(f) > 4 {
		id.scope = parseScope(f[4])
	}
	return id
}

func (id ident) q() dns.Question {
	return dns.Question{Name: id.n.pres, Qtype: id.qtype, Qclass: id.class}
}

func u64hex(v uint64) string { return fmt.Sprintf("%016x", v) }

// ---------------------------------------------------------------- the independent oracle

func oFold(b byte) byte {
	if b >= 'A' && b <= 'Z' {
		return b + 32
	}
	return b
}

// oWireLabels: strict RFC 1035 parse of an uncompressed name that is exactly the name region.
func oWireLabels(w []byte) ([][]byte, bool) {
	if len(w) == 0 || len(w) > 255 {
		return nil, false
	}
	var out [][]byte
	i := 0
	for {
		if i >= len(w) {
			return nil, false
		}
		l := int(w[i])
		i++
		if l == 0 {
			return out, i == len(w)
		}
		if l > 63 || i+l > len(w) {
			return nil, false
		}
		out = append(out, w[i:i+l])
		i += l
	}
}

// oRender: RFC 1035 §5.1 presentation text with the escaping the property names: the
// special characters get a backslash, octets outside 0x21..0x7E become \DDD.
func oRender(labels [][]byte) string {
	if len(labels) == 0 {
		return "."
	}
	var sb strings.Builder
	for _, l := range labels {
		for _, b := range l {
			switch {
			case strings.IndexByte(`. '@;()"\`, b) >= 0:
				sb.WriteByte('\\')
				sb.WriteByte(b)
			case b <= 0x20 || b >= 0x7f:
				fmt.Fprintf(&sb, "\\%03d", b)
			default:
				sb.WriteByte(b)
			}
		}
		sb.WriteByte('.')
	}
	return sb.String()
}

// oPresLabels decodes presentation text into label octets (the name it MEANS).
func oPresLabels(s string) ([][]byte, bool) {
	if s == "." {
		return nil, true
	}
	if s == "" {
		return nil, false
	}
	var out [][]byte
	var cur []byte
	for i := 0; i < len(s); i++ {
		c := s[i]
		switch {
		case c == '\\':
			if i+3 < len(s) && isDigit(s[i+1]) && isDigit(s[i+2]) && isDigit(s[i+3]) {
				v := int(s[i+1]-'0')*100 + int(s[i+2]-'0')*10 + int(s[i+3]-'0')
				if v > 255 {
					return nil, false
				}
				cur = append(cur, byte(v))
				i += 3
			} else if i+1 < len(s) {
				cur = append(cur, s[i+1])
				i++
			} else {
				return nil, false
			}
		case c == '.':
			if len(cur) == 0 {
				return nil, false
			}
			out = append(out, cur)
			cur = nil
		default:
			cur = append(cur, c)
		}
	}
	if len(cur) != 0 {
		return nil, false // not fully qualified
	}
	return out, true
}

func isDigit(b byte) bool { return b >= '0' && b <= '9' }

func (n nameT) labels() ([][]byte, bool) {
	if n.isWire {
		return oWireLabels(n.wire)
	}
	return oPresLabels(n.pres)
}

func oLabelsFoldEq(a, b [][]byte) bool {
	if len(a) != len(b) {
		return false
	}
	for i := range a {
		if len(a[i]) != len(b[i]) {
			return false
		}
		for j := range a[i] {
			if oFold(a[i][j]) != oFold(b[i][j]) {
				return false
			}
		}
	}
	return true
}

// oIsSuffix: anc is name or an ancestor of name (label-wise, ASCII fold).
func oIsSuffix(anc, name [][]byte) bool {
	if len(anc) > len(name) {
		return false
	}
	return oLabelsFoldEq(anc, name[len(name)-len(anc):])
}

func oNorm(p netip.Prefix) netip.Prefix {
	if !p.IsValid() || p.Bits() == 0 {
		return netip.Prefix{}
	}
	return p.Masked()
}

// oPreimage spells the key preimage out of the property's STATE description:
// class|type|cd|folded name (+family|bits|addr).
func oPreimage(pres string, qtype, class uint16, cd bool, scope netip.Prefix) []byte {
	var b []byte
	b = binary.BigEndian.AppendUint16(b, class)
	b = binary.BigEndian.AppendUint16(b, qtype)
	if cd {
		b = append(b, 1)
	} else {
		b = append(b, 0)
	}
	for i := 0; i < len(pres); i++ {
		b = append(b, oFold(pres[i]))
	}
	if scope.IsValid() {
		if scope.Addr().Is4() {
			b = append(b, 4)
		} else {
			b = append(b, 6)
		}
		b = append(b, byte(scope.Bits()))
		a := scope.Addr().AsSlice()
		b = append(b, a[:(scope.Bits()+7)/8]...)
	}
	return b
}

// oAudienceOK: an unscoped entry is for everyone; a scoped one only for a client
// prefix that lies entirely inside the scope.
func oAudienceOK(scope, client netip.Prefix) bool {
	if !scope.IsValid() {
		return true
	}
	return client.IsValid() && scope.Addr().Is4() == client.Addr().Is4() &&
		scope.Bits() <= client.Bits() && scope.Contains(client.Addr())
}

// what the harness stored (the oracle's ground truth)
type storedEntry struct {
	labels [][]byte
	qtype  uint16
	class  uint16
	cd     bool
	scope  netip.Prefix // normalised by the oracle
	alias  [][]byte     // labels of the CNAME target, nil for a terminal entry
	ptr    *mcache.CacheEntry
}

type storedFailure struct {
	zone   bool
	labels [][]byte
	qtype  uint16
	class  uint16
	cd     bool
	scope  netip.Prefix
	// expired: the backoff ended (`pipe fexp`): retained as history, no longer an answer
	expired bool
}

type storedCut struct {
	labels [][]byte
	class  uint16
	// expired: `pipe cexp` moved the expiry into the past: may never be served again
	expired bool
}

// ---------------------------------------------------------------- pipeline state

var (
	pc               *mcache.Cache
	pe               *edns.EDNS
	ecsOn            bool
	entries          map[int]*storedEntry
	failures         map[int]*storedFailure
	cuts             map[int]*storedCut
	lastPurgeRemoved string
)

func store() *mcache.Store { return mcache.VerifC03Store(pc) }

// pipeCfg is the operator configuration of one pipeline: ECS forwarding ceilings,
// per-family scope floors, prefetch percentage.
type pipeCfg struct {
	f4, f6, m4, m6, prefetch int
	nets                     []string // [ecs] client_networks allow-list
	fwd                      bool     // forwarder mode: a miss goes through the real forwarder to a loopback upstream
}

// the loopback upstream of the forwarder route: answers like the in-process upstream stub does,
// shaped by fwdAns (set by the op that is running).
var (
	fwdAddr string
	fwdAns  = &ansSpec{scopeBits: -1}
	pf      *forwarder.Forwarder
)

func fwdUpstream() string {
	if fwdAddr != "" {
		return fwdAddr
	}
	pconn, err := net.ListenPacket("udp", "127.0.0.1:0")
	if err != nil {
		panic(err)
	}
	srv := &dns.Server{PacketConn: pconn, Handler: dns.HandlerFunc(func(w dns.ResponseWriter, req *dns.Msg) {
		if len(req.Question) != 1 {
			return
		}
		_ = w.WriteMsg(up.answerWith(req, fwdAns))
	})}
	go func() { _ = srv.ActivateAndServe() }()
	fwdAddr = pconn.LocalAddr().String()
	return fwdAddr
}

var curCfg pipeCfg

// upstream stands in for whatever answers a cache miss or a background refresh:
// it records the question it was ASKED (that is what the answer was obtained for)
// and answers with the next harness id.
type askedRec struct {
	id  int
	q   dns.Question // what the upstream was asked
	rq  dns.Question // the question its answer carries (normally q)
	cd  bool
	ecs *dns.EDNS0_SUBNET
}

type upstream struct {
	nextID int
	asked  []askedRec
}

func reqECS(m *dns.Msg) *dns.EDNS0_SUBNET {
	if opt := m.IsEdns0(); opt != nil {
		for _, o := range opt.Option {
			if s, ok := o.(*dns.EDNS0_SUBNET); ok {
				return s
			}
		}
	}
	return nil
}

func (u *upstream) answer(req *dns.Msg, scopeBits int) *dns.Msg {
	return u.answerWith(req, &ansSpec{scopeBits: scopeBits})
}

func (u *upstream) answerWith(req *dns.Msg, ans *ansSpec) *dns.Msg {
	scopeBits := ans.scopeBits
	rec := askedRec{id: u.nextID, q: req.Question[0], rq: req.Question[0], cd: req.CheckingDisabled, ecs: reqECS(req)}
	u.nextID++
	resp := new(dns.Msg)
	resp.SetReply(req)
	resp.RecursionAvailable = true
	if ans.rq != nil {
		rec.rq = ans.rq.q()
		resp.Question = []dns.Question{rec.rq}
	}
	u.asked = append(u.asked, rec)
	aliasPres := ""
	if ans.alias != nil {
		aliasPres = ans.alias.pres
	}
	resp.Answer = markerRRs(rec.rq.Name, rec.rq.Qtype, rec.rq.Qclass, rec.id, aliasPres)
	if ans.servfail {
		resp.Rcode, resp.Answer = dns.RcodeServerFailure, nil
	}
	o := new(dns.OPT)
	o.Hdr.Name, o.Hdr.Rrtype = ".", dns.TypeOPT
	o.SetUDPSize(4096)
	layout := ans.layout
	if layout == "" {
		layout = "S"
	}
	var subOpt dns.EDNS0
	if scopeBits >= 0 && rec.ecs != nil {
		sub := &dns.EDNS0_SUBNET{Code: dns.EDNS0SUBNET, Family: rec.ecs.Family,
			SourceNetmask: rec.ecs.SourceNetmask, SourceScope: uint8(scopeBits), Address: rec.ecs.Address}
		if ans.echo.IsValid() {
			sub.Family, sub.Address = 1, net.IP(ans.echo.AsSlice())
			if ans.echo.Is6() {
				sub.Family = 2
			}
			// keep the option packable when it has to travel over a socket (forwarder route)
			if int(sub.SourceNetmask) > ans.echo.BitLen() {
				sub.SourceNetmask = uint8(ans.echo.BitLen())
			}
		}
		subOpt = sub
	}
	for _, c := range layout {
		switch c {
		case 'S':
			if subOpt != nil {
				o.Option = append(o.Option, subOpt)
			}
		case 'c':
			o.Option = append(o.Option, &dns.EDNS0_COOKIE{Code: dns.EDNS0COOKIE, Cookie: "0102030405060708a1a2a3a4a5a6a7a8"})
		case 'n':
			o.Option = append(o.Option, &dns.EDNS0_NSID{Code: dns.EDNS0NSID, Nsid: "6e73"})
		case 'e':
			o.Option = append(o.Option, &dns.EDNS0_EDE{InfoCode: dns.ExtendedErrorCodeOther, ExtraText: "x"})
		case 'p':
			o.Option = append(o.Option, &dns.EDNS0_PADDING{Padding: make([]byte, 4)})
		}
	}
	if len(o.Option) > 0 {
		resp.Extra = []dns.RR{o}
	}
	if ans.flipCD {
		resp.CheckingDisabled = !req.CheckingDisabled
	}
	return resp
}

// Query implements middleware.Queryer for the prefetch sub-pipeline.
func (u *upstream) Query(_ context.Context, req *dns.Msg) (*dns.Msg, error) {
	return u.answerWith(req, drainSpec), nil
}

var up = &upstream{}

func newPipe(ecs bool, pcf pipeCfg) {
	if pc != nil {
		pc.Stop()
	}
	cfg := &config.Config{Expire: 300, CacheSize: 1024, Prefetch: uint32(pcf.prefetch), RateLimit: 0, Maxdepth: 30}
	cfg.Timeout.Duration = 10 * time.Second
	if ecs {
		cfg.ECS = config.ECSConfig{Enabled: true, ForwardV4Max: uint8(pcf.f4), ForwardV6Max: uint8(pcf.f6),
			MinScopeV4: uint8(pcf.m4), MinScopeV6: uint8(pcf.m6), ClientNetworks: pcf.nets}
	}
	pf = nil
	if pcf.fwd {
		cfg.ForwarderServers = []string{fwdUpstream()}
		cfg.DNSSEC = "on"
		pf = forwarder.New(cfg)
	}
	pc = mcache.New(cfg)
	// the internal sub-pipeline the decoded CNAME chase queries: the same cache, then a miss
	reg := middleware.NewRegistry()
	reg.Register("cache", func(*config.Config) middleware.Handler { return pc })
	reg.Register("submiss", func(*config.Config) middleware.Handler {
		return middleware.HandlerFunc(func(_ context.Context, ch *middleware.Chain) { ch.Cancel() })
	})
	pc.SetQueryer(middleware.NewPipelineQueryer(reg.Build(cfg)))
	mcache.VerifC03SyncPrefetch(pc)
	up = &upstream{}
	pc.SetPrefetchQueryer(up)
	pe = edns.New(cfg)
	ecsOn = ecs
	// the oracle's view of the operator's knobs (documented defaults: ceilings /24 and /56, floors = ceilings)
	if pcf.f4 == 0 {
		pcf.f4 = 24
	}
	if pcf.f6 == 0 {
		pcf.f6 = 56
	}
	if pcf.m4 == 0 {
		pcf.m4 = pcf.f4
	}
	if pcf.m6 == 0 {
		pcf.m6 = pcf.f6
	}
	curCfg = pcf
	entries = map[int]*storedEntry{}
	failures = map[int]*storedFailure{}
	cuts = map[int]*storedCut{}
	lastPurgeRemoved = ""
	flights = map[uint64]flight{}
}

func markerRRs(owner string, qtype, class uint16, id int, alias string) []dns.RR {
	hdr := func(t uint16) dns.RR_Header {
		return dns.RR_Header{Name: owner, Rrtype: t, Class: class, Ttl: 3600}
	}
	txt := &dns.TXT{Hdr: hdr(dns.TypeTXT), Txt: []string{fmt.Sprintf("m%d", id)}}
	if alias != "" {
		return []dns.RR{&dns.CNAME{Hdr: hdr(dns.TypeCNAME), Target: alias}, txt}
	}
	switch qtype {
	case dns.TypeA:
		return []dns.RR{&dns.A{Hdr: hdr(dns.TypeA), A: net.IPv4(10, byte(id>>16), byte(id>>8), byte(id)).To4()}}
	case dns.TypeAAAA:
		ip := net.ParseIP("2001:db8::")
		ip[13], ip[14], ip[15] = byte(id>>16), byte(id>>8), byte(id)
		return []dns.RR{&dns.AAAA{Hdr: hdr(dns.TypeAAAA), AAAA: ip}}
	case dns.TypeDS:
		return []dns.RR{&dns.DS{Hdr: hdr(dns.TypeDS), KeyTag: uint16(id), Algorithm: 13, DigestType: 2,
			Digest: fmt.Sprintf("%08x%056x", id, 0)}}
	case dns.TypeDNSKEY:
		return []dns.RR{&dns.DNSKEY{Hdr: hdr(dns.TypeDNSKEY), Flags: 256, Protocol: 3, Algorithm: 13,
			PublicKey: base64.StdEncoding.EncodeToString([]byte(fmt.Sprintf("m%d", id)))}}
	}
	// any other type: the marker travels in a TXT record owned by the question name
	return []dns.RR{txt}
}

// markerIDs reads the entry ids back from a reply's answer section.
func markerIDs(m *dns.Msg) []int {
	var ids []int
	for _, rr := range m.Answer {
		switch r := rr.(type) {
		case *dns.A:
			ip := r.A.To4()
			if ip != nil && ip[0] == 10 {
				ids = append(ids, int(ip[1])<<16|int(ip[2])<<8|int(ip[3]))
			}
		case *dns.AAAA:
			ip := r.AAAA.To16()
			ids = append(ids, int(ip[13])<<16|int(ip[14])<<8|int(ip[15]))
		case *dns.DS:
			if v, err := strconv.ParseUint(r.Digest[:8], 16, 32); err == nil {
				ids = append(ids, int(v))
			}
		case *dns.DNSKEY:
			if b, err := base64.StdEncoding.DecodeString(r.PublicKey); err == nil && len(b) > 1 && b[0] == 'm' {
				if v, err := strconv.Atoi(string(b[1:])); err == nil {
					ids = append(ids, v)
				}
			}
		case *dns.TXT:
			if len(r.Txt) == 1 && strings.HasPrefix(r.Txt[0], "m") {
				if v, err := strconv.Atoi(r.Txt[0][1:]); err == nil {
					ids = append(ids, v)
				}
			}
		}
	}
	return ids
}

func answerMsg(id ident, eid int, alias string) *dns.Msg {
	resp := new(dns.Msg)
	resp.Question = []dns.Question{id.q()}
	resp.Response = true
	resp.RecursionDesired = true
	resp.RecursionAvailable = true
	resp.CheckingDisabled = id.cd
	resp.Answer = markerRRs(id.n.pres, id.qtype, id.class, eid, alias)
	return resp
}

// keySpec: own | q=<ident> | raw=<16 hex>
func resolveKey(spec string, own ident) uint64 {
	switch {
	case spec == "own":
		return mcache.CacheKey{Question: own.q(), CD: own.cd, Scope: own.scope}.Hash()
	case strings.HasPrefix(spec, "q="):
		o := parseIdent(spec[2:])
		return mcache.CacheKey{Question: o.q(), CD: o.cd, Scope: o.scope}.Hash()
	case strings.HasPrefix(spec, "raw="):
		v, err := strconv.ParseUint(spec[4:], 16, 64)
		if err != nil {
			panic(err)
		}
		return v
	}
	panic("bad key spec " + spec)
}

func fqKey(id ident) mcache.FailureQuestionKey {
	return mcache.FailureQuestionKey{Question: id.q(), CD: id.cd, Scope: id.scope}
}

// failure hash spec: own | fq=<ident> | fz=<name,class> | raw=<hex>
func resolveFHash(spec string, zone bool, own ident) uint64 {
	switch {
	case spec == "own":
		if zone {
			return mcache.VerifC03FailureZoneHash(mcache.FailureZoneKey{Zone: own.n.pres, Qclass: own.class})
		}
		return mcache.VerifC03FailureQuestionHash(fqKey(own))
	case strings.HasPrefix(spec, "fq="):
		return mcache.VerifC03FailureQuestionHash(fqKey(parseIdent(spec[3:])))
	case strings.HasPrefix(spec, "fz="):
		f := strings.Split(spec[3:], ",")
		return mcache.VerifC03FailureZoneHash(mcache.FailureZoneKey{Zone: parseName(f[0]).pres, Qclass: uint16(vlib.Atoi(f[1]))})
	case strings.HasPrefix(spec, "raw="):
		v, _ := strconv.ParseUint(spec[4:], 16, 64)
		return v
	}
	panic("bad failure hash spec " + spec)
}

// cutProof builds an NXDOMAIN proof message the cut cache admits: SOA + NSEC of the
// root zone with their signatures (nothing is cryptographically verified at this layer).
func cutProof(denied string, class uint16, id int) *dns.Msg {
	m := new(dns.Msg)
	m.Question = []dns.Question{{Name: denied, Qtype: dns.TypeA, Qclass: class}}
	m.Response = true
	m.Rcode = dns.RcodeNameError
	m.AuthenticatedData = true
	hdr := func(t uint16) dns.RR_Header { return dns.RR_Header{Name: ".", Rrtype: t, Class: class, Ttl: 3600} }
	sig := func(t uint16) *dns.RRSIG {
		return &dns.RRSIG{Hdr: hdr(dns.TypeRRSIG), TypeCovered: t, Algorithm: 13, Labels: 0, OrigTtl: 3600,
			Expiration: uint32(time.Now().Add(48 * time.Hour).Unix()), Inception: uint32(time.Now().Add(-time.Hour).Unix()),
			KeyTag: 7, SignerName: ".", Signature: "ZmFrZXNpZ25hdHVyZQ=="}
	}
	m.Ns = []dns.RR{
		&dns.SOA{Hdr: hdr(dns.TypeSOA), Ns: "a.root-servers.net.", Mbox: "nstld.verisign-grs.com.", Serial: uint32(id), Refresh: 1800, Retry: 900, Expire: 604800, Minttl: 3600},
		sig(dns.TypeSOA),
		&dns.NSEC{Hdr: hdr(dns.TypeNSEC), NextDomain: ".", TypeBitMap: []uint16{dns.TypeNS, dns.TypeSOA, dns.TypeRRSIG, dns.TypeNSEC}},
		sig(dns.TypeNSEC),
	}
	return m
}

// ---------------------------------------------------------------- running a request

type reqSpec struct {
	id     ident
	client netip.Prefix // the ECS option the client sends (invalid = none)
	tcp    bool         // stream transport instead of UDP
	do     bool         // the client sets DO
	peer   net.IP       // the transport's peer address (nil: 198.51.100.77 as the 4 bytes a v4 socket reports)
}

// peerWriter reports a chosen peer address, in the byte form chosen (a dual-stack
// listener reports IPv4 peers as 16-byte IPv4-mapped addresses).
type peerWriter struct {
	*mock.Writer
	ip net.IP
}

func (w *peerWriter) RemoteAddr() net.Addr {
	if w.Proto() == "tcp" {
		return &net.TCPAddr{IP: w.ip, Port: 40000}
	}
	return &net.UDPAddr{IP: w.ip, Port: 40000}
}
func (w *peerWriter) RemoteIP() net.IP { return w.ip }

// flavour: "-" | tcp | do | tcp+do  (transport and DNSSEC-OK bit: neither may change WHICH entry answers)
func (r *reqSpec) flavour(s string) {
	for _, t := range strings.Split(s, "+") {
		switch {
		case t == "tcp":
			r.tcp = true
		case t == "do":
			r.do = true
		case strings.HasPrefix(t, "peer="): // peer=4:<8 hex> | m:<8 hex> (IPv4-mapped, 16 bytes) | 6:<32 hex>
			fam, h, _ := strings.Cut(t[5:], ":")
			b := vlib.UnHex(h)
			switch fam {
			case "4":
				r.peer = net.IP(b)
			case "m":
				r.peer = net.IP(b).To16()
			default:
				r.peer = net.IP(b)
			}
		}
	}
}

func ecsOption(p netip.Prefix) *dns.EDNS0_SUBNET {
	o := &dns.EDNS0_SUBNET{Code: dns.EDNS0SUBNET, SourceNetmask: uint8(p.Bits())}
	if p.Addr().Is4() {
		o.Family = 1
		a := p.Addr().As4()
		o.Address = net.IP(a[:])
	} else {
		o.Family = 2
		a := p.Addr().As16()
		o.Address = net.IP(a[:])
	}
	return o
}

func rawQuery(r reqSpec) []byte {
	b := make([]byte, 12, 64+len(r.id.n.wire))
	binary.BigEndian.PutUint16(b[0:], 0x1234)
	flags := uint16(0x0100) // RD
	if r.id.cd {
		flags |= 0x0010
	}
	binary.BigEndian.PutUint16(b[2:], flags)
	binary.BigEndian.PutUint16(b[4:], 1)
	b = append(b, r.id.n.wire...)
	b = binary.BigEndian.AppendUint16(b, r.id.qtype)
	b = binary.BigEndian.AppendUint16(b, r.id.class)
	// every client speaks EDNS (4096-byte UDP payload); ECS only when asked for
	binary.BigEndian.PutUint16(b[10:], 1)
	b = append(b, 0)
	b = binary.BigEndian.AppendUint16(b, dns.TypeOPT)
	b = binary.BigEndian.AppendUint16(b, 4096)
	if r.do {
		b = append(b, 0, 0, 0x80, 0)
	} else {
		b = append(b, 0, 0, 0, 0)
	}
	if r.client.IsValid() {
		a := r.client.Masked().Addr().AsSlice()
		n := (r.client.Bits() + 7) / 8
		fam := uint16(1)
		if !r.client.Addr().Is4() {
			fam = 2
		}
		b = binary.BigEndian.AppendUint16(b, uint16(8+n))
		b = binary.BigEndian.AppendUint16(b, dns.EDNS0SUBNET)
		b = binary.BigEndian.AppendUint16(b, uint16(4+n))
		b = binary.BigEndian.AppendUint16(b, fam)
		b = append(b, byte(r.client.Bits()), 0)
		b = append(b, a[:n]...)
	} else {
		b = binary.BigEndian.AppendUint16(b, 0)
	}
	return b
}

func msgQuery(r reqSpec) *dns.Msg {
	m := new(dns.Msg)
	m.Id = 0x1234
	m.RecursionDesired = true
	m.CheckingDisabled = r.id.cd
	m.Question = []dns.Question{r.id.q()}
	m.SetEdns0(4096, r.do)
	if r.client.IsValid() {
		opt := m.IsEdns0()
		opt.Option = append(opt.Option, ecsOption(r.client))
	}
	return m
}

// serve runs one request through edns→cache→terminal. route: msg | wire.
// ansSpec makes the terminal handler answer (an upstream) instead of only noting the miss.
type ansSpec struct {
	id        int
	scopeBits int        // -1: no ECS option in the response
	echo      netip.Addr // the ADDRESS (and family) the authority puts in its ECS option; invalid = the one it was sent
	flipCD    bool       // the reply carries the other CD bit than the request
	layout    string     // the reply's OPT options in order: S = the ECS option, c cookie, n NSID, e EDE, p padding ("" = "S")
	rq        *ident     // the reply answers ANOTHER question than it was asked (rewriting upstream)
	alias     *nameT     // the reply is an alias without its terminal: CNAME to this name
	servfail  bool       // the upstream fails: a bare SERVFAIL
}

// drainSpec shapes the answers of the prefetch upstream during one `pipe drain`.
var drainSpec = &ansSpec{scopeBits: -1}

func serve(route string, r reqSpec, ans *ansSpec) (out string, reply *dns.Msg, via string) {
	proto := "udp"
	if r.tcp {
		proto = "tcp"
	}
	writer := mock.NewWriter(proto, "198.51.100.77:40000")
	var transport middleware.Transport = writer
	if r.peer != nil {
		transport = &peerWriter{Writer: writer, ip: r.peer}
	}
	reached := false
	inflightSeen = nil
	terminal := middleware.HandlerFunc(func(_ context.Context, ch *middleware.Chain) {
		reached = true
		inflightSeen = mcache.VerifC03InflightKeys(pc)
		if ans != nil {
			up.nextID = ans.id
			_ = ch.Writer.WriteMsg(up.answerWith(ch.Request.Msg(), ans))
		}
		ch.Cancel()
	})
	before := mcache.VerifC03WireCounters()
	handlers := []middleware.Handler{pe, pc, terminal}
	askedBefore := len(up.asked)
	if ans != nil && pf != nil {
		// forwarder route: the miss leaves through the real forwarder to the loopback upstream
		fwdAns = ans
		up.nextID = ans.id
		handlers = []middleware.Handler{pe, pc, pf}
	}
	ch := middleware.NewChain(handlers)
	if route == "wire" {
		req := new(middleware.Request)
		if !req.ParseWire(rawQuery(r), time.Now(), nil) {
			return "ineligible", nil, ""
		}
		ch.ResetWire(transport, req)
	} else {
		ch.Reset(transport, msgQuery(r))
	}
	ch.AllowDirectPack()
	ch.Next(context.Background())
	ch.Finish()
	after := mcache.VerifC03WireCounters()
	via = "via-msg"
	for i, n := range []string{"via-wire", "via-chase", "via-wirecut", "via-wirefail"} {
		if after[i] > before[i] {
			via = n
		}
	}
	if ans != nil && pf != nil && len(up.asked) > askedBefore && writer.Written() {
		return "answered", writer.Msg(), "via-forwarder"
	}
	if reached {
		if writer.Written() {
			if ans != nil {
				return "answered", writer.Msg(), "via-upstream"
			}
			return "miss+written", writer.Msg(), via
		}
		return "miss", nil, "via-miss"
	}
	if !writer.Written() {
		return "dropped", nil, via
	}
	return classify(writer.Msg()), writer.Msg(), via
}

func classify(m *dns.Msg) string {
	switch m.Rcode {
	case dns.RcodeServerFailure:
		// a cached RFC 9520 failure announces itself with EDE 13 (every harness client speaks EDNS);
		// any other SERVFAIL is made on the spot (alias pointing back at the question)
		if opt := m.IsEdns0(); opt != nil {
			for _, o := range opt.Option {
				if e, ok := o.(*dns.EDNS0_EDE); ok && e.InfoCode == dns.ExtendedErrorCodeCachedError {
					return "fail"
				}
			}
		}
		return "loop"
	case dns.RcodeNameError:
		pre := ""
		if ids := markerIDs(m); len(ids) > 0 { // an alias chain that ended below a denied name
			s := make([]string, len(ids))
			for i, v := range ids {
				s[i] = strconv.Itoa(v)
			}
			pre = "hit " + strings.Join(s, ",") + " "
		}
		for _, rr := range m.Ns {
			if soa, ok := rr.(*dns.SOA); ok {
				return fmt.Sprintf("%scut %d", pre, soa.Serial)
			}
		}
		return pre + "cut ?"
	case dns.RcodeSuccess:
		ids := markerIDs(m)
		s := make([]string, len(ids))
		for i, v := range ids {
			s[i] = strconv.Itoa(v)
		}
		return "hit " + strings.Join(s, ",")
	}
	return "rcode=" + strconv.Itoa(m.Rcode)
}

// judge is the property oracle for one served outcome: "the reply's question /
// partition / audience equals the stored entry's, or it is a miss".
func judge(entry string, out string, r reqSpec, hasECS bool) string {
	reqLabels, ok := r.id.n.labels()
	if !ok {
		return "FAIL sig=" + entry + "/harness/request-name-unparsable"
	}
	clientScope := netip.Prefix{}
	if r.client.IsValid() {
		clientScope = r.client.Masked()
	}
	switch {
	case out == "miss" || out == "dropped" || out == "ineligible" || out == "loop":
		return "ok"
	case strings.HasPrefix(out, "hit") || strings.HasPrefix(out, "cut"):
		idsS, cutS := "", ""
		rest := out
		if strings.HasPrefix(rest, "hit") {
			rest = strings.TrimSpace(strings.TrimPrefix(rest, "hit"))
			idsS, rest, _ = strings.Cut(rest, " ")
			if idsS == "" {
				return "FAIL sig=" + entry + "/hit/answer-without-stored-entry"
			}
		}
		if strings.HasPrefix(rest, "cut") {
			cutS = strings.TrimSpace(strings.TrimPrefix(rest, "cut"))
		}
		cur := reqLabels
		if idsS != "" {
			idl := strings.Split(idsS, ",")
			for i, s := range idl {
				e := entries[vlib.Atoi(s)]
				if e == nil {
					return "FAIL sig=" + entry + "/hit/purged-or-unknown-entry id=" + s
				}
				hop := ""
				if i > 0 {
					hop = "chase-hop-"
				}
				switch {
				case !oLabelsFoldEq(e.labels, cur):
					return fmt.Sprintf("FAIL sig=%s/hit/%sother-name entry=%s", entry, hop, s)
				case e.qtype != r.id.qtype:
					return fmt.Sprintf("FAIL sig=%s/hit/%sother-type entry=%s", entry, hop, s)
				case e.class != r.id.class:
					return fmt.Sprintf("FAIL sig=%s/hit/%sother-class entry=%s", entry, hop, s)
				case e.cd != r.id.cd:
					return fmt.Sprintf("FAIL sig=%s/hit/%sother-cd-partition entry=%s", entry, hop, s)
				}
				if e.scope.IsValid() && !(i == 0 && vlib.Atoi(s) == judgeFresh) {
					// only clients inside the scope the authority tailored the answer to
					// (the asker itself is handed the upstream's fresh answer whatever subnet it names)
					if i > 0 || !oAudienceOK(e.scope, clientScope) {
						return fmt.Sprintf("FAIL sig=%s/hit/%sclient-outside-scope entry=%s scope=%s client=%s", entry, hop, s, e.scope, clientScope)
					}
				}
				if e.alias == nil {
					if i != len(idl)-1 {
						return fmt.Sprintf("FAIL sig=%s/hit/records-after-terminal entry=%s", entry, s)
					}
				} else {
					cur = e.alias
				}
			}
		}
		if cutS == "" {
			return "ok"
		}
		c := cuts[vlib.Atoi(cutS)]
		switch {
		case c == nil:
			return "FAIL sig=" + entry + "/cut/purged-or-unknown-cut"
		case c.expired:
			return "FAIL sig=" + entry + "/cut/expired-cut-served"
		case !oIsSuffix(c.labels, cur):
			return "FAIL sig=" + entry + "/cut/name-not-below-denied-name"
		case c.class != r.id.class:
			return "FAIL sig=" + entry + "/cut/other-class"
		case r.id.cd:
			return "FAIL sig=" + entry + "/cut/served-to-cd-partition"
		case hasECS:
			return "FAIL sig=" + entry + "/cut/served-to-ecs-audience"
		}
		return "ok"
	case out == "fail":
		for _, f := range failures {
			if f.expired {
				continue
			}
			if f.zone {
				if oIsSuffix(f.labels, reqLabels) && f.class == r.id.class {
					return "ok"
				}
				continue
			}
			if oLabelsFoldEq(f.labels, reqLabels) && f.qtype == r.id.qtype && f.class == r.id.class &&
				f.cd == r.id.cd && oAudienceOK(f.scope, clientScope) {
				return "ok"
			}
		}
		// a failure met while chasing an alias of this question fails the whole question: follow the
		// stored aliases of this question's partition and accept a failure that covers a name on the way
		// (every stored alias of a name is followed: the oracle's table may still hold superseded entries)
		frontier := [][][]byte{reqLabels}
		for hop := 0; hop < 24 && len(frontier) > 0; hop++ {
			var nextFrontier [][][]byte
			for _, cur := range frontier {
				for _, e := range entries {
					if e.alias == nil || !oLabelsFoldEq(e.labels, cur) || e.qtype != r.id.qtype || e.class != r.id.class || e.cd != r.id.cd {
						continue
					}
					nextFrontier = append(nextFrontier, e.alias)
					for _, f := range failures {
						if f.expired {
							continue
						}
						if f.zone && oIsSuffix(f.labels, e.alias) && f.class == r.id.class {
							return "ok"
						}
						if !f.zone && oLabelsFoldEq(f.labels, e.alias) && f.qtype == r.id.qtype && f.class == r.id.class && f.cd == r.id.cd && !f.scope.IsValid() {
							return "ok"
						}
					}
				}
			}
			if len(nextFrontier) > 64 {
				nextFrontier = nextFrontier[:64]
			}
			frontier = nextFrontier
		}
		return "FAIL sig=" + entry + "/fail/no-stored-failure-covers-this-question"
	}
	return "FAIL sig=" + entry + "/unexpected-outcome " + out
}

// ---------------------------------------------------------------- dump

func dump() string {
	var a []string
	store().ForEach(func(_ bool, key uint64, e *mcache.CacheEntry) bool {
		ids := markerIDs(mcache.VerifC03EntryMsg(e))
		id := -1
		if len(ids) > 0 {
			id = ids[len(ids)-1]
		}
		a = append(a, fmt.Sprintf("%s:%d", u64hex(key), id))
		return true
	})
	sort.Strings(a)
	var f []string
	for h, id := range mcache.VerifC03FailureDump(pc) {
		if _, err := strconv.Atoi(id); err != nil {
			id = "0"
		}
		f = append(f, u64hex(h)+":"+id)
	}
	sort.Strings(f)
	ce, bh := mcache.VerifC03CutDump(store())
	var c, h []string
	for _, s := range ce {
		c = append(c, strconv.Itoa(int(s)))
	}
	for k, s := range bh {
		h = append(h, fmt.Sprintf("%s:%d", u64hex(k), s))
	}
	sort.Strings(h)
	j := func(x []string) string {
		if len(x) == 0 {
			return "-"
		}
		return strings.Join(x, ",")
	}
	return "a=" + j(a) + " f=" + j(f) + " c=" + j(c) + " h=" + j(h)
}

func diffRemoved(before, after string) string {
	parts := func(s string) map[string][]string {
		m := map[string][]string{}
		for _, f := range strings.Fields(s) {
			k, v, _ := strings.Cut(f, "=")
			if v != "-" {
				m[k] = strings.Split(v, ",")
			}
		}
		return m
	}
	b, a := parts(before), parts(after)
	var out []string
	for _, k := range []string{"a", "f", "c", "h"} {
		have := map[string]bool{}
		for _, x := range a[k] {
			have[x] = true
		}
		var rem []string
		for _, x := range b[k] {
			if !have[x] {
				rem = append(rem, x)
			}
		}
		if len(rem) == 0 {
			out = append(out, k+"=-")
		} else {
			out = append(out, k+"="+strings.Join(rem, ","))
		}
	}
	return strings.Join(out, " ")
}

// ---------------------------------------------------------------- exec

func exec(op string) vlib.Res {
	f := strings.Fields(op)
	if len(f) < 2 {
		return vlib.Res{Impl: "bad-op"}
	}
	switch f[0] {
	case "key":
		return execKey(f)
	case "ver":
		return execVer(f)
	case "pipe":
		return execPipe(f)
	case "l3":
		return execL3(f)
	}
	return vlib.Res{Impl: "bad-op"}
}

func execKey(f []string) vlib.Res {
	switch f[1] {
	case "new":
		return vlib.Res{Impl: "ok"}
	case "of": // key of <ident>
		id := parseIdent(f[2])
		kw, k, ks, ck := "-", "-", "-", "-"
		tags := ""
		var wireOK bool
		if id.n.isWire {
			h, ok := icache.KeyWireWithPrefix(id.n.wire, id.qtype, id.class, id.cd, id.scope)
			wireOK = ok
			if ok {
				kw = u64hex(h)
			} else {
				kw = "bad"
			}
			if !id.scope.IsValid() {
				h2, ok2 := icache.KeyWire(id.n.wire, id.qtype, id.class, id.cd)
				if ok2 != ok || h2 != h {
					return vlib.Res{Impl: "kw=" + kw, Oracle: "FAIL sig=key/KeyWire-differs-from-KeyWireWithPrefix-without-scope"}
				}
			}
		}
		var want, wantCK string
		if !id.n.isWire || wireOK {
			if !id.n.presOK {
				return vlib.Res{Impl: "kw=" + kw + " undecodable", Oracle: "FAIL sig=key/harness/decoder-refused-a-name-KeyWire-accepted"}
			}
			k = u64hex(icache.KeyWithPrefix(id.q(), id.cd, id.scope))
			if !id.scope.IsValid() {
				ks = u64hex(icache.KeyString(id.n.pres, id.qtype, id.class, id.cd))
				if kk := u64hex(icache.Key(id.q(), id.cd)); kk != k {
					return vlib.Res{Impl: "k=" + k, Oracle: "FAIL sig=key/Key-differs-from-KeyWithPrefix-without-scope"}
				}
			}
			ck = u64hex(mcache.CacheKey{Question: id.q(), CD: id.cd, Scope: id.scope}.Hash())
			// oracle: the preimage spelled out from the statement, over the name the wire MEANS
			pres := id.n.pres
			if id.n.isWire {
				ls, _ := oWireLabels(id.n.wire)
				pres = oRender(ls)
			}
			want = u64hex(xxhash.Sum64(oPreimage(pres, id.qtype, id.class, id.cd, id.scope)))
			ckScope := id.scope
			if ckScope.IsValid() && ckScope.Bits() == 0 {
				ckScope = netip.Prefix{}
			}
			wantCK = u64hex(xxhash.Sum64(oPreimage(pres, id.qtype, id.class, id.cd, ckScope)))
			tags = "nt"
		}
		or := "ok"
		_, oOK := oWireLabels(id.n.wire)
		switch {
		case id.n.isWire && wireOK != oOK:
			or = fmt.Sprintf("FAIL sig=key/wire/wellformedness-verdict want-ok=%v", oOK)
		case id.n.isWire && wireOK && kw != k:
			or = "FAIL sig=key/wire-and-presentation-keys-differ kw=" + kw + " k=" + k
		case k != "-" && k != want:
			or = "FAIL sig=key/preimage-not-class-type-cd-foldedname-scope want=" + want
		case ks != "-" && ks != want:
			or = "FAIL sig=key/KeyString-differs want=" + want
		case ck != "-" && ck != wantCK:
			or = "FAIL sig=key/CacheKey.Hash want=" + wantCK
		}
		return vlib.Res{Impl: fmt.Sprintf("kw=%s k=%s ks=%s ck=%s", kw, k, ks, ck), Oracle: or, Tags: tags}
	}
	return vlib.Res{Impl: "bad-op"}
}

func oIdentEq(e, w ident) bool {
	if e.n.pres == "" {
		return false
	}
	if len(e.n.pres) != len(w.n.pres) {
		return false
	}
	for i := 0; i < len(e.n.pres); i++ {
		if oFold(e.n.pres[i]) != oFold(w.n.pres[i]) {
			return false
		}
	}
	return e.qtype == w.qtype && e.class == w.class && e.cd == w.cd
}

func execVer(f []string) vlib.Res {
	verdict := func(got, want bool, sig string) vlib.Res {
		or := "ok"
		if got != want {
			or = fmt.Sprintf("FAIL sig=ver/%s/%s", sig, map[bool]string{true: "accepted-a-different-identity", false: "rejected-the-same-identity"}[got])
		}
		return vlib.Res{Impl: vlib.B(got), Oracle: or, Tags: "nt"}
	}
	switch f[1] {
	case "new":
		return vlib.Res{Impl: "ok"}
	case "key": // ver key <entry ident> <want ident>
		e, w := parseIdent(f[2]), parseIdent(f[3])
		// the entry carries the scope it was ADMITTED under (already normalised)
		ent := mcache.VerifC03BareEntry(mcache.VerifC03Ident{Q: e.q(), CD: e.cd, Scope: e.scope})
		got := mcache.VerifC03EntryMatchesKey(ent, mcache.CacheKey{Question: w.q(), CD: w.cd, Scope: w.scope})
		want := oIdentEq(e, w) && e.scope == oNorm(w.scope)
		return verdict(got, want, "entryMatchesKey")
	case "wire": // ver wire <entry ident> <wire ident>
		e, w := parseIdent(f[2]), parseIdent(f[3])
		ent := mcache.VerifC03BareEntry(mcache.VerifC03Ident{Q: e.q(), CD: e.cd, Scope: e.scope})
		got := mcache.VerifC03EntryMatchesWireQuestion(ent, w.n.wire, w.qtype, w.class, w.cd)
		ls, ok := oWireLabels(w.n.wire)
		want := false
		if ok {
			wp := w
			wp.n = nameT{pres: oRender(ls), presOK: true}
			want = oIdentEq(e, wp) && !e.scope.IsValid()
		}
		return verdict(got, want, "entryMatchesWireQuestion")
	case "wname": // ver wname <w> <p>
		w, p := parseName(f[2]), parseName(f[3])
		got := icache.WireNameEqualsPresentation(w.wire, p.pres)
		ls, ok := oWireLabels(w.wire)
		want := false
		if ok {
			r := oRender(ls)
			want = len(r) == len(p.pres)
			for i := 0; want && i < len(r); i++ {
				want = oFold(r[i]) == oFold(p.pres[i])
			}
		}
		return verdict(got, want, "WireNameEqualsPresentation")
	case "fold": // ver fold <p> <p>
		a, b := parseName(f[2]), parseName(f[3])
		got := mcache.VerifC03EqualNameASCIIFold(a.pres, b.pres)
		want := len(a.pres) == len(b.pres)
		for i := 0; want && i < len(a.pres); i++ {
			want = oFold(a.pres[i]) == oFold(b.pres[i])
		}
		return verdict(got, want, "equalNameASCIIFold")
	case "wfold": // ver wfold <w> <w>
		a, b := parseName(f[2]), parseName(f[3])
		got := mcache.VerifC03FoldWireNamesEqual(a.wire, b.wire)
		want := len(a.wire) == len(b.wire)
		for i := 0; want && i < len(a.wire); i++ {
			want = oFold(a.wire[i]) == oFold(b.wire[i])
		}
		return verdict(got, want, "foldWireNamesEqual")
	case "walk": // ver walk <p>: the two presentation-name walks (failure zones, cut candidates)
		n := parseName(f[2])
		var z, c []string
		for _, x := range mcache.VerifC03FailureZones(n.pres) {
			z = append(z, vlib.Hex([]byte(x)))
		}
		cn := dns.CanonicalName(n.pres)
		for off := range dnsname.Suffixes(cn) {
			c = append(c, vlib.Hex([]byte(cn[off:])))
		}
		// oracle: the ancestors of the name the text MEANS, label by label
		or := "ok"
		if ls, ok := oPresLabels(n.pres); ok {
			var wantZ, wantC []string
			for i := 0; i <= len(ls); i++ {
				t := strings.ToLower(oRender(ls[i:]))
				wantZ = append(wantZ, vlib.Hex([]byte(t)))
				if i < len(ls) {
					wantC = append(wantC, vlib.Hex([]byte(t)))
				}
			}
			if strings.Join(z, ",") != strings.Join(wantZ, ",") {
				or = "FAIL sig=ver/walkFailureZones/not-the-ancestors-of-the-name"
			} else if strings.Join(c, ",") != strings.Join(wantC, ",") {
				or = "FAIL sig=ver/dnsname.Suffixes/not-the-ancestors-of-the-name"
			}
		}
		j := func(x []string) string {
			if len(x) == 0 {
				return "-"
			}
			return strings.Join(x, ",")
		}
		return vlib.Res{Impl: "z=" + j(z) + " s=" + j(c), Oracle: or, Tags: "nt"}
	case "norm": // ver norm <scope>
		p := parseScope(f[2])
		got := mcache.VerifC03NormalizeKeyScope(p)
		or := "ok"
		if got != oNorm(p) {
			or = "FAIL sig=ver/normalizeKeyScope want=" + fmtScope(oNorm(p))
		}
		return vlib.Res{Impl: fmtScope(got), Oracle: or, Tags: "nt"}
	}
	return vlib.Res{Impl: "bad-op"}
}

// drainQueue runs every queued background refresh through the real processPrefetch and judges it.
func drainQueue(parts *[]string, or *string) {
	mcache.VerifC03DrainPrefetch(pc, func(key uint64, refreshed *mcache.CacheEntry) {
		if len(up.asked) == 0 {
			*parts = append(*parts, "not-asked")
			return
		}
		rec := up.asked[len(up.asked)-1]
		ptr, ok := store().LookupByKey(key)
		replaced := false
		if ok {
			if ids := markerIDs(mcache.VerifC03EntryMsg(ptr)); len(ids) > 0 && ids[len(ids)-1] == rec.id {
				replaced = true
			}
		}
		al, _ := oPresLabels(rec.q.Name)
		// the answer was obtained in the partition the upstream was ASKED in, for the question it carries
		rl, _ := oPresLabels(rec.rq.Name)
		entries[rec.id] = &storedEntry{labels: rl, qtype: rec.rq.Qtype, class: rec.rq.Qclass, cd: rec.cd, ptr: ptr}
		*parts = append(*parts, fmt.Sprintf("asked=%s,%d,%d,%s id=%d r=%s", presTok(rec.q.Name), rec.q.Qtype, rec.q.Qclass, vlib.B(rec.cd), rec.id, vlib.B(replaced)))
		// oracle: a refresh re-asks the question, in the partition, of the entry it refreshes
		old := mcache.VerifC03EntryIdent(refreshed)
		ol, _ := oPresLabels(old.Q.Name)
		switch {
		case !oLabelsFoldEq(ol, al) || old.Q.Qtype != rec.q.Qtype || old.Q.Qclass != rec.q.Qclass:
			*or = "FAIL sig=pipe/drain/refresh-asked-another-question"
		case old.CD != rec.cd:
			*or = "FAIL sig=pipe/drain/refresh-asked-in-the-other-cd-partition"
		}
		if replaced {
			got := mcache.VerifC03EntryIdent(ptr)
			gl, _ := oPresLabels(got.Q.Name)
			if !oLabelsFoldEq(gl, rl) || got.Q.Qtype != rec.rq.Qtype || got.Q.Qclass != rec.rq.Qclass {
				*or = "FAIL sig=pipe/drain/answer-for-another-question-filed-as-the-refreshed-one"
			}
			if got.CD != rec.cd {
				*or = fmt.Sprintf("FAIL sig=pipe/drain/answer-to-cd=%s-question-filed-in-cd=%s-partition", vlib.B(rec.cd), vlib.B(got.CD))
			}
		}
	})
}

func hasECSOpt(r reqSpec) bool { return r.client.IsValid() }

// flight is what the oracle remembers of a request seen waiting under a single-flight key.
type flight struct {
	labels [][]byte
	qtype  uint16
	class  uint16
	cd     bool
	client netip.Prefix
}

var (
	flights map[uint64]flight
	// inflightSeen: the keys with a leader while the client's own request was in the next handler
	inflightSeen []uint64
)

// judgeFlight: two requests may wait for ONE upstream exchange only if they ask the same question in
// the same CD partition for overlapping audiences - or if both are probes of one expired zone failure
// that covers both names in their class (a deliberate grouping: one probe per failed zone).
func judgeFlight(key uint64, r reqSpec) string {
	ls, ok := r.id.n.labels()
	if !ok {
		return "ok"
	}
	// a /0 source is "no subnet information" (the shared audience), exactly as for stored scopes (oNorm)
	now := flight{labels: ls, qtype: r.id.qtype, class: r.id.class, cd: r.id.cd, client: oNorm(r.client)}
	was, seen := flights[key]
	flights[key] = now
	if !seen {
		return "ok"
	}
	for _, f := range failures {
		if f.zone && f.expired && f.class == now.class && f.class == was.class && oIsSuffix(f.labels, now.labels) && oIsSuffix(f.labels, was.labels) {
			return "ok"
		}
	}
	switch {
	case !oLabelsFoldEq(was.labels, now.labels):
		return "FAIL sig=pipe/dkey/one-flight-for-two-names"
	case was.qtype != now.qtype:
		return "FAIL sig=pipe/dkey/one-flight-for-two-types"
	case was.class != now.class:
		return "FAIL sig=pipe/dkey/one-flight-for-two-classes"
	case was.cd != now.cd:
		return "FAIL sig=pipe/dkey/one-flight-for-both-cd-partitions"
	case ecsOn && was.client.IsValid() != now.client.IsValid():
		return "FAIL sig=pipe/dkey/one-flight-for-a-subnet-and-everyone"
	case ecsOn && was.client.IsValid() && !was.client.Overlaps(now.client):
		return "FAIL sig=pipe/dkey/one-flight-for-two-audiences"
	}
	return "ok"
}

// strictPurge makes the purge oracle demand exactness (no over-deletion at all);
// see notes/C03.md "Candidate finding".
func strictPurge() bool { return os.Getenv("C03_STRICT_PURGE") != "" || strictMode() }

// strictMode turns the tagged-only judgements (see notes/C03.md "Candidate findings") into FAILs.
func strictMode() bool { return os.Getenv("C03_STRICT") != "" }

// judgeTags collects tags the oracle wants on the op it is judging.
var judgeTags []string

// judgeFresh is the id of an answer that came straight from the upstream in the op being judged (0 = none).
var judgeFresh int

func execPipe(f []string) vlib.Res {
	switch f[1] {
	case "new": // pipe new <ecs on|off> [fwd4,fwd6,min4,min6,prefetch%]
		pcf := pipeCfg{f4: 32, f6: 128, m4: 32, m6: 128}
		if len(f) > 3 {
			v := strings.Split(f[3], ",")
			pcf = pipeCfg{f4: vlib.Atoi(v[0]), f6: vlib.Atoi(v[1]), m4: vlib.Atoi(v[2]), m6: vlib.Atoi(v[3]), prefetch: vlib.Atoi(v[4])}
		}
		for _, t := range f[min(4, len(f)):] {
			switch {
			case strings.HasPrefix(t, "nets="):
				for _, n := range strings.Split(t[5:], ";") {
					pcf.nets = append(pcf.nets, parseScope(n).String())
				}
			case t == "fwd":
				pcf.fwd = true
			}
		}
		newPipe(f[2] == "on", pcf)
		return vlib.Res{Impl: "ok"}
	case "age": // pipe age <id>: the entry enters its prefetch window
		se := entries[vlib.Atoi(f[2])]
		live := false
		if se != nil && se.ptr != nil {
			store().ForEach(func(_ bool, _ uint64, e *mcache.CacheEntry) bool {
				live = live || e == se.ptr
				return !live
			})
		}
		if !live {
			return vlib.Res{Impl: "no-such-entry"}
		}
		mcache.VerifC03Age(se.ptr)
		return vlib.Res{Impl: "ok"}
	case "drain": // pipe drain <first id>: run the queued background refreshes (real processPrefetch)
		up.nextID = vlib.Atoi(f[2])
		up.asked = nil
		drainSpec = &ansSpec{scopeBits: -1}
		for _, t := range f[3:] {
			if strings.HasPrefix(t, "rq=") {
				id := parseIdent(t[3:])
				drainSpec.rq = &id
			}
		}
		var parts []string
		or := "ok"
		crashed := ""
		func() {
			// the worker runs on its own goroutine in production: a panic there takes the process down. Typical
			// cause: the queued request aliases a message its owner has recycled meanwhile.
			defer func() {
				if p := recover(); p != nil {
					crashed = fmt.Sprint(p)
				}
			}()
			drainQueue(&parts, &or)
		}()
		if crashed != "" {
			return vlib.Res{Impl: "worker-panic", Oracle: "FAIL sig=pipe/drain/refresh-worker-panicked-on-its-queued-request " + crashed, Tags: "nt,refresh"}
		}
		if len(parts) == 0 {
			return vlib.Res{Impl: "none", Oracle: "ok"}
		}
		return vlib.Res{Impl: strings.Join(parts, ";"), Oracle: or, Tags: "nt,refresh"}
	case "ask": // pipe ask <msg|wire> <ident> <client> <id> <scope bits[@fam:addr]|-> [flipcd]   (a miss reaches an upstream that answers)
		r := reqSpec{id: parseIdent(f[3]), client: parseScope(f[4])}
		ans := &ansSpec{id: vlib.Atoi(f[5]), scopeBits: -1}
		if f[6] != "-" {
			b, e, has := strings.Cut(f[6], "@")
			ans.scopeBits = vlib.Atoi(b)
			if has {
				ans.echo = parseScope(e + "/0").Addr()
			}
		}
		judgeTags = nil
		for _, t := range f[7:] {
			switch {
			case t == "flipcd":
				ans.flipCD = true
			case strings.HasPrefix(t, "opt="):
				ans.layout = t[4:]
				judgeTags = append(judgeTags, "opt-"+t[4:])
			case strings.HasPrefix(t, "rq="):
				id := parseIdent(t[3:])
				ans.rq = &id
				judgeTags = append(judgeTags, "rewritten-question")
			case t == "servfail":
				ans.servfail = true
				judgeTags = append(judgeTags, "upstream-servfail")
			case strings.HasPrefix(t, "peer=") || t == "tcp" || t == "do":
				r.flavour(t)
				judgeTags = append(judgeTags, strings.SplitN(t, ":", 2)[0])
			case strings.HasPrefix(t, "alias="):
				n := parseName(t[6:])
				ans.alias = &n
				judgeTags = append(judgeTags, "alias-answer")
			}
		}
		up.asked = nil
		out, reply, via := serve(f[2], r, ans)
		if out != "answered" {
			return vlib.Res{Impl: out, Oracle: judge("pipe/ask-"+f[2], out, r, hasECSOpt(r)), Tags: "nt," + via}
		}
		rec := up.asked[len(up.asked)-1]
		if ans.servfail {
			// the resolution FAILED for this client: the write-back files an RFC 9520 state; it belongs to the
			// question and audience the upstream was asked for
			idS := strconv.Itoa(rec.id)
			mcache.VerifC03FailureTag(pc, "response", idS)
			fl, _ := oPresLabels(rec.q.Name)
			aud := netip.Prefix{}
			if rec.ecs != nil {
				var a netip.Addr
				if rec.ecs.Family == 1 {
					a, _ = netip.AddrFromSlice(rec.ecs.Address.To4())
				} else {
					a, _ = netip.AddrFromSlice(rec.ecs.Address.To16())
				}
				aud = oNorm(netip.PrefixFrom(a, int(rec.ecs.SourceNetmask)))
			}
			failures[rec.id] = &storedFailure{labels: fl, qtype: rec.q.Qtype, class: rec.q.Qclass, cd: rec.cd, scope: aud}
			impl, or := fmt.Sprintf("servfail %d unrecorded", rec.id), "ok"
			for h, pid := range mcache.VerifC03FailureDump(pc) {
				if pid != idS {
					continue
				}
				impl = fmt.Sprintf("servfail %d f=%s", rec.id, u64hex(h))
				if k, ok := mcache.VerifC03FailureIdent(pc, h); ok {
					switch {
					case k.CD != rec.cd:
						or = "FAIL sig=pipe/ask/failure-filed-in-another-cd-partition"
					case aud.IsValid() && k.Scope != aud:
						or = fmt.Sprintf("FAIL sig=pipe/ask/failure-of-one-audience-filed-for-another stored=%s audience=%s", fmtScope(k.Scope), aud)
					}
				}
			}
			return vlib.Res{Impl: impl, Oracle: or, Tags: strings.Join(append([]string{"nt", "via-upstream"}, judgeTags...), ",")}
		}
		al, _ := oPresLabels(rec.q.Name)
		// the audience the authority (and the operator's floor) allow this answer to have: the network of
		// the address the authority named, of min(SCOPE, SOURCE, floor of that family) bits
		// (a SCOPE longer than the address cannot come off the wire — the codec refuses the option — and is not judged)
		allowed := netip.Prefix{}
		if rec.ecs != nil && ans.scopeBits > 0 && (ans.layout == "" || strings.Contains(ans.layout, "S")) {
			fam := rec.ecs.Family
			var a netip.Addr
			if fam == 1 {
				a, _ = netip.AddrFromSlice(rec.ecs.Address.To4())
			} else {
				a, _ = netip.AddrFromSlice(rec.ecs.Address.To16())
			}
			crossFamily := false
			if ans.echo.IsValid() {
				a = ans.echo
				crossFamily = (fam == 1) != a.Is4()
			}
			if ans.scopeBits <= a.BitLen() {
				bits := ans.scopeBits
				if a.Is4() {
					bits = min(bits, curCfg.m4)
				} else {
					bits = min(bits, curCfg.m6)
				}
				if !crossFamily {
					bits = min(bits, int(rec.ecs.SourceNetmask))
				} else {
					// SOURCE bits of the other family say nothing about this one; the code applies them anyway
					// ("noticed" in notes/C03.md): judged only in strict mode
					judgeTags = append(judgeTags, "ecs-cross-family-echo")
					if !strictMode() {
						bits = min(bits, int(rec.ecs.SourceNetmask))
					}
				}
				if bits > 0 {
					allowed = netip.PrefixFrom(a, bits).Masked()
				}
			}
		}
		askedCD := rec.cd
		if pf != nil {
			// forwarder route: the answer belongs to the partition the CLIENT asked in, whatever CD bit the
			// upstream echoes (the forwarder hands the client's own bit back)
			askedCD = r.id.cd
		} else if ans.flipCD {
			// the write-back keys on the RESPONSE's CD bit ("noticed"): in-tree handlers never change it
			judgeTags = append(judgeTags, "response-cd-differs")
			if !strictMode() {
				askedCD = !rec.cd
			}
		}
		// the answer is FOR the question it carries
		al, _ = oPresLabels(rec.rq.Name)
		se := &storedEntry{labels: al, qtype: rec.rq.Qtype, class: rec.rq.Qclass, cd: askedCD, scope: allowed}
		if ans.alias != nil {
			se.alias, _ = ans.alias.labels()
			if se.alias == nil {
				se.alias = [][]byte{}
			}
		}
		entries[rec.id] = se
		impl := fmt.Sprintf("ans %d unstored", rec.id)
		or := "ok"
		store().ForEach(func(_ bool, key uint64, e *mcache.CacheEntry) bool {
			ids := markerIDs(mcache.VerifC03EntryMsg(e))
			if len(ids) == 0 || ids[len(ids)-1] != rec.id {
				return true
			}
			se.ptr = e
			got := mcache.VerifC03EntryIdent(e)
			impl = fmt.Sprintf("ans %d key=%s scope=%s", rec.id, u64hex(key), fmtScope(got.Scope))
			own := xxhash.Sum64(oPreimage(got.Q.Name, got.Q.Qtype, got.Q.Qclass, got.CD, oNorm(got.Scope)))
			switch {
			case got.CD != askedCD:
				or = "FAIL sig=pipe/ask/answer-filed-in-another-cd-partition"
			case key != own:
				or = "FAIL sig=pipe/ask/answer-filed-under-a-foreign-key"
			case allowed.IsValid() && !(got.Scope.IsValid() && got.Scope.Addr().Is4() == allowed.Addr().Is4() &&
				got.Scope.Bits() >= allowed.Bits() && allowed.Contains(got.Scope.Addr())):
				or = fmt.Sprintf("FAIL sig=pipe/ask/stored-for-a-wider-audience-than-scope-source-and-floor-allow stored=%s allowed=%s", fmtScope(got.Scope), allowed)
			}
			return false
		})
		// what the asking client is told: the upstream's answer, completed by the write-back chase from the cache
		replyS := classify(reply)
		impl += " reply=" + strings.ReplaceAll(replyS, " ", "_")
		if or == "ok" && ans.rq == nil && !ans.flipCD {
			judgeFresh = rec.id
			or = judge("pipe/ask-"+f[2]+"-reply", replyS, r, hasECSOpt(r))
			judgeFresh = 0
		}
		return vlib.Res{Impl: impl, Oracle: or, Tags: strings.Join(append([]string{"nt", "via-upstream", fmt.Sprintf("qt%d", r.id.qtype)}, judgeTags...), ",")}
	case "set": // pipe set <keyspec> <ident> <id> <alias|->
		id := parseIdent(f[3])
		eid := vlib.Atoi(f[4])
		key := resolveKey(f[2], id)
		var alias nameT
		aliasPres := ""
		if f[5] != "-" {
			alias = parseName(f[5])
			aliasPres = alias.pres
		}
		resp := answerMsg(id, eid, aliasPres)
		if len(f) > 6 && strings.HasPrefix(f[6], "rr=") {
			// the records carry another class than the question (QCLASS ANY answered with IN records, …)
			for _, rr := range resp.Answer {
				rr.Header().Class = uint16(vlib.Atoi(f[6][3:]))
			}
		}
		if id.scope.IsValid() {
			store().SetFromResponseScoped(key, resp, id.scope, time.Time{}, 0)
		} else {
			store().SetFromResponseWithKey(key, resp, time.Time{}, 0)
		}
		ptr, ok := store().LookupByKey(key)
		if ids := []int(nil); !ok {
			return vlib.Res{Impl: "not-stored"}
		} else if ids = markerIDs(mcache.VerifC03EntryMsg(ptr)); len(ids) == 0 || ids[len(ids)-1] != eid {
			return vlib.Res{Impl: "not-stored"}
		}
		ls, _ := id.n.labels()
		se := &storedEntry{labels: ls, qtype: id.qtype, class: id.class, cd: id.cd, scope: oNorm(id.scope), ptr: ptr}
		if f[5] != "-" {
			se.alias, _ = alias.labels()
			if se.alias == nil {
				se.alias = [][]byte{}
			}
		}
		entries[eid] = se
		// the entry must carry exactly the identity it was admitted under
		got := mcache.VerifC03EntryIdent(ptr)
		or := "ok"
		if got.CD != id.cd || got.Scope != oNorm(id.scope) || got.Q != id.q() {
			or = "FAIL sig=pipe/set/entry-identity-differs-from-admission"
		}
		return vlib.Res{Impl: "ok", Oracle: or}
	case "sfr": // pipe sfr <ident> <id> <keyCD t|f>: Store.SetFromResponse (the resolver's DS/DNSKEY store seam): the CALLER names the partition
		id := parseIdent(f[2])
		eid := vlib.Atoi(f[3])
		keyCD := f[4] == "t"
		store().SetFromResponse(answerMsg(id, eid, ""), keyCD, time.Time{})
		var ptr *mcache.CacheEntry
		var at uint64
		store().ForEach(func(_ bool, key uint64, e *mcache.CacheEntry) bool {
			if ids := markerIDs(mcache.VerifC03EntryMsg(e)); len(ids) > 0 && ids[len(ids)-1] == eid {
				ptr, at = e, key
			}
			return ptr == nil
		})
		if ptr == nil {
			return vlib.Res{Impl: "not-stored"}
		}
		ls, _ := id.n.labels()
		// the answer was obtained for the partition the caller resolved in
		entries[eid] = &storedEntry{labels: ls, qtype: id.qtype, class: id.class, cd: keyCD, ptr: ptr}
		got := mcache.VerifC03EntryIdent(ptr)
		or := "ok"
		switch {
		case got.CD != keyCD:
			or = fmt.Sprintf("FAIL sig=pipe/sfr/answer-for-cd=%s-filed-in-cd=%s-partition", vlib.B(keyCD), vlib.B(got.CD))
		case at != xxhash.Sum64(oPreimage(id.n.pres, id.qtype, id.class, keyCD, netip.Prefix{})):
			or = "FAIL sig=pipe/sfr/answer-filed-under-a-foreign-key"
		}
		return vlib.Res{Impl: "ok key=" + u64hex(at), Oracle: or, Tags: "nt"}
	case "zfail", "zclear": // pipe zfail|zclear <question name,0,class> <zone name> <id>: Store.RecordZoneFailure / ClearZoneFailure
		q := parseIdent(f[2])
		zone := parseName(f[3])
		eid := vlib.Atoi(f[4])
		if f[1] == "zclear" {
			store().ClearZoneFailure(q.q(), zone.pres)
			// the oracle forgets the zone state of exactly that zone and class
			zl, _ := zone.labels()
			for k, fl := range failures {
				if fl.zone && fl.class == q.class && oLabelsFoldEq(fl.labels, zl) {
					delete(failures, k)
				}
			}
			return vlib.Res{Impl: "ok", Tags: "nt"}
		}
		store().RecordZoneFailure(q.q(), zone.pres)
		mcache.VerifC03FailureTag(pc, "authority", strconv.Itoa(eid))
		zl, _ := zone.labels()
		// every server of the zone failed while resolving a question of THIS class
		failures[eid] = &storedFailure{zone: true, labels: zl, class: q.class}
		impl := "ok unrecorded"
		for h, pid := range mcache.VerifC03FailureDump(pc) {
			if pid == strconv.Itoa(eid) {
				impl = "ok f=" + u64hex(h)
			}
		}
		return vlib.Res{Impl: impl, Tags: "nt"}
	case "fset": // pipe fset <hashspec> <q|z> <ident> <id>
		zone := f[3] == "z"
		id := parseIdent(f[4])
		eid := vlib.Atoi(f[5])
		h := resolveFHash(f[2], zone, id)
		mcache.VerifC03FailureSeed(pc, h, zone, fqKey(id), mcache.FailureZoneKey{Zone: id.n.pres, Qclass: id.class}, strconv.Itoa(eid))
		ls, _ := id.n.labels()
		failures[eid] = &storedFailure{zone: zone, labels: ls, qtype: id.qtype, class: id.class, cd: id.cd, scope: oNorm(id.scope)}
		return vlib.Res{Impl: "ok"}
	case "cset": // pipe cset <name,class> <id> <alias hash spec|->     alias: c=<name,class> | raw=<hex>
		id := parseIdent(f[2])
		eid := vlib.Atoi(f[3])
		okRec := store().RecordNXDomainCut(cutProof(id.n.pres, id.class, eid), id.n.pres, ".", time.Time{})
		exists, wireOK := mcache.VerifC03CutInfo(store(), id.n.pres, id.class)
		if !okRec || !exists {
			return vlib.Res{Impl: "not-stored"}
		}
		// a re-record of the same (name, class) replaces the earlier cut
		ls, _ := id.n.labels()
		for k, c := range cuts {
			if c.class == id.class && oLabelsFoldEq(c.labels, ls) {
				delete(cuts, k)
			}
		}
		cuts[eid] = &storedCut{labels: ls, class: id.class}
		if f[4] != "-" {
			var h uint64
			if strings.HasPrefix(f[4], "c=") {
				o := parseIdent(f[4][2:])
				h = mcache.VerifC03CutHash(o.n.pres, o.class)
			} else {
				h, _ = strconv.ParseUint(strings.TrimPrefix(f[4], "raw="), 16, 64)
			}
			mcache.VerifC03CutAlias(store(), h, id.n.pres, id.class)
		}
		return vlib.Res{Impl: "ok wire=" + vlib.B(wireOK)}
	case "cexp": // pipe cexp <name,0,class>   the cut stored for exactly this name expires (stays in the maps)
		id := parseIdent(f[2])
		if !mcache.VerifC03CutExpire(store(), id.n.pres, id.class) {
			return vlib.Res{Impl: "absent"}
		}
		ls, _ := id.n.labels()
		for _, c := range cuts {
			if c.class == id.class && oLabelsFoldEq(c.labels, ls) {
				c.expired = true
			}
		}
		return vlib.Res{Impl: "ok"}
	case "fexp": // pipe fexp <id>   the backoff of failure state <id> ends (the state is retained as history)
		if mcache.VerifC03FailureExpire(pc, f[2]) == 0 {
			return vlib.Res{Impl: "absent"}
		}
		if sf := failures[vlib.Atoi(f[2])]; sf != nil {
			sf.expired = true
		}
		return vlib.Res{Impl: "ok"}
	case "get": // pipe get <msg|wire|store> <ident(name,t,c,cd)> <client scope|-> [tcp|do|tcp+do]
		r := reqSpec{id: parseIdent(f[3]), client: parseScope(f[4])}
		fl := ""
		if len(f) > 5 {
			r.flavour(f[5])
			for _, t := range strings.Split(f[5], "+") {
				fl += "," + strings.SplitN(t, ":", 2)[0]
			}
		}
		var out, via string
		if f[2] == "store" {
			m, ok := store().GetWithContext(context.Background(), msgQuery(r))
			out, via = "miss", "via-store"
			if ok {
				out = classify(m)
			}
		} else {
			out, _, via = serve(f[2], r, nil)
		}
		judgeTags = nil
		or := judge("pipe/get-"+f[2], out, r, hasECSOpt(r))
		tags := strings.Join(append([]string{"nt", via, fmt.Sprintf("qt%d", r.id.qtype)}, judgeTags...), ",") + fl
		return vlib.Res{Impl: out, Oracle: or, Tags: tags}
	case "dkey": // pipe dkey <msg|wire> <ident(name,t,c,cd)> <client scope|->   a lookup; on a miss: the single-flight key it waited under
		r := reqSpec{id: parseIdent(f[3]), client: parseScope(f[4])}
		out, _, via := serve(f[2], r, nil)
		judgeTags = nil
		or := judge("pipe/dkey-"+f[2], out, r, hasECSOpt(r))
		dk := "-"
		switch {
		case out != "miss":
		case len(inflightSeen) != 1:
			dk = fmt.Sprintf("%d-keys", len(inflightSeen))
			or = "FAIL sig=pipe/dkey/not-exactly-one-flight-while-upstream"
		default:
			dk = fmt.Sprintf("%016x", inflightSeen[0])
			if or == "ok" {
				or = judgeFlight(inflightSeen[0], r)
			}
		}
		return vlib.Res{Impl: out + " dk=" + dk, Oracle: or, Tags: "nt," + via}
	case "rkey": // pipe rkey <ident>   Store.FailureRetryKey for the question, partition and audience (scope) given
		id := parseIdent(f[2])
		m := new(dns.Msg)
		m.Question = []dns.Question{id.q()}
		m.CheckingDisabled = id.cd
		k, ok := mcache.VerifC03RetryKey(pc, m, id.scope)
		if !ok {
			return vlib.Res{Impl: "-", Oracle: "ok", Tags: "nt"}
		}
		// the key of a probe generation is the slot of an EXPIRED state that covers this question
		or := "FAIL sig=pipe/rkey/probe-generation-without-expired-history"
		rl, _ := id.n.labels()
		for _, sf := range failures {
			if !sf.expired {
				continue
			}
			if sf.zone && oIsSuffix(sf.labels, rl) && sf.class == id.class {
				or = "ok"
			}
			if !sf.zone && oLabelsFoldEq(sf.labels, rl) && sf.qtype == id.qtype && sf.class == id.class && sf.cd == id.cd && sf.scope == oNorm(id.scope) {
				or = "ok"
			}
		}
		return vlib.Res{Impl: fmt.Sprintf("%016x", k), Oracle: or, Tags: "nt"}
	case "lbkv": // pipe lbkv <keyspec> <want ident>
		w := parseIdent(f[3])
		key := resolveKey(f[2], w)
		e, ok := store().LookupByKeyVerified(key, mcache.CacheKey{Question: w.q(), CD: w.cd, Scope: w.scope})
		out := "miss"
		if ok {
			out = classify(&dns.Msg{Answer: mcache.VerifC03EntryMsg(e).Answer})
		}
		// oracle: identity equality, scope compared in normalised form (no audience probing here)
		or := "ok"
		if ok {
			ids := markerIDs(mcache.VerifC03EntryMsg(e))
			se := entries[ids[len(ids)-1]]
			wl, _ := w.n.labels()
			if se == nil || !oLabelsFoldEq(se.labels, wl) || se.qtype != w.qtype || se.class != w.class || se.cd != w.cd || se.scope != oNorm(w.scope) {
				or = "FAIL sig=pipe/lbkv/returned-entry-of-a-different-identity"
			}
		}
		return vlib.Res{Impl: out, Oracle: or, Tags: "nt"}
	case "scoped": // pipe scoped <ident> <client>   (unverified probe)
		id := parseIdent(f[2])
		client := parseScope(f[3])
		e, _, sc := mcache.VerifC03ScopedLookup(pc, id.q(), id.cd, client)
		if e == nil {
			return vlib.Res{Impl: "none"}
		}
		ids := markerIDs(mcache.VerifC03EntryMsg(e))
		return vlib.Res{Impl: fmt.Sprintf("%d@%d", ids[len(ids)-1], sc.Bits()), Tags: "nt"}
	case "replace": // pipe replace <keyspec> <expected id> <resp ident> <new id>
		id := parseIdent(f[4])
		key := resolveKey(f[2], id)
		exp := entries[vlib.Atoi(f[3])]
		nid := vlib.Atoi(f[5])
		if exp == nil {
			return vlib.Res{Impl: "no-such-entry"}
		}
		ok := store().ReplaceIfCurrent(key, exp.ptr, answerMsg(id, nid, ""), time.Time{}, 0)
		or := "ok"
		if ok {
			ptr, _ := store().LookupByKey(key)
			got := mcache.VerifC03EntryIdent(ptr)
			ls, _ := id.n.labels()
			entries[nid] = &storedEntry{labels: ls, qtype: id.qtype, class: id.class, cd: exp.cd, scope: exp.scope, ptr: ptr}
			if got.CD != exp.cd || got.Scope != exp.scope {
				or = "FAIL sig=pipe/replace/refresh-left-the-partition-of-the-entry-it-replaced"
			}
		}
		return vlib.Res{Impl: vlib.B(ok), Oracle: or, Tags: "nt"}
	case "purge": // pipe purge <name,t,c>
		id := parseIdent(f[2])
		before := dump()
		pc.Purge(id.q())
		after := dump()
		lastPurgeRemoved = diffRemoved(before, after)
		// oracle: every entry OF THE PURGED QUESTION that sits under its own key is gone
		pl, _ := id.n.labels()
		// … and the oracle forgets what the operator purged: the answers of that question (every CD/scope),
		// its failure states, and every cut covering the name — whatever route serves them afterwards is wrong
		for k, e := range entries {
			if oLabelsFoldEq(e.labels, pl) && e.qtype == id.qtype && e.class == id.class {
				delete(entries, k)
			}
		}
		for k, fl := range failures {
			if oLabelsFoldEq(fl.labels, pl) && fl.class == id.class && (fl.zone || fl.qtype == id.qtype) {
				delete(failures, k)
			}
		}
		for k, c := range cuts {
			if oIsSuffix(c.labels, pl) && c.class == id.class {
				delete(cuts, k)
			}
		}
		or := "ok"
		strict := ""
		store().ForEach(func(_ bool, key uint64, e *mcache.CacheEntry) bool {
			got := mcache.VerifC03EntryIdent(e)
			own := xxhash.Sum64(oPreimage(got.Q.Name, got.Q.Qtype, got.Q.Qclass, got.CD, oNorm(got.Scope)))
			el, _ := oPresLabels(got.Q.Name)
			if key == own && oLabelsFoldEq(el, pl) && got.Q.Qtype == id.qtype && got.Q.Qclass == id.class {
				or = "FAIL sig=pipe/purge/entry-of-the-purged-question-survived"
			}
			return true
		})
		// what was removed although it belongs to ANOTHER question (over-deletion)
		for _, x := range strings.Split(strings.TrimPrefix(strings.Fields(lastPurgeRemoved)[0], "a="), ",") {
			if x == "-" || x == "" {
				continue
			}
			_, ids, _ := strings.Cut(x, ":")
			se := entries[vlib.Atoi(ids)]
			if se != nil && !(oLabelsFoldEq(se.labels, pl) && se.qtype == id.qtype && se.class == id.class) {
				if se.scope.IsValid() {
					strict = "FAIL sig=pipe/purge/scoped-sweep-removed-entry-of-another-name"
				} else {
					strict = "FAIL sig=pipe/purge/removed-entry-of-another-question-under-colliding-key"
				}
			}
		}
		tags := "nt"
		if strict != "" {
			tags += ",purge-overdelete"
			if or == "ok" && strictPurge() {
				or = strict
			}
		}
		return vlib.Res{Impl: "ok", Oracle: or, Tags: tags}
	case "purged": // pipe purged a=… f=… c=… h=…   (what the implementation removed; validated by the model)
		got := strings.Join(f[2:], " ")
		if got != lastPurgeRemoved {
			return vlib.Res{Impl: "stale-witness " + lastPurgeRemoved}
		}
		return vlib.Res{Impl: "ok"}
	case "dump":
		return vlib.Res{Impl: dump()}
	case "fget": // pipe fget <msg|wire> <ident> (scope = audience probed)
		id := parseIdent(f[3])
		var hit mcache.FailureHit
		var ok bool
		if f[2] == "wire" {
			hit, ok = mcache.VerifC03FailureLookupWire(pc, id.n.wire, id.qtype, id.class, id.cd)
		} else if f[2] == "store" {
			// the Store-level wrapper the decoded routes call
			m := new(dns.Msg)
			m.Question = []dns.Question{id.q()}
			m.CheckingDisabled = id.cd
			hit, ok = store().LookupFailure(m, id.scope)
		} else {
			hit, ok = mcache.VerifC03FailureLookup(pc, fqKey(id))
		}
		if !ok {
			return vlib.Res{Impl: "miss", Oracle: "ok", Tags: "nt"}
		}
		sf := failures[vlib.Atoi(string(hit.Provenance))]
		rl, _ := id.n.labels()
		or := "ok"
		kind := "q"
		if hit.Kind == mcache.FailureKindZone {
			kind = "z"
		}
		switch {
		case sf == nil:
			or = "FAIL sig=pipe/fget/unknown-failure"
		case sf.expired:
			or = "FAIL sig=pipe/fget/expired-failure-served"
		case sf.zone != (kind == "z"):
			or = "FAIL sig=pipe/fget/kind-confusion"
		case sf.zone && !(oIsSuffix(sf.labels, rl) && sf.class == id.class):
			or = "FAIL sig=pipe/fget/zone-failure-not-covering-the-name"
		case !sf.zone && !(oLabelsFoldEq(sf.labels, rl) && sf.qtype == id.qtype && sf.class == id.class && sf.cd == id.cd && sf.scope == oNorm(id.scope)):
			or = "FAIL sig=pipe/fget/failure-of-a-different-question-or-audience"
		}
		return vlib.Res{Impl: kind + string(hit.Provenance), Oracle: or, Tags: "nt"}
	case "cget": // pipe cget <msg|wire> <name,0,class>
		id := parseIdent(f[3])
		var serial uint32
		var ok bool
		if f[2] == "wire" {
			serial, ok = mcache.VerifC03CutLookupWire(store(), id.n.wire, id.class)
		} else {
			serial, ok = mcache.VerifC03CutLookup(store(), id.q())
		}
		if !ok {
			return vlib.Res{Impl: "miss", Oracle: "ok", Tags: "nt"}
		}
		c := cuts[int(serial)]
		rl, _ := id.n.labels()
		or := "ok"
		if c == nil || !oIsSuffix(c.labels, rl) || c.class != id.class {
			or = "FAIL sig=pipe/cget/cut-not-covering-the-name"
		} else if c.expired {
			or = "FAIL sig=pipe/cget/expired-cut-served"
		}
		return vlib.Res{Impl: fmt.Sprintf("cut %d", serial), Oracle: or, Tags: "nt"}
	}
	return vlib.Res{Impl: "bad-op"}
}

// ---------------------------------------------------------------- facts

func facts() map[string]any {
	var special []int
	for b := 0; b < 256; b++ {
		if icache.VerifC03IsPresentationSpecial(byte(b)) {
			special = append(special, b)
		}
	}
	// the decoder's own rendering of every single-octet label: which octets it
	// backslash-escapes and which it spells \DDD (compressed as lists)
	var decEsc, decDDD []int
	for b := 0; b < 256; b++ {
		p, _, err := dns.UnpackDomainName([]byte{1, byte(b), 0}, 0)
		if err != nil {
			continue
		}
		switch {
		case p == fmt.Sprintf("\\%03d.", b):
			decDDD = append(decDDD, b)
		case p == "\\"+string([]byte{byte(b)})+".":
			decEsc = append(decEsc, b)
		}
	}
	qs, zs, cs := mcache.VerifC03Salts()
	// strings.EqualFold (Store.Purge's scoped sweep) on ASCII: it must equate every byte with its
	// ASCII case twin, and no two other ASCII bytes
	efCovers := true
	efExtra := []int{}
	for a := 0; a < 128; a++ {
		for b := 0; b < 128; b++ {
			eq := strings.EqualFold(string([]byte{byte(a)}), string([]byte{byte(b)}))
			same := oFold(byte(a)) == oFold(byte(b))
			if same && !eq {
				efCovers = false
			}
			if eq && !same {
				efExtra = append(efExtra, a*256+b)
			}
		}
	}
	// dns.CanonicalName on single-octet names: where is it not "lower-case A–Z, leave the rest"?
	var canonOdd []int
	for b := 0; b < 256; b++ {
		if b == '.' || b == '\\' {
			continue
		}
		if dns.CanonicalName(string([]byte{byte(b), '.'})) != string([]byte{oFold(byte(b)), '.'}) {
			canonOdd = append(canonOdd, b)
		}
	}
	return map[string]any{
		"equalfold_covers_ascii_fold":   efCovers,
		"equalfold_extra_ascii_pairs":   efExtra,
		"canonicalname_rewritten_bytes": compressRanges(canonOdd),
		"special_bytes":                 special,
		"decoder_escaped_bytes":         decEsc,
		"decoder_ddd_bytes":             compressRanges(decDDD),
		"max_wire_name_octets":          icache.VerifC03MaxWireNameOctets(),
		"failure_question_salt":         qs,
		"failure_zone_salt":             zs,
		"cut_salt":                      cs,
		"max_wire_chase_hops":           mcache.VerifC03MaxWireChaseHops(),
	}
}

// compressRanges turns a sorted list into [lo0, hi0, lo1, hi1, …].
func compressRanges(xs []int) []int {
	var out []int
	for i := 0; i < len(xs); {
		j := i
		for j+1 < len(xs) && xs[j+1] == xs[j]+1 {
			j++
		}
		out = append(out, xs[i], xs[j])
		i = j + 1
	}
	return out
}

func main() { vlib.Main(&vlib.Driver{Facts: facts, Exec: exec, Gen: gen}) }
