//go:build verif

package main

import (
	"fmt"
	"net/netip"
	"strings"

	"github.com/semihalev/sdns/internal/verif/vlib"
)

// ---------------------------------------------------------------- names

var specials = []byte{'.', ' ', '\'', '@', ';', '(', ')', '"', '\\'}

func genLabel(r *vlib.R) []byte {
	n := 1 + r.Intn(6)
	if r.Chance(1, 40) {
		n = 63
	}
	l := make([]byte, n)
	style := r.Intn(6)
	for i := range l {
		switch {
		case style == 0: // anything 0–255
			l[i] = byte(r.U64())
		case style == 1 && r.Chance(1, 2): // specials and escapes
			l[i] = vlib.Pick(r, specials)
		case style == 2 && r.Chance(1, 2): // non-printable / high
			l[i] = vlib.Pick(r, []byte{0, 1, 9, 10, 31, 32, 127, 128, 200, 255, '0', '9'})
		case style == 3 && r.Chance(1, 3): // boundary of the folded range
			l[i] = vlib.Pick(r, []byte{'@', 'A', 'Z', '[', '`', 'a', 'z', '{', 0xC1, 0xE1, 0xDA, 0xFA})
		default: // mixed-case letters, digits, hyphen
			l[i] = vlib.Pick(r, []byte("abcXYZkKsS019-_"))
		}
	}
	return l
}

func wireOf(labels [][]byte) []byte {
	var w []byte
	for _, l := range labels {
		w = append(w, byte(len(l)))
		w = append(w, l...)
	}
	return append(w, 0)
}

func genLabels(r *vlib.R) [][]byte {
	n := r.Intn(4)
	if r.Chance(1, 30) {
		n = 0 // the root
	}
	if n == 0 && !r.Chance(1, 30) {
		n = 1
	}
	var ls [][]byte
	for i := 0; i < n; i++ {
		ls = append(ls, genLabel(r))
	}
	for len(wireOf(ls)) > 255 {
		ls = ls[1:]
	}
	return ls
}

func cloneLabels(ls [][]byte) [][]byte {
	out := make([][]byte, len(ls))
	for i := range ls {
		out[i] = append([]byte(nil), ls[i]...)
	}
	return out
}

// flipCase toggles the case of some ASCII letters (the SAME name for DNS).
func flipCase(r *vlib.R, ls [][]byte) [][]byte {
	out := cloneLabels(ls)
	for _, l := range out {
		for i, b := range l {
			if (b >= 'a' && b <= 'z' || b >= 'A' && b <= 'Z') && r.Bool() {
				l[i] = b ^ 0x20
			}
		}
	}
	return out
}

// oneByte changes exactly one octet so that the result is a DIFFERENT name of
// the same length; prefers near-miss values (xor 0x20 on a non-letter, ±1, the
// Unicode-looking neighbours of the folded range).
func oneByte(r *vlib.R, ls [][]byte) [][]byte {
	out := cloneLabels(ls)
	if len(out) == 0 {
		return [][]byte{{'x'}}
	}
	l := out[r.Intn(len(out))]
	i := r.Intn(len(l))
	b := l[i]
	for tries := 0; ; tries++ {
		var c byte
		switch r.Intn(4) {
		case 0:
			c = b ^ 0x20
		case 1:
			c = b + 1
		case 2:
			c = b - 1
		default:
			c = byte(r.U64())
		}
		if oFold(c) != oFold(b) {
			l[i] = c
			return out
		}
	}
}

func nameTok(ls [][]byte) string { return "w:" + vlib.Hex(wireOf(ls)) }

func presTok(s string) string { return "p:" + vlib.Hex([]byte(s)) }

// ---------------------------------------------------------------- scopes

func genPrefix(r *vlib.R, v6 bool) netip.Prefix {
	if v6 {
		b := r.Bytes(16)
		bits := vlib.Pick(r, []int{1, 7, 8, 9, 32, 47, 48, 56, 63, 64, 65, 127, 128, r.Intn(129)})
		return netip.PrefixFrom(netip.AddrFrom16([16]byte(b)), bits)
	}
	b := r.Bytes(4)
	bits := vlib.Pick(r, []int{1, 7, 8, 9, 15, 16, 17, 22, 23, 24, 25, 31, 32, r.Intn(33)})
	return netip.PrefixFrom(netip.AddrFrom4([4]byte(b)), bits)
}

func withBits(p netip.Prefix, bits int) netip.Prefix {
	if bits < 0 {
		bits = 0
	}
	if bits > p.Addr().BitLen() {
		bits = p.Addr().BitLen()
	}
	return netip.PrefixFrom(p.Addr(), bits)
}

// flipBit flips address bit i (0 = most significant).
func flipBit(p netip.Prefix, i int) netip.Prefix {
	a := p.Addr().AsSlice()
	if i < 0 {
		i = 0
	}
	if i >= len(a)*8 {
		i = len(a)*8 - 1
	}
	a[i/8] ^= 0x80 >> uint(i%8)
	addr, _ := netip.AddrFromSlice(a)
	return netip.PrefixFrom(addr, p.Bits())
}

// ---------------------------------------------------------------- identities

type gid struct {
	ls    [][]byte
	qtype int
	class int
	cd    bool
	scope netip.Prefix
}

func (g gid) tok() string {
	return fmt.Sprintf("%s,%d,%d,%s,%s", nameTok(g.ls), g.qtype, g.class, vlib.B(g.cd), fmtScope(g.scope))
}

// A, AAAA, TXT, DS, DNSKEY (the resolver-internal lookups), MX
var qtypes = []int{1, 28, 16, 43, 48, 15}

func genGid(r *vlib.R) gid {
	g := gid{ls: genLabels(r), qtype: vlib.Pick(r, qtypes), class: 1, cd: r.Chance(1, 3)}
	if r.Chance(1, 8) {
		g.class = vlib.Pick(r, []int{3, 4})
	}
	return g
}

// mutate returns g changed in exactly ONE identity dimension, and its name.
func mutate(r *vlib.R, g gid, dims []string) (gid, string) {
	m := g
	m.ls = cloneLabels(g.ls)
	d := vlib.Pick(r, dims)
	switch d {
	case "case":
		m.ls = flipCase(r, g.ls)
	case "byte":
		m.ls = oneByte(r, g.ls)
	case "child":
		m.ls = append([][]byte{genLabel(r)}, m.ls...)
		if len(wireOf(m.ls)) > 255 {
			m.ls = cloneLabels(g.ls)
			d = "case"
		}
	case "parent":
		if len(m.ls) > 0 {
			m.ls = m.ls[1:]
		} else {
			m.ls = [][]byte{{'p'}}
		}
	case "type":
		for m.qtype == g.qtype {
			m.qtype = vlib.Pick(r, qtypes)
		}
	case "class":
		for m.class == g.class {
			m.class = vlib.Pick(r, []int{1, 3, 4})
		}
	case "cd":
		m.cd = !g.cd
	case "scope-none":
		if g.scope.IsValid() {
			m.scope = netip.Prefix{}
		} else {
			m.scope = genPrefix(r, r.Chance(1, 3))
		}
	case "scope-bits":
		if !g.scope.IsValid() {
			m.scope = genPrefix(r, false)
		} else {
			nb := g.scope.Bits() + vlib.Pick(r, []int{-1, 1, -8, 8, -2, 2})
			if nb < 1 {
				nb = g.scope.Bits() + 1
			}
			m.scope = withBits(g.scope, nb)
			if m.scope.Bits() == g.scope.Bits() {
				m.scope = withBits(g.scope, g.scope.Bits()-1)
			}
		}
	case "scope-addr": // a bit INSIDE the prefix flips
		if !g.scope.IsValid() || g.scope.Bits() == 0 {
			m.scope = genPrefix(r, false)
		} else {
			m.scope = flipBit(g.scope, r.Intn(g.scope.Bits()))
		}
	case "scope-host": // a host bit flips: the SAME scope after normalisation
		if !g.scope.IsValid() || g.scope.Bits() >= g.scope.Addr().BitLen() {
			m.scope = g.scope
		} else {
			m.scope = flipBit(g.scope, g.scope.Bits()+r.Intn(g.scope.Addr().BitLen()-g.scope.Bits()))
		}
	case "scope-family":
		if !g.scope.IsValid() {
			m.scope = genPrefix(r, true)
		} else if g.scope.Addr().Is4() {
			var a [16]byte
			copy(a[:], g.scope.Addr().AsSlice())
			m.scope = netip.PrefixFrom(netip.AddrFrom16(a), g.scope.Bits())
		} else {
			a := g.scope.Addr().As16()
			bits := g.scope.Bits()
			if bits > 32 {
				bits = 32
			}
			m.scope = netip.PrefixFrom(netip.AddrFrom4([4]byte(a[:4])), bits)
		}
	}
	return m, d
}

var allDims = []string{"case", "byte", "child", "parent", "type", "class", "cd", "scope-none", "scope-bits", "scope-addr", "scope-host", "scope-family"}

// ---------------------------------------------------------------- generators

func genKeyOps(r *vlib.R, emit func(string), sweep *int, tier string) int {
	emit("key new")
	n := 1
	// systematic part: every octet value 0–255 as label content, both case positions
	for k := 0; k < 8; k++ {
		b := byte(*sweep)
		*sweep++
		ls := [][]byte{{b}, {'c', b, 'M'}}
		g := gid{ls: ls, qtype: vlib.Pick(r, qtypes), class: 1, cd: r.Bool()}
		if r.Chance(1, 3) {
			g.scope = genPrefix(r, r.Bool())
		}
		emit("key of " + g.tok())
		n++
	}
	// every prefix length of both families (cycled)
	for k := 0; k < 4; k++ {
		i := (*sweep*4 + k) % (33 + 129)
		var p netip.Prefix
		if i < 33 {
			p = withBits(genPrefix(r, false), i)
		} else {
			p = withBits(genPrefix(r, true), i-33)
		}
		g := genGid(r)
		g.scope = p
		emit("key of " + g.tok())
		n++
	}
	for k := 0; k < 10; k++ {
		g := genGid(r)
		if r.Chance(1, 2) {
			g.scope = genPrefix(r, r.Chance(1, 3))
		}
		if r.Chance(1, 6) {
			g.qtype, g.class = r.Intn(65536), r.Intn(65536)
		}
		emit("key of " + g.tok())
		m, _ := mutate(r, g, []string{"case", "byte", "scope-host", "scope-bits"})
		emit("key of " + m.tok())
		n += 2
	}
	// presentation text that no decoder produced (raw bytes, odd escapes, mixed case)
	for k := 0; k < 3; k++ {
		s := vlib.Pick(r, []string{"Example.COM.", "\\065.example.", "a\\.b.example.", "\xe2\x84\xaa.example.", "K.example.", "\xff\xfe.x.", ".", "not-fqdn", "", "a b.example.", "\\000.x."})
		emit(fmt.Sprintf("key of %s,%d,1,%s,-", presTok(s), vlib.Pick(r, qtypes), vlib.B(r.Bool())))
		n++
	}
	// malformed wire names
	for k := 0; k < 3; k++ {
		ls := genLabels(r)
		w := wireOf(ls)
		switch r.Intn(7) {
		case 0:
			w = append(w, 0) // trailing byte
		case 1:
			w = w[:len(w)-1] // no root
		case 2:
			w = []byte{0xC0, 0x0C} // compression pointer
		case 3:
			w = append([]byte{0x41}, w...) // reserved label type / overlong
		case 4:
			w = nil
		case 5: // 256 octets
			w = nil
			for len(w) < 255 {
				w = append(w, 1, 'a')
			}
			w = append(w, 0)
		case 6:
			w = append([]byte{byte(len(w) + 5)}, w...) // label runs past the end
		}
		emit(fmt.Sprintf("key of w:%s,1,1,f,-", vlib.Hex(w)))
		n++
	}
	return n
}

func genVerOps(r *vlib.R, emit func(string)) int {
	emit("ver new")
	n := 1
	for k := 0; k < 6; k++ {
		g := genGid(r)
		if r.Chance(1, 2) {
			g.scope = genPrefix(r, r.Chance(1, 3))
		}
		// the entry carries the scope it was admitted under (normalised)
		e := g
		e.scope = oNorm(g.scope)
		emit(fmt.Sprintf("ver key %s %s", e.tok(), g.tok()))
		n++
		for j := 0; j < 4; j++ {
			m, _ := mutate(r, g, allDims)
			emit(fmt.Sprintf("ver key %s %s", e.tok(), m.tok()))
			n++
		}
		// wire verifier: shared entries only
		sh := g
		sh.scope = netip.Prefix{}
		emit(fmt.Sprintf("ver wire %s %s", sh.tok(), sh.tok()))
		emit(fmt.Sprintf("ver wire %s %s", e.tok(), sh.tok()))
		m, _ := mutate(r, sh, []string{"case", "byte", "child", "parent", "type", "class", "cd"})
		emit(fmt.Sprintf("ver wire %s %s", sh.tok(), m.tok()))
		n += 3
		// name comparators
		m2, _ := mutate(r, sh, []string{"case", "byte", "child", "parent"})
		mp := parseName(nameTok(m2.ls))
		gp := parseName(nameTok(sh.ls))
		emit(fmt.Sprintf("ver wname %s %s", nameTok(sh.ls), presTok(mp.pres)))
		emit(fmt.Sprintf("ver fold %s %s", presTok(gp.pres), presTok(mp.pres)))
		emit(fmt.Sprintf("ver wfold %s %s", nameTok(sh.ls), nameTok(m2.ls)))
		emit(fmt.Sprintf("ver walk %s", presTok(mp.pres)))
		n += 4
	}
	// Unicode look-alikes must NOT fold: Kelvin sign / long s / dotless i vs ASCII
	for _, pr := range [][2]string{{"k.example.", "\xe2\x84\xaa.example."}, {"s.example.", "\xc5\xbf.example."},
		{"K.example.", "k.example."}, {"\xc9.x.", "\xe9.x."}, {"\xff.x.", "\xfe.x."}, {"[.x.", "{.x."}, {"@.x.", "`.x."}} {
		emit(fmt.Sprintf("ver fold %s %s", presTok(pr[0]), presTok(pr[1])))
		emit(fmt.Sprintf("ver key %s,1,1,f,- %s,1,1,f,-", presTok(pr[0]), presTok(pr[1])))
		n += 2
	}
	emit("ver key p:,1,1,f,- p:,1,1,f,-") // an entry without a question never matches
	for k := 0; k < 6; k++ {
		p := genPrefix(r, r.Chance(1, 3))
		if r.Chance(1, 4) {
			p = withBits(p, 0)
		}
		emit("ver norm " + fmtScope(p))
		n++
	}
	emit("ver norm -")
	return n + 2
}

// clientFor picks ECS source prefixes relative to a scope: inside, at the
// boundary, outside, shorter than the scope, other family, none.
func clientFor(r *vlib.R, scope netip.Prefix) netip.Prefix {
	if !scope.IsValid() {
		if r.Chance(1, 2) {
			return netip.Prefix{}
		}
		return genPrefix(r, r.Chance(1, 3))
	}
	full := scope.Addr().BitLen()
	switch r.Intn(8) {
	case 0:
		return netip.Prefix{}
	case 1: // exactly the scope
		return scope
	case 2, 3: // longer, inside (random host bits)
		nb := scope.Bits() + 1 + r.Intn(full-scope.Bits()+1)
		if nb > full {
			nb = full
		}
		p := scope
		for i := scope.Bits(); i < full; i++ {
			if r.Bool() {
				p = flipBit(p, i)
			}
		}
		return withBits(p, nb)
	case 4: // same length, one bit inside the prefix differs: outside
		if scope.Bits() == 0 {
			return scope
		}
		return withBits(flipBit(scope, r.Intn(scope.Bits())), vlib.Pick(r, []int{scope.Bits(), full}))
	case 5: // shorter than the scope: a wider audience
		if scope.Bits() <= 1 {
			return withBits(scope, 0)
		}
		return withBits(scope, 1+r.Intn(scope.Bits()-1))
	case 6: // other family
		m, _ := mutate(r, gid{scope: scope}, []string{"scope-family"})
		return m.scope
	default:
		return withBits(scope, full)
	}
}

type pipeGen struct {
	r    *vlib.R
	emit func(string)
	n    int
	id   int
	ecs  bool
	cyc  int
}

// cycle walks a list of dimensions round-robin so that every one of them is
// exercised equally often whatever the seed.
func (p *pipeGen) cycle(dims []string) []string {
	p.cyc++
	return []string{dims[p.cyc%len(dims)]}
}

func (p *pipeGen) op(format string, a ...any) {
	p.emit(fmt.Sprintf(format, a...))
	p.n++
}

func (p *pipeGen) nextID() int { p.id++; return p.id }

func (p *pipeGen) start() {
	p.ecs = !p.r.Chance(1, 6)
	p.op("pipe new %s", map[bool]string{true: "on", false: "off"}[p.ecs])
}

// lookups of one question through every route, with clients around `scope`.
func (p *pipeGen) getAll(g gid, scope netip.Prefix) {
	q := fmt.Sprintf("%s,%d,%d,%s", nameTok(g.ls), g.qtype, g.class, vlib.B(g.cd))
	for _, route := range []string{"msg", "wire", "store"} {
		c := clientFor(p.r, scope)
		if route == "store" && !p.r.Chance(1, 4) {
			c = netip.Prefix{}
		}
		if route == "wire" && !scope.IsValid() && !p.r.Chance(1, 4) {
			c = netip.Prefix{}
		}
		p.op("pipe get %s %s %s%s", route, q, fmtScope(c), vlib.Pick(p.r, []string{"", "", "", " tcp", " do", " tcp+do"}))
	}
	if scope.IsValid() {
		// meet the probe exactly: clients whose masked prefix IS the scope
		for k := 0; k < 2; k++ {
			c := clientFor(p.r, scope)
			p.op("pipe get msg %s %s", q, fmtScope(c))
			if c.IsValid() {
				p.op("pipe scoped %s %s", g.tok(), fmtScope(c))
			}
		}
	}
}

// collision: entry A filed under the key of B (they differ in exactly one
// dimension), then B — and A — looked up on every route.
func (p *pipeGen) collisionCase() {
	r := p.r
	p.start()
	b := genGid(r)
	scoped := r.Chance(2, 5)
	if scoped {
		b.scope = genPrefix(r, r.Chance(1, 3))
	}
	dims := []string{"byte", "type", "class", "cd", "child", "parent", "scope-none"}
	if scoped {
		dims = []string{"scope-none", "scope-bits", "scope-addr", "scope-family", "byte", "cd", "type", "class"}
	}
	a, dim := mutate(r, b, p.cycle(dims))
	_ = dim
	ida := p.nextID()
	// A under B's key
	p.op("pipe set q=%s %s %d -", b.tok(), a.tok(), ida)
	p.getAll(b, b.scope)
	p.op("pipe lbkv q=%s %s", b.tok(), b.tok())
	p.getAll(a, a.scope)
	// the same question spelled in another case still must not get A
	c, _ := mutate(r, b, []string{"case"})
	p.getAll(c, b.scope)
	if r.Chance(1, 2) {
		// now B's own answer arrives: it replaces the squatter and is served
		idb := p.nextID()
		p.op("pipe set own %s %d -", b.tok(), idb)
		p.getAll(b, b.scope)
		p.getAll(c, b.scope)
		p.op("pipe lbkv q=%s %s", b.tok(), c.tok())
		p.getAll(a, a.scope)
	}
	if r.Chance(1, 3) {
		p.op("pipe dump")
	}
}

// neighbours: several legitimately stored entries that differ in one dimension
// each; every one must be reachable only by its own question/audience.
func (p *pipeGen) neighboursCase() {
	r := p.r
	p.start()
	base := genGid(r)
	if r.Chance(1, 2) {
		base.scope = genPrefix(r, r.Chance(1, 4))
	}
	all := []gid{base}
	p.op("pipe set own %s %d -", base.tok(), p.nextID())
	for k := 0; k < 2+r.Intn(3); k++ {
		m, d := mutate(r, vlib.Pick(r, all), []string{"byte", "type", "class", "cd", "child", "parent", "scope-none", "scope-bits", "scope-addr", "scope-family"})
		if d == "" {
			continue
		}
		all = append(all, m)
		p.op("pipe set own %s %d -", m.tok(), p.nextID())
	}
	for _, g := range all {
		p.getAll(g, g.scope)
		c, _ := mutate(r, g, []string{"case"})
		p.getAll(c, g.scope)
	}
	// a question that was never stored, one dimension away
	m, _ := mutate(r, base, []string{"byte", "type", "cd", "class"})
	p.getAll(m, base.scope)
	if r.Chance(1, 2) {
		p.purge(vlib.Pick(r, all))
	}
}

func (p *pipeGen) purge(g gid) {
	c, _ := mutate(p.r, g, []string{"case"})
	p.op("pipe purge %s,%d,%d", nameTok(c.ls), g.qtype, g.class)
	p.op("pipe purged %s", lastPurgeRemoved)
	p.op("pipe dump")
	// what was purged must be gone on EVERY route (the wire routes have their own indexes)
	q := fmt.Sprintf("%s,%d,%d,%s", nameTok(g.ls), g.qtype, g.class, vlib.B(p.r.Chance(1, 4)))
	p.op("pipe get wire %s -", q)
	p.op("pipe get msg %s -", q)
	p.op("pipe get store %s -", q)
	p.op("pipe cget wire %s,0,%d", nameTok(g.ls), g.class)
	p.op("pipe fget wire %s,%d,%d,f,-", nameTok(g.ls), g.qtype, g.class)
	if len(g.ls) > 0 {
		ch := append([][]byte{genLabel(p.r)}, g.ls...)
		if len(wireOf(ch)) <= 255 {
			p.op("pipe get wire %s,%d,%d,f -", nameTok(ch), g.qtype, g.class)
		}
	}
}

// chase: alias chains walked inside the cache by the wire path, with honest and
// forged hops, loops and the hop limit.
func (p *pipeGen) chaseCase() {
	r := p.r
	prefetch := r.Chance(1, 3)
	if prefetch {
		p.ecs = !r.Chance(1, 6)
		p.op("pipe new %s 32,128,32,128,50", map[bool]string{true: "on", false: "off"}[p.ecs])
	} else {
		p.start()
	}
	qtype := vlib.Pick(r, []int{1, 28})
	cd := r.Chance(1, 3)
	hops := 1 + r.Intn(3)
	if r.Chance(1, 12) {
		hops = 9 + r.Intn(3)
	}
	names := make([][][]byte, hops+1)
	for i := range names {
		names[i] = genLabels(r)
		if hops > 4 { // long chains: short names so that the composed reply fits the UDP payload
			names[i] = [][]byte{genLabel(r)[:1], {'c', byte('0' + i%10)}}
		}
		if len(names[i]) == 0 {
			names[i] = [][]byte{{'r', byte('0' + i%10)}}
		}
	}
	class := vlib.Pick(r, []int{1, 1, 1, 3, 4, 255})
	// the records of an alias may carry another class than the question (QCLASS ANY answered with IN
	// records, a CH question answered with an IN CNAME): the chase must stay in the QUESTION's class
	rr := ""
	if class != 1 && r.Chance(1, 2) {
		rr = " rr=1"
	}
	g := func(i int) gid { return gid{ls: names[i], qtype: qtype, class: class, cd: cd} }
	var stored []int
	broken := -1
	if r.Chance(1, 2) {
		broken = 1 + r.Intn(hops)
	}
	loop := r.Chance(1, 8)
	for i := 0; i < hops; i++ {
		target := names[i+1]
		if loop && i == hops-1 {
			target = flipCase(r, names[r.Intn(i+1)]) // back to the question or an earlier hop
		}
		if i == broken {
			// the hop's key holds an entry of ANOTHER question
			z, _ := mutate(r, g(i), []string{"byte", "cd", "class", "scope-none"})
			z.qtype = qtype
			p.op("pipe set q=%s %s %d %s", g(i).tok(), z.tok(), p.nextID(), nameTok(target))
			continue
		}
		p.op("pipe set own %s %d %s%s", g(i).tok(), p.nextID(), nameTok(target), rr)
		stored = append(stored, p.id)
	}
	if !loop {
		if broken == hops {
			z, _ := mutate(r, g(hops), []string{"byte", "cd", "class", "type", "scope-none"})
			p.op("pipe set q=%s %s %d -", g(hops).tok(), z.tok(), p.nextID())
		} else if r.Chance(5, 6) {
			p.op("pipe set own %s %d -%s", g(hops).tok(), p.nextID(), rr)
			stored = append(stored, p.id)
		}
	}
	if prefetch {
		// hop entries inside their prefetch window: the sub-query that hits one claims its refresh
		for _, id := range stored {
			if r.Chance(1, 2) {
				p.op("pipe age %d", id)
			}
		}
	}
	// decoys: a hop's name answered in ANOTHER class / CD partition / type, honestly stored
	for k := 0; k < r.Intn(3); k++ {
		d, _ := mutate(r, g(1+r.Intn(hops)), []string{"class", "cd", "class", "type"})
		p.op("pipe set own %s %d -", d.tok(), p.nextID())
	}
	// the chain may end below a denied name or at a failed question
	switch r.Intn(8) {
	case 0:
		p.op("pipe cset %s,0,%d %d -", nameTok(names[hops]), vlib.Pick(r, []int{class, class, 1}), p.nextID())
	case 1:
		f := g(hops)
		if r.Chance(1, 3) {
			f, _ = mutate(r, f, []string{"class", "cd"})
		}
		p.op("pipe fset own q %s %d", f.tok(), p.nextID())
	}
	for i := 0; i <= hops && i < 3; i++ {
		c := g(i)
		if r.Bool() {
			c.ls = flipCase(r, c.ls)
		}
		q := fmt.Sprintf("%s,%d,%d,%s", nameTok(c.ls), c.qtype, c.class, vlib.B(c.cd))
		p.op("pipe get wire %s -", q)
		p.op("pipe get msg %s %s", q, fmtScope(clientFor(r, netip.Prefix{})))
	}
	other := g(0)
	other.cd = !cd
	p.op("pipe get wire %s,%d,%d,%s -", nameTok(other.ls), qtype, class, vlib.B(other.cd))
	oc := g(0)
	oc.class = vlib.Pick(r, []int{1, 3, 4, 255})
	p.op("pipe get msg %s,%d,%d,%s -", nameTok(oc.ls), qtype, oc.class, vlib.B(cd))
	if prefetch {
		first := p.id + 1
		p.id += 12
		p.op("pipe drain %d", first)
		for i := 0; i <= hops && i < 3; i++ {
			q := fmt.Sprintf("%s,%d,%d,%s", nameTok(g(i).ls), qtype, class, vlib.B(cd))
			p.op("pipe get msg %s -", q)
			p.op("pipe get wire %s,%d,%d,%s -", nameTok(g(i).ls), qtype, class, vlib.B(!cd))
		}
		p.op("pipe drain %d", p.id+1)
		p.id += 12
		p.op("pipe dump")
	}
}

// composite: RFC 8020 cuts and RFC 9520 failures, honest and under forged hashes.
func (p *pipeGen) compositeCase() {
	r := p.r
	p.start()
	base := genLabels(r)
	for len(base) < 2 {
		base = append([][]byte{genLabel(r)}, base...)
	}
	if len(wireOf(base)) > 200 {
		base = base[len(base)-1:]
	}
	parent := base[1:]
	cl := genLabel(r)
	if room := 255 - len(wireOf(base)) - 1; len(cl) > room {
		cl = cl[:room] // a wire name has at most 255 octets: longer names are not questions any parser hands over
	}
	child := append([][]byte{cl}, base...)
	sibling := oneByte(r, base)
	// a single label that CONTAINS a dot: x\.<parent> is not below <parent's first label>…
	var glued [][]byte
	if len(parent) > 0 {
		gl := append(append([]byte("x."), parent[0]...))
		if len(gl) <= 63 {
			glued = append([][]byte{gl}, parent[1:]...)
		}
	}
	class := 1
	if r.Chance(1, 8) {
		class = 3
	}
	nm := func(ls [][]byte) string { return fmt.Sprintf("%s,0,%d", nameTok(ls), class) }
	kind := r.Intn(3)
	if kind != 1 {
		// cuts
		switch r.Intn(4) {
		case 0:
			p.op("pipe cset %s %d -", nm(base), p.nextID())
		case 1: // base's cut also reachable under the hash of the sibling / the parent
			p.op("pipe cset %s %d c=%s", nm(base), p.nextID(), nm(vlib.Pick(r, [][][]byte{sibling, parent, child})))
		case 2:
			p.op("pipe cset %s %d raw=%016x", nm(base), p.nextID(), r.U64())
			p.op("pipe cset %s %d -", nm(parent), p.nextID())
		case 3:
			if len(parent) > 0 {
				p.op("pipe cset %s %d c=%s", nm(parent), p.nextID(), nm(base))
			} else {
				p.op("pipe cset %s %d -", nm(base), p.nextID())
			}
		}
	}
	if kind != 0 {
		// failures
		qt := vlib.Pick(r, qtypes)
		fid := gid{ls: base, qtype: qt, class: class, cd: r.Chance(1, 3)}
		if r.Chance(1, 4) && p.ecs {
			fid.scope = genPrefix(r, false)
		}
		switch r.Intn(5) {
		case 0:
			p.op("pipe fset own q %s %d", fid.tok(), p.nextID())
		case 1: // failure of A under the hash of B
			m, _ := mutate(r, fid, []string{"byte", "type", "class", "cd", "scope-none", "scope-bits", "child", "parent"})
			p.op("pipe fset fq=%s q %s %d", m.tok(), fid.tok(), p.nextID())
			p.getAll(m, m.scope)
		case 2: // zone failure at the parent
			p.op("pipe fset own z %s,0,%d %d", nameTok(parent), class, p.nextID())
		case 3: // zone failure of the sibling under the hash of base-as-zone
			p.op("pipe fset fz=%s,%d z %s,0,%d %d", nameTok(base), class, nameTok(sibling), class, p.nextID())
		case 4: // a question failure filed where a zone failure is looked up, and vice versa
			p.op("pipe fset fz=%s,%d q %s %d", nameTok(base), class, fid.tok(), p.nextID())
			p.op("pipe fset fq=%s z %s,0,%d %d", fid.tok(), nameTok(base), class, p.nextID())
		}
		for _, ls := range [][][]byte{base, child, sibling} {
			for _, route := range []string{"msg", "wire"} {
				c := gid{ls: ls, qtype: qt, class: class, cd: fid.cd}
				if r.Chance(1, 3) {
					c.cd = !c.cd
				}
				if r.Chance(1, 2) {
					c.ls = flipCase(r, ls)
				}
				sc := fid.scope
				if route == "wire" || r.Chance(1, 2) {
					sc = netip.Prefix{}
				}
				c.scope = sc
				p.op("pipe fget %s %s", route, c.tok())
				if route == "msg" {
					p.op("pipe fget store %s", c.tok())
				}
			}
		}
	}
	cands := [][][]byte{base, child, sibling, parent, flipCase(r, child)}
	if glued != nil {
		cands = append(cands, glued)
	}
	for _, ls := range cands {
		g := gid{ls: ls, qtype: vlib.Pick(r, qtypes), class: class, cd: r.Chance(1, 4)}
		p.getAll(g, netip.Prefix{})
		p.op("pipe cget %s %s", vlib.Pick(r, []string{"msg", "wire"}), nm(ls))
	}
	if r.Chance(1, 2) {
		p.purge(gid{ls: vlib.Pick(r, cands), qtype: vlib.Pick(r, qtypes), class: class})
	}
}

// failureCollision: the failure of question A filed under the hash of B (one
// dimension apart), then B looked up through both failure routes and the pipeline.
func (p *pipeGen) failureCollisionCase() {
	r := p.r
	p.start()
	b := genGid(r)
	for len(b.ls) == 0 {
		b.ls = genLabels(r)
	}
	if p.ecs && r.Chance(1, 3) {
		b.scope = genPrefix(r, r.Chance(1, 4))
	}
	dims := []string{"byte", "type", "class", "cd", "child", "parent", "scope-none", "scope-bits", "scope-addr"}
	a, _ := mutate(r, b, p.cycle(dims))
	p.op("pipe fset fq=%s q %s %d", b.tok(), a.tok(), p.nextID())
	look := func(g gid) {
		p.op("pipe fget msg %s", g.tok())
		sh := g
		sh.scope = netip.Prefix{}
		p.op("pipe fget wire %s", sh.tok())
		q := fmt.Sprintf("%s,%d,%d,%s", nameTok(g.ls), g.qtype, g.class, vlib.B(g.cd))
		client := netip.Prefix{}
		if g.scope.IsValid() {
			client = g.scope
		}
		p.op("pipe get msg %s %s", q, fmtScope(client))
		p.op("pipe get wire %s -", q)
		p.op("pipe get store %s -", q)
	}
	look(b)
	c := b
	c.ls = flipCase(r, b.ls)
	look(c)
	look(a)
	// zone states: filed under the zone hash of another name / another class
	zn := b.ls
	zo, _ := mutate(r, gid{ls: zn, class: b.class}, p.cycle([]string{"byte", "class", "child", "parent"}))
	p.op("pipe fset fz=%s,%d z %s,0,%d %d", nameTok(zn), b.class, nameTok(zo.ls), zo.class, p.nextID())
	child := gid{ls: append([][]byte{genLabel(r)}, zn...), qtype: b.qtype, class: b.class, cd: r.Bool()}
	if len(wireOf(child.ls)) <= 255 {
		look(child)
	}
	look(gid{ls: zn, qtype: b.qtype, class: b.class, cd: b.cd})
	if r.Chance(1, 3) {
		p.purge(b)
	}
}

// cutCollision: the cut of name A reachable under the index hash of B.
func (p *pipeGen) cutCollisionCase() {
	r := p.r
	p.start()
	b := gid{ls: genLabels(r), class: vlib.Pick(r, []int{1, 1, 1, 3})}
	for len(b.ls) == 0 {
		b.ls = genLabels(r)
	}
	a, _ := mutate(r, b, p.cycle([]string{"byte", "class", "child", "parent"}))
	nm := func(g gid) string { return fmt.Sprintf("%s,0,%d", nameTok(g.ls), g.class) }
	if len(a.ls) == 0 {
		a.ls = [][]byte{{'q'}}
	}
	p.op("pipe cset %s %d c=%s", nm(a), p.nextID(), nm(b))
	for _, g := range []gid{b, a, {ls: flipCase(r, b.ls), class: b.class}, {ls: append([][]byte{genLabel(r)}, b.ls...), class: b.class}, {ls: append([][]byte{genLabel(r)}, a.ls...), class: a.class}} {
		if len(wireOf(g.ls)) > 255 {
			continue
		}
		p.op("pipe cget wire %s", nm(g))
		p.op("pipe cget msg %s", nm(g))
		q := fmt.Sprintf("%s,%d,%d,%s", nameTok(g.ls), vlib.Pick(r, qtypes), g.class, vlib.B(r.Chance(1, 5)))
		p.op("pipe get wire %s -", q)
		p.op("pipe get msg %s %s", q, fmtScope(clientFor(r, netip.Prefix{})))
		p.op("pipe get store %s -", q)
	}
}

// unicodeCollision: an entry whose name is a Unicode look-alike of the question
// (KELVIN SIGN vs k, long s vs S, É vs é, two invalid UTF-8 octets) under the
// question's key: nothing but an ASCII-only comparison keeps them apart.
func (p *pipeGen) unicodeCollisionCase() {
	p.start()
	pairs := [][2]string{{"\xe2\x84\xaa.example.", "k.example."}, {"\xc5\xbf.example.", "S.example."},
		{"\xc3\x89.example.", "\xc3\xa9.example."}, {"\xff.example.", "\xfe.example."}, {"\xe2\x84\xaa.example.", "K.example."}}
	pr := vlib.Pick(p.r, pairs)
	qt := vlib.Pick(p.r, qtypes)
	cd := vlib.B(p.r.Bool())
	sc := "-"
	if p.r.Chance(1, 3) {
		sc = fmtScope(genPrefix(p.r, false))
	}
	p.op("pipe set q=%s,%d,1,%s,%s %s,%d,1,%s,%s %d -", presTok(pr[1]), qt, cd, sc, presTok(pr[0]), qt, cd, sc, p.nextID())
	client := "-"
	if sc != "-" {
		client = sc
	}
	p.op("pipe get msg %s,%d,1,%s %s", presTok(pr[1]), qt, cd, client)
	p.op("pipe get store %s,%d,1,%s -", presTok(pr[1]), qt, cd)
	p.op("pipe lbkv q=%s,%d,1,%s,%s %s,%d,1,%s,%s", presTok(pr[1]), qt, cd, sc, presTok(pr[1]), qt, cd, sc)
	p.op("pipe get msg %s,%d,1,%s %s", presTok(pr[0]), qt, cd, client)
}

// refresh: ReplaceIfCurrent keeps the partition and audience of the entry it replaces.
func (p *pipeGen) refreshCase() {
	r := p.r
	p.start()
	g := genGid(r)
	if r.Chance(1, 2) {
		g.scope = genPrefix(r, r.Chance(1, 4))
	}
	id1 := p.nextID()
	p.op("pipe set own %s %d -", g.tok(), id1)
	// the refresh response: same question, possibly the OTHER CD bit on the wire
	resp := g
	if r.Chance(1, 2) {
		resp.cd = !g.cd
	}
	if r.Chance(1, 6) {
		resp.ls = flipCase(r, g.ls)
	}
	stale := r.Chance(1, 3)
	if stale {
		// newer state replaced the entry before the refresh came back
		p.op("pipe set own %s %d -", g.tok(), p.nextID())
	}
	p.op("pipe replace q=%s %d %s %d", g.tok(), id1, resp.tok(), p.nextID())
	p.getAll(g, g.scope)
	o := g
	o.cd = !g.cd
	p.getAll(o, g.scope)
	p.op("pipe dump")
}

// prefetchCase: an entry inside its prefetch window is hit, the real worker code
// refreshes it through an upstream that records what it was ASKED; both CD
// partitions are populated so that an answer obtained for the other one shows.
func (p *pipeGen) prefetchCase() {
	r := p.r
	p.ecs = !r.Chance(1, 4)
	p.op("pipe new %s %s,%d", map[bool]string{true: "on", false: "off"}[p.ecs], vlib.Pick(r, []string{"32,128,32,128", "24,56,24,56", "24,56,24,48"}), vlib.Pick(r, []int{50, 10, 90}))
	g := genGid(r)
	g.scope = netip.Prefix{}
	twin := g
	twin.cd = !g.cd
	idg, idt := p.nextID(), p.nextID()
	alias := "-"
	if r.Chance(1, 6) && (g.qtype == 1 || g.qtype == 28) {
		alias = nameTok(genLabels(r))
		if alias == "w:00" {
			alias = "-"
		}
	}
	p.op("pipe set own %s %d %s", g.tok(), idg, alias)
	p.op("pipe set own %s %d -", twin.tok(), idt)
	var scoped gid
	ids := 0
	if r.Chance(1, 3) {
		scoped = g
		scoped.scope = genPrefix(r, r.Chance(1, 3))
		ids = p.nextID()
		p.op("pipe set own %s %d -", scoped.tok(), ids)
		p.op("pipe age %d", ids) // scoped entries are never refreshed
	}
	p.op("pipe age %d", idg)
	if r.Chance(1, 3) {
		p.op("pipe age %d", idt)
	}
	hit := func(x gid, client netip.Prefix) {
		c := x
		if r.Bool() {
			c.ls = flipCase(r, x.ls)
		}
		q := fmt.Sprintf("%s,%d,%d,%s", nameTok(c.ls), c.qtype, c.class, vlib.B(c.cd))
		route := vlib.Pick(r, []string{"msg", "wire", "msg"})
		p.op("pipe get %s %s %s", route, q, fmtScope(client))
	}
	hit(g, netip.Prefix{})
	if r.Bool() {
		hit(g, clientFor(r, netip.Prefix{})) // second hit while the claim is held
	}
	if r.Chance(1, 2) {
		hit(twin, netip.Prefix{})
	}
	if ids != 0 {
		hit(scoped, scoped.scope)
	}
	if r.Chance(1, 5) {
		p.op("pipe set own %s %d -", g.tok(), p.nextID()) // superseded before the refresh returns
	}
	first := p.id + 1
	p.id += 4
	if r.Chance(1, 3) {
		// the refresh comes back answering another question (rewriting / hostile upstream), or the same one respelled
		m, _ := mutate(r, g, p.cycle([]string{"byte", "type", "class", "case", "child", "parent"}))
		p.op("pipe drain %d rq=%s,%d,%d", first, nameTok(m.ls), m.qtype, m.class)
		p.getAll(m, netip.Prefix{})
	} else {
		p.op("pipe drain %d", first)
	}
	p.getAll(g, netip.Prefix{})
	p.getAll(twin, netip.Prefix{})
	p.op("pipe drain %d", p.nextID())
	p.op("pipe dump")
}

// admitCase: answers enter the cache the way production admits them — a miss
// reaches an upstream whose response carries an ECS SCOPE, WriteMsg clamps and
// keys it — then clients inside and just outside the admitted audience ask.
func (p *pipeGen) admitCase() {
	r := p.r
	p.ecs = !r.Chance(1, 8)
	cfgs := [][4]int{{24, 56, 24, 56}, {24, 56, 24, 48}, {32, 128, 24, 48}, {32, 128, 32, 128}, {24, 56, 16, 32},
		{24, 56, 32, 64}, {32, 64, 20, 40}, {32, 128, 8, 16}, {24, 48, 24, 24}, {16, 56, 16, 56},
		{32, 128, 24, 16}, {24, 56, 24, 8}, {32, 32, 28, 20}, // floors of one family below the other's
		{0, 0, 0, 0}, {0, 0, 16, 32}, {32, 128, 0, 0}, {0, 64, 0, 40}} // zeros: ecs.Build's defaults
	cf := vlib.Pick(r, cfgs)
	// a third of the cases leave through the real forwarder to a loopback upstream instead of the in-process stub
	viaFwd := r.Chance(1, 3)
	p.op("pipe new %s %d,%d,%d,%d,0%s", map[bool]string{true: "on", false: "off"}[p.ecs], cf[0], cf[1], cf[2], cf[3], map[bool]string{true: " fwd", false: ""}[viaFwd])
	v6 := r.Chance(1, 2)
	eff := cf
	if eff[0] == 0 {
		eff[0] = 24
	}
	if eff[1] == 0 {
		eff[1] = 56
	}
	if eff[2] == 0 {
		eff[2] = eff[0]
	}
	if eff[3] == 0 {
		eff[3] = eff[1]
	}
	fwd, floor, full := eff[0], eff[2], 32
	if v6 {
		fwd, floor, full = eff[1], eff[3], 128
	}
	g := genGid(r)
	g.scope = netip.Prefix{}
	q := func(x gid) string { return fmt.Sprintf("%s,%d,%d,%s", nameTok(x.ls), x.qtype, x.class, vlib.B(x.cd)) }
	a := genPrefix(r, v6)
	a = withBits(a, vlib.Pick(r, []int{fwd, fwd, fwd + 8, floor, floor + 1, floor - 1, full, 1 + r.Intn(full)}))
	if a.Bits() == 0 {
		a = withBits(a, fwd)
	}
	src := min(a.Bits(), fwd)
	sb := vlib.Pick(r, []int{src, src, floor, floor + 1, floor - 1, floor + 8, src + 8, src - 1, full, 1, 0, -1, 1 + r.Intn(full)})
	if sb > full {
		sb = full
	}
	sbTok := fmt.Sprint(sb)
	if sb < 0 {
		sbTok = "-"
	}
	route := func() string { return vlib.Pick(r, []string{"msg", "wire"}) }
	// what the authority puts into its ECS option: normally the subnet it was sent; sometimes another
	// subnet of the family, rarely one of the other family (RFC 7871 §7.3 says drop; the cache keys on it)
	echo := a
	if sb >= 0 {
		switch r.Intn(10) {
		case 0, 1:
			echo = flipBit(a, r.Intn(max(min(src, full), 1)))
			sbTok = fmt.Sprintf("%d@%s", sb, strings.TrimSuffix(fmtScope(withBits(echo, 0)), "/0"))
		case 2:
			m, _ := mutate(r, gid{scope: a}, []string{"scope-family"})
			echo = m.scope
			sbTok = fmt.Sprintf("%d@%s", min(sb, echo.Addr().BitLen()), strings.TrimSuffix(fmtScope(withBits(echo, 0)), "/0"))
		}
	}
	flip := ""
	if r.Chance(1, 12) || (viaFwd && r.Chance(1, 3)) {
		flip = " flipcd" // the upstream does not echo the CD bit it was sent
	}
	// the response OPT around the ECS option: cookie / NSID / EDE / padding before or after it, or no ECS option at all
	if r.Chance(1, 2) {
		flip += " opt=" + vlib.Pick(r, []string{"cS", "nS", "eS", "pS", "Sc", "Se", "cnS", "cSe", "pcnS", "c", "e", "S"})
	}
	if r.Chance(1, 10) && !viaFwd {
		m, _ := mutate(r, g, []string{"byte", "type", "class", "case"})
		flip += fmt.Sprintf(" rq=%s,%d,%d", nameTok(m.ls), m.qtype, m.class)
	}
	p.op("pipe ask %s %s %s %d %s%s", route(), q(g), fmtScope(a), p.nextID(), sbTok, flip)
	if echo != a {
		// clients around the subnet the authority named
		for _, c := range []netip.Prefix{withBits(echo, echo.Addr().BitLen()), withBits(flipBit(echo, r.Intn(echo.Addr().BitLen())), echo.Addr().BitLen()), netip.Prefix{}} {
			p.op("pipe get %s %s %s", route(), q(g), fmtScope(c))
		}
	}
	// the audience the answer may have: the asking client's network of min(SCOPE, SOURCE, floor) bits
	allowed := min(max(sb, 0), src, floor)
	others := []netip.Prefix{a, withBits(a, full)}
	// just outside: one bit inside the allowed prefix differs (last bit, a bit past the OTHER family's floor, a random one)
	for _, bit := range []int{allowed - 1, eff[2], eff[2] - 1, eff[3] - 1, 24, 23, src - 1, floor - 1, r.Intn(full)} {
		if bit >= 0 && bit < full {
			others = append(others, withBits(flipBit(a, bit), vlib.Pick(r, []int{a.Bits(), full, fwd})))
		}
	}
	// inside: host bits randomised
	in := a
	for i := max(allowed, 1); i < full; i++ {
		if r.Bool() {
			in = flipBit(in, i)
		}
	}
	others = append(others, withBits(in, full), withBits(in, max(allowed, 1)), netip.Prefix{})
	m, _ := mutate(r, gid{scope: a}, []string{"scope-family"})
	others = append(others, m.scope)
	for _, c := range others {
		if c.IsValid() && c.Bits() == 0 {
			continue
		}
		p.op("pipe get %s %s %s", route(), q(g), fmtScope(c))
	}
	twin := g
	twin.cd = !g.cd
	p.op("pipe get msg %s %s", q(twin), fmtScope(a))
	// a second audience asks for itself and is answered for itself
	b := vlib.Pick(r, others[2:])
	if b.IsValid() {
		if sb > b.Addr().BitLen() && (viaFwd || !r.Chance(1, 10)) { // (an over-long SCOPE cannot travel over a socket)
			sbTok = fmt.Sprint(b.Addr().BitLen())
		}
		p.op("pipe ask %s %s %s %d %s", route(), q(g), fmtScope(b), p.nextID(), sbTok)
		p.op("pipe get msg %s %s", q(g), fmtScope(a))
		p.op("pipe get msg %s %s", q(g), fmtScope(b))
	}
	p.op("pipe ask %s %s - %d -", route(), q(twin), p.nextID())
	p.op("pipe get wire %s -", q(twin))
	if g.qtype == 1 || g.qtype == 28 {
		// an upstream answers an alias without its terminal: the write-back chase completes the reply from the
		// cache (in the question's own class and CD partition), later hits compose it again
		h := gid{ls: genLabels(r), qtype: g.qtype, class: g.class, cd: vlib.Pick(r, []bool{g.cd, g.cd, !g.cd})}
		if len(h.ls) > 0 && !oLabelsFoldEq(h.ls, g.ls) {
			target := g.ls
			if r.Chance(1, 4) {
				target = flipCase(r, g.ls)
			}
			p.op("pipe ask %s %s %s %d - alias=%s", route(), q(h), fmtScope(vlib.Pick(r, []netip.Prefix{{}, a})), p.nextID(), nameTok(target))
			p.op("pipe get msg %s %s", q(h), fmtScope(vlib.Pick(r, []netip.Prefix{{}, a, b})))
			p.op("pipe get wire %s -", q(h))
		}
	}
	p.op("pipe dump")
}

// allowListCase: ECS-aware caching restricted to an allow-list of client networks; peers inside it in both
// byte forms a socket can report (4 bytes, 16-byte IPv4-mapped), peers outside, an IPv6 peer.
func (p *pipeGen) allowListCase() {
	r := p.r
	p.ecs = true
	in := r.Bytes(4)
	nets := []string{fmt.Sprintf("4:%s/%d", vlib.Hex(in), vlib.Pick(r, []int{8, 16, 24, 32}))}
	if r.Bool() {
		nets = append(nets, fmt.Sprintf("6:%s/%d", vlib.Hex(r.Bytes(16)), vlib.Pick(r, []int{32, 48, 64})))
	}
	if r.Bool() {
		nets = append(nets, fmt.Sprintf("4:%s/%d", vlib.Hex(r.Bytes(4)), 24))
	}
	p.op("pipe new on %s,0 nets=%s", vlib.Pick(r, []string{"24,56,24,56", "32,128,24,48", "24,56,16,32"}), strings.Join(nets, ";"))
	out := append([]byte(nil), in...)
	out[0] ^= 0x80
	peers := []string{"peer=4:" + vlib.Hex(in), "peer=m:" + vlib.Hex(in), "peer=4:" + vlib.Hex(out), "peer=m:" + vlib.Hex(out), "peer=6:" + vlib.Hex(r.Bytes(16)), ""}
	g := genGid(r)
	g.scope = netip.Prefix{}
	q := fmt.Sprintf("%s,%d,%d,%s", nameTok(g.ls), g.qtype, g.class, vlib.B(g.cd))
	a := genPrefix(r, r.Chance(1, 4))
	if a.Bits() == 0 {
		a = withBits(a, 8)
	}
	sb := vlib.Pick(r, []int{a.Bits(), min(a.Bits(), 24), 16, 8})
	route := func() string { return vlib.Pick(r, []string{"msg", "wire"}) }
	fl := func(x string) string {
		if x == "" {
			return ""
		}
		return " " + x
	}
	p.op("pipe ask %s %s %s %d %d%s", route(), q, fmtScope(a), p.nextID(), sb, fl(vlib.Pick(r, peers[:2])))
	b := withBits(flipBit(a, r.Intn(max(min(sb, a.Bits()), 1))), a.Bits())
	for _, c := range []netip.Prefix{a, b, {}} {
		for k := 0; k < 2; k++ {
			p.op("pipe get %s %s %s%s", route(), q, fmtScope(c), fl(vlib.Pick(r, peers)))
		}
	}
	// a peer outside the allow-list: its ECS is stripped, its answer is shared
	g2 := g
	g2.cd = !g.cd
	q2 := fmt.Sprintf("%s,%d,%d,%s", nameTok(g2.ls), g2.qtype, g2.class, vlib.B(g2.cd))
	p.op("pipe ask %s %s %s %d %d%s", route(), q2, fmtScope(a), p.nextID(), sb, fl(vlib.Pick(r, peers[2:5])))
	p.op("pipe get %s %s %s%s", route(), q2, fmtScope(b), fl(vlib.Pick(r, peers)))
	p.op("pipe get %s %s -", route(), q2)
	p.op("pipe dump")
}

// failedResolutionCase: the resolution fails for one audience (bare SERVFAIL from the upstream): the RFC 9520
// state the write-back files must serve that question, CD partition and audience only.
func (p *pipeGen) failedResolutionCase() {
	r := p.r
	p.ecs = !r.Chance(1, 5)
	p.op("pipe new %s %s,0%s", map[bool]string{true: "on", false: "off"}[p.ecs], vlib.Pick(r, []string{"24,56,24,56", "32,128,32,128", "24,56,24,48"}), vlib.Pick(r, []string{"", "", " fwd"}))
	g := genGid(r)
	g.scope = netip.Prefix{}
	for len(g.ls) == 0 {
		g.ls = genLabels(r)
	}
	q := func(x gid) string { return fmt.Sprintf("%s,%d,%d,%s", nameTok(x.ls), x.qtype, x.class, vlib.B(x.cd)) }
	a := genPrefix(r, r.Chance(1, 4))
	if a.Bits() == 0 {
		a = withBits(a, 8)
	}
	if r.Chance(1, 4) {
		a = netip.Prefix{}
	}
	route := func() string { return vlib.Pick(r, []string{"msg", "wire"}) }
	sbTok := vlib.Pick(r, []string{"-", "-", "-", "24 opt=S", "- opt=c"})
	p.op("pipe ask %s %s %s %d %s servfail", route(), q(g), fmtScope(a), p.nextID(), sbTok)
	others := []netip.Prefix{a, {}, genPrefix(r, false)}
	if a.IsValid() {
		others = append(others, withBits(flipBit(a, r.Intn(a.Bits())), a.Bits()), withBits(a, a.Addr().BitLen()))
	}
	for _, c := range others {
		p.op("pipe get %s %s %s", route(), q(g), fmtScope(c))
	}
	p.op("pipe get store %s -", q(g))
	p.op("pipe fget wire %s,-", q(g))
	p.op("pipe fget msg %s,%s", q(g), fmtScope(a))
	// the Store wrapper, in both partitions and for the other audiences
	tw := g
	tw.cd = !g.cd
	p.op("pipe fget store %s,%s", q(g), fmtScope(a))
	p.op("pipe fget store %s,%s", q(tw), fmtScope(a))
	p.op("pipe fget store %s,-", q(tw))
	p.getAll(tw, netip.Prefix{})
	m, _ := mutate(r, g, p.cycle([]string{"cd", "type", "class", "byte", "child"}))
	p.op("pipe get %s %s %s", route(), q(m), fmtScope(a))
	// the same audience resolves fine later: the answer resets its own failure only
	if r.Bool() {
		p.op("pipe ask %s %s %s %d -", route(), q(m), fmtScope(a), p.nextID())
		p.op("pipe get %s %s %s", route(), q(g), fmtScope(a))
	}
	if r.Chance(1, 3) {
		p.purge(g)
	}
	p.op("pipe dump")
}

// storeSeamCase: the resolver's own store seam (Store.SetFromResponse: DS/DNSKEY sub-lookups): the caller names the
// CD partition; the response header may carry the other bit (an upstream leg that flipped it). Then both partitions ask.
func (p *pipeGen) storeSeamCase() {
	r := p.r
	p.start()
	g := genGid(r)
	g.scope = netip.Prefix{}
	if r.Chance(1, 2) {
		g.qtype = vlib.Pick(r, []int{43, 48})
	}
	keyCD := r.Bool()
	g.cd = vlib.Pick(r, []bool{keyCD, !keyCD}) // the CD bit on the response header
	p.op("pipe sfr %s %d %s", g.tok(), p.nextID(), vlib.B(keyCD))
	for _, cd := range []bool{keyCD, !keyCD} {
		x := g
		x.cd = cd
		x.ls = flipCase(r, g.ls)
		p.getAll(x, netip.Prefix{})
	}
	if r.Bool() {
		// the other partition is stored too, the other way round
		h := g
		h.cd = !g.cd
		p.op("pipe sfr %s %d %s", h.tok(), p.nextID(), vlib.B(!keyCD))
		for _, cd := range []bool{keyCD, !keyCD} {
			x := g
			x.cd = cd
			p.getAll(x, netip.Prefix{})
		}
	}
	p.op("pipe dump")
}

// zoneFailureCase: zone reachability failures recorded by the resolver (Store.RecordZoneFailure / ClearZoneFailure)
// while resolving questions of different classes; names at and below the zone asked in each class.
func (p *pipeGen) zoneFailureCase() {
	r := p.r
	p.start()
	zone := genLabels(r)
	if r.Chance(1, 5) {
		zone = nil // the root
	}
	name := append([][]byte{genLabel(r)}, zone...)
	if len(wireOf(name)) > 255 {
		name = zone
	}
	classes := []int{1, 3, 4, 255}
	c1 := vlib.Pick(r, classes)
	c2 := c1
	for c2 == c1 {
		c2 = vlib.Pick(r, classes)
	}
	qt := vlib.Pick(r, qtypes)
	look := func() {
		for _, c := range []int{c1, c2, 1} {
			for _, ls := range [][][]byte{name, flipCase(r, name), zone} {
				g := gid{ls: ls, qtype: qt, class: c, cd: r.Chance(1, 3)}
				q := fmt.Sprintf("%s,%d,%d,%s", nameTok(g.ls), g.qtype, g.class, vlib.B(g.cd))
				p.op("pipe get %s %s %s", vlib.Pick(r, []string{"msg", "wire", "store"}), q, fmtScope(clientFor(r, netip.Prefix{})))
			}
			p.op("pipe fget %s %s,%d,%d,f,-", vlib.Pick(r, []string{"msg", "wire"}), nameTok(name), qt, c)
		}
	}
	p.op("pipe zfail %s,0,%d %s %d", nameTok(name), c1, nameTok(flipCase(r, zone)), p.nextID())
	look()
	if r.Bool() {
		// the zone answers again for a question of ANOTHER class: that clears only that class' state
		p.op("pipe zclear %s,0,%d %s 0", nameTok(name), c2, nameTok(zone))
		look()
	}
	if r.Bool() {
		p.op("pipe zfail %s,0,%d %s %d", nameTok(name), c2, nameTok(zone), p.nextID())
		p.op("pipe zclear %s,0,%d %s 0", nameTok(name), c1, nameTok(zone))
		look()
	}
	if r.Chance(1, 3) {
		p.purge(gid{ls: zone, qtype: qt, class: vlib.Pick(r, []int{c1, c2})})
	}
	p.op("pipe dump")
}

// purgeCase: shared + scoped variants, case mixes, a squatter under the purged
// key, and Unicode look-alike names in the scoped sweep.
func (p *pipeGen) purgeCase() {
	r := p.r
	p.start()
	g := genGid(r)
	g.scope = netip.Prefix{}
	p.op("pipe set own %s %d -", g.tok(), p.nextID())
	o := g
	o.cd = !g.cd
	p.op("pipe set own %s %d -", o.tok(), p.nextID())
	for k := 0; k < 1+r.Intn(3); k++ {
		s := g
		s.cd = r.Bool()
		s.ls = flipCase(r, g.ls)
		s.scope = genPrefix(r, r.Chance(1, 4))
		p.op("pipe set own %s %d -", s.tok(), p.nextID())
	}
	if r.Chance(1, 4) {
		// a geo-routed name: answers for many client subnets in both CD partitions
		for k := 0; k < 34+r.Intn(40); k++ {
			s := g
			s.cd = r.Bool()
			s.scope = genPrefix(r, r.Chance(1, 4))
			p.op("pipe set own %s %d -", s.tok(), p.nextID())
		}
	}
	// bystanders one dimension away (must survive), one of them scoped
	for k := 0; k < 2; k++ {
		m, _ := mutate(r, g, []string{"byte", "type", "class", "child", "parent"})
		if r.Bool() {
			m.scope = genPrefix(r, false)
		}
		p.op("pipe set own %s %d -", m.tok(), p.nextID())
	}
	if r.Chance(1, 2) {
		// a squatter: another question's entry under the purged question's key
		m, _ := mutate(r, g, []string{"byte", "type"})
		p.op("pipe set q=%s %s %d -", g.tok(), m.tok(), p.nextID())
	}
	p.purge(g)
	p.getAll(g, netip.Prefix{})
}

// expiry: nested cuts and failure states, some of them EXPIRED (still in the maps): an expired
// state is never an answer on any route, the decoded cut lookup removes the expired cuts it walks
// past (compared at `pipe dump`) and what every later lookup returns is unchanged by that.
func (p *pipeGen) expiryCase() {
	r := p.r
	p.start()
	base := genLabels(r)
	for len(base) < 3 {
		base = append([][]byte{genLabel(r)}, base...)
	}
	if len(wireOf(base)) > 180 {
		base = base[len(base)-3:]
		for i := range base {
			if len(base[i]) > 40 {
				base[i] = base[i][:40]
			}
		}
	}
	cl := genLabel(r)
	if len(cl) > 60 {
		cl = cl[:60]
	}
	child := append([][]byte{cl}, base...)
	class := vlib.Pick(r, []int{1, 1, 1, 3})
	nm := func(ls [][]byte) string { return fmt.Sprintf("%s,0,%d", nameTok(ls), class) }
	levels := [][][]byte{child, base, base[1:], base[2:]}
	lookups := func() {
		for _, ls := range [][][]byte{child, flipCase(r, child), base, oneByte(r, child)} {
			switch r.Intn(4) {
			case 0:
				p.op("pipe cget msg %s", nm(ls))
			case 1:
				p.op("pipe cget wire %s", nm(ls))
			default:
				g := gid{ls: ls, qtype: vlib.Pick(r, qtypes), class: class, cd: r.Chance(1, 5)}
				c := netip.Prefix{}
				if p.ecs && r.Chance(1, 5) {
					c = genPrefix(r, false)
				}
				p.op("pipe get %s %s,%d,%d,%s %s", vlib.Pick(r, []string{"msg", "wire", "store"}), nameTok(g.ls), g.qtype, g.class, vlib.B(g.cd), fmtScope(c))
			}
			p.op("pipe dump")
		}
	}
	if r.Chance(2, 3) {
		var stored [][][]byte
		for _, ls := range levels {
			if r.Chance(2, 3) {
				if r.Chance(1, 5) { // also reachable under another level's hash
					p.op("pipe cset %s %d c=%s", nm(ls), p.nextID(), nm(vlib.Pick(r, levels)))
				} else {
					p.op("pipe cset %s %d -", nm(ls), p.nextID())
				}
				stored = append(stored, ls)
			}
		}
		if r.Chance(1, 4) {
			p.op("pipe cset %s,0,%d %d -", nameTok(base), 4-class, p.nextID()) // the other class stays live
		}
		lookups()
		for _, ls := range stored {
			if r.Chance(1, 2) {
				p.op("pipe cexp %s", nm(flipCase(r, ls)))
			}
		}
		p.op("pipe cexp %s", nm(oneByte(r, base))) // nothing stored there
		p.op("pipe dump")
		// the byte route first (removes nothing), then the decoded ones, then everything again
		p.op("pipe cget wire %s", nm(child))
		p.op("pipe dump")
		lookups()
		lookups()
		if r.Chance(1, 2) { // a re-record revives the name
			p.op("pipe cset %s %d -", nm(vlib.Pick(r, levels)), p.nextID())
			lookups()
		}
		if r.Chance(1, 3) {
			p.purge(gid{ls: child, qtype: vlib.Pick(r, qtypes), class: class})
		}
		return
	}
	// failure states: question-kind in both partitions and zone-kind on the way up, some expired
	qt := vlib.Pick(r, qtypes)
	var ids []int
	for _, cd := range []bool{false, true} {
		if r.Chance(2, 3) {
			g := gid{ls: child, qtype: qt, class: class, cd: cd}
			if p.ecs && r.Chance(1, 4) {
				g.scope = genPrefix(r, false)
			}
			id := p.nextID()
			p.op("pipe fset own q %s %d", g.tok(), id)
			ids = append(ids, id)
		}
	}
	for _, ls := range levels[1:] {
		if r.Chance(1, 2) {
			id := p.nextID()
			p.op("pipe fset own z %s %d", nm(ls), id)
			ids = append(ids, id)
		}
	}
	flook := func() {
		for _, cd := range []bool{false, true} {
			g := gid{ls: vlib.Pick(r, [][][]byte{child, flipCase(r, child), base}), qtype: qt, class: class, cd: cd}
			p.op("pipe fget msg %s", g.tok())
			p.op("pipe fget store %s", g.tok())
			p.op("pipe fget wire %s", g.tok())
			p.op("pipe get %s %s,%d,%d,%s -", vlib.Pick(r, []string{"msg", "wire", "store"}), nameTok(g.ls), g.qtype, g.class, vlib.B(g.cd))
		}
		p.op("pipe dump")
	}
	flook()
	for _, id := range ids {
		if r.Chance(1, 2) {
			p.op("pipe fexp %d", id)
		}
	}
	p.op("pipe fexp %d", p.id+1000) // unknown state
	flook()
	flook()
}

// flight: the single-flight key misses wait under. Questions one dimension apart (name byte, case,
// type, class, CD, audience) ask on both routes; then failure states - exact ones in both partitions
// and for an audience, zone ones on the way up, some forged under another question's hash - expire
// and the retry key / flight key is read again for the question, its neighbours and its siblings.
func (p *pipeGen) flightCase() {
	r := p.r
	p.start()
	g := genGid(r)
	for len(g.ls) < 2 {
		g.ls = append([][]byte{genLabel(r)}, g.ls...)
	}
	if len(wireOf(g.ls)) > 180 {
		g.ls = g.ls[len(g.ls)-2:]
		for i := range g.ls {
			if len(g.ls[i]) > 40 {
				g.ls[i] = g.ls[i][:40]
			}
		}
	}
	g.scope = netip.Prefix{}
	cl := genLabel(r)
	if len(cl) > 60 {
		cl = cl[:60]
	}
	sib := gid{ls: append([][]byte{cl}, g.ls[1:]...), qtype: g.qtype, class: g.class, cd: g.cd}
	ask := func(x gid) {
		c := netip.Prefix{}
		if p.ecs && r.Chance(1, 3) {
			c = genPrefix(r, false)
		}
		route := vlib.Pick(r, []string{"msg", "msg", "wire"})
		if c.IsValid() {
			route = "msg"
		}
		p.op("pipe dkey %s %s,%d,%d,%s %s", route, nameTok(x.ls), x.qtype, x.class, vlib.B(x.cd), fmtScope(c))
	}
	around := func() {
		ask(g)
		ask(gid{ls: flipCase(r, g.ls), qtype: g.qtype, class: g.class, cd: g.cd})
		for k := 0; k < 4; k++ {
			m, _ := mutate(r, g, []string{"byte", "type", "class", "cd", "child", "parent"})
			m.scope = netip.Prefix{}
			ask(m)
		}
		ask(sib)
		if p.ecs { // two clients of one network, one of another
			a := genPrefix(r, false)
			p.op("pipe dkey msg %s,%d,%d,%s %s", nameTok(g.ls), g.qtype, g.class, vlib.B(g.cd), fmtScope(a))
			p.op("pipe dkey msg %s,%d,%d,%s %s", nameTok(g.ls), g.qtype, g.class, vlib.B(g.cd), fmtScope(clientFor(r, a)))
			p.op("pipe dkey msg %s,%d,%d,%s %s", nameTok(g.ls), g.qtype, g.class, vlib.B(g.cd), fmtScope(genPrefix(r, false)))
		}
	}
	rkeys := func() {
		for _, x := range []gid{g, sib} {
			for _, cd := range []bool{false, true} {
				y := x
				y.cd = cd
				y.scope = netip.Prefix{}
				p.op("pipe rkey %s", y.tok())
				if p.ecs && r.Chance(1, 3) {
					y.scope = genPrefix(r, false)
					p.op("pipe rkey %s", y.tok())
				}
			}
		}
	}
	around()
	var ids []int
	for _, cd := range []bool{false, true} {
		if r.Chance(2, 3) {
			x := g
			x.cd = cd
			id := p.nextID()
			switch r.Intn(4) {
			case 0: // this question's state under a neighbour's hash
				m, _ := mutate(r, x, []string{"byte", "type", "cd"})
				p.op("pipe fset fq=%s q %s %d", m.tok(), x.tok(), id)
			case 1: // a neighbour's state under this question's hash
				m, _ := mutate(r, x, []string{"byte", "type", "cd", "class"})
				p.op("pipe fset fq=%s q %s %d", x.tok(), m.tok(), id)
			default:
				p.op("pipe fset own q %s %d", x.tok(), id)
			}
			ids = append(ids, id)
		}
	}
	for i := 1; i <= len(g.ls) && i <= 3; i++ {
		if r.Chance(1, 2) {
			id := p.nextID()
			p.op("pipe fset own z %s,0,%d %d", nameTok(g.ls[i:]), g.class, id)
			ids = append(ids, id)
		}
	}
	rkeys()
	around()
	for _, id := range ids {
		if r.Chance(2, 3) {
			p.op("pipe fexp %d", id)
			rkeys()
		}
	}
	around()
	p.op("pipe dump")
}

func (p *pipeGen) unicodePurgeCase() {
	p.start()
	// stored under a scope: K (Kelvin sign) / long s / raw high octets; purge the ASCII look-alike
	pairs := [][2]string{{"\xe2\x84\xaa.example.", "k.example."}, {"\xc5\xbf.example.", "S.example."}, {"\xc9.example.", "\xe9.example."}}
	pr := vlib.Pick(p.r, pairs)
	sc := fmtScope(genPrefix(p.r, false))
	p.op("pipe set own %s,1,1,f,%s %d -", presTok(pr[0]), sc, p.nextID())
	p.op("pipe set own %s,1,1,f,- %d -", presTok(pr[0]), p.nextID())
	p.op("pipe purge %s,1,1", presTok(pr[1]))
	p.op("pipe purged %s", lastPurgeRemoved)
	p.op("pipe dump")
	p.op("pipe get msg %s,1,1,f -", presTok(pr[1]))
}

// genExhaustive is the seed-independent part: every octet value as label
// content through both key families and the wire/presentation comparator, and
// every prefix length of both address families.
func genExhaustive(emit func(string)) int {
	emit("key new")
	n := 1
	for b := 0; b < 256; b++ {
		emit(fmt.Sprintf("key of w:%s,1,1,f,-", vlib.Hex([]byte{1, byte(b), 0})))
		emit(fmt.Sprintf("key of w:%s,28,1,t,4:c0000200/24", vlib.Hex([]byte{3, 'A', byte(b), 'z', 2, 'M', byte(b), 0})))
		n += 2
	}
	for bits := 0; bits <= 32; bits++ {
		emit(fmt.Sprintf("key of w:03777777076578616d706c6500,1,1,f,4:ffffffff/%d", bits))
		emit(fmt.Sprintf("key of w:03777777076578616d706c6500,1,1,f,4:a5a5a5a5/%d", bits))
		n += 2
	}
	for bits := 0; bits <= 128; bits++ {
		emit(fmt.Sprintf("key of w:03777777076578616d706c6500,1,1,f,6:ffffffffffffffffffffffffffffffff/%d", bits))
		n++
	}
	emit("ver new")
	for b := 0; b < 256; b++ {
		w := []byte{2, byte(b), 'Q', 0}
		dec := parseName("w:" + vlib.Hex(w)).pres
		// the same name in the other ASCII case …
		other := []byte(dec)
		for i, c := range other {
			if c >= 'a' && c <= 'z' || c >= 'A' && c <= 'Z' {
				other[i] = c ^ 0x20
			}
		}
		emit(fmt.Sprintf("ver wname w:%s %s", vlib.Hex(w), presTok(string(other))))
		// … and the octet 0x20 away, which is a different name unless it is a letter
		w2 := []byte{2, byte(b) ^ 0x20, 'Q', 0}
		emit(fmt.Sprintf("ver wname w:%s %s", vlib.Hex(w2), presTok(dec)))
		emit(fmt.Sprintf("ver wfold w:%s w:%s", vlib.Hex(w), vlib.Hex(w2)))
		n += 3
	}
	for bits := 0; bits <= 32; bits++ {
		emit(fmt.Sprintf("ver norm 4:ffffffff/%d", bits))
		n++
	}
	for bits := 0; bits <= 128; bits += 1 {
		emit(fmt.Sprintf("ver norm 6:ffffffffffffffffffffffffffffffff/%d", bits))
		n++
	}
	return n
}

// genL3 emits the system-level cases: concurrent lookups through the real resolver whose forwarded
// subnets differ in exactly one respect (prefix length with the same network address, address, family,
// presence), so that anything the resolver shares between in-flight lookups shows at the clients.
func genL3(r *vlib.R, emit func(string), k int) int {
	emit("l3 new")
	for i := 0; i < k; i++ {
		a := withBits(genPrefix(r, r.Chance(1, 4)), 0)
		full := a.Addr().BitLen()
		la := vlib.Pick(r, []int{24, 24, 32, 16, 20})
		if full == 128 {
			la = vlib.Pick(r, []int{56, 48, 64, 128})
		}
		a = withBits(a, la).Masked()
		var b netip.Prefix
		switch (i + int(r.U64()%2)) % 5 {
		case 0, 1: // same network address, shorter source prefix (zero-extended)
			b = withBits(a, la-vlib.Pick(r, []int{8, 4, 1, la / 2})).Masked()
			a = netip.PrefixFrom(b.Addr(), la) // the longer prefix is the shorter one zero-extended
		case 2: // same length, another network
			b = withBits(flipBit(a, r.Intn(la)), la)
		case 3: // no subnet at all
			b = netip.Prefix{}
		default: // the same subnet: sharing one exchange is fine
			b = a
		}
		// a later client inside B's (or A's) network but outside the other
		d := a
		if b.IsValid() && b.Bits() < la {
			d = withBits(flipBit(a, b.Bits()+r.Intn(la-b.Bits())), la)
		} else if r.Bool() {
			d = withBits(a, full)
		}
		if r.Chance(1, 3) {
			d = netip.Prefix{} // a later client that discloses no subnet
		}
		// the SCOPE the authority declares, relative to the SOURCE it is sent: equal, longer (RFC 7871 §7.1.2
		// forbids it, some do it), shorter, zero
		sc := []int{0, 8, -4, 1, 0, full, -8, -full}[(i+int(r.U64()%8))%8]
		if i%3 == 1 {
			sc = []int{8, 1, full}[i/3%3]
			// an outsider asks afterwards: another network of the same length, or nobody's subnet
			d = vlib.Pick(r, []netip.Prefix{withBits(flipBit(a, r.Intn(la)), la), {}})
		}
		emit(fmt.Sprintf("l3 sf %s %s %s sc=%d", fmtScope(a), fmtScope(b), fmtScope(d), sc))
	}
	return k + 1
}

func gen(r *vlib.R, n int, tier string, emit func(string)) {
	n -= genExhaustive(emit)
	n -= genL3(r, emit, map[bool]int{true: 30, false: 12}[tier == "thorough"])
	sweep := int(r.U64() % 256)
	p := &pipeGen{r: r, emit: emit}
	for n > 0 {
		p.n = 0
		switch k := r.Intn(40); {
		case k >= 36 && k < 38:
			p.storeSeamCase()
		case k >= 38:
			p.zoneFailureCase()
		case k >= 32 && k < 34:
			p.allowListCase()
		case k >= 34:
			p.failedResolutionCase()
		case k >= 26 && k < 29:
			p.prefetchCase()
		case k >= 29:
			p.admitCase()
		case k < 3:
			n -= genKeyOps(r, emit, &sweep, tier)
		case k < 5:
			n -= genVerOps(r, emit)
		case k < 10:
			p.collisionCase()
		case k < 12:
			p.neighboursCase()
		case k < 14:
			p.chaseCase()
		case k < 16:
			p.compositeCase()
		case k < 19:
			p.failureCollisionCase()
		case k < 21:
			p.cutCollisionCase()
		case k < 22:
			p.unicodeCollisionCase()
		case k < 23:
			p.refreshCase()
		case k < 24:
			p.purgeCase()
		default:
			if r.Chance(1, 3) {
				p.unicodePurgeCase()
			} else if r.Chance(1, 2) {
				if r.Bool() {
					p.expiryCase()
				} else {
					p.flightCase()
				}
			} else {
				p.purgeCase()
			}
		}
		n -= p.n
	}
}
