//go:build verif

package main

// `l3 …` ops: adversarial topologies against the real pipeline, judged by the
// oracle only (the Lean side prints `unmodelled`).

import (
	"fmt"
	"strings"
	"time"

	"github.com/miekg/dns"
	"github.com/semihalev/sdns/internal/verif/vlib"
	"github.com/semihalev/sdns/middleware"
	"github.com/semihalev/sdns/middleware/resolver"
)

type l3Case struct {
	fam     string
	mode    string
	main    *sysPipe // enforce / shadow / off pipe
	ref     *sysPipe // firewall-off twin on an identical world (shadow cases)
	topo    *topo
	refTopo *topo
	// outcome of the last `l3 query`
	lastOver bool
	lastEDNS bool
	lastDO   bool
	queried  bool
	optTags  string
	askSeq   int
	anyOver  bool // some tree of this case ended over budget
	// legitFail: some earlier reply of this case was a SERVFAIL not known to be the budget's; a
	// failure served from the cache later may then be that one, legitimately shared
	legitFail bool
	newF     []string // the fields of the `l3 new` op (to rebuild the case for a retry)
}

var curL3 *l3Case

func (c *l3Case) close() {
	if c == nil {
		return
	}
	for _, sp := range []*sysPipe{c.main, c.ref} {
		if sp != nil {
			sp.Close()
		}
	}
	for _, t := range []*topo{c.topo, c.refTopo} {
		if t != nil {
			t.W.Close()
		}
	}
}

// l3 new <family> <n> <variant> <mode> <outcap> <intcap> <sigcap> <qmin> <maxdepth> [opts: nocache,signed,failover]
func l3New(f []string) vlib.Res {
	curL3.close()
	curL3 = nil
	fam, n, v := f[2], vlib.Atoi(f[3]), vlib.Atoi(f[4])
	o := sysOpts{Mode: f[5], OutCap: uint32(vlib.AtoU64(f[6])), IntCap: uint32(vlib.AtoU64(f[7])), SigCap: uint32(vlib.AtoU64(f[8])),
		QMin: vlib.Atoi(f[9]), MaxDepth: vlib.Atoi(f[10]), DNSSEC: fam == "manysig" || fam == "nsec3"}
	signed := o.DNSSEC
	optTags := ""
	if len(f) > 11 {
		for _, op := range strings.Split(f[11], ",") {
			switch op {
			case "nocache":
				o.NoCache = true
			case "failover":
				o.Failover = true
			case "signed":
				signed, o.DNSSEC = true, true
			default:
				if strings.HasPrefix(op, "n3=") {
					o.N3Cap = uint32(vlib.AtoU64(op[3:]))
				}
			}
			optTags += "," + op
		}
	}
	c := &l3Case{fam: fam, mode: o.Mode, optTags: optTags}
	c.topo = buildTopo(fam, n, v, signed)
	c.main = newSysPipe(c.topo, o)
	if o.Mode == "shadow" {
		c.refTopo = buildTopo(fam, n, v, signed)
		ro := o
		ro.Mode = "off"
		c.ref = newSysPipe(c.refTopo, ro)
	}
	c.newF = append([]string(nil), f...)
	curL3 = c
	return vlib.Res{Impl: fmt.Sprintf("servers=%d", c.topo.Servers), Oracle: "ok"}
}

const (
	textNetBudget    = middleware.RecursionWorkEDEText
	textDNSSECBudget = middleware.DNSSECWorkEDEText
)

func budgetEDE(m *dns.Msg) bool {
	_, text, has := edeOf(m)
	return has && (text == textNetBudget || text == textDNSSECBudget)
}

// common termination / shape clauses of the property for one reply
func judgeReply(entry string, sp *sysPipe, r qres, edns bool) string {
	switch {
	case r.Msg == nil:
		return fmt.Sprintf("FAIL sig=%s/no-reply", entry)
	case late(sp, r):
		return fmt.Sprintf("FAIL sig=%s/not-within-query-timeout/%s elapsed=%s (measured around Chain.Next inside the resolving process; second attempt)", strings.TrimSuffix(entry, "/off-twin"), lateReason(curL3), r.Elapsed.Round(time.Millisecond))
	case r.Msg.Rcode != dns.RcodeSuccess && r.Msg.Rcode != dns.RcodeServerFailure && r.Msg.Rcode != dns.RcodeNameError:
		return fmt.Sprintf("FAIL sig=%s/neither-answer-nor-servfail rcode=%d", entry, r.Msg.Rcode)
	case !edns && r.Msg.IsEdns0() != nil:
		return fmt.Sprintf("FAIL sig=%s/opt-in-reply-to-non-edns-client", entry)
	}
	return ""
}

func late(sp *sysPipe, r qres) bool {
	return r.Msg != nil && r.Elapsed > sp.P.Cfg.QueryTimeout.Duration+1500*time.Millisecond
}

// lateReason is the structural part of the "did not come back in time" signature.
func lateReason(c *l3Case) string {
	if c == nil {
		return "unknown"
	}
	if c.fam == "cname" && c.mode != "enforce" {
		return "cname-loop-unmetered"
	}
	return c.fam + "-" + c.mode
}

func judgeBudget(entry string, sp *sysPipe, r qres, edns bool) (verdict string, over bool) {
	verdict, over = judgeBudget0(entry, sp, r, edns)
	// every authority of an honest world answers every packet at once: whatever the resolver's shared
	// circuit breaker holds against one of them after a query was put there by something else than the
	// authority's behaviour (a tree's own budget or admission refusal, for one). One replay of the case
	// (l3child.go) rules out an exchange timeout of the loaded box.
	if verdict == "" && sp.T.Honest && !sp.T.DeadAddrs && r.Booked != "" {
		verdict = fmt.Sprintf("FAIL sig=%s/failure-booked-against-healthy-authority breaker={%s} over-budget=%v", entry, r.Booked, over)
	}
	return verdict, over
}

func judgeBudget0(entry string, sp *sysPipe, r qres, edns bool) (verdict string, over bool) {
	caps := sp.Cfg
	mode := sp.Policy.Mode
	if r.Snap != nil && r.TrustQs > int(r.Snap.InternalQueries) {
		// every question asked on behalf of a sub-query (nameserver address, chain of trust, alias
		// target) presupposes a sub-query the tree's ledger admitted
		return fmt.Sprintf("FAIL sig=%s/sub-query-traffic-without-internal-debit distinct-sub-questions=%d internal-debits=%d",
			entry, r.TrustQs, r.Snap.InternalQueries), false
	}
	if r.Snap != nil {
		// every datagram / TCP query seen upstream must have been debited first
		if r.packets() > int64(r.Snap.OutboundQueries) {
			return fmt.Sprintf("FAIL sig=%s/upstream-packet-without-debit packets=%d(udp=%d tcp=%d conns=%d) debits=%d",
				entry, r.packets(), r.UDP, r.TCP, r.Conns, r.Snap.OutboundQueries), false
		}
	}
	if mode == middleware.RecursionWorkEnforce {
		if r.packets() > int64(caps[0]) {
			return fmt.Sprintf("FAIL sig=%s/packets-past-transport-budget packets=%d(udp=%d tcp=%d conns=%d) budget=%d",
				entry, r.packets(), r.UDP, r.TCP, r.Conns, caps[0]), false
		}
		if r.Snap != nil {
			if r.Snap.OutboundQueries > caps[0] || r.Snap.InternalQueries > caps[1] || r.Snap.SignatureChecks > caps[4] ||
				r.Snap.DSDigests > caps[5] || r.Snap.NSEC3Hashes > caps[6] {
				return fmt.Sprintf("FAIL sig=%s/counter-past-budget out=%d int=%d sig=%d", entry, r.Snap.OutboundQueries, r.Snap.InternalQueries, r.Snap.SignatureChecks), false
			}
		}
		// chain-of-trust sub-lookups are internal queries: every distinct DS / DNSKEY question that
		// reached an upstream was one admitted sub-query
		if r.TrustQs > int(caps[1]) {
			return fmt.Sprintf("FAIL sig=%s/sub-queries-past-internal-budget distinct-sub-questions=%d budget=%d",
				entry, r.TrustQs, caps[1]), false
		}
		// a tree whose latched rejection is not the outbound one (no straggler can latch those after
		// the reply) must have answered with the policy SERVFAIL, and must not have gone to a fallback
		if r.Latched > 1 && r.Msg != nil {
			if r.Msg.Rcode != dns.RcodeServerFailure {
				return fmt.Sprintf("FAIL sig=%s/over-budget-reply-not-servfail rcode=%d latched-kind=%d fallback-packets=%d", entry, r.Msg.Rcode, r.Latched-1, r.FBPkts), true
			}
			if r.FBPkts > 0 {
				return fmt.Sprintf("FAIL sig=%s/fallback-queried-after-budget-exhausted latched-kind=%d packets=%d", entry, r.Latched-1, r.FBPkts), true
			}
		}
		over = budgetEDE(r.Msg) || (r.EnfErr && r.Msg != nil && r.Msg.Rcode == dns.RcodeServerFailure)
		if over {
			_, _, has := edeOf(r.Msg)
			switch {
			case r.Msg.Rcode != dns.RcodeServerFailure:
				return fmt.Sprintf("FAIL sig=%s/over-budget-reply-not-servfail rcode=%d", entry, r.Msg.Rcode), over
			case edns && !has:
				return fmt.Sprintf("FAIL sig=%s/over-budget-reply-without-ede", entry), over
			case len(r.Msg.Answer) != 0:
				return fmt.Sprintf("FAIL sig=%s/over-budget-reply-carries-answer", entry), over
			}
		}
	} else if budgetEDE(r.Msg) {
		return fmt.Sprintf("FAIL sig=%s/%s-mode-reply-reports-budget", entry, modeName(mode)), false
	}
	return "", over
}

func replyBrief(r qres) string {
	if r.Msg == nil {
		return "noreply"
	}
	code, _, has := edeOf(r.Msg)
	e := "-"
	if has {
		e = fmt.Sprint(code)
	}
	ops := ""
	if r.Snap != nil {
		ops = fmt.Sprintf(" sigops=%d", r.Snap.SignatureChecks)
		if r.Snap.NSEC3Hashes > 0 {
			ops += fmt.Sprintf(" n3=%d", r.Snap.NSEC3Hashes)
		}
	}
	return fmt.Sprintf("rcode=%d an=%d ad=%s ede=%s pkts=%d ms=%d%s", r.Msg.Rcode, len(r.Msg.Answer), vlib.B(r.Msg.AuthenticatedData), e, r.packets(), r.Elapsed.Milliseconds(), ops)
}

// l3 query <edns> <do> <own>
func l3Query(f []string) vlib.Res {
	c := curL3
	if c == nil {
		return vlib.Res{Impl: "no-case", Oracle: "-"}
	}
	edns, do, own := f[2] == "t", f[3] == "t", f[4] == "t"
	r := c.main.query(c.topo.QName, c.topo.QType, edns, do, "10.1.2.3:4242", own)
	tags := "nt," + c.fam + "," + c.mode + c.optTags
	if late(c.main, r) {
		// the box is shared: before latency is flagged the same query gets one more chance on a
		// freshly built identical case, with nothing else running in this process
		newF := c.newF
		l3New(newF)
		c = curL3
		time.Sleep(300 * time.Millisecond)
		r = c.main.query(c.topo.QName, c.topo.QType, edns, do, "10.1.2.3:4242", own)
		tags += ",retried"
	}
	c.queried, c.lastEDNS, c.lastDO = true, edns, do
	if v := judgeReply("l3/query", c.main, r, edns); v != "" {
		return vlib.Res{Impl: replyBrief(r), Oracle: v, Tags: tags}
	}
	v, over := judgeBudget("l3/query", c.main, r, edns)
	c.lastOver = over
	if over {
		tags += ",overbudget"
	} else if r.Msg.Rcode == dns.RcodeServerFailure {
		c.legitFail = true
	}
	if v != "" {
		return vlib.Res{Impl: replyBrief(r), Oracle: v, Tags: tags}
	}
	if v := c.judgeDenial("l3/query", r); v != "" {
		return vlib.Res{Impl: replyBrief(r), Oracle: v, Tags: tags}
	}
	// the depth caps, seen from outside: a DNAME chain spends at most maxDnameDepth target
	// lookups, a referral chain is followed through at most Maxdepth servers
	if c.fam == "dname" && r.Snap != nil && int(r.Snap.InternalQueries) > resolver.VerifC12MaxDnameDepth()+2 {
		return vlib.Res{Impl: replyBrief(r), Oracle: fmt.Sprintf("FAIL sig=l3/query/dname-chain-past-depth-cap sub-queries=%d cap=%d",
			r.Snap.InternalQueries, resolver.VerifC12MaxDnameDepth()), Tags: tags}
	}
	if c.fam == "deep" && c.topo.Answerable && r.Touched > c.main.P.Cfg.Maxdepth {
		return vlib.Res{Impl: replyBrief(r), Oracle: fmt.Sprintf("FAIL sig=l3/query/referral-chain-past-maxdepth servers=%d maxdepth=%d",
			r.Touched, c.main.P.Cfg.Maxdepth), Tags: tags}
	}
	// many signatures × colliding key tags: in enforce mode the tree's public-key operations are
	// bounded by what its RRsets may cost — the honest zones' RRsets (root DNSKEY, test DS, test
	// DNSKEY, sig.test DS: one signature, one key each; counted twice for slack) plus the per-RRset
	// ceiling for each of the two padded RRsets (sig.test DNSKEY, the answer)
	if c.topo.Collide > 0 && r.Snap != nil && c.main.Policy.Mode == middleware.RecursionWorkEnforce {
		capRRset := c.main.Cfg[3]
		if bound := 8 + 2*capRRset; r.Snap.SignatureChecks > bound {
			return vlib.Res{Impl: replyBrief(r), Oracle: fmt.Sprintf("FAIL sig=l3/query/dnssec-ops-past-rrset-budget signature-ops=%d bound=%d (per-RRset cap %d, %d bad RRSIGs x %d same-tag keys)",
				r.Snap.SignatureChecks, bound, capRRset, c.topo.Pad, c.topo.Collide), Tags: tags}
		}
	}
	if c.ref != nil {
		// shadow: only counted, the reply is what firewall-off gives on the same world
		rr := c.ref.query(c.refTopo.QName, c.refTopo.QType, edns, do, "10.1.2.3:4242", false)
		if v := judgeReply("l3/query/off-twin", c.ref, rr, edns); v != "" {
			return vlib.Res{Impl: replyBrief(r), Oracle: v, Tags: tags}
		}
		if a, b := replySig(r.Msg), replySig(rr.Msg); a != b {
			return vlib.Res{Impl: replyBrief(r), Oracle: fmt.Sprintf("FAIL sig=l3/query/shadow-reply-differs-from-off shadow={%s} off={%s}", clip(a), clip(b)), Tags: tags}
		}
	}
	return vlib.Res{Impl: replyBrief(r), Oracle: "ok", Tags: tags}
}

func clip(s string) string {
	s = strings.ReplaceAll(s, "\t", " ")
	if len(s) > 160 {
		return s[:160] + "…"
	}
	return s
}

// l3 ask <name> <edns> <how: own|plain|warm>: a client query for an arbitrary name of the world.
// warm = under a harness-owned generous ledger (history building). own / plain are judged like
// `l3 query`, plus: in a world where every name resolves and every authority is healthy, a tree
// whose own budget is intact must not be refused without a single upstream packet once other
// trees of the case ran out of budget — their policy rejections are not evidence about anybody.
func l3Ask(f []string) vlib.Res {
	c := curL3
	if c == nil {
		return vlib.Res{Impl: "no-case", Oracle: "-"}
	}
	name, edns, how := dns.Fqdn(f[2]), f[3] == "t", f[4]
	tags := "nt," + c.fam + "," + c.mode + c.optTags
	if how == "warm" {
		gen := c.main.Policy
		gen.MaxOutboundQueries, gen.MaxInternalQueries = 100000, 100000
		r := c.main.queryWith(name, dns.TypeA, edns, false, "10.8.8.8:8888", true, &gen)
		if v := judgeReply("l3/ask", c.main, r, edns); v != "" {
			return vlib.Res{Impl: replyBrief(r), Oracle: v, Tags: tags}
		}
		return vlib.Res{Impl: replyBrief(r), Oracle: "ok", Tags: tags}
	}
	c.askSeq++
	r := c.main.query(name, dns.TypeA, edns, edns && c.topo.N3, fmt.Sprintf("10.6.%d.7:4000", c.askSeq%250), how == "own")
	if v := judgeReply("l3/ask", c.main, r, edns); v != "" {
		return vlib.Res{Impl: replyBrief(r), Oracle: v, Tags: tags}
	}
	v, over := judgeBudget("l3/ask", c.main, r, edns)
	if v == "" {
		v = c.judgeDenial("l3/ask", r)
	}
	if v != "" {
		return vlib.Res{Impl: replyBrief(r), Oracle: v, Tags: tags}
	}
	if over {
		c.anyOver = true
		tags += ",overbudget"
	} else if r.Msg.Rcode == dns.RcodeServerFailure {
		// every authority of this world is healthy and every name resolves: a SERVFAIL that is not this
		// tree's own budget can only come from state other trees left behind
		// (a non-EDNS client on a server-owned ledger cannot be told why: not judged)
		if c.anyOver && c.topo.Honest && c.topo.Answerable && (edns || how == "own") {
			_, text, _ := edeOf(r.Msg)
			return vlib.Res{Impl: replyBrief(r), Oracle: fmt.Sprintf("FAIL sig=l3/ask/healthy-authority-refused-after-other-trees-ran-out-of-budget reply=%q", text), Tags: tags}
		}
		c.legitFail = true
	}
	return vlib.Res{Impl: replyBrief(r), Oracle: "ok", Tags: tags}
}

// l3 warm: the topology's query under a harness-owned ledger with generous caps (history building:
// the reply is judged for termination only). l3 advance <seconds>: virtual clock. l3 heal: repair the world.
func l3Misc(f []string) vlib.Res {
	c := curL3
	if c == nil {
		return vlib.Res{Impl: "no-case", Oracle: "-"}
	}
	pipes := []*sysPipe{c.main}
	topos := []*topo{c.topo}
	if c.ref != nil {
		pipes, topos = append(pipes, c.ref), append(topos, c.refTopo)
	}
	switch f[1] {
	case "warm":
		var out string
		for i, sp := range pipes {
			gen := sp.Policy
			gen.MaxOutboundQueries, gen.MaxInternalQueries, gen.MaxSignatureChecks, gen.MaxDSDigests = 100000, 100000, 100000, 100000
			r := sp.queryWith(topos[i].QName, topos[i].QType, true, false, "10.8.8.8:8888", true, &gen)
			if v := judgeReply("l3/warm", sp, r, true); v != "" {
				return vlib.Res{Impl: replyBrief(r), Oracle: v, Tags: "nt," + c.fam}
			}
			if i == 0 {
				out = replyBrief(r)
			}
		}
		return vlib.Res{Impl: out, Oracle: "ok", Tags: "nt," + c.fam}
	case "advance":
		d := time.Duration(vlib.Atoi(f[2])) * time.Second
		for _, sp := range pipes {
			if sp.P.Cache != nil {
				sp.P.Advance(d)
			}
		}
		return vlib.Res{Impl: "ok", Oracle: "ok"}
	case "heal":
		for _, t := range topos {
			if t.Heal != nil {
				t.Heal()
			}
		}
		return vlib.Res{Impl: "ok", Oracle: "ok"}
	}
	return vlib.Res{Impl: "bad-op"}
}

// l3 again <client#>: the identical query from another client.
func l3Again(f []string) vlib.Res {
	c := curL3
	if c == nil || !c.queried {
		return vlib.Res{Impl: "no-case", Oracle: "-"}
	}
	client := fmt.Sprintf("10.7.%d.9:5353", vlib.Atoi(f[2])%250)
	prevOver := c.lastOver
	r := c.main.query(c.topo.QName, c.topo.QType, c.lastEDNS, c.lastDO, client, false)
	tags := "nt," + c.fam + "," + c.mode
	if v := judgeReply("l3/again", c.main, r, c.lastEDNS); v != "" {
		return vlib.Res{Impl: replyBrief(r), Oracle: v, Tags: tags}
	}
	v, over := judgeBudget("l3/again", c.main, r, c.lastEDNS)
	c.lastOver = over
	if v != "" {
		return vlib.Res{Impl: replyBrief(r), Oracle: v, Tags: tags}
	}
	if prevOver && !c.legitFail && c.topo.Answerable && !c.topo.DeadAddrs && r.Msg.Rcode == dns.RcodeServerFailure && r.packets() == 0 {
		// the name resolves for a resolver that is allowed to ask (at least one healthy authority per
		// zone); the previous tree ran out of budget before it could, so whatever failure is served here
		// without a single upstream packet — per-question or zone-wide — was published by the budget
		return vlib.Res{Impl: replyBrief(r), Oracle: "FAIL sig=l3/again/budget-failure-served-to-other-client", Tags: tags + ",afterover"}
	}
	if prevOver {
		tags += ",afterover"
	}
	if !over && r.Msg.Rcode == dns.RcodeServerFailure {
		c.legitFail = true
	}
	return vlib.Res{Impl: replyBrief(r), Oracle: "ok", Tags: tags}
}
