//go:build verif

package main

// `ds …` ops: the real dnssec.VerifyDSWithWork / VerifyDSAnchoredWithWork on a DS set of D
// records (one genuine, the rest with the same key tag and a wrong digest) against K KSKs that
// share that key tag, through the resolver's own ledger-backed work budget. Digest operations
// are counted at BeginDSDigest, the callback in front of dsDigestMatches.

import (
	"context"
	"errors"
	"fmt"

	"github.com/miekg/dns"
	"github.com/semihalev/sdns/internal/verif/vlib"
	"github.com/semihalev/sdns/middleware"
	"github.com/semihalev/sdns/middleware/resolver"
	"github.com/semihalev/sdns/middleware/resolver/dnssec"
)

type dsFixture struct {
	keys       map[uint16][]*dns.DNSKEY
	set        []dns.RR
	d, k       int
	dpos, kpos int // position of the genuine DS / genuine KSK in the validator's order (-1 = absent)
}

var curDS *dsFixture

func posStr(i int) string {
	if i < 0 {
		return "-"
	}
	return fmt.Sprint(i)
}

// ds new <seed> <D> <K> <ds: present|absent> <key: present|absent>
func dsNew(f []string) vlib.Res {
	seed, D, K := byte(vlib.Atoi(f[2])), vlib.Atoi(f[3]), vlib.Atoi(f[4])
	dsPresent, keyPresent := f[5] == "present", f[6] == "present"
	good, _ := edKey(seed, 1)
	good.Flags = 257
	var cands []*dns.DNSKEY
	if keyPresent {
		cands = append(sameTagKeys(good, K-1), good)
	} else {
		cands = sameTagKeys(good, K)
	}
	if len(cands) != K {
		return vlib.Res{Impl: "fixture-unavailable", Oracle: "-"}
	}
	real := good.ToDS(dns.SHA256)
	var set []dns.RR
	if dsPresent {
		set = append(set, real)
	}
	for i := 0; len(set) < D; i++ {
		// same owner, key tag, algorithm and digest type; a digest no candidate has
		w := *real
		b := []byte(real.Digest)
		b[len(b)-1-i%8] = "0123456789abcdef"[(i/8+int(b[len(b)-1-i%8])+1)%16]
		b[0] = "0123456789abcdef"[i%16]
		b[1] = "fedcba9876543210"[(i/16)%16]
		w.Digest = string(b)
		if w.Digest == real.Digest {
			continue
		}
		dup := false
		for _, r := range set {
			if r.(*dns.DS).Digest == w.Digest {
				dup = true
			}
		}
		if !dup {
			set = append(set, &w)
		}
	}
	fx := &dsFixture{keys: map[uint16][]*dns.DNSKEY{good.KeyTag(): cands}, set: set, d: D, k: K, dpos: -1, kpos: -1}
	for i, r := range dnssec.VerifC12DSOrder(set) {
		if r == real {
			fx.dpos = i
		}
	}
	for i, k := range dnssec.VerifC12KeyOrder(cands) {
		if k == good {
			fx.kpos = i
		}
	}
	curDS = fx
	return vlib.Res{Impl: fmt.Sprintf("d=%d k=%d dpos=%s kpos=%s", D, K, posStr(fx.dpos), posStr(fx.kpos)), Oracle: "ok"}
}

type countingDSWork struct {
	inner     dnssec.DSDigestWork
	ops       int
	perDS     int
	maxPerDS  int
	dsVisited int
}

func (w *countingDSWork) CheckDNSKEYCandidate(used uint32) error {
	if used == 0 {
		w.dsVisited++
		w.perDS = 0
	}
	return w.inner.CheckDNSKEYCandidate(used)
}
func (w *countingDSWork) BeginDSDigest() (func(), error) {
	rel, err := w.inner.BeginDSDigest()
	if err == nil {
		w.ops++
		w.perDS++
		if w.perDS > w.maxPerDS {
			w.maxPerDS = w.perDS
		}
	}
	return rel, err
}

// ds verify <mode> <candCap> <dsCap> <anchored t/f> <dpos> <kpos> <D> <K>
func dsVerify(f []string) vlib.Res {
	fx := curDS
	if fx == nil {
		return vlib.Res{Impl: "no-fixture", Oracle: "-"}
	}
	if f[6] != posStr(fx.dpos) || f[7] != posStr(fx.kpos) || vlib.Atoi(f[8]) != fx.d || vlib.Atoi(f[9]) != fx.k {
		return vlib.Res{Impl: "stale-order", Oracle: "-"}
	}
	anchoredWalk := f[5] == "t"
	raw := [nKinds]uint32{1000, 1000, uint32(vlib.AtoU64(f[3])), 1000, 1000, uint32(vlib.AtoU64(f[4])), 1000, 64}
	p, ok := mustPolicy(f[2], raw)
	if !ok {
		return vlib.Res{Impl: "invalid", Oracle: "ok"}
	}
	ctx := middleware.WithResponseMeta(context.Background(), new(middleware.ResponseMeta))
	ctx, ledger := middleware.EnsureRecursionWork(ctx, p)
	cw := &countingDSWork{inner: resolver.VerifC12DNSSECWork(bareResolver(5), ctx)}
	var err error
	nAnch := 0
	if anchoredWalk {
		var anch map[uint16][]*dns.DNSKEY
		anch, _, err = dnssec.VerifyDSAnchoredWithWork(fx.keys, fx.set, cw)
		for _, l := range anch {
			nAnch += len(l)
		}
	} else {
		_, err = dnssec.VerifyDSWithWork(fx.keys, fx.set, cw)
	}
	errName := "-"
	var le *middleware.RecursionWorkLimitError
	switch {
	case err == nil:
	case errors.As(err, &le):
		errName = map[middleware.RecursionWorkKind]string{middleware.RecursionWorkDNSKEYCandidate: "cand", middleware.RecursionWorkDSDigest: "ds"}[le.Kind]
		if errName == "" {
			errName = "limit"
		}
	default:
		errName = "bogus"
	}
	caps := configuredCaps(raw)
	or := "ok"
	matchable := fx.dpos >= 0 && fx.kpos >= 0
	if p.Mode == middleware.RecursionWorkEnforce {
		// one validation object - one parent DS record - never costs more digests than
		// max_dnskey_candidates; the tree never more than max_ds_digests
		switch {
		case uint32(cw.maxPerDS) > caps[2]:
			or = fmt.Sprintf("FAIL sig=ds/verify/digests-for-one-ds-past-candidate-cap digests=%d cap=%d keys=%d anchored=%v", cw.maxPerDS, caps[2], fx.k, anchoredWalk)
		case uint32(cw.ops) > caps[2]*uint32(fx.d):
			// (the per-DS counter above restarts whenever the implementation says "first candidate of a
			// DS"; this bound does not depend on what the implementation says)
			or = fmt.Sprintf("FAIL sig=ds/verify/digests-for-one-ds-past-candidate-cap digests=%d ds-records=%d cap=%d keys=%d anchored=%v", cw.ops, fx.d, caps[2], fx.k, anchoredWalk)
		case uint32(cw.ops) > caps[5]:
			or = fmt.Sprintf("FAIL sig=ds/verify/digests-past-ds-budget digests=%d cap=%d", cw.ops, caps[5])
		}
	} else {
		if errName == "cand" || errName == "ds" || errName == "limit" {
			or = fmt.Sprintf("FAIL sig=ds/verify/%s-mode-rejected", modeName(p.Mode))
		}
		if matchable && err != nil {
			or = "FAIL sig=ds/verify/genuine-ds-not-accepted"
		}
	}
	if err == nil && !matchable {
		or = "FAIL sig=ds/verify/accepted-without-matching-key"
	}
	if ledger != nil {
		if s := ledger.Snapshot(); int(s.DSDigests) != cw.ops {
			or = fmt.Sprintf("FAIL sig=ds/verify/ledger-counter-differs-from-operations counter=%d ops=%d", s.DSDigests, cw.ops)
		}
	}
	return vlib.Res{Impl: fmt.Sprintf("err=%s ops=%d anchored=%d", errName, cw.ops, nAnch), Oracle: or, Tags: "nt"}
}
