//go:build verif

package main

import (
	"context"
	"fmt"
	"os"
	"strconv"
	"strings"

	"github.com/miekg/dns"
	"github.com/semihalev/sdns/internal/verif/vlib"
	"github.com/semihalev/sdns/middleware"
)

func explore() {
	vlib.Quiet()
	fams := families
	if len(os.Args) > 2 {
		fams = []string{os.Args[2]}
	}
	n := 5
	if len(os.Args) > 3 {
		n, _ = strconv.Atoi(os.Args[3])
	}
	for _, fam := range fams {
		for v := 0; v < familyVariants[fam]; v++ {
			for _, mode := range []string{"off", "shadow", "enforce", "enforce-small"} {
				for _, qmin := range []int{0, 5} {
					o := sysOpts{Mode: mode, QMin: qmin, DNSSEC: fam == "manysig"}
					if mode == "enforce-small" {
						o.Mode = "enforce"
						o.OutCap, o.IntCap, o.SigCap = 6, 3, 2
					}
					t := buildTopo(fam, n, v, fam == "manysig")
					sp := newSysPipe(t, o)
					r := sp.query(t.QName, t.QType, true, fam == "manysig", "", true)
					code, text, has := edeOf(r.Msg)
					snap := "-"
					if r.Snap != nil {
						snap = fmt.Sprintf("out=%d int=%d sig=%d exh(out=%v int=%v)", r.Snap.OutboundQueries, r.Snap.InternalQueries, r.Snap.SignatureChecks, r.Snap.OutboundExhausted, r.Snap.InternalExhausted)
					}
					r2 := sp.query(t.QName, t.QType, false, false, "10.9.9.9:999", false)
					fmt.Printf("%-8s v%d %-13s qmin=%d: %s  %.0fms pkts=%d(u%d t%d c%d) ede=%v:%d:%q enf=%v %s || 2nd: %s pkts=%d %.0fms\n", fam, v, mode, qmin, short(r.Msg), float64(r.Elapsed.Milliseconds()),
						r.packets(), r.UDP, r.TCP, r.Conns, has, code, text, r.EnfErr, snap, short(r2.Msg), r2.packets(), float64(r2.Elapsed.Milliseconds()))
					sp.Close()
					t.W.Close()
				}
			}
		}
	}
	_ = dns.TypeA
}

func exec(op string) vlib.Res {
	f := strings.Fields(op)
	if len(f) < 2 {
		return vlib.Res{Impl: "bad-op"}
	}
	switch f[0] + " " + f[1] {
	case "ledger new":
		return ledgerNew(f[2], csvU32(f[3]))
	case "ledger debit":
		return ledgerDebit(vlib.Atoi(f[3]), false)
	case "ledger debitbe":
		return ledgerDebit(vlib.Atoi(f[3]), true)
	case "ledger check":
		kind, used, latch := vlib.Atoi(f[2]), uint32(vlib.AtoU64(f[3])), f[4] == "t"
		ctx := curCtx
		if !latch {
			ctx = middleware.WithBestEffortRecursionWork(ctx)
		}
		err := middleware.CheckRecursionWorkLocalLimit(ctx, middleware.RecursionWorkKind(kind), used)
		or := "ok"
		if err != nil && curPolicy.Mode != middleware.RecursionWorkEnforce {
			or = "FAIL sig=ledger/check/non-enforce-mode-rejected"
		}
		if err == nil && curPolicy.Mode == middleware.RecursionWorkEnforce && used >= curCfgCaps[kind] {
			or = "FAIL sig=ledger/check/local-limit-not-enforced"
		}
		return vlib.Res{Impl: resStr(err), Oracle: or, Tags: "nt"}
	case "ledger reject":
		kind, latch := vlib.Atoi(f[2]), f[3] == "t"
		ctx := curCtx
		if !latch {
			ctx = middleware.WithBestEffortRecursionWork(ctx)
		}
		err := middleware.RejectRecursionWork(ctx, middleware.RecursionWorkKind(kind))
		or := "ok"
		if err != nil && curPolicy.Mode != middleware.RecursionWorkEnforce {
			or = "FAIL sig=ledger/reject/non-enforce-mode-rejected"
		}
		return vlib.Res{Impl: resStr(err), Oracle: or}
	case "ledger enf":
		return ledgerEnf()
	case "ledger snap":
		return ledgerSnap()
	case "ledger retain":
		if curLedger == nil {
			return vlib.Res{Impl: "no", Oracle: "ok"}
		}
		rel, ok := curLedger.Retain()
		if ok {
			releases = append(releases, rel)
			return vlib.Res{Impl: "ok", Oracle: "ok"}
		}
		return vlib.Res{Impl: "no", Oracle: "ok"}
	case "ledger release":
		if len(releases) == 0 {
			return vlib.Res{Impl: "none", Oracle: "ok"}
		}
		rel := releases[len(releases)-1]
		releases = releases[:len(releases)-1]
		rel()
		rel() // idempotent
		return vlib.Res{Impl: "ok", Oracle: "ok"}
	case "ledger finish":
		if curLedger != nil {
			middleware.VerifC12Finish(curLedger)
		}
		return vlib.Res{Impl: "ok", Oracle: "ok"}
	case "ledger storm":
		return ledgerStorm(vlib.Atoi(f[2]), vlib.Atoi(f[3]), vlib.Atoi(f[4]), vlib.Atoi(f[5]))
	case "guard new":
		curGuard = middleware.NewResolutionAttemptGuard()
		refGuard = map[string]int{}
		or := "ok"
		if n := middleware.VerifC12MaxResolutionAttempts(); n != vlib.Atoi(f[2]) {
			return vlib.Res{Impl: "stale-limit", Oracle: "-"}
		} else if n > 3 || n < 1 {
			or = fmt.Sprintf("FAIL sig=guard/new/attempt-limit-not-rfc9520 n=%d", n)
		}
		return vlib.Res{Impl: "ok", Oracle: or}
	case "guard begin":
		return guardBegin(f[2], f[3], f[4], uint16(vlib.Atoi(f[5])), uint16(vlib.Atoi(f[6])), f[7])
	case "fail classify":
		return failClassify(f[2], f[3] == "t", f[4], f[5], f[6])
	case "pipe new":
		return pipeNew(f[2], csvU32(f[3]), f[5:]...)
	case "pipe query":
		return pipeQuery(vlib.Atoi(f[2]), f[3] == "t", f[4] == "t", f[5], vlib.Atoi(f[6]), vlib.Atoi(f[7]))
	case "pipe rho":
		return pipeRho(vlib.Atoi(f[2]), vlib.Atoi(f[3]), vlib.Atoi(f[4]), f[5] == "t", f[6])
	case "pipe late":
		return pipeLate(vlib.Atoi(f[2]), vlib.Atoi(f[3]), vlib.Atoi(f[4]), vlib.Atoi(f[5]))
	case "pipe chain":
		return pipeChain(vlib.Atoi(f[2]), vlib.Atoi(f[3]), f[4] == "t", f[5] == "t", f[6])
	case "pipe alias":
		return pipeAlias(vlib.Atoi(f[2]), f[3] == "t", f[4], vlib.Atoi(f[5]), vlib.Atoi(f[6]))
	case "sub nest":
		if vlib.Atoi(f[5]) != middleware.VerifC12MaxQueryerRecursion() || uint32(vlib.AtoU64(f[4])) != defaultsFromCode()[1] {
			return vlib.Res{Impl: "stale-constants", Oracle: "-"}
		}
		return subNest(f[2], uint32(vlib.AtoU64(f[3])))
	case "ds new":
		return dsNew(f)
	case "ds verify":
		return dsVerify(f)
	case "n3 nx", "n3 nodata":
		return n3Verify(f)
	case "sigs new":
		return sigsNew(f)
	case "sigs verify":
		return sigsVerify(f)
	case "l3 new", "l3 query", "l3 again", "l3 warm", "l3 advance", "l3 heal", "l3 ask":
		return l3Op(f, op)
	case "pick fallback":
		return pickFallback(f[2], vlib.Atoi(f[3]), f[4])
	case "loop new":
		loopResolver = bareResolver(5)
		loopCtx = context.Background()
		refLoop = map[string]int{}
		return vlib.Res{Impl: "ok", Oracle: "ok"}
	case "loop check":
		return loopCheck(f[2], uint16(vlib.Atoi(f[3])))
	case "min check":
		return minCheck(vlib.Atoi(f[2]), f[3], vlib.Atoi(f[4]), f[5] == "t")
	}
	return vlib.Res{Impl: "bad-op"}
}

func main() {
	if len(os.Args) > 1 && os.Args[1] == "explore" {
		explore()
		return
	}
	if len(os.Args) > 1 && os.Args[1] == "l3serve" {
		l3Serve()
		return
	}
	defer func() { child.kill() }()
	vlib.Main(&vlib.Driver{Facts: facts, Exec: exec, Gen: gen})
}

func short(m *dns.Msg) string {
	if m == nil {
		return "noreply"
	}
	return fmt.Sprintf("rc=%d ad=%v an=%d", m.Rcode, m.AuthenticatedData, len(m.Answer))
}
