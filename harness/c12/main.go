//go:build verif

package main

import (
	"fmt"
	"os"
	"strconv"

	"github.com/miekg/dns"
	"github.com/semihalev/sdns/internal/verif/vlib"
)

func explore() {
	vlib.Quiet()
	fams := families
	if len(os.Args) > 2 {
		fams = []string{os.Args[2]}
	}
	n := 5
	if len(os.Args) > 3 {
		n, _ = strconv.Atoi(os.Args[3])
	}
	for _, fam := range fams {
		for v := 0; v < familyVariants[fam]; v++ {
			for _, mode := range []string{"off", "shadow", "enforce", "enforce-small"} {
				for _, qmin := range []int{0, 5} {
					o := sysOpts{Mode: mode, QMin: qmin, DNSSEC: fam == "manysig"}
					if mode == "enforce-small" {
						o.Mode = "enforce"
						o.OutCap, o.IntCap, o.SigCap = 6, 3, 2
					}
					t := buildTopo(fam, n, v, fam == "manysig")
					sp := newSysPipe(t, o)
					r := sp.query(t.QName, t.QType, true, fam == "manysig", "", true)
					code, text, has := edeOf(r.Msg)
					snap := "-"
					if r.Snap != nil {
						snap = fmt.Sprintf("out=%d int=%d sig=%d exh(out=%v int=%v)", r.Snap.OutboundQueries, r.Snap.InternalQueries, r.Snap.SignatureChecks, r.Snap.OutboundExhausted, r.Snap.InternalExhausted)
					}
					r2 := sp.query(t.QName, t.QType, false, false, "10.9.9.9:999", false)
					fmt.Printf("%-8s v%d %-13s qmin=%d: %s  %.0fms pkts=%d(u%d t%d c%d) ede=%v:%d:%q enf=%v %s || 2nd: %s pkts=%d %.0fms\n", fam, v, mode, qmin, short(r.Msg), float64(r.Elapsed.Milliseconds()),
						r.packets(), r.UDP, r.TCP, r.Conns, has, code, text, r.EnfErr, snap, short(r2.Msg), r2.packets(), float64(r2.Elapsed.Milliseconds()))
					sp.Close()
					t.W.Close()
				}
			}
		}
	}
	_ = dns.TypeA
}

func main() {
	if len(os.Args) > 1 && os.Args[1] == "explore" {
		explore()
		return
	}
	vlib.Main(&vlib.Driver{Facts: func() map[string]any { return map[string]any{} }, Exec: func(string) vlib.Res { return vlib.Res{Impl: "bad-op"} }, Gen: func(r *vlib.R, n int, tier string, emit func(string)) {}})
}

func short(m *dns.Msg) string {
	if m == nil {
		return "noreply"
	}
	return fmt.Sprintf("rc=%d ad=%v an=%d", m.Rcode, m.AuthenticatedData, len(m.Answer))
}
