//go:build verif

package main

// Hashed denial of existence at system level. harness/l3 zones are NSEC zones; the zone's server
// is given a Tamper hook that replaces the NSEC proof of every negative reply with the zone's whole
// NSEC3 ring (one record per owner name, signed with the zone's own key), which is exactly what an
// NSEC3-signed zone would have sent. Nothing is forged: the resolver validates these denials.

import (
	"crypto"
	"fmt"
	"sort"
	"strings"

	"github.com/miekg/dns"
	"github.com/semihalev/sdns/internal/verif/l3"
	"github.com/semihalev/sdns/middleware"
)

const (
	n3Salt  = "aabb"
	n3Iters = 0
)

type n3Ring struct {
	z     *l3.Zone
	proof []dns.RR // NSEC3 records, each followed by its RRSIG
}

func n3Sign(z *l3.Zone, rr dns.RR) *dns.RRSIG {
	k := z.Keys[0]
	h := rr.Header()
	sig := &dns.RRSIG{
		Hdr:         dns.RR_Header{Name: h.Name, Rrtype: dns.TypeRRSIG, Class: h.Class, Ttl: h.Ttl},
		TypeCovered: h.Rrtype, Algorithm: k.Key.Algorithm, Labels: uint8(dns.CountLabel(h.Name)), OrigTtl: h.Ttl,
		Expiration: uint32(z.SigExpiration.Unix()), Inception: uint32(z.SigInception.Unix()),
		KeyTag: k.Key.KeyTag(), SignerName: z.Name,
	}
	signer, ok := k.Priv.(crypto.Signer)
	if !ok {
		panic("nsec3 fixture: zone key cannot sign")
	}
	if err := sig.Sign(signer, []dns.RR{rr}); err != nil {
		panic(fmt.Sprintf("nsec3 fixture: sign %s: %v", h.Name, err))
	}
	return sig
}

func buildN3Ring(z *l3.Zone) *n3Ring {
	type ent struct {
		hash, name string
	}
	var es []ent
	for owner := range z.Records {
		es = append(es, ent{hash: dns.HashName(owner, dns.SHA1, n3Iters, n3Salt), name: owner})
	}
	sort.Slice(es, func(i, j int) bool { return es[i].hash < es[j].hash })
	ring := &n3Ring{z: z}
	for i, e := range es {
		types := []uint16{dns.TypeRRSIG}
		for t := range z.Records[e.name] {
			if t != dns.TypeRRSIG && t != dns.TypeNSEC {
				types = append(types, t)
			}
		}
		if strings.EqualFold(e.name, z.Name) {
			types = append(types, dns.TypeSOA)
		}
		sort.Slice(types, func(a, b int) bool { return types[a] < types[b] })
		uniq := types[:0]
		for j, t := range types {
			if j == 0 || t != types[j-1] {
				uniq = append(uniq, t)
			}
		}
		rec := &dns.NSEC3{
			Hdr:  dns.RR_Header{Name: strings.ToLower(e.hash) + "." + z.Name, Rrtype: dns.TypeNSEC3, Class: dns.ClassINET, Ttl: z.SOA.Minttl},
			Hash: dns.SHA1, Flags: 0, Iterations: n3Iters, SaltLength: uint8(len(n3Salt) / 2), Salt: n3Salt,
			HashLength: 20, NextDomain: es[(i+1)%len(es)].hash, TypeBitMap: uniq,
		}
		ring.proof = append(ring.proof, rec, n3Sign(z, rec))
	}
	return ring
}

// tamper turns the NSEC denial of a negative, signed reply into the NSEC3 one.
func (g *n3Ring) tamper(q dns.Question, honest *dns.Msg, tcp bool) *dns.Msg {
	negative := honest.Rcode == dns.RcodeNameError || (honest.Rcode == dns.RcodeSuccess && len(honest.Answer) == 0)
	if !negative {
		return honest
	}
	signed := false
	kept := honest.Ns[:0:0]
	for _, rr := range honest.Ns {
		switch x := rr.(type) {
		case *dns.NSEC:
			continue
		case *dns.RRSIG:
			signed = true
			if x.TypeCovered == dns.TypeNSEC {
				continue
			}
		}
		kept = append(kept, rr)
	}
	if !signed {
		return honest
	}
	for _, rr := range g.proof {
		kept = append(kept, dns.Copy(rr))
	}
	honest.Ns = kept
	return honest
}

// nsec3Topo: n3.test. is signed and denies with NSEC3. variant 0: the queried name sits n labels
// below a name that does not exist (name error, the closest-encloser walk costs one hash per
// label); variant 1: the name exists without the queried type (NODATA).
func nsec3Topo(w *l3.World, t *topo, n, variant int) {
	z := w.AddZone("n3.test.", l3.ZoneOpts{Signed: true, PublishDS: true})
	z.Add("host.n3.test. 300 IN A 192.0.2.96", "other.n3.test. 300 IN A 192.0.2.97")
	ring := buildN3Ring(z)
	z.Servers[0].SetBehaviour(l3.Behaviour{Tamper: ring.tamper})
	t.N3 = true
	t.Answerable = false
	if variant == 1 {
		t.QName, t.QType = "host.n3.test.", dns.TypeTXT
		return
	}
	if n < 0 {
		n = 0
	}
	if n > 40 {
		n = 40
	}
	name := "absent.n3.test."
	for i := 0; i < n; i++ {
		name = fmt.Sprintf("l%d.", i) + name
	}
	t.QName = name
}

// judgeDenial: a denial this resolver authenticated for a hashed zone is paid for by the request
// tree that asked — the tree's own ledger shows the hashes, and a tree whose configured allowance
// is below what any such proof costs cannot have authenticated one.
func (c *l3Case) judgeDenial(entry string, r qres) string {
	if !c.topo.N3 || r.Msg == nil || c.main.Policy.Mode == middleware.RecursionWorkOff {
		return ""
	}
	negative := r.Msg.Rcode == dns.RcodeNameError || (r.Msg.Rcode == dns.RcodeSuccess && len(r.Msg.Answer) == 0)
	if !negative || !r.Msg.AuthenticatedData || r.packets() == 0 {
		return ""
	}
	need := uint32(3) // closest encloser, next closer, wildcard
	if r.Msg.Rcode == dns.RcodeSuccess {
		need = 1
	}
	if r.Snap != nil && r.Snap.NSEC3Hashes == 0 {
		return fmt.Sprintf("FAIL sig=%s/authenticated-hashed-denial-without-nsec3-debit rcode=%d hashes-debited=0 (needs at least %d)", entry, r.Msg.Rcode, need)
	}
	if c.main.Policy.Mode == middleware.RecursionWorkEnforce && c.main.Cfg[6] < need {
		return fmt.Sprintf("FAIL sig=%s/authenticated-hashed-denial-past-nsec3-budget rcode=%d budget=%d needs>=%d", entry, r.Msg.Rcode, c.main.Cfg[6], need)
	}
	return ""
}
