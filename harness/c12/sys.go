//go:build verif

package main

// System-level runs: the real edns → cache → resolver pipeline against a
// scripted world, with packet accounting at the scripted upstreams.

import (
	"context"
	"fmt"
	"sort"
	"strings"
	"time"

	"github.com/miekg/dns"
	"github.com/semihalev/sdns/config"
	"github.com/semihalev/sdns/internal/mock"
	"github.com/semihalev/sdns/internal/verif/l3"
	"github.com/semihalev/sdns/middleware"
)

type sysOpts struct {
	Mode     string // off | shadow | enforce
	OutCap   uint32 // 0 = default
	IntCap   uint32
	SigCap   uint32 // MaxSignatureChecks; 0 = default
	QMin     int    // qname minimisation level (0 = off)
	DNSSEC   bool
	MaxDepth int
}

type sysPipe struct {
	P      *l3.Pipe
	T      *topo
	O      sysOpts
	Policy middleware.RecursionWorkPolicy
	Cfg    [nKinds]uint32 // configured budgets (what the oracle judges against)
	nextID uint16
}

const (
	sysExchangeTimeout = 150 * time.Millisecond
	sysQueryTimeout    = 1500 * time.Millisecond
)

func newSysPipe(t *topo, o sysOpts) *sysPipe {
	sp := &sysPipe{T: t, O: o}
	sp.P = l3.NewPipe(t.W, l3.PipeOpts{DNSSEC: o.DNSSEC, Tweak: func(cfg *config.Config) {
		cfg.RecursionFirewall = config.RecursionFirewallConfig{
			Mode:               config.RecursionFirewallMode(o.Mode),
			MaxOutboundQueries: o.OutCap,
			MaxInternalQueries: o.IntCap,
			MaxSignatureChecks: o.SigCap,
		}
		cfg.QnameMinLevel = o.QMin
		cfg.Timeout.Duration = sysExchangeTimeout
		cfg.QueryTimeout.Duration = sysQueryTimeout
		if o.MaxDepth > 0 {
			cfg.Maxdepth = o.MaxDepth
		}
	}})
	sp.Policy = middleware.MustRecursionWorkPolicyFromConfig(sp.P.Cfg.RecursionFirewall)
	sp.Cfg = configuredCaps([nKinds]uint32{o.OutCap, o.IntCap, 0, 0, o.SigCap, 0, 0, 0})
	return sp
}

func (sp *sysPipe) Close() {
	sp.P.Close()
}

type qres struct {
	Msg     *dns.Msg
	Elapsed time.Duration
	UDP     int64
	TCP     int64
	Conns   int64
	Snap    *middleware.RecursionWorkSnapshot // only when the harness owns the ledger
	EnfErr  bool                              // harness-owned ledger latched a rejection
	Touched int                               // scripted servers that received at least one packet
}

func (r qres) packets() int64 {
	t := r.TCP
	if r.Conns > t {
		t = r.Conns
	}
	return r.UDP + t
}

// settle waits until the scripted servers have seen no new packet for a few
// polls: stragglers (losing racers, detached probes) belong to the request
// tree that started them and are counted with it.
func settle(w *l3.World) (udp, tcp, conns int64) {
	lu, lt, lc := w.TotalQueries()
	stable := 0
	for i := 0; i < 80 && stable < 3; i++ {
		time.Sleep(8 * time.Millisecond)
		u, t, c := w.TotalQueries()
		if u == lu && t == lt && c == lc {
			stable++
		} else {
			stable = 0
			lu, lt, lc = u, t, c
		}
	}
	return lu, lt, lc
}

// query sends one client query. own=true pre-installs a harness-owned
// ResponseMeta + ledger in the request context (so the exact debit count can
// be read back); own=false is the plain path where the outer Chain creates and
// finishes the ledger itself.
func (sp *sysPipe) query(name string, qtype uint16, edns, do bool, client string, own bool) qres {
	req := new(dns.Msg)
	req.SetQuestion(dns.Fqdn(name), qtype)
	sp.nextID += 7919
	req.Id = sp.nextID
	req.RecursionDesired = true
	if edns {
		req.SetEdns0(1232, do)
	}
	if client == "" {
		client = "10.1.2.3:4242"
	}
	u0, t0, c0 := settle(sp.T.W)
	before := make([]int64, len(sp.T.W.Servers))
	for i, s := range sp.T.W.Servers {
		before[i] = s.UDPQueries.Load() + s.TCPQueries.Load()
	}
	w := mock.NewWriter("udp", client)
	ch := sp.P.P.NewChain()
	ch.Reset(w, req)
	// exactly the deadline the real entry point (server.serveMsgBy) gives a request
	ctx, cancel := context.WithTimeout(context.Background(), sp.P.Cfg.QueryTimeout.Duration)
	defer cancel()
	var ledger *middleware.RecursionWorkLedger
	if own {
		ctx = middleware.WithResponseMeta(ctx, new(middleware.ResponseMeta))
		ctx, ledger = middleware.EnsureRecursionWork(ctx, sp.Policy)
	}
	start := time.Now()
	ch.Next(ctx)
	el := time.Since(start)
	var out qres
	if w.Written() {
		out.Msg = w.Msg().Copy()
	}
	sp.P.P.PutChain(ch)
	u1, t1, c1 := settle(sp.T.W)
	out.Elapsed = el
	out.UDP, out.TCP, out.Conns = u1-u0, t1-t0, c1-c0
	for i, s := range sp.T.W.Servers {
		if i < len(before) && s.UDPQueries.Load()+s.TCPQueries.Load() > before[i] {
			out.Touched++
		}
	}
	if ledger != nil {
		s := ledger.Snapshot()
		out.Snap = &s
		out.EnfErr = ledger.EnforcementError() != nil
	}
	return out
}

// replySig is the client-visible outcome the shadow/off comparison uses:
// rcode, AD, and the answer section without signatures and TTLs.
func replySig(m *dns.Msg) string {
	if m == nil {
		return "noreply"
	}
	var rrs []dns.RR
	for _, rr := range m.Answer {
		if rr.Header().Rrtype != dns.TypeRRSIG {
			rrs = append(rrs, rr)
		}
	}
	s := l3.SortRRs(rrs)
	sort.Strings(s)
	return fmt.Sprintf("rcode=%d ad=%v ans=[%s]", m.Rcode, m.AuthenticatedData, strings.Join(s, " | "))
}

func edeOf(m *dns.Msg) (code int, text string, has bool) {
	if m == nil {
		return 0, "", false
	}
	o := m.IsEdns0()
	if o == nil {
		return 0, "", false
	}
	for _, op := range o.Option {
		if e, ok := op.(*dns.EDNS0_EDE); ok {
			return int(e.InfoCode), e.ExtraText, true
		}
	}
	return 0, "", false
}
