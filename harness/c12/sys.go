//go:build verif

package main

// System-level runs: the real edns → cache → resolver pipeline against a
// scripted world, with packet accounting at the scripted upstreams.

import (
	"context"
	"errors"
	"fmt"
	"net"
	"os"
	"path/filepath"
	"sort"
	"strings"
	"sync/atomic"
	"time"

	"github.com/miekg/dns"
	"github.com/semihalev/sdns/config"
	"github.com/semihalev/sdns/internal/contextutil"
	"github.com/semihalev/sdns/internal/mock"
	"github.com/semihalev/sdns/internal/verif/l3"
	"github.com/semihalev/sdns/middleware"
	"github.com/semihalev/sdns/middleware/cache"
	"github.com/semihalev/sdns/middleware/edns"
	"github.com/semihalev/sdns/middleware/failover"
	"github.com/semihalev/sdns/middleware/resolver"
)

type sysOpts struct {
	Mode     string // off | shadow | enforce
	OutCap   uint32 // 0 = default
	IntCap   uint32
	SigCap   uint32 // MaxSignatureChecks; 0 = default
	N3Cap    uint32 // MaxNSEC3Hashes; 0 = default
	QMin     int    // qname minimisation level (0 = off)
	DNSSEC   bool
	MaxDepth int
	NoCache  bool // pipeline without the cache middleware: the resolver has no Store
	Failover bool // failover middleware (one scripted fallback server) between cache and resolver
}

type sysPipe struct {
	P      *l3.Pipe
	T      *topo
	O      sysOpts
	Policy middleware.RecursionWorkPolicy
	Cfg    [nKinds]uint32 // configured budgets (what the oracle judges against)
	nextID uint16
}

const (
	sysExchangeTimeout = 150 * time.Millisecond
	sysQueryTimeout    = 1500 * time.Millisecond
)

// customPipe builds what l3.NewPipe builds, with the chain shapes l3 does not offer: no cache
// (the resolver runs store-less, as when it is used programmatically) and/or the failover
// middleware in front of the resolver.
func customPipe(t *topo, o sysOpts, tweak func(cfg *config.Config)) *l3.Pipe {
	w := t.W
	base := os.Getenv("VERIF_DIR")
	if base == "" {
		base = "/verif"
	}
	dir := filepath.Join(base, "build", "tmp-l3", fmt.Sprintf("p%d-c12-%d", os.Getpid(), customSeq.Add(1)))
	_ = os.MkdirAll(dir, 0o750)
	cfg := new(config.Config)
	cfg.RootServers = []string{net.JoinHostPort(w.Root.Servers[0].IP.String(), "53")}
	cfg.Maxdepth = 30
	cfg.Expire = 600
	cfg.CacheSize = 4096
	cfg.Directory = dir
	cfg.DNSSEC = "off"
	if o.DNSSEC {
		cfg.DNSSEC = "on"
		if w.Root.Signed {
			cfg.RootKeys = []string{w.Root.Keys[0].Key.String()}
		}
	}
	tweak(cfg)
	if o.Failover {
		fb := w.NewServer("fallback")
		fb.SetBehaviour(l3.Behaviour{Tamper: func(q dns.Question, honest *dns.Msg, tcp bool) *dns.Msg {
			m := new(dns.Msg)
			m.MsgHdr = honest.MsgHdr
			m.Question = honest.Question
			m.Response, m.Rcode, m.RecursionAvailable = true, dns.RcodeSuccess, true
			m.Answer = []dns.RR{&dns.A{Hdr: dns.RR_Header{Name: q.Name, Rrtype: dns.TypeA, Class: dns.ClassINET, Ttl: 60}, A: net.IPv4(192, 0, 2, 98)}}
			if op := honest.IsEdns0(); op != nil {
				m.Extra = append(m.Extra, op)
			}
			return m
		}})
		t.Fallback = fb
		cfg.FallbackServers = []string{fb.Addr}
	}
	reg := middleware.NewRegistry()
	var c *cache.Cache
	var h *resolver.DNSHandler
	reg.Register("edns", func(cfg *config.Config) middleware.Handler { return edns.New(cfg) })
	if !o.NoCache {
		reg.Register("cache", func(cfg *config.Config) middleware.Handler { c = cache.New(cfg); return c })
	}
	if o.Failover {
		reg.Register("failover", func(cfg *config.Config) middleware.Handler { return failover.New(cfg) })
	}
	reg.Register("resolver", func(cfg *config.Config) middleware.Handler { h = resolver.New(cfg); return h })
	p := reg.Build(cfg)
	middleware.VerifL3AutoWire(p)
	r := resolver.VerifResolver(h)
	amap := map[string]string{}
	for k, v := range w.AddrMap {
		amap[k] = v
	}
	resolver.VerifSetResolveTarget(r, func(addr string) string {
		if t, ok := amap[addr]; ok {
			return t
		}
		return "127.0.0.1:9"
	})
	return &l3.Pipe{W: w, Cfg: cfg, P: p, Cache: c, Handler: h, Resolver: r, Dir: dir}
}

var customSeq atomic.Uint32

func newSysPipe(t *topo, o sysOpts) *sysPipe {
	sp := &sysPipe{T: t, O: o}
	tweak := func(cfg *config.Config) {
		cfg.RecursionFirewall = config.RecursionFirewallConfig{
			Mode:               config.RecursionFirewallMode(o.Mode),
			MaxOutboundQueries: o.OutCap,
			MaxInternalQueries: o.IntCap,
			MaxSignatureChecks: o.SigCap,
			MaxNSEC3Hashes:     o.N3Cap,
		}
		cfg.QnameMinLevel = o.QMin
		cfg.Timeout.Duration = sysExchangeTimeout
		cfg.QueryTimeout.Duration = sysQueryTimeout
		if o.MaxDepth > 0 {
			cfg.Maxdepth = o.MaxDepth
		}
	}
	if o.NoCache || o.Failover {
		sp.P = customPipe(t, o, tweak)
	} else {
		sp.P = l3.NewPipe(t.W, l3.PipeOpts{DNSSEC: o.DNSSEC, Tweak: tweak})
	}
	sp.Policy = middleware.MustRecursionWorkPolicyFromConfig(sp.P.Cfg.RecursionFirewall)
	sp.Cfg = configuredCaps([nKinds]uint32{o.OutCap, o.IntCap, 0, 0, o.SigCap, 0, o.N3Cap, 0})
	return sp
}

func (sp *sysPipe) Close() {
	sp.P.Close()
}

type qres struct {
	Msg     *dns.Msg
	Elapsed time.Duration
	UDP     int64
	TCP     int64
	Conns   int64
	Snap    *middleware.RecursionWorkSnapshot // only when the harness owns the ledger
	EnfErr  bool                              // harness-owned ledger latched a rejection
	Touched int                               // scripted servers that received at least one packet
	TrustQs int                               // distinct sub-query questions (see subQuestions) that reached an upstream
	FBPkts  int64                             // packets the failover fallback server received
	Latched int                               // kind+1 of the rejection latched when Chain.Next returned (0 = none)
	Booked  string                            // servers the shared circuit breaker holds failures against after the query ("" = none)
}

func (r qres) packets() int64 {
	t := r.TCP
	if r.Conns > t {
		t = r.Conns
	}
	return r.UDP + t
}

// settle waits until the scripted servers have seen no new packet for a few
// polls: stragglers (losing racers, detached probes) belong to the request
// tree that started them and are counted with it.
func settle(w *l3.World) (udp, tcp, conns int64) {
	lu, lt, lc := w.TotalQueries()
	stable := 0
	for i := 0; i < 80 && stable < 3; i++ {
		time.Sleep(8 * time.Millisecond)
		u, t, c := w.TotalQueries()
		if u == lu && t == lt && c == lc {
			stable++
		} else {
			stable = 0
			lu, lt, lc = u, t, c
		}
	}
	return lu, lt, lc
}

// query sends one client query. own=true pre-installs a harness-owned
// ResponseMeta + ledger in the request context (so the exact debit count can
// be read back); own=false is the plain path where the outer Chain creates and
// finishes the ledger itself.
func (sp *sysPipe) query(name string, qtype uint16, edns, do bool, client string, own bool) qres {
	return sp.queryWith(name, qtype, edns, do, client, own, nil)
}

// queryWith: with a non-nil policy the harness-owned ledger is created under that policy instead of
// the pipeline's (warm-up queries that must not be cut short by the budget under test).
func (sp *sysPipe) queryWith(name string, qtype uint16, edns, do bool, client string, own bool, policy *middleware.RecursionWorkPolicy) qres {
	req := new(dns.Msg)
	req.SetQuestion(dns.Fqdn(name), qtype)
	sp.nextID += 7919
	req.Id = sp.nextID
	req.RecursionDesired = true
	if edns {
		req.SetEdns0(1232, do)
	}
	if client == "" {
		client = "10.1.2.3:4242"
	}
	u0, t0, c0 := settle(sp.T.W)
	before := make([]int64, len(sp.T.W.Servers))
	for i, s := range sp.T.W.Servers {
		before[i] = s.UDPQueries.Load() + s.TCPQueries.Load()
	}
	logFrom := make([]int, len(sp.T.W.Servers))
	for i, s := range sp.T.W.Servers {
		logFrom[i] = len(s.Log)
	}
	var fb0 int64
	if sp.T.Fallback != nil {
		fb0 = sp.T.Fallback.UDPQueries.Load() + sp.T.Fallback.TCPQueries.Load()
	}
	w := mock.NewWriter("udp", client)
	ch := sp.P.P.NewChain()
	ch.Reset(w, req)
	// exactly the deadline the real entry point (server.serveMsgBy) gives a request
	var ctx context.Context
	var cancel context.CancelFunc
	if own {
		ctx, cancel = context.WithTimeout(context.Background(), sp.P.Cfg.QueryTimeout.Duration)
	} else {
		// what the server hands the chain: a lazy deadline carrier; the outer Chain then owns the ledger
		// through the request-lifetime pin (the production ownership path)
		lz := contextutil.WithLazyTimeout(context.Background(), sp.P.Cfg.QueryTimeout.Duration)
		ctx, cancel = lz, lz.Cancel
	}
	defer cancel()
	var ledger *middleware.RecursionWorkLedger
	if own {
		ctx = middleware.WithResponseMeta(ctx, new(middleware.ResponseMeta))
		pol := sp.Policy
		if policy != nil {
			pol = *policy
		}
		ctx, ledger = middleware.EnsureRecursionWork(ctx, pol)
	}
	start := time.Now()
	ch.Next(ctx)
	el := time.Since(start)
	var out qres
	if ledger != nil {
		var le *middleware.RecursionWorkLimitError
		if errors.As(ledger.EnforcementError(), &le) {
			out.Latched = int(le.Kind) + 1
		}
	}
	if w.Written() {
		out.Msg = w.Msg().Copy()
	}
	sp.P.P.PutChain(ch)
	u1, t1, c1 := settle(sp.T.W)
	out.Elapsed = el
	out.UDP, out.TCP, out.Conns = u1-u0, t1-t0, c1-c0
	for i, s := range sp.T.W.Servers {
		if i < len(before) && s != sp.T.Fallback && s.UDPQueries.Load()+s.TCPQueries.Load() > before[i] {
			out.Touched++
		}
	}
	out.TrustQs = len(subQuestions(sp.T.W, name, logFrom)) // asked during this query
	if sp.T.Fallback != nil {
		out.FBPkts = sp.T.Fallback.UDPQueries.Load() + sp.T.Fallback.TCPQueries.Load() - fb0
	}
	if sp.P.Resolver != nil {
		var bs []string
		for addr, n := range resolver.VerifC12BreakerFailures(sp.P.Resolver) {
			if _, scripted := sp.T.W.AddrMap[addr]; !scripted {
				continue // not an authority of this world (an address a fallback answer made up, say)
			}
			bs = append(bs, fmt.Sprintf("%s:%d", addr, n))
		}
		sort.Strings(bs)
		out.Booked = strings.Join(bs, ",")
	}
	if ledger != nil {
		s := ledger.Snapshot()
		out.Snap = &s
		out.EnfErr = ledger.EnforcementError() != nil
	}
	return out
}

// subQuestions: the distinct questions the scripted servers have been asked so far that cannot be
// part of the client question's own walk: DS / DNSKEY questions, and questions for a name that is
// neither the client's name nor one of its ancestors (minimised probes are ancestors). Every one of
// them was asked on behalf of an internal sub-query (nameserver address, chain of trust, alias
// target). Names that are proper ancestors of another such question of the same type are dropped:
// they may be that sub-query's own minimised probes.
func subQuestions(w *l3.World, client string, from []int) map[string]bool {
	client = strings.ToLower(dns.Fqdn(client))
	type q struct{ name, typ string }
	var all []q
	seen := map[string]bool{}
	for i, s := range w.Servers {
		start := 0
		if i < len(from) {
			start = from[i]
		}
		if start > len(s.Log) {
			start = len(s.Log)
		}
		for _, ln := range s.Log[start:] {
			f := strings.Fields(ln)
			if len(f) != 3 || seen[f[1]+"/"+f[2]] {
				continue
			}
			seen[f[1]+"/"+f[2]] = true
			trust := f[2] == "43" || f[2] == "48"
			if !trust && dns.IsSubDomain(f[1], client) {
				continue // the client's name or an ancestor of it
			}
			all = append(all, q{f[1], f[2]})
		}
	}
	out := map[string]bool{}
	for _, a := range all {
		leaf := true
		if a.typ != "43" && a.typ != "48" {
			for _, b := range all {
				if b.typ == a.typ && b.name != a.name && dns.IsSubDomain(a.name, b.name) {
					leaf = false
				}
			}
		}
		if leaf {
			out[a.name+"/"+a.typ] = true
		}
	}
	return out
}

// replySig is the client-visible outcome the shadow/off comparison uses:
// rcode, AD, and the answer section without signatures and TTLs.
func replySig(m *dns.Msg) string {
	if m == nil {
		return "noreply"
	}
	var rrs []dns.RR
	for _, rr := range m.Answer {
		if rr.Header().Rrtype != dns.TypeRRSIG {
			rrs = append(rrs, rr)
		}
	}
	s := l3.SortRRs(rrs)
	sort.Strings(s)
	return fmt.Sprintf("rcode=%d ad=%v ans=[%s]", m.Rcode, m.AuthenticatedData, strings.Join(s, " | "))
}

func edeOf(m *dns.Msg) (code int, text string, has bool) {
	if m == nil {
		return 0, "", false
	}
	o := m.IsEdns0()
	if o == nil {
		return 0, "", false
	}
	for _, op := range o.Option {
		if e, ok := op.(*dns.EDNS0_EDE); ok {
			return int(e.InfoCode), e.ExtraText, true
		}
	}
	return 0, "", false
}
