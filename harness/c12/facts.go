//go:build verif

package main

// Gen facts: constants read from the compiled code, and go/ast shape facts
// read from the source tree the binary was built from ($VERIF_REPO).

import (
	"bytes"
	"go/ast"
	"go/parser"
	"go/printer"
	"go/token"
	"os"
	"path/filepath"
	"sort"
	"strings"

	"github.com/miekg/dns"
	"github.com/semihalev/sdns/config"
	"github.com/semihalev/sdns/middleware"
	"github.com/semihalev/sdns/middleware/cache"
	"github.com/semihalev/sdns/middleware/resolver"
	"github.com/semihalev/sdns/middleware/resolver/dnssec"
)

func repoDir() string {
	if d := os.Getenv("VERIF_REPO"); d != "" {
		return d
	}
	return "/repo"
}

type srcFile struct {
	fset *token.FileSet
	file *ast.File
}

func parseFile(rel string) *srcFile {
	fset := token.NewFileSet()
	f, err := parser.ParseFile(fset, filepath.Join(repoDir(), rel), nil, 0)
	if err != nil {
		return nil
	}
	return &srcFile{fset, f}
}

func (s *srcFile) text(n ast.Node) string {
	var b bytes.Buffer
	_ = printer.Fprint(&b, s.fset, n)
	return strings.Join(strings.Fields(b.String()), " ")
}

func recvName(fd *ast.FuncDecl) string {
	if fd.Recv == nil || len(fd.Recv.List) == 0 {
		return ""
	}
	t := fd.Recv.List[0].Type
	if st, ok := t.(*ast.StarExpr); ok {
		t = st.X
	}
	if id, ok := t.(*ast.Ident); ok {
		return id.Name
	}
	return ""
}

func (s *srcFile) fn(recv, name string) *ast.FuncDecl {
	if s == nil {
		return nil
	}
	for _, d := range s.file.Decls {
		if fd, ok := d.(*ast.FuncDecl); ok && fd.Name.Name == name && recvName(fd) == recv && fd.Body != nil {
			return fd
		}
	}
	return nil
}

// callName: last selector / identifier of the called function.
func callName(c *ast.CallExpr) string {
	switch f := c.Fun.(type) {
	case *ast.SelectorExpr:
		return f.Sel.Name
	case *ast.Ident:
		return f.Name
	}
	return ""
}

func callsNamed(n ast.Node, names ...string) []*ast.CallExpr {
	var out []*ast.CallExpr
	ast.Inspect(n, func(x ast.Node) bool {
		if c, ok := x.(*ast.CallExpr); ok {
			cn := callName(c)
			for _, nm := range names {
				if cn == nm {
					out = append(out, c)
				}
			}
		}
		return true
	})
	return out
}

func minPos(cs []*ast.CallExpr) token.Pos {
	var m token.Pos
	for _, c := range cs {
		if m == 0 || c.Pos() < m {
			m = c.Pos()
		}
	}
	return m
}

func maxPos(cs []*ast.CallExpr) token.Pos {
	var m token.Pos
	for _, c := range cs {
		if c.Pos() > m {
			m = c.Pos()
		}
	}
	return m
}

// errReturnBetween: is there an `if … != nil { …return… }` that starts after
// `from` and before `to`?
func errReturnBetween(body ast.Node, from, to token.Pos) bool {
	found := false
	ast.Inspect(body, func(x ast.Node) bool {
		is, ok := x.(*ast.IfStmt)
		if !ok || is.Pos() <= from || is.Pos() >= to {
			return true
		}
		be, ok := is.Cond.(*ast.BinaryExpr)
		if !ok || be.Op != token.NEQ {
			return true
		}
		if id, ok := be.Y.(*ast.Ident); !ok || id.Name != "nil" {
			return true
		}
		for _, st := range is.Body.List {
			if _, ok := st.(*ast.ReturnStmt); ok {
				found = true
			}
		}
		return true
	})
	return found
}

// topIndex: index of the top-level statement of body that contains pos.
func topIndex(body *ast.BlockStmt, pos token.Pos) int {
	for i, st := range body.List {
		if st.Pos() <= pos && pos < st.End() {
			return i
		}
	}
	return -1
}

// enclosingConds: the conditions of every if statement around pos.
func (s *srcFile) enclosingConds(body ast.Node, pos token.Pos) []string {
	var out []string
	ast.Inspect(body, func(x ast.Node) bool {
		if is, ok := x.(*ast.IfStmt); ok {
			inBody := is.Body.Pos() <= pos && pos < is.Body.End()
			inElse := is.Else != nil && is.Else.Pos() <= pos && pos < is.Else.End()
			if inBody || inElse {
				out = append(out, s.text(is.Cond))
			}
		}
		if _, ok := x.(*ast.ForStmt); ok && x.Pos() <= pos && pos < x.End() {
			out = append(out, "for-loop")
		}
		if _, ok := x.(*ast.RangeStmt); ok && x.Pos() <= pos && pos < x.End() {
			out = append(out, "for-loop")
		}
		if sw, ok := x.(*ast.CaseClause); ok && sw.Pos() <= pos && pos < sw.End() {
			out = append(out, "case-clause")
		}
		return true
	})
	return out
}

var netCallNames = []string{"dialUDP", "DialContext", "DialUDP", "DialTCP", "Dial", "DialTimeout", "ExchangeInterruptible"}

func shapeFacts() map[string]any {
	out := map[string]any{}
	res := parseFile("middleware/resolver/resolver.go")
	guardOK, debitOK := false, false
	conds := []string{"<exchange-not-found>"}
	if ex := res.fn("Resolver", "exchange"); ex != nil {
		nets := callsNamed(ex.Body, append(netCallNames, "Get")...)
		var netOnly []*ast.CallExpr
		for _, c := range nets {
			// `r.tcpPool.Get` hands out a live connection; `dialerPool.Get` is a sync.Pool
			if callName(c) == "Get" && !strings.Contains(res.text(c.Fun), "tcpPool") {
				continue
			}
			netOnly = append(netOnly, c)
		}
		netPos := minPos(netOnly)
		guards := callsNamed(ex.Body, "BeginResolutionAttempt", "BeginResolutionAttemptCanonical")
		if len(guards) > 0 && netPos != 0 && maxPos(guards) < netPos &&
			topIndex(ex.Body, maxPos(guards)) >= 0 && topIndex(ex.Body, maxPos(guards)) < topIndex(ex.Body, netPos) &&
			errReturnBetween(ex.Body, maxPos(guards), netPos) {
			guardOK = true
			for _, g := range guards {
				for _, c := range res.enclosingConds(ex.Body, g.Pos()) {
					if c == "for-loop" || c == "case-clause" {
						guardOK = false
					}
				}
			}
		}
		var debits []*ast.CallExpr
		for _, c := range callsNamed(ex.Body, "Debit", "DebitBestEffort", "DebitRecursionWork") {
			if strings.Contains(res.text(c), "RecursionWorkOutboundQuery") {
				debits = append(debits, c)
			}
		}
		if len(debits) > 0 && netPos != 0 && maxPos(debits) < netPos &&
			topIndex(ex.Body, maxPos(debits)) < topIndex(ex.Body, netPos) &&
			errReturnBetween(ex.Body, maxPos(debits), netPos) {
			debitOK = true
		}
		set := map[string]bool{}
		for _, d := range debits {
			for _, c := range res.enclosingConds(ex.Body, d.Pos()) {
				set[c] = true
			}
		}
		conds = conds[:0]
		for c := range set {
			conds = append(conds, c)
		}
		sort.Strings(conds)
	}
	out["shape_exchange_guard_dominates_dial"] = guardOK
	out["shape_exchange_debit_dominates_dial"] = debitOK
	out["exchange_debit_conditions"] = conds

	// which functions of package resolver touch the network at all
	netFuncs := map[string]bool{}
	dialUDPCallers := map[string]bool{}
	files, _ := filepath.Glob(filepath.Join(repoDir(), "middleware/resolver/*.go"))
	for _, p := range files {
		if strings.HasSuffix(p, "_test.go") {
			continue
		}
		rel, _ := filepath.Rel(repoDir(), p)
		sf := parseFile(rel)
		if sf == nil {
			continue
		}
		for _, d := range sf.file.Decls {
			fd, ok := d.(*ast.FuncDecl)
			if !ok || fd.Body == nil {
				continue
			}
			if len(callsNamed(fd.Body, netCallNames...)) > 0 {
				netFuncs[fd.Name.Name] = true
			}
			if len(callsNamed(fd.Body, "dialUDP")) > 0 {
				dialUDPCallers[fd.Name.Name] = true
			}
		}
	}
	var nf []string
	for f := range netFuncs {
		nf = append(nf, f)
	}
	sort.Strings(nf)
	out["net_call_funcs"] = nf
	out["shape_dialudp_only_from_exchange"] = len(dialUDPCallers) == 1 && dialUDPCallers["exchange"]

	depthOK, qDebitOK := false, false
	qf := parseFile("middleware/queryer.go")
	if q := qf.fn("pipelineQueryer", "Query"); q != nil {
		next := callsNamed(q.Body, "Next")
		debits := callsNamed(q.Body, "DebitRecursionWork")
		var depthIf token.Pos
		ast.Inspect(q.Body, func(x ast.Node) bool {
			if is, ok := x.(*ast.IfStmt); ok && depthIf == 0 && strings.Contains(qf.text(is.Cond), "maxQueryerRecursion") &&
				strings.Contains(qf.text(is.Cond), ">=") {
				for _, st := range is.Body.List {
					if _, ok := st.(*ast.ReturnStmt); ok {
						depthIf = is.Pos()
					}
				}
			}
			return true
		})
		if len(next) > 0 && depthIf != 0 && depthIf < minPos(next) && topIndex(q.Body, depthIf) < topIndex(q.Body, minPos(next)) {
			depthOK = true
		}
		if len(next) > 0 && len(debits) > 0 && maxPos(debits) < minPos(next) &&
			strings.Contains(qf.text(debits[0]), "RecursionWorkInternalQuery") &&
			topIndex(q.Body, maxPos(debits)) < topIndex(q.Body, minPos(next)) &&
			len(qf.enclosingConds(q.Body, debits[0].Pos())) == 0 {
			// `if err := Debit…; err != nil { return }`: the call sits in the Init of its own if statement
			ast.Inspect(q.Body, func(x ast.Node) bool {
				if is, ok := x.(*ast.IfStmt); ok && is.Init != nil && is.Init.Pos() <= debits[0].Pos() && debits[0].Pos() < is.Init.End() {
					for _, st := range is.Body.List {
						if _, ok := st.(*ast.ReturnStmt); ok {
							qDebitOK = true
						}
					}
				}
				return true
			})
		}
	}
	out["shape_queryer_depth_check_before_dispatch"] = depthOK
	out["shape_queryer_debit_before_dispatch"] = qDebitOK

	subOK := false
	if sq := res.fn("Resolver", "subQuery"); sq != nil {
		debits := callsNamed(sq.Body, "DebitRecursionWork")
		resolves := callsNamed(sq.Body, "resolve", "Resolve", "lookup", "groupLookup", "exchange")
		if len(debits) > 0 && len(resolves) > 0 && maxPos(debits) < minPos(resolves) &&
			topIndex(sq.Body, maxPos(debits)) < topIndex(sq.Body, minPos(resolves)) {
			ast.Inspect(sq.Body, func(x ast.Node) bool {
				if is, ok := x.(*ast.IfStmt); ok && is.Init != nil && is.Init.Pos() <= debits[0].Pos() && debits[0].Pos() < is.Init.End() {
					for _, st := range is.Body.List {
						if _, ok := st.(*ast.ReturnStmt); ok {
							subOK = true
						}
					}
				}
				return true
			})
		}
	}
	out["shape_subquery_debit_before_resolve"] = subOK

	// ---- the guards the termination argument (FStep / TStep) rests on
	hasReturn := func(b *ast.BlockStmt) bool {
		for _, st := range b.List {
			if _, ok := st.(*ast.ReturnStmt); ok {
				return true
			}
		}
		return false
	}
	// checkDname: `if depth >= maxDnameDepth { return }` and the depth+1 re-tag precede the internal exchange
	dnameOK := false
	if fd := res.fn("Resolver", "checkDname"); fd != nil {
		ex := callsNamed(fd.Body, "internalExchange")
		var guard, retag token.Pos
		ast.Inspect(fd.Body, func(x ast.Node) bool {
			if is, ok := x.(*ast.IfStmt); ok && guard == 0 && res.text(is.Cond) == "depth >= maxDnameDepth" && hasReturn(is.Body) {
				guard = is.Pos()
			}
			if c, ok := x.(*ast.CallExpr); ok && callName(c) == "WithValue" && strings.Contains(res.text(c), "contextKeyDnameDepth, depth+1") {
				retag = c.Pos()
			}
			return true
		})
		dnameOK = len(ex) > 0 && guard != 0 && retag != 0 && guard < minPos(ex) && retag < minPos(ex) &&
			topIndex(fd.Body, guard) < topIndex(fd.Body, minPos(ex))
	}
	out["shape_dname_depth_guard"] = dnameOK

	// every descent spends depth and stops at zero before it re-enters resolve
	depthGuard := func(name string) bool {
		fd := res.fn("Resolver", name)
		if fd == nil {
			return false
		}
		var dec, chk token.Pos
		ast.Inspect(fd.Body, func(x ast.Node) bool {
			switch st := x.(type) {
			case *ast.IncDecStmt:
				if st.Tok == token.DEC && res.text(st.X) == "rs.depth" && st.Pos() > dec {
					dec = st.Pos()
				}
			case *ast.IfStmt:
				if res.text(st.Cond) == "rs.depth <= 0" && hasReturn(st.Body) {
					chk = st.Pos()
				}
			}
			return true
		})
		rec := callsNamed(fd.Body, "resolve")
		if dec == 0 || chk == 0 || len(rec) == 0 {
			return false
		}
		last := maxPos(rec)
		// the final re-entry is a top-level statement after the decrement and the check
		return dec < chk && chk < last && topIndex(fd.Body, chk) < topIndex(fd.Body, last) &&
			len(res.enclosingConds(fd.Body, last)) == 0 && len(res.enclosingConds(fd.Body, chk)) == 0
	}
	out["shape_delegation_spends_depth"] = depthGuard("processDelegation")
	out["shape_cached_descent_spends_depth"] = depthGuard("resolveWithCachedNameservers")

	// `rs.level++` (outside the cached descent) only under a condition that mentions `minimized`;
	// `rs.nomin = true` only under `minimized`
	levelOK, nominOK := true, false
	nLevel := 0
	for _, name := range []string{"resolve", "processAuthoritySection", "processDelegation", "handleLookupError"} {
		fd := res.fn("Resolver", name)
		if fd == nil {
			levelOK = false
			continue
		}
		ast.Inspect(fd.Body, func(x ast.Node) bool {
			switch st := x.(type) {
			case *ast.IncDecStmt:
				if st.Tok == token.INC && res.text(st.X) == "rs.level" {
					nLevel++
					ok := false
					for _, c := range res.enclosingConds(fd.Body, st.Pos()) {
						if strings.Contains(c, "minimized") {
							ok = true
						}
					}
					if !ok {
						levelOK = false
					}
				}
			case *ast.AssignStmt:
				if len(st.Lhs) == 1 && res.text(st.Lhs[0]) == "rs.nomin" {
					for _, c := range res.enclosingConds(fd.Body, st.Pos()) {
						if c == "minimized" {
							nominOK = true
						}
					}
				}
			}
			return true
		})
	}
	out["shape_level_up_only_when_minimized"] = levelOK && nLevel > 0
	out["shape_nomin_retry_only_when_minimized"] = nominOK

	// NS-address lookups consult checkLoop first
	loopOK := false
	if fd := res.fn("Resolver", "lookupV4Nss"); fd != nil {
		cl := callsNamed(fd.Body, "checkLoop")
		lk := callsNamed(fd.Body, "lookupNSAddrV4")
		loopOK = len(cl) > 0 && len(lk) > 0 && minPos(cl) < minPos(lk)
	}
	out["shape_checkloop_before_ns_lookup"] = loopOK

	// the cache's alias chase re-checks the request deadline on every hop: inside the `lookup:` loop,
	// before the internal exchange, `if contextutil.EffectiveError(ctx) != nil { return … }`
	chaseOK := false
	cf := parseFile("middleware/cache/cache.go")
	if fd := cf.fn("Cache", "additionalAnswer"); fd != nil {
		var label, check, jump token.Pos
		ast.Inspect(fd.Body, func(x ast.Node) bool {
			switch st := x.(type) {
			case *ast.LabeledStmt:
				if st.Label.Name == "lookup" {
					label = st.Pos()
				}
			case *ast.BranchStmt:
				if st.Tok == token.GOTO && st.Label != nil && st.Label.Name == "lookup" {
					jump = st.Pos()
				}
			case *ast.IfStmt:
				if check == 0 && strings.Contains(cf.text(st.Cond), "EffectiveError(ctx) != nil") && hasReturn(st.Body) {
					check = st.Pos()
				}
			}
			return true
		})
		ex := callsNamed(fd.Body, "internalExchange")
		chaseOK = label != 0 && check != 0 && jump != 0 && len(ex) > 0 && label < check && check < minPos(ex) && minPos(ex) < jump
	}
	out["shape_chase_checks_deadline"] = chaseOK
	// the chase state of one level — the hop budget `cnameDepth := 10` and the visited `targets` — is
	// initialised BEFORE the `lookup:` loop, so it accumulates over the hops
	stateOK := false
	if fd := cf.fn("Cache", "additionalAnswer"); fd != nil {
		var label, depthDecl, targetsDecl token.Pos
		hopCap := ""
		ast.Inspect(fd.Body, func(x ast.Node) bool {
			switch st := x.(type) {
			case *ast.LabeledStmt:
				if st.Label.Name == "lookup" {
					label = st.Pos()
				}
			case *ast.AssignStmt:
				if st.Tok == token.DEFINE && len(st.Lhs) == 1 && len(st.Rhs) == 1 {
					switch cf.text(st.Lhs[0]) {
					case "cnameDepth":
						depthDecl, hopCap = st.Pos(), cf.text(st.Rhs[0])
					case "targets":
						targetsDecl = st.Pos()
					}
				}
			}
			return true
		})
		stateOK = label != 0 && depthDecl != 0 && targetsDecl != 0 && depthDecl < label && targetsDecl < label && hopCap == "10"
	}
	out["shape_chase_state_outside_loop"] = stateOK

	// every resolveState literal (the restart states included) carries the request tree's ledger
	lits, withWork := 0, 0
	if res != nil {
		ast.Inspect(res.file, func(x ast.Node) bool {
			cl, ok := x.(*ast.CompositeLit)
			if !ok {
				return true
			}
			if id, ok := cl.Type.(*ast.Ident); !ok || id.Name != "resolveState" {
				return true
			}
			lits++
			for _, e := range cl.Elts {
				if kv, ok := e.(*ast.KeyValueExpr); ok {
					if k, ok := kv.Key.(*ast.Ident); ok && k.Name == "work" {
						withWork++
					}
				}
			}
			return true
		})
	}
	out["shape_resolvestate_literals_carry_work"] = lits > 0 && lits == withWork

	// the cache decides "may this failure be shared" on the ledger as it is at that moment:
	// cacheableResolutionFailure(ctx, res) takes no precomputed verdict and asks the ledger itself
	decideOK := false
	if fd := cf.fn("", "cacheableResolutionFailure"); fd != nil {
		nparams := 0
		for _, f := range fd.Type.Params.List {
			n := len(f.Names)
			if n == 0 {
				n = 1
			}
			nparams += n
		}
		decideOK = nparams == 2 && len(callsNamed(fd.Body, "RecursionWorkEnforcementError")) > 0
	}
	out["shape_cacheable_reads_ledger_at_decision"] = decideOK

	// Resolve and subQuery replace ANY outcome of resolve() by the latched enforcement error: the
	// re-check after `r.resolve(` is conditional on "a ledger exists" only, not on resolve's own error
	relabel := func(name, ledgerExpr string) bool {
		fd := res.fn("Resolver", name)
		if fd == nil {
			return false
		}
		rec := callsNamed(fd.Body, "resolve")
		if len(rec) == 0 {
			return false
		}
		after := maxPos(rec)
		ok := false
		for _, c := range callsNamed(fd.Body, "EnforcementError") {
			if c.Pos() < after {
				continue
			}
			conds := res.enclosingConds(fd.Body, c.Pos())
			// the call sits in the Init of `if workErr := …; workErr != nil`, itself inside `if <ledger> != nil`
			if len(conds) == 1 && conds[0] == ledgerExpr+" != nil" {
				ok = true
			} else {
				return false
			}
		}
		return ok
	}
	out["shape_resolve_relabels_unconditionally"] = relabel("Resolve", "work") && relabel("subQuery", "child.work")

	// the nameserver-address refresh runs on the request's own context (ledger, attempt guard, deadline)
	refreshOK := false
	if fd := res.fn("Resolver", "checkHosts"); fd != nil {
		for _, c := range callsNamed(fd.Body, "WithContext") {
			if len(c.Args) == 1 {
				if id, ok := c.Args[0].(*ast.Ident); ok && id.Name == "ctx" {
					refreshOK = true
				}
			}
		}
		if len(callsNamed(fd.Body, "Background", "WithoutCancel", "TODO")) > 0 {
			refreshOK = false
		}
	}
	out["shape_checkhosts_uses_request_context"] = refreshOK

	// the hashed-denial verifiers the resolver is required to run (name error, NODATA, insecure
	// delegation, wildcard expansion) are handed the request tree's own work adapter: the distinct
	// source texts of their work argument, and how many such calls there are
	var workArgs []string
	nCalls := 0
	seenArg := map[string]bool{}
	ast.Inspect(res.file, func(n ast.Node) bool {
		c, ok := n.(*ast.CallExpr)
		if !ok {
			return true
		}
		switch callName(c) {
		case "VerifyNameErrorForZoneWithWork", "VerifyNODATAForZoneWithWork", "VerifyDelegationForZoneWithWork", "VerifyWildcardAnswerForZoneWithWork",
			"VerifyNameErrorWithWork", "VerifyNODATAWithWork", "VerifyDelegationWithWork", "VerifyWildcardAnswerWithWork":
			nCalls++
			if len(c.Args) > 0 {
				a := res.text(c.Args[len(c.Args)-1])
				if !seenArg[a] {
					seenArg[a] = true
					workArgs = append(workArgs, a)
				}
			}
		}
		return true
	})
	sort.Strings(workArgs)
	out["nsec3_verifier_work_args"] = workArgs
	out["nsec3_verifier_calls"] = nCalls
	return out
}

func facts() map[string]any {
	out := shapeFacts()
	d := defaultsFromCode()
	caps := make([]int, nKinds)
	for i, v := range d {
		caps[i] = int(v)
	}
	out["default_caps"] = caps
	var c config.RecursionFirewallConfig
	c.Normalize()
	out["default_mode"] = string(c.Mode)
	cfg := &config.Config{RootServers: []string{"192.0.2.1:53"}}
	_ = resolver.New(cfg)
	out["default_maxdepth"] = cfg.Maxdepth
	out["max_resolution_attempts"] = middleware.VerifC12MaxResolutionAttempts()
	out["max_queryer_recursion"] = middleware.VerifC12MaxQueryerRecursion()
	out["max_dname_depth"] = resolver.VerifC12MaxDnameDepth()
	out["max_cname_chase_depth"] = cache.VerifC12MaxCnameChaseDepth()
	out["max_nsec3_memo_entries"] = dnssec.VerifC12MaxNSEC3HashMemoEntries()
	out["max_nsec3_iterations"] = dnssec.VerifC12MaxNSEC3Iterations()
	out["ede_code_network"] = int((&middleware.RecursionWorkLimitError{Kind: middleware.RecursionWorkOutboundQuery}).EDECode())
	out["ede_code_dnssec"] = int((&middleware.RecursionWorkLimitError{Kind: middleware.RecursionWorkSignature}).EDECode())
	agg := make([]bool, nKinds)
	sec := make([]bool, nKinds)
	for k := 0; k < nKinds; k++ {
		func() {
			defer func() { _ = recover() }()
			l := middleware.NewRecursionWorkLedger(middleware.RecursionWorkPolicy{Mode: middleware.RecursionWorkShadow})
			_ = l.Debit(middleware.RecursionWorkKind(k))
			agg[k] = true
		}()
		sec[k] = (&middleware.RecursionWorkLimitError{Kind: middleware.RecursionWorkKind(k)}).EDECode() == dns.ExtendedErrorCodeDNSSECIndeterminate
	}
	out["detached_copy_keeps_policy"] = middleware.VerifC12DetachedKeepsPolicy(middleware.RecursionWorkPolicy{Mode: middleware.RecursionWorkEnforce, MaxOutboundQueries: 3, MaxInternalQueries: 2}) &&
		middleware.VerifC12DetachedKeepsPolicy(middleware.RecursionWorkPolicy{Mode: middleware.RecursionWorkShadow, MaxOutboundQueries: 7})
	out["kind_aggregate"] = agg
	out["kind_dnssec"] = sec
	return out
}
