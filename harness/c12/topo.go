//go:build verif

package main

// Adversarial topology families for the system-level part of C12. Every
// builder is a pure function of (family, size, variant, signed): building it
// twice gives two structurally identical worlds (keys differ), which is what
// the shadow-vs-off comparison needs.

import (
	"fmt"
	"strings"
	"sync"

	"github.com/miekg/dns"
	"github.com/semihalev/sdns/internal/verif/l3"
)

type topo struct {
	W     *l3.World
	QName string
	QType uint16
	// Honest: every server answers every query RFC-conformantly and is
	// reachable, so no genuine authority failure can be cached; a cached
	// failure served to a second client can then only stem from the budget.
	Honest bool
	// Answerable: an ideal resolver with unlimited budget finds an answer.
	Answerable bool
	Servers    int
	// Heal, when set, repairs the world (the `l3 heal` op): what was unreachable becomes reachable
	Heal func()
	// DeadAddrs: some advertised nameserver addresses are unreachable, so connection failures of
	// whole (partial) server lists are genuine, shareable evidence in this world
	DeadAddrs bool
	// Collide: same-tag DNSKEY candidates per signature in the padded zone (manysig variant 2)
	Collide int
	// Fallback: the failover middleware's fallback server, when the pipe has one
	Fallback *l3.Server
	// N3: the queried zone denies existence with NSEC3 (see n3.go)
	N3 bool
	// Pad: bad RRSIGs in front of every genuine one in the padded zone
	Pad int
}

var families = []string{"cname", "dname", "nscycle", "deep", "lame", "hugens", "manysig", "updown", "refresh", "breaker", "nsec3"}

// variants per family (see buildTopo)
var familyVariants = map[string]int{"cname": 2, "dname": 2, "nscycle": 2, "deep": 2, "lame": 6, "hugens": 3, "manysig": 3, "updown": 2, "refresh": 2, "breaker": 2, "nsec3": 2}

func buildTopo(family string, n, variant int, signed bool) *topo {
	w := l3.NewWorld(signed)
	zo := func() l3.ZoneOpts { return l3.ZoneOpts{Signed: signed, PublishDS: signed} }
	w.AddZone("test.", zo())
	t := &topo{W: w, QType: dns.TypeA, Honest: true}
	switch family {
	case "cname":
		// a0.c0 -> a1.c1 -> ... -> a(n-1) -> a0 (variant 0: loop) | A record (variant 1: chain)
		nz := n
		if nz > 4 {
			nz = 4
		}
		if nz < 1 {
			nz = 1
		}
		zs := make([]*l3.Zone, nz)
		for i := range zs {
			zs[i] = w.AddZone(fmt.Sprintf("c%d.test.", i), zo())
		}
		name := func(i int) string { return fmt.Sprintf("a%d.c%d.test.", i, i%nz) }
		for i := 0; i < n; i++ {
			if i == n-1 && variant == 1 {
				zs[i%nz].Add(name(i) + " 300 IN A 192.0.2.77")
				continue
			}
			zs[i%nz].Add(fmt.Sprintf("%s 300 IN CNAME %s", name(i), name((i+1)%n)))
		}
		t.QName = name(0)
		t.Answerable = variant == 1
	case "dname":
		// x.d0 DNAME x.d1, x.d1 DNAME x.d2 ... ping-pong of length n (variant 0) or ending in data (variant 1)
		if n < 2 {
			n = 2
		}
		zs := make([]*l3.Zone, n)
		for i := range zs {
			zs[i] = w.AddZone(fmt.Sprintf("d%d.test.", i), zo())
		}
		for i := 0; i < n; i++ {
			if i == n-1 && variant == 1 {
				zs[i].Add(fmt.Sprintf("www.x.d%d.test. 300 IN A 192.0.2.78", i))
				continue
			}
			zs[i].Add(fmt.Sprintf("x.d%d.test. 300 IN DNAME x.d%d.test.", i, (i+1)%n))
		}
		t.QName = "www.x.d0.test."
		t.Answerable = variant == 1
	case "nscycle":
		// zone n_i is served by ns.n_(i+1) (no glue) ... the last one by ns.n_0 (variant 0: cycle)
		// or by an in-zone glued host (variant 1: resolvable dependency chain).
		if n < 2 {
			n = 2
		}
		zs := make([]*l3.Zone, n)
		for i := 0; i < n; i++ {
			o := zo()
			if i == n-1 && variant == 1 {
				// in-zone NS with glue
			} else {
				o.NSHosts = []string{fmt.Sprintf("ns.n%d.test.", (i+1)%n)}
				o.NoGlue = true
			}
			zs[i] = w.AddZone(fmt.Sprintf("n%d.test.", i), o)
		}
		for i := 0; i < n; i++ {
			// the host serving zone i lives in zone i+1 and has zone i's server address
			if i == n-1 && variant == 1 {
				continue
			}
			zs[(i+1)%n].Add(fmt.Sprintf("ns.n%d.test. 300 IN A %s", (i+1)%n, zs[i].Servers[0].IP))
		}
		zs[0].Add("www.n0.test. 300 IN A 192.0.2.79")
		t.QName = "www.n0.test."
		t.Answerable = variant == 1
	case "deep":
		// variant 0: n real zones, each delegating one label further, each on its own server.
		// variant 1: one server that refers every question one label deeper for ever.
		if variant == 0 {
			cur := "test."
			var last *l3.Zone
			for i := 1; i <= n; i++ {
				cur = fmt.Sprintf("z%d.%s", i, cur)
				last = w.AddZone(cur, zo())
			}
			last.Add("www." + cur + " 300 IN A 192.0.2.80")
			t.QName = "www." + cur
			t.Answerable = true
		} else {
			z := w.AddZone("inf.test.", l3.ZoneOpts{})
			srv := z.Servers[0]
			var mu sync.Mutex
			next := map[string]int{}
			srv.SetBehaviour(l3.Behaviour{Tamper: func(q dns.Question, honest *dns.Msg, tcp bool) *dns.Msg {
				labels := dns.SplitDomainName(strings.ToLower(q.Name))
				if len(labels) <= 2 {
					return honest
				}
				mu.Lock()
				full := strings.ToLower(q.Name)
				d := next[full]
				if d < 3 {
					d = 3
				}
				if d > len(labels) {
					d = len(labels)
				}
				next[full] = d + 1
				mu.Unlock()
				cut := dns.Fqdn(strings.Join(labels[len(labels)-d:], "."))
				m := new(dns.Msg)
				m.SetReply(&dns.Msg{MsgHdr: honest.MsgHdr, Question: honest.Question})
				m.Id = honest.Id
				m.Response = true
				host := "ns." + cut
				m.Ns = []dns.RR{&dns.NS{Hdr: dns.RR_Header{Name: cut, Rrtype: dns.TypeNS, Class: dns.ClassINET, Ttl: 300}, Ns: host}}
				m.Extra = []dns.RR{&dns.A{Hdr: dns.RR_Header{Name: host, Rrtype: dns.TypeA, Class: dns.ClassINET, Ttl: 300}, A: srv.IP}}
				if o := honest.IsEdns0(); o != nil {
					m.Extra = append(m.Extra, o)
				}
				return m
			}})
			var sb strings.Builder
			for i := n; i >= 1; i-- {
				fmt.Fprintf(&sb, "l%d.", i)
			}
			t.QName = sb.String() + "inf.test."
			t.Honest = false
		}
	case "lame":
		if variant == 5 {
			// half-lame delegation: n servers answer SERVFAIL with empty sections, one more is healthy;
			// every nameserver name has its own address. An ideal resolver gets the answer from the
			// healthy one; a budget that runs out after a lame one was asked has learnt nothing about the zone.
			if n < 1 {
				n = 1
			}
			if n > 5 {
				n = 5
			}
			hosts := make([]string, n+1)
			for i := range hosts {
				hosts[i] = fmt.Sprintf("ns%d.half.test.", i+1)
			}
			z := w.AddZone("half.test.", l3.ZoneOpts{NSHosts: hosts})
			z.Add("www.half.test. 300 IN A 192.0.2.85", "other.half.test. 300 IN A 192.0.2.86")
			d := w.Delegation("half.test.")
			for i := 1; i <= n; i++ {
				srv := w.NewServer(fmt.Sprintf("half-lame-%d", i))
				srv.Attach(z)
				srv.SetBehaviour(l3.Behaviour{Rcode: func(q dns.Question) int { return dns.RcodeServerFailure }})
				host := hosts[i]
				for _, g := range d.Glue {
					if a, ok := g.(*dns.A); ok && strings.EqualFold(a.Hdr.Name, host) {
						a.A = srv.IP
					}
				}
				z.Remove(host, dns.TypeA)
				z.Add(fmt.Sprintf("%s 300 IN A %s", host, srv.IP))
			}
			t.QName = "www.half.test."
			t.Answerable = true
			t.Honest = false
			break
		}
		z := w.AddZone("lame.test.", l3.ZoneOpts{NSHosts: nsHosts("lame.test.", n)})
		z.Add("www.lame.test. 300 IN A 192.0.2.81")
		t.QName = "www.lame.test."
		t.Honest = false
		srv := z.Servers[0]
		switch variant {
		case 0: // self-referral: "ask lame.test's servers" for ever
			srv.SetBehaviour(l3.Behaviour{Tamper: func(q dns.Question, honest *dns.Msg, tcp bool) *dns.Msg {
				return referral(honest, "lame.test.", nsHosts("lame.test.", n), srv)
			}})
		case 1: // upward referral
			srv.SetBehaviour(l3.Behaviour{Tamper: func(q dns.Question, honest *dns.Msg, tcp bool) *dns.Msg {
				return referral(honest, "test.", []string{"ns1.test."}, srv)
			}})
		case 2:
			srv.SetBehaviour(l3.Behaviour{Rcode: func(q dns.Question) int { return dns.RcodeRefused }})
		case 3: // truncate on UDP, reset on TCP: every attempt walks the TCP fallback
			srv.SetBehaviour(l3.Behaviour{TruncateUDP: true, ResetTCP: true})
		case 4: // truncate on UDP, honest on TCP: answer arrives through the fallback
			srv.SetBehaviour(l3.Behaviour{TruncateUDP: true})
			t.Answerable = true
		}
	case "hugens":
		// n nameserver names, all out of zone and glueless
		far := w.AddZone("far.test.", zo())
		hosts := make([]string, n)
		for i := range hosts {
			hosts[i] = fmt.Sprintf("ns%d.far.test.", i)
		}
		o := zo()
		o.NSHosts = hosts
		o.NoGlue = true
		big := w.AddZone("big.test.", o)
		big.Add("www.big.test. 300 IN A 192.0.2.82")
		for i, h := range hosts {
			switch variant {
			case 0: // every name resolves to the real server
				far.Add(fmt.Sprintf("%s 300 IN A %s", h, big.Servers[0].IP))
			case 1: // no name exists except the last one
				if i == n-1 {
					far.Add(fmt.Sprintf("%s 300 IN A %s", h, big.Servers[0].IP))
				}
			case 2: // every name resolves to a distinct dead address, the last to the real one
				if i == n-1 {
					far.Add(fmt.Sprintf("%s 300 IN A %s", h, big.Servers[0].IP))
				} else {
					far.Add(fmt.Sprintf("%s 300 IN A 198.18.%d.%d", h, i/250, 1+i%250))
				}
			}
		}
		t.QName = "www.big.test."
		t.Answerable = true
		t.Honest = variant != 2
		t.DeadAddrs = variant == 2
	case "manysig":
		// signed zone whose answers carry n extra RRSIGs that do not verify
		// (variant 0: in front of the good one; variant 1: with n extra DNSKEYs sharing the signer)
		s := w.AddZone("sig.test.", l3.ZoneOpts{Signed: true, PublishDS: true})
		s.Add("www.sig.test. 300 IN A 192.0.2.83")
		if variant == 1 {
			for i := 0; i < n; i++ {
				s.AddRR(l3.NewKey("sig.test.", 256, dns.ECDSAP256SHA256).Key)
			}
		}
		if variant == 2 {
			// many signatures × colliding key tags: three more DNSKEYs share the signing key's tag,
			// so every one of the n bad RRSIGs has four candidates
			for _, k := range sameTagKeys(s.Keys[0].Key, 3) {
				s.AddRR(k)
			}
			t.Collide = 4
		}
		srv := s.Servers[0]
		srv.SetBehaviour(l3.Behaviour{Tamper: func(q dns.Question, honest *dns.Msg, tcp bool) *dns.Msg {
			honest.Answer = padSigs(honest.Answer, n)
			honest.Ns = padSigs(honest.Ns, n)
			return honest
		}})
		t.QName = "www.sig.test."
		t.Answerable = true
		t.Honest = false
		t.Pad = n
	case "nsec3":
		nsec3Topo(w, t, n, variant)
	case "breaker":
		// Other clients' budgets and a healthy authority: every name under w.test. is an alias of
		// t.v.test. (answered bare: the zones live on different servers), v.test. is served by one
		// (variant 1: two) healthy server(s). A tree with a transport budget of one spends it on
		// w.test.'s server and is refused the attempt at v.test.'s. Nothing is ever wrong with v.test.
		w1 := w.AddZone("w.test.", zo())
		w1.Add("plain.w.test. 300 IN A 192.0.2.88", "*.w.test. 300 IN CNAME t.v.test.")
		vo := zo()
		if variant == 1 {
			vo.NSHosts = []string{"ns1.v.test.", "ns2.v.test."}
		}
		vz := w.AddZone("v.test.", vo)
		vz.Add("t.v.test. 300 IN A 192.0.2.89", "*.v.test. 300 IN A 192.0.2.90")
		if variant == 1 {
			srv2 := w.NewServer("v.test.-2")
			srv2.Attach(vz)
			d := w.Delegation("v.test.")
			for _, g := range d.Glue {
				if a, ok := g.(*dns.A); ok && strings.EqualFold(a.Hdr.Name, "ns2.v.test.") {
					a.A = srv2.IP
				}
			}
			vz.Remove("ns2.v.test.", dns.TypeA)
			vz.Add(fmt.Sprintf("ns2.v.test. 300 IN A %s", srv2.IP))
		}
		t.QName = "first.v.test."
		t.Answerable = true
	case "refresh":
		// A delegation that goes bad and is repaired: ref.test. is served by n glueless out-of-zone
		// nameserver names (ns<i>.far.test.) whose addresses are all dead, so every lookup at the cached
		// delegation ends in network errors; after the fifth such failure the resolver re-resolves every
		// nameserver name (Resolver.checkHosts). Heal() points the names (variant 0: all of them,
		// variant 1: only the last one) at the zone's real server.
		if n < 2 {
			n = 2
		}
		if n > 12 {
			n = 12
		}
		far := w.AddZone("far.test.", zo())
		hosts := make([]string, n)
		for i := range hosts {
			hosts[i] = fmt.Sprintf("r%d.far.test.", i) // (ns1.far.test. is far.test.'s own nameserver)
			far.Add(fmt.Sprintf("%s 300 IN A 198.18.7.%d", hosts[i], 1+i))
		}
		o := zo()
		o.NSHosts = hosts
		o.NoGlue = true
		o.NSTTL = 86400
		ref := w.AddZone("ref.test.", o)
		ref.Add("www.ref.test. 300 IN A 192.0.2.87")
		realIP := ref.Servers[0].IP
		t.Heal = func() {
			for i, h := range hosts {
				if variant == 1 && i != n-1 {
					continue
				}
				far.Remove(h, dns.TypeA)
				far.Add(fmt.Sprintf("%s 300 IN A %s", h, realIP))
			}
		}
		t.QName = "www.ref.test."
		t.Answerable = true
		t.Honest = false
		t.DeadAddrs = true
	case "updown":
		// An authority that plays with qname minimisation: minimised probes below up.test. are answered
		// "no zone cut here" (NODATA + SOA) until the probe is `deepAt` labels long, then the resolver is
		// referred back UP to a.up.test. (shallower than the minimisation level it has reached: the
		// parent-detection restart without minimisation); the full question is then fed a chain of n
		// one-label-deeper referrals, every zone on its own address, before it is answered.
		// variant 0: NODATA up to 4 labels; variant 1: up to 5 labels (needs minimisation level > 5).
		if n < 2 {
			n = 2
		}
		if n > 10 {
			n = 10
		}
		z := w.AddZone("up.test.", l3.ZoneOpts{})
		letters := []string{"a", "b", "c", "d", "e", "f", "g", "h", "i", "j", "k", "l"}
		total := 2 + n + 1 // up.test. + n zones + the leaf label
		lbl := make([]string, 0, total)
		for i := n; i >= 0; i-- {
			lbl = append(lbl, letters[i])
		}
		lbl = append(lbl, "up", "test")
		qname := dns.Fqdn(strings.Join(lbl, "."))
		zoneOf := func(k int) string { return dns.Fqdn(strings.Join(lbl[len(lbl)-k:], ".")) }
		srvs := map[int]*l3.Server{2: z.Servers[0]}
		for k := 3; k < total; k++ {
			srvs[k] = w.NewServer(zoneOf(k))
		}
		deepAt := 4 + variant
		soa := &dns.SOA{Hdr: dns.RR_Header{Name: "up.test.", Rrtype: dns.TypeSOA, Class: dns.ClassINET, Ttl: 60}, Ns: "ns1.up.test.",
			Mbox: "hostmaster.up.test.", Serial: 1, Refresh: 3600, Retry: 600, Expire: 86400, Minttl: 60}
		for k, srv := range srvs {
			k, srv := k, srv
			srv.SetBehaviour(l3.Behaviour{Tamper: func(q dns.Question, honest *dns.Msg, tcp bool) *dns.Msg {
				name := strings.ToLower(q.Name)
				if !dns.IsSubDomain("up.test.", name) || name == "up.test." {
					return honest
				}
				if name != qname {
					// a minimised probe
					if dns.CountLabel(name) <= deepAt {
						m := referral(honest, "up.test.", nil, srv)
						m.Authoritative = true
						m.Ns = []dns.RR{soa}
						return m
					}
					return referral(honest, zoneOf(3), []string{"ns." + zoneOf(3)}, srvs[3])
				}
				if k+1 < total {
					return referral(honest, zoneOf(k+1), []string{"ns." + zoneOf(k+1)}, srvs[k+1])
				}
				m := referral(honest, "up.test.", nil, srv)
				m.Authoritative = true
				m.Answer = []dns.RR{&dns.A{Hdr: dns.RR_Header{Name: q.Name, Rrtype: dns.TypeA, Class: dns.ClassINET, Ttl: 60}, A: []byte{192, 0, 2, 84}}}
				return m
			}})
		}
		t.QName = qname
		t.Answerable = true
		t.Honest = false
	default:
		panic("unknown family " + family)
	}
	t.Servers = len(w.Servers)
	return t
}

func nsHosts(zone string, n int) []string {
	if n < 1 {
		n = 1
	}
	if n > 6 {
		n = 6
	}
	out := make([]string, n)
	for i := range out {
		out[i] = fmt.Sprintf("ns%d.%s", i+1, zone)
	}
	return out
}

func referral(honest *dns.Msg, cut string, hosts []string, srv *l3.Server) *dns.Msg {
	m := new(dns.Msg)
	m.MsgHdr = honest.MsgHdr
	m.Question = honest.Question
	m.Response = true
	m.Authoritative = false
	m.Rcode = dns.RcodeSuccess
	for _, h := range hosts {
		m.Ns = append(m.Ns, &dns.NS{Hdr: dns.RR_Header{Name: cut, Rrtype: dns.TypeNS, Class: dns.ClassINET, Ttl: 300}, Ns: h})
		m.Extra = append(m.Extra, &dns.A{Hdr: dns.RR_Header{Name: h, Rrtype: dns.TypeA, Class: dns.ClassINET, Ttl: 300}, A: srv.IP})
	}
	if o := honest.IsEdns0(); o != nil {
		m.Extra = append(m.Extra, o)
	}
	return m
}

// padSigs puts n corrupted copies of every RRSIG in front of the genuine one.
func padSigs(rrs []dns.RR, n int) []dns.RR {
	var out []dns.RR
	for _, rr := range rrs {
		if sig, ok := rr.(*dns.RRSIG); ok {
			for i := 0; i < n; i++ {
				c := dns.Copy(sig).(*dns.RRSIG)
				b := []byte(c.Signature)
				if len(b) > 4 {
					// base64 text: swap in a different but valid character
					pos := 2 + i%(len(b)-4)
					if b[pos] == 'A' {
						b[pos] = 'B'
					} else {
						b[pos] = 'A'
					}
				}
				c.Signature = string(b)
				out = append(out, c)
			}
		}
		out = append(out, rr)
	}
	return out
}
