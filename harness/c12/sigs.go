//go:build verif

package main

// `sigs …` ops: the real dnssec.VerifyRRSIGWithWork on one RRset that carries S
// RRSIGs and K DNSKEYs sharing the signatures' key tag, driven through the
// resolver's own ledger-backed work budget (Resolver.dnssecWork). Public-key
// operations are counted at BeginSignature, the callback that immediately
// precedes cryptoVerify (one call = one public-key operation).

import (
	"context"
	"crypto/ed25519"
	"crypto/sha256"
	"encoding/base64"
	"errors"
	"fmt"
	"time"

	"github.com/miekg/dns"
	"github.com/semihalev/sdns/internal/verif/vlib"
	"github.com/semihalev/sdns/middleware"
	"github.com/semihalev/sdns/middleware/resolver"
	"github.com/semihalev/sdns/middleware/resolver/dnssec"
)

const sigZone = "collide.test."

type sigFixture struct {
	keys  map[uint16][]*dns.DNSKEY
	msg   *dns.Msg
	s, k  int
	gpos  int // index of the valid signature in the validator's order, -1 = none valid
	kpos  int // index of the right key in the validator's candidate order, -1 = absent
	descr string
}

var curSigs *sigFixture

func edKey(seed byte, n int) (*dns.DNSKEY, ed25519.PrivateKey) {
	h := sha256.Sum256([]byte{seed, byte(n), byte(n >> 8), 'c', '1', '2'})
	priv := ed25519.NewKeyFromSeed(h[:])
	pub := priv.Public().(ed25519.PublicKey)
	return &dns.DNSKEY{Hdr: dns.RR_Header{Name: sigZone, Rrtype: dns.TypeDNSKEY, Class: dns.ClassINET, Ttl: 3600},
		Flags: 256, Protocol: 3, Algorithm: dns.ED25519, PublicKey: base64.StdEncoding.EncodeToString(pub)}, priv
}

// sameTagKeys: count distinct DNSKEYs with the key tag (and algorithm, owner,
// flags) of good: add d to one octet and subtract d from another octet of the
// same parity, which leaves the RFC 4034 Appendix B checksum unchanged.
func sameTagKeys(good *dns.DNSKEY, count int) []*dns.DNSKEY {
	pub, _ := base64.StdEncoding.DecodeString(good.PublicKey)
	var out []*dns.DNSKEY
	for inc := 0; inc < len(pub) && len(out) < count; inc++ {
		for dec := inc%2 + 0; dec < len(pub) && len(out) < count; dec += 2 {
			if dec == inc {
				continue
			}
			for d := 1; d <= 3 && len(out) < count; d++ {
				if int(pub[inc])+d > 0xff || int(pub[dec])-d < 0 {
					continue
				}
				c := append([]byte(nil), pub...)
				c[inc] += byte(d)
				c[dec] -= byte(d)
				w := *good
				w.PublicKey = base64.StdEncoding.EncodeToString(c)
				if w.KeyTag() == good.KeyTag() {
					out = append(out, &w)
				}
			}
		}
	}
	return out
}

func signA(key *dns.DNSKEY, priv ed25519.PrivateKey, last byte) *dns.RRSIG {
	set := []dns.RR{&dns.A{Hdr: dns.RR_Header{Name: "www." + sigZone, Rrtype: dns.TypeA, Class: dns.ClassINET, Ttl: 300}, A: []byte{192, 0, 2, last}}}
	// validity window anchored to the day, so a replay on the same day signs the same bytes
	day := time.Unix(time.Now().Unix()/86400*86400, 0)
	sig := &dns.RRSIG{Hdr: dns.RR_Header{Name: "www." + sigZone, Rrtype: dns.TypeRRSIG, Class: dns.ClassINET, Ttl: 300},
		TypeCovered: dns.TypeA, Algorithm: key.Algorithm, Labels: 3, OrigTtl: 300,
		Expiration: uint32(day.Add(30 * 24 * time.Hour).Unix()), Inception: uint32(day.Add(-24 * time.Hour).Unix()),
		KeyTag: key.KeyTag(), SignerName: sigZone}
	if err := sig.Sign(priv, set); err != nil {
		panic(err)
	}
	return sig
}

// sigs new <seed> <S> <K> <sigpos: first|last|mid|absent> <key: present|absent>
func sigsNew(f []string) vlib.Res {
	seed, S, K := byte(vlib.Atoi(f[2])), vlib.Atoi(f[3]), vlib.Atoi(f[4])
	sigpos, keyPresent := f[5], f[6] == "present"
	good, priv := edKey(seed, 0)
	// the validator's order of S-1 (or S) failing signatures around the valid one
	goodSig := signA(good, priv, 1)
	var bad []*dns.RRSIG
	for i := 0; i < 250; i++ {
		bad = append(bad, signA(good, priv, byte(2+i))) // correct key, other RDATA: fails for every candidate
	}
	order := dnssec.VerifC12SigOrder(append(append([]*dns.RRSIG(nil), bad...), goodSig))
	g := -1
	for i, s := range order {
		if s == goodSig {
			g = i
		}
	}
	var chosen []*dns.RRSIG
	fx := &sigFixture{s: S, k: K, gpos: -1, kpos: -1}
	switch sigpos {
	case "absent":
		for _, s := range order {
			if s != goodSig && len(chosen) < S {
				chosen = append(chosen, s)
			}
		}
	case "first":
		if g+S > len(order) {
			return vlib.Res{Impl: "fixture-unavailable", Oracle: "-"}
		}
		chosen = order[g : g+S]
		fx.gpos = 0
	case "last":
		if g-S+1 < 0 {
			return vlib.Res{Impl: "fixture-unavailable", Oracle: "-"}
		}
		chosen = order[g-S+1 : g+1]
		fx.gpos = S - 1
	default: // mid
		lo := g - (S-1)/2
		if lo < 0 || lo+S > len(order) {
			return vlib.Res{Impl: "fixture-unavailable", Oracle: "-"}
		}
		chosen = order[lo : lo+S]
		fx.gpos = g - lo
	}
	var cands []*dns.DNSKEY
	if keyPresent {
		cands = append(sameTagKeys(good, K-1), good)
	} else {
		cands = sameTagKeys(good, K)
	}
	if len(cands) != K {
		return vlib.Res{Impl: "fixture-unavailable", Oracle: "-"}
	}
	for i, k := range dnssec.VerifC12KeyOrder(cands) {
		if k == good {
			fx.kpos = i
		}
	}
	if !keyPresent || fx.gpos < 0 {
		// without the right key (or without a valid signature) nothing verifies
		if !keyPresent {
			fx.kpos = -1
		}
	}
	fx.keys = map[uint16][]*dns.DNSKEY{good.KeyTag(): cands}
	msg := new(dns.Msg)
	msg.SetQuestion("www."+sigZone, dns.TypeA)
	msg.Answer = append(msg.Answer, &dns.A{Hdr: dns.RR_Header{Name: "www." + sigZone, Rrtype: dns.TypeA, Class: dns.ClassINET, Ttl: 300}, A: []byte{192, 0, 2, 1}})
	// hand the signatures over in reverse: the order that counts is the validator's own
	for i := len(chosen) - 1; i >= 0; i-- {
		msg.Answer = append(msg.Answer, chosen[i])
	}
	fx.msg = msg
	curSigs = fx
	pos := func(i int) string {
		if i < 0 {
			return "-"
		}
		return fmt.Sprint(i)
	}
	return vlib.Res{Impl: fmt.Sprintf("s=%d k=%d gpos=%s kpos=%s", S, K, pos(fx.gpos), pos(fx.kpos)), Oracle: "ok"}
}

// countingWork decorates the resolver's own work budget and counts what goes through it.
type countingWork struct {
	inner      dnssec.SignatureWork
	ops        int // BeginSignature calls that were admitted = public-key operations
	perSig     int
	maxPerSig  int
	signatures int
}

func (w *countingWork) CheckDNSKEYCandidate(used uint32) error {
	if used == 0 {
		w.signatures++
		w.perSig = 0
	}
	return w.inner.CheckDNSKEYCandidate(used)
}
func (w *countingWork) CheckRRsetSignature(used uint32) error { return w.inner.CheckRRsetSignature(used) }
func (w *countingWork) BeginSignature() (func(), error) {
	rel, err := w.inner.BeginSignature()
	if err == nil {
		w.ops++
		w.perSig++
		if w.perSig > w.maxPerSig {
			w.maxPerSig = w.perSig
		}
	}
	return rel, err
}

// sigs verify <mode> <candCap> <rrsetCap> <sigCap> <gpos> <kpos> <S> <K>
// (gpos, kpos, S, K repeat what `sigs new` reported: the model needs them, the driver checks them)
func sigsVerify(f []string) vlib.Res {
	fx := curSigs
	if fx == nil {
		return vlib.Res{Impl: "no-fixture", Oracle: "-"}
	}
	pos := func(i int) string {
		if i < 0 {
			return "-"
		}
		return fmt.Sprint(i)
	}
	if f[6] != pos(fx.gpos) || f[7] != pos(fx.kpos) || vlib.Atoi(f[8]) != fx.s || vlib.Atoi(f[9]) != fx.k {
		return vlib.Res{Impl: "stale-order", Oracle: "-"}
	}
	raw := [nKinds]uint32{1000, 1000, uint32(vlib.AtoU64(f[3])), uint32(vlib.AtoU64(f[4])), uint32(vlib.AtoU64(f[5])), 1000, 1000, 64}
	p, ok := mustPolicy(f[2], raw)
	if !ok {
		return vlib.Res{Impl: "invalid", Oracle: "ok"}
	}
	ctx := middleware.WithResponseMeta(context.Background(), new(middleware.ResponseMeta))
	ctx, ledger := middleware.EnsureRecursionWork(ctx, p)
	r := bareResolver(5)
	cw := &countingWork{inner: resolver.VerifC12DNSSECWork(r, ctx)}
	verified, err := dnssec.VerifyRRSIGWithWork(sigZone, fx.keys, fx.msg.Copy(), cw)
	errName := "-"
	var le *middleware.RecursionWorkLimitError
	switch {
	case err == nil:
	case errors.As(err, &le):
		errName = map[middleware.RecursionWorkKind]string{middleware.RecursionWorkDNSKEYCandidate: "cand",
			middleware.RecursionWorkRRsetSignature: "rrset", middleware.RecursionWorkSignature: "sig"}[le.Kind]
		if errName == "" {
			errName = "limit"
		}
	default:
		errName = "bogus"
	}
	caps := configuredCaps(raw) // what was configured, not what the policy seam made of it
	or := "ok"
	if p.Mode == middleware.RecursionWorkEnforce {
		// the property: DNSSEC operations spent never exceed the configured budgets, whatever
		// the number of signatures per RRset and of colliding key tags
		switch {
		case uint32(cw.ops) > caps[3]:
			or = fmt.Sprintf("FAIL sig=sigs/verify/public-key-ops-past-rrset-cap ops=%d cap=%d signatures=%d candidates=%d", cw.ops, caps[3], fx.s, fx.k)
		case uint32(cw.maxPerSig) > caps[2]:
			or = fmt.Sprintf("FAIL sig=sigs/verify/public-key-ops-past-candidate-cap ops-for-one-signature=%d cap=%d", cw.maxPerSig, caps[2])
		case uint32(cw.ops) > caps[4]:
			or = fmt.Sprintf("FAIL sig=sigs/verify/public-key-ops-past-signature-budget ops=%d cap=%d", cw.ops, caps[4])
		}
	} else if errName == "cand" || errName == "rrset" || errName == "sig" || errName == "limit" {
		or = fmt.Sprintf("FAIL sig=sigs/verify/%s-mode-rejected", modeName(p.Mode))
	}
	if ledger != nil {
		if s := ledger.Snapshot(); int(s.SignatureChecks) != cw.ops {
			or = fmt.Sprintf("FAIL sig=sigs/verify/ledger-counter-differs-from-operations counter=%d ops=%d", s.SignatureChecks, cw.ops)
		}
	}
	// a valid signature with its key present must verify when no limit is in the way
	if p.Mode != middleware.RecursionWorkEnforce && fx.gpos >= 0 && fx.kpos >= 0 && !verified {
		or = "FAIL sig=sigs/verify/valid-signature-not-accepted"
	}
	if verified && (fx.gpos < 0 || fx.kpos < 0) {
		or = "FAIL sig=sigs/verify/accepted-without-valid-signature"
	}
	return vlib.Res{Impl: fmt.Sprintf("ok=%s err=%s ops=%d", vlib.B(verified), errName, cw.ops), Oracle: or, Tags: "nt"}
}
