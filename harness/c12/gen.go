//go:build verif

package main

import (
	"fmt"
	"strings"

	"github.com/semihalev/sdns/internal/verif/vlib"
	"github.com/semihalev/sdns/middleware"
)

var aggKinds = []int{0, 1, 4, 5, 6}
var localKinds = []int{2, 3, 7}

func genCaps(r *vlib.R, small bool) [nKinds]uint32 {
	var raw [nKinds]uint32
	for i := range raw {
		switch {
		case r.Chance(1, 4):
			raw[i] = 0 // "use the default"
		case small || r.Chance(3, 4):
			raw[i] = uint32(r.Range(1, 6))
		default:
			raw[i] = uint32(vlib.Pick(r, []int{31, 32, 33, 127, 128, 129, 1000}))
		}
	}
	return raw
}

func genMode(r *vlib.R) string {
	switch k := r.Intn(20); {
	case k < 10:
		return "enforce"
	case k < 15:
		return "shadow"
	case k < 17:
		return "off"
	case k < 19:
		return "-"
	}
	return vlib.Pick(r, []string{"bogus", "Enforce", "on"})
}

// genN3Op: one hashed-denial validation on the current ledger: names zero to five labels below the
// apex or below an existing name (labels from a small alphabet, so that later proofs re-use memoised
// hashes), name error or NODATA, with or without the request tree's memo.
func genN3Op(r *vlib.R) string {
	d := vlib.Pick(r, []int{0, 1, 1, 2, 2, 3, 4, 5})
	labels := "-"
	if d > 0 {
		ls := make([]string, d)
		for i := range ls {
			ls[i] = vlib.Pick(r, []string{"a", "b", "c", "x", "host", "other"})
		}
		labels = strings.Join(ls, ".")
	}
	op := fmt.Sprintf("n3 %s %s %s %s", vlib.Pick(r, []string{"nx", "nx", "nodata"}), vlib.Pick(r, []string{"apex", "apex", "host"}), labels, vlib.B(r.Chance(2, 3)))
	if r.Chance(1, 3) {
		// the iteration count the ring advertises, around the ceiling of 150
		op += fmt.Sprintf(" %d", vlib.Pick(r, []int{0, 1, 10, 149, 150, 151, 500, 2500, 65535}))
	}
	return op
}

// genN3Case: a ledger whose NSEC3 allowance sits around what a few proofs cost.
func genN3LedgerCase(r *vlib.R, emit func(string), dflt string) int {
	raw := [nKinds]uint32{}
	raw[6] = uint32(vlib.Pick(r, []int{1, 2, 3, 4, 5, 6, 8, 12, 0}))
	emit(fmt.Sprintf("ledger new %s %s %s", vlib.Pick(r, []string{"enforce", "enforce", "enforce", "shadow", "off"}), u32csv(raw), dflt))
	n := r.Range(3, 9)
	for i := 0; i < n; i++ {
		emit(genN3Op(r))
	}
	emit("ledger enf")
	emit("ledger snap")
	return n + 3
}

func genLedgerCase(r *vlib.R, emit func(string), dflt string) int {
	mode := genMode(r)
	raw := genCaps(r, true)
	emit(fmt.Sprintf("ledger new %s %s %s", mode, u32csv(raw), dflt))
	if _, ok := mustPolicy(mode, raw); !ok {
		return 1
	}
	caps := policyCaps(curPolicy)
	n := r.Range(10, 45)
	hot := vlib.Pick(r, aggKinds) // hammer one kind across its boundary
	for i := 0; i < n; i++ {
		switch k := r.Intn(26); {
		case k >= 24:
			emit(genN3Op(r))
		case k < 9:
			kind := hot
			if r.Chance(1, 3) {
				kind = vlib.Pick(r, aggKinds)
			}
			emit(fmt.Sprintf("ledger debit %d %d", r.Intn(6), kind))
		case k < 12:
			emit(fmt.Sprintf("ledger debitbe %d %d", r.Intn(6), vlib.Pick(r, aggKinds)))
		case k < 15:
			kind := vlib.Pick(r, localKinds)
			used := int(caps[kind]) + r.Range(-2, 2)
			if used < 0 {
				used = 0
			}
			emit(fmt.Sprintf("ledger check %d %d %s", kind, used, vlib.B(r.Chance(3, 4))))
		case k < 16:
			emit(fmt.Sprintf("ledger reject %d %s", vlib.Pick(r, localKinds), vlib.B(r.Chance(3, 4))))
		case k < 18:
			emit("ledger enf")
		case k < 20:
			emit("ledger snap")
		case k < 21:
			emit("ledger retain")
		case k < 22:
			emit("ledger release")
		case k < 23:
			emit("ledger finish")
		default:
			kind := vlib.Pick(r, aggKinds)
			g := r.Range(2, 16)
			per := r.Range(1, 6)
			emit(fmt.Sprintf("ledger storm %d %d %d %d", g, per, kind, r.Range(20, 80)))
		}
	}
	emit("ledger enf")
	emit("ledger snap")
	return n + 3
}

type tuple struct {
	ep, name, transport string
	qtype, qclass       uint16
}

func spellings(r *vlib.R, t tuple) (ep, name, tr string) {
	ep, name, tr = t.ep, t.name, t.transport
	switch r.Intn(4) {
	case 0:
		ep = " " + ep + " "
	case 1:
		if strings.HasPrefix(ep, "[") {
			ep = strings.ToUpper(ep)
		}
	}
	switch r.Intn(4) {
	case 0:
		name = strings.ToUpper(name)
	case 1:
		name = strings.TrimSuffix(name, ".")
	case 2:
		b := []byte(name)
		for i := range b {
			if r.Bool() && b[i] >= 'a' && b[i] <= 'z' {
				b[i] -= 32
			}
		}
		name = string(b)
	}
	switch r.Intn(4) {
	case 0:
		tr = strings.ToUpper(tr)
	case 1:
		tr = " " + tr + " "
	case 2:
		if tr == "udp" {
			tr = ""
		}
	}
	return
}

func genGuardCase(r *vlib.R, emit func(string)) int {
	emit(fmt.Sprintf("guard new %d", middleware.VerifC12MaxResolutionAttempts()))
	eps := []string{"192.0.2.1:53", "192.0.2.2:53", "192.0.2.1:5353", "[2001:db8::1]:53", "[2001:db8::2]:53", "198.51.100.7:53"}
	names := []string{"www.example.", "example.", "ns1.example.", "a.b.c.d.e.example.", "."}
	nt := r.Range(2, 14) // more than eight tuples spill into the overflow map
	seen := map[tuple]bool{}
	var pool []tuple
	for len(pool) < nt {
		t := tuple{ep: vlib.Pick(r, eps), name: vlib.Pick(r, names), transport: vlib.Pick(r, []string{"udp", "tcp"}),
			qtype: vlib.Pick(r, []uint16{1, 28, 2, 43}), qclass: 1}
		if !seen[t] {
			seen[t] = true
			pool = append(pool, t)
		}
	}
	n := r.Range(15, 60)
	for i := 0; i < n; i++ {
		k := r.Intn(len(pool))
		if r.Chance(1, 2) {
			k = r.Intn(1 + len(pool)/3) // revisit a few tuples past the limit
		}
		ep, name, tr := spellings(r, pool[k])
		emit(fmt.Sprintf("guard begin k%d %s %s %d %d %s", k, vlib.Hex([]byte(ep)), vlib.Hex([]byte(name)), pool[k].qtype, pool[k].qclass, vlib.Hex([]byte(tr))))
	}
	return n + 1
}

var (
	failCtxs   = []string{"live", "live", "live", "canceled", "deadline"}
	failMarks  = []string{"none", "none", "none", "work", "attempt", "probe", "maxrec", "canceled", "deadline", "other"}
	failModes  = []string{"off", "shadow", "enforce", "enforce"}
	failLatchs = []string{"none", "none", "hard0", "hard1", "hard2", "hard3", "hard4", "hard5", "hard6", "soft0", "soft1", "soft3", "soft4"}
)

func genFail(r *vlib.R, emit func(string)) {
	emit(fmt.Sprintf("fail classify %s %s %s %s %s", vlib.Pick(r, failCtxs), vlib.B(r.Chance(1, 5)), vlib.Pick(r, failModes), vlib.Pick(r, failLatchs), vlib.Pick(r, failMarks)))
}

// wirePfx: a third of the pipeline queries arrive as wire bytes (listener strict path) instead of a decoded message
func wirePfx(r *vlib.R) string {
	if r.Chance(1, 3) {
		return "w:"
	}
	return ""
}

// forwarder chains use a fresh id each time: the upstream's answers are cached across pipes only by
// name, and a cold cache is what the model of `forwardOps` assumes
var fwdChainID = 1000
var rhoID = 0

func genPipeCase(r *vlib.R, emit func(string), dflt string) int {
	mode := vlib.Pick(r, []string{"enforce", "enforce", "enforce", "shadow", "off", "-"})
	raw := genCaps(r, true)
	fo := r.Chance(1, 3)
	if !fo && r.Chance(1, 6) {
		// the cache's internal queries answered by an executor that does not chase: one chase level on its own
		emit(fmt.Sprintf("pipe new %s %s %s flatq", vlib.Pick(r, []string{"shadow", "off", "-", "shadow"}), u32csv(raw), dflt))
		n := r.Range(3, 7)
		for i := 0; i < n; i++ {
			rhoID++
			emit(fmt.Sprintf("pipe rho %d %d %d %s %s10.%d.0.%d:40000", rhoID, r.Range(0, 9), r.Range(1, 14), vlib.B(r.Chance(2, 3)), wirePfx(r), r.Intn(200), 1+r.Intn(200)))
		}
		return n + 1
	}
	if !fo && r.Chance(1, 4) {
		// forwarder mode: aliases answered bare by the upstream, every hop one forwarded query
		emit(fmt.Sprintf("pipe new %s %s %s forwarder", mode, u32csv(raw), dflt))
		caps := configuredCaps(raw)
		n := r.Range(3, 6)
		for i := 0; i < n; i++ {
			length := int(vlib.Pick(r, []uint32{caps[0], caps[1]})) + r.Range(-2, 1)
			if length < 1 || length > 9 {
				length = r.Range(1, 5)
			}
			emit(fmt.Sprintf("pipe chain %d %d %s f %s10.%d.0.%d:40000", fwdChainID, length, vlib.B(r.Chance(2, 3)), wirePfx(r), r.Intn(200), 1+r.Intn(200)))
			fwdChainID++
		}
		return n + 1
	}
	if fo {
		emit(fmt.Sprintf("pipe new %s %s %s failover", mode, u32csv(raw), dflt))
	} else {
		emit(fmt.Sprintf("pipe new %s %s %s", mode, u32csv(raw), dflt))
	}
	p, _ := mustPolicy(mode, raw)
	caps := configuredCaps(raw)
	n := r.Range(4, 10)
	chainID := 0
	for i := 0; i < n; i++ {
		if !fo && r.Chance(1, 4) {
			// an alias chain of bare CNAMEs: one internal sub-query per hop, cold or (warm) from the cache
			chainID++
			length := int(caps[1]) + r.Range(-1, 2)
			if length < 1 {
				length = 1
			}
			if length > 9 {
				length = r.Range(1, 4)
			}
			edns := r.Chance(2, 3)
			over := p.Mode == middleware.RecursionWorkEnforce && uint32(length) > caps[1]
			_ = over
			if r.Chance(1, 2) {
				emit(fmt.Sprintf("pipe chain %d %d t t 10.9.0.9:40000", chainID, length+r.Intn(2)))
				i++
			}
			emit(fmt.Sprintf("pipe chain %d %d %s f %s10.%d.0.%d:40000", chainID, length, vlib.B(edns), wirePfx(r), r.Intn(200), 1+r.Intn(200)))
			continue
		}
		kind := r.Intn(7) // 0..6 (7 = concurrent crypto has no counting entry point)
		nd := int(caps[kind]) + r.Range(-1, 2)
		if nd < 0 {
			nd = 0
		}
		if nd > 40 {
			nd = r.Range(0, 3)
		}
		if !fo && r.Chance(1, 6) {
			// a rho-shaped alias loop: a tail leading into a cycle that never returns to the queried name
			rhoID++
			emit(fmt.Sprintf("pipe rho %d %d %d %s %s10.%d.0.%d:40000", rhoID, r.Range(0, 6), r.Range(1, 12), vlib.B(r.Chance(2, 3)), wirePfx(r), r.Intn(200), 1+r.Intn(200)))
			continue
		}
		if !fo && r.Chance(1, 6) {
			// work through the request's context after the request has completed
			k := vlib.Pick(r, aggKinds)
			d := int(caps[k]) + r.Range(-3, 1)
			if d < 0 || d > 40 {
				d = r.Range(0, 3)
			}
			emit(fmt.Sprintf("pipe late %d %d %d %d", 10+i, k, d, r.Range(0, 4)))
			continue
		}
		if !fo && r.Chance(1, 3) {
			// the resolver answers with a bare alias; the budget runs out (or not) inside the cache's own chase
			emit(fmt.Sprintf("pipe alias %d %s %s10.%d.0.%d:40000 %d %d", r.Range(1, 3), vlib.B(r.Chance(2, 3)), wirePfx(r), r.Intn(200), 1+r.Intn(200), kind, nd))
			continue
		}
		emit(fmt.Sprintf("pipe query %d %s %s %s10.%d.0.%d:40000 %d %d", r.Range(1, 3), vlib.B(r.Chance(2, 3)), vlib.B(r.Chance(1, 3)), wirePfx(r), r.Intn(200), 1+r.Intn(200), kind, nd))
	}
	return n + 1
}

// genDSCase: D DS records × K same-tag KSKs, plain and anchored walk, caps around K and D·K.
func genDSCase(r *vlib.R, emit func(string)) int {
	D, K := r.Range(1, 5), r.Range(1, 12)
	if r.Chance(1, 2) {
		D = 1 // the genuine DS is then the first one walked
	}
	emit(fmt.Sprintf("ds new %d %d %d %s %s", r.Intn(200), D, K, vlib.Pick(r, []string{"present", "present", "absent"}),
		vlib.Pick(r, []string{"present", "present", "present", "absent"})))
	fx := curDS
	if fx == nil || fx.d != D || fx.k != K {
		return 1
	}
	n := r.Range(3, 7)
	for i := 0; i < n; i++ {
		cand := vlib.Pick(r, []int{4, 4, K, K - 1, K + 1, fx.kpos + 1, fx.kpos + 2, r.Range(1, 6)})
		dsc := vlib.Pick(r, []int{32, 32, K, D * K, D*K - 1, cand, r.Range(1, 20)})
		if cand < 1 {
			cand = 1
		}
		if dsc < 1 {
			dsc = 1
		}
		emit(fmt.Sprintf("ds verify %s %d %d %s %s %s %d %d", vlib.Pick(r, []string{"enforce", "enforce", "enforce", "shadow", "off"}),
			cand, dsc, vlib.B(r.Chance(1, 2)), posStr(fx.dpos), posStr(fx.kpos), D, K))
	}
	return n + 1
}

// genSigsCase: S signatures × K colliding-tag keys on one RRset, verified under caps around K, S and S·K.
func genSigsCase(r *vlib.R, emit func(string)) int {
	S, K := r.Range(1, 12), r.Range(1, 12)
	if r.Chance(1, 3) {
		S, K = vlib.Pick(r, []int{8, 9, 12}), vlib.Pick(r, []int{2, 3, 4})
	}
	emit(fmt.Sprintf("sigs new %d %d %d %s %s", r.Intn(200), S, K, vlib.Pick(r, []string{"first", "last", "mid", "absent", "absent"}),
		vlib.Pick(r, []string{"present", "present", "absent"})))
	fx := curSigs
	if fx == nil || fx.s != S || fx.k != K {
		return 1
	}
	pos := func(i int) string {
		if i < 0 {
			return "-"
		}
		return fmt.Sprint(i)
	}
	n := r.Range(3, 7)
	for i := 0; i < n; i++ {
		cand := vlib.Pick(r, []int{4, 4, K, K - 1, K + 1, r.Range(1, 6)})
		rrset := vlib.Pick(r, []int{8, 8, S, K, S * K, S*K - 1, cand * 2, r.Range(1, 12)})
		sig := vlib.Pick(r, []int{32, 32, 64, rrset - 1, rrset + 1, r.Range(1, 40)})
		if cand < 1 {
			cand = 1
		}
		if rrset < 1 {
			rrset = 1
		}
		if sig < 1 {
			sig = 1
		}
		emit(fmt.Sprintf("sigs verify %s %d %d %d %s %s %d %d", vlib.Pick(r, []string{"enforce", "enforce", "enforce", "shadow", "off"}),
			cand, rrset, sig, pos(fx.gpos), pos(fx.kpos), S, K))
	}
	return n + 1
}

type l3Plan struct {
	fam      string
	n, v     int
	mode     string
	out, in  int
	sig      int
	qmin     int
	maxdepth int
	opts     string
}

func sizeFor(r *vlib.R, fam string, big bool) int {
	switch fam {
	case "cname":
		if big {
			return r.Range(12, 30)
		}
		return r.Range(1, 9)
	case "dname":
		return r.Range(2, 6)
	case "nscycle":
		return r.Range(2, 6)
	case "deep":
		if big {
			return r.Range(32, 40)
		}
		return r.Range(3, 12)
	case "lame":
		return r.Range(1, 4)
	case "hugens":
		if big {
			return r.Range(40, 140)
		}
		return r.Range(3, 20)
	case "manysig":
		return r.Range(1, 14)
	case "updown":
		return r.Range(3, 9)
	case "refresh":
		return r.Range(2, 12)
	case "breaker":
		return r.Range(5, 8)
	case "nsec3":
		if big {
			return r.Range(26, 36)
		}
		return r.Range(0, 6)
	}
	return 3
}

// genRefreshCase: a delegation whose servers are all unreachable fails four times under a generous
// ledger (ErrorCount 1..4, the virtual clock moved past failure back-off and address TTLs in between),
// the world is repaired, and the fifth lookup — under the budget being tested — trips the
// nameserver-address refresh (Resolver.checkHosts): one address lookup per nameserver name.
func genRefreshCase(r *vlib.R, emit func(string), p l3Plan) int {
	hdr := fmt.Sprintf("l3 new %s %d %d %s %d %d %d %d %d", p.fam, p.n, p.v, p.mode, p.out, p.in, p.sig, p.qmin, p.maxdepth)
	if p.opts != "" {
		hdr += " " + p.opts
	}
	emit(hdr)
	for i := 0; i < 4; i++ {
		emit("l3 warm")
		emit("l3 advance 400")
	}
	emit("l3 heal")
	emit(fmt.Sprintf("l3 query %s f t", vlib.B(r.Chance(3, 4))))
	emit(fmt.Sprintf("l3 again %d", r.Intn(200)))
	return 12
}

// genBreakerCase: delegations are warmed, then n trees with a transport budget of one are refused
// their attempt at the healthy victim authority, then an independent client needs that authority.
func genBreakerCase(r *vlib.R, emit func(string), p l3Plan) int {
	emit(fmt.Sprintf("l3 new breaker %d %d %s 1 0 0 %d 30", p.n, p.v, p.mode, p.qmin))
	emit("l3 ask warm1.v.test t warm")
	emit("l3 ask plain.w.test t warm")
	for i := 0; i < p.n; i++ {
		emit(fmt.Sprintf("l3 ask a%d.w.test %s %s", i, vlib.B(r.Chance(4, 5)), vlib.Pick(r, []string{"own", "own", "plain"})))
	}
	emit(fmt.Sprintf("l3 ask fresh%d.v.test t %s", r.Intn(100), vlib.Pick(r, []string{"own", "plain"})))
	emit("l3 ask t.v.test t own")
	return p.n + 5
}

// genN3Case: hashed denials. The NSEC3 allowance is the budget under test (0 = default 32): below
// what any name-error proof costs, around what this one costs (one hash per label of the walk),
// generous; the transport and sub-query budgets stay out of the way.
func genN3Case(r *vlib.R, emit func(string), p l3Plan) int {
	cap3 := vlib.Pick(r, []int{0, 0, 1, 2, r.Range(3, 6), p.n + r.Range(1, 4), 16, 64})
	hdr := fmt.Sprintf("l3 new nsec3 %d %d %s 0 0 0 %d 30", p.n, p.v, p.mode, p.qmin)
	if cap3 > 0 {
		hdr += fmt.Sprintf(" n3=%d", cap3)
	}
	emit(hdr)
	emit(fmt.Sprintf("l3 query t t %s", vlib.B(r.Chance(4, 5))))
	cnt := 2
	for i, k := 0, r.Intn(3); i < k; i++ {
		name := vlib.Pick(r, []string{"host.n3.test", fmt.Sprintf("q%d.n3.test", r.Intn(50)), fmt.Sprintf("a.b.c%d.n3.test", r.Intn(50)), "zz.host.n3.test"})
		emit(fmt.Sprintf("l3 ask %s t %s", name, vlib.Pick(r, []string{"own", "own", "plain"})))
		cnt++
	}
	if p.mode == "enforce" && r.Chance(1, 2) {
		emit(fmt.Sprintf("l3 again %d", r.Intn(200)))
		cnt++
	}
	return cnt
}

func genL3Case(r *vlib.R, emit func(string), p l3Plan) int {
	if p.fam == "refresh" {
		return genRefreshCase(r, emit, p)
	}
	if p.fam == "breaker" {
		return genBreakerCase(r, emit, p)
	}
	if p.fam == "nsec3" {
		return genN3Case(r, emit, p)
	}
	hdr := fmt.Sprintf("l3 new %s %d %d %s %d %d %d %d %d", p.fam, p.n, p.v, p.mode, p.out, p.in, p.sig, p.qmin, p.maxdepth)
	if p.opts != "" {
		hdr += " " + p.opts
	}
	emit(hdr)
	cnt := 1
	edns := r.Chance(2, 3)
	do := edns && (p.fam == "manysig" || strings.Contains(p.opts, "signed") || r.Chance(1, 4))
	emit(fmt.Sprintf("l3 query %s %s %s", vlib.B(edns), vlib.B(do), vlib.B(r.Chance(2, 3))))
	cnt++
	if p.mode == "enforce" {
		emit(fmt.Sprintf("l3 again %d", r.Intn(200)))
		cnt++
		if r.Chance(1, 2) {
			emit(fmt.Sprintf("l3 query %s %s %s", vlib.B(!edns), "f", vlib.B(r.Chance(1, 2))))
			emit(fmt.Sprintf("l3 again %d", r.Intn(200)))
			cnt += 2
		}
	} else if r.Chance(1, 3) {
		emit(fmt.Sprintf("l3 query %s %s f", vlib.B(!edns), "f"))
		cnt++
	}
	return cnt
}

func planL3(r *vlib.R, fam string, v int, mode string, qmin int) l3Plan {
	p := l3Plan{fam: fam, v: v, mode: mode, qmin: qmin, maxdepth: 30}
	big := r.Chance(1, 4)
	p.n = sizeFor(r, fam, big)
	if fam == "cname" && big && r.Chance(1, 2) {
		// loop lengths that do not align with the cache's ten-hop chase (30, 31, 36 and 48 kept an
		// unmetered resolver busy for minutes before 31d979d), and arbitrary long ones
		p.n = vlib.Pick(r, []int{30, 31, 36, 48, r.Range(30, 64)})
	}
	switch mode {
	case "enforce":
		switch r.Intn(4) {
		case 0: // default budgets
		case 1:
			p.out, p.in = r.Range(1, 4), r.Range(1, 3)
		case 2:
			p.out, p.in = r.Range(4, 12), r.Range(2, 8)
		case 3:
			p.out, p.in = r.Range(10, 40), r.Range(1, 4)
		}
		if fam == "manysig" && r.Chance(2, 3) {
			p.sig = r.Range(1, 12)
		}
		if fam == "manysig" && v == 2 && r.Chance(2, 3) {
			// aggregate budget out of the way: only the per-RRset / per-signature ceilings bound the work
			p.sig, p.out, p.in = 1000, 0, 0
		}
	case "shadow":
		if r.Chance(1, 2) {
			p.out, p.in, p.sig = r.Range(1, 6), r.Range(1, 3), r.Range(0, 3)
		}
	}
	if fam == "deep" && r.Chance(1, 3) {
		p.maxdepth = r.Range(3, 10)
	}
	if fam == "breaker" || fam == "nsec3" {
		return p
	}
	if fam == "refresh" {
		// the address refresh is what is metered: small sub-query / transport budgets, or defaults
		if mode == "enforce" {
			switch r.Intn(3) {
			case 0:
				p.out, p.in = 0, r.Range(1, 3)
				if r.Chance(1, 2) {
					// more nameserver names than the refresh runs at once (10): the first batch is admitted and
					// finishes before the rest is refused
					p.n, p.in = r.Range(11, 12), r.Range(10, 11)
				}
			case 1:
				p.out, p.in = r.Range(2, 6), 0
			default:
				p.out, p.in = 0, 0
			}
		}
		return p
	}
	// chain shapes beyond the default one: a signed hierarchy (chain-of-trust sub-lookups per label),
	// a pipeline without the cache (store-less resolver), the failover middleware with a fallback server
	var opts []string
	if (fam == "deep" && v == 0 && p.n <= 12 || fam == "cname" && p.n <= 8 || fam == "nscycle") && r.Chance(1, 3) {
		opts = append(opts, "signed")
		if mode == "enforce" && r.Chance(1, 2) {
			p.out, p.in = 0, r.Range(1, 6)
		}
	}
	if r.Chance(1, 5) {
		opts = append(opts, "nocache")
	}
	if r.Chance(1, 5) {
		opts = append(opts, "failover")
	}
	p.opts = strings.Join(opts, ",")
	return p
}

func gen(r *vlib.R, n int, tier string, emit func(string)) {
	dflt := u32csv(defaultsFromCode())
	maxQ := middleware.VerifC12MaxQueryerRecursion()
	dInt := defaultsFromCode()[1]
	count := 0
	emitc := func(s string) { emit(s); count++ }

	// fixed prelude: the boundaries of the nesting bound and of the sub-query budget
	for _, m := range []string{"enforce", "shadow", "off"} {
		for _, c := range []int{0, 1, 5, maxQ - 1, maxQ, maxQ + 1} {
			emitc(fmt.Sprintf("sub nest %s %d %d %d", m, c, dInt, maxQ))
		}
	}
	// hashed denial: the name error proof of a.b.n3.test. costs four hashes (two climbing, the apex, the
	// wildcard); allowances below, at and above it, with and without the memo; a second proof re-using it
	for _, c := range []int{2, 3, 4, 5, 7} {
		for _, memo := range []string{"f", "t"} {
			raw := [nKinds]uint32{}
			raw[6] = uint32(c)
			emitc(fmt.Sprintf("ledger new enforce %s %s", u32csv(raw), dflt))
			emitc("n3 nx apex a.b " + memo)
			emitc("n3 nx apex c.b " + memo)
			emitc("n3 nodata host - " + memo)
			emitc("n3 nx apex a.b " + memo + " 150")
			emitc("n3 nx apex a.b " + memo + " 151")
			emitc("n3 nodata host - " + memo + " 2500")
			emitc("ledger snap")
		}
	}
	// the demo shapes of the per-RRset ceiling: many signatures × colliding key tags, nothing verifies
	for _, sk := range [][2]int{{3, 4}, {8, 4}, {12, 3}, {12, 2}} {
		emit(fmt.Sprintf("sigs new 1 %d %d absent absent", sk[0], sk[1]))
		count++
		if curSigs != nil && curSigs.s == sk[0] {
			for _, m := range []string{"enforce", "shadow"} {
				emitc(fmt.Sprintf("sigs verify %s 4 8 64 - - %d %d", m, sk[0], sk[1]))
			}
		}
	}
	// more KSKs share the DS's key tag than one DS may cost, the genuine one early in the validator's order
	for _, sd := range [][2]int{{3, 1}, {5, 1}, {8, 2}, {13, 1}} {
		emit(fmt.Sprintf("ds new %d %d 7 present present", sd[0], sd[1]))
		count++
		if fx := curDS; fx != nil && fx.k == 7 && fx.d == sd[1] {
			for _, a := range []string{"t", "f"} {
				emitc(fmt.Sprintf("ds verify enforce 4 64 %s %s %s %d 7", a, posStr(fx.dpos), posStr(fx.kpos), sd[1]))
				emitc(fmt.Sprintf("ds verify enforce %d 64 %s %s %s %d 7", fx.kpos+1, a, posStr(fx.dpos), posStr(fx.kpos), sd[1]))
				emitc(fmt.Sprintf("ds verify enforce %d 64 %s %s %s %d 7", fx.kpos+2, a, posStr(fx.dpos), posStr(fx.kpos), sd[1]))
			}
		}
	}
	// anchors: one hand-picked case per mechanism (sizes that cross the default budgets, the
	// TCP fallback, the depth caps seen from outside)
	for _, a := range [][]string{
		{"l3 new lame 2 3 enforce 4 0 0 0 30", "l3 query t f t", "l3 again 3"},
		{"l3 new lame 2 4 enforce 3 0 0 0 30", "l3 query t f t"},
		{"l3 new lame 3 3 shadow 0 0 0 5 30", "l3 query f f t"},
		{"l3 new dname 2 0 shadow 0 0 0 0 30", "l3 query t f t"},
		{"l3 new dname 3 0 shadow 0 0 0 5 30", "l3 query f f t"},
		{"l3 new deep 12 0 shadow 0 0 0 0 6", "l3 query t f t"},
		{"l3 new deep 36 0 off 0 0 0 5 30", "l3 query t f f"},
		{"l3 new hugens 60 0 enforce 0 0 0 0 30", "l3 query t f t", "l3 again 4"},
		{"l3 new hugens 150 1 shadow 0 0 0 5 30", "l3 query t f t"},
		{"l3 new cname 30 1 enforce 0 0 0 5 30", "l3 query t f t", "l3 again 7"},
		{"l3 new cname 36 0 enforce 0 0 0 0 30", "l3 query f f t", "l3 again 8"},
		{"l3 new cname 31 0 shadow 0 0 0 5 30", "l3 query t f t"},
		{"l3 new cname 48 0 off 0 0 0 0 30", "l3 query f f f"},
		{"l3 new nscycle 6 0 enforce 0 0 0 5 30", "l3 query t f t", "l3 again 2"},
		{"l3 new manysig 12 0 enforce 0 0 0 0 30", "l3 query t t t", "l3 again 9"},
		{"l3 new manysig 6 1 shadow 0 0 2 5 30", "l3 query t t t"},
		{"l3 new manysig 8 2 enforce 0 0 1000 0 30", "l3 query t t t", "l3 again 11"},
		{"l3 new updown 7 0 enforce 6 0 0 5 30", "l3 query t f t"},
		{"l3 new nsec3 2 0 enforce 0 0 0 0 30 n3=16", "l3 query t t t", "l3 ask host.n3.test t own"},
		{"l3 new nsec3 2 0 enforce 0 0 0 0 30 n3=2", "l3 query t t t"},
		{"l3 new nsec3 2 0 enforce 0 0 0 5 30 n3=2", "l3 query t t f"},
		{"l3 new nsec3 30 0 enforce 0 0 0 0 30", "l3 query t t t"},
		{"l3 new nsec3 1 1 enforce 0 0 0 0 30 n3=1", "l3 query t t t"},
		{"l3 new nsec3 3 0 shadow 0 0 0 0 30 n3=2", "l3 query t t t"},
		{"l3 new breaker 6 0 enforce 1 0 0 0 30", "l3 ask warm1.v.test t warm", "l3 ask plain.w.test t warm", "l3 ask a1.w.test t own", "l3 ask a2.w.test t own", "l3 ask a3.w.test t plain",
			"l3 ask a4.w.test t own", "l3 ask a5.w.test f own", "l3 ask a6.w.test t own", "l3 ask fresh.v.test t own"},
		{"l3 new breaker 6 1 enforce 1 0 0 0 30", "l3 ask warm1.v.test t warm", "l3 ask plain.w.test t warm", "l3 ask a1.w.test t own", "l3 ask a2.w.test t own", "l3 ask a3.w.test t own",
			"l3 ask a4.w.test t own", "l3 ask a5.w.test t own", "l3 ask a6.w.test t own", "l3 ask fresh.v.test t plain"},
		{"l3 new refresh 6 0 enforce 0 2 0 0 30", "l3 warm", "l3 advance 400", "l3 warm", "l3 advance 400", "l3 warm", "l3 advance 400", "l3 warm", "l3 advance 400", "l3 heal", "l3 query t f t", "l3 again 31"},
		{"l3 new refresh 3 0 enforce 0 1 0 5 30", "l3 warm", "l3 advance 400", "l3 warm", "l3 advance 400", "l3 warm", "l3 advance 400", "l3 warm", "l3 advance 400", "l3 heal", "l3 query t f t"},
		{"l3 new refresh 2 0 enforce 0 1 0 0 30", "l3 warm", "l3 advance 400", "l3 warm", "l3 advance 400", "l3 warm", "l3 advance 400", "l3 warm", "l3 advance 400", "l3 heal", "l3 query f f t"},
		{"l3 new refresh 8 1 enforce 5 0 0 0 30", "l3 warm", "l3 advance 400", "l3 warm", "l3 advance 400", "l3 warm", "l3 advance 400", "l3 warm", "l3 advance 400", "l3 heal", "l3 query t f t"},
		{"l3 new refresh 12 0 enforce 0 10 0 0 30", "l3 warm", "l3 advance 400", "l3 warm", "l3 advance 400", "l3 warm", "l3 advance 400", "l3 warm", "l3 advance 400", "l3 heal", "l3 query t f t"},
		{"l3 new refresh 12 1 enforce 0 10 0 5 30", "l3 warm", "l3 advance 400", "l3 warm", "l3 advance 400", "l3 warm", "l3 advance 400", "l3 warm", "l3 advance 400", "l3 heal", "l3 query f f t"},
		{"l3 new refresh 4 0 shadow 0 1 0 0 30", "l3 warm", "l3 advance 400", "l3 warm", "l3 advance 400", "l3 warm", "l3 advance 400", "l3 warm", "l3 advance 400", "l3 heal", "l3 query t f t"},
		{"l3 new lame 3 5 enforce 3 0 0 0 30", "l3 query t f t", "l3 again 21"},
		{"l3 new lame 4 5 enforce 3 0 0 0 30", "l3 query t f f", "l3 again 22"},
		{"l3 new lame 2 5 enforce 3 0 0 5 30", "l3 query t f t", "l3 again 23"},
		{"l3 new lame 2 5 shadow 0 0 0 0 30", "l3 query t f t"},
		{"l3 new deep 6 0 enforce 0 3 0 0 30 nocache,signed", "l3 query t t t"},
		{"l3 new deep 5 0 shadow 0 2 0 5 30 nocache,signed", "l3 query t t t"},
		{"l3 new hugens 20 0 enforce 0 4 0 0 30 failover", "l3 query t f t", "l3 again 13"},
		{"l3 new manysig 8 2 enforce 0 0 6 0 30 failover", "l3 query t t t"},
		{"l3 new lame 2 2 shadow 0 0 0 0 30 failover", "l3 query t f t"},
		{"l3 new updown 6 1 enforce 5 0 0 10 30", "l3 query f f f", "l3 again 12"},
		{"l3 new updown 8 0 shadow 0 0 0 5 30", "l3 query t f t"},
		{"l3 new manysig 6 2 shadow 0 0 1000 5 30", "l3 query t t t"},
	} {
		for _, op := range a {
			emitc(op)
		}
	}
	// one system-level case per family × mode × qmin (variant and sizes from the seed)
	for _, fam := range families {
		for _, mode := range []string{"enforce", "shadow", "off"} {
			for _, qmin := range []int{0, 5} {
				if mode == "off" && qmin == 0 && tier != "thorough" {
					continue
				}
				v := r.Intn(familyVariants[fam])
				count += genL3Case(r, emit, planL3(r, fam, v, mode, qmin))
			}
		}
	}
	if tier == "thorough" {
		for _, c := range failCtxs[2:] {
			for _, be := range []string{"t", "f"} {
				for _, m := range failModes[:3] {
					for _, l := range failLatchs[1:] {
						for _, mk := range failMarks[2:] {
							emitc(fmt.Sprintf("fail classify %s %s %s %s %s", c, be, m, l, mk))
						}
					}
				}
			}
		}
	}
	l3Every := 60
	sinceL3 := 0
	for count < n {
		if sinceL3 >= l3Every {
			sinceL3 = 0
			fam := vlib.Pick(r, families)
			mode := vlib.Pick(r, []string{"enforce", "enforce", "enforce", "shadow", "shadow", "off"})
			count += genL3Case(r, emit, planL3(r, fam, r.Intn(familyVariants[fam]), mode, vlib.Pick(r, []int{0, 0, 1, 3, 5, 10})))
			continue
		}
		before := count
		switch k := r.Intn(28); {
		case k >= 26:
			count += genN3LedgerCase(r, emit, dflt)
		case k >= 25:
			// what lookup returns when no authority answered cleanly: error responses × bogus referrals × attempt errors
			for i := 0; i < 8; i++ {
				rc := "-"
				if n := r.Intn(4); n > 0 {
					p := make([]string, n)
					for j := range p {
						p[j] = fmt.Sprint(vlib.Pick(r, []int{2, 2, 3, 5, 9}))
					}
					rc = strings.Join(p, ",")
				}
				es := ""
				for j, n := 0, r.Intn(4); j < n; j++ {
					es += vlib.Pick(r, []string{"w", "a", "o", "o"})
				}
				nc := r.Intn(3)
				if rc == "-" && nc == 0 && es == "" {
					es = "o"
				}
				if es == "" {
					es = "-"
				}
				emitc(fmt.Sprintf("pick fallback %s %d %s", rc, nc, es))
			}
		case k >= 23:
			count += genDSCase(r, emit)
		case k >= 20:
			count += genSigsCase(r, emit)
		case k < 8:
			count += genLedgerCase(r, emit, dflt)
		case k < 11:
			count += genGuardCase(r, emit)
		case k < 13:
			for i := 0; i < 8; i++ {
				genFail(r, emit)
				count++
			}
		case k < 16:
			count += genPipeCase(r, emit, dflt)
		case k < 17:
			emitc("loop new")
			names := []string{"ns1.a.test.", "ns2.a.test.", "ns.b.test.", "ns.c.test."}
			for i, m := 0, r.Range(6, 20); i < m; i++ {
				emitc(fmt.Sprintf("loop check %s %d", vlib.Pick(r, names), vlib.Pick(r, []int{1, 28})))
			}
		case k < 19:
			for i := 0; i < 8; i++ {
				lb := r.Range(1, 9)
				parts := make([]string, lb)
				for j := range parts {
					parts[j] = fmt.Sprintf("l%d", j)
				}
				ml := vlib.Pick(r, []int{0, 1, 3, 5, 5, 10})
				emitc(fmt.Sprintf("min check %d %s. %d %s", ml, strings.Join(parts, "."), r.Range(0, 10), vlib.B(r.Chance(1, 5))))
			}
		default:
			emitc(fmt.Sprintf("sub nest %s %d %d %d", vlib.Pick(r, []string{"enforce", "enforce", "shadow", "off"}), r.Range(0, 40), dInt, maxQ))
		}
		sinceL3 += count - before
	}
	curL3.close()
	curL3 = nil
	child.kill()
	child = nil
}
