//go:build verif

package main

// Function-level NSEC3 hash accounting: the real dnssec.VerifyNameErrorForZoneWithWork /
// VerifyNODATAForZoneWithWork run on a fixed three-name NSEC3 ring through the resolver's own work
// adapter (Resolver.dnssecWork), on the ledger and context of the current `ledger new` case.
//
//	n3 nx <apex|host> <labels|-> <memo t|f> [iterations]      name error for <labels>.<base>
//	n3 nodata <apex|host> <labels|-> <memo t|f> [iterations]  NODATA (type TXT) for <labels>.<base>
//
// iterations (default 0): the NSEC3 iteration count every record of the ring advertises.
//
// With memo=t the context carries the request tree's hash memo (dnssec.EnsureNSEC3HashMemo), as every
// production entry point arranges; with memo=f it does not (a bare context).

import (
	"context"
	"errors"
	"fmt"
	"sort"
	"strings"

	"github.com/miekg/dns"
	"github.com/semihalev/sdns/internal/verif/vlib"
	"github.com/semihalev/sdns/middleware"
	"github.com/semihalev/sdns/middleware/resolver"
	"github.com/semihalev/sdns/middleware/resolver/dnssec"
)

const n3Zone = "n3.test."

var (
	n3FixRings   = map[int][]dns.RR{}
	curMemoCtx   context.Context
	curMemoOwner context.Context
)

// the ring of n3.test.: apex, host, other (unsigned: the verifiers take an already authenticated set)
func n3Fixture(iters int) []dns.RR {
	if r, ok := n3FixRings[iters]; ok {
		return r
	}
	var n3FixRing []dns.RR
	n3Iters := uint16(iters)
	type ent struct {
		hash  string
		types []uint16
	}
	es := []ent{
		{dns.HashName(n3Zone, dns.SHA1, n3Iters, n3Salt), []uint16{dns.TypeNS, dns.TypeSOA, dns.TypeRRSIG, dns.TypeDNSKEY}},
		{dns.HashName("host."+n3Zone, dns.SHA1, n3Iters, n3Salt), []uint16{dns.TypeA, dns.TypeRRSIG}},
		{dns.HashName("other."+n3Zone, dns.SHA1, n3Iters, n3Salt), []uint16{dns.TypeA, dns.TypeRRSIG}},
	}
	sort.Slice(es, func(i, j int) bool { return es[i].hash < es[j].hash })
	for i, e := range es {
		n3FixRing = append(n3FixRing, &dns.NSEC3{
			Hdr:  dns.RR_Header{Name: strings.ToLower(e.hash) + "." + n3Zone, Rrtype: dns.TypeNSEC3, Class: dns.ClassINET, Ttl: 300},
			Hash: dns.SHA1, Iterations: n3Iters, SaltLength: uint8(len(n3Salt) / 2), Salt: n3Salt,
			HashLength: 20, NextDomain: es[(i+1)%len(es)].hash, TypeBitMap: e.types,
		})
	}
	n3FixRings[iters] = n3FixRing
	return n3FixRing
}

// countingN3Work decorates the resolver's own adapter and counts admitted / refused hash requests.
type countingN3Work struct {
	inner    dnssec.NSEC3Work
	admitted int
	refused  int
}

func (w *countingN3Work) BeginNSEC3Hash() (func(), error) {
	rel, err := w.inner.BeginNSEC3Hash()
	if err == nil {
		w.admitted++
	} else {
		w.refused++
	}
	return rel, err
}

func (w *countingN3Work) NSEC3HashMemos() dnssec.NSEC3HashMemoAccess {
	if p, ok := w.inner.(dnssec.NSEC3HashMemoProvider); ok {
		return p.NSEC3HashMemos()
	}
	return dnssec.NSEC3HashMemoAccess{}
}

func n3Verify(f []string) vlib.Res {
	if curCtx == nil && curLedger == nil && curPolicy.Enabled() {
		return vlib.Res{Impl: "no-ledger", Oracle: "-"}
	}
	if curCtx == nil {
		return vlib.Res{Impl: "no-ledger", Oracle: "-"}
	}
	if dnssec.VerifC12MaxNSEC3HashMemoEntries() != 64 {
		return vlib.Res{Impl: "stale-constants", Oracle: "-"} // the model's memo ceiling (Props: nsec3_memo_cap_fact)
	}
	iters := 0
	if len(f) > 5 {
		iters = vlib.Atoi(f[5])
		if iters < 0 || iters > 65535 || dnssec.VerifC12MaxNSEC3Iterations() != 150 {
			return vlib.Res{Impl: "stale-constants", Oracle: "-"} // the model's iteration ceiling (Props: nsec3_iteration_cap_fact)
		}
	}
	base := n3Zone
	if f[2] == "host" {
		base = "host." + n3Zone
	}
	var labels []string
	if f[3] != "-" {
		labels = strings.Split(f[3], ".")
	}
	name := base
	if len(labels) > 0 {
		name = strings.Join(labels, ".") + "." + base
	}
	ctx := curCtx
	if f[4] == "t" {
		if curMemoOwner != curCtx {
			curMemoOwner, curMemoCtx = curCtx, dnssec.EnsureNSEC3HashMemo(curCtx)
		}
		ctx = curMemoCtx
	}
	cw := &countingN3Work{inner: resolver.VerifC12DNSSECWork(bareResolver(5), ctx)}
	msg := new(dns.Msg)
	var secure bool
	var err error
	if f[1] == "nx" {
		msg.SetQuestion(name, dns.TypeA)
		msg.Rcode = dns.RcodeNameError
		secure, err = dnssec.VerifyNameErrorForZoneWithWork(msg, n3Fixture(iters), n3Zone, cw)
	} else {
		msg.SetQuestion(name, dns.TypeTXT)
		secure, err = dnssec.VerifyNODATAForZoneWithWork(msg, n3Fixture(iters), n3Zone, cw)
	}
	res := "bogus"
	var le *middleware.RecursionWorkLimitError
	switch {
	case err == nil && secure:
		res = "secure"
	case err == nil:
		res = "insecure"
	case errors.As(err, &le):
		res = resStr(err)
	}
	var ctr uint32
	if curLedger != nil {
		ctr = curLedger.Snapshot().NSEC3Hashes
	}
	// independent oracle
	or := "ok"
	kind := int(middleware.RecursionWorkNSEC3Hash)
	if curPolicy.Mode == middleware.RecursionWorkEnforce {
		before := refAccept[kind]
		refAccept[kind] += uint32(cw.admitted)
		if cw.refused > 0 {
			rejectedK[kind] = true
		}
		// what this proof cannot do without: one hash per name from the queried name up to the
		// closest encloser, plus the wildcard (name error / wildcard NODATA)
		owners := map[string]bool{n3Zone: true, "host." + n3Zone: true, "other." + n3Zone: true}
		need := 0
		for i := 0; i <= len(labels); i++ {
			need++
			if owners[strings.Join(append(append([]string(nil), labels[i:]...), strings.TrimSuffix(base, ".")), ".")+"."] {
				break
			}
		}
		if need > 1 {
			need++ // the wildcard at the closest encloser
		}
		if iters > 150 {
			need = 0 // a ring above the iteration ceiling is unusable: no hash may be spent on it
		}
		switch {
		case iters > 150 && (cw.admitted+cw.refused > 0 || res != "bogus"):
			or = fmt.Sprintf("FAIL sig=n3/%s/hash-work-for-ring-above-iteration-cap iterations=%d hash-requests=%d verdict=%s", f[1], iters, cw.admitted+cw.refused, res)
		case refAccept[kind] > curCfgCaps[kind]:
			or = fmt.Sprintf("FAIL sig=n3/%s/hashes-past-budget accepted=%d budget=%d", f[1], refAccept[kind], curCfgCaps[kind])
		case cw.refused > 0 && refAccept[kind] < curCfgCaps[kind]:
			or = fmt.Sprintf("FAIL sig=n3/%s/refused-below-budget accepted=%d budget=%d", f[1], refAccept[kind], curCfgCaps[kind])
		case cw.refused > 0 && le == nil:
			or = fmt.Sprintf("FAIL sig=n3/%s/refused-hash-not-reported-as-work-limit res=%s", f[1], res)
		case cw.refused > 0 && res == "secure":
			or = fmt.Sprintf("FAIL sig=n3/%s/secure-after-refused-hash", f[1])
		case f[4] == "f" && le == nil && cw.admitted != need:
			or = fmt.Sprintf("FAIL sig=n3/%s/verdict-without-paying-every-hash paid=%d needs=%d verdict=%s", f[1], cw.admitted, need, res)
		case f[4] == "f" && before+uint32(need) > curCfgCaps[kind] && le == nil:
			or = fmt.Sprintf("FAIL sig=n3/%s/verdict-past-budget had=%d needs=%d budget=%d verdict=%s", f[1], before, need, curCfgCaps[kind], res)
		}
	} else if le != nil {
		or = fmt.Sprintf("FAIL sig=n3/%s/%s-mode-rejected", f[1], modeName(curPolicy.Mode))
	} else if iters > 150 && (cw.admitted+cw.refused > 0 || res != "bogus") {
		or = fmt.Sprintf("FAIL sig=n3/%s/hash-work-for-ring-above-iteration-cap iterations=%d hash-requests=%d verdict=%s", f[1], iters, cw.admitted+cw.refused, res)
	}
	tags := "n3"
	if len(f) > 5 {
		tags += fmt.Sprintf(",n3iter=%d", iters)
	}
	if curPolicy.Mode == middleware.RecursionWorkEnforce && refAccept[kind]+3 >= curCfgCaps[kind] {
		tags += ",nt"
	}
	return vlib.Res{Impl: fmt.Sprintf("res=%s n3=%d", res, ctr), Oracle: or, Tags: tags}
}
