//go:build verif

package main

// The system-level cases run in a child process of the same binary: a
// resolution that does not come back (the very thing the oracle is looking
// for) can then be cut off by killing the child instead of hanging the check
// or burning CPU in the background.

import (
	"bufio"
	"fmt"
	"io"
	"os"
	osexec "os/exec"
	"path/filepath"
	"strings"
	"time"

	"github.com/semihalev/sdns/internal/verif/vlib"
)

type l3Child struct {
	cmd   *osexec.Cmd
	in    io.WriteCloser
	lines chan string
	fam   string
	mode  string
	ops   []string // ops of the current case, to replay it once after a watchdog kill
}

var child *l3Child

func (c *l3Child) kill() {
	if c == nil {
		return
	}
	// closing stdin lets a healthy child clean up and exit by itself
	_ = c.in.Close()
	done := make(chan struct{})
	go func() { _, _ = c.cmd.Process.Wait(); close(done) }()
	select {
	case <-done:
	case <-time.After(500 * time.Millisecond):
		_ = c.cmd.Process.Kill()
		<-done
	}
	// whatever a killed child left behind in the l3 scratch area
	dir := os.Getenv("VERIF_DIR")
	if dir == "" {
		dir = "/verif"
	}
	left, _ := filepath.Glob(filepath.Join(dir, "build", "tmp-l3", fmt.Sprintf("p%d-*", c.cmd.Process.Pid)))
	for _, d := range left {
		_ = os.RemoveAll(d)
	}
}

func spawnChild() (*l3Child, error) {
	cmd := osexec.Command(os.Args[0], "l3serve")
	cmd.Env = os.Environ()
	cmd.Stderr = os.Stderr
	in, err := cmd.StdinPipe()
	if err != nil {
		return nil, err
	}
	out, err := cmd.StdoutPipe()
	if err != nil {
		return nil, err
	}
	if err := cmd.Start(); err != nil {
		return nil, err
	}
	c := &l3Child{cmd: cmd, in: in, lines: make(chan string, 4)}
	go func() {
		sc := bufio.NewScanner(out)
		sc.Buffer(make([]byte, 1<<16), 1<<22)
		for sc.Scan() {
			c.lines <- sc.Text()
		}
		close(c.lines)
	}()
	return c, nil
}

func (c *l3Child) call(op string, timeout time.Duration) (vlib.Res, bool) {
	if _, err := io.WriteString(c.in, op+"\n"); err != nil {
		return vlib.Res{}, false
	}
	select {
	case ln, ok := <-c.lines:
		if !ok {
			return vlib.Res{}, false
		}
		p := strings.SplitN(ln, "\t", 3)
		for len(p) < 3 {
			p = append(p, "")
		}
		return vlib.Res{Impl: p[0], Oracle: p[1], Tags: p[2]}, true
	case <-time.After(timeout):
		return vlib.Res{}, false
	}
}

// watchdogLog leaves a trace of every watchdog kill (the retry may hide it from the verdict).
func watchdogLog(msg string) {
	dir := os.Getenv("VERIF_DIR")
	if dir == "" {
		dir = "/verif"
	}
	if f, err := os.OpenFile(filepath.Join(dir, "build", "c12-watchdog.log"), os.O_APPEND|os.O_CREATE|os.O_WRONLY, 0o644); err == nil {
		fmt.Fprintf(f, "%s pid=%d seed=%s %s\n", time.Now().Format(time.RFC3339), os.Getpid(), strings.Join(os.Args[1:], " "), msg)
		f.Close()
	}
}

// l3Op routes one `l3 …` op to the child.
func l3Op(f []string, op string) vlib.Res {
	if os.Getenv("C12_L3_INPROC") != "" {
		return l3Local(f)
	}
	switch f[1] {
	case "new":
		child.kill()
		child = nil
		c, err := spawnChild()
		if err != nil {
			return vlib.Res{Impl: "spawn-failed", Oracle: "-"}
		}
		c.fam, c.mode = f[2], f[5]
		c.ops = []string{op}
		r, ok := c.call(op, 40*time.Second)
		if !ok {
			watchdogLog(fmt.Sprintf("no result within 40s for %q", op))
			c.kill()
			return vlib.Res{Impl: "child-died", Oracle: "FAIL sig=l3/new/harness-child-died"}
		}
		child = c
		return r
	default:
		if child == nil {
			return vlib.Res{Impl: "no-case", Oracle: "-"}
		}
		// one client query (deadline sysQueryTimeout) plus the packet-settling polls, twice for shadow
		// cases, twice again for the in-process retry
		limit := 4*(sysQueryTimeout+2*time.Second) + 3*time.Second
		child.ops = append(child.ops, op)
		r, ok := child.call(op, limit)
		if !ok {
			// hung or died: kill it, then replay the whole case once in a fresh child before flagging
			fam, mode, ops := child.fam, child.mode, child.ops
			watchdogLog(fmt.Sprintf("no result within %s for %q of case %q", limit, op, ops[0]))
			child.kill()
			child = nil
			if c, err := spawnChild(); err == nil {
				c.fam, c.mode, c.ops = fam, mode, ops
				good := true
				for i, o := range ops {
					t := limit
					if i == 0 {
						t = 40 * time.Second
					}
					if r, good = c.call(o, t); !good {
						break
					}
				}
				if good {
					child = c
					r.Tags += ",watchdog-retried"
					return r
				}
				c.kill()
			}
			reason := fam + "-" + mode
			if fam == "cname" && mode != "enforce" {
				reason = "cname-loop-unmetered"
			}
			return vlib.Res{Impl: "no-reply-in-time", Oracle: fmt.Sprintf("FAIL sig=l3/%s/not-within-query-timeout/%s the query did not come back within %s, twice; the resolving process was killed",
				f[1], reason, limit), Tags: "nt"}
		}
		// Oracles that attribute upstream packets to the query in whose window they arrive can be
		// fooled by a straggler of the previous query (a detached probe lives up to an exchange timeout
		// longer than its lookup). A real defect repeats; before such a verdict stands the whole case
		// is replayed once in a fresh child.
		if strings.HasPrefix(r.Oracle, "FAIL") && (strings.Contains(r.Oracle, "/sub-query-traffic-without-internal-debit") ||
			strings.Contains(r.Oracle, "/sub-queries-past-internal-budget") || strings.Contains(r.Oracle, "/upstream-packet-without-debit") ||
			strings.Contains(r.Oracle, "/failure-booked-against-healthy-authority")) {
			fam, mode, ops := child.fam, child.mode, child.ops
			watchdogLog(fmt.Sprintf("window-attribution verdict %q for %q of case %q: replaying the case", r.Oracle, op, ops[0]))
			child.kill()
			child = nil
			if c, err := spawnChild(); err == nil {
				c.fam, c.mode, c.ops = fam, mode, ops
				var r2 vlib.Res
				good := true
				for i, o := range ops {
					t := limit
					if i == 0 {
						t = 40 * time.Second
					}
					time.Sleep(20 * time.Millisecond)
					if r2, good = c.call(o, t); !good {
						break
					}
				}
				if good {
					child = c
					r2.Tags += ",attribution-retried"
					return r2
				}
				c.kill()
			}
			return r
		}
		return r
	}
}

func l3Local(f []string) vlib.Res {
	switch f[1] {
	case "new":
		return l3New(f)
	case "query":
		return l3Query(f)
	case "again":
		return l3Again(f)
	case "warm", "advance", "heal":
		return l3Misc(f)
	case "ask":
		return l3Ask(f)
	}
	return vlib.Res{Impl: "bad-op"}
}

// l3Serve is the child's loop: one op line in, one result line out.
func l3Serve() {
	vlib.Quiet()
	in := bufio.NewScanner(os.Stdin)
	in.Buffer(make([]byte, 1<<16), 1<<22)
	out := bufio.NewWriter(os.Stdout)
	clean := func(s string) string {
		return strings.ReplaceAll(strings.ReplaceAll(s, "\t", " "), "\n", " ")
	}
	for in.Scan() {
		f := strings.Fields(in.Text())
		var r vlib.Res
		func() {
			defer func() {
				if p := recover(); p != nil {
					r = vlib.Res{Impl: "panic", Oracle: "FAIL sig=panic " + clean(fmt.Sprint(p)), Tags: "panic"}
				}
			}()
			if len(f) >= 2 && f[0] == "l3" {
				r = l3Local(f)
			} else {
				r = vlib.Res{Impl: "bad-op"}
			}
		}()
		if r.Oracle == "" {
			r.Oracle = "-"
		}
		fmt.Fprintf(out, "%s\t%s\t%s\n", clean(r.Impl), clean(r.Oracle), clean(r.Tags))
		out.Flush()
	}
	curL3.close()
}
