//go:build verif

package main

// Function-level ops: the real RecursionWorkLedger / ResolutionAttemptGuard /
// policy-from-config / cacheableResolutionFailure / pipelineQueryer / cache
// response writer, driven by op lines and compared with the Lean model.

import (
	"context"
	"errors"
	"fmt"
	"net"
	"strconv"
	"strings"
	"sync"
	"sync/atomic"
	"time"

	"github.com/miekg/dns"
	"github.com/semihalev/sdns/config"
	"github.com/semihalev/sdns/internal/contextutil"
	"github.com/semihalev/sdns/internal/mock"
	"github.com/semihalev/sdns/internal/verif/vlib"
	"github.com/semihalev/sdns/middleware"
	"github.com/semihalev/sdns/middleware/cache"
	"github.com/semihalev/sdns/middleware/edns"
	"github.com/semihalev/sdns/middleware/failover"
	"github.com/semihalev/sdns/middleware/forwarder"
	"github.com/semihalev/sdns/middleware/resolver"
)

const nKinds = 8

var aggregateKind = [nKinds]bool{true, true, false, false, true, true, true, false}

func csvU32(s string) [nKinds]uint32 {
	var out [nKinds]uint32
	for i, f := range strings.Split(s, ",") {
		if i < nKinds {
			out[i] = uint32(vlib.AtoU64(f))
		}
	}
	return out
}

func u32csv(v [nKinds]uint32) string {
	p := make([]string, nKinds)
	for i, x := range v {
		p[i] = strconv.FormatUint(uint64(x), 10)
	}
	return strings.Join(p, ",")
}

func defaultsFromCode() [nKinds]uint32 {
	var c config.RecursionFirewallConfig
	c.Normalize()
	return [nKinds]uint32{c.MaxOutboundQueries, c.MaxInternalQueries, c.MaxDNSKEYCandidates, c.MaxRRsetSignatureChecks,
		c.MaxSignatureChecks, c.MaxDSDigests, c.MaxNSEC3Hashes, c.MaxConcurrentCrypto}
}

func fwConfig(mode string, raw [nKinds]uint32) config.RecursionFirewallConfig {
	if mode == "-" {
		mode = ""
	}
	return config.RecursionFirewallConfig{Mode: config.RecursionFirewallMode(mode),
		MaxOutboundQueries: raw[0], MaxInternalQueries: raw[1], MaxDNSKEYCandidates: raw[2], MaxRRsetSignatureChecks: raw[3],
		MaxSignatureChecks: raw[4], MaxDSDigests: raw[5], MaxNSEC3Hashes: raw[6], MaxConcurrentCrypto: raw[7]}
}

// configuredCaps is what the operator asked for: the raw value, or the documented default for
// a zero. Oracles judge granted work against THIS, not against whatever policy the code derived.
func configuredCaps(raw [nKinds]uint32) [nKinds]uint32 {
	d := defaultsFromCode()
	for i := range raw {
		if raw[i] == 0 {
			raw[i] = d[i]
		}
	}
	return raw
}

func policyCaps(p middleware.RecursionWorkPolicy) [nKinds]uint32 {
	return [nKinds]uint32{p.MaxOutboundQueries, p.MaxInternalQueries, p.MaxDNSKEYCandidates, p.MaxRRsetSignatureChecks,
		p.MaxSignatureChecks, p.MaxDSDigests, p.MaxNSEC3Hashes, p.MaxConcurrentCrypto}
}

func modeName(m middleware.RecursionWorkMode) string {
	switch m {
	case middleware.RecursionWorkOff:
		return "off"
	case middleware.RecursionWorkShadow:
		return "shadow"
	case middleware.RecursionWorkEnforce:
		return "enforce"
	}
	return "?"
}

func mustPolicy(mode string, raw [nKinds]uint32) (p middleware.RecursionWorkPolicy, ok bool) {
	defer func() {
		if recover() != nil {
			ok = false
		}
	}()
	return middleware.MustRecursionWorkPolicyFromConfig(fwConfig(mode, raw)), true
}

// resStr canonicalises a ledger API result.
func resStr(err error) string {
	if err == nil {
		return "ok"
	}
	var le *middleware.RecursionWorkLimitError
	if errors.As(err, &le) {
		return fmt.Sprintf("limit:%d:%d:%d", int(le.Kind), le.Limit, le.EDECode())
	}
	if errors.Is(err, context.Canceled) {
		return "canceled"
	}
	return "err"
}

// ---------------------------------------------------------------- ledger state

var (
	curPolicy  middleware.RecursionWorkPolicy
	curCfgCaps [nKinds]uint32 // configured caps of the current ledger case
	curLedger  *middleware.RecursionWorkLedger // nil when the policy is off (EnsureRecursionWork creates none)
	curCtx     context.Context
	releases   []func()
	refAccept  [nKinds]uint32 // reference: accepted aggregate debits
	refRejects int
	rejectedK  [nKinds]bool // a Debit of this kind was rejected in enforce mode
)

func ledgerNew(mode string, raw [nKinds]uint32) vlib.Res {
	p, ok := mustPolicy(mode, raw)
	if !ok {
		curLedger, curCtx = nil, nil
		return vlib.Res{Impl: "invalid", Oracle: "ok"}
	}
	curPolicy = p
	curCfgCaps = configuredCaps(raw)
	releases = nil
	refAccept = [nKinds]uint32{}
	rejectedK = [nKinds]bool{}
	refRejects = 0
	// the production path: EnsureRecursionWork on a context carrying a ResponseMeta
	ctx := middleware.WithResponseMeta(context.Background(), new(middleware.ResponseMeta))
	ctx, curLedger = middleware.EnsureRecursionWork(ctx, p)
	curCtx = ctx
	or := "ok"
	if (curLedger != nil) != p.Enabled() {
		or = "FAIL sig=ledger/new/ledger-presence-vs-mode"
	}
	// the property: a zero limit means "default", never unlimited
	for i, c := range policyCaps(p) {
		if c == 0 {
			or = fmt.Sprintf("FAIL sig=ledger/new/zero-cap kind=%d", i)
		}
		// the policy every pipeline and resolver is built from must grant what was configured
		if c > curCfgCaps[i] {
			or = fmt.Sprintf("FAIL sig=ledger/new/policy-grants-more-than-configured kind=%d configured=%d granted=%d", i, curCfgCaps[i], c)
		}
	}
	return vlib.Res{Impl: fmt.Sprintf("mode=%s caps=%s", modeName(p.Mode), u32csv(policyCaps(p))), Oracle: or}
}

func ledgerDebit(kind int, bestEffort bool) vlib.Res {
	ctx := curCtx
	if bestEffort {
		ctx = middleware.WithBestEffortRecursionWork(ctx)
	}
	// through the context API the resolver uses (DebitRecursionWork), which
	// also covers the nil-ledger (mode off) path
	err := middleware.DebitRecursionWork(ctx, middleware.RecursionWorkKind(kind))
	caps := curCfgCaps
	or := "ok"
	switch curPolicy.Mode {
	case middleware.RecursionWorkEnforce:
		if err == nil {
			refAccept[kind]++
			if refAccept[kind] > caps[kind] {
				or = fmt.Sprintf("FAIL sig=ledger/debit/accepted-past-cap kind=%d accepted=%d cap=%d", kind, refAccept[kind], caps[kind])
			}
			if rejectedK[kind] {
				or = fmt.Sprintf("FAIL sig=ledger/debit/accepted-after-rejection kind=%d", kind)
			}
		} else {
			rejectedK[kind] = true
			if refAccept[kind] < caps[kind] {
				or = fmt.Sprintf("FAIL sig=ledger/debit/rejected-below-cap kind=%d accepted=%d cap=%d", kind, refAccept[kind], caps[kind])
			}
			var le *middleware.RecursionWorkLimitError
			if !errors.As(err, &le) || !errors.Is(err, middleware.ErrRecursionWorkLimit) {
				or = "FAIL sig=ledger/debit/rejection-not-typed"
			}
		}
	default:
		if err != nil {
			or = fmt.Sprintf("FAIL sig=ledger/debit/%s-mode-rejected kind=%d", modeName(curPolicy.Mode), kind)
		}
	}
	tags := ""
	if curPolicy.Mode == middleware.RecursionWorkEnforce && refAccept[kind]+2 >= caps[kind] {
		tags = "nt"
	}
	return vlib.Res{Impl: resStr(err), Oracle: or, Tags: tags}
}

func ledgerEnf() vlib.Res {
	err := middleware.RecursionWorkEnforcementError(curCtx)
	or := "ok"
	if curPolicy.Mode != middleware.RecursionWorkEnforce && err != nil {
		or = "FAIL sig=ledger/enf/non-enforce-mode-reports-error"
	}
	return vlib.Res{Impl: strings.Replace(resStr(err), "ok", "nil", 1), Oracle: or, Tags: "nt"}
}

func ledgerSnap() vlib.Res {
	if curLedger == nil {
		return vlib.Res{Impl: "none", Oracle: "ok"}
	}
	s := curLedger.Snapshot()
	ex := []bool{s.OutboundExhausted, s.InternalExhausted, s.DNSKEYCandidatesExhausted, s.RRsetSignatureChecksExhausted,
		s.SignatureChecksExhausted, s.DSDigestsExhausted, s.NSEC3HashesExhausted, s.ConcurrentCryptoExhausted}
	var sb strings.Builder
	for _, b := range ex {
		if b {
			sb.WriteByte('1')
		} else {
			sb.WriteByte('0')
		}
	}
	or := "ok"
	if curPolicy.Mode == middleware.RecursionWorkEnforce {
		got := [nKinds]uint32{s.OutboundQueries, s.InternalQueries, 0, 0, s.SignatureChecks, s.DSDigests, s.NSEC3Hashes, 0}
		caps := curCfgCaps
		for i := range got {
			if got[i] > caps[i] {
				or = fmt.Sprintf("FAIL sig=ledger/snap/counter-past-cap kind=%d", i)
			}
			if aggregateKind[i] && got[i] != refAccept[i] {
				or = fmt.Sprintf("FAIL sig=ledger/snap/counter-differs-from-accepted kind=%d ctr=%d accepted=%d", i, got[i], refAccept[i])
			}
		}
	}
	return vlib.Res{Impl: fmt.Sprintf("ctr=%d,%d,%d,%d,%d exh=%s first=%d refs=%d pub=%s", s.OutboundQueries, s.InternalQueries, s.SignatureChecks, s.DSDigests, s.NSEC3Hashes,
		sb.String(), middleware.VerifC12First(curLedger), middleware.VerifC12Refs(curLedger), vlib.B(middleware.VerifC12Published(curLedger))), Oracle: or}
}

// storm: real goroutines debiting one fresh ledger concurrently (oracle:
// accepted ≤ cap, exactly min(total, cap) accepted, counter = accepted).
func ledgerStorm(g, per, kind, rounds int) vlib.Res {
	caps := curCfgCaps
	total := uint32(g * per)
	want := total
	if curPolicy.Mode == middleware.RecursionWorkEnforce && caps[kind] < total {
		want = caps[kind]
	}
	or := "ok"
	var lastAcc, lastUsed uint32
	for r := 0; r < rounds; r++ {
		l := middleware.NewRecursionWorkLedger(curPolicy)
		var acc atomic.Uint32
		var start atomic.Bool
		var wg sync.WaitGroup
		var ready sync.WaitGroup
		for i := 0; i < g; i++ {
			wg.Add(1)
			ready.Add(1)
			go func() {
				defer wg.Done()
				ready.Done()
				for !start.Load() {
				}
				for j := 0; j < per; j++ {
					if l.Debit(middleware.RecursionWorkKind(kind)) == nil {
						acc.Add(1)
					}
				}
			}()
		}
		ready.Wait()
		start.Store(true)
		wg.Wait()
		s := l.Snapshot()
		used := [nKinds]uint32{s.OutboundQueries, s.InternalQueries, 0, 0, s.SignatureChecks, s.DSDigests, s.NSEC3Hashes, 0}[kind]
		lastAcc, lastUsed = acc.Load(), used
		if curPolicy.Mode == middleware.RecursionWorkEnforce {
			if acc.Load() > caps[kind] {
				or = fmt.Sprintf("FAIL sig=ledger/storm/accepted-past-cap accepted=%d cap=%d", acc.Load(), caps[kind])
				break
			}
			if used > caps[kind] {
				or = fmt.Sprintf("FAIL sig=ledger/storm/counter-past-cap counter=%d cap=%d", used, caps[kind])
				break
			}
		}
		if acc.Load() != want {
			or = fmt.Sprintf("FAIL sig=ledger/storm/accepted-count accepted=%d want=%d", acc.Load(), want)
			break
		}
		wantUsed := want
		if !curPolicy.Enabled() {
			wantUsed = 0 // nothing is accounted when the firewall is off
		}
		if used != wantUsed {
			or = fmt.Sprintf("FAIL sig=ledger/storm/counter-differs counter=%d want=%d", used, wantUsed)
			break
		}
		if curPolicy.Mode == middleware.RecursionWorkEnforce && total > caps[kind] {
			if l.EnforcementError() == nil {
				or = "FAIL sig=ledger/storm/rejection-not-latched"
				break
			}
		}
	}
	return vlib.Res{Impl: fmt.Sprintf("accepted=%d used=%d", lastAcc, lastUsed), Oracle: or, Tags: "nt"}
}

// ---------------------------------------------------------------- attempt guard

var (
	curGuard   *middleware.ResolutionAttemptGuard
	refGuard   map[string]int
	guardLimit int
)

func guardBegin(key, ep, name string, qtype, qclass uint16, transport string) vlib.Res {
	q := dns.Question{Name: string(vlib.UnHex(name)), Qtype: qtype, Qclass: qclass}
	err := curGuard.Begin(q, string(vlib.UnHex(ep)), string(vlib.UnHex(transport)))
	want := refGuard[key] < 3 // RFC 9520 section 3.1: at most three attempts per tuple
	if want {
		refGuard[key]++
	}
	or := "ok"
	switch {
	case err == nil && !want:
		or = fmt.Sprintf("FAIL sig=guard/begin/attempt-past-limit key=%s n=%d", key, refGuard[key]+1)
	case err != nil && want:
		or = fmt.Sprintf("FAIL sig=guard/begin/rejected-below-limit key=%s n=%d", key, refGuard[key])
	case err != nil && !errors.Is(err, middleware.ErrResolutionAttemptLimit):
		or = "FAIL sig=guard/begin/rejection-not-typed"
	case err != nil && !middleware.IsRequestLocalResolutionError(err):
		or = "FAIL sig=guard/begin/rejection-not-request-local"
	}
	impl := "ok"
	if err != nil {
		impl = "limit"
	}
	tags := ""
	if refGuard[key] >= 2 {
		tags = "nt"
	}
	return vlib.Res{Impl: impl, Oracle: or, Tags: tags}
}

// ---------------------------------------------------------------- failure classification

var errOther = errors.New("upstream said no")

func failClassify(ctxKind string, be bool, mode, latch, mark string) vlib.Res {
	// Through the real cache writer, not through an accessor: a pipeline edns → cache → stub; the stub
	// creates the condition (spends the budget, marks its reply, lets the context end) and writes
	// SERVFAIL; a second client then asks the same question. "Cacheable" = the second client is
	// answered from the shared failure cache without the stub being reached.
	raw := [nKinds]uint32{1, 1, 1, 1, 1, 1, 1, 1}
	if r := pipeNew(mode, raw); r.Impl == "invalid" {
		return r
	}
	mp := curPipe
	st := mp.st
	overBudget := false
	st.script = func(ctx context.Context, msg *dns.Msg) {
		if latch != "none" {
			kind := middleware.RecursionWorkKind(vlib.Atoi(latch[4:]))
			hard := strings.HasPrefix(latch, "hard")
			dctx := ctx
			if !hard {
				dctx = middleware.WithBestEffortRecursionWork(ctx)
			}
			for i := 0; i < 3; i++ {
				var err error
				if aggregateKind[int(kind)] {
					err = middleware.DebitRecursionWork(dctx, kind)
				} else {
					err = middleware.CheckRecursionWorkLocalLimit(dctx, kind, uint32(i))
				}
				if err != nil && hard {
					overBudget = true
				}
			}
		}
		var merr error
		switch mark {
		case "work":
			merr = &middleware.RecursionWorkLimitError{Kind: middleware.RecursionWorkOutboundQuery, Limit: 1}
		case "attempt":
			merr = &middleware.ResolutionAttemptLimitError{Question: msg.Question[0], Endpoint: "192.0.2.1:53", Transport: "udp"}
		case "probe":
			merr = fmt.Errorf("wrapped: %w", middleware.ErrFailureProbeLimit)
		case "maxrec":
			merr = middleware.ErrMaxRecursion
		case "canceled":
			merr = context.Canceled
		case "deadline":
			merr = context.DeadlineExceeded
		case "other":
			merr = errOther
		}
		if merr != nil {
			ctx, _ = middleware.EnsureResolutionAttemptGuard(ctx)
			middleware.MarkRequestLocalFailureResponse(ctx, msg, merr)
		}
		switch ctxKind {
		case "canceled":
			st.cancel()
		case "deadline":
			<-ctx.Done()
		}
	}
	defer func() { st.script = nil }()
	name := "x.classify.test."
	req := new(dns.Msg)
	req.SetQuestion(name, dns.TypeA)
	req.SetEdns0(1232, false)
	base := context.Background()
	if be {
		base = middleware.WithBestEffortRecursionWork(base)
	}
	var ctx context.Context
	var cancel context.CancelFunc
	if ctxKind == "deadline" {
		ctx, cancel = context.WithTimeout(base, 3*time.Millisecond)
	} else {
		ctx, cancel = context.WithTimeout(base, 5*time.Second)
	}
	st.cancel = cancel
	w := mock.NewWriter("udp", "10.3.3.3:3333")
	ch := mp.p.NewChain()
	ch.Reset(w, req)
	ch.Next(ctx)
	mp.p.PutChain(ch)
	cancel()
	st.script = nil
	before := st.calls.Load()
	m2 := mp.run(name, true, false, "10.4.4.4:4444")
	got := st.calls.Load() == before && m2 != nil && m2.Rcode == dns.RcodeServerFailure
	// property: over-budget, cancelled, best-effort and request-local failures are never cacheable
	mustNot := ctxKind != "live" || be || overBudget || (mark != "none" && mark != "other")
	or := "ok"
	if got && mustNot {
		or = fmt.Sprintf("FAIL sig=fail/classify/request-local-failure-cacheable ctx=%s be=%v overbudget=%v mark=%s", ctxKind, be, overBudget, mark)
	}
	return vlib.Res{Impl: vlib.B(got), Oracle: or, Tags: "nt"}
}

// ---------------------------------------------------------------- mini pipeline: edns → cache → stub

// stub stands where the resolver stands: it spends work against the request
// tree's ledger the way the resolver does (DebitRecursionWork through the
// context) and then answers.
type stub struct {
	q       middleware.Queryer
	calls   atomic.Int32
	kind    int // kind to debit
	debits  int
	nest    bool // recurse through the queryer
	maxSeen atomic.Int32
	lastErr atomic.Value
	lastCtx context.Context // the context the stub was served with (kept past the request on purpose)
	script  func(ctx context.Context, reply *dns.Msg) // fail classify: what happens before the SERVFAIL is written
	cancel  context.CancelFunc
}

func (s *stub) Name() string                   { return "stub" }
func (s *stub) SetQueryer(q middleware.Queryer) { s.q = q }

func (s *stub) ServeDNS(ctx context.Context, ch *middleware.Chain) {
	s.calls.Add(1)
	s.lastCtx = ctx
	req := ch.Request.Msg()
	if s.nest {
		// "l<k>.nest." asks for "l<k+1>.nest." through the internal sub-pipeline
		lbl := strings.SplitN(req.Question[0].Name, ".", 2)[0]
		k, _ := strconv.Atoi(strings.TrimPrefix(lbl, "l"))
		if int32(k) > s.maxSeen.Load() {
			s.maxSeen.Store(int32(k))
		}
		sub := new(dns.Msg)
		sub.SetQuestion(fmt.Sprintf("l%d.nest.", k+1), dns.TypeA)
		_, err := s.q.Query(ctx, sub)
		if err != nil && s.lastErr.Load() == nil {
			s.lastErr.Store(err)
		}
		m := new(dns.Msg)
		m.SetRcode(req, dns.RcodeServerFailure)
		_ = ch.Writer.WriteMsg(m)
		ch.Cancel()
		return
	}
	if s.script != nil {
		m := new(dns.Msg)
		m.SetRcode(req, dns.RcodeServerFailure)
		s.script(ctx, m)
		_ = ch.Writer.WriteMsg(m)
		ch.Cancel()
		return
	}
	if strings.HasSuffix(req.Question[0].Name, ".rho.test.") {
		// r<j>-<id>-<cycle>.rho.test.: node j > 0 is an alias of node j-1, node 0 of node cycle-1
		// (a tail leading into a loop that never comes back to the name that was asked); bare CNAMEs only
		var j, id, cyc int
		fmt.Sscanf(req.Question[0].Name, "r%d-%d-%d.rho.test.", &j, &id, &cyc)
		next := j - 1
		if j == 0 {
			next = cyc - 1
		}
		m := new(dns.Msg)
		m.SetReply(req)
		m.Answer = []dns.RR{&dns.CNAME{Hdr: dns.RR_Header{Name: req.Question[0].Name, Rrtype: dns.TypeCNAME, Class: dns.ClassINET, Ttl: 300},
			Target: fmt.Sprintf("r%d-%d-%d.rho.test.", next, id, cyc)}}
		_ = ch.Writer.WriteMsg(m)
		ch.Cancel()
		return
	}
	if strings.HasSuffix(req.Question[0].Name, ".chain.test.") {
		// c<k>-<id>.chain.test. is an alias of c<k-1>-<id>.chain.test.; c0-<id> has the address.
		// The answer is always the one record: following it is left to the cache.
		var k, id int
		fmt.Sscanf(req.Question[0].Name, "c%d-%d.chain.test.", &k, &id)
		m := new(dns.Msg)
		m.SetReply(req)
		if k > 0 {
			m.Answer = []dns.RR{&dns.CNAME{Hdr: dns.RR_Header{Name: req.Question[0].Name, Rrtype: dns.TypeCNAME, Class: dns.ClassINET, Ttl: 300},
				Target: fmt.Sprintf("c%d-%d.chain.test.", k-1, id)}}
		} else {
			m.Answer = []dns.RR{&dns.A{Hdr: dns.RR_Header{Name: req.Question[0].Name, Rrtype: dns.TypeA, Class: dns.ClassINET, Ttl: 300}, A: net.IPv4(192, 0, 2, 55)}}
		}
		_ = ch.Writer.WriteMsg(m)
		ch.Cancel()
		return
	}
	if strings.HasPrefix(req.Question[0].Name, "a") && strings.HasSuffix(req.Question[0].Name, ".alias.test.") {
		// the resolver's answer is the alias alone; its target is left to the cache's own chase
		m := new(dns.Msg)
		m.SetReply(req)
		m.Answer = []dns.RR{&dns.CNAME{Hdr: dns.RR_Header{Name: req.Question[0].Name, Rrtype: dns.TypeCNAME, Class: dns.ClassINET, Ttl: 60},
			Target: "t" + req.Question[0].Name[1:]}}
		_ = ch.Writer.WriteMsg(m)
		ch.Cancel()
		return
	}
	for i := 0; i < s.debits; i++ {
		if aggregateKind[s.kind] {
			_ = middleware.DebitRecursionWork(ctx, middleware.RecursionWorkKind(s.kind))
		} else {
			_ = middleware.CheckRecursionWorkLocalLimit(ctx, middleware.RecursionWorkKind(s.kind), uint32(i))
		}
	}
	m := new(dns.Msg)
	m.SetRcode(req, dns.RcodeServerFailure)
	_ = ch.Writer.WriteMsg(m)
	ch.Cancel()
}

// fallbackSrv is the upstream the failover middleware turns to: it answers every question
// NOERROR with one A record and counts what it was asked.
type fallbackSrv struct {
	pc   net.PacketConn
	hits atomic.Int32
}

var theFallback *fallbackSrv

func fallback() *fallbackSrv {
	if theFallback != nil {
		return theFallback
	}
	pc, err := net.ListenPacket("udp", "127.0.0.1:0")
	if err != nil {
		panic(err)
	}
	fs := &fallbackSrv{pc: pc}
	go func() {
		buf := make([]byte, 4096)
		for {
			n, addr, err := pc.ReadFrom(buf)
			if err != nil {
				return
			}
			req := new(dns.Msg)
			if req.Unpack(buf[:n]) != nil || len(req.Question) == 0 {
				continue
			}
			fs.hits.Add(1)
			m := new(dns.Msg)
			m.SetReply(req)
			m.RecursionAvailable = true
			var ck, cid int
			if n, _ := fmt.Sscanf(req.Question[0].Name, "c%d-%d.chain.test.", &ck, &cid); n == 2 && ck > 0 {
				// an upstream that answers an alias with the alias alone
				m.Answer = []dns.RR{&dns.CNAME{Hdr: dns.RR_Header{Name: req.Question[0].Name, Rrtype: dns.TypeCNAME, Class: dns.ClassINET, Ttl: 300},
					Target: fmt.Sprintf("c%d-%d.chain.test.", ck-1, cid)}}
				if o := req.IsEdns0(); o != nil {
					m.SetEdns0(1232, o.Do())
				}
				if b, err := m.Pack(); err == nil {
					_, _ = pc.WriteTo(b, addr)
				}
				continue
			}
			m.Answer = []dns.RR{&dns.A{Hdr: dns.RR_Header{Name: req.Question[0].Name, Rrtype: dns.TypeA, Class: dns.ClassINET, Ttl: 60}, A: net.IPv4(192, 0, 2, 99)}}
			if o := req.IsEdns0(); o != nil {
				m.SetEdns0(1232, o.Do())
			}
			if b, err := m.Pack(); err == nil {
				_, _ = pc.WriteTo(b, addr)
			}
		}
	}()
	theFallback = fs
	return fs
}

// flatQueryer is an internal-query executor that does NOT chase aliases itself (the Queryer contract
// does not promise it: the prefetch sub-pipeline, for one, runs without the cache): every sub-query is
// answered with the one record the name owns — a bare CNAME for the rho / chain names, the address at
// the end of a chain.
type flatQueryer struct{ calls atomic.Int32 }

func (q *flatQueryer) Query(ctx context.Context, req *dns.Msg) (*dns.Msg, error) {
	q.calls.Add(1)
	if q.calls.Load() > 5000 {
		return nil, errors.New("c12: runaway alias chase")
	}
	name := req.Question[0].Name
	m := new(dns.Msg)
	m.SetReply(req)
	cname := func(target string) {
		m.Answer = []dns.RR{&dns.CNAME{Hdr: dns.RR_Header{Name: name, Rrtype: dns.TypeCNAME, Class: dns.ClassINET, Ttl: 300}, Target: target}}
	}
	var j, id, cyc int
	switch {
	case strings.HasSuffix(name, ".rho.test."):
		fmt.Sscanf(name, "r%d-%d-%d.rho.test.", &j, &id, &cyc)
		if j == 0 {
			cname(fmt.Sprintf("r%d-%d-%d.rho.test.", cyc-1, id, cyc))
		} else {
			cname(fmt.Sprintf("r%d-%d-%d.rho.test.", j-1, id, cyc))
		}
	case strings.HasSuffix(name, ".chain.test."):
		fmt.Sscanf(name, "c%d-%d.chain.test.", &j, &id)
		if j > 0 {
			cname(fmt.Sprintf("c%d-%d.chain.test.", j-1, id))
		} else {
			m.Answer = []dns.RR{&dns.A{Hdr: dns.RR_Header{Name: name, Rrtype: dns.TypeA, Class: dns.ClassINET, Ttl: 300}, A: net.IPv4(192, 0, 2, 56)}}
		}
	}
	return m, nil
}

type miniPipe struct {
	flat   *flatQueryer // set in "flatq" mode: the cache's internal queries go to it
	p      *middleware.Pipeline
	st     *stub
	policy middleware.RecursionWorkPolicy
	failed map[string]bool // reference: names whose failure may legitimately be cached
	cfg    [nKinds]uint32  // configured caps
	fwd    bool            // forwarder mode: edns → cache → forwarder → in-process upstream (no stub)
	fo     bool            // failover middleware with one fallback server between cache and stub
	good   map[string]bool // reference: names a fallback answer was legitimately obtained for
}

var curPipe *miniPipe

func pipeNew(mode string, raw [nKinds]uint32, opts ...string) vlib.Res {
	fo := len(opts) > 0 && opts[0] == "failover"
	fwd := len(opts) > 0 && opts[0] == "forwarder"
	flatq := len(opts) > 0 && opts[0] == "flatq"
	if _, ok := mustPolicy(mode, raw); !ok {
		curPipe = nil
		return vlib.Res{Impl: "invalid", Oracle: "ok"}
	}
	cfg := new(config.Config)
	cfg.RecursionFirewall = fwConfig(mode, raw)
	cfg.CacheSize = 1024
	cfg.Expire = 600
	st := &stub{}
	reg := middleware.NewRegistry()
	reg.Register("edns", func(c *config.Config) middleware.Handler { return edns.New(c) })
	var theCache *cache.Cache
	reg.Register("cache", func(c *config.Config) middleware.Handler { theCache = cache.New(c); return theCache })
	if fo {
		cfg.FallbackServers = []string{fallback().pc.LocalAddr().String()}
		reg.Register("failover", func(c *config.Config) middleware.Handler { return failover.New(c) })
	}
	if fwd {
		cfg.ForwarderServers = []string{fallback().pc.LocalAddr().String()}
		cfg.Timeout.Duration = 2 * time.Second
		cfg.QueryTimeout.Duration = 5 * time.Second
		reg.Register("forwarder", func(c *config.Config) middleware.Handler { return forwarder.New(c) })
	} else {
		reg.Register("stub", func(c *config.Config) middleware.Handler { return st })
	}
	p := reg.Build(cfg)
	middleware.VerifL3AutoWire(p)
	pol := middleware.MustRecursionWorkPolicyFromConfig(cfg.RecursionFirewall)
	var flat *flatQueryer
	if flatq && theCache != nil {
		flat = &flatQueryer{}
		theCache.SetQueryer(flat)
	}
	curPipe = &miniPipe{flat: flat, p: p, st: st, policy: pol, failed: map[string]bool{}, cfg: configuredCaps(raw), fo: fo, fwd: fwd, good: map[string]bool{}}
	return vlib.Res{Impl: fmt.Sprintf("mode=%s caps=%s", modeName(pol.Mode), u32csv(policyCaps(pol))), Oracle: "ok"}
}

func (mp *miniPipe) run(name string, ednsOn, do bool, client string) *dns.Msg {
	req := new(dns.Msg)
	req.SetQuestion(name, dns.TypeA)
	if ednsOn {
		req.SetEdns0(1232, do)
	}
	if strings.HasPrefix(client, "w:") {
		// a wire-born request, as a UDP/TCP/DoT listener's strict path serves it: Chain.ResetWire on the
		// raw packet; the first handler that needs the decoded message moves the request onto its own
		// detached context (ResponseMeta.detachedCopy, a fresh lazy deadline and ledger owner)
		out, _ := mp.serveWire(req, strings.TrimPrefix(client, "w:"))
		return out
	}
	w := mock.NewWriter("udp", client)
	ch := mp.p.NewChain()
	ch.Reset(w, req)
	// the server's own request context: a lazy deadline carrier, so the outer Chain owns the ledger's
	// lifecycle through the request-lifetime pin (pending → ledger → finished / closed)
	lz := contextutil.WithLazyTimeout(context.Background(), 5*time.Second)
	defer lz.Cancel()
	ch.Next(lz)
	var out *dns.Msg
	if w.Written() {
		out = w.Msg().Copy()
	}
	mp.p.PutChain(ch)
	return out
}

func (mp *miniPipe) serveWire(req *dns.Msg, client string) (*dns.Msg, bool) {
	raw, err := req.Pack()
	if err != nil {
		return nil, false
	}
	wr := middleware.VerifC12WireRequest(raw)
	if wr == nil {
		return nil, false
	}
	w := mock.NewWriter("udp", client)
	ch := mp.p.NewChain()
	ch.ResetWire(w, wr)
	carrier, cancel := context.WithTimeout(context.Background(), 5*time.Second)
	defer cancel()
	ch.Next(carrier)
	ch.Finish()
	var out *dns.Msg
	if w.Written() {
		out = w.Msg().Copy()
	}
	mp.p.PutChain(ch)
	return out, true
}

func pipeQuery(nameID int, ednsOn, do bool, client string, kind, ndebits int) vlib.Res {
	mp := curPipe
	name := fmt.Sprintf("n%d.fail.test.", nameID)
	mp.st.kind, mp.st.debits, mp.st.nest = kind, ndebits, false
	before := mp.st.calls.Load()
	var fbBefore int32
	if mp.fo {
		fbBefore = fallback().hits.Load()
	}
	m := mp.run(name, ednsOn, do, client)
	reached := mp.st.calls.Load() != before
	caps := mp.cfg
	over := mp.policy.Mode == middleware.RecursionWorkEnforce && uint32(ndebits) > caps[kind]
	or := "ok"
	code, _, has := edeOf(m)
	if mp.fo {
		asked := fallback().hits.Load() != fbBefore
		// the fallback attempt is a transport attempt of the same tree: it needs one more outbound unit
		usedOut := uint32(0)
		if kind == 0 {
			usedOut = uint32(ndebits)
		}
		if !over && mp.policy.Mode == middleware.RecursionWorkEnforce && usedOut+1 > caps[0] {
			over = true
		}
		switch {
		case m == nil:
			or = "FAIL sig=pipe/query/no-reply"
		case reached && over && asked:
			// the tree is out of budget (whichever budget): no further upstream work, fallback included
			or = fmt.Sprintf("FAIL sig=pipe/query/fallback-queried-after-budget-exhausted kind=%d", kind)
		case reached && over && m.Rcode != dns.RcodeServerFailure:
			or = fmt.Sprintf("FAIL sig=pipe/query/over-budget-reply-not-servfail rcode=%d kind=%d", m.Rcode, kind)
		case reached && over && ednsOn && !has:
			or = "FAIL sig=pipe/query/over-budget-reply-without-ede"
		case !reached && m.Rcode == dns.RcodeServerFailure && !mp.failed[name]:
			or = "FAIL sig=pipe/query/budget-failure-served-from-failure-cache"
		case !reached && m.Rcode == dns.RcodeSuccess && !mp.good[name]:
			or = "FAIL sig=pipe/query/answer-from-nowhere"
		}
		if reached && !over && m != nil && m.Rcode == dns.RcodeSuccess {
			mp.good[name] = true
		}
		ede := "-"
		if has {
			ede = strconv.Itoa(code)
		}
		rc := -1
		if m != nil {
			rc = m.Rcode
		}
		return vlib.Res{Impl: fmt.Sprintf("rcode=%d ede=%s stub=%s fb=%s", rc, ede, vlib.B(reached), vlib.B(asked)), Oracle: or, Tags: "nt,failover"}
	}
	switch {
	case m == nil:
		or = "FAIL sig=pipe/query/no-reply"
	case m.Rcode != dns.RcodeServerFailure:
		or = fmt.Sprintf("FAIL sig=pipe/query/rcode rcode=%d", m.Rcode)
	case !reached && !mp.failed[name]:
		// answered from a cached failure although no cacheable failure of this name was ever produced
		or = "FAIL sig=pipe/query/budget-failure-served-from-failure-cache"
	case reached && over && ednsOn && !has:
		or = "FAIL sig=pipe/query/over-budget-reply-without-ede"
	case reached && over && !ednsOn && m.IsEdns0() != nil:
		or = "FAIL sig=pipe/query/opt-in-reply-to-non-edns-client"
	case reached && over && ednsOn && ((kind >= 2) != (code == int(dns.ExtendedErrorCodeDNSSECIndeterminate))):
		or = fmt.Sprintf("FAIL sig=pipe/query/over-budget-ede-code kind=%d code=%d", kind, code)
	}
	if reached && !over {
		mp.failed[name] = true
	}
	ede := "-"
	if has {
		ede = strconv.Itoa(code)
	}
	rc := -1
	if m != nil {
		rc = m.Rcode
	}
	return vlib.Res{Impl: fmt.Sprintf("rcode=%d ede=%s stub=%s", rc, ede, vlib.B(reached)), Oracle: or, Tags: "nt"}
}

// pipeAlias: the stub answers a<id>.alias.test. with a bare CNAME to t<id>.alias.test.; resolving the
// target (inside the cache's own synchronous alias chase) spends ndebits of kind and fails.
func pipeAlias(id int, ednsOn bool, client string, kind, ndebits int) vlib.Res {
	mp := curPipe
	name := fmt.Sprintf("a%d.alias.test.", id)
	mp.st.kind, mp.st.debits, mp.st.nest = kind, ndebits, false
	before := mp.st.calls.Load()
	m := mp.run(name, ednsOn, false, client)
	calls := int(mp.st.calls.Load() - before)
	spent := uint32(ndebits)
	if kind == 1 {
		spent++ // the chase's own sub-query is an internal query too
	}
	over := mp.policy.Mode == middleware.RecursionWorkEnforce && spent > mp.cfg[kind]
	or := "ok"
	code, _, has := edeOf(m)
	switch {
	case m == nil:
		or = "FAIL sig=pipe/alias/no-reply"
	case m.Rcode != dns.RcodeServerFailure:
		or = fmt.Sprintf("FAIL sig=pipe/alias/rcode rcode=%d", m.Rcode)
	case calls == 0 && !mp.failed[name]:
		// served from the shared failure cache although the only failure this name ever had was the budget's
		or = "FAIL sig=pipe/alias/budget-failure-of-alias-chase-served-from-failure-cache"
	case calls > 0 && over && ednsOn && !has:
		or = "FAIL sig=pipe/alias/over-budget-reply-without-ede"
	case calls > 0 && over && !ednsOn && m.IsEdns0() != nil:
		or = "FAIL sig=pipe/alias/opt-in-reply-to-non-edns-client"
	}
	if calls > 0 && !over {
		mp.failed[name] = true
	}
	ede := "-"
	if has {
		ede = strconv.Itoa(code)
	}
	rc := -1
	if m != nil {
		rc = m.Rcode
	}
	return vlib.Res{Impl: fmt.Sprintf("rcode=%d ede=%s stub=%d", rc, ede, calls), Oracle: or, Tags: "nt"}
}

// pipeChain: an alias chain of `length` names, every answer a bare CNAME (the address only at the end),
// so every hop is one internal sub-query of the cache's alias chase. warm=true runs the query under a
// harness-owned ledger with generous caps (it only fills the cache); warm=false is the client query
// under the pipeline's own policy: `length` internal sub-queries are needed, cached or not.
func pipeChain(id, length int, ednsOn, warm bool, client string) vlib.Res {
	mp := curPipe
	name := fmt.Sprintf("c%d-%d.chain.test.", length, id)
	req := new(dns.Msg)
	req.SetQuestion(name, dns.TypeA)
	if ednsOn {
		req.SetEdns0(1232, false)
	}
	wire := strings.HasPrefix(client, "w:") && !warm
	client = strings.TrimPrefix(client, "w:")
	w := mock.NewWriter("udp", client)
	ch := mp.p.NewChain()
	ch.Reset(w, req)
	// the client query runs on the server's own request context (lazy deadline carrier: the ledger is
	// still "pending" when a cache hit starts the first recursive work); the warm-up owns its ledger
	var ctx context.Context
	if warm {
		c, cancel := context.WithTimeout(context.Background(), 5*time.Second)
		defer cancel()
		ctx = c
	} else {
		lz := contextutil.WithLazyTimeout(context.Background(), 5*time.Second)
		defer lz.Cancel()
		ctx = lz
	}
	if warm {
		gen := mp.policy
		gen.MaxOutboundQueries, gen.MaxInternalQueries = 1000, 1000
		ctx = middleware.WithResponseMeta(ctx, new(middleware.ResponseMeta))
		ctx, _ = middleware.EnsureRecursionWork(ctx, gen)
	}
	before := mp.st.calls.Load()
	upBefore := fallback().hits.Load()
	var m *dns.Msg
	if wire {
		mp.p.PutChain(ch)
		m, _ = mp.serveWire(req, client)
	} else {
		ch.Next(ctx)
		if w.Written() {
			m = w.Msg().Copy()
		}
		mp.p.PutChain(ch)
	}
	calls := int(mp.st.calls.Load() - before)
	if warm {
		return vlib.Res{Impl: "warmed", Oracle: "-"}
	}
	if mp.fwd {
		// forwarder mode: every hop is one upstream query of the same request tree
		up := int(fallback().hits.Load() - upBefore)
		enforce := mp.policy.Mode == middleware.RecursionWorkEnforce
		over := enforce && (uint32(length) > mp.cfg[1] || uint32(length+1) > mp.cfg[0])
		or := "ok"
		code, _, has := edeOf(m)
		switch {
		case m == nil:
			or = "FAIL sig=pipe/chain/no-reply"
		case enforce && uint32(up) > mp.cfg[0]:
			or = fmt.Sprintf("FAIL sig=pipe/chain/forwarded-queries-past-transport-budget upstream-queries=%d budget=%d hops=%d", up, mp.cfg[0], length)
		case over && m.Rcode != dns.RcodeServerFailure:
			or = fmt.Sprintf("FAIL sig=pipe/chain/over-budget-reply-not-servfail rcode=%d", m.Rcode)
		case over && ednsOn && !has:
			or = "FAIL sig=pipe/chain/over-budget-reply-without-ede"
		case !over && (m.Rcode != dns.RcodeSuccess || len(m.Answer) != length+1):
			or = fmt.Sprintf("FAIL sig=pipe/chain/within-budget-chain-not-answered rcode=%d an=%d", m.Rcode, len(m.Answer))
		}
		ede := "-"
		if has {
			ede = strconv.Itoa(code)
		}
		return vlib.Res{Impl: fmt.Sprintf("rcode=%d an=%d ede=%s up=%d", m.Rcode, len(m.Answer), ede, up), Oracle: or, Tags: "nt,chain,forwarder"}
	}
	over := mp.policy.Mode == middleware.RecursionWorkEnforce && uint32(length) > mp.cfg[1]
	or := "ok"
	code, _, has := edeOf(m)
	switch {
	case m == nil:
		or = "FAIL sig=pipe/chain/no-reply"
	case over && m.Rcode != dns.RcodeServerFailure:
		or = fmt.Sprintf("FAIL sig=pipe/chain/over-budget-reply-not-servfail rcode=%d", m.Rcode)
	case over && ednsOn && !has:
		or = fmt.Sprintf("FAIL sig=pipe/chain/over-budget-reply-without-ede cached-hops=%d opt=%v", length+1-calls, m.IsEdns0() != nil)
	case over && !ednsOn && m.IsEdns0() != nil:
		or = "FAIL sig=pipe/chain/opt-in-reply-to-non-edns-client"
	case !over && (m.Rcode != dns.RcodeSuccess || len(m.Answer) != length+1):
		or = fmt.Sprintf("FAIL sig=pipe/chain/within-budget-chain-not-answered rcode=%d an=%d", m.Rcode, len(m.Answer))
	}
	ede := "-"
	if has {
		ede = strconv.Itoa(code)
	}
	rc, an := -1, 0
	if m != nil {
		rc, an = m.Rcode, len(m.Answer)
	}
	return vlib.Res{Impl: fmt.Sprintf("rcode=%d an=%d ede=%s", rc, an, ede), Oracle: or, Tags: "nt,chain"}
}

// pipeLate: work that outlives its request. The stub spends `during` units of kind while the request
// runs and keeps its context; after the outer Chain has completed (and finished / closed the ledger's
// lifecycle) the harness spends `after` more units through that stale context, as a detached helper
// would. Whatever is accepted, before and after, must stay within ONE budget.
func pipeLate(id, kind, during, after int) vlib.Res {
	mp := curPipe
	mp.st.kind, mp.st.debits, mp.st.nest = kind, during, false
	name := fmt.Sprintf("late%d.fail.test.", id)
	_ = mp.run(name, true, false, "10.5.5.5:5555")
	ctx := mp.st.lastCtx
	var ledgerBefore *middleware.RecursionWorkLedger
	if ctx != nil {
		ledgerBefore = middleware.RecursionWorkFrom(ctx)
	}
	duringAcc := uint32(0)
	if ledgerBefore != nil {
		s := ledgerBefore.Snapshot()
		duringAcc = [nKinds]uint32{s.OutboundQueries, s.InternalQueries, 0, 0, s.SignatureChecks, s.DSDigests, s.NSEC3Hashes, 0}[kind]
	}
	okN, canceled, limited := 0, 0, 0
	for i := 0; i < after; i++ {
		err := middleware.DebitRecursionWork(ctx, middleware.RecursionWorkKind(kind))
		switch {
		case err == nil:
			okN++
		case errors.Is(err, context.Canceled):
			canceled++
		case errors.Is(err, middleware.ErrRecursionWorkLimit):
			limited++
		}
	}
	retain := "none"
	if ledgerBefore != nil {
		if rel, ok := ledgerBefore.Retain(); ok {
			retain = "t"
			rel()
		} else {
			retain = "f"
		}
	}
	or := "ok"
	caps := mp.cfg
	if mp.policy.Mode == middleware.RecursionWorkEnforce {
		total := uint32(okN)
		if ledgerBefore != nil {
			s := ledgerBefore.Snapshot()
			total = [nKinds]uint32{s.OutboundQueries, s.InternalQueries, 0, 0, s.SignatureChecks, s.DSDigests, s.NSEC3Hashes, 0}[kind]
			if duringAcc+uint32(okN) != total {
				or = fmt.Sprintf("FAIL sig=pipe/late/work-after-completion-charged-elsewhere during=%d after-accepted=%d counter=%d", duringAcc, okN, total)
			}
		}
		if duringAcc+uint32(okN) > caps[kind] {
			or = fmt.Sprintf("FAIL sig=pipe/late/work-after-completion-escapes-budget during=%d after=%d cap=%d", duringAcc, okN, caps[kind])
		}
	}
	if retain == "t" {
		or = "FAIL sig=pipe/late/finished-tree-retained"
	}
	return vlib.Res{Impl: fmt.Sprintf("after=%d/%d/%d retain=%s", okN, canceled, limited, retain), Oracle: or, Tags: "nt,late"}
}

// pipeRho: a rho-shaped alias loop (tail → cycle, never back to the queried name), or with cycle = 0 a
// plain chain (via pipeChain). The client query runs on the server's lazy context; what the chase cost is read
// from the stub's call counter (every sub-query that missed the cache reached it).
func pipeRho(id, tail, cycle int, ednsOn bool, client string) vlib.Res {
	mp := curPipe
	name := fmt.Sprintf("r%d-%d-%d.rho.test.", tail+cycle-1, id, cycle)
	before := mp.st.calls.Load()
	start := time.Now()
	m := mp.run(name, ednsOn, false, client)
	el := time.Since(start)
	calls := int(mp.st.calls.Load() - before)
	or := "ok"
	rc, an := -1, 0
	if m != nil {
		rc, an = m.Rcode, len(m.Answer)
	}
	if mp.flat != nil {
		// one chase level against an executor that does not chase: its own hop budget and loop
		// detector are all that bound it when the firewall does not enforce
		hops := int(mp.flat.calls.Swap(0))
		switch {
		case m == nil:
			or = "FAIL sig=pipe/rho/no-reply"
		case hops > 10:
			or = fmt.Sprintf("FAIL sig=pipe/rho/chase-level-past-ten-hops hops=%d tail=%d cycle=%d", hops, tail, cycle)
		case hops > tail+cycle:
			or = fmt.Sprintf("FAIL sig=pipe/rho/chase-level-revisited-a-target hops=%d names=%d", hops, tail+cycle)
		}
		return vlib.Res{Impl: fmt.Sprintf("rcode=%d hops=%d", rc, hops), Oracle: or, Tags: "nt,rho,flatq"}
	}
	switch {
	case m == nil:
		or = "FAIL sig=pipe/rho/no-reply"
	case rc != dns.RcodeServerFailure && rc != dns.RcodeSuccess:
		or = fmt.Sprintf("FAIL sig=pipe/rho/neither-answer-nor-servfail rcode=%d", rc)
	case calls > cache.VerifC12MaxCnameChaseDepth()*10+tail+cycle:
		// one chase level follows at most ten hops and never the same target twice, and levels nest at
		// most maxCnameChaseDepth deep: a loop cannot cost more sub-resolutions than that
		or = fmt.Sprintf("FAIL sig=pipe/rho/alias-loop-past-hop-and-depth-caps sub-resolutions=%d names=%d bound=%d", calls, tail+cycle, cache.VerifC12MaxCnameChaseDepth()*10+tail+cycle)
	case el > 3*time.Second:
		or = fmt.Sprintf("FAIL sig=pipe/rho/alias-loop-not-ended-in-time elapsed=%s", el.Round(time.Millisecond))
	}
	return vlib.Res{Impl: fmt.Sprintf("rcode=%d an=%d stub=%d ms=%d", rc, an, calls, el.Milliseconds()), Oracle: or, Tags: "nt,rho"}
}

// subNest: the stub re-enters the internal sub-pipeline from inside its own
// ServeDNS until Queryer.Query refuses.
func subNest(mode string, intCap uint32) vlib.Res {
	raw := [nKinds]uint32{}
	raw[1] = intCap
	if r := pipeNew(mode, raw); r.Impl == "invalid" {
		return r
	}
	mp := curPipe
	mp.st.nest = true
	mp.st.lastErr = atomic.Value{}
	mp.st.maxSeen.Store(0)
	done := make(chan struct{})
	go func() { mp.run("l0.nest.", true, false, "10.1.1.1:1000"); close(done) }()
	select {
	case <-done:
	case <-time.After(20 * time.Second):
		return vlib.Res{Impl: "hang", Oracle: "FAIL sig=sub/nest/unbounded-nesting"}
	}
	depth := int(mp.st.maxSeen.Load())
	errName := "none"
	if e, _ := mp.st.lastErr.Load().(error); e != nil {
		switch {
		case errors.Is(e, middleware.ErrMaxRecursion):
			errName = "maxrec"
		case errors.Is(e, middleware.ErrRecursionWorkLimit):
			errName = "limit"
		default:
			errName = "other"
		}
	}
	caps := mp.cfg
	or := "ok"
	if depth > 32 {
		or = fmt.Sprintf("FAIL sig=sub/nest/deeper-than-32 depth=%d", depth)
	}
	if mp.policy.Mode == middleware.RecursionWorkEnforce && uint32(depth) > caps[1] {
		or = fmt.Sprintf("FAIL sig=sub/nest/more-sub-queries-than-budget depth=%d cap=%d", depth, caps[1])
	}
	if mp.policy.Mode != middleware.RecursionWorkEnforce && errName == "limit" {
		or = "FAIL sig=sub/nest/non-enforce-mode-rejected"
	}
	return vlib.Res{Impl: fmt.Sprintf("depth=%d err=%s", depth, errName), Oracle: or, Tags: "nt"}
}

// ---------------------------------------------------------------- pickFallbackResponse

// pick <rcodes csv|-> <nconfig> <errs: string of w(ork limit) a(ttempt limit) o(ther) | ->
func pickFallback(rcodes string, nconfig int, errs string) vlib.Res {
	var resps, cfgs []*dns.Msg
	if rcodes != "-" {
		for _, f := range strings.Split(rcodes, ",") {
			m := new(dns.Msg)
			m.SetQuestion("x.pick.test.", dns.TypeA)
			m.Rcode = vlib.Atoi(f)
			resps = append(resps, m)
		}
	}
	for i := 0; i < nconfig; i++ {
		m := new(dns.Msg)
		m.SetQuestion("x.pick.test.", dns.TypeA)
		cfgs = append(cfgs, m)
	}
	var fatal []error
	hasWork := false
	if errs != "-" {
		for _, c := range errs {
			switch c {
			case 'w':
				fatal = append(fatal, fmt.Errorf("exchange: %w", &middleware.RecursionWorkLimitError{Kind: middleware.RecursionWorkOutboundQuery, Limit: 1}))
				hasWork = true
			case 'a':
				fatal = append(fatal, &middleware.ResolutionAttemptLimitError{Endpoint: "192.0.2.1:53", Transport: "udp"})
			default:
				fatal = append(fatal, errOther)
			}
		}
	}
	msg, err := resolver.VerifC12PickFallback(resps, cfgs, fatal)
	out := "none"
	switch {
	case err != nil && errors.Is(err, middleware.ErrRecursionWorkLimit):
		out = "work"
	case err != nil && errors.Is(err, middleware.ErrResolutionAttemptLimit):
		out = "attempt"
	case err != nil && resolver.VerifC12IsFatal(err):
		out = "conn"
	case err != nil:
		out = "err"
	case msg != nil:
		for i, m := range resps {
			if m == msg {
				out = fmt.Sprintf("resp%d", i)
			}
		}
		for i, m := range cfgs {
			if m == msg {
				out = fmt.Sprintf("config%d", i)
			}
		}
	}
	or := "ok"
	// policy exhaustion is terminal: no authority's error response may stand in for it (it would be
	// read as evidence about the zone, and hide the policy failure from the caller's retry paths)
	if hasWork && out != "work" {
		or = fmt.Sprintf("FAIL sig=pick/work-limit-outranked-by-%s", strings.TrimRight(out, "0123456789"))
	}
	if !hasWork && out == "work" {
		or = "FAIL sig=pick/work-limit-from-nowhere"
	}
	return vlib.Res{Impl: out, Oracle: or, Tags: "nt,pick"}
}

// ---------------------------------------------------------------- checkLoop / minimize

var (
	loopResolver *resolver.Resolver
	loopCtx      context.Context
	refLoop      map[string]int
	minResolvers = map[int]*resolver.Resolver{}
)

func bareResolver(qmin int) *resolver.Resolver {
	if r, ok := minResolvers[qmin]; ok {
		return r
	}
	cfg := new(config.Config)
	cfg.RootServers = []string{"192.0.2.1:53"}
	cfg.QnameMinLevel = qmin
	cfg.Maxdepth = 30
	r := resolver.NewResolver(cfg)
	minResolvers[qmin] = r
	return r
}

func loopCheck(name string, qtype uint16) vlib.Res {
	var loop bool
	loopCtx, loop = resolver.VerifC12CheckLoop(loopResolver, loopCtx, name, qtype)
	k := fmt.Sprintf("%s/%d", name, qtype)
	want := refLoop[k] >= 2 // a name may be looked up at most twice per type
	if !want {
		refLoop[k]++
	}
	or := "ok"
	if loop != want {
		or = fmt.Sprintf("FAIL sig=loop/check/%s seen=%d", map[bool]string{true: "false-loop", false: "loop-missed"}[loop], refLoop[k])
	}
	return vlib.Res{Impl: vlib.B(loop), Oracle: or, Tags: "nt"}
}

func minCheck(minLevel int, name string, level int, nomin bool) vlib.Res {
	r := bareResolver(minLevel)
	got, ok := resolver.VerifC12Minimize(r, name, dns.TypeA, level, nomin)
	labels := dns.CountLabel(name)
	or := "ok"
	// a minimised query must be a strictly shorter suffix: that is what lets level++ terminate
	if ok && (dns.CountLabel(got) >= labels || !dns.IsSubDomain(got, name) || dns.CountLabel(got) != level+1) {
		or = fmt.Sprintf("FAIL sig=min/check/not-a-proper-suffix got=%s", got)
	}
	if ok && (nomin || minLevel == 0 || level >= minLevel) {
		or = "FAIL sig=min/check/minimised-although-disabled"
	}
	return vlib.Res{Impl: vlib.B(ok) + " " + strconv.Itoa(dns.CountLabel(got)), Oracle: or, Tags: "nt"}
}
