//go:build verif

// Driver for C11 (exactly one reply per admitted query): facts + function
// level correspondence (rw, wg) + mid level (dedup, srvh) + system level
// (sys, l3 world behind real sockets).
package main

import (
	"fmt"
	"os"
	"strings"
	"time"

	"github.com/semihalev/sdns/config"
	"github.com/semihalev/sdns/internal/verif/vlib"
	"github.com/semihalev/sdns/middleware"
	"github.com/semihalev/sdns/middleware/cache"
	"github.com/semihalev/sdns/server"
)

// exec runs rw/wg ops in process and forwards dedup/sys ops (real server
// goroutines) to the child process, see child.go.
func exec(op string) vlib.Res {
	f := strings.Fields(op)
	if len(f) < 2 {
		return vlib.Res{Impl: "bad-op"}
	}
	switch f[0] {
	case "rw", "wg", "res", "burst", "eff", "proc":
		return execLocal(op)
	case "inl", "bw", "zl", "gl", "tcpclass", "accept", "conncap", "fill", "dialer", "drain", "ws":
		return execLocal(op)
	case "dedup", "sys", "ing":
		if os.Getenv("C11_NOCHILD") != "" {
			return execLocal(op)
		}
		return execInChild(op, f)
	}
	return vlib.Res{Impl: "bad-op"}
}

func execLocal(op string) vlib.Res {
	f := strings.Fields(op)
	if len(f) < 2 {
		return vlib.Res{Impl: "bad-op"}
	}
	switch f[0] {
	case "rw":
		return execRW(f)
	case "wg":
		return execWG(f)
	case "dedup":
		return execDedup(f)
	case "sys":
		return execSys(f)
	case "res":
		return execRes(f)
	case "burst":
		return execBurst(f)
	case "tcpclass":
		return execTCPClass(f)
	case "accept":
		return execAccept(f)
	case "conncap":
		return execConnCap(f)
	case "drain":
		return execDrain(f)
	case "ws":
		return execWS(f)
	case "fill":
		return execFill(f)
	case "dialer":
		return execDialer(f)
	case "zl":
		return execZL(f)
	case "gl":
		return execGL(f)
	case "ing":
		return execIng(f)
	case "inl":
		return execInl(f)
	case "bw":
		return execBW(f)
	case "eff":
		return execEff(f)
	case "proc":
		return execProc(f)
	}
	return vlib.Res{Impl: "bad-op"}
}

func facts() map[string]any {
	middleware.Reset()
	base := os.Getenv("VERIF_DIR")
	if base == "" {
		base = "/verif"
	}
	_ = os.MkdirAll(base+"/build/tmp-c11", 0o750)
	dir, err := os.MkdirTemp(base+"/build/tmp-c11", "facts")
	if err != nil {
		dir, _ = os.MkdirTemp("", "c11facts")
	}
	defer os.RemoveAll(dir)
	cfg := new(config.Config)
	cfg.Directory = dir
	cfg.CacheSize = 1024
	cfg.Bind = "127.0.0.1:0"
	c := cache.New(cfg)
	defer c.Stop()
	srv := server.New(cfg) // cfg.QueryTimeout left zero: the code's own default
	classBad, smallFrame := tcpClassFacts()
	return map[string]any{
		"regroup_limit":            cache.VerifC11RegroupLimit(),
		"wg_timeout_ms":            int(cache.VerifC11DedupTimeout(c) / time.Millisecond),
		"query_timeout_default_ms": int(server.VerifC11QueryTimeout(srv) / time.Millisecond),
		"rw_table":                 rwTable(),
		"tcp_write_wait_ms":        tcpWriteWaitMs(),
		"tcp_class_mismatches":     classBad,
		"tcp_small_frame":          smallFrame,
	}
}

func main() {
	if len(os.Args) > 1 && os.Args[1] == "child" {
		childMain()
		return
	}
	if len(os.Args) > 1 && os.Args[1] == "try" {
		vlib.Quiet()
		for _, op := range os.Args[2:] {
			t0 := time.Now()
			r := exec(op)
			fmt.Printf("%s\n   impl=%s oracle=%s tags=%s (%.1fs)\n", op, r.Impl, r.Oracle, r.Tags, time.Since(t0).Seconds())
		}
		stopChild()
		closeAll()
		return
	}
	defer closeAll()
	defer stopChild()
	vlib.Main(&vlib.Driver{Facts: facts, Exec: exec, Gen: gen})
}
