//go:build verif

package main

import (
	"fmt"
	"os"
	"sync"
	"time"

	"github.com/miekg/dns"
	"github.com/semihalev/sdns/internal/verif/vlib"
)

func main() {
	if len(os.Args) > 1 && os.Args[1] == "try" {
		vlib.Quiet()
		t0 := time.Now()
		e := newSysEnv(false, 0)
		fmt.Println("env up", time.Since(t0), "inline", e.inline)
		var cs []*client
		id := uint16(100)
		for _, f := range faults {
			for _, k := range []string{"udp", "tcp"} {
				id++
				cs = append(cs, &client{kind: k, zone: f, name: "a1." + f + ".test.", qtype: dns.TypeA, id: id})
			}
		}
		var wg sync.WaitGroup
		for _, c := range cs {
			wg.Add(1)
			go func(c *client) {
				defer wg.Done()
				if c.kind == "udp" {
					e.runUDP(c, 3500*time.Millisecond)
				} else {
					e.runTCP([]*client{c}, 3500*time.Millisecond, 0)
				}
			}(c)
		}
		wg.Wait()
		for _, c := range cs {
			fmt.Printf("%-8s %-9s n=%d other=%d eof=%v err=%q %v\n", c.kind, c.zone, len(c.replies), c.other, c.eof, c.errs, c.replies)
		}
		fmt.Println(e.srv.Quiesced())
		fmt.Println(sdnsGoroutines())
		e.close()
		fmt.Println("closed", time.Since(t0))
		return
	}
}
