//go:build verif

package main

// The dedup and sys ops run the real server; a panic on one of ITS goroutines
// cannot be recovered from the outside and would take the driver (and every
// line still buffered by vlib) with it.  They therefore execute in a child
// process of this same binary ("c11 child"): one op line in, one
// "impl \t oracle \t tags" line out.  When the child dies the parent reports
// the op in flight as FAIL sig=<sub>/server-goroutine-panic with the panic's
// first lines, so the runner can shrink and write a concrete replay.

import (
	"bufio"
	"bytes"
	"fmt"
	"io"
	"os"
	osexec "os/exec"
	"regexp"
	"strings"
	"sync"

	"github.com/semihalev/sdns/internal/verif/vlib"
)

type childProc struct {
	cmd    *osexec.Cmd
	in     io.WriteCloser
	out    *bufio.Reader
	errBuf *lockedBuf
}

type lockedBuf struct {
	mu sync.Mutex
	b  bytes.Buffer
}

func (l *lockedBuf) Write(p []byte) (int, error) {
	l.mu.Lock()
	defer l.mu.Unlock()
	if l.b.Len() > 1<<20 {
		l.b.Reset()
	}
	return l.b.Write(p)
}
func (l *lockedBuf) String() string {
	l.mu.Lock()
	defer l.mu.Unlock()
	return l.b.String()
}

var (
	child      *childProc
	crashedSub = map[string]string{} // subsystem whose current case lost its process → the verdict
)

func startChild() *childProc {
	cmd := osexec.Command(os.Args[0], "child")
	cmd.Env = os.Environ()
	in, err := cmd.StdinPipe()
	if err != nil {
		return nil
	}
	out, err := cmd.StdoutPipe()
	if err != nil {
		return nil
	}
	eb := &lockedBuf{}
	cmd.Stderr = eb
	if err := cmd.Start(); err != nil {
		return nil
	}
	return &childProc{cmd: cmd, in: in, out: bufio.NewReaderSize(out, 1<<20), errBuf: eb}
}

func stopChild() {
	if child == nil {
		return
	}
	fmt.Fprintln(child.in, "quit")
	child.in.Close()
	_ = child.cmd.Wait()
	child = nil
}

var addrRe = regexp.MustCompile(`0x[0-9a-f]+|\+0x[0-9a-f]+|goroutine \d+|:\d+`)

// panicSummary extracts a stable one-line description of the child's death.
func panicSummary(stderr string) (sig, detail string) {
	lines := strings.Split(stderr, "\n")
	msg, where := "", ""
	for i, ln := range lines {
		if strings.HasPrefix(ln, "panic:") || strings.HasPrefix(ln, "fatal error:") {
			msg = strings.TrimSpace(ln)
			// first frame of repository code below the panic
			for _, l2 := range lines[i+1:] {
				l2 = strings.TrimSpace(l2)
				if strings.HasPrefix(l2, "github.com/semihalev/sdns/") && !strings.Contains(l2, "/internal/verif/") {
					where = l2
					if k := strings.Index(where, "("); k > 0 && !strings.HasPrefix(where[k:], "(*") {
						where = where[:k]
					}
					break
				}
			}
			break
		}
	}
	if msg == "" {
		return "exit", "child process ended: " + strings.TrimSpace(lastN(stderr, 300))
	}
	fn := where
	if k := strings.LastIndex(fn, "/"); k >= 0 {
		fn = fn[k+1:]
	}
	if k := strings.Index(fn, "(0x"); k > 0 {
		fn = fn[:k]
	}
	fn = addrRe.ReplaceAllString(fn, "")
	fn = strings.NewReplacer("(...)", "", " ", "", "(", "", ")", "", "*", "", "...", "").Replace(fn)
	if fn == "" {
		fn = "unknown"
	}
	return fn, addrRe.ReplaceAllString(msg, "") + " @ " + where
}

func lastN(s string, n int) string {
	s = strings.ReplaceAll(s, "\n", " | ")
	if len(s) > n {
		return s[len(s)-n:]
	}
	return s
}

// execInChild forwards one dedup/sys op to the child process.
func execInChild(op string, f []string) vlib.Res {
	sub := f[0]
	if f[1] == "new" {
		crashedSub[sub] = ""
	} else if v := crashedSub[sub]; v != "" {
		// the rest of the case cannot run; keep the verdict on every op of it so
		// that a shrunk replay fails on its last op wherever the crash strikes
		return vlib.Res{Impl: "skipped-after-crash", Oracle: v, Tags: "crash"}
	}
	if child == nil {
		if child = startChild(); child == nil {
			return vlib.Res{Impl: "no-child", Oracle: "FAIL sig=" + sub + "/child-process-unavailable"}
		}
	}
	if _, err := fmt.Fprintln(child.in, op); err == nil {
		if line, err := child.out.ReadString('\n'); err == nil {
			p := strings.Split(strings.TrimRight(line, "\n"), "\t")
			for len(p) < 3 {
				p = append(p, "")
			}
			return vlib.Res{Impl: p[0], Oracle: p[1], Tags: p[2]}
		}
	}
	// the child is gone
	child.in.Close()
	_ = child.cmd.Wait()
	sig, detail := panicSummary(child.errBuf.String())
	child = nil
	verdict := fmt.Sprintf("FAIL sig=%s/server-goroutine-panic/%s %s", sub, sig, strings.ReplaceAll(detail, "\t", " "))
	crashedSub[sub] = verdict
	return vlib.Res{Impl: "crashed", Oracle: verdict, Tags: "nt,crash"}
}

// childMain is the "c11 child" mode.
func childMain() {
	vlib.Quiet()
	in := bufio.NewScanner(os.Stdin)
	in.Buffer(make([]byte, 1<<20), 1<<24)
	out := bufio.NewWriter(os.Stdout)
	clean := func(s string) string {
		return strings.ReplaceAll(strings.ReplaceAll(s, "\t", " "), "\n", " ")
	}
	for in.Scan() {
		op := strings.TrimSpace(in.Text())
		if op == "quit" {
			break
		}
		res := func() (r vlib.Res) {
			defer func() {
				if p := recover(); p != nil {
					r = vlib.Res{Impl: "panic", Oracle: "FAIL sig=panic " + clean(fmt.Sprint(p)), Tags: "panic"}
				}
			}()
			return execLocal(op)
		}()
		fmt.Fprintf(out, "%s\t%s\t%s\n", clean(res.Impl), clean(res.Oracle), clean(res.Tags))
		out.Flush()
	}
	closeAll()
}
