//go:build verif

package main

// Function-level correspondence for C11: the real base responseWriter
// (package middleware, reached through the c11 export) and the real
// waitgroup.WaitGroup, each driven single-threaded by scripted op lines and
// compared with the Lean model; plus oracles that judge the observed
// behaviour against the property text only.

import (
	"context"
	"errors"
	"fmt"
	"net"
	"strings"
	"time"

	"github.com/miekg/dns"
	"github.com/semihalev/sdns/internal/verif/vlib"
	"github.com/semihalev/sdns/internal/waitgroup"
	"github.com/semihalev/sdns/middleware"
)

// ---------------------------------------------------------------- recording transport

var errTransport = errors.New("c11: scripted transport error")

type recTransport struct {
	calls    []string // "b" (Write) / "m" (WriteMsg), in order
	terr     bool     // the next transport call fails
	lease    int      // LeaseWire: -1 → nil, else a buffer of exactly this capacity
	internal bool
}

func (t *recTransport) LocalAddr() net.Addr { return &net.UDPAddr{IP: net.IPv4(127, 0, 0, 1), Port: 53} }
func (t *recTransport) RemoteAddr() net.Addr {
	return &net.UDPAddr{IP: net.IPv4(203, 0, 113, 9), Port: 4242}
}
func (t *recTransport) Close() error   { return nil }
func (t *recTransport) Internal() bool { return t.internal }
func (t *recTransport) Write(b []byte) (int, error) {
	t.calls = append(t.calls, "b")
	if t.terr {
		return 0, errTransport
	}
	return len(b), nil
}
func (t *recTransport) WriteMsg(m *dns.Msg) error {
	t.calls = append(t.calls, "m")
	if t.terr {
		return errTransport
	}
	return nil
}
func (t *recTransport) LeaseWire(capacity int) []byte {
	if t.lease < 0 {
		return nil
	}
	return make([]byte, 0, t.lease)
}

var (
	rwT *recTransport
	rwW middleware.ResponseWriter
)

func sampleReply(kind string) *dns.Msg {
	q := new(dns.Msg)
	q.SetQuestion("w.example.", dns.TypeA)
	m := new(dns.Msg)
	m.SetReply(q)
	rr, _ := dns.NewRR("w.example. 60 IN A 192.0.2.1")
	m.Answer = []dns.RR{rr}
	if kind == "exotic" {
		// extended rcode without an OPT to carry it: wire.TryPack declines,
		// the library path owns the outcome
		m.Rcode = dns.RcodeBadVers
	}
	return m
}

func txStr(calls []string) string {
	if len(calls) == 0 {
		return "-"
	}
	return strings.Join(calls, ",")
}

func classify(err error) string {
	switch {
	case err == nil:
		return "ok"
	case middleware.VerifC11IsAlreadyWritten(err):
		return "already"
	case errors.Is(err, errTransport):
		return "terr"
	}
	return "unpack"
}

// execRW runs one "rw …" op.
func execRW(f []string) vlib.Res {
	if len(f) < 2 {
		return vlib.Res{Impl: "bad-op"}
	}
	switch f[1] {
	case "new":
		if len(f) != 4 {
			return vlib.Res{Impl: "bad-op"}
		}
		rwT = &recTransport{lease: -1, internal: f[3] == "t"}
		rwW = middleware.VerifC11NewWriter(rwT, f[2] == "t")
		return vlib.Res{Impl: "ok"}
	case "reset":
		if len(f) != 4 || rwW == nil {
			return vlib.Res{Impl: "bad-op"}
		}
		rwT = &recTransport{lease: -1, internal: f[3] == "t"}
		middleware.VerifC11ResetWriter(rwW, rwT, f[2] == "t")
		or := "ok"
		if rwW.Written() {
			or = "FAIL sig=rw/reset/written-flag-survives-reset"
		}
		return vlib.Res{Impl: fmt.Sprintf("ret=reset written=%s tx=%s", vlib.B(rwW.Written()), txStr(rwT.calls)), Oracle: or}
	}
	if rwW == nil {
		return vlib.Res{Impl: "bad-op"}
	}
	before := len(rwT.calls)
	wasWritten := before > 0 // the oracle's own notion: something reached the transport
	ret := ""
	isWrite, sends := false, false
	wire, _ := rwW.(middleware.WireWriter)
	leaser, _ := rwW.(middleware.WireBodyLeaser)
	switch f[1] {
	case "write":
		if len(f) != 4 {
			return vlib.Res{Impl: "bad-op"}
		}
		isWrite = true
		var b []byte
		if f[2] == "ok" {
			b, _ = sampleReply("plain").Pack()
			sends = true
		} else {
			b = []byte{1, 2, 3}
		}
		rwT.terr = f[3] == "t"
		_, err := rwW.Write(b)
		ret = classify(err)
	case "writemsg":
		if len(f) != 4 {
			return vlib.Res{Impl: "bad-op"}
		}
		isWrite, sends = true, true
		rwT.terr = f[3] == "t"
		ret = classify(rwW.WriteMsg(sampleReply(f[2])))
	case "writewire", "commit":
		if len(f) != 3 || wire == nil || leaser == nil {
			return vlib.Res{Impl: "bad-op"}
		}
		isWrite, sends = true, true
		rwT.terr = f[2] == "t"
		b, _ := sampleReply("plain").Pack()
		var err error
		if f[1] == "commit" {
			err = leaser.CommitWire(b, middleware.WireInfo{})
		} else {
			err = wire.WriteWire(b, middleware.WireInfo{})
		}
		ret = classify(err)
	case "begin":
		if len(f) != 5 || leaser == nil {
			return vlib.Res{Impl: "bad-op"}
		}
		rwT.lease = -1
		if f[4] != "-" {
			rwT.lease = vlib.Atoi(f[4])
		}
		buf := leaser.BeginWire(vlib.Atoi(f[2]), vlib.Atoi(f[3]))
		if buf == nil {
			ret = "nolease"
		} else {
			ret = fmt.Sprintf("lease:%d", cap(buf))
			if len(buf) != 0 {
				ret += "+dirty"
			}
		}
	case "abort":
		if leaser == nil {
			return vlib.Res{Impl: "bad-op"}
		}
		leaser.AbortWire()
		ret = "unit"
	default:
		return vlib.Res{Impl: "bad-op"}
	}
	rwT.terr = false
	added := len(rwT.calls) - before
	or := "ok"
	switch {
	case len(rwT.calls) > 1:
		or = fmt.Sprintf("FAIL sig=rw/%s/second-transport-write calls=%s", f[1], txStr(rwT.calls))
	case wasWritten && isWrite && (ret != "already" || added != 0):
		or = fmt.Sprintf("FAIL sig=rw/%s/late-write-not-refused ret=%s", f[1], ret)
	case !wasWritten && sends && added != 1:
		or = fmt.Sprintf("FAIL sig=rw/%s/reply-not-transmitted ret=%s", f[1], ret)
	case !sends && added != 0:
		or = fmt.Sprintf("FAIL sig=rw/%s/non-reply-call-reached-transport", f[1])
	case rwW.Written() != (len(rwT.calls) > 0):
		or = fmt.Sprintf("FAIL sig=rw/%s/written-flag-differs-from-transport written=%v calls=%d", f[1], rwW.Written(), len(rwT.calls))
	}
	tags := ""
	if wasWritten || before > 0 || f[1] == "begin" {
		tags = "nt"
	}
	return vlib.Res{Impl: fmt.Sprintf("ret=%s written=%s tx=%s", ret, vlib.B(rwW.Written()), txStr(rwT.calls)), Oracle: or, Tags: tags}
}

// rwTable evaluates the compiled writer over its whole decision table (the
// Gen fact `rw_table`): pre-state × call kind → [pre, transport calls added,
// returned already-written, written after].
func rwTable() [][]int {
	b := func(x bool) int {
		if x {
			return 1
		}
		return 0
	}
	var out [][]int
	for _, pre := range []bool{false, true} {
		for k := 0; k < 8; k++ {
			t := &recTransport{lease: -1}
			w := middleware.VerifC11NewWriter(t, false)
			if pre {
				pb, _ := sampleReply("plain").Pack()
				_, _ = w.Write(pb)
			}
			before := len(t.calls)
			var err error
			wire := w.(middleware.WireWriter)
			leaser := w.(middleware.WireBodyLeaser)
			pb, _ := sampleReply("plain").Pack()
			switch k {
			case 0:
				_, err = w.Write(pb)
			case 1:
				_, err = w.Write([]byte{1, 2, 3})
			case 2:
				err = w.WriteMsg(sampleReply("plain"))
			case 3:
				err = w.WriteMsg(sampleReply("exotic"))
			case 4:
				err = wire.WriteWire(pb, middleware.WireInfo{})
			case 5:
				_ = leaser.BeginWire(10, 2)
			case 6:
				err = leaser.CommitWire(pb, middleware.WireInfo{})
			case 7:
				leaser.AbortWire()
			}
			out = append(out, []int{b(pre), len(t.calls) - before, b(middleware.VerifC11IsAlreadyWritten(err)), b(w.Written())})
		}
	}
	return out
}

// ---------------------------------------------------------------- wait group

type wgState struct {
	wg   *waitgroup.WaitGroup
	gens []*waitgroup.Generation
	ids  map[*waitgroup.Generation]int
	// oracle bookkeeping, from the outputs only
	leaderSeen map[int]bool
	successor  map[int]int
	expired    map[int]bool // the script let the bounded wait of this generation expire while it was live
	doneSeen   map[int]bool
}

var wgS *wgState

// wgLast is the last Join/Regroup result (read by the generator's virtual requests).
var wgLast struct {
	id     int
	leader bool
}

func (s *wgState) id(g *waitgroup.Generation) (int, bool) {
	if g == nil {
		return -1, false
	}
	if i, ok := s.ids[g]; ok {
		return i, false
	}
	s.ids[g] = len(s.gens)
	s.gens = append(s.gens, g)
	return len(s.gens) - 1, true
}

func ctxStr(g *waitgroup.Generation) string {
	switch err := g.Err(); {
	case err == nil:
		return "live"
	case errors.Is(err, context.DeadlineExceeded):
		return "deadline"
	}
	return "canceled"
}

func closed(g *waitgroup.Generation) bool {
	select {
	case <-g.Done():
		return true
	default:
		return false
	}
}

func (s *wgState) cur(k uint64) (string, int) {
	g := waitgroup.VerifCurrent(s.wg, k)
	if g == nil {
		return "-", -1
	}
	i, fresh := s.id(g)
	if fresh {
		return fmt.Sprintf("g%d!", i), i
	}
	return fmt.Sprintf("g%d", i), i
}

func (s *wgState) genStr(i int) string {
	g := s.gens[i]
	nx := "-"
	if n := waitgroup.VerifNext(g); n != nil {
		ni, _ := s.id(n)
		nx = fmt.Sprintf("g%d", ni)
	}
	return fmt.Sprintf("ctx=%s next=%s", ctxStr(g), nx)
}

func role(l bool) string {
	if l {
		return "L"
	}
	return "F"
}

func parseGenRef(s string) int {
	if !strings.HasPrefix(s, "g") {
		return -1
	}
	return vlib.Atoi(s[1:])
}

// handOut is the oracle for a Join/Regroup result.
func (s *wgState) handOut(entry string, id int, fresh, leader bool, curBefore int) string {
	switch {
	case leader && s.leaderSeen[id]:
		return fmt.Sprintf("FAIL sig=wg/%s/second-leader-for-generation g%d", entry, id)
	case leader && !fresh:
		return fmt.Sprintf("FAIL sig=wg/%s/leadership-of-existing-generation g%d", entry, id)
	case !leader && fresh:
		return fmt.Sprintf("FAIL sig=wg/%s/generation-without-leader g%d", entry, id)
	case leader && curBefore >= 0 && !s.doneSeen[curBefore] && entry == "join":
		return fmt.Sprintf("FAIL sig=wg/join/second-concurrent-leader-for-key cur=g%d new=g%d", curBefore, id)
	}
	if leader {
		s.leaderSeen[id] = true
	}
	return "ok"
}

func execWG(f []string) vlib.Res {
	if len(f) < 2 {
		return vlib.Res{Impl: "bad-op"}
	}
	if f[1] == "new" {
		wgS = &wgState{wg: waitgroup.New(time.Hour), ids: map[*waitgroup.Generation]int{}, leaderSeen: map[int]bool{},
			successor: map[int]int{}, expired: map[int]bool{}, doneSeen: map[int]bool{}}
		return vlib.Res{Impl: "ok"}
	}
	if f[1] == "realtimer" {
		// the real timer path: a follower of a leader that never finishes is
		// released by the bounded wait, with DeadlineExceeded
		ms := 30
		if len(f) > 2 {
			ms = vlib.Atoi(f[2])
		}
		w := waitgroup.New(time.Duration(ms) * time.Millisecond)
		g, l1 := w.JoinGeneration(0)
		g2, l2 := w.JoinGeneration(0)
		released := false
		select {
		case <-g2.Done():
			released = true
		case <-time.After(4 * time.Second):
		}
		or := "ok"
		switch {
		case !l1 || l2 || g != g2:
			or = "FAIL sig=wg/realtimer/leadership"
		case !released:
			or = "FAIL sig=wg/realtimer/follower-not-released-by-bounded-wait"
		case !errors.Is(g2.Err(), context.DeadlineExceeded):
			or = "FAIL sig=wg/realtimer/wrong-cause"
		}
		w.DoneGeneration(0, g)
		return vlib.Res{Impl: fmt.Sprintf("follower=%s closed=%s ctx=%s next=-", role(l2), vlib.B(released), ctxStr(g2)), Oracle: or, Tags: "nt"}
	}
	s := wgS
	if s == nil {
		return vlib.Res{Impl: "bad-op"}
	}
	switch f[1] {
	case "join":
		if len(f) != 3 {
			return vlib.Res{Impl: "bad-op"}
		}
		k := vlib.AtoU64(f[2])
		_, curBefore := s.cur(k)
		g, leader := s.wg.JoinGeneration(k)
		id, fresh := s.id(g)
		wgLast.id, wgLast.leader = id, leader
		or := s.handOut("join", id, fresh, leader, curBefore)
		if or == "ok" && curBefore >= 0 && id != curBefore {
			or = fmt.Sprintf("FAIL sig=wg/join/registered-generation-bypassed cur=g%d got=g%d", curBefore, id)
		}
		c, _ := s.cur(k)
		tags := ""
		if !leader {
			tags = "nt"
		}
		return vlib.Res{Impl: fmt.Sprintf("g%d %s cur=%s", id, role(leader), c), Oracle: or, Tags: tags}
	case "regroup":
		if len(f) != 4 {
			return vlib.Res{Impl: "bad-op"}
		}
		k := vlib.AtoU64(f[2])
		var prev *waitgroup.Generation
		p := -1
		if f[3] != "nil" {
			p = parseGenRef(f[3])
			if p < 0 || p >= len(s.gens) {
				return vlib.Res{Impl: "bad-op"}
			}
			prev = s.gens[p]
		}
		_, curBefore := s.cur(k)
		g, leader := s.wg.Regroup(k, prev)
		id, fresh := s.id(g)
		wgLast.id, wgLast.leader = id, leader
		or := s.handOut("regroup", id, fresh, leader, curBefore)
		if or == "ok" && p >= 0 {
			switch {
			case s.expired[p]:
				if id != p || leader {
					or = fmt.Sprintf("FAIL sig=wg/regroup/tombstone-replaced prev=g%d got=g%d", p, id)
				}
			default:
				if want, ok := s.successor[p]; ok && want != id {
					or = fmt.Sprintf("FAIL sig=wg/regroup/followers-disagree-on-successor prev=g%d first=g%d now=g%d", p, want, id)
				}
				if id == p {
					or = fmt.Sprintf("FAIL sig=wg/regroup/handed-back-own-generation g%d", p)
				}
				if _, ok := s.successor[p]; !ok {
					s.successor[p] = id
				}
			}
		}
		c, _ := s.cur(k)
		ps := "-"
		if p >= 0 {
			ps = s.genStr(p)
		}
		return vlib.Res{Impl: fmt.Sprintf("g%d %s cur=%s prev:%s", id, role(leader), c, ps), Oracle: or, Tags: "nt"}
	case "done":
		if len(f) != 4 {
			return vlib.Res{Impl: "bad-op"}
		}
		k := vlib.AtoU64(f[2])
		gi := parseGenRef(f[3])
		if gi < 0 || gi >= len(s.gens) {
			return vlib.Res{Impl: "bad-op"}
		}
		_, before := s.cur(k)
		s.wg.DoneGeneration(k, s.gens[gi])
		s.doneSeen[gi] = true
		c, after := s.cur(k)
		or := "ok"
		switch {
		case before >= 0 && before != gi && after != before:
			or = fmt.Sprintf("FAIL sig=wg/done/stale-leader-deleted-newer-generation key=%d done=g%d was=g%d now=%s", k, gi, before, c)
		case before == gi && after >= 0:
			or = fmt.Sprintf("FAIL sig=wg/done/registration-left-behind g%d", gi)
		case !closed(s.gens[gi]):
			or = fmt.Sprintf("FAIL sig=wg/done/followers-not-released g%d", gi)
		}
		tags := ""
		if before != gi {
			tags = "nt"
		}
		return vlib.Res{Impl: fmt.Sprintf("cur=%s %s", c, s.genStr(gi)), Oracle: or, Tags: tags}
	case "timeout":
		if len(f) != 3 {
			return vlib.Res{Impl: "bad-op"}
		}
		gi := parseGenRef(f[2])
		if gi < 0 || gi >= len(s.gens) {
			return vlib.Res{Impl: "bad-op"}
		}
		if s.gens[gi].Err() == nil {
			waitgroup.VerifExpire(s.gens[gi]) // emulated clock: the bounded wait passes
			s.expired[gi] = true
		}
		or := "ok"
		if !closed(s.gens[gi]) {
			or = fmt.Sprintf("FAIL sig=wg/timeout/followers-not-released g%d", gi)
		}
		return vlib.Res{Impl: s.genStr(gi), Oracle: or, Tags: "nt"}
	case "peek":
		if len(f) != 3 {
			return vlib.Res{Impl: "bad-op"}
		}
		c, _ := s.cur(vlib.AtoU64(f[2]))
		return vlib.Res{Impl: "cur=" + c}
	}
	return vlib.Res{Impl: "bad-op"}
}
