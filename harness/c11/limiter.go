//go:build verif

package main

// zl — the real zoneInflightLimiter driven the way groupLookup's leader closure
//      drives it (compared with the model ZL);
// gl — a burst of DISTINCT questions for one zone through the real
//      Resolver.groupLookup against an authority that never answers, with the
//      per-zone quota / the resolution pool binding (oracle only: counts depend
//      on overlap): afterwards no limiter holds anything, every capacity refusal
//      is request-local, and the zone is open again.

import (
	"context"
	"fmt"
	"net"
	"strings"
	"sync"
	"time"

	"github.com/semihalev/sdns/internal/verif/vlib"
	"github.com/semihalev/sdns/middleware"
	"github.com/semihalev/sdns/middleware/resolver"
)

var zlReal *resolver.VerifC11ZL

func execZL(f []string) vlib.Res {
	if len(f) != 3 {
		return vlib.Res{Impl: "bad-op"}
	}
	n := vlib.Atoi(f[2])
	switch f[1] {
	case "new":
		zlReal = resolver.VerifC11NewZL(n)
		return vlib.Res{Impl: "ok"}
	case "enter":
		if zlReal == nil {
			return vlib.Res{Impl: "bad-op"}
		}
		adm := 0
		for i := 0; i < n; i++ {
			if zlReal.Enter("zone.c11.test.") {
				adm++
			}
		}
		return vlib.Res{Impl: fmt.Sprintf("admitted=%d shed=%d count=%d", adm, n-adm, zlReal.Count()), Oracle: "ok", Tags: "nt"}
	case "leave":
		if zlReal == nil {
			return vlib.Res{Impl: "bad-op"}
		}
		left := 0
		for i := 0; i < n; i++ {
			if zlReal.Leave("zone.c11.test.") {
				left++
			}
		}
		c := zlReal.Count()
		or := "ok"
		// property: when nothing is in flight the limiter holds nothing
		if left < n && c != 0 {
			or = fmt.Sprintf("FAIL sig=zl/leave/reservation-leaked-by-refusal count=%d with nothing in flight", c)
		}
		return vlib.Res{Impl: fmt.Sprintf("left=%d count=%d", left, c), Oracle: or, Tags: "nt"}
	}
	return vlib.Res{Impl: "bad-op"}
}

var glSerial int

// execGL: gl burst <n>   (on the resolver of the current `res new <MaxConcurrentQueries>`)
func execGL(f []string) vlib.Res {
	if len(f) != 3 || f[1] != "burst" || resR == nil {
		return vlib.Res{Impl: "bad-op"}
	}
	n := vlib.Atoi(f[2])
	silent, err := net.ListenPacket("udp", "127.0.0.1:0") // an authority that never answers
	if err != nil {
		return vlib.Res{Impl: "no-socket"}
	}
	defer silent.Close()
	glSerial++
	zone := fmt.Sprintf("z%d.gl.c11.test.", glSerial)
	var mu sync.Mutex
	capRefused, capNotLocal, other := 0, 0, 0
	var wg sync.WaitGroup
	for i := 0; i < n; i++ {
		wg.Add(1)
		go func(i int) {
			defer wg.Done()
			ctx, cancel := context.WithTimeout(context.Background(), 900*time.Millisecond)
			defer cancel()
			_, err := resolver.VerifC11GroupLookup(resR, ctx, fmt.Sprintf("q%d.%s", i, zone), zone, silent.LocalAddr().String())
			mu.Lock()
			defer mu.Unlock()
			switch {
			case err != nil && strings.Contains(err.Error(), "capacity"):
				capRefused++
				if !middleware.IsRequestLocalResolutionError(err) {
					capNotLocal++
				}
			case err != nil:
				other++
			}
		}(i)
	}
	wg.Wait()
	var a, l, p, v6, z int
	waitFor(3*time.Second, func() bool { a, l, p, v6, z = resolver.VerifC11Slots(resR); return a+l+p+v6+z == 0 })
	// the zone must be open again: one more lookup is not capacity-refused
	ctx, cancel := context.WithTimeout(context.Background(), 300*time.Millisecond)
	_, err2 := resolver.VerifC11GroupLookup(resR, ctx, "after."+zone, zone, silent.LocalAddr().String())
	cancel()
	or := "ok"
	switch {
	case z != 0:
		or = fmt.Sprintf("FAIL sig=gl/burst/zone-limiter-slot-leaked zones=%d after %d refusals quota=%d", z, capRefused, resolver.VerifC11ZoneQuota(resR))
	case a+l+p+v6 != 0:
		or = fmt.Sprintf("FAIL sig=gl/burst/limiter-slot-leaked attempts=%d lookups=%d probes=%d v6=%d", a, l, p, v6)
	case capNotLocal > 0:
		or = fmt.Sprintf("FAIL sig=gl/burst/capacity-refusal-not-request-local n=%d of %d", capNotLocal, capRefused)
	case err2 != nil && strings.Contains(err2.Error(), "capacity"):
		or = "FAIL sig=gl/burst/zone-shed-after-load-stopped " + err2.Error()
	}
	return vlib.Res{Impl: "done", Oracle: or, Tags: fmt.Sprintf("nt,n=%d,capacity-refused=%d,other-err=%d,quota=%d", n, capRefused, other, resolver.VerifC11ZoneQuota(resR))}
}
