//go:build verif

package main

// Two more function-level entries of the C11 check (oracle only):
//
//	res   — the resolver's upstream-attempt limiter: lookup's fan-out step for an
//	        attempt whose lookup is already over when its worker first runs
//	        (real Resolver.queryServer); every slot must come back.
//	burst — one worker burst on the real batched UDP sender (udpEngine.sendGroup)
//	        with destinations the kernel refuses at chosen positions; every live
//	        client gets each of its replies exactly once.

import (
	"fmt"
	"net"
	"os"
	"strings"
	"time"

	"github.com/miekg/dns"
	"github.com/semihalev/sdns/config"
	"github.com/semihalev/sdns/internal/verif/vlib"
	"github.com/semihalev/sdns/middleware/resolver"
	"github.com/semihalev/sdns/server"
)

var (
	resR   *resolver.Resolver
	resH   *resolver.DNSHandler
	resDir string
)

func execRes(f []string) vlib.Res {
	switch f[1] {
	case "new": // res new <MaxConcurrentQueries>
		if len(f) != 3 {
			return vlib.Res{Impl: "bad-op"}
		}
		if resH != nil {
			resH.Stop()
			_ = os.RemoveAll(resDir)
		}
		base := os.Getenv("VERIF_DIR")
		if base == "" {
			base = "/verif"
		}
		_ = os.MkdirAll(base+"/build/tmp-c11", 0o750)
		resDir, _ = os.MkdirTemp(base+"/build/tmp-c11", "res")
		cfg := new(config.Config)
		cfg.Directory = resDir
		cfg.RootServers = []string{"192.0.2.1:53"}
		cfg.Timeout.Duration = 200 * time.Millisecond
		cfg.QueryTimeout.Duration = time.Second
		cfg.DNSSEC = "off"
		cfg.MaxConcurrentQueries = vlib.Atoi(f[2])
		resH = resolver.New(cfg)
		resR = resolver.VerifResolver(resH)
		return vlib.Res{Impl: "ok", Tags: fmt.Sprintf("cap=%d", resolver.VerifC11AttemptCap(resR))}
	case "lateworker": // res lateworker <attempts>
		if len(f) != 3 || resR == nil {
			return vlib.Res{Impl: "bad-op"}
		}
		n := vlib.Atoi(f[2])
		refused := 0
		for i := 0; i < n; i++ {
			if !resolver.VerifC11LateWorker(resR, "192.0.2.53:53") {
				refused++
			}
		}
		a, l, p, v6, z := resolver.VerifC11Slots(resR)
		or := "ok"
		switch {
		case a != 0:
			or = fmt.Sprintf("FAIL sig=res/lateworker/limiter-slot-leaked held=%d of %d after %d finished attempts", a, resolver.VerifC11AttemptCap(resR), n)
		case refused > 0:
			or = fmt.Sprintf("FAIL sig=res/lateworker/no-free-slot refused=%d", refused)
		case l+p+v6+z != 0:
			or = fmt.Sprintf("FAIL sig=res/lateworker/other-limiter-held lookups=%d probes=%d v6=%d zones=%d", l, p, v6, z)
		}
		return vlib.Res{Impl: fmt.Sprintf("held=%d", a), Oracle: or, Tags: "nt"}
	case "end":
		if resH != nil {
			resH.Stop()
			_ = os.RemoveAll(resDir)
			resH, resR = nil, nil
		}
		return vlib.Res{Impl: "closed"}
	}
	return vlib.Res{Impl: "bad-op"}
}

// execBurst:  burst new | burst send <d0,d1,…>   with d = a|b|c (live client sockets) or x (refused destination)
func execBurst(f []string) vlib.Res {
	switch f[1] {
	case "new":
		return vlib.Res{Impl: "ok"}
	case "send":
		if len(f) != 3 {
			return vlib.Res{Impl: "bad-op"}
		}
		dests := strings.Split(f[2], ",")
		socks := map[string]*net.UDPConn{}
		defer func() {
			for _, c := range socks {
				c.Close()
			}
		}()
		var ids []uint16
		var ports []int
		want := map[string]map[uint16]bool{}
		for i, d := range dests {
			id := uint16(101 + i)
			ids = append(ids, id)
			if d == "x" {
				ports = append(ports, 0)
				continue
			}
			if d != "a" && d != "b" && d != "c" {
				return vlib.Res{Impl: "bad-op"}
			}
			if socks[d] == nil {
				c, err := net.ListenUDP("udp", &net.UDPAddr{IP: net.IPv4(127, 0, 0, 1)})
				if err != nil {
					return vlib.Res{Impl: "no-socket"}
				}
				socks[d] = c
				want[d] = map[uint16]bool{}
			}
			want[d][id] = true
			ports = append(ports, socks[d].LocalAddr().(*net.UDPAddr).Port)
		}
		if !server.VerifC11SendBurst(ids, ports) {
			return vlib.Res{Impl: "unavailable", Tags: "no-batch-tx"}
		}
		or := "ok"
		total := 0
		for _, d := range []string{"a", "b", "c"} {
			c := socks[d]
			if c == nil {
				continue
			}
			got := map[uint16]int{}
			buf := make([]byte, 1500)
			for {
				_ = c.SetReadDeadline(time.Now().Add(25 * time.Millisecond))
				n, err := c.Read(buf)
				if err != nil {
					break
				}
				m := new(dns.Msg)
				if m.Unpack(buf[:n]) != nil {
					or = "FAIL sig=burst/send/undecodable-reply"
					continue
				}
				got[m.Id]++
				total++
			}
			for id := range want[d] {
				if got[id] > 1 && or == "ok" {
					or = fmt.Sprintf("FAIL sig=burst/send/duplicate-reply client=%s id=%d n=%d burst=%s", d, id, got[id], f[2])
				}
				if got[id] == 0 && or == "ok" {
					or = fmt.Sprintf("FAIL sig=burst/send/reply-lost client=%s id=%d burst=%s", d, id, f[2])
				}
			}
			for id, n := range got {
				if !want[d][id] && or == "ok" {
					or = fmt.Sprintf("FAIL sig=burst/send/foreign-reply client=%s id=%d n=%d", d, id, n)
				}
			}
		}
		tags := ""
		if strings.Contains(f[2], "x") && len(dests) > 1 {
			tags = "nt"
		}
		return vlib.Res{Impl: fmt.Sprintf("datagrams=%d", total), Oracle: or, Tags: tags}
	}
	return vlib.Res{Impl: "bad-op"}
}
