//go:build verif

package main

// Two more function-level entries of the C11 check (oracle only):
//
//	res   — the resolver's upstream-attempt limiter: lookup's fan-out step for an
//	        attempt whose lookup is already over when its worker first runs
//	        (real Resolver.queryServer); every slot must come back.
//	burst — one worker burst on the real batched UDP sender (udpEngine.sendGroup)
//	        with destinations the kernel refuses at chosen positions; every live
//	        client gets each of its replies exactly once.

import (
	"context"
	"errors"
	"fmt"
	"net"
	"os"
	"strings"
	"sync/atomic"
	"syscall"
	"time"

	"github.com/miekg/dns"
	"github.com/semihalev/sdns/config"
	"github.com/semihalev/sdns/internal/contextutil"
	"github.com/semihalev/sdns/internal/mock"
	"github.com/semihalev/sdns/internal/verif/vlib"
	"github.com/semihalev/sdns/middleware"
	"github.com/semihalev/sdns/middleware/cache"
	"github.com/semihalev/sdns/middleware/resolver"
	"github.com/semihalev/sdns/server"
)

var (
	resR   *resolver.Resolver
	resH   *resolver.DNSHandler
	resDir string
)

func execRes(f []string) vlib.Res {
	switch f[1] {
	case "new": // res new <MaxConcurrentQueries>
		if len(f) != 3 {
			return vlib.Res{Impl: "bad-op"}
		}
		if resH != nil {
			resH.Stop()
			_ = os.RemoveAll(resDir)
		}
		base := os.Getenv("VERIF_DIR")
		if base == "" {
			base = "/verif"
		}
		_ = os.MkdirAll(base+"/build/tmp-c11", 0o750)
		resDir, _ = os.MkdirTemp(base+"/build/tmp-c11", "res")
		cfg := new(config.Config)
		cfg.Directory = resDir
		cfg.RootServers = []string{"192.0.2.1:53"}
		cfg.Timeout.Duration = 200 * time.Millisecond
		cfg.QueryTimeout.Duration = time.Second
		cfg.DNSSEC = "off"
		cfg.MaxConcurrentQueries = vlib.Atoi(f[2])
		resH = resolver.New(cfg)
		resR = resolver.VerifResolver(resH)
		return vlib.Res{Impl: "ok", Tags: fmt.Sprintf("cap=%d", resolver.VerifC11AttemptCap(resR))}
	case "lateworker": // res lateworker <attempts>
		if len(f) != 3 || resR == nil {
			return vlib.Res{Impl: "bad-op"}
		}
		n := vlib.Atoi(f[2])
		refused := 0
		for i := 0; i < n; i++ {
			if !resolver.VerifC11LateWorker(resR, "192.0.2.53:53") {
				refused++
			}
		}
		a, l, p, v6, z := resolver.VerifC11Slots(resR)
		or := "ok"
		switch {
		case a != 0:
			or = fmt.Sprintf("FAIL sig=res/lateworker/limiter-slot-leaked held=%d of %d after %d finished attempts", a, resolver.VerifC11AttemptCap(resR), n)
		case refused > 0:
			or = fmt.Sprintf("FAIL sig=res/lateworker/no-free-slot refused=%d", refused)
		case l+p+v6+z != 0:
			or = fmt.Sprintf("FAIL sig=res/lateworker/other-limiter-held lookups=%d probes=%d v6=%d zones=%d", l, p, v6, z)
		}
		return vlib.Res{Impl: fmt.Sprintf("held=%d", a), Oracle: or, Tags: "nt"}
	case "end":
		if resH != nil {
			resH.Stop()
			_ = os.RemoveAll(resDir)
			resH, resR = nil, nil
		}
		return vlib.Res{Impl: "closed"}
	}
	return vlib.Res{Impl: "bad-op"}
}

// execBurst:  burst new | burst send <d0,d1,…>   with d = a|b|c (live client sockets) or x (refused destination)
func execBurst(f []string) vlib.Res {
	switch f[1] {
	case "new":
		return vlib.Res{Impl: "ok"}
	case "send", "flush":
		// send:  the staged burst goes through sendGroup.
		// flush: the burst is staged on a worker and the request served next leaves
		//        the fast path (FlushStaged): every staged reply must leave NOW.
		if len(f) != 3 {
			return vlib.Res{Impl: "bad-op"}
		}
		dests := strings.Split(f[2], ",")
		socks := map[string]*net.UDPConn{}
		defer func() {
			for _, c := range socks {
				c.Close()
			}
		}()
		var ids []uint16
		var ports []int
		want := map[string]map[uint16]bool{}
		for i, d := range dests {
			id := uint16(101 + i)
			ids = append(ids, id)
			if d == "x" {
				ports = append(ports, 0)
				continue
			}
			if d != "a" && d != "b" && d != "c" {
				return vlib.Res{Impl: "bad-op"}
			}
			if socks[d] == nil {
				c, err := net.ListenUDP("udp", &net.UDPAddr{IP: net.IPv4(127, 0, 0, 1)})
				if err != nil {
					return vlib.Res{Impl: "no-socket"}
				}
				socks[d] = c
				want[d] = map[uint16]bool{}
			}
			want[d][id] = true
			ports = append(ports, socks[d].LocalAddr().(*net.UDPAddr).Port)
		}
		still := 0
		if f[1] == "flush" {
			n, ok := server.VerifC11FlushStaged(ids, ports)
			if !ok {
				return vlib.Res{Impl: "unavailable", Tags: "no-batch-tx"}
			}
			still = n
		} else if !server.VerifC11SendBurst(ids, ports) {
			return vlib.Res{Impl: "unavailable", Tags: "no-batch-tx"}
		}
		or := "ok"
		if still != 0 {
			or = fmt.Sprintf("FAIL sig=burst/flush/staged-replies-held-across-slow-path still=%d burst=%s", still, f[2])
		}
		total := 0
		perID := map[uint16]int{}
		for _, d := range []string{"a", "b", "c"} {
			c := socks[d]
			if c == nil {
				continue
			}
			got := map[uint16]int{}
			buf := make([]byte, 1500)
			for {
				_ = c.SetReadDeadline(time.Now().Add(25 * time.Millisecond))
				n, err := c.Read(buf)
				if err != nil {
					break
				}
				m := new(dns.Msg)
				if m.Unpack(buf[:n]) != nil {
					or = "FAIL sig=burst/send/undecodable-reply"
					continue
				}
				got[m.Id]++
				perID[m.Id]++
				total++
			}
			for id := range want[d] {
				if got[id] > 1 && or == "ok" {
					or = fmt.Sprintf("FAIL sig=burst/send/duplicate-reply client=%s id=%d n=%d burst=%s", d, id, got[id], f[2])
				}
				if got[id] == 0 && or == "ok" {
					or = fmt.Sprintf("FAIL sig=burst/%s/reply-lost client=%s id=%d burst=%s", f[1], d, id, f[2])
				}
			}
			for id, n := range got {
				if !want[d][id] && or == "ok" {
					or = fmt.Sprintf("FAIL sig=burst/send/foreign-reply client=%s id=%d n=%d", d, id, n)
				}
			}
		}
		tags := ""
		if (strings.Contains(f[2], "x") && len(dests) > 1) || f[1] == "flush" {
			tags = "nt"
		}
		var counts []string
		for _, id := range ids {
			counts = append(counts, fmt.Sprint(perID[id]))
		}
		impl := "counts=" + strings.Join(counts, ",")
		if f[1] == "flush" {
			impl = fmt.Sprintf("still=%d %s", still, impl)
		}
		_ = total
		return vlib.Res{Impl: impl, Oracle: or, Tags: tags}
	}
	return vlib.Res{Impl: "bad-op"}
}

// ---------------------------------------------------------------- eff / proc

// fakeCtx is a context with exactly the stated observable state.
type fakeCtx struct {
	context.Context
	deadline    time.Time
	hasDeadline bool
	err         error
	done        chan struct{}
}

func (c *fakeCtx) Deadline() (time.Time, bool) { return c.deadline, c.hasDeadline }
func (c *fakeCtx) Err() error                  { return c.err }
func (c *fakeCtx) Done() <-chan struct{} {
	if c.done == nil {
		return nil
	}
	return c.done
}

func errName(err error) string {
	switch {
	case err == nil:
		return "none"
	case errors.Is(err, context.DeadlineExceeded):
		return "deadline"
	case errors.Is(err, context.Canceled):
		return "canceled"
	}
	return "other"
}

// execEff: eff <none|deadline|canceled> <hasDeadline t/f> <clockPast t/f> — the real contextutil.EffectiveError.
func execEff(f []string) vlib.Res {
	if len(f) == 2 && f[1] == "new" {
		return vlib.Res{Impl: "ok"}
	}
	if len(f) != 4 {
		return vlib.Res{Impl: "bad-op"}
	}
	c := &fakeCtx{Context: context.Background(), hasDeadline: f[2] == "t"}
	switch f[1] {
	case "none":
	case "deadline":
		c.err = context.DeadlineExceeded
	case "canceled":
		c.err = context.Canceled
	default:
		return vlib.Res{Impl: "bad-op"}
	}
	if f[3] == "t" {
		c.deadline = time.Now().Add(-time.Millisecond)
	} else {
		c.deadline = time.Now().Add(time.Hour)
	}
	got := errName(contextutil.EffectiveError(c))
	// property: a request is over as soon as its deadline has been reached or its context says so
	over := c.err != nil || (c.hasDeadline && f[3] == "t")
	or := "ok"
	if over != (got != "none") {
		or = fmt.Sprintf("FAIL sig=eff/expiry-not-reported over=%v got=%s", over, got)
	}
	return vlib.Res{Impl: got, Oracle: or, Tags: "nt"}
}

type countingDown struct{ calls atomic.Int32 }

func (d *countingDown) Name() string { return "c11down" }
func (d *countingDown) ServeDNS(ctx context.Context, ch *middleware.Chain) {
	d.calls.Add(1)
	req := ch.Request.Msg()
	m := new(dns.Msg)
	m.SetReply(req)
	m.RecursionAvailable = true
	rr, _ := dns.NewRR(req.Question[0].Name + " 60 IN A 192.0.2.99")
	m.Answer = []dns.RR{rr}
	_ = ch.Writer.WriteMsg(m)
	ch.Cancel()
}

var procSerial int

// execProc: proc <leader|follower> <live|late|expired|lazy|canceled> — one request
// through the REAL Cache.ServeDNS (chain: cache, answering downstream) on the miss
// path with the given context; a follower is parked behind an installed dedup leader
// that finishes 60 ms later (live/late: no usable Done channel) or is woken by its
// own Done channel (expired/lazy/canceled).
func execProc(f []string) vlib.Res {
	if len(f) == 2 && f[1] == "new" {
		return vlib.Res{Impl: "ok"}
	}
	if len(f) != 3 {
		return vlib.Res{Impl: "bad-op"}
	}
	leader := f[1] == "leader"
	if !leader && f[1] != "follower" {
		return vlib.Res{Impl: "bad-op"}
	}
	base := os.Getenv("VERIF_DIR")
	if base == "" {
		base = "/verif"
	}
	c := cache.New(&config.Config{CacheSize: 1024})
	defer c.Stop()
	procSerial++
	req := new(dns.Msg)
	req.SetQuestion(fmt.Sprintf("p%d.proc.c11.test.", procSerial), dns.TypeA)
	req.SetEdns0(1232, false)
	past := time.Now().Add(-time.Millisecond)
	soon := time.Now().Add(25 * time.Millisecond)
	var ctx context.Context
	var cancels []func()
	expiredKind := false
	switch f[2] {
	case "live":
		c2, cancel := context.WithTimeout(context.Background(), 10*time.Second)
		ctx, cancels = c2, append(cancels, cancel)
	case "late": // deadline reached on the clock, timer not fired: Err nil, Done never closes
		d := past
		if !leader {
			d = soon // passes while the follower is parked
		}
		ctx, expiredKind = &fakeCtx{Context: context.Background(), deadline: d, hasDeadline: true}, true
	case "expired":
		c2, cancel := context.WithDeadline(context.Background(), past)
		ctx, cancels, expiredKind = c2, append(cancels, cancel), true
	case "lazy":
		l := contextutil.WithLazyDeadline(context.Background(), past)
		ctx, cancels, expiredKind = l, append(cancels, l.Cancel), true
	case "canceled":
		c2, cancel := context.WithCancel(context.Background())
		cancel()
		ctx = c2
	default:
		return vlib.Res{Impl: "bad-op"}
	}
	defer func() {
		for _, fn := range cancels {
			fn()
		}
	}()
	down := &countingDown{}
	w := mock.NewWriter("udp", "192.0.2.7:53000")
	ch := middleware.NewChain([]middleware.Handler{c, down})
	ch.Reset(w, req)
	if leader {
		ch.Next(ctx)
	} else {
		key := cache.CacheKey{Question: req.Question[0], CD: false}.Hash()
		doneLeader, ok := cache.VerifC11DedupLeader(c, key)
		if !ok {
			return vlib.Res{Impl: "no-leader"}
		}
		fin := make(chan struct{})
		go func() { defer close(fin); ch.Next(ctx) }()
		select {
		case <-fin: // woken by its own Done channel
		case <-time.After(60 * time.Millisecond):
		}
		doneLeader()
		select {
		case <-fin:
		case <-time.After(5 * time.Second):
			return vlib.Res{Impl: "parked", Oracle: "FAIL sig=proc/follower/still-parked-after-leader-finished ctx=" + f[2], Tags: "nt"}
		}
	}
	writes, out := 0, "none"
	if w.Written() {
		writes = 1
		switch {
		case w.Msg().Rcode == dns.RcodeServerFailure:
			out = "servfail"
		case w.Msg().Rcode == dns.RcodeSuccess && down.calls.Load() > 0:
			out = "down"
		default:
			out = "other"
		}
	}
	or := "ok"
	switch {
	case expiredKind && writes == 0:
		or = fmt.Sprintf("FAIL sig=proc/%s/expired-query-got-no-reply ctx=%s", f[1], f[2])
	case expiredKind && out != "servfail":
		or = fmt.Sprintf("FAIL sig=proc/%s/expired-query-not-servfail ctx=%s out=%s down=%d", f[1], f[2], out, down.calls.Load())
	case f[2] == "live" && (writes != 1 || out != "down"):
		or = fmt.Sprintf("FAIL sig=proc/%s/live-query-not-answered out=%s", f[1], out)
	}
	return vlib.Res{Impl: fmt.Sprintf("writes=%d out=%s", writes, out), Oracle: or, Tags: "nt"}
}

// ---------------------------------------------------------------- inl / bw

func tcpWriteWaitMs() int {
	_, ww, _ := server.VerifC11BeforeWrite(0)
	return int(ww / time.Millisecond)
}

// execInl: inl <wrote> <handoff> <panics> <replayWrote> — the REAL udpEngine.serveInline
// (+ the worker's serve after a hand-back) against a scripted inline handler.
func execInl(f []string) vlib.Res {
	if len(f) == 2 && f[1] == "new" {
		return vlib.Res{Impl: "ok"}
	}
	if len(f) != 5 {
		return vlib.Res{Impl: "bad-op"}
	}
	wrote, handoff, panics, rw := f[1] == "t", f[2] == "t", f[3] == "t", f[4] == "t"
	staged, replays, releases, ok := server.VerifC11ServeInline(wrote, handoff, panics, rw)
	if !ok {
		return vlib.Res{Impl: "unavailable", Tags: "no-inline"}
	}
	or := "ok"
	switch {
	case staged > 1:
		or = fmt.Sprintf("FAIL sig=inl/second-datagram-for-one-query staged=%d", staged)
	case wrote && replays > 0:
		or = "FAIL sig=inl/staged-reply-replayed"
	case replays > 1:
		or = fmt.Sprintf("FAIL sig=inl/replayed-more-than-once n=%d", replays)
	case releases != 1:
		or = fmt.Sprintf("FAIL sig=inl/job-released-%d-times", releases)
	case wrote && staged != 1:
		or = "FAIL sig=inl/staged-reply-lost"
	}
	return vlib.Res{Impl: fmt.Sprintf("datagrams=%d replays=%d releases=%d", staged, replays, releases), Oracle: or, Tags: "nt"}
}

// execBW: bw <prev_ms> — tcpStream.beforeWrite on a stream whose current deadline lies prev_ms from now (0: none).
func execBW(f []string) vlib.Res {
	if len(f) != 2 {
		return vlib.Res{Impl: "bad-op"}
	}
	if f[1] == "new" {
		return vlib.Res{Impl: "ok"}
	}
	armed, ww, err := server.VerifC11BeforeWrite(time.Duration(vlib.AtoI64(f[1])) * time.Millisecond)
	if err != nil {
		return vlib.Res{Impl: "err"}
	}
	impl := fmt.Sprintf("armed=%d", armed.Milliseconds())
	if d := armed - ww; d > -100*time.Millisecond && d < 100*time.Millisecond {
		impl = "armed=writewait"
	}
	or := "ok"
	if armed <= 0 {
		or = fmt.Sprintf("FAIL sig=bw/write-deadline-in-the-past armed=%s prev=%sms", armed, f[1])
	} else if impl != "armed=writewait" {
		or = fmt.Sprintf("FAIL sig=bw/write-deadline-not-fresh armed=%s want=%s", armed, ww)
	}
	return vlib.Res{Impl: impl, Oracle: or, Tags: "nt"}
}

// execTCPClass: tcpclass <len> — the admission-token class (tcpEngine.tokens) and the slab class (largeClass) of a frame length.
func execTCPClass(f []string) vlib.Res {
	if len(f) == 2 && f[1] == "new" {
		return vlib.Res{Impl: "ok"}
	}
	if len(f) != 2 {
		return vlib.Res{Impl: "bad-op"}
	}
	tl, sl := server.VerifC11TCPClass(vlib.Atoi(f[1]))
	or := "ok"
	if tl != sl {
		or = fmt.Sprintf("FAIL sig=tcpclass/token-and-slab-class-disagree len=%s token-large=%v slab-large=%v", f[1], tl, sl)
	}
	return vlib.Res{Impl: fmt.Sprintf("token=%s slab=%s", map[bool]string{true: "large", false: "small"}[tl], map[bool]string{true: "large", false: "small"}[sl]), Oracle: or, Tags: "nt"}
}

func tcpClassFacts() (mismatches []int, smallFrame int) {
	bad, sf := server.VerifC11TCPClassMismatches()
	if bad == nil {
		bad = []int{}
	}
	return bad, sf
}

// ---------------------------------------------------------------- accept

type fakeNetErr struct {
	msg                string
	timeout, temporary bool
}

func (e fakeNetErr) Error() string   { return e.msg }
func (e fakeNetErr) Timeout() bool   { return e.timeout }
func (e fakeNetErr) Temporary() bool { return e.temporary }

func acceptErr(kind string) error {
	op := func(errno syscall.Errno) error {
		return &net.OpError{Op: "accept", Net: "tcp", Err: os.NewSyscallError("accept4", errno)}
	}
	switch kind {
	case "timeout":
		return fakeNetErr{"i/o timeout", true, true}
	case "emfile":
		return op(syscall.EMFILE)
	case "econnaborted":
		return op(syscall.ECONNABORTED)
	case "ehostunreach":
		return op(syscall.EHOSTUNREACH)
	case "enetdown":
		return op(syscall.ENETDOWN)
	case "eproto":
		return op(syscall.EPROTO)
	case "enobufs":
		return op(syscall.ENOBUFS)
	case "enomem":
		return op(syscall.ENOMEM)
	case "plain":
		return errors.New("accept: something else")
	case "nettemp":
		return fakeNetErr{"temporary", false, true}
	case "netperm":
		return fakeNetErr{"permanent", false, false}
	}
	return nil
}

// execAccept: accept <kind,kind,…> — the REAL tcpEngine.acceptLoop meets these Accept errors; the next client must still be admitted.
func execAccept(f []string) vlib.Res {
	if len(f) == 2 && f[1] == "new" {
		return vlib.Res{Impl: "ok"}
	}
	if len(f) != 2 {
		return vlib.Res{Impl: "bad-op"}
	}
	var errs []error
	if f[1] != "-" {
		for _, k := range strings.Split(f[1], ",") {
			e := acceptErr(k)
			if e == nil {
				return vlib.Res{Impl: "bad-op"}
			}
			errs = append(errs, e)
		}
	}
	ok := server.VerifC11AcceptLoop(errs, 3*time.Second)
	or := "ok"
	if !ok {
		or = "FAIL sig=accept/listener-stops-admitting-after-accept-error errors=" + f[1]
	}
	return vlib.Res{Impl: "admitted=" + vlib.B(ok), Oracle: or, Tags: "nt"}
}

// ---------------------------------------------------------------- conncap / fill / dialer

// execConnCap: conncap <cap> <burst> — the REAL accept loop with a connection cap: a burst over the cap, everybody leaves, a late client connects.
func execConnCap(f []string) vlib.Res {
	if len(f) == 2 && f[1] == "new" {
		return vlib.Res{Impl: "ok"}
	}
	if len(f) != 3 {
		return vlib.Res{Impl: "bad-op"}
	}
	capN, burst := vlib.Atoi(f[1]), vlib.Atoi(f[2])
	adm, after, late := server.VerifC11ConnCap(capN, burst, 3*time.Second)
	or := "ok"
	switch {
	case after != 0:
		or = fmt.Sprintf("FAIL sig=conncap/connection-slot-leaked-by-refusal active=%d with nobody connected cap=%d burst=%d", after, capN, burst)
	case !late:
		or = fmt.Sprintf("FAIL sig=conncap/client-refused-after-load-stopped cap=%d burst=%d", capN, burst)
	case adm > capN:
		or = fmt.Sprintf("FAIL sig=conncap/cap-exceeded admitted=%d cap=%d", adm, capN)
	}
	return vlib.Res{Impl: fmt.Sprintf("admitted=%d refused=%d after=%d next=%s", adm, burst-adm, after, vlib.B(late)), Oracle: or, Tags: "nt"}
}

// execFill: fill <start> <end> <avail> — the REAL tcpStream.fillMore with bytes [start,end) unread.
func execFill(f []string) vlib.Res {
	if len(f) == 2 && f[1] == "new" {
		return vlib.Res{Impl: "ok"}
	}
	if len(f) != 4 {
		return vlib.Res{Impl: "bad-op"}
	}
	start, end, avail := vlib.Atoi(f[1]), vlib.Atoi(f[2]), vlib.Atoi(f[3])
	ns, ne, errs, size := server.VerifC11FillMore(start, end, avail)
	if end > size {
		end = size
	}
	unread := end - start
	or := "ok"
	switch {
	case unread < size && avail > 0 && errs != "":
		// there was room for more (the unread part is smaller than the buffer) and the client had bytes ready
		or = fmt.Sprintf("FAIL sig=fill/refill-refused-with-room-left start=%d end=%d unread=%d size=%d err=%s", start, end, unread, size, errs)
	case errs == "" && ne-ns <= unread:
		or = fmt.Sprintf("FAIL sig=fill/no-progress unread=%d now=%d", unread, ne-ns)
	}
	got := ne - ns - unread
	if errs != "" {
		got = 0
	}
	return vlib.Res{Impl: fmt.Sprintf("start=%d read=%d err=%s", ns, got, map[bool]string{true: "-", false: errs}[errs == ""]), Oracle: or, Tags: "nt"}
}

// execDialer: dialer <n_ips> <reqid> <tcp|udp> — which configured outbound address newDialer binds for a client message id.
var (
	dialR   *resolver.Resolver
	dialH   *resolver.DNSHandler
	dialN   int
	dialDir string
)

func execDialer(f []string) vlib.Res {
	if len(f) == 2 && f[1] == "new" {
		return vlib.Res{Impl: "ok"}
	}
	if len(f) != 4 {
		return vlib.Res{Impl: "bad-op"}
	}
	n, id := vlib.Atoi(f[1]), vlib.Atoi(f[2])
	if dialR == nil || dialN != n {
		if dialH != nil {
			dialH.Stop()
			_ = os.RemoveAll(dialDir)
		}
		base := os.Getenv("VERIF_DIR")
		if base == "" {
			base = "/verif"
		}
		_ = os.MkdirAll(base+"/build/tmp-c11", 0o750)
		dialDir, _ = os.MkdirTemp(base+"/build/tmp-c11", "dial")
		cfg := new(config.Config)
		cfg.Directory = dialDir
		cfg.RootServers = []string{"192.0.2.1:53"}
		cfg.DNSSEC = "off"
		for i := 0; i < n; i++ {
			cfg.OutboundIPs = append(cfg.OutboundIPs, "127.0.0.1") // must be local addresses; told apart by identity
		}
		dialH = resolver.New(cfg)
		dialR = resolver.VerifResolver(dialH)
		dialN = n
	}
	idx, conf := resolver.VerifC11DialerIndex(dialR, uint16(id), f[3]) // a panic here is reported by vlib as FAIL sig=panic
	or := "ok"
	if conf > 0 && (idx < 0 || idx >= conf) {
		or = fmt.Sprintf("FAIL sig=dialer/outbound-address-out-of-range id=%d n=%d", id, conf)
	}
	return vlib.Res{Impl: fmt.Sprintf("index=%d", idx), Oracle: or, Tags: "nt"}
}

// ---------------------------------------------------------------- drain

// execDrain: drain <s<len>|f|x,…> — the REAL tcpStream stage/flush over a pipe; ids = position in the script.
func execDrain(f []string) vlib.Res {
	if len(f) == 2 && f[1] == "new" {
		return vlib.Res{Impl: "ok"}
	}
	if len(f) != 2 {
		return vlib.Res{Impl: "bad-op"}
	}
	var ops []server.VerifC11DrainOp
	var staged []int
	broke := false
	for i, t := range strings.Split(f[1], ",") {
		switch {
		case t == "f":
			ops = append(ops, server.VerifC11DrainOp{Kind: 'f'})
		case t == "x":
			ops = append(ops, server.VerifC11DrainOp{Kind: 'x'})
			broke = true
		case strings.HasPrefix(t, "s"):
			l := vlib.Atoi(t[1:])
			if l < 2 {
				return vlib.Res{Impl: "bad-op"}
			}
			ops = append(ops, server.VerifC11DrainOp{Kind: 's', ID: uint16(i), Len: l})
			if l <= 65535 {
				staged = append(staged, i)
			}
		default:
			return vlib.Res{Impl: "bad-op"}
		}
	}
	okays, wire, _ := server.VerifC11DrainRun(ops)
	res := make([]byte, len(okays))
	for i, o := range okays {
		res[i] = 'e'
		if o {
			res[i] = 'o'
		}
	}
	var ws []string
	for _, w := range wire {
		ws = append(ws, fmt.Sprint(w))
	}
	wireS := "-"
	if len(ws) > 0 {
		wireS = strings.Join(ws, ",")
	}
	// oracle: never twice, never out of order, nothing foreign; with the peer present
	// and a final flush, every staged reply exactly once
	or := "ok"
	seen := map[uint16]bool{}
	last := -1
	for _, w := range wire {
		switch {
		case seen[w]:
			or = fmt.Sprintf("FAIL sig=drain/reply-written-twice id=%d script=%s", w, f[1])
		case int(w) <= last:
			or = fmt.Sprintf("FAIL sig=drain/replies-out-of-order id=%d after=%d", w, last)
		}
		seen[w] = true
		last = int(w)
	}
	if or == "ok" && !broke && strings.HasSuffix(f[1], ",f") {
		for _, id := range staged {
			if !seen[uint16(id)] {
				or = fmt.Sprintf("FAIL sig=drain/staged-reply-lost id=%d script=%s", id, f[1])
				break
			}
		}
	}
	return vlib.Res{Impl: fmt.Sprintf("res=%s wire=%s", res, wireS), Oracle: or, Tags: "nt"}
}
