//go:build verif

package main

// "ing": the server's ingress entries (ServeRaw, ServeRawInline + ServeRawReplay,
// ServeRawReplay alone, ServeMsg) driven in process on strict-slot jobs
// (server.VerifJob) over the real edns + cache handlers and a recording tail that
// notes the deadline each request runs under.  Compared with the model
// (ingressDeadline / ingressServes); the oracle demands that a raw entry's
// deadline is arrival + QueryTimeout however late a worker picks the job up.

import (
	"context"
	"fmt"
	"net"
	"os"
	"path/filepath"
	"strings"
	"sync"
	"time"

	"github.com/miekg/dns"
	"github.com/semihalev/sdns/config"
	"github.com/semihalev/sdns/internal/verif/srvh"
	"github.com/semihalev/sdns/internal/verif/vlib"
	"github.com/semihalev/sdns/middleware"
	"github.com/semihalev/sdns/middleware/cache"
	"github.com/semihalev/sdns/middleware/edns"
	"github.com/semihalev/sdns/server"
)

type ingRecorder struct {
	mu       sync.Mutex
	calls    int
	deadline time.Time
	hasDL    bool
	byName   map[string][2]time.Time // qname → (entry, deadline)
}

func (r *ingRecorder) Name() string { return "c11rec" }
func (r *ingRecorder) ServeDNS(ctx context.Context, ch *middleware.Chain) {
	ctx, req := ch.Materialize(ctx)
	if req == nil {
		return
	}
	r.mu.Lock()
	r.calls++
	r.deadline, r.hasDL = ctx.Deadline()
	if r.byName == nil {
		r.byName = map[string][2]time.Time{}
	}
	r.byName[strings.ToLower(req.Question[0].Name)] = [2]time.Time{time.Now(), r.deadline}
	r.mu.Unlock()
	if verb, d := ddParse(req.Question[0].Name); verb == "slow" { // a slow resolution
		time.Sleep(d)
	}
	m := new(dns.Msg)
	m.SetReply(req)
	m.RecursionAvailable = true
	rr, _ := dns.NewRR(req.Question[0].Name + " 60 IN A 192.0.2.55")
	m.Answer = []dns.RR{rr}
	_ = ch.Writer.WriteMsg(m)
	ch.Cancel()
}

type ingEnv struct {
	srv    *server.Server
	cache  *cache.Cache
	rec    *ingRecorder
	qto    time.Duration
	dir    string
	serial int
	addr   string
	cancel context.CancelFunc
}

var ing *ingEnv

func (e *ingEnv) close() {
	if e == nil {
		return
	}
	if e.cancel != nil {
		e.cancel()
		waitFor(3*time.Second, e.srv.Stopped)
	}
	e.srv.Stop()
	if e.cache != nil {
		e.cache.Stop()
	}
	_ = os.RemoveAll(e.dir)
	middleware.Reset()
}

func ingPacket(shape, name string, id uint16) ([]byte, *dns.Msg) {
	m := new(dns.Msg)
	m.SetQuestion(name, dns.TypeA)
	m.Id = id
	m.RecursionDesired = true
	if shape != "noedns" {
		m.SetEdns0(1232, false)
	}
	switch shape {
	case "auth": // a stray authority record: decodable, not strict-eligible
		rr, _ := dns.NewRR("stray.test. 60 IN NS ns.stray.test.")
		m.Ns = []dns.RR{rr}
	case "answer":
		rr, _ := dns.NewRR("stray.test. 60 IN A 192.0.2.1")
		m.Answer = []dns.RR{rr}
	case "opt2": // a second OPT
		o := new(dns.OPT)
		o.Hdr.Name, o.Hdr.Rrtype = ".", dns.TypeOPT
		o.SetUDPSize(1232)
		m.Extra = append(m.Extra, o)
	case "compressed":
		// qname spelled with a (legal) compression pointer to itself is not
		// expressible through the packer; use an additional record whose owner
		// compresses against the question instead
		rr, _ := dns.NewRR(name + " 60 IN TXT \"x\"")
		m.Extra = append([]dns.RR{rr}, m.Extra...)
		m.Compress = true
	}
	b, err := m.Pack()
	if err != nil {
		return nil, nil
	}
	return b, m
}

// execIng:  ing new <qto_ms> | ing serve <raw|inline|replay|msg> <shape> <udp|tcp> <age_ms> | ing end
func execIng(f []string) vlib.Res {
	switch f[1] {
	case "new":
		if len(f) != 3 {
			return vlib.Res{Impl: "bad-op"}
		}
		closeAll()
		middleware.Reset()
		base := os.Getenv("VERIF_DIR")
		if base == "" {
			base = "/verif"
		}
		e := &ingEnv{rec: &ingRecorder{}, qto: time.Duration(vlib.Atoi(f[2])) * time.Millisecond}
		e.dir = filepath.Join(base, "build", "tmp-c11", fmt.Sprintf("i%d-%d", os.Getpid(), sysSeq.Add(1)))
		_ = os.MkdirAll(e.dir, 0o750)
		cfg := new(config.Config)
		cfg.Directory = e.dir
		cfg.CacheSize = 4096
		cfg.Expire = 600
		cfg.QueryTimeout.Duration = e.qto
		cfg.Bind = fmt.Sprintf("127.0.0.1:%d", freePort())
		middleware.Register("edns", func(c *config.Config) middleware.Handler { return edns.New(c) })
		middleware.Register("cache", func(c *config.Config) middleware.Handler { e.cache = cache.New(c); return e.cache })
		middleware.Register("c11rec", func(*config.Config) middleware.Handler { return e.rec })
		middleware.Setup(cfg)
		e.srv = server.New(cfg)
		e.addr = cfg.Bind
		rctx, cancel := context.WithCancel(context.Background())
		e.cancel = cancel
		if err := e.srv.Run(rctx); err != nil {
			cancel()
			return vlib.Res{Impl: "no-listen"}
		}
		ing = e
		return vlib.Res{Impl: "ok", Tags: fmt.Sprintf("inline=%s", vlib.B(e.srv.InlineReady()))}
	case "serve":
		if ing == nil || len(f) != 6 {
			return vlib.Res{Impl: "bad-op"}
		}
		e := ing
		e.serial++
		entry, shape, proto := f[2], f[3], f[4]
		age := time.Duration(vlib.Atoi(f[5])) * time.Millisecond
		name := fmt.Sprintf("q%d.ing.c11.test.", e.serial)
		pkt, msg := ingPacket(shape, name, uint16(4000+e.serial))
		if pkt == nil {
			return vlib.Res{Impl: "bad-op"}
		}
		var remote net.Addr = &net.UDPAddr{IP: net.IPv4(203, 0, 113, 7), Port: 4242}
		if proto == "tcp" {
			remote = &net.TCPAddr{IP: net.IPv4(203, 0, 113, 7), Port: 4242}
		}
		e.rec.mu.Lock()
		e.rec.calls, e.rec.hasDL = 0, false
		e.rec.mu.Unlock()
		readTime := time.Now().Add(-age)
		anchor := readTime
		writes := 0
		switch entry {
		case "raw":
			job := &server.VerifJob{Remote: remote}
			if !e.srv.ServeRaw(job, pkt, readTime) {
				return vlib.Res{Impl: "undecodable"}
			}
			writes = len(job.Writes)
		case "inline":
			job := &server.VerifJob{Remote: remote}
			if !e.srv.InlineReady() {
				return vlib.Res{Impl: "no-inline"}
			}
			if !e.srv.ServeRawInline(job, pkt, readTime) {
				e.srv.ServeRawReplay(job, pkt, readTime) // the worker picks the job up `age` after it arrived
			}
			writes = len(job.Writes)
		case "replay":
			job := &server.VerifJob{Remote: remote}
			e.srv.ServeRawReplay(job, pkt, readTime)
			writes = len(job.Writes)
		case "msg":
			w := &srvh.MsgWriter{Remote: remote, ProtoS: "doh"}
			anchor = time.Now()
			e.srv.ServeMsg(context.Background(), w, msg)
			writes = len(w.Msgs)
		default:
			return vlib.Res{Impl: "bad-op"}
		}
		e.rec.mu.Lock()
		calls, dl, has := e.rec.calls, e.rec.deadline, e.rec.hasDL
		e.rec.mu.Unlock()
		dls := "-"
		or := "ok"
		if calls > 0 {
			if !has {
				dls = "none"
				or = "FAIL sig=ing/" + entry + "/request-without-deadline shape=" + shape
			} else {
				d := dl.Sub(anchor)
				if entry == "msg" { // the clock starts at the call: allow the call's own latency
					if d >= e.qto && d < e.qto+250*time.Millisecond {
						d = e.qto
					}
				}
				dls = fmt.Sprint(d.Milliseconds())
				if d != e.qto {
					or = fmt.Sprintf("FAIL sig=ing/%s/deadline-not-anchored-at-arrival shape=%s proto=%s age=%s budget-from-arrival=%s want=%s", entry, shape, proto, age, d, e.qto)
				}
			}
		}
		switch {
		case or != "ok":
		case writes > 1:
			or = fmt.Sprintf("FAIL sig=ing/%s/duplicate-reply shape=%s n=%d", entry, shape, writes)
		case age < e.qto-100*time.Millisecond && (writes != 1 || calls != 1):
			or = fmt.Sprintf("FAIL sig=ing/%s/live-query-not-served shape=%s writes=%d down=%d", entry, shape, writes, calls)
		case entry != "msg" && age >= e.qto && writes == 0:
			or = "-" // expired at pickup: dropped without a reply — the KNOWN finding's class, judged by its own witness
		}
		tags := "nt,shape=" + shape + ",entry=" + entry
		return vlib.Res{Impl: fmt.Sprintf("down=%d writes=%d dl=%s", calls, writes, dls), Oracle: or, Tags: tags}
	case "pipeline": // ing pipeline <slow_ms> <n>: one TCP connection, a slow query then n-1 quick ones in one write;
		// the budget each frame's request runs under, measured from when the server starts serving it
		if ing == nil || len(f) != 4 {
			return vlib.Res{Impl: "bad-op"}
		}
		e := ing
		e.serial++
		n := vlib.Atoi(f[3])
		a := &sysEnv{addr: e.addr, qto: e.qto}
		var cs []*client
		for i := 0; i < n; i++ {
			name := fmt.Sprintf("q%df%d.ing.c11.test.", e.serial, i)
			if i == 0 {
				name = fmt.Sprintf("slow%d-q%d.ing.c11.test.", vlib.Atoi(f[2]), e.serial)
			}
			cs = append(cs, &client{kind: "pipe", name: name, qtype: dns.TypeA, id: uint16(5000 + e.serial*8 + i)})
		}
		a.runTCP(cs, time.Duration(vlib.Atoi(f[2]))*time.Millisecond+600*time.Millisecond, 0)
		var budgets []string
		or := "ok"
		e.rec.mu.Lock()
		for i, c := range cs {
			rec, seen := e.rec.byName[c.name]
			b := "unserved"
			if seen {
				d := rec[1].Sub(rec[0])
				b = fmt.Sprint(d.Milliseconds())
				if d > e.qto-150*time.Millisecond && d <= e.qto+50*time.Millisecond {
					b = "full"
				}
			}
			budgets = append(budgets, b)
			switch {
			case len(c.replies) != 1 && or == "ok":
				or = fmt.Sprintf("FAIL sig=ing/pipeline/reply-count frame=%d n=%d", i, len(c.replies))
			case b != "full" && or == "ok":
				or = fmt.Sprintf("FAIL sig=ing/pipeline/later-frame-charged-earlier-frames-time frame=%d budget=%s want=%s", i, b, e.qto)
			}
		}
		e.rec.mu.Unlock()
		return vlib.Res{Impl: "budgets=" + strings.Join(budgets, ","), Oracle: or, Tags: "nt"}
	case "end":
		closeAll()
		return vlib.Res{Impl: "closed"}
	}
	return vlib.Res{Impl: "bad-op"}
}
