//go:build verif

package main

import (
	"fmt"
	"strings"

	"github.com/semihalev/sdns/internal/verif/vlib"
)

// ---------------------------------------------------------------- rw

func genRW(r *vlib.R, n int, emit func(string)) {
	b := func() string { return vlib.B(r.Chance(1, 5)) }
	for n > 0 {
		emit(fmt.Sprintf("rw new %s %s", vlib.B(r.Bool()), vlib.B(r.Chance(1, 4))))
		k := 3 + r.Intn(10)
		n -= k + 1
		for i := 0; i < k; i++ {
			switch r.Intn(14) {
			case 0, 1:
				emit(fmt.Sprintf("rw write %s %s", vlib.Pick(r, []string{"ok", "ok", "bad"}), b()))
			case 2, 3, 4:
				emit(fmt.Sprintf("rw writemsg %s %s", vlib.Pick(r, []string{"plain", "plain", "exotic"}), b()))
			case 5, 6:
				emit("rw writewire " + b())
			case 7, 8:
				size, res := r.Intn(600), r.Intn(40)
				lease := "-"
				switch r.Intn(4) {
				case 0:
					lease = fmt.Sprint(size + res + r.Intn(64)) // big enough (boundary: exactly enough)
				case 1:
					lease = fmt.Sprint((size + res) * r.Intn(100) / 100) // too small
				case 2:
					lease = fmt.Sprint(size + res)
				}
				emit(fmt.Sprintf("rw begin %d %d %s", size, res, lease))
			case 9, 10:
				emit("rw commit " + b())
			case 11:
				emit("rw abort")
			case 12:
				emit(fmt.Sprintf("rw reset %s %s", vlib.B(r.Bool()), vlib.B(r.Chance(1, 4))))
			default:
				emit("rw write bad f")
			}
		}
	}
}

// ---------------------------------------------------------------- wg

type vproc struct {
	state    int // 0 idle, 1 leader, 2 follower, 3 finished
	key      int
	gen      int
	regroups int
	probe    bool
}

// genWG drives the real wait group the way Cache.ServeDNS does (virtual
// requests with a random scheduler, leaders that finish late or never before
// the bounded wait, followers that regroup) and, in a second stream, with
// arbitrary API calls including ones no caller of the cache makes.
func genWG(r *vlib.R, n int, emit func(string)) {
	for n > 0 {
		emit("wg new")
		n--
		if r.Chance(3, 5) {
			np := 2 + r.Intn(5)
			ps := make([]*vproc, np)
			for i := range ps {
				ps[i] = &vproc{key: 1 + r.Intn(2), probe: r.Chance(2, 3)}
			}
			steps := 10 + r.Intn(40)
			for s := 0; s < steps && n > 0; s++ {
				p := vlib.Pick(r, ps)
				switch p.state {
				case 0:
					emit(fmt.Sprintf("wg join %d", p.key))
					n--
					p.gen = wgLast.id
					if wgLast.leader {
						p.state = 1
					} else {
						p.state = 2
					}
				case 1:
					switch r.Intn(5) {
					case 0: // the leader is stuck: its bounded wait expires first
						emit(fmt.Sprintf("wg timeout g%d", p.gen))
					case 1, 2, 3:
						emit(fmt.Sprintf("wg done %d g%d", p.key, p.gen))
						p.state = 3
					default:
						emit(fmt.Sprintf("wg peek %d", p.key))
					}
					n--
				case 2:
					if wgS == nil || p.gen >= len(wgS.gens) {
						p.state = 3
						continue
					}
					if !closed(wgS.gens[p.gen]) {
						if r.Chance(1, 4) {
							emit(fmt.Sprintf("wg timeout g%d", p.gen))
							n--
						}
						continue
					}
					if !p.probe || p.regroups >= 1 || ctxStr(wgS.gens[p.gen]) == "deadline" && r.Chance(1, 2) {
						p.state = 3 // served from cache / fell through / probe limit
						continue
					}
					if r.Chance(1, 5) {
						p.key = 9 // the failure-probe retry key differs from the first dedup key
					}
					emit(fmt.Sprintf("wg regroup %d g%d", p.key, p.gen))
					n--
					p.regroups++
					p.gen = wgLast.id
					if wgLast.leader {
						p.state = 1
					} else {
						p.state = 2
					}
				case 3:
					if r.Chance(1, 6) { // a new request for the same key arrives
						*p = vproc{key: 1 + r.Intn(2), probe: r.Chance(2, 3)}
					}
				}
			}
			// leaders that are still around finish late (stale Done)
			for _, p := range ps {
				if p.state == 1 {
					emit(fmt.Sprintf("wg done %d g%d", p.key, p.gen))
					n--
				}
			}
			continue
		}
		steps := 6 + r.Intn(24)
		for s := 0; s < steps; s++ {
			ng := 0
			if wgS != nil {
				ng = len(wgS.gens)
			}
			k := 1 + r.Intn(3)
			switch x := r.Intn(10); {
			case x < 3 || ng == 0:
				emit(fmt.Sprintf("wg join %d", k))
			case x < 6:
				if r.Chance(1, 8) {
					emit(fmt.Sprintf("wg regroup %d nil", k))
				} else {
					emit(fmt.Sprintf("wg regroup %d g%d", k, r.Intn(ng)))
				}
			case x < 8:
				emit(fmt.Sprintf("wg done %d g%d", k, r.Intn(ng)))
			case x < 9:
				emit(fmt.Sprintf("wg timeout g%d", r.Intn(ng)))
			default:
				emit(fmt.Sprintf("wg peek %d", k))
			}
			n--
		}
	}
}

// ---------------------------------------------------------------- dedup (srvh)

func genDedup(r *vlib.R, tier string, emit func(string)) {
	rounds := 1
	if tier == "thorough" {
		rounds = 6
	}
	cancel := func() string { return vlib.Pick(r, []string{"-", "-", "leader", "follower"}) }
	for round := 0; round < rounds; round++ {
		// ample pool, production dedup wait
		emit("dedup new 700 0 0")
		emit(fmt.Sprintf("dedup burst ok%d %d %d %d %s %d", 60+r.Intn(120), 2+r.Intn(5), r.Intn(3), 1+r.Intn(2), vlib.Pick(r, []string{"-", "follower"}), r.Intn(3)))
		emit(fmt.Sprintf("dedup burst ok%d %d %d %d leader 0", 80+r.Intn(100), 2+r.Intn(4), 1+r.Intn(2), r.Intn(2)))
		emit(fmt.Sprintf("dedup burst sf%d %d %d %d %s 0", 30+r.Intn(60), 2+r.Intn(4), r.Intn(2), r.Intn(2), cancel()))
		if tier == "thorough" {
			emit(fmt.Sprintf("dedup burst hang %d %d %d %s %d", 2+r.Intn(4), r.Intn(3), r.Intn(2), cancel(), r.Intn(2)))
		}
		emit(fmt.Sprintf("dedup burst stuck %d %d %d - 0", 2+r.Intn(3), 1+r.Intn(2), r.Intn(2)))
		// expired RFC 9520 failure: the next cohort runs the failure-probe path (regroup, probe limit)
		emit("dedup shift 2500")
		emit(fmt.Sprintf("dedup burst sf%d %d %d %d - %d", 40+r.Intn(60), 3+r.Intn(4), 1+r.Intn(2), r.Intn(2), r.Intn(2)))
		emit("dedup drain")
		// bounded wait shorter than the leader's work: followers are released by the timer
		emit(fmt.Sprintf("dedup new 700 %d 0", 80+r.Intn(100)))
		emit(fmt.Sprintf("dedup burst ok%d %d %d %d %s 0", 300+r.Intn(150), 2+r.Intn(4), r.Intn(3), r.Intn(2), cancel()))
		emit(fmt.Sprintf("dedup burst hang %d %d %d - 0", 2+r.Intn(3), 1+r.Intn(2), r.Intn(2)))
		emit("dedup drain")
		// one worker: a finished reply staged ahead of a slow miss must not wait for it
		emit("dedup new 700 0 1")
		emit(fmt.Sprintf("dedup quickslow udp %d %d", 40+r.Intn(60), 450+r.Intn(150)))
		emit(fmt.Sprintf("dedup quickslow tcp %d %d", 40+r.Intn(60), 450+r.Intn(150)))
		emit("dedup drain")
		// two workers, queue of one: queueing and overflow goroutines (fast upstream only)
		emit("dedup new 700 0 2")
		emit(fmt.Sprintf("dedup burst ok%d %d %d %d %s 0", 20+r.Intn(60), 4+r.Intn(6), r.Intn(3), r.Intn(2), cancel()))
		if tier == "thorough" {
			emit(fmt.Sprintf("dedup burst sf%d %d %d %d - 0", 20+r.Intn(40), 4+r.Intn(6), r.Intn(3), 0))
		}
		// budget-long upstream behind the two workers: the KNOWN queue-expiry finding (own signature)
		emit(fmt.Sprintf("dedup burst %s %d %d %d - 0", vlib.Pick(r, []string{"hang", "stuck"}), 3+r.Intn(4), r.Intn(2), r.Intn(2)))
		emit("dedup drain")
	}
	emit("dedup end")
}

// ---------------------------------------------------------------- sys (l3)

var (
	zRecov    = []string{"ok", "lag", "tcok", "wrongid", "wrongq", "multi"}
	zFastFail = []string{"tcreset", "wrongonly", "garbage", "servfail", "refused", "mix"}
	zSlow     = []string{"drop", "slow", "glacial", "tcstall", "flaky"}
)

var waveNo int

func genWave(r *vlib.R, kind string, groups int) string {
	waveNo++
	var parts []string
	total := 0
	zones := append(append([]string{}, zRecov...), zFastFail...)
	// (with kind "i" the slow zones put queries into the ready queue for their whole
	// budget: the KNOWN finding of notes/C11.md, reported under its own signature)
	zones = append(zones, zSlow...)
	if kind != "i" {
		zones = append(zones, zSlow...)
	}
	for i := 0; i < groups && total < 64; i++ {
		tag := string(rune('a' + i))
		zone := vlib.Pick(r, zones)
		n := 2 + r.Intn(5)
		var pat string
		switch x := r.Intn(20); {
		case x < 4:
			pat = "dupudp"
		case x < 6:
			pat = "duptcp"
		case x < 9:
			pat = "dupmix"
		case x < 11:
			pat = "distudp"
		case x < 13:
			pat = "disttcp"
		case x < 14:
			pat, zone = "pipetcp", vlib.Pick(r, zRecov)
			n = 2 + r.Intn(3)
		case x < 15:
			pat = "earlyclose"
			n = 1 + r.Intn(3)
		case x < 17:
			pat = "cancelmsg"
			if r.Chance(2, 3) {
				zone = "lag"
			}
			n = 3 + r.Intn(3)
		case x < 18:
			pat = "cancellead"
			if r.Chance(3, 4) {
				zone = "cold"
			}
			n = 3 + r.Intn(3)
		case x < 19:
			pat, zone = "hot", vlib.Pick(r, zRecov)
		default:
			pat = "half"
			n = 1 + r.Intn(2)
		}
		parts = append(parts, fmt.Sprintf("%s:%s:%d:%s", pat, zone, n, tag))
		total += n
	}
	parts = append(parts, fmt.Sprintf("staged:ok:%d:z", 1+r.Intn(3)))
	parts = append(parts, fmt.Sprintf("junk:ok:%d:t", 1+r.Intn(2)))
	if kind == "n" {
		// six distinct names under the silent zone: the fifth all-servers-failed lookup makes the resolver
		// re-check the zone's name-server hosts (checkHosts) on the failing client's own context
		_ = waveNo
		parts = append(parts, fmt.Sprintf("pipebig:ok:%d:o", 110+r.Intn(60)))
		parts = append(parts, "framesize:ok:12:q", fmt.Sprintf("pipeslow:%s:%d:p", vlib.Pick(r, []string{"drop", "slow", "glacial", "lag"}), 2+r.Intn(2)))
	}
	parts = append(parts, fmt.Sprintf("pipehalf:%s:%d:u", vlib.Pick(r, []string{"ok", "lag", "wrongid"}), 1+r.Intn(3)))
	if kind == "n" {
		parts = append(parts, fmt.Sprintf("cancellead:cold:%d:y", 3+r.Intn(3)))
		parts = append(parts, fmt.Sprintf("cancelpair:pair:%d:x", 3+r.Intn(2)))
	}
	if kind == "z" || kind == "n" {
		parts = append(parts, fmt.Sprintf("idedge:%s:5:i", vlib.Pick(r, []string{"tcok", "tcok", "tcreset", "drop"})))
	}
	if kind == "z" { // more distinct questions for one zone than its quota of 16
		parts = append(parts, fmt.Sprintf("shedreask:lag:%d:s", 22+r.Intn(8)))
	}
	if kind == "r" {
		parts = append(parts, fmt.Sprintf("shedreask:lag:%d:s", 10+r.Intn(6)))
		// hedged peers (one instant, two slow authorities) under a tiny attempt limiter,
		// with clients that leave early
		parts = append(parts, fmt.Sprintf("distudp:multi:%d:w", 6+r.Intn(6)), fmt.Sprintf("earlyclose:multi:%d:v", 2+r.Intn(2)))
	}
	return strings.Join(parts, ";")
}

func genSys(r *vlib.R, tier string, emit func(string)) {
	rounds := 1
	if tier == "thorough" {
		rounds = 8
	}
	for round := 0; round < rounds; round++ {
		emit("sys new n 0")
		emit("sys wave " + genWave(r, "n", 10))
		emit("sys nsaddr first")
		emit("sys nsaddr last")
		emit("sys shift 12000") // cached failures expire: failure-probe cohorts against the failing zones
		emit("sys wave " + genWave(r, "n", 10))
		emit("sys drain")
		emit("sys new r 0")
		emit("sys wave " + genWave(r, "r", 10))
		emit("sys drain")
		emit("sys new z 0")
		emit("sys wave " + genWave(r, "z", 10))
		emit("sys drain")
		if tier == "thorough" {
			emit("sys new i 0")
			emit("sys wave " + genWave(r, "i", 12))
			emit("sys wave " + genWave(r, "i", 12))
			emit("sys drain")
		}
		// on its own (the trigger is sensitive to other load): a silent zone's servers fail for two cohorts,
		// the resolver re-checks the zone's name-server hosts at the fifth all-servers-failed lookup — on the
		// failing client's own context, so nobody waits an extra timeout
		emit("sys new c 0")
		emit("sys fifth 5")
		emit("sys drain")
		if tier == "thorough" {
			emit(fmt.Sprintf("sys new n %d", 150+r.Intn(200))) // dedup wait shorter than a failing resolution
			emit("sys wave " + genWave(r, "n", 10))
			emit("sys drain")
		}
	}
	emit("sys end")
}

// genExtra: limiter slots of late upstream workers; partial batched sends.
func genExtra(r *vlib.R, tier string, emit func(string)) {
	rounds := 2
	if tier == "thorough" {
		rounds = 30
	}
	for i := 0; i < rounds; i++ {
		slots := 2 + r.Intn(7)
		emit(fmt.Sprintf("res new %d", slots))
		emit(fmt.Sprintf("res lateworker %d", 1+r.Intn(slots)))
		emit(fmt.Sprintf("res lateworker %d", slots))
	}
	// the per-zone quota (max(MaxConcurrentQueries/16, 16)) and the resolution pool binding:
	// bursts of distinct questions for one zone against an authority that never answers
	for _, mc := range []int{32, 8} {
		emit(fmt.Sprintf("res new %d", mc))
		emit(fmt.Sprintf("gl burst %d", 18+r.Intn(12)))
		emit(fmt.Sprintf("gl burst %d", 4+r.Intn(12)))
	}
	emit("res end")
	for i := 0; i < rounds*3; i++ {
		q := 1 + r.Intn(6)
		emit(fmt.Sprintf("zl new %d", q))
		for k := 0; k < 3+r.Intn(4); k++ {
			if r.Chance(3, 5) {
				emit(fmt.Sprintf("zl enter %d", 1+r.Intn(q+4)))
			} else {
				emit(fmt.Sprintf("zl leave %d", 1+r.Intn(q+2)))
			}
		}
		emit(fmt.Sprintf("zl leave %d", q+8))
		emit("zl enter 1")
	}
	for i := 0; i < rounds*8; i++ {
		emit("burst new")
		n := 2 + r.Intn(7)
		d := make([]string, n)
		for j := range d {
			d[j] = vlib.Pick(r, []string{"a", "a", "b", "c"})
		}
		switch r.Intn(6) {
		case 0: // nothing refused
		case 1:
			d[n-1] = "x"
		case 2:
			d[0] = "x"
		default:
			d[1+r.Intn(n-1)] = "x"
			if r.Chance(1, 3) {
				d[r.Intn(n)] = "x"
			}
		}
		emit("burst send " + strings.Join(d, ","))
		if i%2 == 0 { // the same burst staged on a worker whose next request leaves the fast path
			for j := range d {
				if d[j] == "x" {
					d[j] = "a"
				}
			}
			emit("burst flush " + strings.Join(d[:1+r.Intn(n)], ","))
		}
	}
	// EffectiveError over its whole domain; the cache's expiry handling for every context shape
	// ingress entries x packet shapes x transports x queueing delay
	emit("ing new 1000")
	shapes := []string{"strict", "noedns", "auth", "answer", "opt2", "compressed"}
	for i := 0; i < rounds*12; i++ {
		age := vlib.Pick(r, []int{0, 0, 50, 300, 600, 800, 1300, 2500})
		emit(fmt.Sprintf("ing serve %s %s %s %d", vlib.Pick(r, []string{"raw", "inline", "inline", "replay", "msg"}),
			shapes[i%len(shapes)], vlib.Pick(r, []string{"udp", "udp", "tcp"}), age))
	}
	emit(fmt.Sprintf("ing pipeline %d %d", 200+r.Intn(300), 2+r.Intn(3)))
	emit("ing pipeline 0 3")
	emit("ing end")
	// the accept loop survives every Accept error but "listener closed"
	emit("accept new")
	akinds := []string{"timeout", "emfile", "econnaborted", "ehostunreach", "enetdown", "eproto", "enobufs", "enomem", "plain", "nettemp", "netperm"}
	for i := 0; i < 6; i++ {
		n := 1 + r.Intn(3)
		var ks []string
		for j := 0; j < n; j++ {
			ks = append(ks, akinds[(i*3+j+r.Intn(2))%len(akinds)])
		}
		emit("accept " + strings.Join(ks, ","))
	}
	emit("accept -")
	// the writer stack: cache wrapper (or not) over edns over the base writer
	for i := 0; i < rounds*12; i++ {
		proto := vlib.Pick(r, []string{"udp", "udp", "tcp"})
		size := vlib.Pick(r, []int{512, 1232, 60, 4096})
		emit(fmt.Sprintf("ws new %s %s %s %s %d %s", vlib.B(r.Bool()), proto, vlib.B(r.Bool()), vlib.B(r.Chance(1, 4)), size, vlib.B(r.Chance(1, 3))))
		for k := 0; k < 2+r.Intn(5); k++ {
			switch r.Intn(5) {
			case 0, 1:
				emit(fmt.Sprintf("ws writemsg %s %s", vlib.Pick(r, []string{"plain", "plain", "exotic"}), vlib.B(r.Chance(1, 5))))
			case 2, 3:
				emit(fmt.Sprintf("ws writewire %d %s %s", vlib.Pick(r, []int{5, 11, 12, 45, 50, 60, 300, 600}), vlib.B(r.Chance(1, 3)), vlib.B(r.Chance(1, 5))))
			default:
				emit(fmt.Sprintf("ws commit %d %s %s", vlib.Pick(r, []int{11, 45, 55, 300, 1230}), vlib.B(r.Chance(1, 3)), vlib.B(r.Chance(1, 5))))
			}
		}
	}
	// the connection's drain buffer: replies of every size class staged and flushed in every order, the
	// peer leaving at any point
	emit("drain new")
	sizes := []int{12, 40, 512, 2000, 4000, 8189, 8190, 8191, 20000, 65535, 65536}
	for i := 0; i < rounds*10; i++ {
		var toks []string
		n := 2 + r.Intn(9)
		for j := 0; j < n; j++ {
			switch x := r.Intn(12); {
			case x < 8:
				toks = append(toks, fmt.Sprintf("s%d", vlib.Pick(r, sizes)))
			case x < 11:
				toks = append(toks, "f")
			default:
				toks = append(toks, "x")
			}
		}
		toks = append(toks, "f")
		emit("drain " + strings.Join(toks, ","))
	}
	// the connection cap: bursts below, at and far above it; afterwards the listener is open again
	emit("conncap new")
	for i := 0; i < 3; i++ {
		c := 2 + r.Intn(5)
		emit(fmt.Sprintf("conncap %d %d", c, vlib.Pick(r, []int{c - 1, c, c + 1, 2*c + 1, 3 * c})))
	}
	// the connection's fill buffer: unread tails of every size at every position, incl. flush against its end
	emit("fill new")
	for i := 0; i < 10; i++ {
		end := vlib.Pick(r, []int{4096, 4096, 4095, 3000, 100})
		unread := vlib.Pick(r, []int{0, 1, 2, 3, 50, 2000, 4094, 4095, 4096})
		if unread > end {
			unread = end
		}
		emit(fmt.Sprintf("fill %d %d %d", end-unread, end, vlib.Pick(r, []int{1, 40, 5000})))
	}
	// outbound address choice by client message id, on both legs
	emit("dialer new")
	for _, n := range []int{1, 3} {
		for _, id := range []int{0, 1, 32767, 32768, 65534, 65535, r.Intn(65536)} {
			emit(fmt.Sprintf("dialer %d %d %s", n, id, vlib.Pick(r, []string{"tcp", "udp"})))
		}
	}
	emit("tcpclass new")
	for _, l := range []int{12, 512, 2047, 2048, 2049, 4096, 16384, 65535, 2040 + r.Intn(16)} {
		emit(fmt.Sprintf("tcpclass %d", l))
	}
	// the engine's inline terminal rule on the real serveInline, all 16 handler behaviours
	emit("inl new")
	for i := 0; i < 16; i++ {
		emit(fmt.Sprintf("inl %s %s %s %s", vlib.B(i&1 != 0), vlib.B(i&2 != 0), vlib.B(i&4 != 0), vlib.B(i&8 != 0)))
	}
	emit("bw new")
	for _, prev := range []int{0, -5000, -1, 300, 1999, 2000, 8000} {
		emit(fmt.Sprintf("bw %d", prev))
	}
	emit("eff new")
	for _, e := range []string{"none", "deadline", "canceled"} {
		for _, hd := range []string{"t", "f"} {
			for _, past := range []string{"t", "f"} {
				emit(fmt.Sprintf("eff %s %s %s", e, hd, past))
			}
		}
	}
	emit("proc new")
	kinds := []string{"live", "late", "expired", "lazy", "canceled"}
	for i := 0; i < rounds*5; i++ {
		emit(fmt.Sprintf("proc %s %s", vlib.Pick(r, []string{"leader", "follower"}), kinds[i%len(kinds)]))
	}
	emit("proc leader late")
	emit("proc follower late")
}

func gen(r *vlib.R, n int, tier string, emit func(string)) {
	genRW(r, n*45/100, emit)
	genWG(r, n*50/100, emit)
	genExtra(r, tier, emit)
	emit("wg new") // own case: the real timer path
	emit("wg realtimer 30")
	genDedup(r, tier, emit)
	genSys(r, tier, emit)
}
