//go:build verif

package main

// ws — the real writer stack: cache.ResponseWriter (optional) over
// edns.ResponseWriter over the base responseWriter over the recording transport.
// Compared with the model `stackCall`; the oracle is the property's: at most one
// transport call, a wire fallback writes nothing, later writes are refused.

import (
	"errors"
	"fmt"
	"strings"

	"github.com/miekg/dns"
	"github.com/semihalev/sdns/config"
	"github.com/semihalev/sdns/internal/verif/vlib"
	"github.com/semihalev/sdns/middleware"
	"github.com/semihalev/sdns/middleware/cache"
	"github.com/semihalev/sdns/middleware/edns"
)

var (
	wsT     *recTransport
	wsTop   middleware.ResponseWriter
	wsBase  middleware.ResponseWriter
	wsCache *cache.Cache
	wsSeq   int
)

type protoTransport struct {
	*recTransport
	proto string
}

func (p protoTransport) Proto() string { return p.proto }

func wsReply(kind string) *dns.Msg {
	wsSeq++
	q := new(dns.Msg)
	q.SetQuestion(fmt.Sprintf("w%d.stack.c11.test.", wsSeq), dns.TypeA)
	m := new(dns.Msg)
	m.SetReply(q)
	rr, _ := dns.NewRR(q.Question[0].Name + " 60 IN A 192.0.2.1")
	m.Answer = []dns.RR{rr}
	if kind == "exotic" {
		m.Rcode = dns.RcodeBadVers
	}
	return m
}

func execWS(f []string) vlib.Res {
	if len(f) < 2 {
		return vlib.Res{Impl: "bad-op"}
	}
	if f[1] == "new" { // ws new <directpack> <udp|tcp> <do> <noedns> <size> <cachelayer>
		if len(f) != 8 {
			return vlib.Res{Impl: "bad-op"}
		}
		wsT = &recTransport{lease: -1}
		wsBase = middleware.VerifC11NewWriter(protoTransport{wsT, f[3]}, f[2] == "t")
		wsTop = edns.VerifC11Wrap(wsBase, f[4] == "t", f[5] == "t", false, vlib.Atoi(f[6]))
		if f[7] == "t" {
			if wsCache == nil {
				wsCache = cache.New(&config.Config{CacheSize: 1024})
			}
			req := new(dns.Msg)
			req.SetQuestion("w.stack.c11.test.", dns.TypeA)
			wsTop = cache.VerifC11WrapWriter(wsCache, wsTop, req)
		}
		return vlib.Res{Impl: "ok"}
	}
	if wsTop == nil {
		return vlib.Res{Impl: "bad-op"}
	}
	before := len(wsT.calls)
	ret := ""
	class := func(err error) string {
		if errors.Is(err, middleware.ErrWireFallback) {
			return "fallback"
		}
		return classify(err)
	}
	switch f[1] {
	case "writemsg":
		if len(f) != 4 {
			return vlib.Res{Impl: "bad-op"}
		}
		wsT.terr = f[3] == "t"
		ret = class(wsTop.WriteMsg(wsReply(f[2])))
	case "writewire", "commit": // ws writewire <len> <hasDNSSEC> <terr>
		if len(f) != 5 {
			return vlib.Res{Impl: "bad-op"}
		}
		wsT.terr = f[4] == "t"
		l := vlib.Atoi(f[2])
		packed, _ := wsReply("plain").Pack()
		body := make([]byte, 0, l+128)
		for len(body) < l { // a body of exactly l bytes: the reply, padded with a TXT-less tail of zero bytes
			n := l - len(body)
			if n > len(packed) {
				n = len(packed)
			}
			body = append(body, packed[:n]...)
		}
		info := middleware.WireInfo{HasDNSSEC: f[3] == "t"}
		var err error
		if f[1] == "commit" {
			if ls, ok := wsTop.(middleware.WireBodyLeaser); ok {
				err = ls.CommitWire(body, info)
			} else {
				ret = "notwire"
			}
		} else {
			if ww, ok := wsTop.(middleware.WireWriter); ok {
				err = ww.WriteWire(body, info)
			} else {
				ret = "notwire"
			}
		}
		if ret == "" {
			ret = class(err)
		}
	default:
		return vlib.Res{Impl: "bad-op"}
	}
	wsT.terr = false
	added := len(wsT.calls) - before
	or := "ok"
	switch {
	case len(wsT.calls) > 1:
		or = fmt.Sprintf("FAIL sig=ws/%s/second-transport-write calls=%s", f[1], strings.Join(wsT.calls, ","))
	case (ret == "fallback" || ret == "notwire") && added != 0:
		or = fmt.Sprintf("FAIL sig=ws/%s/fallback-after-bytes-were-written", f[1])
	case before > 0 && ret != "already" && ret != "fallback" && ret != "notwire":
		or = fmt.Sprintf("FAIL sig=ws/%s/late-write-not-refused ret=%s", f[1], ret)
	case before == 0 && f[1] == "writemsg" && added != 1:
		or = fmt.Sprintf("FAIL sig=ws/writemsg/reply-not-transmitted ret=%s", ret)
	case wsBase.Written() != (len(wsT.calls) > 0):
		or = fmt.Sprintf("FAIL sig=ws/%s/written-flag-differs-from-transport", f[1])
	}
	return vlib.Res{Impl: fmt.Sprintf("ret=%s written=%s tx=%s", ret, vlib.B(wsBase.Written()), txStr(wsT.calls)), Oracle: or, Tags: "nt"}
}
