//go:build verif

package main

// System level part of the C11 check (oracle only): REAL sockets in front of
// the REAL server.Server + edns/cache/resolver pipeline (registered through
// middleware.Register + middleware.Setup exactly like harness/l3/pipe.go and
// harness/srvh/srvh.go do), resolving against an l3 world whose zones each
// sit on a server following one fault script.

import (
	"bytes"
	"context"
	"encoding/binary"
	"fmt"
	"io"
	"net"
	"os"
	"path/filepath"
	"runtime"
	"sort"
	"strings"
	"sync"
	"sync/atomic"
	"time"

	"github.com/miekg/dns"
	"github.com/semihalev/sdns/config"
	"github.com/semihalev/sdns/internal/verif/l3"
	"github.com/semihalev/sdns/internal/verif/srvh"
	"github.com/semihalev/sdns/internal/verif/vlib"
	"github.com/semihalev/sdns/middleware"
	"github.com/semihalev/sdns/middleware/cache"
	"github.com/semihalev/sdns/middleware/edns"
	"github.com/semihalev/sdns/middleware/resolver"
	"github.com/semihalev/sdns/server"
)

// ---------------------------------------------------------------- fault zones

// faults lists every scripted zone of a world: <fault>.test. on its own server.
var faults = []string{"ok", "multi", "lag", "drop", "slow", "glacial", "tcok", "tcstall", "tcreset",
	"wrongid", "wrongq", "wrongonly", "garbage", "servfail", "refused", "mix", "flaky"}

// recoverable faults: a conformant resolver can still obtain the answer.
var recoverable = map[string]bool{"ok": true, "multi": true, "lag": true, "tcok": true, "wrongid": true, "wrongq": true}

// zones whose resolution lasts about as long as the query budget
var slowZone = map[string]bool{"drop": true, "slow": true, "glacial": true, "tcstall": true, "flaky": true}

const zoneAddr = "192.0.2.77"

const coldZones = 10

const silentZones = 6

// ---------------------------------------------------------------- probe handler

// probe sits in front of edns/cache/resolver. It never decodes the chain's
// request (that would move wire-born requests off the byte path); it counts
// passes per (id, qname) and, for names starting with "stagedho", plays the
// handler the engine's terminal rule exists for: on the inline pass it
// writes a reply AND marks handoff.
type probe struct {
	mu      sync.Mutex
	inline  map[string]int
	replay  map[string]int
	plain   map[string]int
	staged  atomic.Int64
	handoff atomic.Int64
}

func (p *probe) Name() string { return "c11probe" }

func reqKey(ch *middleware.Chain) (string, []byte) {
	r := ch.Request
	if r == nil {
		return "", nil
	}
	if raw := r.Raw(); raw != nil && r.Undecoded() {
		return fmt.Sprintf("%d/%x", r.ID(), bytes.ToLower(r.WireName())), raw
	}
	if m := r.Msg(); m != nil && len(m.Question) == 1 {
		buf := make([]byte, 300)
		off, err := dns.PackDomainName(strings.ToLower(m.Question[0].Name), buf, 0, nil, false)
		if err == nil {
			return fmt.Sprintf("%d/%x", m.Id, buf[:off]), nil
		}
	}
	return "", nil
}

func (p *probe) ServeDNS(ctx context.Context, ch *middleware.Chain) {
	key, raw := reqKey(ch)
	p.mu.Lock()
	switch {
	case ch.InlineOnly():
		p.inline[key]++
	case ch.Replay():
		p.replay[key]++
	default:
		p.plain[key]++
	}
	p.mu.Unlock()
	if raw != nil && len(raw) > 22 && raw[12] >= 8 && bytes.EqualFold(raw[13:21], []byte("stagedho")) {
		q := new(dns.Msg)
		if q.Unpack(raw) == nil && len(q.Question) == 1 {
			m := new(dns.Msg)
			m.SetReply(q)
			m.RecursionAvailable = true
			txt := "inline"
			if ch.Replay() {
				txt = "replay"
			} else if !ch.InlineOnly() {
				txt = "plain"
			}
			m.Answer = []dns.RR{&dns.TXT{Hdr: dns.RR_Header{Name: q.Question[0].Name, Rrtype: dns.TypeTXT, Class: dns.ClassINET, Ttl: 0}, Txt: []string{txt}}}
			_ = ch.Writer.WriteMsg(m)
			if ch.InlineOnly() {
				p.staged.Add(1)
				ch.MarkHandoff()
			}
			ch.Cancel()
			return
		}
	}
	ch.Next(ctx)
}

// ---------------------------------------------------------------- environment

type sysEnv struct {
	w       *l3.World
	cfg     *config.Config
	srv     *server.Server
	cache   *cache.Cache
	res     *resolver.Resolver
	probe   *probe
	addr    string
	dir     string
	cancel  context.CancelFunc
	garbage *garbageServer
	flaky   atomic.Int64
	late    time.Duration // a reply later than qto+late is judged
	small   bool   // tiny concurrency limits
	kind    string // n: ample limits, i: tiny ingress pool, r: tiny resolver limits
	qto     time.Duration
	uto     time.Duration
	baseLeased int64 // UDP slab leases of the idle server (one reader reserve per socket)
	baseG   int // sdns goroutines after start-up + warm-up
	baseAll int
	nextID  uint32
	cold    int
	pair    int
	sil     int
	shedNames []*client
	serial  int
	maxLat  time.Duration
	inline  bool
}

var env *sysEnv

const (
	sysQueryTimeout    = 1200 * time.Millisecond
	sysUpstreamTimeout = 400 * time.Millisecond
	sysListenMargin    = 2 * time.Second
	lateMargin         = 800 * time.Millisecond
)

func freePort() int {
	for i := 0; i < 100; i++ {
		pc, err := net.ListenPacket("udp", "127.0.0.1:0")
		if err != nil {
			continue
		}
		port := pc.LocalAddr().(*net.UDPAddr).Port
		ln, err := net.Listen("tcp", fmt.Sprintf("127.0.0.1:%d", port))
		pc.Close()
		if err != nil {
			continue
		}
		ln.Close()
		return port
	}
	panic("no free port")
}

var sysSeq atomic.Uint32

func (e *sysEnv) close() {
	if e == nil {
		return
	}
	if e.cancel != nil {
		e.cancel()
		dl := time.Now().Add(e.qto + 3*time.Second)
		for !e.srv.Stopped() && time.Now().Before(dl) {
			time.Sleep(10 * time.Millisecond)
		}
	}
	e.srv.Stop()
	if h, ok := middleware.Get("resolver").(*resolver.DNSHandler); ok && h != nil {
		h.Stop()
	}
	if e.cache != nil {
		e.cache.Stop()
	}
	e.w.Close()
	if e.garbage != nil {
		e.garbage.close()
	}
	_ = os.RemoveAll(e.dir)
	middleware.Reset()
}

// garbageServer answers every datagram / TCP frame with bytes that are not
// a DNS message (the request id followed by junk, a short header, or a
// header promising records that are not there).
type garbageServer struct {
	pc   net.PacketConn
	ln   net.Listener
	n    atomic.Int64
	addr string
}

func junk(req []byte, k int64) []byte {
	id := []byte{0, 0}
	if len(req) >= 2 {
		copy(id, req[:2])
	}
	switch k % 4 {
	case 0: // id + noise
		out := append([]byte{}, id...)
		for i := 0; i < 37; i++ {
			out = append(out, byte(i*73+int(k)))
		}
		return out
	case 1: // five bytes
		return append(id, 0x81, 0x80, 0x00)
	case 2: // header claims 1 question, 3 answers; nothing follows
		return append(id, 0x81, 0x80, 0, 1, 0, 3, 0, 0, 0, 0)
	default: // the question echoed, then an answer cut in the middle of its name
		out := append([]byte{}, req...)
		if len(out) > 7 {
			out[2], out[3], out[7] = 0x81, 0x80, 1
		}
		return append(out, 0xc0)
	}
}

func newGarbageServer() *garbageServer {
	var pc net.PacketConn
	var ln net.Listener
	var err error
	for try := 0; try < 50; try++ {
		pc, err = net.ListenPacket("udp", "127.0.0.1:0")
		if err != nil {
			panic(err)
		}
		ln, err = net.Listen("tcp", pc.LocalAddr().String())
		if err == nil {
			break
		}
		pc.Close()
	}
	if err != nil {
		panic(err)
	}
	g := &garbageServer{pc: pc, ln: ln, addr: pc.LocalAddr().String()}
	go func() {
		buf := make([]byte, 4096)
		for {
			n, a, err := pc.ReadFrom(buf)
			if err != nil {
				return
			}
			pc.WriteTo(junk(buf[:n], g.n.Add(1)), a)
		}
	}()
	go func() {
		for {
			c, err := ln.Accept()
			if err != nil {
				return
			}
			go func(c net.Conn) {
				defer c.Close()
				c.SetDeadline(time.Now().Add(5 * time.Second))
				var l [2]byte
				if _, err := io.ReadFull(c, l[:]); err != nil {
					return
				}
				b := make([]byte, binary.BigEndian.Uint16(l[:]))
				if _, err := io.ReadFull(c, b); err != nil {
					return
				}
				j := junk(b, g.n.Add(1))
				out := make([]byte, 2+len(j))
				binary.BigEndian.PutUint16(out, uint16(len(j)))
				copy(out[2:], j)
				c.Write(out)
			}(c)
		}
	}()
	return g
}

func (g *garbageServer) close() { g.pc.Close(); g.ln.Close() }

func otherQuestion(req *dns.Msg) *dns.Msg {
	m := new(dns.Msg)
	m.SetReply(req)
	m.Authoritative = true
	m.Question[0].Name = "elsewhere." + req.Question[0].Name
	rr, _ := dns.NewRR(m.Question[0].Name + " 60 IN A 203.0.113.66")
	m.Answer = []dns.RR{rr}
	return m
}

// newSysEnv builds world + server. small selects tiny concurrency limits.
func newSysEnv(kind string, dedupTimeout time.Duration) *sysEnv {
	small := kind != "n" && kind != "c"
	e := &sysEnv{small: small, kind: kind, probe: &probe{inline: map[string]int{}, replay: map[string]int{}, plain: map[string]int{}}}
	e.qto = sysQueryTimeout
	e.uto = sysUpstreamTimeout
	e.late = lateMargin
	if kind == "c" { // long upstream timeout: an all-servers-failed lookup ends late in the request's budget
		e.uto = 450 * time.Millisecond
		e.qto = 2 * time.Second
		e.late = 500 * time.Millisecond
	}
	e.w = l3.NewWorld(false)
	// root priming shapes: n — one root, no glue in the priming answer; r — two configured roots, the
	// priming answer carries an address for only one of them (partial glue); z — two roots, full glue
	var root2 *l3.Server
	if kind == "r" || kind == "z" {
		root2 = e.w.AddServer(".")
		ip1, ip2 := e.w.Root.Servers[0].IP, root2.IP
		glue := func(q dns.Question, m *dns.Msg, _ bool) *dns.Msg {
			if q.Name == "." && q.Qtype == dns.TypeNS && m != nil {
				m.Extra = append([]dns.RR{&dns.A{Hdr: dns.RR_Header{Name: "ns2.root-servers.test.", Rrtype: dns.TypeA, Class: dns.ClassINET, Ttl: 3600}, A: ip2}}, m.Extra...)
				if kind == "z" {
					m.Extra = append([]dns.RR{&dns.A{Hdr: dns.RR_Header{Name: "ns.root-servers.test.", Rrtype: dns.TypeA, Class: dns.ClassINET, Ttl: 3600}, A: ip1}}, m.Extra...)
				}
			}
			return m
		}
		for _, s := range e.w.Root.Servers {
			s.SetBehaviour(l3.Behaviour{Tamper: glue})
		}
	}
	e.w.AddZone("test.", l3.ZoneOpts{})
	// cold zones: healthy, never asked before, delegated WITHOUT glue to a
	// name server whose address lives in the slow zone nsz.test.: requests for
	// distinct names below one cold zone all need the same internal lookup
	// (nsK.nsz.test. A), which the resolver's singleflight shares between
	// their request trees while it is in flight
	nsz := e.w.AddZone("nsz.test.", l3.ZoneOpts{})
	nsz.Servers[0].SetBehaviour(l3.Behaviour{Delay: func(dns.Question, bool) time.Duration { return 150 * time.Millisecond }})
	for i := 1; i <= coldZones; i++ {
		f := fmt.Sprintf("cold%d", i)
		host := fmt.Sprintf("cns%d.nsz.test.", i)
		z := e.w.AddZone(f+".test.", l3.ZoneOpts{NSHosts: []string{host}, NoGlue: true})
		z.Add("*."+f+".test. 60 IN A "+zoneAddr, "*."+f+".test. 60 IN TXT \"t\"")
		nsz.Add(host + " 60 IN A " + z.Servers[0].IP.String())
	}
	// pair zones: like the cold zones, but the zone holding their name servers'
	// addresses (nsz2.test.) has one authority that refuses at once and one that is
	// healthy but slow: a shared lookup collects the bad rcode first
	nsz2 := e.w.AddZone("nsz2.test.", l3.ZoneOpts{})
	nsz2.Servers[0].SetBehaviour(l3.Behaviour{Rcode: func(dns.Question) int { return dns.RcodeRefused }})
	e.w.AddServer("nsz2.test.").SetBehaviour(l3.Behaviour{Delay: func(dns.Question, bool) time.Duration { return 250 * time.Millisecond }})
	for i := 1; i <= coldZones; i++ {
		f := fmt.Sprintf("pair%d", i)
		host := fmt.Sprintf("pns%d.nsz2.test.", i)
		z := e.w.AddZone(f+".test.", l3.ZoneOpts{NSHosts: []string{host}, NoGlue: true})
		z.Add("*."+f+".test. 60 IN A "+zoneAddr, "*."+f+".test. 60 IN TXT \"t\"")
		nsz2.Add(host + " 60 IN A " + z.Servers[0].IP.String())
	}
	// silent zones nobody asked yet, delegated WITHOUT glue to a name server whose address lives in
	// nsq.test.; that zone answers the first address query for a host at once and every later one only
	// after 1.5 s. The resolver's "all servers failed five times" re-check of a zone's name-server hosts
	// (checkHosts) fires once per delegation, so each use needs a fresh zone.
	nsq := e.w.AddZone("nsq.test.", l3.ZoneOpts{})
	var nsqMu sync.Mutex
	nsqSeen := map[string]int{}
	nsq.Servers[0].SetBehaviour(l3.Behaviour{Delay: func(q dns.Question, _ bool) time.Duration {
		nsqMu.Lock()
		defer nsqMu.Unlock()
		k := strings.ToLower(q.Name)
		nsqSeen[k]++
		if strings.HasPrefix(k, "cnsq") && nsqSeen[k] > 1 {
			return 1500 * time.Millisecond
		}
		return 0
	}})
	for i := 1; i <= silentZones; i++ {
		f := fmt.Sprintf("sil%d", i)
		host := fmt.Sprintf("cnsq%d.nsq.test.", i)
		z := e.w.AddZone(f+".test.", l3.ZoneOpts{NSHosts: []string{host}, NoGlue: true})
		z.Add("*." + f + ".test. 60 IN A " + zoneAddr)
		z.Servers[0].SetBehaviour(l3.Behaviour{Drop: func(dns.Question, bool) bool { return true }})
		nsq.Add(host + " 60 IN A " + z.Servers[0].IP.String())
	}
	for _, f := range faults {
		z := e.w.AddZone(f+".test.", l3.ZoneOpts{})
		z.Add("*."+f+".test. 60 IN A "+zoneAddr, "*."+f+".test. 60 IN TXT \"t\"")
		s := z.Servers[0]
		switch f {
		case "multi": // one instant authority, two slow ones: hedged attempts that lose
			for k := 0; k < 2; k++ {
				e.w.AddServer(f + ".test.").SetBehaviour(l3.Behaviour{Delay: func(dns.Question, bool) time.Duration { return 300 * time.Millisecond }})
			}
		case "lag":
			s.SetBehaviour(l3.Behaviour{Delay: func(dns.Question, bool) time.Duration { return 120 * time.Millisecond }})
		case "drop":
			s.SetBehaviour(l3.Behaviour{Drop: func(dns.Question, bool) bool { return true }})
		case "slow": // beyond cfg.Timeout, inside cfg.QueryTimeout
			s.SetBehaviour(l3.Behaviour{Delay: func(dns.Question, bool) time.Duration { return e.uto + 150*time.Millisecond }})
		case "glacial": // beyond cfg.QueryTimeout
			s.SetBehaviour(l3.Behaviour{Delay: func(dns.Question, bool) time.Duration { return e.qto + 400*time.Millisecond }})
		case "tcok":
			s.SetBehaviour(l3.Behaviour{TruncateUDP: true})
		case "tcstall": // TC, then a TCP side that accepts and stays silent past the query timeout
			s.SetBehaviour(l3.Behaviour{TruncateUDP: true, Delay: func(_ dns.Question, tcp bool) time.Duration {
				if tcp {
					return e.qto + 700*time.Millisecond
				}
				return 0
			}})
		case "tcreset":
			s.SetBehaviour(l3.Behaviour{TruncateUDP: true, ResetTCP: true})
		case "wrongid":
			s.SetBehaviour(l3.Behaviour{Pre: func(req *dns.Msg) []*dns.Msg {
				m := s.Honest(req)
				m.Id = req.Id + 1
				if len(m.Answer) > 0 {
					if a, ok := m.Answer[0].(*dns.A); ok {
						a.A = net.IPv4(203, 0, 113, 66)
					}
				}
				return []*dns.Msg{m}
			}})
		case "wrongq":
			s.SetBehaviour(l3.Behaviour{Pre: func(req *dns.Msg) []*dns.Msg { return []*dns.Msg{otherQuestion(req)} }})
		case "wrongonly":
			s.SetBehaviour(l3.Behaviour{Tamper: func(q dns.Question, honest *dns.Msg, tcp bool) *dns.Msg {
				req := new(dns.Msg)
				req.Id = honest.Id
				req.Question = []dns.Question{q}
				return otherQuestion(req)
			}})
		case "garbage":
			e.garbage = newGarbageServer()
			e.w.AddrMap[net.JoinHostPort(s.IP.String(), "53")] = e.garbage.addr
		case "servfail":
			s.SetBehaviour(l3.Behaviour{Rcode: func(dns.Question) int { return dns.RcodeServerFailure }})
		case "refused":
			s.SetBehaviour(l3.Behaviour{Rcode: func(dns.Question) int { return dns.RcodeRefused }})
		case "mix":
			s.SetBehaviour(l3.Behaviour{Rcode: func(q dns.Question) int {
				if (len(q.Name)+int(q.Qtype))%2 == 0 {
					return dns.RcodeServerFailure
				}
				return dns.RcodeRefused
			}})
		case "flaky": // every other query is dropped, the rest answered
			s.SetBehaviour(l3.Behaviour{Drop: func(dns.Question, bool) bool { return e.flaky.Add(1)%2 == 1 }})
		}
	}

	middleware.Reset()
	base := os.Getenv("VERIF_DIR")
	if base == "" {
		base = "/verif"
	}
	e.dir = filepath.Join(base, "build", "tmp-c11", fmt.Sprintf("s%d-%d", os.Getpid(), sysSeq.Add(1)))
	_ = os.MkdirAll(e.dir, 0o750)
	cfg := new(config.Config)
	cfg.RootServers = []string{net.JoinHostPort(e.w.Root.Servers[0].IP.String(), "53")}
	if root2 != nil {
		cfg.RootServers = append(cfg.RootServers, net.JoinHostPort(root2.IP.String(), "53"))
	}
	cfg.IPv6Access = false
	cfg.Maxdepth = 30
	cfg.Expire = 600
	cfg.CacheSize = 4096
	cfg.Timeout.Duration = e.uto
	cfg.QueryTimeout.Duration = e.qto
	cfg.Directory = e.dir
	cfg.DNSSEC = "off"
	cfg.Bind = fmt.Sprintf("127.0.0.1:%d", freePort())
	// long enough that a failure wrongly admitted to the shared RFC 9520 cache is still
	// there when the same name is asked again later in the wave (`sys shift` expires them)
	cfg.RecursionFirewall.FailureCacheMinTTL.Duration = 10 * time.Second
	cfg.RecursionFirewall.FailureCacheMaxTTL.Duration = 20 * time.Second
	switch kind {
	case "i": // tiny ingress pool: queries queue behind two workers / run on overflow goroutines
		cfg.IngressWorkers = 2
		cfg.IngressQueue = 1
	case "r": // tiny resolver limits: capacity-refused resolutions (the global pool binds)
		cfg.MaxConcurrentQueries = 6
	case "z": // the per-zone quota (max(32/16, 16) = 16) binds before the global pool (32)
		cfg.MaxConcurrentQueries = 32
		cfg.OutboundIPs = []string{"127.0.0.1"} // outbound address chosen from the client's message id
	}
	cfg.IngressTCPConns = 256
	e.cfg = cfg
	e.addr = cfg.Bind

	var h *resolver.DNSHandler
	middleware.Register("c11probe", func(*config.Config) middleware.Handler { return e.probe })
	middleware.Register("edns", func(c *config.Config) middleware.Handler { return edns.New(c) })
	middleware.Register("cache", func(c *config.Config) middleware.Handler {
		e.cache = cache.New(c)
		if dedupTimeout > 0 {
			cache.VerifC11SetDedupTimeout(e.cache, dedupTimeout)
		}
		return e.cache
	})
	middleware.Register("resolver", func(c *config.Config) middleware.Handler { h = resolver.New(c); return h })
	// The resolver's resolveTarget hook must be in place before Setup
	// publishes the pipeline (root priming starts right then), so build the
	// handlers through Setup but install the hook from inside the constructor
	// order: Setup → Build → constructors; the hook is set right after.
	amap := e.w.AddrMap
	var amu sync.Mutex
	target := func(addr string) string {
		amu.Lock()
		defer amu.Unlock()
		if t, ok := amap[addr]; ok {
			return t
		}
		return "127.0.0.1:9"
	}
	middleware.Register("c11hook", func(*config.Config) middleware.Handler {
		// runs after the resolver's constructor, before Setup publishes
		e.res = resolver.VerifResolver(h)
		resolver.VerifSetResolveTarget(e.res, target)
		return nil
	})
	middleware.Setup(cfg)
	e.srv = server.New(cfg)
	ctx, cancel := context.WithCancel(context.Background())
	e.cancel = cancel
	if err := e.srv.Run(ctx); err != nil {
		cancel()
		panic(err)
	}
	_, _, _, e.inline = server.VerifC11UDP(e.srv)
	return e
}

// ---------------------------------------------------------------- clients

type reply struct {
	at    time.Duration
	rcode int
	ans   string // canonical answer section
	ede   string
}

type client struct {
	mu      sync.Mutex
	kind    string // udp | tcp | tcpclose | msg | msgcancel
	zone    string // fault
	name    string
	qtype   uint16
	id      uint16
	group   int
	sent    time.Time
	replies []reply
	other   int    // datagrams/messages that do not match id+question
	eof     bool   // TCP: server closed the connection
	errs    string // client-side error
	cancelAfter time.Duration
	startDelay  time.Duration
	cancelled   bool
	reask       *client // shedreask: the same name asked again after the burst
	listen      time.Duration // own listening window (0: the wave's)
	padTo       int     // pad the query (EDNS padding option) to exactly this many bytes
	mustOK      bool    // a healthy name: anything but its record is a failure
}

func (e *sysEnv) newQuery(c *client) *dns.Msg {
	m := new(dns.Msg)
	m.SetQuestion(c.name, c.qtype)
	m.Id = c.id
	m.RecursionDesired = true
	m.SetEdns0(1232, false)
	if c.padTo > 0 {
		o := m.IsEdns0()
		pad := &dns.EDNS0_PADDING{Padding: []byte{}}
		o.Option = append(o.Option, pad)
		if n := c.padTo - m.Len(); n > 0 {
			pad.Padding = make([]byte, n)
		}
		if b, err := m.Pack(); err == nil && len(b) != c.padTo { // Len() can differ from the packed size
			if d := c.padTo - len(b) + len(pad.Padding); d >= 0 {
				pad.Padding = make([]byte, d)
			}
		}
	}
	return m
}

func canonAnswer(m *dns.Msg) string {
	var out []string
	for _, rr := range m.Answer {
		c := dns.Copy(rr)
		c.Header().Ttl = 0
		out = append(out, strings.ToLower(strings.Join(strings.Fields(c.String()), " ")))
	}
	sort.Strings(out)
	return strings.Join(out, "|")
}

func edeOf(m *dns.Msg) string {
	if o := m.IsEdns0(); o != nil {
		for _, x := range o.Option {
			if ed, ok := x.(*dns.EDNS0_EDE); ok {
				return fmt.Sprintf("%d", ed.InfoCode)
			}
		}
	}
	return ""
}

func (c *client) note(b []byte, at time.Duration) {
	m := new(dns.Msg)
	if err := m.Unpack(b); err != nil || !m.Response || m.Id != c.id || len(m.Question) != 1 ||
		!strings.EqualFold(m.Question[0].Name, c.name) || m.Question[0].Qtype != c.qtype {
		c.other++
		return
	}
	c.mu.Lock()
	c.replies = append(c.replies, reply{at: at, rcode: m.Rcode, ans: canonAnswer(m), ede: edeOf(m)})
	c.mu.Unlock()
}

func (e *sysEnv) runUDP(c *client, listen time.Duration) {
	conn, err := net.Dial("udp", e.addr)
	if err != nil {
		c.errs = "dial:" + err.Error()
		return
	}
	defer conn.Close()
	b, _ := e.newQuery(c).Pack()
	c.sent = time.Now()
	if _, err := conn.Write(b); err != nil {
		c.errs = "write:" + err.Error()
		return
	}
	buf := make([]byte, 65535)
	dl := c.sent.Add(listen)
	for {
		conn.SetReadDeadline(dl)
		n, err := conn.Read(buf)
		if err != nil {
			return
		}
		c.note(buf[:n], time.Since(c.sent))
	}
}

// runTCP sends the queries of cs (pipelined on one connection) and listens.
// closeAfter > 0: the client disconnects after that long.
func (e *sysEnv) runTCP(cs []*client, listen, closeAfter time.Duration) {
	e.runTCPx(cs, listen, closeAfter, false)
}

// runTCPx: halfTail appends a frame the client never finishes (length prefix +
// half a body) to the pipelined burst and then half-closes its write side; the
// complete queries before it were admitted and must still be answered.
func (e *sysEnv) runTCPx(cs []*client, listen, closeAfter time.Duration, halfTail bool) {
	conn, err := net.Dial("tcp", e.addr)
	if err != nil {
		for _, c := range cs {
			c.errs = "dial:" + err.Error()
		}
		return
	}
	defer conn.Close()
	var out []byte
	for _, c := range cs {
		b, _ := e.newQuery(c).Pack()
		var l [2]byte
		binary.BigEndian.PutUint16(l[:], uint16(len(b)))
		out = append(out, l[:]...)
		out = append(out, b...)
	}
	if halfTail {
		b, _ := e.newQuery(&client{name: "tail.ok.test.", qtype: dns.TypeA, id: 7}).Pack()
		out = append(out, byte(len(b)>>8), byte(len(b)))
		out = append(out, b[:len(b)/2]...)
	}
	now := time.Now()
	for _, c := range cs {
		c.sent = now
	}
	if _, err := conn.Write(out); err != nil {
		for _, c := range cs {
			c.errs = "write:" + err.Error()
		}
		return
	}
	if halfTail {
		if tc, ok := conn.(*net.TCPConn); ok && len(cs)%2 == 0 {
			_ = tc.CloseWrite() // even cohorts half-close, odd ones just stall inside the frame
		}
	}
	if closeAfter > 0 {
		time.Sleep(closeAfter)
		for _, c := range cs {
			c.cancelled = true
		}
		if tc, ok := conn.(*net.TCPConn); ok && closeAfter%2 == 1 {
			tc.SetLinger(0) // RST instead of FIN on odd delays
		}
		return
	}
	dl := now.Add(listen)
	for {
		conn.SetReadDeadline(dl)
		var l [2]byte
		if _, err := io.ReadFull(conn, l[:]); err != nil {
			if err == io.EOF {
				for _, c := range cs {
					c.eof = true
				}
			}
			return
		}
		b := make([]byte, binary.BigEndian.Uint16(l[:]))
		if _, err := io.ReadFull(conn, b); err != nil {
			return
		}
		at := time.Since(now)
		matched := false
		for _, c := range cs {
			before := len(c.replies)
			o := c.other
			c.note(b, at)
			if len(c.replies) > before {
				matched = true
			}
			c.other = o
		}
		if !matched {
			cs[0].other++
		}
	}
}

// runMsg enters through Server.ServeMsg (the DoH/DoQ/embedder entry) with a
// parent context the client may cancel.
func (e *sysEnv) runMsg(c *client, listen time.Duration) {
	ctx, cancel := context.WithCancel(context.Background())
	defer cancel()
	w := &srvh.MsgWriter{Remote: &net.UDPAddr{IP: net.IPv4(127, 0, 0, 1), Port: 40000 + int(c.id%20000)}, ProtoS: "doh"}
	var mu sync.Mutex
	lw := &lockedWriter{MsgWriter: w, mu: &mu}
	c.sent = time.Now()
	done := make(chan struct{})
	go func() {
		defer close(done)
		e.srv.ServeMsg(ctx, lw, e.newQuery(c))
	}()
	if c.cancelAfter > 0 {
		select {
		case <-done:
		case <-time.After(c.cancelAfter):
			c.cancelled = true
			cancel()
		}
	}
	select {
	case <-done:
	case <-time.After(listen):
		c.errs = "servemsg-not-returned"
	}
	returned := time.Since(c.sent)
	// a reply written after ServeMsg returned would be a use-after-finish;
	// keep listening until the window closes.
	if rest := listen - time.Since(c.sent); rest > 0 && c.errs == "" {
		time.Sleep(minDur(rest, 300*time.Millisecond))
	}
	mu.Lock()
	defer mu.Unlock()
	for _, m := range w.Msgs {
		if b, err := m.Pack(); err == nil {
			c.note(b, returned)
		}
	}
}

type lockedWriter struct {
	*srvh.MsgWriter
	mu *sync.Mutex
}

func (w *lockedWriter) WriteMsg(m *dns.Msg) error {
	w.mu.Lock()
	defer w.mu.Unlock()
	return w.MsgWriter.WriteMsg(m)
}
func (w *lockedWriter) Write(b []byte) (int, error) {
	w.mu.Lock()
	defer w.mu.Unlock()
	return w.MsgWriter.Write(b)
}

func minDur(a, b time.Duration) time.Duration {
	if a < b {
		return a
	}
	return b
}

// ---------------------------------------------------------------- goroutines

// sdnsGoroutines counts goroutines that run repository code (frames of
// github.com/semihalev/sdns/ outside internal/verif), i.e. excluding the
// harness's own servers and clients.
func sdnsGoroutines() (sdns, all int) {
	buf := make([]byte, 1<<20)
	for {
		n := runtime.Stack(buf, true)
		if n < len(buf) {
			buf = buf[:n]
			break
		}
		buf = make([]byte, 2*len(buf))
	}
	for _, g := range strings.Split(string(buf), "\n\n") {
		if !strings.HasPrefix(g, "goroutine ") {
			continue
		}
		all++
		own := false
		for _, ln := range strings.Split(g, "\n") {
			if strings.HasPrefix(ln, "github.com/semihalev/sdns/") && !strings.HasPrefix(ln, "github.com/semihalev/sdns/internal/verif/") {
				own = true
				break
			}
		}
		if own {
			sdns++
		}
	}
	return
}


// ---------------------------------------------------------------- waves

// group is one arrival pattern against one fault zone.
type group struct {
	pattern string
	zone    string
	n       int
	tag     string
	clients []*client
	judged  []*client // clients whose reply count the property fixes
}

func (e *sysEnv) id() uint16 {
	e.nextID++
	return uint16(e.nextID*7 + 1000)
}

func (e *sysEnv) mk(kind, zone, label string, qtype uint16) *client {
	return &client{kind: kind, zone: zone, name: strings.ToLower(label + "." + zone + ".test."), qtype: qtype, id: e.id()}
}

// build expands a group spec into its clients.
func (e *sysEnv) build(g *group) {
	lbl := func(i int) string { return fmt.Sprintf("d%dx%s", i, g.tag) }
	same := "s" + g.tag
	add := func(c *client, judged bool) {
		g.clients = append(g.clients, c)
		if judged {
			g.judged = append(g.judged, c)
		}
	}
	switch g.pattern {
	case "dupudp":
		for i := 0; i < g.n; i++ {
			add(e.mk("udp", g.zone, same, dns.TypeA), true)
		}
	case "duptcp":
		for i := 0; i < g.n; i++ {
			add(e.mk("tcp", g.zone, same, dns.TypeA), true)
		}
	case "dupmix":
		kinds := []string{"udp", "tcp", "msg"}
		for i := 0; i < g.n; i++ {
			add(e.mk(kinds[i%3], g.zone, same, dns.TypeA), true)
		}
	case "distudp":
		for i := 0; i < g.n; i++ {
			add(e.mk("udp", g.zone, lbl(i), dns.TypeA), true)
		}
	case "disttcp":
		for i := 0; i < g.n; i++ {
			add(e.mk("tcp", g.zone, lbl(i), dns.TypeA), true)
		}
	case "pipetcp":
		for i := 0; i < g.n; i++ {
			c := e.mk("pipe", g.zone, lbl(i), dns.TypeA)
			add(c, true)
		}
	case "pipehalf": // pipelined complete queries, then a frame the client never finishes (+ half-close)
		for i := 0; i < g.n; i++ {
			add(e.mk("pipeh", g.zone, lbl(i), dns.TypeA), true)
		}
	case "earlyclose": // clients that hang up; the rest of the same-name cohort stays
		for i := 0; i < g.n; i++ {
			c := e.mk("tcpclose", g.zone, same, dns.TypeA)
			c.cancelAfter = time.Duration(20+37*i) * time.Millisecond
			add(c, false)
		}
		add(e.mk("udp", g.zone, same, dns.TypeA), true)
		add(e.mk("tcp", g.zone, same, dns.TypeA), true)
	case "cancelmsg": // one identical-name client cancels its context; the others wait on
		c := e.mk("msg", g.zone, same, dns.TypeA)
		c.cancelAfter = 60 * time.Millisecond
		add(c, false)
		for i := 1; i < g.n; i++ {
			add(e.mk([]string{"udp", "tcp", "msg"}[i%3], g.zone, same, dns.TypeA), true)
		}
	case "cancellead": // distinct names of one zone share the upstream lookups for it; the first requester cancels
		if g.zone == "cold" { // a zone nobody asked about yet: the referral lookup is the shared one
			if e.cold < coldZones {
				e.cold++
				g.zone = fmt.Sprintf("cold%d", e.cold)
			} else {
				g.zone = "lag"
			}
		}
		c := e.mk("msg", g.zone, "c"+g.tag, dns.TypeA)
		c.cancelAfter = 60 * time.Millisecond
		add(c, false)
		for i := 1; i < g.n; i++ {
			o := e.mk([]string{"udp", "tcp"}[i%2], g.zone, lbl(i), dns.TypeA)
			o.startDelay = 8 * time.Millisecond
			add(o, true)
		}
	case "cancelpair": // as cancellead, but the shared lookup has collected a REFUSED when its leader leaves
		if g.zone == "pair" {
			if e.pair < coldZones {
				e.pair++
				g.zone = fmt.Sprintf("pair%d", e.pair)
			} else {
				g.zone = "lag"
			}
		}
		c := e.mk("msg", g.zone, "c"+g.tag, dns.TypeA)
		c.cancelAfter = 120 * time.Millisecond
		add(c, false)
		for i := 1; i < g.n; i++ {
			o := e.mk([]string{"udp", "tcp"}[i%2], g.zone, lbl(i), dns.TypeA)
			o.startDelay = 8 * time.Millisecond
			add(o, true)
		}
	case "hot": // a name answered before: the inline / wire hit path
		for i := 0; i < g.n; i++ {
			add(e.mk([]string{"udp", "tcp"}[i%2], g.zone, "hot", dns.TypeA), true)
		}
	case "staged": // the probe handler writes on the inline pass AND marks hand-off
		for i := 0; i < g.n; i++ {
			add(e.mk("udp", "ok", fmt.Sprintf("stagedho%dx%s", i, g.tag), dns.TypeTXT), true)
		}
	case "shedreask": // more distinct questions for one slow healthy zone than the limiter admits; the shed names are asked again once capacity is back
		for i := 0; i < g.n; i++ {
			add(e.mk("udp", g.zone, lbl(i), dns.TypeA), true)
		}
	case "fifth": // six distinct names under a silent zone nobody asked yet: the fifth all-servers-failed
		// lookup re-checks the zone's name-server hosts — on the failing client's own, expired, context
		if g.zone == "sil" {
			if e.sil < silentZones {
				e.sil++
				g.zone = fmt.Sprintf("sil%d", e.sil)
			} else {
				g.zone = "drop"
			}
		}
		for i := 0; i < g.n; i++ {
			add(e.mk("udp", g.zone, lbl(i), dns.TypeA), true)
		}
	case "fifthb", "fifth2": // the second cohort for the zone `fifth` used in the previous wave (its servers'
		// circuit breakers are open now: lookups fail at once as "all servers failed", the fifth triggers
		// the re-check); fifth2 = both cohorts on a fresh zone, 3.2 s apart (used to confirm an alarm)
		delay := time.Duration(0)
		if g.pattern == "fifth2" {
			if e.sil < silentZones {
				e.sil++
			}
			delay = e.qto + sysListenMargin
			for i := 0; i < g.n; i++ {
				add(e.mk("udp", fmt.Sprintf("sil%d", e.sil), lbl(200+i), dns.TypeA), false)
			}
		}
		if e.sil == 0 {
			e.sil = 1
		}
		g.zone = fmt.Sprintf("sil%d", e.sil)
		for i := 0; i < g.n; i++ {
			c := e.mk("udp", g.zone, lbl(100+i), dns.TypeA)
			c.startDelay = delay
			add(c, true)
		}
	case "pipeslow": // a slow query first, quick ones pipelined behind it on the same connection:
		// each frame has its own budget, the later ones must still be answered
		add(e.mk("pipe", g.zone, lbl(0), dns.TypeA), true)
		for i := 1; i < g.n; i++ {
			c := e.mk("pipe", "ok", lbl(i), dns.TypeA)
			c.mustOK = true
			add(c, true)
		}
	case "idedge": // client message ids on the edges, against a zone that forces the TCP leg upstream
		for i, id := range []uint16{0, 1, 32768, 65534, 65535} {
			c := e.mk([]string{"udp", "tcp"}[i%2], g.zone, lbl(i), dns.TypeA)
			c.id = id
			add(c, true)
		}
	case "pipebig": // far more pipelined queries than the connection's 4 KB fill buffer holds
		for i := 0; i < g.n; i++ {
			add(e.mk("pipe", g.zone, "hot", dns.TypeA), true)
		}
	case "framesize": // well-formed queries padded (EDNS padding) to frame lengths on the slab-class boundaries
		for i, l := range []int{2047, 2048, 2049, 4095, 4096, 4097, 16382, 65535} {
			c := e.mk("tcp", g.zone, lbl(i), dns.TypeA)
			c.padTo = l
			add(c, true)
		}
		for i, l := range []int{1231, 1232, 4095, 4096} {
			c := e.mk("udp", g.zone, lbl(100+i), dns.TypeA)
			c.padTo = l
			add(c, true)
		}
	case "junk": // datagrams that are not admitted queries (oversized, short, QR, bad counts …)
		for i := 0; i < g.n; i++ {
			add(e.mk("junk", g.zone, same, dns.TypeA), false)
		}
		add(e.mk("udp", g.zone, lbl(0), dns.TypeA), true)
	case "half": // a TCP client that announces a frame and never completes it: not an admitted query
		for i := 0; i < g.n; i++ {
			add(e.mk("half", g.zone, same, dns.TypeA), false)
		}
		add(e.mk("tcp", g.zone, lbl(0), dns.TypeA), true)
	}
}

func (e *sysEnv) runHalf(c *client, hold time.Duration) {
	conn, err := net.Dial("tcp", e.addr)
	if err != nil {
		return
	}
	defer conn.Close()
	b, _ := e.newQuery(c).Pack()
	out := []byte{byte(len(b) >> 8), byte(len(b))}
	out = append(out, b[:len(b)/2]...)
	conn.Write(out)
	time.Sleep(hold)
}

// launch starts every client of the groups and waits for the listening window.
func (e *sysEnv) launch(gs []*group) {
	listen := e.qto + sysListenMargin
	var wg sync.WaitGroup
	for _, g := range gs {
		var pipe, pipeh []*client
		for _, c := range g.clients {
			c := c
			switch c.kind {
			case "udp":
				wg.Add(1)
				go func() {
					defer wg.Done()
					time.Sleep(c.startDelay)
					l := listen
					if c.listen > 0 {
						l = c.listen
					}
					e.runUDP(c, l)
				}()
			case "tcp":
				wg.Add(1)
				go func() { defer wg.Done(); time.Sleep(c.startDelay); e.runTCP([]*client{c}, listen, 0) }()
			case "tcpclose":
				wg.Add(1)
				go func() { defer wg.Done(); e.runTCP([]*client{c}, listen, c.cancelAfter) }()
			case "msg":
				wg.Add(1)
				go func() { defer wg.Done(); e.runMsg(c, listen) }()
			case "half":
				wg.Add(1)
				go func() { defer wg.Done(); e.runHalf(c, 600*time.Millisecond) }()
			case "junk":
				wg.Add(1)
				go func() { defer wg.Done(); e.runJunk(c, 3) }()
			case "pipe":
				pipe = append(pipe, c)
			case "pipeh":
				pipeh = append(pipeh, c)
			}
		}
		if len(pipe) > 0 {
			p := pipe
			wg.Add(1)
			go func() { defer wg.Done(); e.runTCP(p, listen, 0) }()
		}
		if len(pipeh) > 0 {
			p := pipeh
			wg.Add(1)
			go func() { defer wg.Done(); e.runTCPx(p, listen, 0, true) }()
		}
	}
	wg.Wait()
}

func expectedAnswer(c *client) string {
	if c.qtype == dns.TypeTXT {
		return c.name + " 0 in txt \"inline\""
	}
	return c.name + " 0 in a " + zoneAddr
}

type verdict struct {
	fail  string // first hard failure ("" = none)
	known string // first occurrence of the recorded KNOWN finding (lowest priority, never masks fail)
	soft []*group
	tags []string
}

// judge applies the property text to what the clients saw.
func (e *sysEnv) judge(gs []*group) verdict {
	var v verdict
	fail := func(sig, detail string) {
		if v.fail == "" {
			v.fail = fmt.Sprintf("FAIL sig=%s %s", sig, detail)
		}
	}
	// a tiny ingress pool in front of resolutions that last the whole budget: every UDP
	// query of the wave shares the two workers and the ready queue of one
	queueExpiry := false
	if e.kind == "i" {
		for _, g := range gs {
			if slowZone[g.zone] {
				queueExpiry = true
			}
		}
	}
	total, nOK, nSF, nKnown := 0, 0, 0, 0
	for _, g := range gs {
		softHit := false
		for _, c := range g.judged {
			total++
			kind := c.kind
			where := fmt.Sprintf("%s/%s/%s", g.pattern, kind, g.zone)
			if c.errs != "" {
				fail("sys/client-error/"+kind, where+" "+c.errs)
				continue
			}
			switch {
			case len(c.replies) == 0:
				if queueExpiry && kind == "udp" {
					// KNOWN finding (notes/C11.md, known_findings.jsonl): a job parked in
					// the ready queue for its whole budget is dropped without a SERVFAIL
					if v.known == "" {
						v.known = fmt.Sprintf("FAIL sig=sys/no-reply/expired-in-ingress-queue %s name=%s id=%d", where, c.name, c.id)
					}
					nKnown++
					continue
				}
				fail("sys/no-reply/"+kind, fmt.Sprintf("%s name=%s id=%d other=%d eof=%v", where, c.name, c.id, c.other, c.eof))
				continue
			case len(c.replies) > 1:
				fail("sys/duplicate-reply/"+kind, fmt.Sprintf("%s name=%s id=%d n=%d", where, c.name, c.id, len(c.replies)))
				continue
			}
			r := c.replies[0]
			if r.at > e.maxLat {
				e.maxLat = r.at
			}
			switch r.rcode {
			case dns.RcodeSuccess:
				nOK++
				if r.ans != expectedAnswer(c) && !(g.pattern == "staged" && r.ans == c.name+" 0 in txt \"plain\"") {
					fail("sys/wrong-answer/"+g.pattern, fmt.Sprintf("%s name=%s got=%q", where, c.name, r.ans))
				}
			case dns.RcodeServerFailure:
				nSF++
				if c.mustOK && !e.small {
					softHit = true
				}
				if (recoverable[g.zone] || strings.HasPrefix(g.zone, "cold") || strings.HasPrefix(g.zone, "pair")) && !e.small {
					softHit = true
				}
			default:
				fail("sys/failure-not-servfail", fmt.Sprintf("%s name=%s rcode=%s", where, c.name, dns.RcodeToString[r.rcode]))
			}
			// a reply that takes a whole extra timeout (the pipehalf stall is the documented
			// 2 s tcpQueryWait hold, see notes "Noticed"; pipelined frames are served serially)
			if r.at > e.qto+e.late && kind != "pipeh" && kind != "pipe" {
				fail("sys/late-reply/"+kind, fmt.Sprintf("%s name=%s after=%s budget=%s", where, c.name, r.at.Round(time.Millisecond), e.qto))
			}
			if c.other > 0 {
				fail("sys/foreign-message/"+kind, fmt.Sprintf("%s name=%s n=%d", where, c.name, c.other))
			}
		}
		if g.pattern == "shedreask" {
			// remember the names that were refused: `sys drain` asks them again once the
			// load has stopped — capacity-refused must stay with the client that was refused
			shed := 0
			for _, c := range g.clients {
				if len(c.replies) == 1 && c.replies[0].rcode == dns.RcodeServerFailure {
					shed++
					e.shedNames = append(e.shedNames, c)
				}
			}
			v.tags = append(v.tags, fmt.Sprintf("shed=%d", shed))
		}
		if softHit {
			v.soft = append(v.soft, g)
		}
		// cancelled / departed clients: never more than one reply either
		for _, c := range g.clients {
			if len(c.replies) > 1 {
				fail("sys/duplicate-reply/"+c.kind, fmt.Sprintf("%s/%s name=%s id=%d n=%d (departed client)", g.pattern, g.zone, c.name, c.id, len(c.replies)))
			}
		}
		// replay bookkeeping of the probe handler (UDP only)
		e.probe.mu.Lock()
		for _, c := range g.clients {
			if c.kind != "udp" {
				continue
			}
			buf := make([]byte, 300)
			off, err := dns.PackDomainName(c.name, buf, 0, nil, false)
			if err != nil {
				continue
			}
			key := fmt.Sprintf("%d/%x", c.id, buf[:off])
			if n := e.probe.replay[key]; n > 1 {
				fail("sys/replayed-more-than-once", fmt.Sprintf("%s name=%s replays=%d", g.pattern, c.name, n))
			}
			if g.pattern == "staged" && e.probe.replay[key] > 0 {
				fail("sys/staged-reply-replayed", fmt.Sprintf("name=%s replays=%d", c.name, e.probe.replay[key]))
			}
			if e.probe.inline[key]+e.probe.plain[key] > 1 {
				fail("sys/served-twice", fmt.Sprintf("%s name=%s inline=%d plain=%d", g.pattern, c.name, e.probe.inline[key], e.probe.plain[key]))
			}
		}
		e.probe.mu.Unlock()
	}
	v.tags = append(v.tags, fmt.Sprintf("q=%d", total), fmt.Sprintf("noerror=%d", nOK), fmt.Sprintf("servfail=%d", nSF))
	if nKnown > 0 {
		v.tags = append(v.tags, fmt.Sprintf("known-queue-expiry=%d", nKnown))
	}
	return v
}

func parseGroups(spec string) []*group {
	var gs []*group
	for _, part := range strings.Split(spec, ";") {
		f := strings.Split(part, ":")
		if len(f) != 4 {
			return nil
		}
		gs = append(gs, &group{pattern: f[0], zone: f[1], n: vlib.Atoi(f[2]), tag: f[3]})
	}
	return gs
}

// execSys runs one "sys …" op.
func execSys(f []string) vlib.Res {
	if len(f) < 2 {
		return vlib.Res{Impl: "bad-op"}
	}
	switch f[1] {
	case "new":
		if len(f) != 4 {
			return vlib.Res{Impl: "bad-op"}
		}
		closeAll()
		if f[2] != "n" && f[2] != "i" && f[2] != "r" && f[2] != "z" && f[2] != "c" {
			return vlib.Res{Impl: "bad-op"}
		}
		env = newSysEnv(f[2], time.Duration(vlib.Atoi(f[3]))*time.Millisecond)
		e := env
		// warm-up: root priming settles, "hot" names of the recoverable zones get cached
		var gs []*group
		for z := range recoverable {
			g := &group{pattern: "hot", zone: z, n: 1, tag: "w"}
			e.build(g)
			gs = append(gs, g)
		}
		sort.Slice(gs, func(i, j int) bool { return gs[i].zone < gs[j].zone })
		warm := 0
		for try := 0; try < 2 && warm != len(gs); try++ { // second chance: shared machine
			var todo []*group
			for _, g := range gs {
				if c := g.clients[0]; !(len(c.replies) == 1 && c.replies[0].rcode == 0) {
					c.replies = nil
					c.id = e.id()
					todo = append(todo, g)
				}
			}
			e.launchShort(todo, 1500*time.Millisecond)
			warm = 0
			for _, g := range gs {
				if c := g.clients[0]; len(c.replies) == 1 && c.replies[0].rcode == 0 {
					warm++
				}
			}
		}
		waitFor(3*time.Second, e.srv.Quiesced)
		time.Sleep(150 * time.Millisecond)
		e.baseG, e.baseAll = sdnsGoroutines()
		e.baseLeased = idleLeased(e.srv)
		slab, _, _, inline := server.VerifC11UDP(e.srv)
		or := "ok"
		if warm != len(gs) {
			or = fmt.Sprintf("FAIL sig=sys/warm-up/healthy-zone-unanswered warm=%d of %d", warm, len(gs))
		}
		return vlib.Res{Impl: "up", Oracle: or, Tags: fmt.Sprintf("inline=%s,slabcap=%d,baseg=%d", vlib.B(inline), slab, e.baseG)}
	case "wave":
		if env == nil || len(f) != 3 {
			return vlib.Res{Impl: "bad-op"}
		}
		e := env
		gs := parseGroups(f[2])
		if gs == nil {
			return vlib.Res{Impl: "bad-op"}
		}
		e.serial++
		for _, g := range gs {
			g.tag = fmt.Sprintf("%sw%d", g.tag, e.serial)
			e.build(g)
		}
		stallReset()
		e.launch(gs)
		v := e.judge(gs)
		worstStall := time.Duration(stallMax.Load())
		v.tags = append(v.tags, fmt.Sprintf("stall_ms=%d", worstStall.Milliseconds()))
		if strings.Contains(v.fail, "sig=sys/late-reply/") && worstStall < 300*time.Millisecond {
			// a reply a whole extra timeout late while this process never stalled: not noise. Some
			// causes fire once per delegation (checkHosts at the fifth failure) and cannot be re-run.
			return vlib.Res{Impl: "done", Oracle: v.fail, Tags: "nt," + strings.Join(v.tags, ",") + ",late-confirmed-by-watchdog"}
		}
		// Everything here runs in real time on a shared machine: a verdict
		// counts only if it reproduces on a second, fresh run of the same
		// groups (a stalled process does not strike the same way twice; a
		// changed implementation does).  That covers the hard failures and
		// the soft one (a SERVFAIL for a zone a conformant resolver resolves,
		// with ample capacity).
		if v.fail != "" || len(v.soft) > 0 {
			first := v.fail
			var again []*group
			src := gs
			if v.fail == "" {
				src = v.soft
			}
			for _, g := range src {
				e.serial++
				base := strings.SplitN(g.tag, "w", 2)[0]
				zone := g.zone
				switch { // a fresh zone: the first run may have left cached failures behind
				case strings.HasPrefix(zone, "cold"):
					zone = "cold"
				case strings.HasPrefix(zone, "pair"):
					zone = "pair"
				case strings.HasPrefix(zone, "sil"):
					zone = "sil"
				}
				pat := g.pattern
				if pat == "fifthb" {
					pat = "fifth2"
				}
				g2 := &group{pattern: pat, zone: zone, n: g.n, tag: fmt.Sprintf("%sr%d", base, e.serial)}
				e.build(g2)
				again = append(again, g2)
			}
			waitFor(3*time.Second, e.srv.Quiesced)
			e.launch(again)
			v2 := e.judge(again)
			if v.known == "" {
				v.known = v2.known
			}
			switch {
			case v2.fail != "":
				v.fail = v2.fail
			case len(v2.soft) > 0 && first == "":
				g := v2.soft[0]
				v.fail = fmt.Sprintf("FAIL sig=sys/resolvable-zone-failed/%s zone=%s reproduced twice", g.pattern, g.zone)
			default:
				v.fail = ""
			}
			v.tags = append(v.tags, "retried")
			if first != "" && v.fail == "" {
				v.tags = append(v.tags, "unreproduced:"+strings.ReplaceAll(strings.Fields(first)[1], ",", "_"))
			}
		}
		or := "ok"
		if v.fail != "" {
			or = v.fail
		} else if v.known != "" {
			or = v.known // lowest priority: only when nothing else failed in this op
		}
		return vlib.Res{Impl: "done", Oracle: or, Tags: "nt," + strings.Join(v.tags, ",") + fmt.Sprintf(",maxlat_ms=%d", e.maxLat.Milliseconds())}
	case "shift":
		if env == nil || len(f) != 3 {
			return vlib.Res{Impl: "bad-op"}
		}
		waitFor(3*time.Second, env.srv.Quiesced)
		cache.VerifShift(env.cache, time.Duration(vlib.Atoi(f[2]))*time.Millisecond)
		return vlib.Res{Impl: "shifted"}
	case "drain":
		if env == nil {
			return vlib.Res{Impl: "bad-op"}
		}
		e := env
		t0 := time.Now()
		q := waitFor(5*time.Second, e.srv.Quiesced)
		qd := time.Since(t0)
		keys := -1
		waitFor(5*time.Second, func() bool { keys = cache.VerifC11DedupKeys(e.cache); return keys == 0 })
		g, all := 0, 0
		waitFor(6*time.Second, func() bool { g, all = sdnsGoroutines(); return g <= e.baseG+50 })
		_, leased, inflight, _ := server.VerifC11UDP(e.srv)
		// after the load: plain queries for a healthy zone must be answered promptly (a
		// limiter whose slots leaked makes them wait for a slot until their deadline) …
		healthy := 0
		for try := 0; try < 2 && healthy != 3; try++ {
			e.serial++
			pg := &group{pattern: "distudp", zone: "ok", n: 3, tag: fmt.Sprintf("p%d", e.serial)}
			e.build(pg)
			e.launchShort([]*group{pg}, e.qto+500*time.Millisecond)
			healthy = 0
			for _, c := range pg.clients {
				if len(c.replies) == 1 && c.replies[0].rcode == dns.RcodeSuccess {
					healthy++
				}
			}
		}
		// … the names that were capacity-refused during the load resolve now (the zone is
		// healthy): a refusal is for the refused client only, never shared state
		stillFailing := 0
		for try := 0; try < 2 && len(e.shedNames) > 0; try++ {
			var pg group
			for _, c := range e.shedNames {
				pg.clients = append(pg.clients, &client{kind: "udp", zone: c.zone, name: c.name, qtype: c.qtype, id: e.id()})
			}
			for i := 0; i < len(pg.clients); i += 4 { // a few at a time: the limits are tiny
				j := i + 4
				if j > len(pg.clients) {
					j = len(pg.clients)
				}
				e.launchShort([]*group{{clients: pg.clients[i:j]}}, e.qto+500*time.Millisecond)
			}
			stillFailing = 0
			var rest []*client
			for _, c := range pg.clients {
				if !(len(c.replies) == 1 && c.replies[0].rcode == dns.RcodeSuccess) {
					stillFailing++
					rest = append(rest, c)
				}
			}
			e.shedNames = rest
		}
		reasked := len(e.shedNames)
		e.shedNames = nil
		_ = reasked
		// … and every resolver limiter is empty again
		var sa, sl, sp, s6, sz int
		waitFor(5*time.Second, func() bool {
			sa, sl, sp, s6, sz = resolver.VerifC11Slots(e.res)
			return sa+sl+sp+s6+sz == 0
		})
		// … and every UDP slab lease is back where the idle server holds it
		var leasedNow int64
		waitFor(5*time.Second, func() bool { leasedNow, _ = server.VerifC11Leased(e.srv); return leasedNow <= e.baseLeased })
		or := "ok"
		switch {
		case leasedNow > e.baseLeased:
			or = fmt.Sprintf("FAIL sig=sys/drain/slab-lease-leaked idle=%d now=%d", e.baseLeased, leasedNow)
		case stillFailing > 0:
			or = fmt.Sprintf("FAIL sig=sys/drain/shed-failure-served-to-later-client still-failing=%d", stillFailing)
		case sa+sl+sp+s6+sz != 0:
			or = fmt.Sprintf("FAIL sig=sys/drain/limiter-slot-leaked attempts=%d/%d lookups=%d probes=%d v6=%d zones=%d", sa, resolver.VerifC11AttemptCap(e.res), sl, sp, s6, sz)
		case healthy != 3:
			or = fmt.Sprintf("FAIL sig=sys/drain/healthy-query-failed-after-load answered=%d of 3", healthy)
		case !q:
			or = fmt.Sprintf("FAIL sig=sys/drain/not-quiesced leased=%d inflight=%d", leased, inflight)
		case keys != 0:
			or = fmt.Sprintf("FAIL sig=sys/drain/dedup-generation-leaked keys=%d", keys)
		case g > e.baseG+50:
			or = fmt.Sprintf("FAIL sig=sys/drain/goroutine-leak base=%d now=%d", e.baseG, g)
		}
		return vlib.Res{Impl: "drained", Oracle: or, Tags: fmt.Sprintf("nt,quiesce_ms=%d,g=%d,baseg=%d,gall=%d,maxlat_ms=%d", qd.Milliseconds(), g, e.baseG, all, e.maxLat.Milliseconds())}
	case "fifth": // sys fifth <rounds>: one lookup after the other against a fresh silent zone, the cached
		// zone failure expired in between (sys shift), so that every lookup really goes out and fails with
		// "all servers failed"; the fifth makes the resolver re-check the zone's name-server hosts
		// (checkHosts), whose address now has to be fetched from a slow zone. Every reply — the fifth
		// included — must arrive within the request's own budget.
		if env == nil || len(f) != 3 {
			return vlib.Res{Impl: "bad-op"}
		}
		e := env
		rounds := vlib.Atoi(f[2])
		var lat []string
		or := "ok"
		for attempt := 0; attempt < 2; attempt++ {
			if e.sil >= silentZones {
				break
			}
			e.sil++
			zone := fmt.Sprintf("sil%d", e.sil)
			lat = lat[:0]
			or = "ok"
			noisy := false
			for i := 0; i < rounds && or == "ok"; i++ {
				e.serial++
				c := e.mk("udp", zone, fmt.Sprintf("r%dx%d", i, e.serial), dns.TypeA)
				stallReset()
				e.runUDPUntilReply(c, e.qto+3*time.Second)
				stall := time.Duration(stallMax.Load())
				switch {
				case len(c.replies) != 1:
					or = fmt.Sprintf("FAIL sig=sys/fifth/no-reply round=%d zone=%s", i+1, zone)
				case c.replies[0].at > e.qto+e.late:
					or = fmt.Sprintf("FAIL sig=sys/late-reply/udp fifth round=%d zone=%s after=%s budget=%s", i+1, zone, c.replies[0].at.Round(time.Millisecond), e.qto)
					noisy = stall >= 300*time.Millisecond
				default:
					lat = append(lat, fmt.Sprint(c.replies[0].at.Milliseconds()))
				}
				waitFor(2*time.Second, e.srv.Quiesced)
				cache.VerifShift(e.cache, 70*time.Second)
			}
			if or == "ok" || !noisy {
				break // a late reply while the process never stalled is not noise; else once more on a fresh zone
			}
		}
		return vlib.Res{Impl: "done", Oracle: or, Tags: "nt,lat_ms=" + strings.Join(lat, "/")}
	case "nsaddr": // sys nsaddr <first|last>: lookupV4Nss of a glue-less delegation with two NS hosts, the
		// address lookup of the first / last sorted one shed by the zone limiter, the other failing ordinarily
		if env == nil || len(f) != 3 {
			return vlib.Res{Impl: "bad-op"}
		}
		e := env
		e.serial++
		shedHost, badHost := fmt.Sprintf("a%d.nsz.test.", e.serial), fmt.Sprintf("z%d.refused.test.", e.serial)
		if f[2] == "last" {
			shedHost, badHost = fmt.Sprintf("z%d.nsz.test.", e.serial), fmt.Sprintf("a%d.refused.test.", e.serial)
		}
		// make sure the delegation of nsz.test. is known, then fill its quota
		w := e.mk("udp", "nsz", fmt.Sprintf("warm%d", e.serial), dns.TypeA)
		w.name = fmt.Sprintf("warm%d.nsz.test.", e.serial)
		e.runUDPUntilReply(w, e.qto)
		_, release := resolver.VerifC11ZoneHold(e.res, "nsz.test.", 1000)
		ctx, cancel := context.WithTimeout(context.Background(), e.qto)
		servers, err := resolver.VerifC11LookupV4Nss(e.res, ctx, fmt.Sprintf("kid%d.test.", e.serial), []string{shedHost, badHost})
		cancel()
		release()
		impl := fmt.Sprintf("servers=%d err=%s", servers, map[bool]string{true: "nil", false: "set"}[err == nil])
		or := "ok"
		switch {
		case servers != 0:
			or = "FAIL sig=sys/nsaddr/unexpected-server"
		case err == nil:
			// our own refusal (plus an ordinary failure) produced no server: that is not evidence
			// about the child zone and must come back as the refusal it is
			or = "FAIL sig=sys/nsaddr/capacity-refusal-reported-as-unreachable-zone shed-host=" + f[2]
		case !middleware.IsRequestLocalResolutionError(err):
			or = "FAIL sig=sys/nsaddr/refusal-not-request-local err=" + err.Error()
		}
		return vlib.Res{Impl: impl, Oracle: or, Tags: "nt"}
	case "log": // debugging aid: what one zone's server was asked
		if env == nil || len(f) != 3 {
			return vlib.Res{Impl: "bad-op"}
		}
		z := env.w.Zones[f[2]+".test."]
		if f[2] == "tld" {
			z = env.w.Zones["test."]
		}
		if f[2] == "nsz" {
			z = env.w.Zones["nsz.test."]
		}
		if z == nil {
			return vlib.Res{Impl: "bad-op"}
		}
		return vlib.Res{Impl: "log", Tags: strings.Join(z.Servers[0].Log, " | ")}
	case "end":
		closeAll()
		return vlib.Res{Impl: "closed"}
	}
	return vlib.Res{Impl: "bad-op"}
}

func (e *sysEnv) launchShort(gs []*group, listen time.Duration) {
	var wg sync.WaitGroup
	for _, g := range gs {
		for _, c := range g.clients {
			c := c
			wg.Add(1)
			go func() {
				defer wg.Done()
				if c.kind == "udp" {
					e.runUDPUntilReply(c, listen)
				} else {
					e.runTCP([]*client{c}, 400*time.Millisecond, 0)
				}
			}()
		}
	}
	wg.Wait()
}

// runUDPUntilReply is runUDP that stops at the first matching reply (warm-up only).
func (e *sysEnv) runUDPUntilReply(c *client, listen time.Duration) {
	conn, err := net.Dial("udp", e.addr)
	if err != nil {
		return
	}
	defer conn.Close()
	b, _ := e.newQuery(c).Pack()
	c.sent = time.Now()
	conn.Write(b)
	buf := make([]byte, 65535)
	for len(c.replies) == 0 {
		conn.SetReadDeadline(c.sent.Add(listen))
		n, err := conn.Read(buf)
		if err != nil {
			return
		}
		c.note(buf[:n], time.Since(c.sent))
	}
}

// stall watchdog: the largest gap between two 10 ms ticks since the last reset. Clients and server
// share this process, so a late reply observed while no tick was late is not scheduling noise.
var (
	stallOnce sync.Once
	stallMax  atomic.Int64
)

func stallReset() {
	stallOnce.Do(func() {
		go func() {
			last := time.Now()
			for {
				time.Sleep(10 * time.Millisecond)
				now := time.Now()
				if g := int64(now.Sub(last)); g > stallMax.Load() {
					stallMax.Store(g)
				}
				last = now
			}
		}()
	})
	stallMax.Store(0)
}

// idleLeased samples the lease counter of a quiescent server until it is stable.
func idleLeased(srv *server.Server) int64 {
	last, _ := server.VerifC11Leased(srv)
	for i := 0; i < 20; i++ {
		time.Sleep(20 * time.Millisecond)
		now, _ := server.VerifC11Leased(srv)
		if now == last && i >= 2 {
			break
		}
		last = now
	}
	return last
}

// junkDatagrams: inputs that are not admitted queries — oversized (MSG_TRUNC),
// exactly the buffer class, short headers, QR set, foreign opcode, bad counts,
// noise. Nothing is judged about replies; the server must not lose a slab over them.
func junkDatagrams(name string) [][]byte {
	q := new(dns.Msg)
	q.SetQuestion(name, dns.TypeA)
	ok, _ := q.Pack()
	mod := func(f func(b []byte)) []byte { b := append([]byte{}, ok...); f(b); return b }
	big := func(n int) []byte { b := make([]byte, n); copy(b, ok); return b }
	return [][]byte{
		big(5000), big(4097), big(4096), big(9000),
		ok[:5], ok[:11], {},
		mod(func(b []byte) { b[2] |= 0x80 }),          // QR set
		mod(func(b []byte) { b[2] |= 5 << 3 }),        // opcode UPDATE
		mod(func(b []byte) { b[4], b[5] = 0, 0 }),     // QDCOUNT 0
		mod(func(b []byte) { b[4], b[5] = 0, 2 }),     // QDCOUNT 2
		mod(func(b []byte) { b[6], b[7] = 0, 9 }),     // ANCOUNT 9
		append(append([]byte{}, ok[:12]...), 0xc0, 0x0c, 0, 1, 0, 1), // qname = pointer to itself
	}
}

func (e *sysEnv) runJunk(c *client, rounds int) {
	conn, err := net.Dial("udp", e.addr)
	if err != nil {
		return
	}
	defer conn.Close()
	for i := 0; i < rounds; i++ {
		for _, b := range junkDatagrams(c.name) {
			conn.Write(b)
		}
		time.Sleep(5 * time.Millisecond)
	}
	// TCP: a frame announcing more than it sends, a sub-header frame, then gone
	if t, err := net.Dial("tcp", e.addr); err == nil {
		t.Write([]byte{0, 5, 1, 2, 3, 4, 5})
		t.Close()
	}
	time.Sleep(50 * time.Millisecond)
}

func waitFor(max time.Duration, cond func() bool) bool {
	dl := time.Now().Add(max)
	for {
		if cond() {
			return true
		}
		if time.Now().After(dl) {
			return cond()
		}
		time.Sleep(10 * time.Millisecond)
	}
}
