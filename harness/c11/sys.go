//go:build verif

package main

// System level part of the C11 check (oracle only): REAL sockets in front of
// the REAL server.Server + edns/cache/resolver pipeline (registered through
// middleware.Register + middleware.Setup exactly like harness/l3/pipe.go and
// harness/srvh/srvh.go do), resolving against an l3 world whose zones each
// sit on a server following one fault script.

import (
	"bytes"
	"context"
	"encoding/binary"
	"fmt"
	"io"
	"net"
	"os"
	"path/filepath"
	"runtime"
	"sort"
	"strings"
	"sync"
	"sync/atomic"
	"time"

	"github.com/miekg/dns"
	"github.com/semihalev/sdns/config"
	"github.com/semihalev/sdns/internal/verif/l3"
	"github.com/semihalev/sdns/internal/verif/srvh"
	"github.com/semihalev/sdns/internal/verif/vlib"
	"github.com/semihalev/sdns/middleware"
	"github.com/semihalev/sdns/middleware/cache"
	"github.com/semihalev/sdns/middleware/edns"
	"github.com/semihalev/sdns/middleware/resolver"
	"github.com/semihalev/sdns/server"
)

// ---------------------------------------------------------------- fault zones

// faults lists every scripted zone of a world: <fault>.test. on its own server.
var faults = []string{"ok", "lag", "drop", "slow", "glacial", "tcok", "tcstall", "tcreset",
	"wrongid", "wrongq", "wrongonly", "garbage", "servfail", "refused", "mix", "flaky"}

// recoverable faults: a conformant resolver can still obtain the answer.
var recoverable = map[string]bool{"ok": true, "lag": true, "tcok": true, "wrongid": true, "wrongq": true}

const zoneAddr = "192.0.2.77"

// ---------------------------------------------------------------- probe handler

// probe sits in front of edns/cache/resolver. It never decodes the chain's
// request (that would move wire-born requests off the byte path); it counts
// passes per (id, qname) and, for names starting with "stagedho", plays the
// handler the engine's terminal rule exists for: on the inline pass it
// writes a reply AND marks handoff.
type probe struct {
	mu      sync.Mutex
	inline  map[string]int
	replay  map[string]int
	plain   map[string]int
	staged  atomic.Int64
	handoff atomic.Int64
}

func (p *probe) Name() string { return "c11probe" }

func reqKey(ch *middleware.Chain) (string, []byte) {
	r := ch.Request
	if r == nil {
		return "", nil
	}
	if raw := r.Raw(); raw != nil && r.Undecoded() {
		return fmt.Sprintf("%d/%x", r.ID(), bytes.ToLower(r.WireName())), raw
	}
	if m := r.Msg(); m != nil && len(m.Question) == 1 {
		buf := make([]byte, 300)
		off, err := dns.PackDomainName(strings.ToLower(m.Question[0].Name), buf, 0, nil, false)
		if err == nil {
			return fmt.Sprintf("%d/%x", m.Id, buf[:off]), nil
		}
	}
	return "", nil
}

func (p *probe) ServeDNS(ctx context.Context, ch *middleware.Chain) {
	key, raw := reqKey(ch)
	p.mu.Lock()
	switch {
	case ch.InlineOnly():
		p.inline[key]++
	case ch.Replay():
		p.replay[key]++
	default:
		p.plain[key]++
	}
	p.mu.Unlock()
	if raw != nil && len(raw) > 22 && bytes.HasPrefix(bytes.ToLower(raw[12:]), []byte("\x08stagedho")) {
		q := new(dns.Msg)
		if q.Unpack(raw) == nil && len(q.Question) == 1 {
			m := new(dns.Msg)
			m.SetReply(q)
			m.RecursionAvailable = true
			txt := "inline"
			if ch.Replay() {
				txt = "replay"
			} else if !ch.InlineOnly() {
				txt = "plain"
			}
			m.Answer = []dns.RR{&dns.TXT{Hdr: dns.RR_Header{Name: q.Question[0].Name, Rrtype: dns.TypeTXT, Class: dns.ClassINET, Ttl: 0}, Txt: []string{txt}}}
			_ = ch.Writer.WriteMsg(m)
			if ch.InlineOnly() {
				p.staged.Add(1)
				ch.MarkHandoff()
			}
			ch.Cancel()
			return
		}
	}
	ch.Next(ctx)
}

// ---------------------------------------------------------------- environment

type sysEnv struct {
	w       *l3.World
	cfg     *config.Config
	srv     *server.Server
	cache   *cache.Cache
	res     *resolver.Resolver
	probe   *probe
	addr    string
	dir     string
	cancel  context.CancelFunc
	garbage *garbageServer
	flaky   atomic.Int64
	small   bool // tiny concurrency limits
	qto     time.Duration
	uto     time.Duration
	baseG   int // sdns goroutines after start-up + warm-up
	baseAll int
	nextID  uint32
	serial  int
	maxLat  time.Duration
	inline  bool
}

var env *sysEnv

func freePort() int {
	for i := 0; i < 100; i++ {
		pc, err := net.ListenPacket("udp", "127.0.0.1:0")
		if err != nil {
			continue
		}
		port := pc.LocalAddr().(*net.UDPAddr).Port
		ln, err := net.Listen("tcp", fmt.Sprintf("127.0.0.1:%d", port))
		pc.Close()
		if err != nil {
			continue
		}
		ln.Close()
		return port
	}
	panic("no free port")
}

var sysSeq atomic.Uint32

func (e *sysEnv) close() {
	if e == nil {
		return
	}
	if e.cancel != nil {
		e.cancel()
		dl := time.Now().Add(e.qto + 3*time.Second)
		for !e.srv.Stopped() && time.Now().Before(dl) {
			time.Sleep(10 * time.Millisecond)
		}
	}
	e.srv.Stop()
	if h, ok := middleware.Get("resolver").(*resolver.DNSHandler); ok && h != nil {
		h.Stop()
	}
	if e.cache != nil {
		e.cache.Stop()
	}
	e.w.Close()
	if e.garbage != nil {
		e.garbage.close()
	}
	_ = os.RemoveAll(e.dir)
	middleware.Reset()
}

// garbageServer answers every datagram / TCP frame with bytes that are not
// a DNS message (the request id followed by junk, a short header, or a
// header promising records that are not there).
type garbageServer struct {
	pc   net.PacketConn
	ln   net.Listener
	n    atomic.Int64
	addr string
}

func junk(req []byte, k int64) []byte {
	id := []byte{0, 0}
	if len(req) >= 2 {
		copy(id, req[:2])
	}
	switch k % 4 {
	case 0: // id + noise
		out := append([]byte{}, id...)
		for i := 0; i < 37; i++ {
			out = append(out, byte(i*73+int(k)))
		}
		return out
	case 1: // five bytes
		return append(id, 0x81, 0x80, 0x00)
	case 2: // header claims 1 question, 3 answers; nothing follows
		return append(id, 0x81, 0x80, 0, 1, 0, 3, 0, 0, 0, 0)
	default: // the question echoed, then an answer cut in the middle of its name
		out := append([]byte{}, req...)
		if len(out) > 7 {
			out[2], out[3], out[7] = 0x81, 0x80, 1
		}
		return append(out, 0xc0)
	}
}

func newGarbageServer() *garbageServer {
	var pc net.PacketConn
	var ln net.Listener
	var err error
	for try := 0; try < 50; try++ {
		pc, err = net.ListenPacket("udp", "127.0.0.1:0")
		if err != nil {
			panic(err)
		}
		ln, err = net.Listen("tcp", pc.LocalAddr().String())
		if err == nil {
			break
		}
		pc.Close()
	}
	if err != nil {
		panic(err)
	}
	g := &garbageServer{pc: pc, ln: ln, addr: pc.LocalAddr().String()}
	go func() {
		buf := make([]byte, 4096)
		for {
			n, a, err := pc.ReadFrom(buf)
			if err != nil {
				return
			}
			pc.WriteTo(junk(buf[:n], g.n.Add(1)), a)
		}
	}()
	go func() {
		for {
			c, err := ln.Accept()
			if err != nil {
				return
			}
			go func(c net.Conn) {
				defer c.Close()
				c.SetDeadline(time.Now().Add(5 * time.Second))
				var l [2]byte
				if _, err := io.ReadFull(c, l[:]); err != nil {
					return
				}
				b := make([]byte, binary.BigEndian.Uint16(l[:]))
				if _, err := io.ReadFull(c, b); err != nil {
					return
				}
				j := junk(b, g.n.Add(1))
				out := make([]byte, 2+len(j))
				binary.BigEndian.PutUint16(out, uint16(len(j)))
				copy(out[2:], j)
				c.Write(out)
			}(c)
		}
	}()
	return g
}

func (g *garbageServer) close() { g.pc.Close(); g.ln.Close() }

func otherQuestion(req *dns.Msg) *dns.Msg {
	m := new(dns.Msg)
	m.SetReply(req)
	m.Authoritative = true
	m.Question[0].Name = "elsewhere." + req.Question[0].Name
	rr, _ := dns.NewRR(m.Question[0].Name + " 60 IN A 203.0.113.66")
	m.Answer = []dns.RR{rr}
	return m
}

// newSysEnv builds world + server. small selects tiny concurrency limits.
func newSysEnv(small bool, dedupTimeout time.Duration) *sysEnv {
	e := &sysEnv{small: small, probe: &probe{inline: map[string]int{}, replay: map[string]int{}, plain: map[string]int{}}}
	e.qto = 1500 * time.Millisecond
	e.uto = 300 * time.Millisecond
	e.w = l3.NewWorld(false)
	e.w.AddZone("test.", l3.ZoneOpts{})
	for _, f := range faults {
		z := e.w.AddZone(f+".test.", l3.ZoneOpts{})
		z.Add("*."+f+".test. 60 IN A "+zoneAddr, "*."+f+".test. 60 IN TXT \"t\"")
		s := z.Servers[0]
		switch f {
		case "lag":
			s.SetBehaviour(l3.Behaviour{Delay: func(dns.Question, bool) time.Duration { return 120 * time.Millisecond }})
		case "drop":
			s.SetBehaviour(l3.Behaviour{Drop: func(dns.Question, bool) bool { return true }})
		case "slow": // beyond cfg.Timeout, inside cfg.QueryTimeout
			s.SetBehaviour(l3.Behaviour{Delay: func(dns.Question, bool) time.Duration { return e.uto + 150*time.Millisecond }})
		case "glacial": // beyond cfg.QueryTimeout
			s.SetBehaviour(l3.Behaviour{Delay: func(dns.Question, bool) time.Duration { return e.qto + 400*time.Millisecond }})
		case "tcok":
			s.SetBehaviour(l3.Behaviour{TruncateUDP: true})
		case "tcstall": // TC, then a TCP side that accepts and stays silent past the query timeout
			s.SetBehaviour(l3.Behaviour{TruncateUDP: true, Delay: func(_ dns.Question, tcp bool) time.Duration {
				if tcp {
					return e.qto + 700*time.Millisecond
				}
				return 0
			}})
		case "tcreset":
			s.SetBehaviour(l3.Behaviour{TruncateUDP: true, ResetTCP: true})
		case "wrongid":
			s.SetBehaviour(l3.Behaviour{Pre: func(req *dns.Msg) []*dns.Msg {
				m := s.Honest(req)
				m.Id = req.Id + 1
				if len(m.Answer) > 0 {
					if a, ok := m.Answer[0].(*dns.A); ok {
						a.A = net.IPv4(203, 0, 113, 66)
					}
				}
				return []*dns.Msg{m}
			}})
		case "wrongq":
			s.SetBehaviour(l3.Behaviour{Pre: func(req *dns.Msg) []*dns.Msg { return []*dns.Msg{otherQuestion(req)} }})
		case "wrongonly":
			s.SetBehaviour(l3.Behaviour{Tamper: func(q dns.Question, honest *dns.Msg, tcp bool) *dns.Msg {
				req := new(dns.Msg)
				req.Id = honest.Id
				req.Question = []dns.Question{q}
				return otherQuestion(req)
			}})
		case "garbage":
			e.garbage = newGarbageServer()
			e.w.AddrMap[net.JoinHostPort(s.IP.String(), "53")] = e.garbage.addr
		case "servfail":
			s.SetBehaviour(l3.Behaviour{Rcode: func(dns.Question) int { return dns.RcodeServerFailure }})
		case "refused":
			s.SetBehaviour(l3.Behaviour{Rcode: func(dns.Question) int { return dns.RcodeRefused }})
		case "mix":
			s.SetBehaviour(l3.Behaviour{Rcode: func(q dns.Question) int {
				switch len(q.Name) % 3 {
				case 0:
					return dns.RcodeServerFailure
				case 1:
					return dns.RcodeRefused
				}
				return dns.RcodeNotImplemented
			}})
		case "flaky": // every other query is dropped, the rest answered
			s.SetBehaviour(l3.Behaviour{Drop: func(dns.Question, bool) bool { return e.flaky.Add(1)%2 == 1 }})
		}
	}

	middleware.Reset()
	base := os.Getenv("VERIF_DIR")
	if base == "" {
		base = "/verif"
	}
	e.dir = filepath.Join(base, "build", "tmp-c11", fmt.Sprintf("s%d-%d", os.Getpid(), sysSeq.Add(1)))
	_ = os.MkdirAll(e.dir, 0o750)
	cfg := new(config.Config)
	cfg.RootServers = []string{net.JoinHostPort(e.w.Root.Servers[0].IP.String(), "53")}
	cfg.IPv6Access = false
	cfg.Maxdepth = 30
	cfg.Expire = 600
	cfg.CacheSize = 4096
	cfg.Timeout.Duration = e.uto
	cfg.QueryTimeout.Duration = e.qto
	cfg.Directory = e.dir
	cfg.DNSSEC = "off"
	cfg.Bind = fmt.Sprintf("127.0.0.1:%d", freePort())
	cfg.RecursionFirewall.FailureCacheMinTTL.Duration = 2 * time.Second
	cfg.RecursionFirewall.FailureCacheMaxTTL.Duration = 4 * time.Second
	if small {
		cfg.MaxConcurrentQueries = 6
		cfg.IngressWorkers = 2
		cfg.IngressQueue = 1
	}
	cfg.IngressTCPConns = 256
	e.cfg = cfg
	e.addr = cfg.Bind

	var h *resolver.DNSHandler
	middleware.Register("c11probe", func(*config.Config) middleware.Handler { return e.probe })
	middleware.Register("edns", func(c *config.Config) middleware.Handler { return edns.New(c) })
	middleware.Register("cache", func(c *config.Config) middleware.Handler {
		e.cache = cache.New(c)
		if dedupTimeout > 0 {
			cache.VerifC11SetDedupTimeout(e.cache, dedupTimeout)
		}
		return e.cache
	})
	middleware.Register("resolver", func(c *config.Config) middleware.Handler { h = resolver.New(c); return h })
	// The resolver's resolveTarget hook must be in place before Setup
	// publishes the pipeline (root priming starts right then), so build the
	// handlers through Setup but install the hook from inside the constructor
	// order: Setup → Build → constructors; the hook is set right after.
	amap := e.w.AddrMap
	var amu sync.Mutex
	target := func(addr string) string {
		amu.Lock()
		defer amu.Unlock()
		if t, ok := amap[addr]; ok {
			return t
		}
		return "127.0.0.1:9"
	}
	middleware.Register("c11hook", func(*config.Config) middleware.Handler {
		// runs after the resolver's constructor, before Setup publishes
		e.res = resolver.VerifResolver(h)
		resolver.VerifSetResolveTarget(e.res, target)
		return nil
	})
	middleware.Setup(cfg)
	e.srv = server.New(cfg)
	ctx, cancel := context.WithCancel(context.Background())
	e.cancel = cancel
	if err := e.srv.Run(ctx); err != nil {
		cancel()
		panic(err)
	}
	_, _, _, e.inline = server.VerifC11UDP(e.srv)
	return e
}

// ---------------------------------------------------------------- clients

type reply struct {
	at    time.Duration
	rcode int
	ans   string // canonical answer section
	ede   string
}

type client struct {
	kind    string // udp | tcp | tcpclose | msg | msgcancel
	zone    string // fault
	name    string
	qtype   uint16
	id      uint16
	group   int
	sent    time.Time
	replies []reply
	other   int    // datagrams/messages that do not match id+question
	eof     bool   // TCP: server closed the connection
	errs    string // client-side error
	cancelAfter time.Duration
	cancelled   bool
}

func (e *sysEnv) newQuery(c *client) *dns.Msg {
	m := new(dns.Msg)
	m.SetQuestion(c.name, c.qtype)
	m.Id = c.id
	m.RecursionDesired = true
	m.SetEdns0(1232, false)
	return m
}

func canonAnswer(m *dns.Msg) string {
	var out []string
	for _, rr := range m.Answer {
		c := dns.Copy(rr)
		c.Header().Ttl = 0
		out = append(out, strings.ToLower(strings.Join(strings.Fields(c.String()), " ")))
	}
	sort.Strings(out)
	return strings.Join(out, "|")
}

func edeOf(m *dns.Msg) string {
	if o := m.IsEdns0(); o != nil {
		for _, x := range o.Option {
			if ed, ok := x.(*dns.EDNS0_EDE); ok {
				return fmt.Sprintf("%d", ed.InfoCode)
			}
		}
	}
	return ""
}

func (c *client) note(b []byte, at time.Duration) {
	m := new(dns.Msg)
	if err := m.Unpack(b); err != nil || !m.Response || m.Id != c.id || len(m.Question) != 1 ||
		!strings.EqualFold(m.Question[0].Name, c.name) || m.Question[0].Qtype != c.qtype {
		c.other++
		return
	}
	c.replies = append(c.replies, reply{at: at, rcode: m.Rcode, ans: canonAnswer(m), ede: edeOf(m)})
}

func (e *sysEnv) runUDP(c *client, listen time.Duration) {
	conn, err := net.Dial("udp", e.addr)
	if err != nil {
		c.errs = "dial:" + err.Error()
		return
	}
	defer conn.Close()
	b, _ := e.newQuery(c).Pack()
	c.sent = time.Now()
	if _, err := conn.Write(b); err != nil {
		c.errs = "write:" + err.Error()
		return
	}
	buf := make([]byte, 65535)
	dl := c.sent.Add(listen)
	for {
		conn.SetReadDeadline(dl)
		n, err := conn.Read(buf)
		if err != nil {
			return
		}
		c.note(buf[:n], time.Since(c.sent))
	}
}

// runTCP sends the queries of cs (pipelined on one connection) and listens.
// closeAfter > 0: the client disconnects after that long.
func (e *sysEnv) runTCP(cs []*client, listen, closeAfter time.Duration) {
	conn, err := net.Dial("tcp", e.addr)
	if err != nil {
		for _, c := range cs {
			c.errs = "dial:" + err.Error()
		}
		return
	}
	defer conn.Close()
	var out []byte
	for _, c := range cs {
		b, _ := e.newQuery(c).Pack()
		var l [2]byte
		binary.BigEndian.PutUint16(l[:], uint16(len(b)))
		out = append(out, l[:]...)
		out = append(out, b...)
	}
	now := time.Now()
	for _, c := range cs {
		c.sent = now
	}
	if _, err := conn.Write(out); err != nil {
		for _, c := range cs {
			c.errs = "write:" + err.Error()
		}
		return
	}
	if closeAfter > 0 {
		time.Sleep(closeAfter)
		for _, c := range cs {
			c.cancelled = true
		}
		if tc, ok := conn.(*net.TCPConn); ok && closeAfter%2 == 1 {
			tc.SetLinger(0) // RST instead of FIN on odd delays
		}
		return
	}
	dl := now.Add(listen)
	for {
		conn.SetReadDeadline(dl)
		var l [2]byte
		if _, err := io.ReadFull(conn, l[:]); err != nil {
			if err == io.EOF {
				for _, c := range cs {
					c.eof = true
				}
			}
			return
		}
		b := make([]byte, binary.BigEndian.Uint16(l[:]))
		if _, err := io.ReadFull(conn, b); err != nil {
			return
		}
		at := time.Since(now)
		matched := false
		for _, c := range cs {
			before := len(c.replies)
			o := c.other
			c.note(b, at)
			if len(c.replies) > before {
				matched = true
			}
			c.other = o
		}
		if !matched {
			cs[0].other++
		}
	}
}

// runMsg enters through Server.ServeMsg (the DoH/DoQ/embedder entry) with a
// parent context the client may cancel.
func (e *sysEnv) runMsg(c *client, listen time.Duration) {
	ctx, cancel := context.WithCancel(context.Background())
	defer cancel()
	w := &srvh.MsgWriter{Remote: &net.UDPAddr{IP: net.IPv4(127, 0, 0, 1), Port: 40000 + int(c.id%20000)}, ProtoS: "doh"}
	var mu sync.Mutex
	lw := &lockedWriter{MsgWriter: w, mu: &mu}
	c.sent = time.Now()
	done := make(chan struct{})
	go func() {
		defer close(done)
		e.srv.ServeMsg(ctx, lw, e.newQuery(c))
	}()
	if c.cancelAfter > 0 {
		select {
		case <-done:
		case <-time.After(c.cancelAfter):
			c.cancelled = true
			cancel()
		}
	}
	select {
	case <-done:
	case <-time.After(listen):
		c.errs = "servemsg-not-returned"
	}
	returned := time.Since(c.sent)
	// a reply written after ServeMsg returned would be a use-after-finish;
	// keep listening until the window closes.
	if rest := listen - time.Since(c.sent); rest > 0 && c.errs == "" {
		time.Sleep(minDur(rest, 300*time.Millisecond))
	}
	mu.Lock()
	defer mu.Unlock()
	for _, m := range w.Msgs {
		if b, err := m.Pack(); err == nil {
			c.note(b, returned)
		}
	}
}

type lockedWriter struct {
	*srvh.MsgWriter
	mu *sync.Mutex
}

func (w *lockedWriter) WriteMsg(m *dns.Msg) error {
	w.mu.Lock()
	defer w.mu.Unlock()
	return w.MsgWriter.WriteMsg(m)
}
func (w *lockedWriter) Write(b []byte) (int, error) {
	w.mu.Lock()
	defer w.mu.Unlock()
	return w.MsgWriter.Write(b)
}

func minDur(a, b time.Duration) time.Duration {
	if a < b {
		return a
	}
	return b
}

// ---------------------------------------------------------------- goroutines

// sdnsGoroutines counts goroutines that run repository code (frames of
// github.com/semihalev/sdns/ outside internal/verif), i.e. excluding the
// harness's own servers and clients.
func sdnsGoroutines() (sdns, all int) {
	buf := make([]byte, 1<<20)
	for {
		n := runtime.Stack(buf, true)
		if n < len(buf) {
			buf = buf[:n]
			break
		}
		buf = make([]byte, 2*len(buf))
	}
	for _, g := range strings.Split(string(buf), "\n\n") {
		if !strings.HasPrefix(g, "goroutine ") {
			continue
		}
		all++
		own := false
		for _, ln := range strings.Split(g, "\n") {
			if strings.HasPrefix(ln, "github.com/semihalev/sdns/") && !strings.HasPrefix(ln, "github.com/semihalev/sdns/internal/verif/") {
				own = true
				break
			}
		}
		if own {
			sdns++
		}
	}
	return
}

var _ = vlib.B
