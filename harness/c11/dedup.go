//go:build verif

package main

// Mid level of the C11 check (oracle only): the REAL server.Server with its
// UDP/TCP sockets and the real recovery/edns/cache handlers (harness/srvh)
// over a scripted stub standing where the resolver is, so that the dedup loop
// of Cache.ServeDNS (leader / followers / cancellation / bounded wait /
// failure-probe regroup) is driven with precise "upstream" behaviour.

import (
	"context"
	"fmt"
	"net"
	"strconv"
	"strings"
	"sync"
	"time"

	"github.com/miekg/dns"
	"github.com/semihalev/sdns/config"
	"github.com/semihalev/sdns/internal/verif/srvh"
	"github.com/semihalev/sdns/internal/verif/vlib"
	"github.com/semihalev/sdns/middleware/cache"
	"github.com/semihalev/sdns/server"
)

type ddEnv struct {
	l        *srvh.Live
	qto      time.Duration
	workers  int
	known    string // first KNOWN-finding verdict of this case (repeated by "dedup end")
	mu       sync.Mutex
	silent   map[uint16]bool // ids whose (cancelled) leader pass must end without a reply
	serial   int
	nextID   uint32
	maxLat   time.Duration
	baseG    int
	baseLeased int64
	byName   map[string]int // stub calls per name
}

var dd *ddEnv

const ddAddr = "192.0.2.88"

// stub script, from the first label of the name:  <verb><ms>-…
//   ok120  answer after 120 ms      sf80  SERVFAIL after 80 ms
//   hang   answer only after the client's deadline has passed
//   stuck  like hang, and the handler needs another 300 ms to notice that its context ended
func ddParse(name string) (verb string, d time.Duration) {
	lbl := strings.SplitN(strings.ToLower(name), ".", 2)[0]
	lbl = strings.SplitN(lbl, "-", 2)[0]
	i := 0
	for i < len(lbl) && (lbl[i] < '0' || lbl[i] > '9') {
		i++
	}
	verb = lbl[:i]
	if i < len(lbl) {
		ms, _ := strconv.Atoi(lbl[i:])
		d = time.Duration(ms) * time.Millisecond
	}
	return
}

func newDDEnv(qto, dedupTO time.Duration, workers int) *ddEnv {
	e := &ddEnv{qto: qto, workers: workers, silent: map[uint16]bool{}, byName: map[string]int{}}
	e.l = srvh.Start(srvh.Opts{Handlers: []string{"recovery", "edns", "cache"}, Listen: true, Tweak: func(cfg *config.Config) {
		cfg.QueryTimeout.Duration = qto
		cfg.IngressWorkers = workers
		if workers > 0 {
			cfg.IngressQueue = 1
		}
		cfg.IngressTCPConns = 256
		cfg.RecursionFirewall.FailureCacheMinTTL.Duration = 2 * time.Second
		cfg.RecursionFirewall.FailureCacheMaxTTL.Duration = 4 * time.Second
	}})
	if dedupTO > 0 {
		cache.VerifC11SetDedupTimeout(e.l.Cache, dedupTO)
	}
	e.l.Stub.Delay = func(req *dns.Msg) time.Duration {
		verb, d := ddParse(req.Question[0].Name)
		e.mu.Lock()
		e.byName[strings.ToLower(req.Question[0].Name)]++
		e.mu.Unlock()
		if verb == "hang" || verb == "stuck" {
			return qto + 400*time.Millisecond
		}
		return d
	}
	e.l.Stub.Set(func(req *dns.Msg) *dns.Msg {
		e.mu.Lock()
		quiet := e.silent[req.Id]
		e.mu.Unlock()
		if quiet {
			return nil
		}
		verb, _ := ddParse(req.Question[0].Name)
		if verb == "stuck" {
			time.Sleep(300 * time.Millisecond)
		}
		m := new(dns.Msg)
		m.SetReply(req)
		m.RecursionAvailable = true
		if verb == "sf" {
			m.Rcode = dns.RcodeServerFailure
			return m
		}
		rr, _ := dns.NewRR(req.Question[0].Name + " 60 IN A " + ddAddr)
		m.Answer = []dns.RR{rr}
		return m
	})
	return e
}

func (e *ddEnv) close() {
	if e != nil {
		e.l.Stop()
	}
}

func closeAll() {
	if env != nil {
		env.close()
		env = nil
	}
	if dd != nil {
		dd.close()
		dd = nil
	}
	if ing != nil {
		ing.close()
		ing = nil
	}
}

// the clients reuse the sys client code through a thin adapter
func (e *ddEnv) adapter() *sysEnv {
	return &sysEnv{addr: e.l.Addr, srv: e.l.Srv, qto: e.qto}
}

// execDedup runs one "dedup …" op.
//
//	dedup new <qto_ms> <dedup_timeout_ms|0> <workers|0>
//	dedup burst <label> <n_udp> <n_tcp> <n_msg> <cancel:-|leader|follower> <stagger_ms>
//	dedup shift <ms> | dedup drain | dedup end
func execDedup(f []string) vlib.Res {
	if len(f) < 2 {
		return vlib.Res{Impl: "bad-op"}
	}
	switch f[1] {
	case "new":
		if len(f) != 5 {
			return vlib.Res{Impl: "bad-op"}
		}
		closeAll()
		dd = newDDEnv(time.Duration(vlib.Atoi(f[2]))*time.Millisecond, time.Duration(vlib.Atoi(f[3]))*time.Millisecond, vlib.Atoi(f[4]))
		// one warm-up query so that pools and goroutines exist before the baseline
		a := dd.adapter()
		c := &client{kind: "udp", name: "ok0-warm.dd.test.", qtype: dns.TypeA, id: 9}
		a.runUDPUntilReply(c, time.Second)
		if len(c.replies) != 1 { // second chance: shared machine
			c = &client{kind: "udp", name: "ok0-warm2.dd.test.", qtype: dns.TypeA, id: 10}
			a.runUDPUntilReply(c, 2*time.Second)
		}
		waitFor(2*time.Second, dd.l.Srv.Quiesced)
		time.Sleep(50 * time.Millisecond)
		dd.baseG, _ = sdnsGoroutines()
		dd.baseLeased = idleLeased(dd.l.Srv)
		or := "ok"
		if len(c.replies) != 1 {
			or = "FAIL sig=dedup/warm-up/no-reply"
		}
		return vlib.Res{Impl: "up", Oracle: or}
	case "burst":
		if dd == nil || len(f) != 8 {
			return vlib.Res{Impl: "bad-op"}
		}
		res := dd.burst(f[2], vlib.Atoi(f[3]), vlib.Atoi(f[4]), vlib.Atoi(f[5]), f[6], time.Duration(vlib.Atoi(f[7]))*time.Millisecond)
		if strings.HasPrefix(res.Oracle, "FAIL") && !strings.Contains(res.Oracle, "sig=dedup/no-reply/expired-in-ingress-queue") {
			// real time on a shared machine: a verdict counts only if it reproduces
			first := res.Oracle
			waitFor(3*time.Second, dd.l.Srv.Quiesced)
			res = dd.burst(f[2], vlib.Atoi(f[3]), vlib.Atoi(f[4]), vlib.Atoi(f[5]), f[6], time.Duration(vlib.Atoi(f[7]))*time.Millisecond)
			res.Tags += ",retried"
			if !strings.HasPrefix(res.Oracle, "FAIL") {
				res.Tags += ",unreproduced:" + strings.Fields(first)[1]
			}
		}
		return res
	case "quickslow": // dedup quickslow <udp|tcp> <quick_ms> <slow_ms>
		if dd == nil || len(f) != 5 {
			return vlib.Res{Impl: "bad-op"}
		}
		res := dd.quickSlow(f[2], vlib.Atoi(f[3]), vlib.Atoi(f[4]))
		if strings.HasPrefix(res.Oracle, "FAIL") { // real time on a shared machine: must reproduce
			first := res.Oracle
			waitFor(3*time.Second, dd.l.Srv.Quiesced)
			res = dd.quickSlow(f[2], vlib.Atoi(f[3]), vlib.Atoi(f[4]))
			res.Tags += ",retried"
			if !strings.HasPrefix(res.Oracle, "FAIL") {
				res.Tags += ",unreproduced:" + strings.Fields(first)[1]
			}
		}
		return res
	case "shift":
		if dd == nil || len(f) != 3 {
			return vlib.Res{Impl: "bad-op"}
		}
		waitFor(3*time.Second, dd.l.Srv.Quiesced)
		cache.VerifShift(dd.l.Cache, time.Duration(vlib.Atoi(f[2]))*time.Millisecond)
		return vlib.Res{Impl: "shifted"}
	case "drain":
		if dd == nil {
			return vlib.Res{Impl: "bad-op"}
		}
		e := dd
		q := waitFor(5*time.Second, e.l.Srv.Quiesced)
		keys := -1
		waitFor(5*time.Second, func() bool { keys = cache.VerifC11DedupKeys(e.l.Cache); return keys == 0 })
		g := 0
		waitFor(6*time.Second, func() bool { g, _ = sdnsGoroutines(); return g <= e.baseG+50 })
		var leasedNow int64
		waitFor(5*time.Second, func() bool { leasedNow, _ = server.VerifC11Leased(e.l.Srv); return leasedNow <= e.baseLeased })
		or := "ok"
		switch {
		case leasedNow > e.baseLeased:
			or = fmt.Sprintf("FAIL sig=dedup/drain/slab-lease-leaked idle=%d now=%d", e.baseLeased, leasedNow)
		case !q:
			or = "FAIL sig=dedup/drain/not-quiesced"
		case keys != 0:
			or = fmt.Sprintf("FAIL sig=dedup/drain/dedup-generation-leaked keys=%d", keys)
		case g > e.baseG+50:
			or = fmt.Sprintf("FAIL sig=dedup/drain/goroutine-leak base=%d now=%d", e.baseG, g)
		}
		return vlib.Res{Impl: "drained", Oracle: or, Tags: fmt.Sprintf("nt,g=%d,baseg=%d,maxlat_ms=%d", g, e.baseG, e.maxLat.Milliseconds())}
	case "end":
		// the case's summary line: repeats the KNOWN finding seen in it (and only that),
		// so a witness that ends with "dedup end" still fails on its last op
		or := ""
		if dd != nil && dd.known != "" {
			or = dd.known
		}
		closeAll()
		return vlib.Res{Impl: "closed", Oracle: or}
	}
	return vlib.Res{Impl: "bad-op"}
}

// quickSlow: a quick query and, right behind it on the same worker (UDP: one
// ingress worker, the second datagram is queued while the first is served; TCP:
// two frames pipelined in one write), an unrelated slow one. The quick reply is
// finished long before the slow resolution ends and must not wait for it.
func (e *ddEnv) quickSlow(transport string, quickMs, slowMs int) vlib.Res {
	e.serial++
	a := e.adapter()
	listen := time.Duration(quickMs+slowMs)*time.Millisecond + 1200*time.Millisecond
	e.nextID += 2
	qa := &client{kind: transport, name: fmt.Sprintf("ok%d-qs%da.dd.test.", quickMs, e.serial), qtype: dns.TypeA, id: uint16(3000 + e.nextID*3)}
	qb := &client{kind: transport, name: fmt.Sprintf("ok%d-qs%db.dd.test.", slowMs, e.serial), qtype: dns.TypeA, id: uint16(3001 + e.nextID*3)}
	if transport == "tcp" {
		a.runTCP([]*client{qa, qb}, listen, 0)
	} else {
		var wg sync.WaitGroup
		wg.Add(2)
		go func() { defer wg.Done(); a.runUDP(qa, listen) }()
		go func() { defer wg.Done(); time.Sleep(30 * time.Millisecond); a.runUDP(qb, listen) }()
		wg.Wait()
	}
	or := "ok"
	tags := "nt"
	switch {
	case len(qa.replies) != 1 || len(qb.replies) != 1:
		or = fmt.Sprintf("FAIL sig=dedup/quickslow/%s/reply-count quick=%d slow=%d", transport, len(qa.replies), len(qb.replies))
	default:
		ta, tb := qa.replies[0].at, qb.replies[0].at
		tags += fmt.Sprintf(",quick_ms=%d,slow_ms=%d", ta.Milliseconds(), tb.Milliseconds())
		// wide margin: the quick reply is complete after quickMs; it may not take
		// longer than that plus half of the unrelated resolution
		if ta > time.Duration(quickMs)*time.Millisecond+time.Duration(slowMs)*time.Millisecond/2 {
			or = fmt.Sprintf("FAIL sig=dedup/quickslow/%s/finished-reply-held-behind-slow-query quick=%s slow=%s", transport, ta.Round(time.Millisecond), tb.Round(time.Millisecond))
		}
	}
	return vlib.Res{Impl: "done", Oracle: or, Tags: tags}
}

func (e *ddEnv) burst(label string, nUDP, nTCP, nMsg int, cancel string, stagger time.Duration) vlib.Res {
	e.serial++
	name := fmt.Sprintf("%s-b%d.dd.test.", strings.ToLower(label), e.serial)
	verb, delay := ddParse(name)
	a := e.adapter()
	listen := e.qto + 1100*time.Millisecond
	mk := func(kind string) *client {
		e.nextID++
		return &client{kind: kind, name: name, qtype: dns.TypeA, id: uint16(2000 + e.nextID*3)}
	}
	var cs []*client
	var canceller *client
	// the cancelling client enters through Server.ServeMsg with a context it
	// cancels; as "leader" it is started first, as "follower" after the others.
	if cancel != "-" {
		canceller = mk("msg")
		canceller.cancelAfter = 40 * time.Millisecond
		e.mu.Lock()
		e.silent[canceller.id] = true
		e.mu.Unlock()
	}
	for i := 0; i < nUDP; i++ {
		cs = append(cs, mk("udp"))
	}
	for i := 0; i < nTCP; i++ {
		cs = append(cs, mk("tcp"))
	}
	for i := 0; i < nMsg; i++ {
		cs = append(cs, mk("msg"))
	}
	var wg sync.WaitGroup
	start := func(c *client) {
		wg.Add(1)
		go func() {
			defer wg.Done()
			switch c.kind {
			case "udp":
				a.runUDP(c, listen)
			case "tcp":
				a.runTCP([]*client{c}, listen, 0)
			case "msg":
				a.runMsg(c, listen)
			}
		}()
	}
	if canceller != nil && cancel == "leader" {
		start(canceller)
		time.Sleep(10 * time.Millisecond)
	}
	for i, c := range cs {
		start(c)
		if stagger > 0 && i < len(cs)-1 {
			time.Sleep(stagger)
		}
	}
	if canceller != nil && cancel == "follower" {
		time.Sleep(5 * time.Millisecond)
		start(canceller)
	}
	wg.Wait()

	fail, known := "", ""
	bad := func(sig, detail string) {
		if fail == "" {
			fail = fmt.Sprintf("FAIL sig=%s %s", sig, detail)
		}
	}
	nOK, nSF := 0, 0
	for _, c := range cs {
		where := verb + "/" + c.kind + "/cancel=" + cancel
		switch {
		case c.errs != "":
			bad("dedup/client-error/"+c.kind, c.errs)
			continue
		case len(c.replies) == 0:
			if e.workers > 0 && c.kind == "udp" && (verb == "hang" || verb == "stuck" || delay >= e.qto/2) {
				// KNOWN finding (notes/C11.md, known_findings.jsonl): expired while parked in
				// the ready queue; lowest priority, never masks another failure of this op
				if known == "" {
					known = fmt.Sprintf("FAIL sig=dedup/no-reply/expired-in-ingress-queue %s name=%s id=%d", where, name, c.id)
				}
				continue
			}
			bad("dedup/no-reply/"+c.kind, fmt.Sprintf("%s name=%s id=%d", where, name, c.id))
			continue
		case len(c.replies) > 1:
			bad("dedup/duplicate-reply/"+c.kind, fmt.Sprintf("%s name=%s id=%d n=%d", where, name, c.id, len(c.replies)))
			continue
		}
		r := c.replies[0]
		if r.at > e.maxLat {
			e.maxLat = r.at
		}
		switch r.rcode {
		case dns.RcodeSuccess:
			nOK++
			if r.ans != name+" 0 in a "+ddAddr {
				bad("dedup/wrong-answer", fmt.Sprintf("name=%s got=%q", name, r.ans))
			}
		case dns.RcodeServerFailure:
			nSF++
			// the scripted upstream answers this name well inside every
			// client's budget: nobody may be failed by somebody else's fate
			if verb == "ok" && delay <= e.qto/3 {
				bad("dedup/healthy-name-failed/cancel="+cancel, fmt.Sprintf("%s name=%s ede=%s after=%s", where, name, r.ede, r.at))
			}
		default:
			bad("dedup/failure-not-servfail", fmt.Sprintf("rcode=%s", dns.RcodeToString[r.rcode]))
		}
	}
	if canceller != nil && len(canceller.replies) > 1 {
		bad("dedup/duplicate-reply/canceller", fmt.Sprintf("n=%d", len(canceller.replies)))
	}
	e.mu.Lock()
	calls := e.byName[name]
	e.mu.Unlock()
	or := "ok"
	tagk := ""
	if fail != "" {
		or = fail
	} else if known != "" {
		or = known
	}
	if known != "" {
		tagk = ",known-queue-expiry"
		if e.known == "" {
			e.known = known
		}
	}
	return vlib.Res{Impl: "done", Oracle: or, Tags: fmt.Sprintf("nt,q=%d,noerror=%d,servfail=%d,stubcalls=%d,maxlat_ms=%d", len(cs), nOK, nSF, calls, e.maxLat.Milliseconds()) + tagk}
}

var _ = context.Background
var _ net.Addr
