//go:build verif

package main

type oracle struct {
	now         int64
	tombDamaged bool
}

type preState struct{}

func newOracle(cfg []kref) *oracle               { return &oracle{} }
func (o *oracle) seeded(s *sim)                   {}
func (o *oracle) before(s *sim, sp *runSpec) *preState { return &preState{} }
func (o *oracle) after(s *sim, sp *runSpec, pre *preState, outcome string) (string, string) {
	return "ok", ""
}
