//go:build verif

package main

import (
	"fmt"
	"sort"
	"strings"
)

// Independent oracle for C09: a per-key RFC 5011 reference written from the
// property text. It never calls AutoTA's helpers; its inputs are the ground
// truth of the scripted root (which private keys really signed the served
// RRset), the faults the harness injected, and what can be observed of the
// implementation from outside: the live trust set (before, while the DNSKEY
// query is served, after), the decoded files, the refresh outcome counter.
//
// Reading of the property text used here
//   * "accepted refresh": the response was authenticated (the run reached its
//     persistence tail); presence streaks and the missing clock advance only
//     on refreshes whose state-file replacement landed (otherwise nothing
//     records them and the implementation restarts from its previous record,
//     which is the safe direction).
//   * "already-trusted non-revoked anchor": a key in the live trust set while
//     the query is served; when that set is empty (fail-closed mode) the
//     anchors of record: configured keys and Valid/Missing entries of the
//     state file that no tombstone / marker covers.
//   * a revocation is accepted when the refresh was accepted, the RRset has
//     the REVOKE form of a trusted key, that form validly self-signed it and
//     the implementation counted a revocation.

type kid struct {
	id    int
	flags uint16
	owner int
}

func (k kref) kid() kid { return kid{k.id, k.flags, k.owner} }

type oracle struct {
	now int64
	cfg map[kid]bool

	streak   map[kid]int64  // start of the unbroken presence streak
	broken   map[kid]string // why the last streak ended
	earned   map[kid]bool
	durable  map[int]bool   // material whose accepted revocation has a durable record
	lostBy   map[int]string // durable record destroyed by: tombstone-unreadable | state-unreadable (open error or undecodable)
	stateBad bool           // state file was replaced by garbage and not yet rewritten
	flagged  map[kid]string // keys already reported by the hold-down clause, with the reason
	closed   map[int]bool   // revocation accepted by the running process, no record could be written
	missing  map[kid]int64  // start of the current absence of a trusted key (first recorded refresh without it)
}

func newOracle(cfg []kref) *oracle {
	o := &oracle{cfg: map[kid]bool{}, streak: map[kid]int64{}, broken: map[kid]string{}, earned: map[kid]bool{},
		durable: map[int]bool{}, lostBy: map[int]string{}, flagged: map[kid]string{}, closed: map[int]bool{}, missing: map[kid]int64{}}
	for _, k := range cfg {
		o.cfg[k.kid()] = true
	}
	return o
}

type entry struct {
	key kref
	st  string
	age int64 // minutes
}

func parseObsState(s string) (map[uint16]entry, bool) {
	out := map[uint16]entry{}
	switch s {
	case "absent", "corrupt", "unreadable", "zero":
		return out, false
	case "empty":
		return out, true
	}
	for _, e := range strings.Split(s, ",") {
		p := strings.Split(e, "/")
		ref := p[0]
		if i := strings.IndexByte(ref, '#'); i >= 0 {
			ref = ref[:i]
		}
		owner := 0
		if body, o, ok := strings.Cut(ref, "@"); ok {
			ref = body
			fmt.Sscan(o, &owner)
		}
		q := strings.Split(ref, ".")
		if len(q) != 3 {
			continue
		}
		var id, fl, tg int
		fmt.Sscan(q[0], &id)
		fmt.Sscan(q[1], &fl)
		fmt.Sscan(q[2], &tg)
		var age int64
		fmt.Sscan(p[2], &age)
		out[uint16(tg)] = entry{key: kref{id: id, flags: uint16(fl), tag: uint16(tg), owner: owner}, st: p[1], age: age}
	}
	return out, true
}

func parseObsTomb(s string) (map[int]bool, string) {
	out := map[int]bool{}
	switch s {
	case "absent", "corrupt", "unreadable", "empty", "zero":
		return out, s
	}
	for _, e := range strings.Split(s, ",") {
		var id int
		fmt.Sscan(e, &id)
		out[id] = true
	}
	return out, "ok"
}

// seeded: files written by hand (legacy / previous installation). Records of
// revocation found there are durable records.
func (o *oracle) seeded(s *sim) {
	st, _ := parseObsState(s.obsState())
	for _, e := range st {
		if e.st == "R" || e.st == "X" {
			o.durable[e.key.id] = true
		}
		if e.st == "P" {
			// a pending record of the previous installation: its hold-down
			// started when that installation first saw the key
			o.streak[e.key.kid()] = s.V - e.age*60
		}
		if e.st == "V" || e.st == "M" {
			o.earned[e.key.kid()] = true
		}
		if e.st == "M" {
			o.missing[e.key.kid()] = s.V - e.age*60
		}
	}
	tb, _ := parseObsTomb(s.obsTomb())
	for m := range tb {
		o.durable[m] = true
	}
}

type preState struct {
	liveBefore  []kref
	hadProc     bool
	state       string
	tomb        string
	liveAtFetch []kref
	fetched     bool
}

func (o *oracle) before(s *sim, sp *runSpec) *preState {
	p := &preState{hadProc: s.r != nil, state: s.obsState(), tomb: s.obsTomb()}
	if s.r != nil {
		p.liveBefore = s.liveRefs()
	} else {
		p.liveBefore = nil
	}
	s.fetchProbe = func() {
		p.fetched = true
		p.liveAtFetch = s.liveRefs()
	}
	return p
}

func hasKey(l []kref, id int, flags uint16) bool {
	for _, k := range l {
		if k.id == id && k.flags == flags && k.owner == 0 {
			return true
		}
	}
	return false
}

// hasRef: the very record (material, flags, owner name).
func hasRef(l []kref, k kref) bool {
	for _, x := range l {
		if x.id == k.id && x.flags == k.flags && x.owner == k.owner {
			return true
		}
	}
	return false
}

func hasMat(l []kref, id int) bool {
	for _, k := range l {
		if k.id == id {
			return true
		}
	}
	return false
}

func sameSet(a, b []kref) bool {
	if len(a) != len(b) {
		return false
	}
	x, y := append([]kref(nil), a...), append([]kref(nil), b...)
	less := func(l []kref) func(i, j int) bool {
		return func(i, j int) bool {
			if l[i].id != l[j].id {
				return l[i].id < l[j].id
			}
			return l[i].flags < l[j].flags
		}
	}
	sort.Slice(x, less(x))
	sort.Slice(y, less(y))
	for i := range x {
		if x[i].id != y[i].id || x[i].flags != y[i].flags {
			return false
		}
	}
	return true
}

func fail(sig, format string, a ...any) string {
	return "FAIL sig=" + sig + " " + fmt.Sprintf(format, a...)
}

// recordOf reports whether the decoded files carry a record of m's revocation.
func recordOf(stateObs, tombObs string, m int) bool {
	tb, kind := parseObsTomb(tombObs)
	if kind == "corrupt" || kind == "zero" {
		return true // nothing can be trusted while the store does not decode
	}
	if tb[m] {
		return true
	}
	st, _ := parseObsState(stateObs)
	for _, e := range st {
		if e.key.id == m && (e.st == "R" || e.st == "X") {
			return true
		}
	}
	return false
}

func (o *oracle) after(s *sim, sp *runSpec, pre *preState, outcome string) (string, string) {
	s.fetchProbe = nil
	completed := sp.crash < 0
	stateAfter, tombAfter := s.obsState(), s.obsTomb()
	var liveAfter []kref
	if completed {
		liveAfter = s.liveRefs()
	}
	accepted := pre.fetched && (outcome == "ok" || outcome == "perr")

	// which replacements landed (atomic-rename granularity)
	tombLanded := accepted && !sp.fTombWr
	stateLanded := accepted && !sp.fStateWr
	if sp.crash >= 0 {
		n := 0
		if tombLanded {
			n++
			if sp.crash < n {
				tombLanded = false
			}
		}
		if stateLanded {
			n++
			if sp.crash < n {
				stateLanded = false
			}
		}
	}

	// anchors the implementation may authenticate with
	stBefore, stOK := parseObsState(pre.state)
	tbBefore, tbKind := parseObsTomb(pre.tomb)
	if sp.fStateRd {
		stBefore, stOK = map[uint16]entry{}, false
	}
	var trusted []kref
	if len(pre.liveAtFetch) > 0 {
		trusted = pre.liveAtFetch
	} else if pre.fetched {
		markers := map[int]bool{}
		for _, e := range stBefore {
			if e.st == "R" || e.st == "X" {
				markers[e.key.id] = true
			}
		}
		add := func(k kref) {
			if !k.sep() || k.revoked() || tbBefore[k.id] && !sp.fTombRd || markers[k.id] || hasKey(trusted, k.id, k.flags) {
				return
			}
			trusted = append(trusted, k)
		}
		for _, e := range stBefore {
			if e.st == "V" || e.st == "M" {
				add(e.key)
			}
		}
		for _, k := range s.cfg {
			add(k)
		}
	}
	_ = stOK
	_ = tbKind

	// ground-truth classification of the served answer section. EVERY RRset in it — the root's
	// DNSKEY RRset and whatever rides along (a DNSKEY RRset under another owner name, any other
	// RRset) — must be validly signed: fully authenticated = each by a trusted non-revoked
	// anchor; revocation-only = not that, but each by the REVOKE form (present in the root
	// DNSKEY RRset) of a trusted anchor.
	byAnchor := func(signers []kref) bool {
		for _, sg := range signers {
			for _, t := range trusted {
				if t.id == sg.id && t.tag == sg.tag && t.sep() && !t.revoked() && t.owner == 0 && sg.owner == 0 {
					return true
				}
			}
		}
		return false
	}
	byRevoked := func(signers []kref) bool {
		for _, sg := range signers {
			if sg.revoked() && sg.owner == 0 && hasKey(sp.fetch, sg.id, sg.flags) && hasKey(trusted, sg.id, sg.flags^0x80) {
				return true
			}
		}
		return false
	}
	// every DNSKEY of the answer section (AutoTA consumes them all, whatever the owner name)
	allFetched := append([]kref(nil), sp.fetch...)
	for _, e := range sp.extras {
		allFetched = append(allFetched, e.keys...)
	}
	full, revOnly := false, false
	if !sp.fetchNone && len(allFetched) > 0 {
		full, revOnly = len(sp.fetch) == 0 || byAnchor(sp.signers), len(sp.fetch) > 0 && byRevoked(sp.signers)
		for _, e := range sp.extras {
			full = full && byAnchor(e.groundSigners())
			revOnly = revOnly && byRevoked(e.groundSigners())
		}
		if full {
			revOnly = false
		}
	}
	tags := "nt"
	switch {
	case !pre.fetched:
		tags += ",nofetch"
	case full:
		tags += ",full"
	case revOnly:
		tags += ",revonly"
	default:
		tags += ",unauth"
	}
	if sp.fStateRd || sp.fTombRd || sp.fTombWr || sp.fStateWr {
		tags += ",fault"
	}
	if sp.crash >= 0 {
		tags += ",crash"
	}
	if accepted {
		tags += ",accepted"
	}

	verdict := "ok"
	flag := func(v string) {
		if verdict == "ok" {
			verdict = v
		}
	}

	// ---- clause: a response no trusted key authenticates changes nothing
	if pre.fetched && !full && !revOnly {
		if accepted {
			flag(fail("autota/unauthenticated/accepted", "signers=%s trusted=%s", joinRefs(sp.signers), joinRefs(trusted)))
		}
		if stateAfter != pre.state || tombAfter != pre.tomb {
			flag(fail("autota/unauthenticated/files-changed", "state %s -> %s tomb %s -> %s", pre.state, stateAfter, pre.tomb, tombAfter))
		}
		if completed && !sameSet(liveAfter, pre.liveAtFetch) {
			flag(fail("autota/unauthenticated/live-changed", "%s -> %s", joinRefs(pre.liveAtFetch), joinRefs(liveAfter)))
		}
	}

	if !pre.hadProc {
		o.closed = map[int]bool{} // a new process cannot know what the previous one could not record
	}
	// ---- revocations accepted in this run (ground truth + the implementation's own counter)
	var revokedNow []int
	if accepted && (full || revOnly) && s.lastRevokedDelta != 0 {
		var cands []int
		for _, k := range sp.fetch {
			if k.revoked() && k.sep() && hasKey(sp.signers, k.id, k.flags) && hasKey(trusted, k.id, k.flags^0x80) && !hasInt(cands, k.id) {
				cands = append(cands, k.id)
			}
		}
		if s.lastRevokedDelta > 0 && int(s.lastRevokedDelta) >= len(cands) {
			revokedNow = cands
		} else {
			// the implementation accepted fewer revocations than the set carries (it
			// may ignore one, e.g. when the REVOKE form's tag is not tag+128 because
			// of a carry in the tag fold): accepted are those it left a record of
			for _, m := range cands {
				if recordOf(stateAfter, tombAfter, m) && !recordOf(pre.state, pre.tomb, m) {
					revokedNow = append(revokedNow, m)
				}
			}
		}
	}
	// ---- RFC 5011 §2.1 both ways. (a) A validly self-signed revocation of a trusted anchor (Valid
	// or Missing — a Missing key is still a published trust anchor) in an accepted refresh takes the
	// anchor out of the trust set. Not judged where the key tags make the implementation's tag-128
	// lookup miss by design (carry in the tag fold, another key on either tag): see notes.
	if accepted && (full || revOnly) && completed {
		for _, k := range sp.fetch {
			if !(k.revoked() && k.sep() && hasKey(sp.signers, k.id, k.flags)) {
				continue
			}
			old := kref{id: k.id, flags: k.flags ^ 0x80, tag: tagOf(k.id, k.flags^0x80)}
			if !hasKey(trusted, old.id, old.flags) || !hasKey(liveAfter, old.id, old.flags) {
				continue
			}
			clean := uint16(old.tag+128) == k.tag && !tbBefore[k.id] && !markerFor(stBefore, k.id)
			for _, e := range sp.extras {
				clean = clean && hasKey(e.groundSigners(), k.id, k.flags)
			}
			// kskFetched is indexed by tag, a later record replaces an earlier one: the REVOKE form is
			// shadowed only by a DIFFERENT fetched SEP record with its tag that comes after it. A key
			// that is merely tracked (Valid, Missing, Pending) under the REVOKE form's tag is no excuse.
			seen := false
			for _, x := range allFetched {
				sameRecord := x.id == k.id && x.flags == k.flags && x.owner == k.owner
				if sameRecord {
					seen = true
					continue
				}
				if seen && x.sep() && x.tag == k.tag {
					clean = false
				}
			}
			// the anchor must be the record tracked at tag-128
			for _, e := range stBefore {
				if e.key.tag == old.tag && e.key.id != k.id {
					clean = false
				}
			}
			for _, x := range append(append([]kref(nil), trusted...), s.cfg...) {
				if x.tag == old.tag && x.id != k.id {
					clean = false
				}
			}
			if clean && !(sp.fTombWr && sp.fStateWr) {
				flag(fail("autota/revocation/valid-self-signed-revocation-ignored", "%s still live=%s", old, joinRefs(liveAfter)))
			}
		}
	}
	// (b) Nothing is tombstoned without that evidence: a new tombstone is the material of a trusted
	// anchor whose REVOKE form in this answer verifiably self-signed it, a migrated marker, or a
	// configured key that carries the REVOKE bit.
	if tbA, kindA := parseObsTomb(tombAfter); kindA == "ok" || kindA == "empty" {
		for m := range tbA {
			if tbBefore[m] || markerFor(stBefore, m) {
				continue
			}
			ok := false
			for _, k := range s.cfg {
				if k.id == m && k.revoked() {
					ok = true
				}
			}
			for _, k := range sp.fetch {
				if k.id == m && k.revoked() && hasKey(sp.signers, k.id, k.flags) && accepted && (full || revOnly) {
					ok = true
				}
			}
			if stMarkersAfterReseed(pre, m) {
				ok = true
			}
			if !ok {
				flag(fail("autota/revocation/tombstoned-without-self-signature", "material %d: tomb %s -> %s", m, pre.tomb, tombAfter))
			}
		}
	}
	failClosedMandated := false
	for _, m := range revokedNow {
		if completed && hasMat(liveAfter, m) {
			flag(fail("autota/revocation/still-trusted-after-acceptance", "material %d live=%s", m, joinRefs(liveAfter)))
		}
		if tombLanded || stateLanded {
			o.durable[m] = true
			delete(o.lostBy, m)
		} else {
			failClosedMandated = true
			if completed {
				o.closed[m] = true
			}
			if completed && len(liveAfter) > 0 {
				flag(fail("autota/both-writes-failed/not-fail-closed", "revocation of %d has no durable record but live=%s", m, joinRefs(liveAfter)))
			}
		}
	}

	// ---- a revocation the running process accepted but could not record stays out of the
	// live set for as long as that process lives (it knows; the disk does not)
	for m := range o.closed {
		if tombLanded || stateLanded {
			if hasInt(revokedNow, m) || recordOf(stateAfter, tombAfter, m) {
				delete(o.closed, m)
				continue
			}
		}
		if completed && hasMat(liveAfter, m) && !hasInt(revokedNow, m) {
			flag(fail("autota/both-writes-failed/revoked-key-republished", "material %d live=%s", m, joinRefs(liveAfter)))
		}
	}

	// ---- clause: durable revocation records are never lost, revoked keys never live again
	for m := range o.durable {
		if !recordOf(stateAfter, tombAfter, m) {
			cause := ""
			switch {
			case sp.fTombRd:
				cause = "tombstone-unreadable"
			case pre.tomb == "zero":
				cause = "zero-length-tombstones"
			case pre.tomb == "corrupt":
				cause = "corrupt-tombstones"
			case sp.fStateRd:
				cause = "state-unreadable"
			case o.stateBad:
				cause = "state-unreadable"
			}
			if _, known := o.lostBy[m]; !known {
				if cause == "" {
					flag(fail("autota/revocation-record/lost", "material %d: state %s -> %s tomb %s -> %s", m, pre.state, stateAfter, pre.tomb, tombAfter))
					cause = "record-lost"
				}
				o.lostBy[m] = cause
			}
		}
		if completed && hasMat(liveAfter, m) {
			cause := o.lostBy[m]
			if cause == "" {
				switch {
				case sp.fTombRd:
					cause = "tombstone-unreadable"
				case sp.fStateRd:
					cause = "state-unreadable"
				case o.stateBad:
					cause = "state-unreadable"
				default:
					cause = "record-ignored"
				}
			}
			flag(fail("autota/"+cause+"/revoked-key-live-again", "material %d live=%s tomb %s -> %s", m, joinRefs(liveAfter), pre.tomb, tombAfter))
		}
	}

	// ---- clause: revocation-only authentication completes that revocation and nothing else
	if accepted && revOnly {
		legit := func(k kref) bool {
			return hasKey(sp.fetch, k.id, k.flags|0x80) && hasKey(sp.signers, k.id, k.flags|0x80)
		}
		if completed {
			for _, k := range liveAfter {
				if !hasRef(trusted, k) {
					flag(fail("autota/revocation-only/new-trust", "%s", k))
				}
			}
			if !(failClosedMandated && len(liveAfter) == 0) {
				for _, k := range trusted {
					if !hasRef(liveAfter, k) && !legit(k) {
						flag(fail("autota/revocation-only/dropped-unrevoked-key", "%s", k))
					}
				}
			}
		}
		if stateLanded {
			stAfter, _ := parseObsState(stateAfter)
			for tag, e := range stAfter {
				b, ok := stBefore[tag]
				switch {
				case ok && b.key.kid() == e.key.kid() && b.st == e.st:
				case ok && b.key.kid() == e.key.kid() && (b.st == "V" || b.st == "M") && e.st == "R" && legit(e.key):
				case !ok && o.cfg[e.key.kid()] && e.st == "V":
				case !ok && o.cfg[e.key.kid()] && e.st == "R" && legit(e.key):
				case !ok && o.cfg[e.key.kid()] && e.key.revoked() && e.st == "R": // admin pre-seeded REVOKE form, re-seeded as a marker
				case !ok && !stOK && hasKey(pre.liveBefore, e.key.id, e.key.flags) && e.st == "V":
				case !ok && !stOK && hasKey(pre.liveBefore, e.key.id, e.key.flags) && e.st == "R" && legit(e.key): // re-seeded from the live set, then revoked
				case ok && b.key.kid() == e.key.kid() && (b.st == "V" || b.st == "M") && e.st == "V" && !stOK:
				default:
					flag(fail("autota/revocation-only/state-transition", "tag %d: %s/%s -> %s/%s", tag, b.key, b.st, e.key, e.st))
				}
			}
			for tag, b := range stBefore {
				if _, ok := stAfter[tag]; ok {
					continue
				}
				switch {
				case b.st == "R" || b.st == "X":
				case (b.st == "V" || b.st == "M") && legit(b.key):
				case tbBefore[b.key.id] && !sp.fTombRd: // tombstone precedence
				case stBefore != nil && markerFor(stBefore, b.key.id):
				default:
					flag(fail("autota/revocation-only/entry-removed", "tag %d %s/%s", tag, b.key, b.st))
				}
			}
		}
	}

	// ---- clause: corrupt revocation store fails closed
	if pre.tomb == "corrupt" && !sp.fTombRd && completed && len(liveAfter) > 0 {
		flag(fail("autota/corrupt-tombstones/not-fail-closed", "live=%s", joinRefs(liveAfter)))
	}
	// ... and so does one that exists with zero length (only NotExist is an empty store)
	if pre.tomb == "zero" && completed && len(liveAfter) > 0 {
		flag(fail("autota/zero-length-tombstones/not-fail-closed", "live=%s tomb zero -> %s", joinRefs(liveAfter), tombAfter))
	}
	// ... and one that cannot be opened / read
	if sp.fTombRd && completed && len(liveAfter) > 0 {
		flag(fail("autota/unreadable-tombstones/not-fail-closed", "live=%s", joinRefs(liveAfter)))
	}
	// whatever does not load is left alone: an undecodable or unreadable store is never replaced
	if (pre.tomb == "corrupt" || pre.tomb == "zero" || sp.fTombRd) && tombAfter != pre.tomb {
		flag(fail("autota/unloadable-tombstones/store-replaced", "tomb %s -> %s", pre.tomb, tombAfter))
	}

	// ---- clause: new keys need the 30-day hold-down in every accepted refresh
	if accepted && full {
		for _, k := range allFetched {
			if t0, ok := o.streak[k.kid()]; ok && o.now-t0 > d30 {
				o.earned[k.kid()] = true
			}
		}
	}
	if completed {
		for _, k := range liveAfter {
			switch {
			case k.revoked():
				flag(fail("autota/live/revoked-form-trusted", "%s", k))
			case !k.sep():
				flag(fail("autota/live/non-sep-key-trusted", "%s", k))
			case o.cfg[k.kid()], o.earned[k.kid()]:
			default:
				why := "trusted-before-30d-of-unbroken-presence"
				if o.broken[k.kid()] == "tag-collision" {
					why = "absent-key-kept-pending-by-colliding-tag"
				}
				if pre.fetched && !hasRef(allFetched, k) {
					for _, f := range allFetched {
						if f.tag == k.tag && f.sep() {
							why = "absent-key-kept-pending-by-colliding-tag"
						}
					}
				}
				if w, ok := o.flagged[k.kid()]; ok {
					why = w // same root cause as when this key was first reported
				}
				o.flagged[k.kid()] = why
				t0, ok := o.streak[k.kid()]
				flag(fail("autota/add-holddown/"+why, "%s streak=%v since=%d now=%d", k, ok, t0, o.now))
			}
		}
	}
	if accepted && full && stateLanded {
		for _, k := range trusted {
			if hasRef(allFetched, k) {
				delete(o.missing, k.kid())
			} else if _, ok := o.missing[k.kid()]; !ok {
				o.missing[k.kid()] = o.now
			}
		}
		inSet := map[kid]bool{}
		for _, k := range allFetched {
			inSet[k.kid()] = true
			if _, ok := o.streak[k.kid()]; !ok {
				o.streak[k.kid()] = o.now
				delete(o.broken, k.kid())
			}
		}
		for k := range o.streak {
			if !inSet[k] {
				delete(o.streak, k)
				o.broken[k] = "absent"
				t := tagOf(k.id, k.flags)
				for _, f := range allFetched {
					if f.tag == t && f.sep() {
						o.broken[k] = "tag-collision"
					}
				}
			}
		}
	}

	// ---- clause: a key that merely disappears stays trusted for 90 days
	if accepted && full && completed && !(failClosedMandated && len(liveAfter) == 0) {
		for _, k := range pre.liveAtFetch { // keys validation was trusting when the refresh began
			if hasRef(allFetched, k) || hasInt(revokedNow, k.id) || o.durable[k.id] {
				continue
			}
			if tbBefore[k.id] || markerFor(stBefore, k.id) {
				continue
			}
			// the 90 days run from the first recorded refresh that lacked the key — the
			// oracle's own record, never the implementation's stamp
			since, seen := o.missing[k.kid()]
			if !seen {
				since = o.now
			}
			if o.now-since <= d90 && !hasRef(liveAfter, k) {
				flag(fail("autota/missing/dropped-before-90d", "%s missing for %d s live=%s", k, o.now-since, joinRefs(liveAfter)))
			}
		}
	}
	// a trusted key that is present in a fully authenticated refresh stays trusted
	if accepted && full && completed && !(failClosedMandated && len(liveAfter) == 0) {
		for _, k := range pre.liveAtFetch { // keys validation was trusting when the refresh began
			if hasRef(allFetched, k) && !hasInt(revokedNow, k.id) && !o.durable[k.id] && !tbBefore[k.id] && !markerFor(stBefore, k.id) &&
				!hasRef(liveAfter, k) {
				flag(fail("autota/present/trusted-key-dropped", "%s live=%s", k, joinRefs(liveAfter)))
			}
		}
	}

	// ... and is not even marked Missing: presence is a matter of the key, not of the TTL or any
	// other header field of the record it was learned from
	if accepted && full && stateLanded {
		stAfter, okAfter := parseObsState(stateAfter)
		if okAfter {
			for _, k := range pre.liveAtFetch {
				if !hasRef(allFetched, k) || hasInt(revokedNow, k.id) {
					continue
				}
				if e, ok := stAfter[k.tag]; ok && e.key.kid() == k.kid() && e.st == "M" {
					flag(fail("autota/present/published-anchor-marked-missing", "%s state=%s", k, stateAfter))
				}
			}
		}
	}
	if stateLanded {
		o.stateBad = false
	}
	if !completed {
		o.closed = map[int]bool{}
	}
	return verdict, tags
}

func markerFor(st map[uint16]entry, m int) bool {
	for _, e := range st {
		if e.key.id == m && (e.st == "R" || e.st == "X") {
			return true
		}
	}
	return false
}

func hasInt(l []int, x int) bool {
	for _, v := range l {
		if v == x {
			return true
		}
	}
	return false
}

// probe judges a client-style validated lookup made with the current live set: with no trust
// anchor validation fails closed (no answer at all, never an unvalidated one); with anchors an
// answer is returned only as authenticated data, and only if a live anchor really signed every
// RRset served.
func (o *oracle) probe(s *sim, sp *runSpec, answered, ad bool) string {
	live := s.liveRefs()
	for _, k := range live {
		if k.owner != 0 {
			return "-" // a foreign-owner DNSKEY in the trust set: not judged (see notes)
		}
	}
	signedByLive := func(signers []kref) bool {
		for _, sg := range signers {
			for _, t := range live {
				// a trust anchor is a non-revoked KSK
				if t.id == sg.id && t.tag == sg.tag && t.owner == 0 && sg.owner == 0 && t.sep() && !t.revoked() {
					return true
				}
			}
		}
		return false
	}
	valid := len(sp.fetch) > 0 && signedByLive(sp.signers)
	for _, e := range sp.extras {
		valid = valid && signedByLive(e.groundSigners())
	}
	switch {
	case len(live) == 0 && answered:
		return fail("autota/fail-closed/answer-without-trust-anchor", "ad=%v", ad)
	case answered && !valid:
		return fail("autota/validation/unauthenticated-answer-served", "ad=%v live=%s signers=%s", ad, joinRefs(live), joinRefs(sp.signers))
	case answered && !ad:
		return fail("autota/validation/answer-without-ad", "live=%s", joinRefs(live))
	case !answered && valid && len(live) > 0:
		return fail("autota/validation/valid-answer-refused", "live=%s signers=%s", joinRefs(live), joinRefs(sp.signers))
	}
	return "ok"
}

// boot judges the trust set of a process that has started but not refreshed yet.
func (o *oracle) boot(s *sim, tombUnreadable, stateUnreadable bool) string {
	o.closed = map[int]bool{}
	live := s.liveRefs()
	if tombUnreadable && len(live) > 0 {
		return fail("autota/process-start/unreadable-tombstones-not-fail-closed", "live=%s", joinRefs(live))
	}
	if t := s.obsTomb(); (t == "corrupt" || t == "zero") && len(live) > 0 {
		return fail("autota/process-start/undecodable-tombstones-not-fail-closed", "live=%s", joinRefs(live))
	}
	for m := range o.durable {
		if hasMat(live, m) && recordOf(s.obsState(), s.obsTomb(), m) {
			if tb, _ := parseObsTomb(s.obsTomb()); stateUnreadable && !tb[m] {
				// the StateRevoked marker is the only record and the state file could not be read:
				// the known state-unreadable finding, met at process start
				return fail("autota/state-unreadable/revoked-key-live-again", "at process start: material %d live=%s", m, joinRefs(live))
			}
			return fail("autota/process-start/revoked-key-trusted-before-first-refresh", "material %d live=%s", m, joinRefs(live))
		}
	}
	return "ok"
}

// stMarkersAfterReseed: with no readable state file the live set is re-seeded; a REVOKE-flagged
// key in it becomes a marker and migrates into the tombstone store.
func stMarkersAfterReseed(pre *preState, m int) bool {
	for _, k := range pre.liveBefore {
		if k.id == m && k.revoked() {
			return true
		}
	}
	return false
}
