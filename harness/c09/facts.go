//go:build verif

package main

import (
	"bytes"
	"go/ast"
	"go/parser"
	"go/printer"
	"go/token"
	"os"
	"path/filepath"
	"strconv"
	"strings"

	"github.com/semihalev/sdns/middleware/resolver"
)

// facts reads the hold-down literals and the ordering of the persistence
// tail out of the SOURCE of Resolver.AutoTA (they are literals / statement
// order inside one function, not values reachable at run time) plus the file
// name constants from the compiled package.
func facts() map[string]any {
	out := map[string]any{
		"state_file":     resolver.VerifC09StateFile,
		"tombstone_file": resolver.VerifC09TombstoneFile,
		// 0 / false = "not found in the expected shape": the side
		// conditions in Props/C09.lean then fail.
		"add_holddown_hours":                          0,
		"missing_holddown_hours":                      0,
		"add_holddown_from_first_seen":                false,
		"missing_holddown_from_first_seen":            false,
		"shape_tomb_write_before_state_write":         false,
		"shape_missing_clock_starts_at_disappearance": false,
		"tomb_read_outcomes":                          readOutcomes(),
		"shape_markers_dropped_only_after_tomb_ok":    false,
		"shape_corrupt_tombstones_clear_trust":        false,
		"shape_both_writes_failed_clears_trust":       false,
		"shape_unreadable_tombstones_use_empty_map":   false,
		"shape_unreadable_tombstones_clear_trust":     false,
		"shape_prefetch_publish_gated_on_prior":       false,
	}
	repo := os.Getenv("VERIF_REPO")
	if repo == "" {
		repo = "/repo"
	}
	fset := token.NewFileSet()
	file, err := parser.ParseFile(fset, filepath.Join(repo, "middleware/resolver/auto_trust_anchor.go"), nil, 0)
	if err != nil {
		return out
	}
	var fn *ast.FuncDecl
	for _, d := range file.Decls {
		if f, ok := d.(*ast.FuncDecl); ok && f.Name.Name == "AutoTA" && f.Recv != nil {
			fn = f
		}
	}
	if fn == nil {
		return out
	}
	src := func(n ast.Node) string {
		var b bytes.Buffer
		_ = printer.Fprint(&b, fset, n)
		return b.String()
	}
	// hold-down durations: `if ta.State == StateX && time.Since(ta.FirstSeen) > <duration>` where the
	// duration is a constant expression: N*time.Hour, 30*24*time.Hour, or a named constant defined
	// in this file by such an expression. Evaluated to nanoseconds.
	consts := map[string]ast.Expr{}
	ast.Inspect(file, func(x ast.Node) bool {
		if gd, ok := x.(*ast.GenDecl); ok && gd.Tok == token.CONST {
			for _, sp := range gd.Specs {
				if vs, ok := sp.(*ast.ValueSpec); ok {
					for i, n := range vs.Names {
						if i < len(vs.Values) {
							consts[n.Name] = vs.Values[i]
						}
					}
				}
			}
		}
		return true
	})
	units := map[string]int64{"time.Nanosecond": 1, "time.Microsecond": 1e3, "time.Millisecond": 1e6,
		"time.Second": 1e9, "time.Minute": 60e9, "time.Hour": 3600e9}
	var evalNS func(e ast.Expr, depth int) (int64, bool)
	evalNS = func(e ast.Expr, depth int) (int64, bool) {
		if depth > 8 {
			return 0, false
		}
		switch x := e.(type) {
		case *ast.BasicLit:
			if x.Kind == token.INT {
				v, err := strconv.ParseInt(x.Value, 0, 64)
				return v, err == nil
			}
		case *ast.ParenExpr:
			return evalNS(x.X, depth+1)
		case *ast.SelectorExpr:
			u, ok := units[src(x)]
			return u, ok
		case *ast.Ident:
			if d, ok := consts[x.Name]; ok {
				return evalNS(d, depth+1)
			}
		case *ast.BinaryExpr:
			a, ok1 := evalNS(x.X, depth+1)
			b, ok2 := evalNS(x.Y, depth+1)
			if ok1 && ok2 {
				switch x.Op {
				case token.MUL:
					return a * b, true
				case token.ADD:
					return a + b, true
				case token.SUB:
					return a - b, true
				case token.QUO:
					if b != 0 {
						return a / b, true
					}
				}
			}
		case *ast.CallExpr: // time.Duration(x)
			if len(x.Args) == 1 && src(x.Fun) == "time.Duration" {
				return evalNS(x.Args[0], depth+1)
			}
		}
		return 0, false
	}
	hours := func(cond ast.Expr) (int, bool) {
		n, found, fromFirst := 0, 0, false
		ast.Inspect(cond, func(x ast.Node) bool {
			be, ok := x.(*ast.BinaryExpr)
			if !ok || (be.Op != token.GTR && be.Op != token.GEQ) {
				return true
			}
			if !strings.Contains(src(be.X), "time.Since(") {
				return true
			}
			if strings.Contains(src(be.X), "time.Since(ta.FirstSeen)") {
				fromFirst = true
			}
			if ns, ok := evalNS(be.Y, 0); ok && ns > 0 {
				n = int(ns / 3600e9) // whole hours, rounded down: the side conditions are lower bounds
				found++
			}
			return true
		})
		if found != 1 {
			return 0, false
		}
		return n, fromFirst
	}
	addN, missN := []int{}, []int{}
	addFirst, missFirst := true, true
	ast.Inspect(fn.Body, func(x ast.Node) bool {
		is, ok := x.(*ast.IfStmt)
		if !ok {
			return true
		}
		c := src(is.Cond)
		if !strings.Contains(c, "time.Since(") {
			return true
		}
		n, first := hours(is.Cond)
		// the state the timer belongs to: named in the condition itself, or the
		// `case StateX:` clause of a switch on ta.State that encloses the if
		if !strings.Contains(c, "ta.State == State") {
			c += " " + enclosingCase(fn.Body, is, src)
		}
		switch {
		case strings.Contains(c, "ta.State == StateAddPend"):
			addN = append(addN, n)
			addFirst = addFirst && first
		case strings.Contains(c, "ta.State == StateMissing"):
			missN = append(missN, n)
			missFirst = missFirst && first
		}
		return true
	})
	if len(addN) == 1 {
		out["add_holddown_hours"] = addN[0]
		out["add_holddown_from_first_seen"] = addFirst
	}
	if len(missN) == 1 {
		out["missing_holddown_hours"] = missN[0]
		out["missing_holddown_from_first_seen"] = missFirst
	}

	// the 90-day clock starts when a Valid key disappears: inside `case StateValid:` (switch on
	// ta.State) or `if ta.State == StateValid` the state becomes Missing and FirstSeen = time.Now()
	ast.Inspect(fn.Body, func(x ast.Node) bool {
		var body []ast.Stmt
		switch y := x.(type) {
		case *ast.CaseClause:
			for _, e := range y.List {
				if src(e) == "StateValid" && len(y.List) == 1 {
					body = y.Body
				}
			}
		case *ast.IfStmt:
			if src(y.Cond) == "ta.State == StateValid" {
				body = y.Body.List
			}
		}
		toMissing, stamp := false, false
		for _, st := range body {
			switch src(st) {
			case "ta.State = StateMissing":
				toMissing = true
			case "ta.FirstSeen = time.Now()":
				stamp = true
			}
		}
		if toMissing && stamp {
			out["shape_missing_clock_starts_at_disappearance"] = true
		}
		return true
	})

	// persistence tail: statement order at the top level of the function body
	idx := func(pred func(ast.Stmt) bool) []int {
		var r []int
		for i, s := range fn.Body.List {
			if pred(s) {
				r = append(r, i)
			}
		}
		return r
	}
	assignCall := func(lhs, callee string) func(ast.Stmt) bool {
		return func(s ast.Stmt) bool {
			as, ok := s.(*ast.AssignStmt)
			if !ok || len(as.Lhs) != 1 || len(as.Rhs) != 1 || src(as.Lhs[0]) != lhs {
				return false
			}
			c, ok := as.Rhs[0].(*ast.CallExpr)
			return ok && src(c.Fun) == callee
		}
	}
	tw := idx(assignCall("tombErr", "writeTombstones"))
	sw := idx(assignCall("stateErr", "writeToTAFile"))
	calls := func(name string) int {
		n := 0
		ast.Inspect(fn.Body, func(x ast.Node) bool {
			if c, ok := x.(*ast.CallExpr); ok && src(c.Fun) == name {
				n++
			}
			return true
		})
		return n
	}
	if len(tw) == 1 && len(sw) == 1 && tw[0] < sw[0] && calls("writeTombstones") == 1 && calls("writeToTAFile") == 1 {
		out["shape_tomb_write_before_state_write"] = true
		// between the two writes: exactly one statement, `if tombErr != nil {…} else {…}`,
		// and marker deletion happens only in its else branch.
		if sw[0] == tw[0]+2 {
			if is, ok := fn.Body.List[tw[0]+1].(*ast.IfStmt); ok && src(is.Cond) == "tombErr != nil" && is.Else != nil {
				delIn := func(n ast.Node) int {
					c := 0
					ast.Inspect(n, func(x ast.Node) bool {
						if ce, ok := x.(*ast.CallExpr); ok && src(ce.Fun) == "delete" && len(ce.Args) == 2 && src(ce.Args[0]) == "kskCurrent" {
							c++
						}
						return true
					})
					return c
				}
				if delIn(is.Body) == 0 && delIn(is.Else) == 1 && strings.Contains(src(is.Else), "ta.State == StateRevoked || ta.State == StateRemoved") {
					out["shape_markers_dropped_only_after_tomb_ok"] = true
				}
			}
		}
		// after the state write: `if tombErr != nil && stateErr != nil && newRevocation { … r.rootKeys = nil … return }`
		for _, s := range fn.Body.List[sw[0]+1:] {
			if is, ok := s.(*ast.IfStmt); ok && src(is.Cond) == "tombErr != nil && stateErr != nil && newRevocation" {
				b := src(is.Body)
				if strings.Contains(b, "r.rootKeys = nil") && strings.Contains(b, "return") {
					out["shape_both_writes_failed_clears_trust"] = true
				}
			}
		}
	}
	// tombstone read error handling: two recognised shapes of `if err != nil {…}` after readTombstones
	//   A (tree before 1cde6e3; the defect): a nested `if errors.Is(err, errCorruptTombstones)` clears r.rootKeys and returns;
	//      every other error falls through to `tombstones = make(Tombstones)`
	//   B (current tree): the body clears r.rootKeys and returns for every error
	// Props/C09.lean requires B.
	for i, s := range fn.Body.List {
		as, ok := s.(*ast.AssignStmt)
		if !ok || len(as.Rhs) != 1 {
			continue
		}
		c, ok := as.Rhs[0].(*ast.CallExpr)
		if !ok || src(c.Fun) != "readTombstones" {
			continue
		}
		if i+1 >= len(fn.Body.List) {
			continue
		}
		is, ok := fn.Body.List[i+1].(*ast.IfStmt)
		if !ok || src(is.Cond) != "err != nil" {
			continue
		}
		nestedClear, emptyMap, topClear, topReturn := false, false, false, false
		for _, inner := range is.Body.List {
			switch x := inner.(type) {
			case *ast.IfStmt:
				if strings.Contains(src(x.Cond), "errCorruptTombstones") && !strings.Contains(src(x.Cond), "!") {
					b := src(x.Body)
					if strings.Contains(b, "r.rootKeys = nil") && strings.Contains(b, "return") {
						nestedClear = true
					}
				}
			case *ast.AssignStmt:
				if src(x) == "tombstones = make(Tombstones)" {
					emptyMap = true
				}
				if src(x) == "r.rootKeys = nil" {
					topClear = true
				}
			case *ast.ReturnStmt:
				topReturn = true
			}
		}
		assignsTomb := strings.Contains(src(is.Body), "tombstones =") || strings.Contains(src(is.Body), "tombstones, ")
		switch {
		case nestedClear && emptyMap && !topReturn:
			out["shape_corrupt_tombstones_clear_trust"] = true
			out["shape_unreadable_tombstones_use_empty_map"] = true
		case topClear && topReturn && !assignsTomb:
			out["shape_corrupt_tombstones_clear_trust"] = true
			out["shape_unreadable_tombstones_clear_trust"] = true
		}
	}
	// pre-fetch publication
	for _, s := range fn.Body.List {
		if is, ok := s.(*ast.IfStmt); ok && src(is.Cond) == "priorTrustValid" && strings.Contains(src(is.Body), "r.rootKeys = candidate") {
			out["shape_prefetch_publish_gated_on_prior"] = true
		}
	}
	return out
}

// enclosingCase returns "ta.State == <X>" for the `case X:` clause (of a switch
// on ta.State) that contains node n, or "".
func enclosingCase(root ast.Node, n ast.Node, src func(ast.Node) string) string {
	res := ""
	ast.Inspect(root, func(x ast.Node) bool {
		sw, ok := x.(*ast.SwitchStmt)
		if !ok || sw.Tag == nil || src(sw.Tag) != "ta.State" {
			return true
		}
		for _, c := range sw.Body.List {
			cc := c.(*ast.CaseClause)
			if cc.Pos() <= n.Pos() && n.End() <= cc.End() {
				for _, e := range cc.List {
					res += "ta.State == " + src(e) + " "
				}
			}
		}
		return true
	})
	return res
}

// readOutcomes runs the REAL readTombstones / readFromTAFile over the finite
// domain of file conditions the model distinguishes and reports each outcome.
func readOutcomes() []string {
	dir := filepath.Join(baseDir(), "facts")
	_ = os.RemoveAll(dir)
	if err := os.MkdirAll(dir, 0o750); err != nil {
		return []string{"error: " + err.Error()}
	}
	defer os.RemoveAll(dir)
	good := filepath.Join(dir, "good")
	ts := resolver.Tombstones{"fp": &resolver.Tombstone{DNSKey: getKey(1).dnskey(385)}}
	writeGob(good, &ts)
	full, _ := os.ReadFile(good)
	mk := func(name string, data []byte) string {
		p := filepath.Join(dir, name)
		_ = os.WriteFile(p, data, 0o600)
		return p
	}
	loop := filepath.Join(dir, "loop")
	_ = os.Symlink(loop, loop)
	sub := filepath.Join(dir, "subdir")
	_ = os.Mkdir(sub, 0o750)
	cases := []struct{ name, path string }{
		{"absent", filepath.Join(dir, "nope")},
		{"valid", good},
		{"zero-length", mk("zero", nil)},
		{"truncated", mk("trunc", full[:len(full)/2])},
		{"one-byte", mk("one", full[:1])},
		{"garbage", mk("garbage", []byte("\x07not a gob stream"))},
		{"directory", sub},
		{"unopenable", loop},
	}
	var out []string
	for _, c := range cases {
		out = append(out, c.name+"="+resolver.VerifC09ReadTombstones(c.path))
	}
	return out
}
