//go:build verif

package main

import (
	"fmt"
	"strings"

	"github.com/semihalev/sdns/internal/verif/vlib"
)

const (
	hour = 3600
	day  = 24 * hour
	d30  = 720 * hour
	d90  = 2160 * hour
)

// special key material found by scanning the deterministic pool once.
type specials struct {
	sameTag [][2]int // materials whose 257-form key tags collide
	wrap    []int    // materials whose revoked form's tag is not tag+128 (carry in the tag fold)
	revTag  [][3]int // {a, b, flags}: key b with these flags has the key tag of a's REVOKE form
}

var spec *specials

func findSpecials() *specials {
	if spec != nil {
		return spec
	}
	s := &specials{}
	byTag := map[uint16]int{}
	for id := 0; id < 1600; id++ {
		t := tagOf(id, 257)
		if o, ok := byTag[t]; ok {
			s.sameTag = append(s.sameTag, [2]int{o, id})
		} else {
			byTag[t] = id
		}
		if tagOf(id, 385) != t+128 {
			s.wrap = append(s.wrap, id)
		}
	}
	rev := map[uint16]int{}
	for id := 0; id < 1600; id++ {
		rev[tagOf(id, 385)] = id
	}
	for id := 0; id < 1600 && len(s.revTag) < 40; id++ {
		for _, fl := range []uint16{257, 256} {
			if a, ok := rev[tagOf(id, fl)]; ok && a != id {
				s.revTag = append(s.revTag, [3]int{a, id, int(fl)})
			}
		}
	}
	spec = s
	return s
}

// killBudget is the number of real-process SIGKILL runs (`autota killrun`)
// this generation may still emit; each costs a process start under strace.
var killBudget int

type story struct {
	r    *vlib.R
	emit func(string)
	n    int // ops emitted

	cfg     []kref
	mats    []int  // materials this case plays with
	zone    []kref // KSK-ish keys the root currently publishes (with flags)
	zsk     kref
	pendAt  map[int]int64 // material -> virtual time it was first published (guess)
	v       int64
	revoked map[int]bool
	extras  []extra  // other RRsets to splice into the answer section of the next run
	alive   bool     // a process exists (the last run completed, no restart since)
	timed   []string // time-bounded RRSIGs (ts= entries) for the next run
	ttl     uint32   // TTL the root serves its DNSKEY RRset with (0 = 3600, the TTL of the configured records)
}

// window returns "<notBefore>/<notAfter>" (seconds relative to now): inside the window, expired
// (an hour, a day, ten days ago; windows of a day to two months) or not yet valid.
func (st *story) window(kind int) string {
	r := st.r
	switch kind {
	case 0: // valid
		return fmt.Sprintf("%d/%d", -vlib.Pick(r, []int64{300, day, 30 * day}), vlib.Pick(r, []int64{300, hour, 30 * day}))
	case 1: // expired
		after := -vlib.Pick(r, []int64{300, hour, day, 10 * day})
		return fmt.Sprintf("%d/%d", after-vlib.Pick(r, []int64{day, 30 * day, 60 * day}), after)
	default: // not yet valid
		nb := vlib.Pick(r, []int64{300, hour, day})
		return fmt.Sprintf("%d/%d", nb, nb+vlib.Pick(r, []int64{day, 30 * day}))
	}
}

func (st *story) op(format string, a ...any) {
	line := fmt.Sprintf(format, a...)
	if strings.HasPrefix(line, "autota restart") || strings.HasPrefix(line, "autota killrun") || strings.HasPrefix(line, "autota new") {
		st.alive = false
	}
	st.emit(line)
	st.n++
	if strings.HasPrefix(line, "autota restart") && st.r.Chance(2, 3) {
		// the new process exists for a while before its first refresh (middleware start-up,
		// root priming) and validates with its start-up trust set
		st.emit("autota boot" + vlib.Pick(st.r, []string{"", "", "", " t", " t", " s", " st"}))
		st.n++
		st.alive = true
		for i := st.r.Intn(3); i > 0; i-- {
			st.probe()
		}
	}
}

// probe: a validated client lookup with whatever the live trust set is now; the root serves its
// zone signed by ONE key: a current one, a revoked one, a pending one, a configured one.
func (st *story) probe() {
	if !st.alive {
		return
	}
	r := st.r
	var pool []kref
	pool = append(pool, st.zone...)
	pool = append(pool, st.cfg...)
	for m := range st.revoked {
		pool = append(pool, mk(m, 257), mk(m, 385))
	}
	if len(pool) == 0 || len(st.zone) == 0 {
		return
	}
	signers := []kref{vlib.Pick(r, pool)}
	if r.Chance(1, 4) {
		signers = append(signers, vlib.Pick(r, pool))
	}
	line := fmt.Sprintf("autota probe %s %s", joinRefs(shuffled(r, st.zone)), joinRefs(signers))
	if r.Chance(1, 6) {
		line += " x=" + fmtExtras(st.rideAlong(signers))
	}
	st.emit(line)
	st.n++
}

func (st *story) tick(d int64) {
	if d <= 0 {
		return
	}
	d = d / 60 * 60
	st.v += d
	st.op("autota tick %d", d)
}

func shuffled[T any](r *vlib.R, xs []T) []T {
	out := append([]T(nil), xs...)
	for i := len(out) - 1; i > 0; i-- {
		j := r.Intn(i + 1)
		out[i], out[j] = out[j], out[i]
	}
	return out
}

func (st *story) faults(p int) string {
	r := st.r
	if !r.Chance(p, 100) {
		return "-"
	}
	all := []string{"T", "S", "TS", "t", "s", "st", "tT", "sS", "tS", "sT", "tTS", "sTS", "stTS"}
	w := []int{6, 6, 6, 4, 4, 1, 1, 1, 1, 1, 1, 1, 1}
	tot := 0
	for _, x := range w {
		tot += x
	}
	k := r.Intn(tot)
	for i, x := range w {
		if k < x {
			return all[i]
		}
		k -= x
	}
	return "-"
}

func (st *story) crash(p int) string {
	if !st.r.Chance(p, 100) {
		return "-"
	}
	return fmt.Sprint(st.r.Intn(3))
}

// run emits one refresh serving `set` signed by `signers`.
func (st *story) run(set, signers []kref, bad []string, faults, crash string) {
	fs := "-"
	if len(set) > 0 {
		fs = joinRefs(set)
	}
	line := fmt.Sprintf("autota run %s %s %s %s", fs, joinRefs(signers), faults, crash)
	if len(bad) > 0 {
		line += " bad=" + strings.Join(bad, ",")
	}
	if len(st.extras) > 0 {
		line += " x=" + fmtExtras(st.extras)
		st.extras = nil
	}
	if len(st.timed) > 0 {
		line += " ts=" + strings.Join(st.timed, ",")
		st.timed = nil
	}
	if st.ttl != 0 {
		line += fmt.Sprintf(" ttl=%d", st.ttl)
	}
	st.alive = crash == "-"
	st.emit(line)
	st.n++
}

func (st *story) has(id int) int {
	for i, k := range st.zone {
		if k.id == id {
			return i
		}
	}
	return -1
}

// activeSigners: the non-revoked SEP keys of the zone.
func (st *story) activeSigners() []kref {
	var out []kref
	for _, k := range st.zone {
		if k.sep() && !k.revoked() {
			out = append(out, k)
		}
	}
	return out
}

func (st *story) revokedSigners() []kref {
	var out []kref
	for _, k := range st.zone {
		if k.revoked() {
			out = append(out, k)
		}
	}
	return out
}

func (st *story) served() []kref {
	set := append([]kref(nil), st.zone...)
	if st.r.Chance(2, 3) {
		set = append(set, st.zsk)
	}
	return shuffled(st.r, set)
}

var badKinds = []string{"w", "e", "f", "p", "x"}

// rideAlong picks RRsets that ride along with the root's DNSKEY RRset in the answer
// section: a DNSKEY RRset under another owner name (a fresh KSK, a copy of a published key,
// a REVOKE form of a trusted key) or a TXT RRset; unsigned, signed by a key of its own,
// signed by a published-but-untrusted key, or (rarely) validly signed by the given signers.
func (st *story) rideAlong(trustedSigners []kref) []extra {
	r := st.r
	var out []extra
	// one RRset per (owner, type): distinct owner names for the DNSKEY ones, at most one TXT
	owners := shuffled(r, []int{1, 2, 3})
	txt := false
	for n := 1 + r.Intn(2); n > 0; n-- {
		var e extra
		owner := owners[n]
		kind := r.Intn(5)
		if kind == 0 && txt {
			kind = 3
		}
		switch kind {
		case 0: // TXT RRset
			txt = true
		case 1: // copy of a published key under another owner
			if len(st.zone) > 0 {
				e.keys = []kref{vlib.Pick(r, st.zone).at(owner)}
			}
		case 2: // REVOKE form of a configured key under another owner
			if len(st.cfg) > 0 {
				c := vlib.Pick(r, st.cfg)
				e.keys = []kref{mk(c.id, c.flags|0x80).at(owner)}
			}
		}
		if len(e.keys) == 0 && kind != 0 {
			kind = 3
		}
		switch kind {
		case 0, 1, 2:
		default: // a key of the attacker's own, KSK-flagged
			e.keys = []kref{mk(950+r.Intn(30), 257).at(owner)}
			if r.Chance(1, 4) {
				e.keys = append(e.keys, mk(950+r.Intn(30), 256).at(owner))
			}
		}
		switch r.Intn(6) {
		case 0, 1, 2: // unsigned
		case 3: // signed by a key of its own (not trusted)
			e.signers = []kref{mk(980+r.Intn(10), 257)}
		case 4: // signed by a published key that is not configured
			for _, k := range st.zone {
				if !hasKey(st.cfg, k.id, k.flags) && !k.revoked() {
					e.signers = []kref{k}
				}
			}
		default: // validly signed by the set's own signers
			e.signers = trustedSigners
		}
		if r.Chance(1, 3) && len(trustedSigners) > 0 {
			// the same keys sign this RRset, but name another zone as signer: instead of the
			// regular signatures (the RRset is then unsigned for all purposes) or next to them
			for _, k := range trustedSigners {
				e.named = append(e.named, namedSig{key: k, signer: 7 + r.Intn(3)})
			}
			if r.Bool() {
				e.signers = nil
			}
			if r.Chance(1, 4) {
				e.named = append(e.named, namedSig{key: trustedSigners[0], signer: 0}) // one that does count
			}
		}
		out = append(out, e)
	}
	return out
}

// claims returns RRSIGs that carry the key tag / algorithm / signer name of
// each given key but do NOT validly cover the served RRset (wrong private key,
// expired, not yet valid, made over other data, bytes flipped). Every fetched
// set is thus (DNSKEYs, list of RRSIGs each = (claimed key, valid | one of the
// invalid kinds)): `signers` are the valid ones, `bad=` the rest.
func (st *story) claims(keys []kref, p, q int) []string {
	var out []string
	for _, k := range keys {
		if st.r.Chance(p, q) {
			out = append(out, k.String()+":"+vlib.Pick(st.r, badKinds))
		}
	}
	return out
}

// others: the active signers except material id.
func without(ks []kref, id int) []kref {
	var out []kref
	for _, k := range ks {
		if k.id != id {
			out = append(out, k)
		}
	}
	return out
}

// honest serves the zone as it is: signed by every active KSK (or a
// non-empty part of them: co-signing) and self-signed by every revoked key.
func (st *story) honest(faultP, crashP int) {
	r := st.r
	act := st.activeSigners()
	var signers []kref
	for _, k := range act {
		if r.Chance(4, 5) {
			signers = append(signers, k)
		}
	}
	if len(signers) == 0 && len(act) > 0 {
		signers = append(signers, vlib.Pick(r, act))
	}
	signers = append(signers, st.revokedSigners()...)
	if r.Chance(1, 3) {
		signers = append(signers, st.zsk)
	}
	var bad []string
	if r.Chance(1, 8) && len(act) > 0 {
		bad = append(bad, vlib.Pick(r, act).String()+":"+vlib.Pick(r, badKinds))
	}
	if r.Chance(1, 9) {
		st.extras = st.rideAlong(signers)
	}
	if r.Chance(1, 25) {
		st.ttl = vlib.Pick(r, []uint32{0, 60, 86400, 172800, 518400}) // the root changes its DNSKEY TTL
	}
	if r.Chance(1, 6) && len(signers) > 0 {
		// the same signers, but their RRSIGs carry explicit validity windows: all inside (a
		// genuine set), or all outside (a replayed or premature one)
		kind := vlib.Pick(r, []int{0, 0, 1, 1, 1, 2})
		for _, k := range signers {
			st.timed = append(st.timed, k.String()+"/"+st.window(kind))
		}
		if kind != 0 && r.Chance(1, 3) {
			// ... except one that is still good
			st.timed[0] = signers[0].String() + "/" + st.window(0)
		}
		signers = nil
	} else if r.Chance(1, 8) && len(signers) > 0 {
		// RRSIGs made with the signers' own key material, inside their window, but naming another
		// zone as signer: all of them (nothing authenticates), or next to one regular signature
		for _, k := range signers {
			st.timed = append(st.timed, fmt.Sprintf("%s/%s/%d", k.String(), st.window(0), 1+r.Intn(3)))
		}
		if r.Chance(2, 3) {
			signers = nil
		} else {
			signers = signers[:1]
		}
	}
	if len(st.extras) == 0 && len(st.timed) == 0 && killBudget > 0 && crashP > 0 && r.Chance(1, 12) {
		killBudget--
		st.op("autota killrun %s %s %d", joinRefs(st.served()), joinRefs(shuffled(r, signers)), r.Intn(2))
		return
	}
	st.run(st.served(), shuffled(r, signers), bad, st.faults(faultP), st.crash(crashP))
	if r.Chance(1, 5) {
		st.probe()
	}
}

// zone mutations -------------------------------------------------------

func (st *story) freshMat() int {
	for i := 0; i < 20; i++ {
		m := vlib.Pick(st.r, st.mats)
		if st.has(m) < 0 && !st.revoked[m] {
			return m
		}
	}
	return vlib.Pick(st.r, st.mats)
}

func (st *story) addKey() {
	m := st.freshMat()
	if st.has(m) >= 0 {
		return
	}
	st.zone = append(st.zone, mk(m, 257))
	st.pendAt[m] = st.v
}

func (st *story) removeKey() {
	if len(st.zone) <= 1 {
		return
	}
	i := st.r.Intn(len(st.zone))
	st.zone = append(st.zone[:i:i], st.zone[i+1:]...)
}

// revokeGone publishes the REVOKE form of a configured key the root had stopped publishing.
func (st *story) revokeGone() bool {
	for _, c := range shuffled(st.r, st.cfg) {
		if c.sep() && !c.revoked() && st.has(c.id) < 0 && !st.revoked[c.id] {
			st.zone = append(st.zone, mk(c.id, 385))
			st.revoked[c.id] = true
			return true
		}
	}
	return false
}

func (st *story) revokeKey() {
	if st.r.Chance(1, 3) && st.revokeGone() {
		return
	}
	var cand []int
	for i, k := range st.zone {
		if !k.revoked() {
			cand = append(cand, i)
		}
	}
	if len(cand) == 0 {
		return
	}
	i := vlib.Pick(st.r, cand)
	st.zone[i] = mk(st.zone[i].id, 385)
	st.revoked[st.zone[i].id] = true
}

// adversarial / irregular publications -----------------------------------

func (st *story) irregular() {
	r := st.r
	act := st.activeSigners()
	switch r.Intn(11) {
	case 0: // attacker adds its own key and signs with it only
		x := mk(900+r.Intn(40), 257)
		set := append(st.served(), x)
		var bad []string
		if len(act) > 0 && r.Bool() {
			bad = append(bad, vlib.Pick(r, act).String()+":"+vlib.Pick(r, badKinds))
		}
		st.run(set, []kref{x}, bad, st.faults(10), st.crash(5))
	case 1: // only invalid signatures by genuine keys
		var bad []string
		for _, k := range act {
			bad = append(bad, k.String()+":"+vlib.Pick(r, badKinds))
		}
		st.run(st.served(), nil, bad, st.faults(10), "-")
	case 2: // revocation-only: a revoked form of a published key signs alone
		if len(act) == 0 {
			st.honest(10, 5)
			return
		}
		victim := vlib.Pick(r, act)
		rev := mk(victim.id, 385)
		var set []kref
		for _, k := range st.zone {
			if k.id == victim.id {
				set = append(set, rev)
			} else {
				set = append(set, k)
			}
		}
		// the holder of the victim's key would like to take the other anchors down with it:
		// their REVOKE forms, which THEIR keys never signed
		if r.Bool() {
			for i, k := range set {
				if k.id != victim.id && k.sep() && !k.revoked() && r.Chance(2, 3) {
					set[i] = mk(k.id, 385)
				}
			}
		}
		// and tries to smuggle a new key in / drop another one
		if r.Bool() {
			set = append(set, mk(st.freshMat(), 257))
		}
		if r.Chance(1, 3) && len(set) > 1 {
			set = set[1:]
		}
		signers := []kref{rev}
		if r.Chance(1, 4) {
			signers = nil // revoke bit without self-signature
		}
		// besides the one valid self-signature, RRSIGs that merely CLAIM the tag of
		// every other trusted anchor (and sometimes of the victim's unrevoked form)
		var bad []string
		if r.Chance(3, 4) {
			bad = st.claims(without(act, victim.id), 4, 5)
			if r.Chance(1, 3) {
				bad = append(bad, victim.String()+":"+vlib.Pick(r, badKinds))
			}
		}
		if r.Chance(1, 4) {
			st.extras = st.rideAlong(signers)
		}
		st.run(shuffled(r, set), signers, bad, st.faults(25), st.crash(10))
		if r.Chance(2, 3) {
			// the zone really did revoke it
			if i := st.has(victim.id); i >= 0 {
				st.zone[i] = rev
				st.revoked[victim.id] = true
			}
		}
	case 3: // empty answer / failing query
		if r.Bool() {
			st.run(nil, nil, nil, st.faults(10), "-")
		} else {
			st.emit("autota run none - " + st.faults(10) + " -")
			st.alive = true
			st.n++
		}
	case 4: // key whose tag collides with a published / configured one
		sp := findSpecials()
		if len(sp.sameTag) == 0 {
			st.honest(10, 5)
			return
		}
		p := vlib.Pick(r, sp.sameTag)
		a, b := p[0], p[1]
		if r.Bool() {
			a, b = b, a
		}
		set := st.served()
		flags := uint16(257)
		if r.Chance(1, 3) {
			flags = 385
		}
		set = append(set, mk(b, flags))
		_ = a
		signers := act
		if flags == 385 {
			signers = append(append([]kref(nil), act...), mk(b, 385))
		}
		st.run(shuffled(r, set), signers, nil, st.faults(10), "-")
	case 5: // a signer that is not in the set (key removed but still signing)
		if len(act) < 2 {
			st.honest(10, 5)
			return
		}
		gone := act[0]
		var set []kref
		for _, k := range st.served() {
			if k.id != gone.id {
				set = append(set, k)
			}
		}
		st.run(set, []kref{gone}, nil, st.faults(10), st.crash(5))
	case 6: // the same tag twice in one answer (revoked and fresh form of one key, or duplicates)
		if len(st.zone) == 0 {
			return
		}
		k := vlib.Pick(r, st.zone)
		set := append(st.served(), mk(k.id, k.flags^0x80))
		signers := append([]kref(nil), act...)
		if r.Bool() {
			signers = append(signers, mk(k.id, 385))
		}
		st.run(shuffled(r, set), signers, nil, st.faults(10), "-")
	case 7: // revoked form published for a key that is not (yet) trusted
		m := st.freshMat()
		set := append(st.served(), mk(m, 385))
		st.run(set, append(append([]kref(nil), act...), mk(m, 385)), nil, st.faults(10), "-")
	case 8: // a valid signature by a key that is published but not (yet) trusted, plus
		// invalid RRSIGs claiming the tags of the trusted anchors
		var untrusted []kref
		for _, k := range st.zone {
			if !k.revoked() && !hasKey(st.cfg, k.id, k.flags) {
				untrusted = append(untrusted, k)
			}
		}
		set := st.served()
		if len(untrusted) == 0 {
			x := mk(st.freshMat(), 257)
			untrusted = append(untrusted, x)
			set = append(set, x)
		}
		set = append(set, mk(900+r.Intn(40), 257)) // and a key it would like to introduce
		st.run(shuffled(r, set), []kref{vlib.Pick(r, untrusted)}, st.claims(st.cfg, 9, 10), st.faults(10), st.crash(5))
	case 9: // nothing verifies: every RRSIG only claims a trusted tag
		claimed := append(append([]kref(nil), st.cfg...), act...)
		bad := st.claims(claimed, 9, 10)
		if len(bad) == 0 && len(claimed) > 0 {
			bad = []string{claimed[0].String() + ":x"}
		}
		set := append(st.served(), mk(900+r.Intn(40), 257))
		st.run(shuffled(r, set), nil, bad, st.faults(10), "-")
	default: // only the ZSK signs
		st.run(st.served(), []kref{st.zsk}, st.claims(act, 1, 2), "-", "-")
	}
}

var tickChoices = []int64{
	60, 12 * hour, day, 10 * day, 29 * day, d30 - 60, d30, d30 + 60, d30 + day, 45 * day,
	d90 - 60, d90, d90 + 60, d90 - d30, 100 * day,
}

func (st *story) randomTick() {
	st.tick(vlib.Pick(st.r, tickChoices))
}

// tickTo moves the clock so that `since` is `target`+delta seconds old.
func (st *story) tickTo(since int64, target int64) {
	delta := vlib.Pick(st.r, []int64{-60, 0, 60, 60, hour})
	want := since + target + delta
	if want > st.v {
		st.tick(want - st.v)
	}
}

func stateEntry(k kref, stName string, ageMin int64) string {
	return fmt.Sprintf("%s/%s/%d", k.String(), stName, ageMin)
}

func (st *story) start(cfg []kref) {
	st.cfg = cfg
	st.emit("autota new " + joinRefs(cfg))
	st.n++
	st.zone = nil
	for _, k := range cfg {
		if k.sep() && !k.revoked() && st.has(k.id) < 0 {
			st.zone = append(st.zone, k)
		}
	}
}

func newStory(r *vlib.R, emit func(string)) *story {
	st := &story{r: r, emit: emit, pendAt: map[int]int64{}, revoked: map[int]bool{}}
	// one case in three: the root serves another TTL than the records were configured with,
	// and (see honest) changes it now and then
	if r.Chance(1, 3) {
		st.ttl = vlib.Pick(r, []uint32{60, 86400, 172800, 518400})
	}
	base := r.Intn(60) * 8
	for i := 0; i < 8; i++ {
		st.mats = append(st.mats, base+i)
	}
	st.zsk = mk(base+7, 256)
	st.mats = st.mats[:7]
	return st
}

// ---- scripted stories (each clause of the property at least once per run)

func storyRollover(st *story) {
	r := st.r
	a, b := st.mats[0], st.mats[1]
	st.start([]kref{mk(a, 257)})
	st.honest(0, 0)
	st.zone = append(st.zone, mk(b, 257))
	t0 := st.v
	st.honest(5, 0)
	if r.Bool() {
		st.tick(10 * day)
		st.honest(10, 5)
	}
	st.tickTo(t0, d30)
	st.honest(0, 0)
	st.tick(2 * hour)
	st.honest(0, 0)
	// revoke the old key, under a fault / crash in some runs
	st.revokeKey0(a)
	f := vlib.Pick(r, []string{"-", "-", "T", "S", "TS", "TS"})
	c := vlib.Pick(r, []string{"-", "-", "0", "1", "2"})
	if killBudget > 0 && r.Chance(1, 3) {
		// the revoking refresh dies for real between / before the two replacements
		killBudget--
		st.op("autota killrun %s %s %d", joinRefs(st.served()), joinRefs(append(st.activeSigners(), st.revokedSigners()...)), r.Intn(2))
	} else {
		st.run(st.served(), append(st.activeSigners(), st.revokedSigners()...), nil, f, c)
	}
	if r.Bool() {
		st.op("autota restart")
	}
	st.honest(0, 0)
	// revocation is permanent: a month, a quarter, years later the record is still there
	if r.Chance(2, 3) {
		st.tick(vlib.Pick(r, []int64{d30 + 60, 45 * day, 100 * day, 400 * day, 1200 * day}))
		st.honest(0, 0)
		st.tick(12 * hour)
		st.honest(0, 0)
	}
	// the root drops the revoked key; the stale configuration still lists it
	if i := st.has(a); i >= 0 && r.Bool() {
		st.zone = append(st.zone[:i:i], st.zone[i+1:]...)
	}
	st.op("autota restart")
	st.honest(0, 0)
	switch r.Intn(4) {
	case 0:
		st.run(st.served(), st.activeSigners(), nil, "t", "-")
	case 1:
		st.run(st.served(), st.activeSigners(), nil, "s", "-")
	}
	st.honest(10, 5)
}

func (st *story) revokeKey0(id int) {
	if i := st.has(id); i >= 0 {
		st.zone[i] = mk(id, 385)
		st.revoked[id] = true
	}
}

func storyMissing(st *story) {
	r := st.r
	a, b := st.mats[0], st.mats[1]
	st.start([]kref{mk(a, 257), mk(b, 257)})
	st.honest(0, 0)
	// usually the key that disappears is long established (Valid for much more than the
	// remove hold-down): the 90 days must run from the disappearance, not from FirstSeen
	if r.Chance(3, 4) {
		st.tick(vlib.Pick(r, []int64{d90 + 60, 100 * day, 200 * day, 400 * day}))
		if r.Bool() {
			st.honest(0, 0)
		}
	}
	i := st.has(b)
	st.zone = append(st.zone[:i:i], st.zone[i+1:]...)
	t0 := st.v
	st.honest(0, 0)
	// absent from consecutive refreshes
	for j, n := 0, 1+r.Intn(3); j < n; j++ {
		st.tick(vlib.Pick(r, []int64{12 * hour, 12 * hour, day, 60}))
		st.honest(0, 0)
	}
	if r.Bool() {
		st.tick(40 * day)
		st.honest(10, 5)
		if r.Bool() { // reappears, then disappears again: the 90 days restart
			st.zone = append(st.zone, mk(b, 257))
			st.honest(0, 0)
			i := st.has(b)
			st.zone = append(st.zone[:i:i], st.zone[i+1:]...)
			st.tick(day)
			t0 = st.v
			st.honest(0, 0)
		}
	}
	st.tickTo(t0, d90)
	st.honest(0, 0)
	st.tick(day)
	st.honest(5, 5)
	st.zone = append(st.zone, mk(b, 257))
	st.honest(0, 0)
}

func storyLegacy(st *story) {
	r := st.r
	a, b, c, d := st.mats[0], st.mats[1], st.mats[2], st.mats[3]
	cfg := []kref{mk(a, 257), mk(b, 257)}
	if r.Bool() {
		cfg = append(cfg, mk(c, 385)) // admin pre-seeded a revoked key
	}
	st.start(cfg)
	var ents []string
	ents = append(ents, stateEntry(mk(a, 257), "V", 1000))
	ents = append(ents, stateEntry(mk(b, 257), vlib.Pick(r, []string{"R", "X", "V", "M"}), int64(r.Intn(3))*43200+int64(vlib.Pick(r, []int{-1, 0, 1}))+129600))
	if r.Bool() {
		ents = append(ents, stateEntry(mk(d, 257), vlib.Pick(r, []string{"P", "S", "P"}), 43200+int64(vlib.Pick(r, []int{-1, 0, 1, 2}))))
	}
	tomb := "-"
	switch r.Intn(4) {
	case 0:
		tomb = fmt.Sprint(b)
	case 1:
		tomb = fmt.Sprintf("%d,%d", a, st.mats[5])
	case 2:
		tomb = "empty"
	}
	st.op("autota seed %s %s", strings.Join(ents, ","), tomb)
	st.zone = []kref{mk(a, 257), mk(b, 257)}
	if r.Bool() {
		st.zone = append(st.zone, mk(d, 257))
	}
	st.run(st.served(), st.activeSigners(), nil, vlib.Pick(r, []string{"-", "T", "S", "TS", "t", "s"}), vlib.Pick(r, []string{"-", "-", "0", "1", "2"}))
	st.op("autota restart")
	st.honest(0, 0)
	st.honest(15, 5)
}

func storyCollision(st *story) {
	r := st.r
	sp := findSpecials()
	if len(sp.sameTag) == 0 {
		storyRollover(st)
		return
	}
	p := vlib.Pick(r, sp.sameTag)
	a := st.mats[0]
	x, y := p[0], p[1]
	if r.Bool() {
		x, y = y, x
	}
	switch r.Intn(3) {
	case 0:
		// pending key x; later the root publishes y (same tag) instead of x
		st.start([]kref{mk(a, 257)})
		st.zone = append(st.zone, mk(x, 257))
		st.honest(0, 0)
		st.tick(10 * day)
		st.zone[st.has(x)] = mk(y, 257)
		st.honest(0, 0)
		st.tick(20*day + 120)
		if r.Bool() {
			st.zone[st.has(y)] = mk(x, 257)
		}
		st.honest(0, 0)
		st.tick(hour)
		st.honest(0, 0)
	case 1:
		// trusted key x; a revoked key y' whose tag-128 hits x's tag
		st.start([]kref{mk(x, 257), mk(a, 257)})
		st.honest(0, 0)
		st.zone = append(st.zone, mk(y, 385))
		st.honest(0, 0)
		st.run(st.served(), []kref{mk(y, 385)}, nil, "-", "-")
		st.zone = st.zone[:len(st.zone)-1]
		st.honest(0, 0)
	default:
		// both configured: one tag, two anchors
		st.start([]kref{mk(x, 257), mk(y, 257), mk(a, 257)})
		st.zone = []kref{mk(x, 257), mk(y, 257), mk(a, 257)}
		st.honest(0, 0)
		st.op("autota restart")
		st.run(st.served(), []kref{mk(y, 257)}, nil, "s", "-")
		st.honest(0, 0)
	}
	if len(sp.wrap) > 0 && r.Bool() {
		// a key whose revoked form does not have tag+128
		w := vlib.Pick(r, sp.wrap)
		st.start([]kref{mk(w, 257), mk(a, 257)})
		st.honest(0, 0)
		st.revokeKey0(w)
		st.honest(0, 0)
		st.honest(0, 0)
	}
}

// storyDamagedStore: a revocation is on record, then the tombstone file is damaged in every
// way a file can be (zero length, truncated stream, garbage, unopenable) while the configuration
// still lists the revoked key and the root has stopped publishing its REVOKE form.
func storyDamagedStore(st *story) {
	r := st.r
	a, b := st.mats[0], st.mats[1]
	st.start([]kref{mk(a, 257), mk(b, 257)})
	st.honest(0, 0)
	st.revokeKey0(a)
	st.run(st.served(), append(st.activeSigners(), st.revokedSigners()...), nil, "-", "-")
	if r.Bool() {
		st.tick(vlib.Pick(r, []int64{12 * hour, 40 * day}))
		st.honest(0, 0)
	}
	// the root drops the revoked key
	if i := st.has(a); i >= 0 {
		st.zone = append(st.zone[:i:i], st.zone[i+1:]...)
	}
	how := vlib.Pick(r, []string{"tomb-empty", "tomb-empty", "tomb-trunc", "tomb", "t"})
	if how != "t" {
		st.op("autota damage %s", how)
	}
	if r.Chance(2, 3) {
		st.op("autota restart")
	}
	f := "-"
	if how == "t" {
		f = "t"
	}
	st.run(st.served(), st.activeSigners(), nil, f, "-")
	st.tick(12 * hour)
	st.honest(0, 0)
	if r.Bool() {
		st.op("autota restart")
		st.honest(0, 0)
	}
}

// storyRideAlong: the genuine, validly signed root DNSKEY RRset with something spliced into
// the answer section next to it on every refresh for more than the add hold-down.
func storyRideAlong(st *story) {
	r := st.r
	a, b := st.mats[0], st.mats[1]
	st.start([]kref{mk(a, 257), mk(b, 257)})
	st.honest(0, 0)
	x := mk(950+r.Intn(30), 257).at(1 + r.Intn(3))
	var xs []extra
	switch r.Intn(4) {
	case 0:
		xs = []extra{{keys: []kref{x}}} // unsigned KSK under another owner name
	case 1:
		xs = []extra{{keys: []kref{x}, signers: []kref{mk(x.id, 257)}}} // signed by itself only
	case 2:
		xs = []extra{{}, {keys: []kref{x}}} // an unsigned TXT RRset as well
	default:
		xs = []extra{{keys: []kref{x}, signers: []kref{mk(a, 257)}}} // validly signed by a trusted anchor
	}
	for i := 0; i < 4; i++ {
		st.extras = xs
		st.run(st.served(), st.activeSigners(), nil, "-", "-")
		st.tick(vlib.Pick(r, []int64{10*day + 120, 11 * day, 16 * day}))
	}
	st.extras = xs
	st.run(st.served(), st.activeSigners(), nil, "-", "-")
	st.honest(0, 0)
}

// storyRevocationEvidence: who may revoke an anchor — only the anchor's own key, whatever
// else is in the set, whatever the tags, and whether the anchor is Valid or Missing.
func storyRevocationEvidence(st *story) {
	r := st.r
	sp := findSpecials()
	switch r.Intn(5) {
	case 4:
		// revocation-only answer: K1's REVOKE form validly self-signed, no signature by any
		// non-revoked anchor, PLUS the REVOKE forms of the other anchors which their keys never
		// signed: only K1 is revoked
		k1, k2, k3 := st.mats[0], st.mats[1], st.mats[2]
		cfg := []kref{mk(k1, 257), mk(k2, 257)}
		if r.Bool() {
			cfg = append(cfg, mk(k3, 257))
		}
		st.start(cfg)
		st.honest(0, 0)
		if r.Bool() { // K2 may be Missing by then
			st.zone = without(st.zone, k2)
			st.honest(0, 0)
		}
		var set []kref
		for _, c := range cfg {
			set = append(set, mk(c.id, 385))
		}
		if r.Bool() {
			set = append(set, mk(st.mats[4], 257))
		}
		st.run(shuffled(r, set), []kref{mk(k1, 385)}, st.claims([]kref{mk(k2, 385), mk(k2, 257)}, 1, 2), vlib.Pick(r, []string{"-", "-", "T", "TS"}), "-")
		st.zone = without(cfg, k1)
		st.honest(0, 0)
		st.op("autota restart")
		st.honest(0, 0)
	case 3:
		// the REVOKE form of K1 has the key tag of ANOTHER tracked key K2 (configured, or pending):
		// the revocation, validly self-signed, is still a revocation
		if len(sp.revTag) == 0 {
			return
		}
		var p [3]int
		for i := 0; i < 50; i++ {
			p = vlib.Pick(r, sp.revTag)
			if p[2] == 257 {
				break
			}
		}
		if p[2] != 257 {
			return
		}
		k1, k2, k3 := p[0], p[1], st.mats[0]
		if r.Bool() {
			st.start([]kref{mk(k1, 257), mk(k2, 257)})
		} else {
			st.start([]kref{mk(k1, 257), mk(k3, 257)})
			st.zone = append(st.zone, mk(k2, 257)) // K2 only pending
		}
		st.honest(0, 0)
		if r.Bool() {
			st.tick(31 * day)
			st.honest(0, 0)
		}
		st.revokeKey0(k1)
		// K2 first, K1' last in the answer: kskFetched[tag] is the REVOKE form
		var set []kref
		for _, k := range st.zone {
			if k.id != k1 {
				set = append(set, k)
			}
		}
		set = append(set, mk(k1, 385))
		st.run(set, append(st.activeSigners(), mk(k1, 385)), nil, "-", "-")
		st.honest(0, 0)
		st.op("autota restart")
		st.honest(0, 0)
	case 0:
		// Missing, then revoked: K1 disappears from a validly signed set, later the root
		// publishes K1+REVOKE, self-signed and co-signed
		k1, k2 := st.mats[0], st.mats[1]
		st.start([]kref{mk(k1, 257), mk(k2, 257)})
		st.honest(0, 0)
		st.zone = []kref{mk(k2, 257)}
		st.honest(0, 0)
		st.tick(vlib.Pick(r, []int64{12 * hour, 10 * day, 60 * day}))
		if r.Bool() {
			st.honest(0, 0)
		}
		st.zone = []kref{mk(k2, 257), mk(k1, 385)}
		signers := []kref{mk(k2, 257), mk(k1, 385)}
		if r.Chance(1, 4) {
			signers = []kref{mk(k1, 385)} // revocation-only
		}
		st.run(st.served(), signers, nil, vlib.Pick(r, []string{"-", "-", "T", "S"}), "-")
		st.zone = []kref{mk(k2, 257)}
		st.honest(0, 0)
		st.op("autota restart")
		st.honest(0, 0)
	default:
		// REVOKE copy of K1 that K1 never signed, next to a key S with the SAME tag as that
		// copy whose signature does verify (and K2's full authentication)
		if len(sp.revTag) == 0 {
			return
		}
		p := vlib.Pick(r, sp.revTag)
		k1, s, sfl, k2 := p[0], p[1], uint16(p[2]), st.mats[0]
		st.start([]kref{mk(k1, 257), mk(k2, 257)})
		st.honest(0, 0)
		if r.Bool() { // K1 may already be missing
			st.zone = []kref{mk(k2, 257)}
			st.honest(0, 0)
		}
		set := []kref{mk(k1, 385), mk(k2, 257), mk(s, sfl)}
		signers := []kref{mk(k2, 257), mk(s, sfl)}
		if r.Chance(1, 3) {
			signers = []kref{mk(s, sfl)} // not even authenticated
		}
		st.run(shuffled(r, set), signers, st.claims([]kref{mk(k1, 385)}, 1, 2), "-", "-")
		st.zone = []kref{mk(k1, 257), mk(k2, 257)}
		st.honest(0, 0)
		st.op("autota restart")
		st.honest(0, 0)
	}
}

// storyHoldDownAbort: a pending key disappears from ONE otherwise uneventful, accepted refresh
// (nothing else changes in it) and is published again: its hold-down starts afresh.
func storyHoldDownAbort(st *story) {
	r := st.r
	a, p := st.mats[0], st.mats[1]
	st.start([]kref{mk(a, 257)})
	st.run([]kref{mk(a, 257)}, []kref{mk(a, 257)}, nil, "-", "-")
	t0 := st.v
	both := []kref{mk(a, 257), mk(p, 257)}
	st.run(both, []kref{mk(a, 257)}, nil, "-", "-")
	st.tick(vlib.Pick(r, []int64{day, 10 * day, 20 * day}))
	if r.Bool() {
		st.run(both, []kref{mk(a, 257)}, nil, "-", "-")
	}
	// the uneventful refresh without the pending key
	st.run([]kref{mk(a, 257)}, []kref{mk(a, 257)}, nil, "-", "-")
	if r.Bool() {
		st.op("autota restart")
	}
	st.tick(vlib.Pick(r, []int64{12 * hour, 5 * day}))
	st.run(both, []kref{mk(a, 257)}, nil, "-", "-")
	st.tickTo(t0, d30)
	st.tick(120)
	st.run(both, []kref{mk(a, 257)}, nil, "-", "-")
	st.tick(12 * hour)
	st.run(both, []kref{mk(a, 257)}, nil, "-", "-")
}

// storyRolledInRevoked: an anchor learned through a roll (Valid in the state file, not in the
// configuration) is revoked in the first refresh after a restart while writes fail.
func storyRolledInRevoked(st *story) {
	r := st.r
	a, b := st.mats[0], st.mats[1]
	st.start([]kref{mk(a, 257)})
	st.zone = []kref{mk(a, 257), mk(b, 257)}
	st.run(st.zone, []kref{mk(a, 257)}, nil, "-", "-")
	st.tick(d30 + 120)
	st.run(st.zone, []kref{mk(a, 257), mk(b, 257)}, nil, "-", "-")
	if r.Bool() {
		st.tick(vlib.Pick(r, []int64{12 * hour, 100 * day}))
		st.honest(0, 0)
	}
	if r.Chance(3, 4) {
		st.op("autota restart")
	}
	st.revokeKey0(b)
	f := vlib.Pick(r, []string{"TS", "TS", "T", "S", "-"})
	st.run(st.zone, []kref{mk(a, 257), mk(b, 385)}, nil, f, "-")
	st.run(st.zone, []kref{mk(a, 257), mk(b, 385)}, nil, "-", "-")
	st.op("autota restart")
	st.honest(0, 0)
}

// storyForgedClaims: what VERIFIES decides, not which key tags the RRSIGs carry.
func storyForgedClaims(st *story) {
	r := st.r
	k1, k2, n, p := st.mats[0], st.mats[1], st.mats[2], st.mats[3]
	st.start([]kref{mk(k1, 257), mk(k2, 257)})
	st.honest(0, 0)
	kind := func() string { return vlib.Pick(r, badKinds) }
	switch r.Intn(3) {
	case 0:
		// the holder of K2's key serves {K2+REVOKE, N}: the only RRSIG that verifies is
		// K2's self-signature over the revoked form; another one merely claims K1's tag
		st.run([]kref{mk(k2, 385), mk(n, 257)}, []kref{mk(k2, 385)}, []string{mk(k1, 257).String() + ":" + kind()}, "-", "-")
		st.tick(31 * day)
		st.run([]kref{mk(k2, 385), mk(n, 257)}, []kref{mk(k2, 385), mk(n, 257)}, []string{mk(k1, 257).String() + ":" + kind()}, "-", "-")
		st.zone = []kref{mk(k1, 257)}
		st.honest(0, 0)
	case 1:
		// P is pending; a set validly signed by P alone, with invalid RRSIGs claiming K1 and K2
		st.zone = append(st.zone, mk(p, 257))
		st.honest(0, 0)
		st.tick(10 * day)
		st.run([]kref{mk(k1, 257), mk(p, 257), mk(n, 257)}, []kref{mk(p, 257)},
			[]string{mk(k1, 257).String() + ":" + kind(), mk(k2, 257).String() + ":" + kind()}, "-", "-")
		st.tick(21 * day)
		st.honest(0, 0)
	default:
		// nothing verifies; every RRSIG claims a trusted tag; the set drops K2 and adds N
		st.run([]kref{mk(k1, 257), mk(n, 257)}, nil,
			[]string{mk(k1, 257).String() + ":" + kind(), mk(k2, 257).String() + ":" + kind(), mk(k1, 257).String() + ":" + kind()}, "-", "-")
		st.honest(0, 0)
	}
	st.honest(5, 5)
}

func storyRandom(st *story, steps int) {
	r := st.r
	n := 1 + r.Intn(3)
	var cfg []kref
	for i := 0; i < n; i++ {
		flags := uint16(257)
		switch r.Intn(14) {
		case 0:
			flags = 385
		case 1:
			flags = 256
		}
		cfg = append(cfg, mk(st.mats[i], flags))
	}
	st.start(cfg)
	if len(st.zone) == 0 {
		st.zone = append(st.zone, mk(st.mats[3], 257))
	}
	for i := 0; i < steps; i++ {
		switch k := r.Intn(100); {
		case k < 40:
			st.honest(12, 6)
		case k < 52:
			st.irregular()
		case k < 60:
			st.addKey()
			st.honest(8, 4)
		case k < 65:
			if r.Bool() {
				st.tick(vlib.Pick(r, []int64{d90 + 60, 120 * day, 300 * day})) // long-established keys
				st.honest(0, 0)
			}
			st.removeKey()
			st.honest(8, 4)
			if r.Bool() { // still absent at the next refresh(es)
				st.tick(12 * hour)
				st.honest(8, 4)
			}
		case k < 71:
			st.revokeKey()
			st.honest(20, 12)
		case k < 88:
			st.randomTick()
		case k < 95:
			st.op("autota restart")
		case k < 97:
			st.op("autota damage %s", vlib.Pick(r, []string{"tomb", "state", "state", "tomb-empty", "tomb-empty", "tomb-trunc", "state-empty", "state-trunc"}))
		default:
			// 30-day boundary for whatever is pending
			for m, t := range st.pendAt {
				if st.has(m) >= 0 {
					st.tickTo(t, d30)
					break
				}
			}
			st.honest(0, 0)
		}
	}
}

func gen(r0 *vlib.R, n int, tier string, emit func(string)) {
	// vlib.NewR(seed) starts the splitmix stream at seed*phi: the streams of
	// consecutive seeds are one draw apart and re-synchronise. Re-seed from a
	// mixed value so that different VERIF_SEEDs give unrelated runs (still a
	// pure function of the seed).
	x := r0.U64()
	x ^= x >> 29
	x *= 0xD6E8FEB86659FD93
	x ^= x >> 32
	r := vlib.NewR(x)
	killBudget = 12
	if tier == "thorough" {
		killBudget = 150
	}
	findSpecials()
	count := 0
	wrap := func(s string) { emit(s); count++ }
	// the consumer side, exhaustively: every way the anchors are withdrawn x every route to the
	// answer (cold, cut cached, only the parent cut cached, unsigned zone) x CD
	for _, wd := range []string{"none", "corrupt", "zero", "unreadable"} {
		for _, route := range []string{"cold", "warm", "warm-parent", "insecure"} {
			for _, cd := range []string{"f", "t"} {
				wrap(fmt.Sprintf("autota l3 %s %s %s", wd, route, cd))
			}
		}
	}
	for _, wd := range []string{"start-corrupt", "start-zero", "start-unreadable"} {
		for _, route := range []string{"cold", "insecure"} {
			for _, cd := range []string{"f", "t"} {
				wrap(fmt.Sprintf("autota l3 %s %s %s", wd, route, cd))
			}
		}
	}
	scripted := []func(*story){storyRollover, storyMissing, storyMissing, storyLegacy, storyCollision, storyDamagedStore, storyDamagedStore,
		storyForgedClaims, storyForgedClaims, storyForgedClaims, storyRideAlong, storyRideAlong, storyRideAlong,
		storyRevocationEvidence, storyRevocationEvidence, storyRevocationEvidence, storyRevocationEvidence, storyRevocationEvidence, storyRevocationEvidence,
		storyHoldDownAbort, storyHoldDownAbort, storyRolledInRevoked, storyRolledInRevoked, storyRolledInRevoked}
	for _, f := range scripted {
		f(newStory(r, wrap))
	}
	for count < n {
		st := newStory(r, wrap)
		switch k := r.Intn(10); {
		case k < 5:
			storyRandom(st, 8+r.Intn(20))
		default:
			vlib.Pick(r, scripted)(st)
		}
	}
}
