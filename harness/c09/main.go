//go:build verif

// Correspondence driver for C09 (root trust anchors change only as RFC 5011
// permits, across crashes and faults).
//
// The REAL resolver.NewResolver + Resolver.AutoTA run against a scripted root
// on loopback that serves generated DNSKEY RRsets signed with real Ed25519 /
// ECDSA P-256 keys. Time is virtual: the FirstSeen stamps in the gob state
// file are rewritten before every run so that `time.Since(FirstSeen)` equals
// the virtual age (AutoTA reads time.Now() directly). Restarts are new
// Resolvers on the same directory. Read faults are a self-referencing symlink
// (open → ELOOP: exists, cannot be opened, not NotExist, not a decode error);
// write faults are a directory planted at the target path while the DNSKEY
// query is being served (rename(tmp, dir) → EISDIR), i.e. after AutoTA's
// reads and before its writes. Crash points are emulated at the granularity
// of the atomic file replacements: the directory is snapshotted before the
// run and every replacement after the chosen prefix is rolled back, then the
// process (Resolver) is discarded.
//
// Op lines (subsystem "autota"):
//
//	autota new <cfgkeys|->                   fresh directory, no process yet
//	autota seed <state|-> <tomb|->           write legacy/previous files directly
//	autota tick <seconds>                    virtual time passes (multiple of 60)
//	autota restart                           process exits; next run starts a new one
//	autota damage tomb|state                 file content replaced by garbage
//	autota run <fetch> <signers> <faults> <crash> [bad=...]
//	    fetch:   none (query fails) | - (empty answer) | keyrefs
//	    signers: - | keyrefs whose RRSIG over exactly this RRset is valid
//	    faults:  - or letters s (state read fails) t (tombstones unreadable)
//	             T (tombstone write fails) S (state write fails)
//	    crash:   - | 0 | 1 | 2 (process dies after that many landed file replacements)
//	    bad=:    keyref:kind,... invalid signatures also served (model ignores them)
//
// keyref = <material id>.<flags>.<key tag>
package main

import (
	"bytes"
	"context"
	"encoding/gob"
	"fmt"
	"net"
	"os"
	osexec "os/exec"
	"path/filepath"
	"runtime"
	"sort"
	"strconv"
	"strings"
	"sync"
	"sync/atomic"
	"syscall"
	"time"

	"github.com/miekg/dns"
	"github.com/semihalev/sdns/config"
	"github.com/semihalev/sdns/internal/authority"
	"github.com/semihalev/sdns/internal/verif/vlib"
	"github.com/semihalev/sdns/middleware/resolver"
)

// ---------------------------------------------------------------- scripted root

type script struct {
	fail   bool // answer SERVFAIL
	answer []dns.RR
	hook   func() // runs once while the query is being served
}

var (
	srvOnce sync.Once
	srvAddr string
	cur     atomic.Pointer[script]
	hookMu  sync.Mutex
)

type rootHandler struct{}

func (rootHandler) ServeDNS(w dns.ResponseWriter, req *dns.Msg) {
	sc := cur.Load()
	m := new(dns.Msg)
	m.SetReply(req)
	m.Authoritative = true
	if sc != nil {
		hookMu.Lock()
		if sc.hook != nil {
			sc.hook()
			sc.hook = nil
		}
		hookMu.Unlock()
	}
	if sc == nil || sc.fail || len(req.Question) != 1 {
		m.Rcode = dns.RcodeServerFailure
		_ = w.WriteMsg(m)
		return
	}
	if req.Question[0].Qtype == dns.TypeDNSKEY && req.Question[0].Name == "." {
		m.Answer = append(m.Answer, sc.answer...)
	}
	if o := req.IsEdns0(); o != nil {
		m.SetEdns0(4096, true)
	}
	_ = w.WriteMsg(m)
}

func startServer() {
	srvOnce.Do(func() {
		// the same port on UDP and TCP; other harnesses run on this host, so retry
		for try := 0; ; try++ {
			pc, err := net.ListenPacket("udp", "127.0.0.1:0")
			if err != nil {
				if try > 50 {
					panic(err)
				}
				continue
			}
			ln, err := net.Listen("tcp", pc.LocalAddr().String())
			if err != nil {
				_ = pc.Close()
				if try > 50 {
					panic(err)
				}
				continue
			}
			srvAddr = pc.LocalAddr().String()
			go func() { _ = (&dns.Server{PacketConn: pc, Handler: rootHandler{}}).ActivateAndServe() }()
			go func() { _ = (&dns.Server{Listener: ln, Handler: rootHandler{}}).ActivateAndServe() }()
			return
		}
	})
}

// ---------------------------------------------------------------- simulation state

type sim struct {
	dir     string
	cfg     []kref
	r       *resolver.Resolver // nil: no process
	V       int64              // virtual seconds (multiple of 60)
	epochR  time.Time          // real instant that corresponds to epochV for the stamps on disk
	epochV  int64
	orc     *oracle
	caseNum int

	fetchProbe       func() // oracle hook: runs while the DNSKEY query is served
	preLive          string // live trust set while the DNSKEY query was being served ("none": no query)
	replaced         string // files the last run replaced: t (tombstones), s (state), in that order, or -
	lastRevokedDelta int64  // increments of the "revoked" lifecycle counter in the last run
}

var (
	S       *sim
	caseSeq int
)

func baseDir() string {
	d := os.Getenv("VERIF_DIR")
	if d == "" {
		d = "/verif"
	}
	return filepath.Join(d, "build", "tmp-c09", fmt.Sprintf("p%d", os.Getpid()))
}

func (s *sim) statePath() string { return filepath.Join(s.dir, resolver.VerifC09StateFile) }
func (s *sim) tombPath() string  { return filepath.Join(s.dir, resolver.VerifC09TombstoneFile) }

func newSim(cfgKeys []kref) *sim {
	startServer()
	if S != nil {
		_ = os.RemoveAll(S.dir)
	}
	caseSeq++
	d := filepath.Join(baseDir(), fmt.Sprintf("c%d", caseSeq))
	_ = os.RemoveAll(d)
	if err := os.MkdirAll(d, 0o750); err != nil {
		panic(err)
	}
	s := &sim{dir: d, cfg: cfgKeys, caseNum: caseSeq}
	s.epochR = time.Now()
	s.orc = newOracle(cfgKeys)
	return s
}

func makeResolver(dir, addr string, keys []kref) *resolver.Resolver {
	cfg := new(config.Config)
	cfg.RootServers = []string{addr}
	for _, k := range keys {
		cfg.RootKeys = append(cfg.RootKeys, k.rr().String())
	}
	cfg.Maxdepth = 30
	cfg.Expire = 600
	cfg.CacheSize = 1024
	cfg.Timeout.Duration = 1500 * time.Millisecond
	cfg.Directory = dir
	cfg.IPv6Access = false
	cfg.DNSSEC = "on"
	return resolver.NewResolver(cfg)
}

func (s *sim) newProcess() { s.r = makeResolver(s.dir, srvAddr, s.cfg) }

// childMain is the body of the separate process used by `autota killrun`:
// a fresh resolver on the directory, one AutoTA run, exit. The parent runs it
// under `strace -e inject=…:signal=SIGKILL:when=N`, which kills it on entry to
// its N-th rename — a real crash between / before the file replacements.
func childMain(dir, addr, cfgKeys string) {
	// strace counts injections per thread: keep every syscall of AutoTA on one
	runtime.LockOSThread()
	vlib.Quiet()
	r := makeResolver(dir, addr, parseRefs(cfgKeys))
	before := resolver.VerifC09RefreshCounters()
	resolver.VerifC09AutoTA(r)
	after := resolver.VerifC09RefreshCounters()
	out := "none"
	for i := 0; i < 6; i++ {
		if after[i] != before[i] {
			out = outcomeNames[i]
		}
	}
	fmt.Println("res=" + out)
}

// killRun: real process, real SIGKILL at the (k+1)-th rename.
func (s *sim) killRun(sp *runSpec, k int) (string, bool) {
	s.r = nil // the previous process is gone; the child is the new one
	r0 := time.Now()
	s.normalise(r0)
	sc := &script{answer: sp.answer()}
	sc.hook = func() {
		if s.fetchProbe != nil {
			s.fetchProbe()
		}
	}
	cur.Store(sc)
	defer cur.Store(nil)
	exe, err := os.Executable()
	if err != nil {
		panic(err)
	}
	inj := "inject=rename,renameat,renameat2:signal=SIGKILL:when=" + strconv.Itoa(k+1)
	cmd := osexec.Command("strace", "-f", "-o", "/dev/null", "-e", "trace=rename,renameat,renameat2", "-e", inj,
		exe, "child", s.dir, srvAddr, joinRefs(s.cfg))
	cmd.Env = append(os.Environ(), "VERIF_LOG=")
	outB, _ := cmd.Output()
	out := strings.TrimSpace(string(outB))
	killed := !strings.HasPrefix(out, "res=")
	outcome := "ok" // killed inside the persistence tail: the refresh had been accepted
	if !killed {
		outcome = strings.TrimPrefix(out, "res=")
	}
	s.lastRevokedDelta = -1 // the child's counters died with it: unknown, the records left on disk decide
	// a process killed before its rename leaves its temp file behind; nothing ever reads it
	ents, _ := os.ReadDir(s.dir)
	for _, e := range ents {
		if strings.Contains(e.Name(), ".tmp.") {
			_ = os.Remove(filepath.Join(s.dir, e.Name()))
		}
	}
	return outcome, killed
}

func round60(d time.Duration) int64 {
	sec := d.Seconds()
	n := int64((sec + 30) / 60)
	if sec+30 < 0 {
		n = -int64((-(sec + 30) + 59.999999) / 60)
	}
	return n * 60
}

// stampBias: stamps of earlier runs are written `stampBias` younger than their virtual age
// (see normalise); stamps at or after the epoch were made by the run itself.
const stampBias = 40 * time.Second

// virt maps a FirstSeen stamp found on disk to virtual seconds. A stamp written by the run
// that started at epochR is "now" however long that run took; older ones carry the bias.
func (s *sim) virt(t time.Time) int64 {
	if !t.Before(s.epochR) {
		return s.epochV
	}
	return s.epochV + round60(t.Sub(s.epochR)-stampBias)
}

func readState(path string) (resolver.TrustAnchors, string) {
	f, err := os.Open(path)
	if err != nil {
		if os.IsNotExist(err) {
			return nil, "absent"
		}
		return nil, "unreadable"
	}
	defer f.Close()
	if fi, err := f.Stat(); err == nil && fi.Mode().IsRegular() && fi.Size() == 0 {
		return nil, "zero"
	}
	t := make(resolver.TrustAnchors)
	if err := gob.NewDecoder(f).Decode(&t); err != nil {
		return nil, "corrupt"
	}
	return t, "ok"
}

func readTomb(path string) (resolver.Tombstones, string) {
	f, err := os.Open(path)
	if err != nil {
		if os.IsNotExist(err) {
			return nil, "absent"
		}
		return nil, "unreadable"
	}
	defer f.Close()
	if fi, err := f.Stat(); err == nil && fi.Mode().IsRegular() && fi.Size() == 0 {
		return nil, "zero"
	}
	t := make(resolver.Tombstones)
	if err := gob.NewDecoder(f).Decode(&t); err != nil {
		return nil, "corrupt"
	}
	return t, "ok"
}

func writeGob(path string, v any) {
	var b bytes.Buffer
	if err := gob.NewEncoder(&b).Encode(v); err != nil {
		panic(err)
	}
	if err := os.WriteFile(path, b.Bytes(), 0o600); err != nil {
		panic(err)
	}
}

// normalise rewrites the FirstSeen stamps of the state file so that, for the
// AutoTA run about to start at real time r0, time.Since(FirstSeen) equals the
// virtual age minus 40 s plus the (millisecond) real drift: every virtual age
// is a multiple of 60 s, so `age > holddown` has the same truth value for the
// implementation and for the model as long as a run takes < 40 s.
func (s *sim) normalise(r0 time.Time) {
	tas, st := readState(s.statePath())
	if st == "ok" {
		for _, ta := range tas {
			f := s.virt(ta.FirstSeen)
			ta.FirstSeen = r0.Add(-time.Duration(s.V-f)*time.Second + stampBias)
		}
		writeGob(s.statePath(), &tas)
	}
	// the tombstones age with the virtual clock as well (nothing may depend on their age)
	if ts, st := readTomb(s.tombPath()); st == "ok" {
		for _, tb := range ts {
			if tb != nil && !tb.FirstSeen.IsZero() {
				f := s.virt(tb.FirstSeen)
				tb.FirstSeen = r0.Add(-time.Duration(s.V-f)*time.Second + stampBias)
			}
		}
		writeGob(s.tombPath(), &ts)
	}
	s.epochR = r0
	s.epochV = s.V
}

var stNames = map[resolver.State]string{
	resolver.StateStart: "S", resolver.StateAddPend: "P", resolver.StateValid: "V",
	resolver.StateMissing: "M", resolver.StateRevoked: "R", resolver.StateRemoved: "X",
}

func refOf(k *dns.DNSKEY) string {
	if k == nil {
		return "nil"
	}
	id, ok := pubToID[k.PublicKey]
	if !ok {
		return "?"
	}
	return kref{id: id, flags: k.Flags, tag: k.KeyTag(), owner: ownerOf(k.Hdr.Name)}.String()
}

func (s *sim) obsState() string {
	tas, st := readState(s.statePath())
	if st != "ok" {
		return st
	}
	if len(tas) == 0 {
		return "empty"
	}
	tags := make([]int, 0, len(tas))
	for t := range tas {
		tags = append(tags, int(t))
	}
	sort.Ints(tags)
	var out []string
	for _, t := range tags {
		ta := tas[uint16(t)]
		ref := refOf(ta.DNSKey)
		if ta.DNSKey != nil && ta.DNSKey.KeyTag() != uint16(t) {
			ref += fmt.Sprintf("#%d", t)
		}
		out = append(out, fmt.Sprintf("%s/%s/%d", ref, stNames[ta.State], (s.V-s.virt(ta.FirstSeen))/60))
	}
	return strings.Join(out, ",")
}

func (s *sim) obsTomb() string {
	ts, st := readTomb(s.tombPath())
	if st != "ok" {
		return st
	}
	if len(ts) == 0 {
		return "empty"
	}
	var ids []int
	for fp, tb := range ts {
		id, ok := pubToID[tb.DNSKey.PublicKey]
		if !ok || fp != resolver.VerifC09MaterialFP(tb.DNSKey) {
			id = -1
		}
		ids = append(ids, id)
	}
	sort.Ints(ids)
	out := make([]string, len(ids))
	for i, id := range ids {
		out[i] = fmt.Sprint(id)
	}
	return strings.Join(out, ",")
}

func (s *sim) liveRefs() []kref {
	if s.r == nil {
		return nil
	}
	keys, _ := resolver.VerifC09Live(s.r)
	var out []kref
	for _, rr := range keys {
		k := rr.(*dns.DNSKEY)
		id, ok := pubToID[k.PublicKey]
		if !ok {
			id = -1
		}
		out = append(out, kref{id: id, flags: k.Flags, tag: k.KeyTag(), owner: ownerOf(k.Hdr.Name)})
	}
	sort.Slice(out, func(i, j int) bool {
		if out[i].tag != out[j].tag {
			return out[i].tag < out[j].tag
		}
		if out[i].id != out[j].id {
			return out[i].id < out[j].id
		}
		return out[i].flags < out[j].flags
	})
	return out
}

func (s *sim) obsLive() string {
	if s.r == nil {
		return "dead"
	}
	l := s.liveRefs()
	if len(l) == 0 {
		return "-"
	}
	return joinRefs(l)
}

func (s *sim) obs() string {
	return fmt.Sprintf("live=%s state=%s tomb=%s", s.obsLive(), s.obsState(), s.obsTomb())
}

// ---------------------------------------------------------------- faults

type fileSnap struct {
	exists bool
	data   []byte
}

func snapFile(path string) fileSnap {
	b, err := os.ReadFile(path)
	if err != nil {
		return fileSnap{}
	}
	return fileSnap{exists: true, data: b}
}

func (fs fileSnap) restore(path string) {
	_ = os.RemoveAll(path)
	if fs.exists {
		if err := os.WriteFile(path, fs.data, 0o600); err != nil {
			panic(err)
		}
	}
}

// plantLoop makes path exist but impossible to open (ELOOP).
func plantLoop(path string) {
	_ = os.RemoveAll(path)
	if err := os.Symlink(path, path); err != nil {
		panic(err)
	}
}

// plantDir makes rename(tmp, path) fail (EISDIR / ENOTEMPTY).
func plantDir(path string) {
	_ = os.RemoveAll(path)
	if err := os.MkdirAll(filepath.Join(path, "x"), 0o750); err != nil {
		panic(err)
	}
}

// inode of a regular file (0: none).
func inode(path string) uint64 {
	fi, err := os.Lstat(path)
	if err != nil || !fi.Mode().IsRegular() {
		return 0
	}
	if st, ok := fi.Sys().(*syscall.Stat_t); ok {
		return st.Ino
	}
	return 0
}

func isLoop(path string) bool {
	fi, err := os.Lstat(path)
	return err == nil && fi.Mode()&os.ModeSymlink != 0
}

func isDir(path string) bool {
	fi, err := os.Lstat(path)
	return err == nil && fi.IsDir()
}

type runSpec struct {
	fetchNone bool
	fetch     []kref
	signers   []kref
	bad       []badSig
	extras    []extra
	timed     []timedSig // time-bounded RRSIGs over the root DNSKEY RRset
	ttl       uint32     // TTL of the served root DNSKEY RRset (0: 3600)
	baseSig   []kref     // signers as written on the op line (sp.signers also holds the valid timed ones)
	fStateRd  bool
	fTombRd   bool
	fTombWr   bool
	fStateWr  bool
	crash     int // -1 none
}

var outcomeNames = []string{"ok", "work", "timeout", "qerr", "verr", "perr"}

// parseOptional reads the optional tokens of a run / probe line and folds the time-bounded
// signatures that are inside their window into the ground-truth signer list.
func (sp *runSpec) parseOptional(toks []string) {
	sp.baseSig = sp.signers
	for _, x := range toks {
		switch {
		case strings.HasPrefix(x, "bad="):
			sp.bad = parseBad(x[4:])
		case strings.HasPrefix(x, "x="):
			sp.extras = parseExtras(x[2:])
		case strings.HasPrefix(x, "ts="):
			sp.timed = parseTimed(x[3:])
		case strings.HasPrefix(x, "ttl="):
			sp.ttl = uint32(vlib.Atoi(x[4:]))
		}
	}
	for _, t := range sp.timed {
		if t.valid() {
			sp.signers = append(append([]kref(nil), sp.signers...), t.key)
		}
	}
}

func (sp *runSpec) answer() []dns.RR {
	servedTTL = 3600
	if sp.ttl != 0 {
		servedTTL = sp.ttl
	}
	defer func() { servedTTL = 3600 }()
	base := sp.baseSig
	if base == nil && len(sp.timed) == 0 {
		base = sp.signers
	}
	out := buildAnswer(sp.fetch, base, sp.bad, sp.extras...)
	return append(out, timedRRSIGs(sp.fetch, sp.timed)...)
}

// run executes one AutoTA refresh under the given faults and returns the
// refresh outcome name.
func (s *sim) run(sp *runSpec) string {
	if s.r == nil {
		s.newProcess()
	}
	r0 := time.Now()
	s.normalise(r0)
	stateSnap := snapFile(s.statePath())
	tombSnap := snapFile(s.tombPath())
	stateIno, tombIno := inode(s.statePath()), inode(s.tombPath())

	if sp.fStateRd {
		plantLoop(s.statePath())
	}
	if sp.fTombRd {
		plantLoop(s.tombPath())
	}
	sc := &script{fail: sp.fetchNone}
	if !sp.fetchNone {
		sc.answer = sp.answer()
	}
	s.preLive = "none"
	sc.hook = func() {
		s.preLive = s.obsLive()
		if s.fetchProbe != nil {
			s.fetchProbe()
		}
		if sp.fTombWr {
			plantDir(s.tombPath())
		}
		if sp.fStateWr {
			plantDir(s.statePath())
		}
	}
	cur.Store(sc)
	before := resolver.VerifC09RefreshCounters()
	resolver.VerifC09AutoTA(s.r)
	after := resolver.VerifC09RefreshCounters()
	for attempt := 0; attempt < 3 && (after[2] != before[2] || after[3] != before[3]); attempt++ {
		// the loopback exchange itself failed (lost datagram on a loaded
		// host): nothing was written yet, so the refresh is simply repeated
		before = resolver.VerifC09RefreshCounters()
		resolver.VerifC09AutoTA(s.r)
		after = resolver.VerifC09RefreshCounters()
	}
	cur.Store(nil)
	s.lastRevokedDelta = after[6] - before[6]

	// which files were REPLACED by this run (atomicGobWrite renames a new inode into place)
	s.replaced = ""
	// (where a read fault had planted a symlink, the old inode was freed and may be reused:
	// a regular file there now IS the replacement)
	if fi, err := os.Lstat(s.tombPath()); err == nil && fi.Mode().IsRegular() && (sp.fTombRd || inode(s.tombPath()) != tombIno) {
		s.replaced += "t"
	}
	if fi, err := os.Lstat(s.statePath()); err == nil && fi.Mode().IsRegular() && (sp.fStateRd || inode(s.statePath()) != stateIno) {
		s.replaced += "s"
	}
	if s.replaced == "" {
		s.replaced = "-"
	}
	// remove the planted obstacles: a path that still carries one saw no
	// replacement, so the previous content is what is on disk.
	if isLoop(s.statePath()) || isDir(s.statePath()) {
		stateSnap.restore(s.statePath())
	}
	if isLoop(s.tombPath()) || isDir(s.tombPath()) {
		tombSnap.restore(s.tombPath())
	}
	// stray temp files of failed renames are removed by the code itself;
	// anything left is reported by the oracle.
	outcome := "none"
	for i := 0; i < 6; i++ {
		if after[i] != before[i] {
			outcome = outcomeNames[i]
		}
	}
	if sp.crash >= 0 {
		// landed replacements in order: tombstones (unless its write
		// failed), then state (unless its write failed).
		var landed []string
		if !sp.fTombWr {
			landed = append(landed, "tomb")
		}
		if !sp.fStateWr {
			landed = append(landed, "state")
		}
		keep := map[string]bool{}
		for i, w := range landed {
			if i < sp.crash {
				keep[w] = true
			}
		}
		if !keep["tomb"] {
			tombSnap.restore(s.tombPath())
		}
		if !keep["state"] {
			stateSnap.restore(s.statePath())
		}
		s.r = nil
	}
	return outcome
}

func (s *sim) strayTemp() bool {
	ents, _ := os.ReadDir(s.dir)
	for _, e := range ents {
		if strings.Contains(e.Name(), ".tmp.") {
			return true
		}
	}
	return false
}

// ---------------------------------------------------------------- exec

func parseStateSeed(s *sim, arg string) resolver.TrustAnchors {
	tas := make(resolver.TrustAnchors)
	if arg == "-" || arg == "empty" {
		return tas
	}
	now := time.Now()
	stBy := map[string]resolver.State{}
	for k, v := range stNames {
		stBy[v] = k
	}
	for _, e := range strings.Split(arg, ",") {
		p := strings.Split(e, "/")
		if len(p) != 3 {
			panic("bad state entry " + e)
		}
		ref := parseRef(p[0])
		age := vlib.AtoI64(p[2]) * 60
		tas[ref.tag] = &resolver.TrustAnchor{DNSKey: ref.rr(), State: stBy[p[1]],
			FirstSeen: now.Add(-time.Duration(age)*time.Second + stampBias)}
	}
	return tas
}

func exec(op string) vlib.Res {
	f := strings.Fields(op)
	if len(f) < 2 || f[0] != "autota" {
		return vlib.Res{Impl: "bad-op"}
	}
	if f[1] == "l3" {
		return l3op(f)
	}
	if f[1] != "new" && S == nil {
		return vlib.Res{Impl: "bad-op"}
	}
	switch f[1] {
	case "new":
		S = newSim(parseRefs(f[2]))
		return vlib.Res{Impl: S.obs(), Oracle: "ok"}
	case "seed":
		now := time.Now()
		S.epochR, S.epochV = now, S.V
		if f[2] != "-" {
			tas := parseStateSeed(S, f[2])
			writeGob(S.statePath(), &tas)
		}
		if f[3] != "-" {
			ts := make(resolver.Tombstones)
			if f[3] != "empty" {
				for _, m := range strings.Split(f[3], ",") {
					k := getKey(vlib.Atoi(m)).dnskey(385)
					ts[resolver.VerifC09MaterialFP(k)] = &resolver.Tombstone{DNSKey: k, FirstSeen: now}
				}
			}
			writeGob(S.tombPath(), &ts)
		}
		S.orc.seeded(S)
		return vlib.Res{Impl: S.obs(), Oracle: "ok"}
	case "tick":
		d := vlib.AtoI64(f[2])
		S.V += d
		S.orc.now = S.V
		return vlib.Res{Impl: S.obs(), Oracle: "ok"}
	case "restart":
		S.r = nil
		return vlib.Res{Impl: S.obs(), Oracle: "ok"}
	case "boot":
		// NewResolver alone: the process exists, its first AutoTA has not run yet; with a fault
		// argument the files cannot be opened while it starts (s: state file, t: tombstone store)
		fl := ""
		if len(f) > 2 {
			fl = f[2]
		}
		stateSnap, tombSnap := snapFile(S.statePath()), snapFile(S.tombPath())
		if strings.Contains(fl, "s") {
			plantLoop(S.statePath())
		}
		if strings.Contains(fl, "t") {
			plantLoop(S.tombPath())
		}
		S.newProcess()
		if isLoop(S.statePath()) {
			stateSnap.restore(S.statePath())
		}
		if isLoop(S.tombPath()) {
			tombSnap.restore(S.tombPath())
		}
		return vlib.Res{Impl: S.obs(), Oracle: S.orc.boot(S, strings.Contains(fl, "t"), strings.Contains(fl, "s")), Tags: "nt,boot"}
	case "damage":
		// tomb|state: garbage; *-trunc: the existing gob stream cut in the middle
		// (garbage when there is none); *-empty: truncated to zero length
		what, kind, _ := strings.Cut(f[2], "-")
		var path string
		switch what {
		case "tomb":
			path = S.tombPath()
		case "state":
			path = S.statePath()
			S.orc.stateBad = true
		default:
			return vlib.Res{Impl: "bad-op"}
		}
		data := []byte("\x07not a gob stream")
		switch kind {
		case "":
		case "trunc":
			if old, err := os.ReadFile(path); err == nil && len(old) > 8 {
				data = old[:len(old)/2]
			}
		case "empty":
			data = nil
		default:
			return vlib.Res{Impl: "bad-op"}
		}
		if err := os.WriteFile(path, data, 0o600); err != nil {
			panic(err)
		}
		return vlib.Res{Impl: S.obs(), Oracle: "ok"}
	case "probe":
		// autota probe <fetch> <signers> [bad=..] [x=..]: a client-style validated lookup of ". DNSKEY"
		// (CD=0) through the real Resolver with the CURRENT live trust set; the root serves the given answer.
		if len(f) < 4 || S.r == nil {
			return vlib.Res{Impl: "bad-op"}
		}
		sp := &runSpec{crash: -1, fetch: parseRefs(f[2]), signers: parseRefs(f[3])}
		sp.parseOptional(f[4:])
		cur.Store(&script{answer: sp.answer()})
		defer cur.Store(nil)
		req := new(dns.Msg)
		req.SetQuestion(".", dns.TypeDNSKEY)
		req.SetEdns0(1232, true)
		servers := &authority.Servers{Zone: "."}
		servers.List = append(servers.List, authority.NewServer(srvAddr, authority.IPv4))
		var resp *dns.Msg
		var err error
		for attempt := 0; attempt < 3; attempt++ {
			// a refusal is repeated: on a loaded host a lost loopback datagram looks like one
			ctx, cancel := context.WithTimeout(context.Background(), 3*time.Second)
			resp, err = S.r.Resolve(ctx, req.Copy(), servers, true, 30, 0, false, nil)
			cancel()
			if err == nil && resp != nil && resp.Rcode == 0 && len(resp.Answer) > 0 {
				break
			}
		}
		res := "refused"
		if err == nil && resp != nil && resp.Rcode == 0 && len(resp.Answer) > 0 {
			res = "answered ad=" + vlib.B(resp.AuthenticatedData)
		}
		return vlib.Res{Impl: res, Oracle: S.orc.probe(S, sp, err == nil && resp != nil && resp.Rcode == 0 && len(resp.Answer) > 0, err == nil && resp != nil && resp.AuthenticatedData), Tags: "nt,probe"}
	case "killrun":
		// autota killrun <fetch> <signers> <k>: restart, then a run in a real
		// child process that is SIGKILLed on entry to its (k+1)-th rename
		if len(f) < 5 {
			return vlib.Res{Impl: "bad-op"}
		}
		k := vlib.Atoi(f[4])
		sp := &runSpec{crash: k, fetch: parseRefs(f[2]), signers: parseRefs(f[3])}
		S.r = nil
		pre := S.orc.before(S, sp)
		outcome, killed := S.killRun(sp, k)
		if !killed {
			// fewer than k+1 renames happened: the run completed and the process exited
			sp.crash = 2
		}
		verdict, tags := S.orc.after(S, sp, pre, outcome)
		if killed {
			tags += ",sigkill"
		}
		return vlib.Res{Impl: S.obs(), Oracle: verdict, Tags: tags}
	case "run":
		if len(f) < 6 {
			return vlib.Res{Impl: "bad-op"}
		}
		sp := &runSpec{crash: -1}
		switch f[2] {
		case "none":
			sp.fetchNone = true
		case "-":
		default:
			sp.fetch = parseRefs(f[2])
		}
		sp.signers = parseRefs(f[3])
		for _, c := range f[4] {
			switch c {
			case 's':
				sp.fStateRd = true
			case 't':
				sp.fTombRd = true
			case 'T':
				sp.fTombWr = true
			case 'S':
				sp.fStateWr = true
			case '-':
			default:
				return vlib.Res{Impl: "bad-op"}
			}
		}
		if f[5] != "-" {
			sp.crash = vlib.Atoi(f[5])
		}
		sp.parseOptional(f[6:])
		pre := S.orc.before(S, sp)
		outcome := S.run(sp)
		verdict, tags := S.orc.after(S, sp, pre, outcome)
		if len(sp.extras) > 0 {
			tags += ",extra-rrsets"
			foreign := false
			for _, e := range sp.extras {
				for _, n := range e.named {
					foreign = foreign || n.signer != 0
				}
			}
			if foreign {
				tags += ",extra-foreign-signer-name"
			}
		}
		if len(sp.bad) > 0 {
			tags += ",bad-rrsig"
		}
		if len(sp.timed) > 0 {
			tags += ",timed-rrsig"
		}
		for _, t := range sp.timed {
			if t.signer != 0 {
				tags += ",foreign-signer-name"
				break
			}
		}
		if sp.ttl != 0 && sp.ttl != 3600 {
			tags += ",other-ttl"
		}
		if S.strayTemp() && verdict == "ok" {
			verdict = "FAIL sig=autota/atomic-write/temp-file-left-behind"
		}
		impl := S.obs()
		if sp.crash < 0 {
			impl = "res=" + outcome + " pre=" + S.preLive + " w=" + S.replaced + " " + impl
		}
		return vlib.Res{Impl: impl, Oracle: verdict, Tags: tags}
	}
	return vlib.Res{Impl: "bad-op"}
}

func cleanup() {
	if S != nil {
		_ = os.RemoveAll(S.dir)
	}
	_ = os.RemoveAll(baseDir())
	// remove the parent when it is empty (other processes may be running)
	_ = os.Remove(filepath.Dir(baseDir()))
}

func main() {
	if len(os.Args) == 5 && os.Args[1] == "child" {
		childMain(os.Args[2], os.Args[3], os.Args[4])
		return
	}
	if len(os.Args) > 2 && os.Args[1] == "tags" {
		// debugging aid: print the key refs of material ids 0..n-1
		for i := 0; i < vlib.Atoi(os.Args[2]); i++ {
			fmt.Println(mk(i, 257), mk(i, 385), mk(i, 256))
		}
		return
	}
	defer cleanup()
	vlib.Main(&vlib.Driver{Facts: facts, Exec: exec, Gen: gen})
}
