//go:build verif

package main

import (
	"fmt"
	"os"
	"path/filepath"
	"strings"

	"github.com/miekg/dns"
	"github.com/semihalev/sdns/config"
	"github.com/semihalev/sdns/internal/verif/l3"
	"github.com/semihalev/sdns/internal/verif/vlib"
	"github.com/semihalev/sdns/middleware/resolver"
)

// autota l3 <withdraw> <route> <cd>
//
// The consumer side of "validation fails closed": the real pipeline (edns -> cache -> resolver)
// over a signed scripted hierarchy (root -> test. -> shop.test., plus an unsigned plain.test.),
// with the trust anchors withdrawn by the real AutoTA.
//
//	withdraw: none | corrupt | zero | unreadable     state of the tombstone store at the refresh
//	          start-corrupt | start-zero             ... at process start (no refresh at all)
//	route:    cold                                    nothing resolved before the withdrawal
//	          warm                                    another name under the same signed cut was
//	                                                  resolved before (cut + DS set are cached)
//	          warm-parent                             only the parent cut (test.) is cached
//	          insecure                                a name in the unsigned zone, cut cached
//	cd:       t | f                                   the client sets CD (asks for no validation)
//
// Result: "answered ad=<t|f>" | "servfail" | "noreply"; judged by the oracle only (the Lean
// model covers the trust-set side: `validates [] f = false`).
func l3op(f []string) vlib.Res {
	if len(f) != 5 {
		return vlib.Res{Impl: "bad-op"}
	}
	withdraw, route, cd := f[2], f[3], f[4] == "t"
	w := l3.NewWorld(true)
	defer w.Close()
	w.AddZone("test.", l3.ZoneOpts{Signed: true, PublishDS: true})
	z := w.AddZone("shop.test.", l3.ZoneOpts{Signed: true, PublishDS: true})
	z.Add("www.shop.test. 300 IN A 192.0.2.200", "mail.shop.test. 300 IN A 192.0.2.201")
	o := w.AddZone("other.test.", l3.ZoneOpts{Signed: true, PublishDS: true})
	o.Add("www.other.test. 300 IN A 192.0.2.202")
	u := w.AddZone("plain.test.", l3.ZoneOpts{Signed: false})
	u.Add("www.plain.test. 300 IN A 192.0.2.203", "mail.plain.test. 300 IN A 192.0.2.204")
	p := l3.NewPipe(w, l3.PipeOpts{DNSSEC: true, Tweak: func(cfg *config.Config) {
		// start-*: the process STARTS with a store that does not load (startupRootKeys -> nothing)
		switch withdraw {
		case "start-corrupt":
			_ = os.WriteFile(filepath.Join(cfg.Directory, resolver.VerifC09TombstoneFile), []byte("\x07not a gob stream"), 0o600)
		case "start-zero":
			_ = os.WriteFile(filepath.Join(cfg.Directory, resolver.VerifC09TombstoneFile), nil, 0o600)
		case "start-unreadable":
			plantLoop(filepath.Join(cfg.Directory, resolver.VerifC09TombstoneFile))
		}
	}})
	defer p.Close()
	atStart := strings.HasPrefix(withdraw, "start-")
	if atStart && (route == "warm" || route == "warm-parent") {
		return vlib.Res{Impl: "bad-op"} // nothing can be cached before the process exists
	}

	target, warm := "mail.shop.test.", ""
	switch route {
	case "cold":
	case "warm":
		warm = "www.shop.test."
	case "warm-parent":
		warm, target = "www.other.test.", "mail.shop.test."
	case "insecure":
		warm, target = "www.plain.test.", "mail.plain.test."
	default:
		return vlib.Res{Impl: "bad-op"}
	}
	if atStart {
		warm = ""
		if route == "insecure" {
			target = "www.plain.test."
		}
	}
	if warm != "" {
		r := p.Query(warm, dns.TypeA, l3.Flags{DO: true})
		wantAD := route != "insecure"
		if r == nil || r.Rcode != dns.RcodeSuccess || len(r.Answer) == 0 || r.AuthenticatedData != wantAD {
			return vlib.Res{Impl: "setup-failed", Oracle: fail("autota/l3/setup", "warm-up lookup of %s did not give the expected answer: %v", warm, r)}
		}
	}
	tomb := filepath.Join(p.Cfg.Directory, resolver.VerifC09TombstoneFile)
	switch withdraw {
	case "none":
	case "corrupt":
		_ = os.WriteFile(tomb, []byte("\x07not a gob stream"), 0o600)
	case "zero":
		_ = os.WriteFile(tomb, nil, 0o600)
	case "unreadable":
		plantLoop(tomb)
	case "start-corrupt", "start-zero", "start-unreadable":
	default:
		return vlib.Res{Impl: "bad-op"}
	}
	if !atStart {
		resolver.VerifC09AutoTA(p.Resolver)
	}
	has := resolver.VerifC09HasTrustAnchors(p.Resolver)
	if withdraw != "none" && has {
		return vlib.Res{Impl: "anchors-kept", Oracle: fail("autota/"+withdraw+"-tombstones/not-fail-closed", "trust anchors still published"), Tags: "nt,l3"}
	}
	if withdraw == "none" && !has {
		return vlib.Res{Impl: "anchors-lost", Oracle: fail("autota/l3/setup", "a plain refresh cleared the trust anchors"), Tags: "nt,l3"}
	}
	r := p.Query(target, dns.TypeA, l3.Flags{DO: true, CD: cd})
	res := "noreply"
	answered := false
	if r != nil {
		switch {
		case r.Rcode == dns.RcodeSuccess && len(r.Answer) > 0:
			answered = true
			res = "answered ad=" + vlib.B(r.AuthenticatedData)
		case r.Rcode == dns.RcodeServerFailure:
			res = "servfail"
		default:
			res = "rcode=" + dns.RcodeToString[r.Rcode]
		}
	}
	verdict := "ok"
	switch {
	case withdraw != "none" && r != nil && r.AuthenticatedData:
		verdict = fail("autota/fail-closed/authenticated-answer-without-trust-anchor", "route=%s cd=%v %s", route, cd, res)
	case withdraw != "none" && answered && !cd:
		verdict = fail("autota/fail-closed/answer-without-trust-anchor", "route=%s %s", route, res)
	case withdraw == "none" && !answered:
		verdict = fail("autota/l3/valid-answer-refused", "route=%s cd=%v %s", route, cd, res)
	case withdraw == "none" && !cd && route != "insecure" && !r.AuthenticatedData:
		verdict = fail("autota/l3/valid-answer-not-authenticated", "route=%s %s", route, res)
	}
	return vlib.Res{Impl: res, Oracle: verdict, Tags: "nt,l3," + strings.Join([]string{withdraw, route}, ",")}
}

var _ = fmt.Sprint
