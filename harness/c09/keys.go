//go:build verif

package main

import (
	"crypto"
	"crypto/ecdh"
	"crypto/ecdsa"
	"crypto/ed25519"
	"crypto/elliptic"
	"crypto/sha256"
	"encoding/base64"
	"fmt"
	"strings"
	"time"

	"github.com/miekg/dns"
	"github.com/semihalev/sdns/internal/verif/vlib"
	"github.com/semihalev/sdns/middleware/resolver/dnssec"
)

// Key pool: material id -> deterministic real key pair (so that op lines
// replay). id%3==2 is ECDSA P-256 (alg 13), the rest Ed25519 (alg 15).
type poolKey struct {
	id  int
	alg uint8
	pub string
	ed  ed25519.PrivateKey
	ec  *ecdsa.PrivateKey
}

var (
	pool    = map[int]*poolKey{}
	pubToID = map[string]int{}
)

func getKey(id int) *poolKey {
	if k, ok := pool[id]; ok {
		return k
	}
	k := &poolKey{id: id}
	seed := sha256.Sum256([]byte(fmt.Sprintf("verif-c09-key-%d", id)))
	if id%3 == 2 {
		k.alg = dns.ECDSAP256SHA256
		for {
			p, err := ecdh.P256().NewPrivateKey(seed[:])
			if err != nil {
				seed = sha256.Sum256(seed[:])
				continue
			}
			pb := p.PublicKey().Bytes() // 0x04 || X || Y
			k.pub = base64.StdEncoding.EncodeToString(pb[1:])
			ec, err := ecdsa.ParseRawPrivateKey(elliptic.P256(), seed[:])
			if err != nil {
				panic(err)
			}
			k.ec = ec
			break
		}
	} else {
		k.alg = dns.ED25519
		k.ed = ed25519.NewKeyFromSeed(seed[:])
		k.pub = base64.StdEncoding.EncodeToString(k.ed.Public().(ed25519.PublicKey))
	}
	pool[id] = k
	pubToID[k.pub] = id
	return k
}

func (k *poolKey) signer() crypto.Signer {
	if k.ec != nil {
		return k.ec
	}
	return k.ed
}

// ownerName: 0 is the root; n > 0 some other owner name (everything is inside ".").
func ownerName(n int) string {
	if n == 0 {
		return "."
	}
	return fmt.Sprintf("o%d.trust-anchor.invalid.", n)
}

func ownerOf(name string) int {
	var n int
	if _, err := fmt.Sscanf(name, "o%d.trust-anchor.invalid.", &n); err == nil {
		return n
	}
	return 0
}

func (k *poolKey) dnskey(flags uint16) *dns.DNSKEY { return k.dnskeyAt(flags, 0) }

func (k *poolKey) dnskeyAt(flags uint16, owner int) *dns.DNSKEY {
	return &dns.DNSKEY{
		Hdr:       dns.RR_Header{Name: ownerName(owner), Rrtype: dns.TypeDNSKEY, Class: dns.ClassINET, Ttl: 3600},
		Flags:     flags,
		Protocol:  3,
		Algorithm: k.alg,
		PublicKey: k.pub,
	}
}

// tagOf is the key tag of material id under the given flags (miekg's
// implementation; exec cross-checks it against the repository's own).
func tagOf(id int, flags uint16) uint16 { return getKey(id).dnskey(flags).KeyTag() }

// kref is one DNSKEY as written on op lines: material.flags.tag
type kref struct {
	id    int
	flags uint16
	tag   uint16
	owner int // 0 = ".", n > 0 = another owner name
}

func mk(id int, flags uint16) kref { return kref{id: id, flags: flags, tag: tagOf(id, flags)} }

func (k kref) String() string {
	if k.owner != 0 {
		return fmt.Sprintf("%d.%d.%d@%d", k.id, k.flags, k.tag, k.owner)
	}
	return fmt.Sprintf("%d.%d.%d", k.id, k.flags, k.tag)
}

func (k kref) at(owner int) kref { k.owner = owner; return k }

func (k kref) rr() *dns.DNSKEY { return getKey(k.id).dnskeyAt(k.flags, k.owner) }

func (k kref) sep() bool     { return k.flags&1 != 0 }
func (k kref) revoked() bool { return k.flags&0x80 != 0 }

func parseRef(s string) kref {
	owner := 0
	if body, o, ok := strings.Cut(s, "@"); ok {
		s, owner = body, vlib.Atoi(o)
	}
	k := parseRef0(s)
	k.owner = owner
	return k
}

func parseRef0(s string) kref {
	p := strings.Split(s, ".")
	if len(p) != 3 {
		panic("bad keyref " + s)
	}
	k := kref{id: vlib.Atoi(p[0]), flags: uint16(vlib.Atoi(p[1])), tag: uint16(vlib.Atoi(p[2]))}
	if got := dnssec.KeyTag(k.rr()); got != k.tag {
		panic(fmt.Sprintf("keyref %s: repository key tag is %d", s, got))
	}
	return k
}

func parseRefs(s string) []kref {
	if s == "-" || s == "" {
		return nil
	}
	var out []kref
	for _, x := range strings.Split(s, ",") {
		out = append(out, parseRef(x))
	}
	return out
}

func joinRefs(ks []kref) string {
	if len(ks) == 0 {
		return "-"
	}
	out := make([]string, len(ks))
	for i, k := range ks {
		out[i] = k.String()
	}
	return strings.Join(out, ",")
}

// badSig is an RRSIG that is served but does not validly cover the RRset.
type badSig struct {
	key  kref
	kind byte // w wrong private key, e expired, f not yet valid, p covers only part of the set, x bit flipped
}

func parseBad(s string) []badSig {
	var out []badSig
	if s == "-" || s == "" {
		return nil
	}
	for _, x := range strings.Split(s, ",") {
		r, kind, _ := strings.Cut(x, ":")
		if kind == "" {
			kind = "w"
		}
		out = append(out, badSig{key: parseRef(r), kind: kind[0]})
	}
	return out
}

func newSig(k kref, incep, exp time.Time) *dns.RRSIG {
	return &dns.RRSIG{
		Hdr:         dns.RR_Header{Name: ".", Rrtype: dns.TypeRRSIG, Class: dns.ClassINET, Ttl: 3600},
		TypeCovered: dns.TypeDNSKEY,
		Algorithm:   getKey(k.id).alg,
		Labels:      0,
		OrigTtl:     servedTTL,
		Expiration:  uint32(exp.Unix()),
		Inception:   uint32(incep.Unix()),
		KeyTag:      k.tag,
		SignerName:  ".",
	}
}

// extra is another RRset of the answer section: DNSKEY records under another owner name
// (keys, all with the same owner > 0) or, without keys, a TXT RRset owned by "."; signers
// validly sign exactly that RRset with signer name ".".
type extra struct {
	keys    []kref
	signers []kref
	named   []namedSig // RRSIGs over this RRset with an explicit Signer's Name
}

// namedSig: key/<n> — n = 0 is ".", n > 0 another name (never one used as a key owner: 7..9).
type namedSig struct {
	key    kref
	signer int
}

// x=<keys|->:<signers|->;...
func parseExtras(s string) []extra {
	var out []extra
	for _, e := range strings.Split(s, ";") {
		p := strings.Split(e, ":")
		x := extra{keys: parseRefs(p[0])}
		if len(p) > 1 {
			x.signers = parseRefs(p[1])
		}
		if len(p) > 2 {
			for _, ns := range strings.Split(p[2], ",") {
				k, n, _ := strings.Cut(ns, "/")
				x.named = append(x.named, namedSig{key: parseRef(k), signer: vlib.Atoi(n)})
			}
		}
		out = append(out, x)
	}
	return out
}

// groundSigners: the signatures over this RRset that count for anchors owned by ".":
// signer name "." only (RFC 4035 §5.3.1: the signer name must be the zone of the RRset's signer key).
func (e extra) groundSigners() []kref {
	out := append([]kref(nil), e.signers...)
	for _, n := range e.named {
		if n.signer == 0 {
			out = append(out, n.key)
		}
	}
	return out
}

func fmtExtras(xs []extra) string {
	var parts []string
	for _, e := range xs {
		p := joinRefs(e.keys) + ":" + joinRefs(e.signers)
		if len(e.named) > 0 {
			var ns []string
			for _, n := range e.named {
				ns = append(ns, fmt.Sprintf("%s/%d", n.key, n.signer))
			}
			p += ":" + strings.Join(ns, ",")
		}
		parts = append(parts, p)
	}
	return strings.Join(parts, ";")
}

func (e extra) rrset(i int) []dns.RR {
	var set []dns.RR
	for _, k := range e.keys {
		set = append(set, k.rr())
	}
	if len(set) == 0 {
		set = append(set, &dns.TXT{Hdr: dns.RR_Header{Name: ".", Rrtype: dns.TypeTXT, Class: dns.ClassINET, Ttl: 3600},
			Txt: []string{fmt.Sprintf("extra rrset %d", i)}})
	}
	return set
}

func signSet(k kref, set []dns.RR, signer int) *dns.RRSIG {
	now := time.Now()
	sig := newSig(k, now.Add(-24*time.Hour), now.Add(7*24*time.Hour))
	sig.SignerName = ownerName(signer)
	sig.Hdr.Name = set[0].Header().Name
	sig.TypeCovered = set[0].Header().Rrtype
	sig.Labels = uint8(dns.CountLabel(set[0].Header().Name))
	if err := sig.Sign(getKey(k.id).signer(), set); err != nil {
		panic(err)
	}
	return sig
}

// timedSig is a cryptographically sound RRSIG over the root DNSKEY RRset whose validity window
// is given in seconds relative to now (ts=<keyref>/<notBefore>/<notAfter>,...).
type timedSig struct {
	key              kref
	notBefore, after int64
	signer           int // Signer's Name field: 0 = "." (the zone of the RRset), n > 0 another name
}

// valid: RFC 4035 §5.3.1 — inside the validity window and the Signer's Name is the zone that
// contains the RRset (for the root DNSKEY RRset: ".").
func (t timedSig) valid() bool { return t.notBefore <= 0 && 0 <= t.after && t.signer == 0 }

func parseTimed(s string) []timedSig {
	var out []timedSig
	for _, e := range strings.Split(s, ",") {
		p := strings.Split(e, "/")
		if len(p) != 3 && len(p) != 4 {
			panic("bad ts= entry " + e)
		}
		t := timedSig{key: parseRef(p[0]), notBefore: vlib.AtoI64(p[1]), after: vlib.AtoI64(p[2])}
		if len(p) == 4 {
			t.signer = vlib.Atoi(p[3])
		}
		out = append(out, t)
	}
	return out
}

// timedRRSIGs signs the root DNSKEY RRset with each window.
func timedRRSIGs(fetch []kref, timed []timedSig) []dns.RR {
	var set, out []dns.RR
	for _, k := range fetch {
		rr := k.rr()
		rr.Hdr.Ttl = servedTTL
		set = append(set, rr)
	}
	if len(set) == 0 {
		return nil
	}
	now := time.Now()
	for _, t := range timed {
		sig := newSig(t.key, now.Add(time.Duration(t.notBefore)*time.Second), now.Add(time.Duration(t.after)*time.Second))
		sig.SignerName = ownerName(t.signer)
		if err := sig.Sign(getKey(t.key.id).signer(), set); err != nil {
			panic(err)
		}
		out = append(out, sig)
	}
	return out
}

func buildAnswer(fetch, signers []kref, bad []badSig, extras ...extra) []dns.RR {
	out := buildRootSet(fetch, signers, bad)
	for i, e := range extras {
		set := e.rrset(i)
		out = append(out, set...)
		for _, k := range e.signers {
			out = append(out, signSet(k, set, 0))
		}
		for _, n := range e.named {
			out = append(out, signSet(n.key, set, n.signer))
		}
	}
	return out
}

// servedTTL is the TTL of the root DNSKEY RRset (and the OrigTtl of its RRSIGs) in the answers
// built next; the tracked / configured records carry 3600. Nothing may depend on it.
var servedTTL uint32 = 3600

func buildRootSet(fetch, signers []kref, bad []badSig) []dns.RR {
	var set []dns.RR
	for _, k := range fetch {
		rr := k.rr()
		rr.Hdr.Ttl = servedTTL
		set = append(set, rr)
	}
	out := append([]dns.RR(nil), set...)
	if len(set) == 0 {
		return out
	}
	now := time.Now()
	for _, k := range signers {
		sig := newSig(k, now.Add(-24*time.Hour), now.Add(7*24*time.Hour))
		if err := sig.Sign(getKey(k.id).signer(), set); err != nil {
			panic(err)
		}
		out = append(out, sig)
	}
	for _, b := range bad {
		incep, exp := now.Add(-24*time.Hour), now.Add(7*24*time.Hour)
		signWith := getKey(b.key.id)
		data := set
		switch b.kind {
		case 'w':
			// a different private key of the same algorithm
			other := b.key.id + 3000
			for getKey(other).alg != signWith.alg {
				other++
			}
			signWith = getKey(other)
		case 'e':
			incep, exp = now.Add(-48*time.Hour), now.Add(-time.Hour)
		case 'f':
			incep, exp = now.Add(time.Hour), now.Add(48*time.Hour)
		case 'p':
			// made over other data: the served records plus one that is not served (a strict
			// subset would coincide with the RRset when the answer repeats a record)
			data = append(append([]dns.RR(nil), set...), getKey(b.key.id+5000).dnskey(256))
		}
		sig := newSig(b.key, incep, exp)
		if err := sig.Sign(signWith.signer(), data); err != nil {
			panic(err)
		}
		if b.kind == 'x' {
			raw, _ := base64.StdEncoding.DecodeString(sig.Signature)
			raw[len(raw)/2] ^= 0x10
			sig.Signature = base64.StdEncoding.EncodeToString(raw)
		}
		out = append(out, sig)
	}
	return out
}
