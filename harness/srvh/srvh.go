//go:build verif

// Package srvh starts the REAL sdns server (server.Server with its UDP/TCP
// engines, and ServeRaw / ServeMsg entry points) over a real middleware
// pipeline whose tail is a scripted stub instead of the resolver, so the
// client-facing surface (admission, accesslist, ratelimit, edns, hosts,
// cache, wire fast path, transports) can be driven in process.
// middleware.Setup is process-global, so only one Live exists at a time.
package srvh

import (
	"context"
	"fmt"
	"net"
	"os"
	"path/filepath"
	"sync"
	"sync/atomic"
	"time"

	"github.com/miekg/dns"
	"github.com/semihalev/sdns/config"
	"github.com/semihalev/sdns/middleware"
	"github.com/semihalev/sdns/middleware/accesslist"
	"github.com/semihalev/sdns/middleware/as112"
	"github.com/semihalev/sdns/middleware/blocklist"
	"github.com/semihalev/sdns/middleware/cache"
	"github.com/semihalev/sdns/middleware/chaos"
	"github.com/semihalev/sdns/middleware/dns64"
	"github.com/semihalev/sdns/middleware/edns"
	"github.com/semihalev/sdns/middleware/hostsfile"
	"github.com/semihalev/sdns/middleware/ratelimit"
	"github.com/semihalev/sdns/middleware/recovery"
	"github.com/semihalev/sdns/middleware/reflex"
	"github.com/semihalev/sdns/middleware/views"
	"github.com/semihalev/sdns/server"
)

// Stub is the scripted tail of the pipeline (stands where resolver/forwarder are).
type Stub struct {
	mu sync.Mutex
	// Respond builds the upstream response for a request; nil result = write nothing.
	Respond func(req *dns.Msg) *dns.Msg
	// Delay before responding; Panic makes the handler panic for a request.
	Delay func(req *dns.Msg) time.Duration
	Panic func(req *dns.Msg) bool
	Calls atomic.Int64
	Seen  []dns.Question
}

func (s *Stub) Name() string { return "stub" }

func (s *Stub) ServeDNS(ctx context.Context, ch *middleware.Chain) {
	ctx, req := ch.Materialize(ctx)
	if req == nil {
		return
	}
	s.Calls.Add(1)
	s.mu.Lock()
	if len(req.Question) > 0 && len(s.Seen) < 1<<16 {
		s.Seen = append(s.Seen, req.Question[0])
	}
	respond, delay, pan := s.Respond, s.Delay, s.Panic
	s.mu.Unlock()
	if pan != nil && pan(req) {
		panic("srvh: scripted handler panic")
	}
	if delay != nil {
		if d := delay(req); d > 0 {
			select {
			case <-time.After(d):
			case <-ctx.Done():
			}
		}
	}
	var resp *dns.Msg
	if respond != nil {
		resp = respond(req)
	} else {
		resp = new(dns.Msg)
		resp.SetReply(req)
		resp.RecursionAvailable = true
	}
	if resp != nil {
		_ = ch.Writer.WriteMsg(resp)
	}
	ch.Cancel()
}

// Set replaces the script atomically.
func (s *Stub) Set(respond func(*dns.Msg) *dns.Msg) {
	s.mu.Lock()
	s.Respond = respond
	s.mu.Unlock()
}

// Live is one running configuration.
type Live struct {
	Cfg    *config.Config
	Srv    *server.Server
	Stub   *Stub
	Cache  *cache.Cache
	Addr   string // "127.0.0.1:port" (UDP and TCP) when listening
	Dir    string
	cancel context.CancelFunc
}

// Opts selects which real handlers stand in front of the stub. The order is
// always the default chain's order.
type Opts struct {
	Handlers []string // subset of: recovery accesslist ratelimit reflex edns chaos hostsfile views blocklist as112 dns64 cache; default: recovery edns cache
	Tweak    func(cfg *config.Config)
	Listen   bool // bind real UDP+TCP sockets on a loopback port and Run
}

var defaultOrder = []string{"recovery", "accesslist", "ratelimit", "reflex", "edns", "chaos", "hostsfile", "views", "blocklist", "as112", "dns64", "cache"}

var seq atomic.Uint32

func freePort() int {
	for i := 0; i < 100; i++ {
		pc, err := net.ListenPacket("udp", "127.0.0.1:0")
		if err != nil {
			continue
		}
		port := pc.LocalAddr().(*net.UDPAddr).Port
		ln, err := net.Listen("tcp", fmt.Sprintf("127.0.0.1:%d", port))
		pc.Close()
		if err != nil {
			continue
		}
		ln.Close()
		return port
	}
	panic("no free port")
}

// Start builds the pipeline through middleware.Register/Setup (after
// middleware.Reset) and creates the server.
func Start(o Opts) *Live {
	middleware.Reset()
	base := os.Getenv("VERIF_DIR")
	if base == "" {
		base = "/verif"
	}
	dir := filepath.Join(base, "build", "tmp-srvh", fmt.Sprintf("s%d-%d", os.Getpid(), seq.Add(1)))
	_ = os.MkdirAll(dir, 0o750)
	cfg := new(config.Config)
	cfg.Directory = dir
	cfg.CacheSize = 4096
	cfg.Expire = 600
	cfg.QueryTimeout.Duration = 3 * time.Second
	cfg.Timeout.Duration = 500 * time.Millisecond
	cfg.Bind = fmt.Sprintf("127.0.0.1:%d", freePort())
	cfg.BlockListDir = filepath.Join(dir, "bl")
	if o.Tweak != nil {
		o.Tweak(cfg)
	}
	want := map[string]bool{}
	hs := o.Handlers
	if len(hs) == 0 {
		hs = []string{"recovery", "edns", "cache"}
	}
	for _, h := range hs {
		want[h] = true
	}
	l := &Live{Cfg: cfg, Stub: &Stub{}, Dir: dir, Addr: cfg.Bind}
	ctors := map[string]middleware.Constructor{
		"recovery":   func(c *config.Config) middleware.Handler { return recovery.New(c) },
		"accesslist": func(c *config.Config) middleware.Handler { return accesslist.New(c) },
		"ratelimit":  func(c *config.Config) middleware.Handler { return ratelimit.New(c) },
		"reflex":     func(c *config.Config) middleware.Handler { return reflex.New(c) },
		"edns":       func(c *config.Config) middleware.Handler { return edns.New(c) },
		"chaos":      func(c *config.Config) middleware.Handler { return chaos.New(c) },
		"hostsfile":  func(c *config.Config) middleware.Handler { return hostsfile.New(c) },
		"views":      func(c *config.Config) middleware.Handler { return views.New(c) },
		"blocklist":  func(c *config.Config) middleware.Handler { return blocklist.New(c) },
		"as112":      func(c *config.Config) middleware.Handler { return as112.New(c) },
		"dns64":      func(c *config.Config) middleware.Handler { return dns64.New(c) },
		"cache":      func(c *config.Config) middleware.Handler { l.Cache = cache.New(c); return l.Cache },
	}
	for _, name := range defaultOrder {
		if want[name] {
			middleware.Register(name, ctors[name])
		}
	}
	middleware.Register("stub", func(*config.Config) middleware.Handler { return l.Stub })
	middleware.Setup(cfg)
	l.Srv = server.New(cfg)
	if o.Listen {
		ctx, cancel := context.WithCancel(context.Background())
		l.cancel = cancel
		if err := l.Srv.Run(ctx); err != nil {
			cancel()
			panic(err)
		}
	}
	return l
}

// Stop shuts the server down and removes the working directory.
func (l *Live) Stop() {
	if l.cancel != nil {
		l.cancel()
		deadline := time.Now().Add(5 * time.Second)
		for !l.Srv.Stopped() && time.Now().Before(deadline) {
			time.Sleep(10 * time.Millisecond)
		}
	}
	l.Srv.Stop()
	_ = os.RemoveAll(l.Dir)
	middleware.Reset()
}

// Raw serves one raw packet through Server.ServeRaw on a strict-slot job
// (the path the UDP/TCP engines use) and returns everything written plus
// whether ServeRaw reported the packet handled (false = engine-side FORMERR).
func (l *Live) Raw(packet []byte, remote net.Addr) (writes [][]byte, handled, strict bool) {
	job := &server.VerifJob{Remote: remote}
	handled = l.Srv.ServeRaw(job, packet, time.Now())
	return job.Writes, handled, job.VerifTookStrict()
}

// RawInline runs the inline pass and, when it hands off, the worker replay.
func (l *Live) RawInline(packet []byte, remote net.Addr) (writes [][]byte, inlineHandled, replayed bool) {
	job := &server.VerifJob{Remote: remote}
	if !l.Srv.InlineReady() {
		l.Srv.ServeRaw(job, packet, time.Now())
		return job.Writes, false, false
	}
	inlineHandled = l.Srv.ServeRawInline(job, packet, time.Now())
	if !inlineHandled {
		replayed = true
		l.Srv.ServeRawReplay(job, packet, time.Now())
	}
	return job.Writes, inlineHandled, replayed
}

// MsgWriter captures what ServeMsg writes.
type MsgWriter struct {
	Remote net.Addr
	ProtoS string
	Msgs   []*dns.Msg
	Raws   [][]byte
}

func (w *MsgWriter) LocalAddr() net.Addr  { return &net.UDPAddr{IP: net.IPv4(127, 0, 0, 1), Port: 53} }
func (w *MsgWriter) RemoteAddr() net.Addr { return w.Remote }
func (w *MsgWriter) Close() error         { return nil }
func (w *MsgWriter) Proto() string        { return w.ProtoS }
func (w *MsgWriter) WriteMsg(m *dns.Msg) error {
	w.Msgs = append(w.Msgs, m.Copy())
	return nil
}
func (w *MsgWriter) Write(b []byte) (int, error) {
	w.Raws = append(w.Raws, append([]byte(nil), b...))
	m := new(dns.Msg)
	if err := m.Unpack(b); err == nil {
		w.Msgs = append(w.Msgs, m)
	}
	return len(b), nil
}

// Msg serves one decoded request through Server.ServeMsg (the DoH/DoQ/embedder entry).
func (l *Live) Msg(req *dns.Msg, remote net.Addr, proto string) *MsgWriter {
	w := &MsgWriter{Remote: remote, ProtoS: proto}
	l.Srv.ServeMsg(context.Background(), w, req)
	return w
}
